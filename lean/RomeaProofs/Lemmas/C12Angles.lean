import RomeaModel.Pose
import RomeaProofs.RealInst
import Mathlib.Analysis.SpecialFunctions.Complex.LogDeriv
import Mathlib.Analysis.SpecialFunctions.Trigonometric.InverseDeriv
import Mathlib.Analysis.Complex.RealDeriv
import Mathlib.Tactic.Linarith
import Mathlib.Tactic.Ring
import Mathlib.Tactic.FieldSimp

/-!
# Derivatives of the normalised Euler-angle extraction along a curve (helper lemmas for C12)

`between0And2Pi (atan2 y x)` is the polar angle of `(x, y)` in `[0, 2π)`.  It is discontinuous exactly on the
non-negative real axis (`y = 0 ∧ 0 ≤ x`), and elsewhere it equals `arg (-(x + i y)) + π`, which is differentiable
(`Complex.log` on the slit plane).  `between0And2Pi (-asin x)` is discontinuous at `x = 0` (the value jumps
between `0` and `2π`) and differentiable elsewhere on `(-1, 1)`.
-/
namespace Romea.C12
open Romea.Pose

theorem twoPi_real : (twoPi : ℝ) = 2 * Real.pi := by simp [twoPi]

/-- on `(-2π, 2π)` the normaliser adds `2π` to negative values and nothing else -/
theorem between0And2Pi_of_abs_lt (v : ℝ) (h : |v| < 2 * Real.pi) :
    between0And2Pi v = if v < 0 then v + 2 * Real.pi else v := by
  have h1 : fmodStep v (twoPi : ℝ) = v := by simp [fmodStep, twoPi_real, h]
  simp only [between0And2Pi, fmod, h1]
  simp [twoPi_real]

/-- the polar angle in `[0, 2π)` off the non-negative real axis -/
theorem between0And2Pi_atan2 (x y : ℝ) (h : x < 0 ∨ y ≠ 0) :
    between0And2Pi (Trans.atan2 y x) = Complex.arg (-(⟨x, y⟩ : ℂ)) + Real.pi := by
  set z : ℂ := ⟨x, y⟩ with hz
  have habs : |Complex.arg z| < 2 * Real.pi := by
    rw [abs_lt]; constructor <;> linarith [Complex.neg_pi_lt_arg z, Complex.arg_le_pi z, Real.pi_pos]
  rw [trans_atan2, ← hz, between0And2Pi_of_abs_lt _ habs]
  rcases lt_trichotomy y 0 with hy | hy | hy
  · have : Complex.arg z < 0 := Complex.arg_neg_iff.mpr (by simpa [hz] using hy)
    rw [if_pos this, Complex.arg_neg_eq_arg_add_pi_of_im_neg (by simpa [hz] using hy)]; ring
  · have hx : x < 0 := by rcases h with h | h; exact h; exact absurd hy h
    have hpi : Complex.arg z = Real.pi := Complex.arg_eq_pi_iff.mpr ⟨by simpa [hz] using hx, by simpa [hz] using hy⟩
    have hneg : -z = ((-x : ℝ) : ℂ) := by apply Complex.ext <;> simp [hz, hy]
    rw [hpi, if_neg (by linarith [Real.pi_pos]), hneg, Complex.arg_ofReal_of_nonneg (by linarith)]; ring
  · have : ¬ Complex.arg z < 0 := not_lt.mpr (Complex.arg_nonneg_iff.mpr (by simpa [hz] using le_of_lt hy))
    rw [if_neg this, Complex.arg_neg_eq_arg_sub_pi_of_im_pos (by simpa [hz] using hy)]; ring

/-- derivative of the normalised polar angle along a differentiable curve `(x t, y t)` that is not on the
    non-negative real axis at `t₀` -/
theorem hasDerivAt_between0And2Pi_atan2 {x y : ℝ → ℝ} {x' y' t₀ : ℝ}
    (hx : HasDerivAt x x' t₀) (hy : HasDerivAt y y' t₀) (h : x t₀ < 0 ∨ y t₀ ≠ 0) :
    HasDerivAt (fun t => between0And2Pi (Trans.atan2 (y t) (x t)))
      ((x t₀ * y' - y t₀ * x') / (x t₀ * x t₀ + y t₀ * y t₀)) t₀ := by
  -- the curve w = -(x + i y) in ℂ
  let w : ℝ → ℂ := fun t => -(((x t : ℝ) : ℂ) + ((y t : ℝ) : ℂ) * Complex.I)
  have hw : HasDerivAt w (-(((x' : ℝ) : ℂ) + ((y' : ℝ) : ℂ) * Complex.I)) t₀ :=
    ((hx.ofReal_comp).add ((hy.ofReal_comp).mul_const Complex.I)).neg
  have hwz : ∀ t, w t = -(⟨x t, y t⟩ : ℂ) := by
    intro t; apply Complex.ext <;> simp [w]
  have hslit : w t₀ ∈ Complex.slitPlane := by
    rw [Complex.mem_slitPlane_iff]
    rcases h with h | h
    · left; simp [w]; exact h
    · right; simp [w]; exact h
  have hlog := hw.clog_real hslit
  have him : HasDerivAt (fun t => (Complex.log (w t)).im)
      ((-(((x' : ℝ) : ℂ) + ((y' : ℝ) : ℂ) * Complex.I) / w t₀).im) t₀ :=
    (Complex.imCLM.hasFDerivAt.comp_hasDerivAt t₀ hlog)
  have hne : x t₀ * x t₀ + y t₀ * y t₀ ≠ 0 := by
    rcases h with h | h
    · have := mul_pos_of_neg_of_neg h h; have := mul_self_nonneg (y t₀); linarith
    · have := mul_self_pos.mpr h; have := mul_self_nonneg (x t₀); linarith
  have hval : (-(((x' : ℝ) : ℂ) + ((y' : ℝ) : ℂ) * Complex.I) / w t₀).im =
      (x t₀ * y' - y t₀ * x') / (x t₀ * x t₀ + y t₀ * y t₀) := by
    simp only [w, Complex.div_im, Complex.normSq_apply]
    simp
    field_simp
  rw [hval] at him
  simp only [Complex.log_im] at him
  -- near t₀ the normalised angle is arg (w t) + π
  have hev : (fun t => between0And2Pi (Trans.atan2 (y t) (x t))) =ᶠ[nhds t₀] fun t => Complex.arg (w t) + Real.pi := by
    have hopen : ∀ᶠ t in nhds t₀, w t ∈ Complex.slitPlane :=
      hw.continuousAt.eventually (Complex.isOpen_slitPlane.mem_nhds hslit)
    filter_upwards [hopen] with t ht
    rw [hwz t, between0And2Pi_atan2]
    rw [hwz t, Complex.mem_slitPlane_iff] at ht
    rcases ht with ht | ht
    · left; simpa using ht
    · right; simpa using ht
  exact (him.add_const Real.pi).congr_of_eventuallyEq hev

/-- derivative of the normalised pitch `between0And2Pi (-asin (x t))` where `-1 < x t₀ < 1` and `x t₀ ≠ 0` -/
theorem hasDerivAt_between0And2Pi_neg_asin {x : ℝ → ℝ} {x' t₀ : ℝ}
    (hx : HasDerivAt x x' t₀) (hlo : -1 < x t₀) (hhi : x t₀ < 1) (h0 : x t₀ ≠ 0) :
    HasDerivAt (fun t => between0And2Pi (-Trans.asin (x t))) (-x' / Real.sqrt (1 - x t₀ * x t₀)) t₀ := by
  have hasin : HasDerivAt (fun t => -Real.arcsin (x t)) (-x' / Real.sqrt (1 - x t₀ * x t₀)) t₀ := by
    have h1 : HasDerivAt (fun t => Real.arcsin (x t)) (1 / Real.sqrt (1 - x t₀ ^ 2) * x') t₀ :=
      (Real.hasDerivAt_arcsin (ne_of_gt hlo) (ne_of_lt hhi)).comp t₀ hx
    refine h1.neg.congr_deriv ?_
    rw [pow_two]; ring
  have habs : ∀ v : ℝ, |-Real.arcsin v| < 2 * Real.pi := by
    intro v
    rw [abs_neg, abs_lt]
    constructor <;> linarith [Real.neg_pi_div_two_le_arcsin v, Real.arcsin_le_pi_div_two v, Real.pi_pos]
  rcases lt_or_gt_of_ne h0 with hneg | hpos
  · -- x < 0 near t₀: -asin x > 0, the normaliser is the identity
    have hev : (fun t => between0And2Pi (-Trans.asin (x t))) =ᶠ[nhds t₀] fun t => -Real.arcsin (x t) := by
      have : ∀ᶠ t in nhds t₀, x t < 0 := hx.continuousAt.eventually (gt_mem_nhds hneg)
      filter_upwards [this] with t ht
      rw [trans_asin, between0And2Pi_of_abs_lt _ (habs _), if_neg]
      have := Real.arcsin_lt_zero.mpr ht
      linarith
    exact hasin.congr_of_eventuallyEq hev
  · -- x > 0 near t₀: -asin x < 0, the normaliser adds 2π
    have hev : (fun t => between0And2Pi (-Trans.asin (x t))) =ᶠ[nhds t₀] fun t => -Real.arcsin (x t) + 2 * Real.pi := by
      have : ∀ᶠ t in nhds t₀, 0 < x t := hx.continuousAt.eventually (lt_mem_nhds hpos)
      filter_upwards [this] with t ht
      rw [trans_asin, between0And2Pi_of_abs_lt _ (habs _), if_pos]
      have := Real.arcsin_pos.mpr ht
      linarith
    exact (hasin.add_const _).congr_of_eventuallyEq hev

end Romea.C12
