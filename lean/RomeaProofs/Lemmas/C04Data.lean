import RomeaProofs.Lemmas.C04Spec
import Mathlib.Algebra.BigOperators.Group.List.Basic

/-!
# C04: facts about the list of corresponding pairs (means, cross-covariance, scatter)
-/
namespace Romea.Registration
open Matrix
open scoped MatrixOrder

variable {d : Nat}

abbrev Pairs (d : Nat) := List ((Fin d → ℝ) × (Fin d → ℝ))

/-! ### permutation of the list -/

theorem meanL_perm {l l' : List (Fin d → ℝ)} (h : l.Perm l') : meanL l = meanL l' := by
  funext i
  unfold meanL
  rw [(h.map _).sum_eq, h.length_eq]

theorem covL_perm {P P' : Pairs d} (h : P.Perm P') : covL P = covL P' := by
  ext i j
  unfold covL
  simp only [Matrix.of_apply]
  rw [meanL_perm (h.map Prod.fst), meanL_perm (h.map Prod.snd)]
  exact (h.map _).sum_eq

theorem specOf_perm (svd : Mat d d ℝ → SVD d ℝ) {P P' : Pairs d} (h : P.Perm P') : specOf svd P = specOf svd P' := by
  unfold specOf
  rw [covL_perm h, meanL_perm (h.map Prod.fst), meanL_perm (h.map Prod.snd)]

/-! ### list sums -/

theorem list_sum_finset_comm {β : Type} (l : List β) (f : β → Fin d → ℝ) :
    (l.map (fun q => ∑ k, f q k)).sum = ∑ k, (l.map (fun q => f q k)).sum := by
  induction l with
  | nil => simp
  | cons a l ih => simp [Finset.sum_add_distrib, ih]

theorem list_sum_const_mul {β : Type} (l : List β) (c : ℝ) (f : β → ℝ) :
    (l.map (fun q => c * f q)).sum = c * (l.map f).sum := by
  induction l with
  | nil => simp
  | cons a l ih => simp [ih, mul_add]

theorem list_sum_mul_const {β : Type} (l : List β) (c : ℝ) (f : β → ℝ) :
    (l.map (fun q => f q * c)).sum = (l.map f).sum * c := by
  induction l with
  | nil => simp
  | cons a l ih => simp [ih, add_mul]

theorem list_sum_add {β : Type} (l : List β) (f g : β → ℝ) :
    (l.map (fun q => f q + g q)).sum = (l.map f).sum + (l.map g).sum := by
  induction l with
  | nil => simp
  | cons a l ih => simp [ih]; ring

theorem list_sum_const {β : Type} (l : List β) (c : ℝ) : (l.map (fun _ => c)).sum = (l.length : ℝ) * c := by
  induction l with
  | nil => simp
  | cons a l ih => simp [ih]; ring

theorem list_sum_congr {β : Type} (l : List β) (f g : β → ℝ) (h : ∀ q ∈ l, f q = g q) :
    (l.map f).sum = (l.map g).sum := by
  rw [List.map_congr_left h]

/-! ### scatter -/

/-- centred second moments about an arbitrary centre `m` -/
noncomputable def momentL (m : Fin d → ℝ) (L : List (Fin d → ℝ)) : Matrix (Fin d) (Fin d) ℝ :=
  Matrix.of fun i k => (L.map (fun s => (s i - m i) * (s k - m k))).sum

/-- scatter matrix `Σ (s - s̄)(s - s̄)ᵀ` of a list of points -/
noncomputable def scatterL (L : List (Fin d → ℝ)) : Matrix (Fin d) (Fin d) ℝ := momentL (meanL L) L

theorem momentL_psd (m : Fin d → ℝ) (L : List (Fin d → ℝ)) : (momentL m L).PosSemidef := by
  induction L with
  | nil =>
    have : momentL m [] = 0 := by ext i k; simp [momentL]
    rw [this]; exact Matrix.PosSemidef.zero
  | cons s L ih =>
    have : momentL m (s :: L) = Matrix.vecMulVec (s - m) (star (s - m)) + momentL m L := by
      ext i k; simp [momentL, Matrix.vecMulVec_apply]
    rw [this]
    exact (Matrix.posSemidef_vecMulVec_self_star (s - m)).add ih

theorem scatterL_psd (L : List (Fin d → ℝ)) : (scatterL L).PosSemidef := momentL_psd _ L

/-! ### rigidly related data -/

/-- every target is the image of its source under `x ↦ Q x + τ` -/
def Rigid (Q : Matrix (Fin d) (Fin d) ℝ) (τ : Fin d → ℝ) (P : Pairs d) : Prop :=
  ∀ q ∈ P, q.2 = Q *ᵥ q.1 + τ

theorem rigid_mean {Q : Matrix (Fin d) (Fin d) ℝ} {τ : Fin d → ℝ} {P : Pairs d} (hR : Rigid Q τ P) (hne : P ≠ []) :
    meanL (P.map Prod.snd) = Q *ᵥ meanL (P.map Prod.fst) + τ := by
  funext j
  have hN : (P.length : ℝ) ≠ 0 := by
    have : P.length ≠ 0 := by intro h; exact hne (List.length_eq_zero_iff.mp h)
    exact_mod_cast this
  simp only [meanL, List.map_map, Function.comp_def, List.length_map, Pi.add_apply, Matrix.mulVec, dotProduct]
  rw [list_sum_congr P (fun q => q.2 j) (fun q => (∑ k, Q j k * q.1 k) + τ j)
    (by intro q hq; rw [hR q hq]; simp [Matrix.mulVec, dotProduct])]
  rw [list_sum_add, list_sum_const, list_sum_finset_comm]
  simp only [list_sum_const_mul]
  rw [add_div, Finset.sum_div]
  congr 1
  · apply Finset.sum_congr rfl; intro k _; rw [mul_div_assoc]
  · field_simp

theorem rigid_cov {Q : Matrix (Fin d) (Fin d) ℝ} {τ : Fin d → ℝ} {P : Pairs d} (hR : Rigid Q τ P) (hne : P ≠ []) :
    covL P = scatterL (P.map Prod.fst) * Qᵀ := by
  ext i j
  have hm := rigid_mean hR hne
  simp only [covL, scatterL, momentL, Matrix.of_apply, Matrix.mul_apply, Matrix.transpose_apply, List.map_map,
    Function.comp_def]
  rw [hm]
  rw [list_sum_congr P _ (fun q => ∑ k, (q.1 i - meanL (P.map Prod.fst) i) * (q.1 k - meanL (P.map Prod.fst) k) * Q j k)
    (by
      intro q hq
      rw [hR q hq]
      simp only [Pi.add_apply, Matrix.mulVec, dotProduct]
      rw [add_sub_add_right_eq_sub, ← Finset.sum_sub_distrib, Finset.mul_sum]
      apply Finset.sum_congr rfl; intro k _; ring)]
  rw [list_sum_finset_comm]
  apply Finset.sum_congr rfl
  intro k _
  rw [list_sum_mul_const]

/-! ### isotropic scaling of both sets -/

/-- both sets multiplied by `s` -/
def scaleP (s : ℝ) (P : Pairs d) : Pairs d := P.map (fun q => (fun i => q.1 i * s, fun i => q.2 i * s))

theorem meanL_scale_fst (s : ℝ) (P : Pairs d) : meanL ((scaleP s P).map Prod.fst) = fun i => meanL (P.map Prod.fst) i * s := by
  funext i
  simp only [meanL, scaleP, List.map_map, Function.comp_def, List.length_map]
  rw [list_sum_mul_const]; ring

theorem meanL_scale_snd (s : ℝ) (P : Pairs d) : meanL ((scaleP s P).map Prod.snd) = fun i => meanL (P.map Prod.snd) i * s := by
  funext i
  simp only [meanL, scaleP, List.map_map, Function.comp_def, List.length_map]
  rw [list_sum_mul_const]; ring

theorem covL_scale (s : ℝ) (P : Pairs d) : covL (scaleP s P) = (s * s) • covL P := by
  ext i j
  rw [Matrix.smul_apply]
  simp only [covL, Matrix.of_apply, meanL_scale_fst, meanL_scale_snd]
  simp only [scaleP, List.map_map, Function.comp_def, smul_eq_mul]
  rw [← list_sum_const_mul]
  apply list_sum_congr
  intro q _; ring

end Romea.Registration

namespace Romea.Registration
open Matrix

variable {d : Nat}

theorem meanL_map_scale (s : ℝ) (L : List (Fin d → ℝ)) :
    meanL (L.map (fun x => fun i => x i * s)) = fun i => meanL L i * s := by
  funext i
  simp only [meanL, List.map_map, Function.comp_def, List.length_map]
  rw [list_sum_mul_const]; ring

theorem scatterL_scale (s : ℝ) (L : List (Fin d → ℝ)) :
    scatterL (L.map (fun x => fun i => x i * s)) = (s * s) • scatterL L := by
  ext i k
  rw [Matrix.smul_apply]
  simp only [scatterL, momentL, Matrix.of_apply, meanL_map_scale, List.map_map, Function.comp_def, smul_eq_mul]
  rw [← list_sum_const_mul]
  apply list_sum_congr
  intro q _; ring

theorem scaleP_fst (s : ℝ) (P : Pairs d) : (scaleP s P).map Prod.fst = (P.map Prod.fst).map (fun x => fun i => x i * s) := by
  simp [scaleP, List.map_map, Function.comp_def]

theorem rigid_scale {Q : Matrix (Fin d) (Fin d) ℝ} {τ : Fin d → ℝ} {P : Pairs d} (s : ℝ) (h : Rigid Q τ P) :
    Rigid Q (fun i => τ i * s) (scaleP s P) := by
  intro q hq
  simp only [scaleP, List.mem_map] at hq
  obtain ⟨q0, hq0, rfl⟩ := hq
  funext i
  have := congrFun (h q0 hq0) i
  simp only [Pi.add_apply, Matrix.mulVec, dotProduct] at this ⊢
  rw [this, add_mul, Finset.sum_mul]
  congr 1
  apply Finset.sum_congr rfl; intro k _; ring

end Romea.Registration
