import RomeaProofs.Lemmas.C10Euler

/-!
# C10 helper lemmas: quaternion normalisation, SmartRotation3D, rigid_transformation3, the 2D pair
-/
namespace Romea.C10
open Romea.Rotation

/-! ## unit quaternions give proper rotations -/

theorem isProper_hmat (q : Quat ℝ) (h : normSq q = 1) : IsProperRotation (hmat q) := by
  rw [isProper_iff]
  have h2 : normSq q ^ 2 = 1 := by rw [h]; norm_num
  have h3 : normSq q ^ 3 = 1 := by rw [h]; norm_num
  simp only [normSq] at h2 h3
  simp only [hmat]
  refine ⟨⟨?_, ?_, ?_, ?_, ?_, ?_⟩, ?_⟩
  · linear_combination h2
  · linear_combination h2
  · linear_combination h2
  · ring
  · ring
  · ring
  · linear_combination h3

/-! ## `normalized()` -/

def qscale (s : ℝ) (q : Quat ℝ) : Quat ℝ := ⟨s * q.w, s * q.x, s * q.y, s * q.z⟩

theorem qnormalized_real (q : Quat ℝ) :
    qnormalized q = if 0 < normSq q then
      ⟨q.w / Real.sqrt (normSq q), q.x / Real.sqrt (normSq q), q.y / Real.sqrt (normSq q), q.z / Real.sqrt (normSq q)⟩
      else q := by
  have e : (q.x * q.x + q.z * q.z) + (q.y * q.y + q.w * q.w) = normSq q := by simp only [normSq]; ring
  simp only [qnormalized, Nat.cast_zero, trans_sqrt, e]

theorem normSq_nonneg (q : Quat ℝ) : 0 ≤ normSq q := by
  simp only [normSq]; nlinarith [mul_self_nonneg q.w, mul_self_nonneg q.x, mul_self_nonneg q.y, mul_self_nonneg q.z]

theorem normSq_eq_zero {q : Quat ℝ} (h : normSq q = 0) : q = ⟨0, 0, 0, 0⟩ := by
  simp only [normSq] at h
  have hw : q.w = 0 := by nlinarith [mul_self_nonneg q.w, mul_self_nonneg q.x, mul_self_nonneg q.y, mul_self_nonneg q.z]
  have hx : q.x = 0 := by nlinarith [mul_self_nonneg q.w, mul_self_nonneg q.x, mul_self_nonneg q.y, mul_self_nonneg q.z]
  have hy : q.y = 0 := by nlinarith [mul_self_nonneg q.w, mul_self_nonneg q.x, mul_self_nonneg q.y, mul_self_nonneg q.z]
  have hz : q.z = 0 := by nlinarith [mul_self_nonneg q.w, mul_self_nonneg q.x, mul_self_nonneg q.y, mul_self_nonneg q.z]
  exact Quat.ext' hw hx hy hz

/-- a non-zero quaternion is normalised to a unit quaternion (the division guard `sqrt(z) ≠ 0` holds) -/
theorem normSq_qnormalized (q : Quat ℝ) (h : 0 < normSq q) :
    Real.sqrt (normSq q) ≠ 0 ∧ normSq (qnormalized q) = 1 := by
  have hs : 0 < Real.sqrt (normSq q) := Real.sqrt_pos.mpr h
  refine ⟨hs.ne', ?_⟩
  rw [qnormalized_real, if_pos h]
  have hsq : Real.sqrt (normSq q) * Real.sqrt (normSq q) = normSq q := Real.mul_self_sqrt h.le
  generalize Real.sqrt (normSq q) = S at hs hsq ⊢
  have hne : S ≠ 0 := hs.ne'
  simp only [normSq] at hsq ⊢
  field_simp
  nlinarith [hsq]

theorem normSq_qscale (s : ℝ) (q : Quat ℝ) : normSq (qscale s q) = s * s * normSq q := by
  simp only [normSq, qscale]; ring

theorem toRotationMatrix_neg (q : Quat ℝ) : toRotationMatrix ⟨-q.w, -q.x, -q.y, -q.z⟩ = toRotationMatrix q := by
  apply Mat3.ext' <;> simp only [toRotationMatrix] <;> ring

/-- rescaling a quaternion by any non-zero factor does not change the matrix `quaternionToEulerAngles` decodes -/
theorem toRotationMatrix_qnormalized_qscale (s : ℝ) (hs : s ≠ 0) (q : Quat ℝ) :
    toRotationMatrix (qnormalized (qscale s q)) = toRotationMatrix (qnormalized q) := by
  rcases (normSq_nonneg q).eq_or_lt with h0 | hpos
  · have hq := normSq_eq_zero h0.symm
    have : qscale s q = q := by rw [hq]; simp [qscale]
    rw [this]
  · have hpos' : 0 < normSq (qscale s q) := by
      rw [normSq_qscale]; exact mul_pos (mul_self_pos.mpr hs) hpos
    have hsqrt : Real.sqrt (normSq (qscale s q)) = |s| * Real.sqrt (normSq q) := by
      rw [normSq_qscale, Real.sqrt_mul (mul_self_nonneg s), Real.sqrt_mul_self_eq_abs]
    have hn : Real.sqrt (normSq q) ≠ 0 := (Real.sqrt_pos.mpr hpos).ne'
    rw [qnormalized_real (qscale s q), if_pos hpos', qnormalized_real q, if_pos hpos, hsqrt]
    rcases lt_or_gt_of_ne hs with hneg | hp
    · rw [abs_of_neg hneg]
      have e : ∀ c : ℝ, s * c / (-s * Real.sqrt (normSq q)) = -(c / Real.sqrt (normSq q)) := by
        intro c; field_simp
      simp only [qscale, e]
      exact toRotationMatrix_neg ⟨q.w / Real.sqrt (normSq q), q.x / Real.sqrt (normSq q), q.y / Real.sqrt (normSq q), q.z / Real.sqrt (normSq q)⟩
    · rw [abs_of_pos hp]
      have e : ∀ c : ℝ, s * c / (s * Real.sqrt (normSq q)) = c / Real.sqrt (normSq q) := by
        intro c; field_simp
      simp only [qscale, e]

/-! ## `SmartRotation3D` -/

/-- the coefficients `init` never assigns hold the identity's values -/
def SmartInv (s : Smart ℝ) : Prop :=
  (s.rx.m00 = 1 ∧ s.rx.m01 = 0 ∧ s.rx.m02 = 0 ∧ s.rx.m10 = 0 ∧ s.rx.m20 = 0) ∧
  (s.ry.m01 = 0 ∧ s.ry.m10 = 0 ∧ s.ry.m11 = 1 ∧ s.ry.m12 = 0 ∧ s.ry.m21 = 0) ∧
  (s.rz.m02 = 0 ∧ s.rz.m12 = 0 ∧ s.rz.m20 = 0 ∧ s.rz.m21 = 0 ∧ s.rz.m22 = 1)

theorem smartInv_new : SmartInv (Smart.new : Smart ℝ) := by
  simp [SmartInv, Smart.new, Mat3.identity]

theorem smartInv_init (s : Smart ℝ) (h : SmartInv s) (ax ay az : ℝ) :
    SmartInv (Smart.init s ax ay az) ∧ (Smart.init s ax ay az).r = rotZYX ax ay az := by
  obtain ⟨⟨x0, x1, x2, x3, x4⟩, ⟨y0, y1, y2, y3, y4⟩, ⟨z0, z1, z2, z3, z4⟩⟩ := h
  constructor
  · simp [SmartInv, Smart.init, *]
  · apply Mat3.ext' <;> simp [Smart.init, rotZYX, rotX, rotY, rotZ, Mat3.mul, *]

/-! ## `rigid_transformation3` -/

theorem angleAxisX (a : ℝ) : angleAxisToMatrix a unitX = rotX a := by
  apply Mat3.ext' <;> simp [angleAxisToMatrix, unitX, rotX]
theorem angleAxisY (a : ℝ) : angleAxisToMatrix a unitY = rotY a := by
  apply Mat3.ext' <;> simp [angleAxisToMatrix, unitY, rotY]
theorem angleAxisZ (a : ℝ) : angleAxisToMatrix a unitZ = rotZ a := by
  apply Mat3.ext' <;> simp [angleAxisToMatrix, unitZ, rotZ]

theorem identity_mul (a : Mat3 ℝ) : Mat3.mul Mat3.identity a = a := by
  apply Mat3.ext' <;> simp [Mat3.mul, Mat3.identity]

theorem mulVec_arch (arch : QArch) (a : Mat3 ℝ) (v : Vec3 ℝ) : Mat3.mulVec arch a v = Mat3.mulVec .generic a v := by
  cases arch
  · rfl
  · apply Vec3.ext' <;> simp only [Mat3.mulVec] <;> ring
  · apply Vec3.ext'
    · simp only [Mat3.mulVec]
    · simp only [Mat3.mulVec]
    · simp only [Mat3.mulVec]; ring

/-! ## 2D -/

def IsProperRotation2 (m : Mat2 ℝ) : Prop :=
  (m.m00 * m.m00 + m.m10 * m.m10 = 1 ∧ m.m01 * m.m01 + m.m11 * m.m11 = 1 ∧ m.m00 * m.m01 + m.m10 * m.m11 = 0) ∧
  m.m00 * m.m11 - m.m01 * m.m10 = 1

theorem Mat2.ext' {a b : Mat2 ℝ} (h00 : a.m00 = b.m00) (h01 : a.m01 = b.m01) (h10 : a.m10 = b.m10) (h11 : a.m11 = b.m11) :
    a = b := by
  cases a; cases b; simp_all

/-- a proper 2D rotation is `[[c, -s], [s, c]]` -/
theorem proper2_shape (m : Mat2 ℝ) (h : IsProperRotation2 m) : m.m11 = m.m00 ∧ m.m01 = -m.m10 := by
  obtain ⟨⟨h0, h1, h2⟩, hd⟩ := h
  have hz : (m.m00 - m.m11) * (m.m00 - m.m11) + (m.m01 + m.m10) * (m.m01 + m.m10) = 0 := by nlinarith
  have a := mul_self_nonneg (m.m00 - m.m11)
  have b := mul_self_nonneg (m.m01 + m.m10)
  have ha : (m.m00 - m.m11) * (m.m00 - m.m11) = 0 := by linarith
  have hb : (m.m01 + m.m10) * (m.m01 + m.m10) = 0 := by linarith
  have := mul_self_eq_zero.mp ha
  have := mul_self_eq_zero.mp hb
  constructor <;> linarith

end Romea.C10
