import RomeaProofs.Lemmas.C04Data
import Mathlib.LinearAlgebra.Matrix.Trace
import Mathlib.LinearAlgebra.Matrix.Adjugate
import Mathlib.Tactic.FinCases

/-!
# C04: least-squares optimality (Kabsch / Umeyama)

`costL P R t = Σ ‖R s + t − t'‖²` over the pairs.  After centring, minimising the cost over rotations is maximising
`tr (R C)` with `C = covL P`; with `C = U S Vᵀ` this is `Σ Mᵢᵢ Sᵢ` for the orthogonal `M = Vᵀ R U`.

* `trace_le_of_orth`: `Σ Mᵢᵢ Sᵢ ≤ Σ Sᵢ` for orthogonal `M`, `S ≥ 0` — settles every case where the determinant
  correction does not fire, in every dimension.
* `ReflTraceBound d`: `Σ Mᵢᵢ Sᵢ ≤ S₀ + … + S_{d-2} − S_{d-1}` for orthogonal `M` of determinant `-1` and descending
  `S ≥ 0` — what the corrected case needs; proved here for `d = 2` and `d = 3`.
-/
namespace Romea.Registration
open Matrix

variable {d : Nat}

/-- sum of squared residuals of the motion `(R, t)` on the pairs -/
noncomputable def costL (P : Pairs d) (R : Matrix (Fin d) (Fin d) ℝ) (t : Fin d → ℝ) : ℝ :=
  (P.map (fun q => ∑ i, ((R *ᵥ q.1) i + t i - q.2 i) ^ 2)).sum

/-! ### centring -/

theorem sum_centered (L : List (Fin d → ℝ)) (hne : L ≠ []) (k : Fin d) :
    (L.map (fun x => x k - meanL L k)).sum = 0 := by
  have hN : (L.length : ℝ) ≠ 0 := by
    have : L.length ≠ 0 := by intro h; exact hne (List.length_eq_zero_iff.mp h)
    exact_mod_cast this
  have h1 : (L.map (fun x => x k - meanL L k)).sum = (L.map (fun x => x k + -(meanL L k))).sum := by
    apply list_sum_congr; intro q _; ring
  rw [h1, list_sum_add, list_sum_const]
  unfold meanL
  field_simp
  ring

private theorem sum_centered_fst (P : Pairs d) (hne : P ≠ []) (k : Fin d) :
    (P.map (fun q => q.1 k - meanL (P.map Prod.fst) k)).sum = 0 := by
  have := sum_centered (P.map Prod.fst) (by simpa using hne) k
  simpa [List.map_map, Function.comp_def] using this

private theorem sum_centered_snd (P : Pairs d) (hne : P ≠ []) (k : Fin d) :
    (P.map (fun q => q.2 k - meanL (P.map Prod.snd) k)).sum = 0 := by
  have := sum_centered (P.map Prod.snd) (by simpa using hne) k
  simpa [List.map_map, Function.comp_def] using this

/-- residual of the centred problem -/
noncomputable def resC (P : Pairs d) (R : Matrix (Fin d) (Fin d) ℝ) (q : (Fin d → ℝ) × (Fin d → ℝ)) (i : Fin d) : ℝ :=
  (∑ k, R i k * (q.1 k - meanL (P.map Prod.fst) k)) - (q.2 i - meanL (P.map Prod.snd) i)

/-- offset left after centring -/
noncomputable def offC (P : Pairs d) (R : Matrix (Fin d) (Fin d) ℝ) (t : Fin d → ℝ) (i : Fin d) : ℝ :=
  (∑ k, R i k * meanL (P.map Prod.fst) k) + t i - meanL (P.map Prod.snd) i

private theorem sum_resC (P : Pairs d) (hne : P ≠ []) (R : Matrix (Fin d) (Fin d) ℝ) (i : Fin d) :
    (P.map (fun q => resC P R q i)).sum = 0 := by
  unfold resC
  have h1 : (P.map (fun q => (∑ k, R i k * (q.1 k - meanL (P.map Prod.fst) k)) -
      (q.2 i - meanL (P.map Prod.snd) i))).sum =
      (P.map (fun q => (∑ k, R i k * (q.1 k - meanL (P.map Prod.fst) k)) +
        -(q.2 i - meanL (P.map Prod.snd) i))).sum := by
    apply list_sum_congr; intro q _; ring
  rw [h1, list_sum_add, list_sum_finset_comm]
  have h2 : (P.map (fun q => -(q.2 i - meanL (P.map Prod.snd) i))).sum = 0 := by
    have := list_sum_const_mul P (-1) (fun q => q.2 i - meanL (P.map Prod.snd) i)
    simp only [neg_mul, one_mul] at this
    rw [this, sum_centered_snd P hne i]; simp
  rw [h2, add_zero]
  apply Finset.sum_eq_zero
  intro k _
  rw [list_sum_const_mul, sum_centered_fst P hne k, mul_zero]

/-- the cost splits into the centred cost and `N` times the squared offset -/
theorem cost_decomp (P : Pairs d) (hne : P ≠ []) (R : Matrix (Fin d) (Fin d) ℝ) (t : Fin d → ℝ) :
    costL P R t = (P.map (fun q => ∑ i, (resC P R q i) ^ 2)).sum + (P.length : ℝ) * ∑ i, (offC P R t i) ^ 2 := by
  unfold costL
  have h1 : ∀ q ∈ P, (∑ i, ((R *ᵥ q.1) i + t i - q.2 i) ^ 2) =
      (∑ i, (resC P R q i) ^ 2) + ((∑ i, 2 * offC P R t i * resC P R q i) + ∑ i, (offC P R t i) ^ 2) := by
    intro q _
    rw [← Finset.sum_add_distrib, ← Finset.sum_add_distrib]
    apply Finset.sum_congr rfl
    intro i _
    have : (R *ᵥ q.1) i + t i - q.2 i = resC P R q i + offC P R t i := by
      simp only [resC, offC, Matrix.mulVec, dotProduct]
      have : ∑ k, R i k * (q.1 k - meanL (P.map Prod.fst) k) =
          (∑ k, R i k * q.1 k) - ∑ k, R i k * meanL (P.map Prod.fst) k := by
        rw [← Finset.sum_sub_distrib]; apply Finset.sum_congr rfl; intro k _; ring
      rw [this]; ring
    rw [this]; ring
  rw [list_sum_congr P _ _ h1, list_sum_add, list_sum_add, list_sum_const,
    list_sum_finset_comm P (fun q i => 2 * offC P R t i * resC P R q i)]
  have h2 : ∑ i, (P.map (fun q => 2 * offC P R t i * resC P R q i)).sum = 0 := by
    apply Finset.sum_eq_zero
    intro i _
    rw [list_sum_const_mul, sum_resC P hne R i, mul_zero]
  rw [h2]; ring

theorem cost_ge_centered (P : Pairs d) (hne : P ≠ []) (R : Matrix (Fin d) (Fin d) ℝ) (t : Fin d → ℝ) :
    (P.map (fun q => ∑ i, (resC P R q i) ^ 2)).sum ≤ costL P R t := by
  rw [cost_decomp P hne R t]
  have : 0 ≤ (P.length : ℝ) * ∑ i, (offC P R t i) ^ 2 :=
    mul_nonneg (Nat.cast_nonneg _) (Finset.sum_nonneg (fun i _ => sq_nonneg _))
  linarith

theorem cost_eq_centered (P : Pairs d) (hne : P ≠ []) (R : Matrix (Fin d) (Fin d) ℝ) :
    costL P R (fun i => meanL (P.map Prod.snd) i - (R *ᵥ meanL (P.map Prod.fst)) i) =
      (P.map (fun q => ∑ i, (resC P R q i) ^ 2)).sum := by
  rw [cost_decomp P hne R]
  have : ∀ i, offC P R (fun i => meanL (P.map Prod.snd) i - (R *ᵥ meanL (P.map Prod.fst)) i) i = 0 := by
    intro i; simp [offC, Matrix.mulVec, dotProduct]
  simp [this]

/-! ### the centred cost of an orthogonal matrix is `K − 2 tr (R C)` -/

/-- `Σ ‖s̃‖² + ‖t̃‖²` -/
noncomputable def energyL (P : Pairs d) : ℝ :=
  (P.map (fun q => (∑ k, (q.1 k - meanL (P.map Prod.fst) k) ^ 2) + ∑ i, (q.2 i - meanL (P.map Prod.snd) i) ^ 2)).sum

private theorem orth_norm {R : Matrix (Fin d) (Fin d) ℝ} (hR : Rᵀ * R = 1) (x : Fin d → ℝ) :
    ∑ i, (∑ k, R i k * x k) ^ 2 = ∑ k, (x k) ^ 2 := by
  have h1 : ∑ i, (∑ k, R i k * x k) ^ 2 = (R *ᵥ x) ⬝ᵥ (R *ᵥ x) := by
    simp only [dotProduct, Matrix.mulVec, sq]
  have h2 : (R *ᵥ x) ⬝ᵥ (R *ᵥ x) = x ⬝ᵥ x := by
    calc (R *ᵥ x) ⬝ᵥ (R *ᵥ x) = ((R *ᵥ x) ᵥ* R) ⬝ᵥ x := Matrix.dotProduct_mulVec _ _ _
      _ = (Rᵀ *ᵥ (R *ᵥ x)) ⬝ᵥ x := by rw [Matrix.mulVec_transpose]
      _ = ((Rᵀ * R) *ᵥ x) ⬝ᵥ x := by rw [Matrix.mulVec_mulVec]
      _ = x ⬝ᵥ x := by rw [hR, Matrix.one_mulVec]
  rw [h1, h2]
  simp only [dotProduct, sq]

theorem centered_cost_eq (P : Pairs d) {R : Matrix (Fin d) (Fin d) ℝ} (hR : Rᵀ * R = 1) :
    (P.map (fun q => ∑ i, (resC P R q i) ^ 2)).sum = energyL P - 2 * (R * covL P).trace := by
  have h1 : ∀ q ∈ P, (∑ i, (resC P R q i) ^ 2) =
      ((∑ k, (q.1 k - meanL (P.map Prod.fst) k) ^ 2) + ∑ i, (q.2 i - meanL (P.map Prod.snd) i) ^ 2) +
        (-2) * ∑ i, ∑ k, R i k * ((q.1 k - meanL (P.map Prod.fst) k) * (q.2 i - meanL (P.map Prod.snd) i)) := by
    intro q _
    rw [← orth_norm hR (fun k => q.1 k - meanL (P.map Prod.fst) k), ← Finset.sum_add_distrib, Finset.mul_sum,
      ← Finset.sum_add_distrib]
    apply Finset.sum_congr rfl
    intro i _
    unfold resC
    have : ∑ k, R i k * ((q.1 k - meanL (P.map Prod.fst) k) * (q.2 i - meanL (P.map Prod.snd) i)) =
        (∑ k, R i k * (q.1 k - meanL (P.map Prod.fst) k)) * (q.2 i - meanL (P.map Prod.snd) i) := by
      rw [Finset.sum_mul]; apply Finset.sum_congr rfl; intro k _; ring
    rw [this]; ring
  rw [list_sum_congr P _ _ h1, list_sum_add, list_sum_const_mul]
  unfold energyL
  have h2 : (P.map (fun q => ∑ i, ∑ k, R i k * ((q.1 k - meanL (P.map Prod.fst) k) *
      (q.2 i - meanL (P.map Prod.snd) i)))).sum = (R * covL P).trace := by
    rw [list_sum_finset_comm]
    simp only [Matrix.trace, Matrix.diag, Matrix.mul_apply, covL, Matrix.of_apply]
    apply Finset.sum_congr rfl
    intro i _
    rw [list_sum_finset_comm]
    apply Finset.sum_congr rfl
    intro k _
    rw [list_sum_const_mul]
  rw [h2]; ring

/-! ### trace bounds -/

theorem orth_entry_le_one {M : Matrix (Fin d) (Fin d) ℝ} (hM : Mᵀ * M = 1) (i j : Fin d) : M i j ≤ 1 := by
  have h := congrFun (congrFun hM j) j
  simp only [Matrix.mul_apply, Matrix.transpose_apply, Matrix.one_apply_eq] at h
  have h2 : M i j * M i j ≤ ∑ k, M k j * M k j :=
    Finset.single_le_sum (f := fun k => M k j * M k j) (fun k _ => mul_self_nonneg _) (Finset.mem_univ i)
  nlinarith [sq_nonneg (M i j - 1)]

theorem trace_le_of_orth {M : Matrix (Fin d) (Fin d) ℝ} (hM : Mᵀ * M = 1) (S : Fin d → ℝ) (hS : ∀ i, 0 ≤ S i) :
    ∑ i, M i i * S i ≤ ∑ i, S i := by
  apply Finset.sum_le_sum
  intro i _
  have := orth_entry_le_one hM i i
  nlinarith [hS i]

/-- the trace inequality needed when the determinant correction fires -/
def ReflTraceBound (d : Nat) : Prop :=
  ∀ (M : Matrix (Fin d) (Fin d) ℝ) (S : Fin d → ℝ), Mᵀ * M = 1 → M.det = -1 → (∀ i, 0 ≤ S i) →
    (∀ i j, i ≤ j → S j ≤ S i) → ∑ i, M i i * S i ≤ ∑ i, (if i.1 + 1 = d then -1 else 1) * S i

theorem reflTraceBound_two : ReflTraceBound 2 := by
  intro M S hM hdet hS hanti
  have h00 := congrFun (congrFun hM 0) 0
  have h11 := congrFun (congrFun hM 1) 1
  have h01 := congrFun (congrFun hM 0) 1
  simp [Matrix.mul_apply, Fin.sum_univ_two] at h00 h11 h01
  rw [Matrix.det_fin_two] at hdet
  have hs := hanti 0 1 (by decide)
  have h0 := hS 1
  -- (a + e)² + (b − c)² = 2 + 2 det = 0
  have hae : M 0 0 + M 1 1 = 0 := by
    have : (M 0 0 + M 1 1) ^ 2 + (M 0 1 - M 1 0) ^ 2 = 0 := by nlinarith
    nlinarith [sq_nonneg (M 0 0 + M 1 1), sq_nonneg (M 0 1 - M 1 0)]
  have ha : M 0 0 ≤ 1 := orth_entry_le_one hM 0 0
  simp [Fin.sum_univ_two]
  have : M 1 1 = - M 0 0 := by linarith
  rw [this]
  nlinarith

/-- an orthogonal 3×3 matrix of determinant −1 has trace at most 1 -/
theorem trace_le_one_of_refl3 {M : Matrix (Fin 3) (Fin 3) ℝ} (hM : Mᵀ * M = 1) (hdet : M.det = -1) :
    M 0 0 + M 1 1 + M 2 2 ≤ 1 := by
  -- adjugate M = det M • M⁻¹ = -Mᵀ
  have hMM : M * Mᵀ = 1 := orth_mul_transpose hM
  have hadj : M.adjugate = -Mᵀ := by
    have h1 : M * M.adjugate = M.det • (1 : Matrix (Fin 3) (Fin 3) ℝ) := Matrix.mul_adjugate M
    have h2 : Mᵀ * (M * M.adjugate) = Mᵀ * (M.det • (1 : Matrix (Fin 3) (Fin 3) ℝ)) := by rw [h1]
    rw [← Matrix.mul_assoc, hM, Matrix.one_mul, hdet] at h2
    rw [h2]; simp
  have a00 := congrFun (congrFun hadj 0) 0
  have a11 := congrFun (congrFun hadj 1) 1
  have a22 := congrFun (congrFun hadj 2) 2
  rw [Matrix.adjugate_fin_three] at a00 a11 a22
  simp at a00 a11 a22
  have c0 := congrFun (congrFun hM 0) 0
  have c1 := congrFun (congrFun hM 1) 1
  have c2 := congrFun (congrFun hM 2) 2
  simp [Matrix.mul_apply, Fin.sum_univ_three] at c0 c1 c2
  -- T² + 2T − 3 = −Σ_{i<j} (Mᵢⱼ − Mⱼᵢ)² ≤ 0
  have key : (M 0 0 + M 1 1 + M 2 2) ^ 2 + 2 * (M 0 0 + M 1 1 + M 2 2) - 3 ≤ 0 := by
    nlinarith [sq_nonneg (M 0 1 - M 1 0), sq_nonneg (M 0 2 - M 2 0), sq_nonneg (M 1 2 - M 2 1)]
  by_contra hcon
  rw [not_le] at hcon
  nlinarith [mul_pos (by linarith : (0 : ℝ) < M 0 0 + M 1 1 + M 2 2 - 1) (by linarith : (0 : ℝ) < M 0 0 + M 1 1 + M 2 2 + 3)]

theorem reflTraceBound_three : ReflTraceBound 3 := by
  intro M S hM hdet hS hanti
  have ht := trace_le_one_of_refl3 hM hdet
  have h0 : M 0 0 ≤ 1 := orth_entry_le_one hM 0 0
  have h1 : M 1 1 ≤ 1 := orth_entry_le_one hM 1 1
  have s01 := hanti 0 1 (by decide)
  have s12 := hanti 1 2 (by decide)
  have s2 := hS 2
  simp [Fin.sum_univ_three]
  -- Abel summation: Σ Mᵢᵢ Sᵢ = S₂ tr M + (S₁ − S₂)(M₀₀ + M₁₁) + (S₀ − S₁) M₀₀
  nlinarith [mul_nonneg s2 (by linarith : (0 : ℝ) ≤ 1 - (M 0 0 + M 1 1 + M 2 2)),
    mul_nonneg (by linarith : (0 : ℝ) ≤ S 1 - S 2) (by linarith : (0 : ℝ) ≤ 2 - (M 0 0 + M 1 1)),
    mul_nonneg (by linarith : (0 : ℝ) ≤ S 0 - S 1) (by linarith : (0 : ℝ) ≤ 1 - M 0 0)]

/-! ### the estimator's rotation maximises `tr (R C)` over proper rotations -/

private theorem trace_with_svd {U V Q : Matrix (Fin d) (Fin d) ℝ} (S : Fin d → ℝ) :
    (Q * (U * Matrix.diagonal S * Vᵀ)).trace = ∑ i, (Vᵀ * Q * U) i i * S i := by
  have h1 : (Q * (U * Matrix.diagonal S * Vᵀ)).trace = ((Vᵀ * Q * U) * Matrix.diagonal S).trace := by
    rw [show Q * (U * Matrix.diagonal S * Vᵀ) = (Q * U * Matrix.diagonal S) * Vᵀ by simp only [Matrix.mul_assoc],
      Matrix.trace_mul_comm]
    simp only [Matrix.mul_assoc]
  rw [h1]
  simp only [Matrix.trace, Matrix.diag, Matrix.mul_diagonal]

theorem trace_max {C U V : Matrix (Fin d) (Fin d) ℝ} {S : Fin d → ℝ} (hU : Uᵀ * U = 1) (hV : Vᵀ * V = 1)
    (hS : ∀ i, 0 ≤ S i) (hanti : ∀ i j, i ≤ j → S j ≤ S i) (hC : C = U * Matrix.diagonal S * Vᵀ)
    (hbound : U.det * V.det < 0 → ReflTraceBound d)
    {Q : Matrix (Fin d) (Fin d) ℝ} (hQ : Qᵀ * Q = 1) (hQd : Q.det = 1) :
    (Q * C).trace ≤ ((corrected U V * Uᵀ) * C).trace := by
  rw [hC, trace_with_svd, trace_with_svd]
  -- M = Vᵀ Q U is orthogonal with determinant det V · det U
  have hMorth : (Vᵀ * Q * U)ᵀ * (Vᵀ * Q * U) = 1 := by
    have hVV := orth_mul_transpose hV
    simp only [Matrix.transpose_mul, Matrix.transpose_transpose, Matrix.mul_assoc]
    rw [← Matrix.mul_assoc V, hVV, Matrix.one_mul, ← Matrix.mul_assoc Qᵀ, hQ, Matrix.one_mul, hU]
  have hMdet : (Vᵀ * Q * U).det = U.det * V.det := by
    rw [Matrix.det_mul, Matrix.det_mul, Matrix.det_transpose, hQd]; ring
  by_cases hflip : U.det * V.det < 0
  · -- corrected: Vᵀ (V F) Uᵀ U = F
    have hdiag : Vᵀ * (corrected U V * Uᵀ) * U = flipLast d := by
      unfold corrected
      rw [if_pos hflip]
      simp only [Matrix.mul_assoc]
      rw [hU, Matrix.mul_one, ← Matrix.mul_assoc, hV, Matrix.one_mul]
    rw [hdiag]
    have hMd : (Vᵀ * Q * U).det = -1 := by
      rw [hMdet]
      rcases orth_det_cases hU with hu | hu <;> rcases orth_det_cases hV with hv | hv <;>
        (rw [hu, hv] at hflip ⊢; first | (exfalso; norm_num at hflip; done) | norm_num)
    have := hbound hflip (Vᵀ * Q * U) S hMorth hMd hS hanti
    simpa [flipLast, Matrix.diagonal_apply] using this
  · have hdiag : Vᵀ * (corrected U V * Uᵀ) * U = 1 := by
      unfold corrected
      rw [if_neg hflip]
      simp only [Matrix.mul_assoc]
      rw [hU, Matrix.mul_one, hV]
    rw [hdiag]
    simpa using trace_le_of_orth hMorth S hS

end Romea.Registration
