import RomeaModel.LinReport
import RomeaModel.LinObjects
import RomeaProofs.Lemmas.C19Lin

/-!
# Word-by-word copies; check-up reports (helper lemmas for C19, independent of the generated table)
-/
namespace Romea.Lin
open Romea.Lockset

variable {V A R : Type}

/-! ### word-by-word copies -/

theorem exec_rdList (a : A) (f i : Nat) (js : List Nat) (σ : Store V) (l : Locals V) (r : Option R) :
    execSteps a (σ, l, r) (js.map fun j => (Step.rd (f, j) (i, j) : Step V A R)) =
      (σ, (fun x => if x.1 = i ∧ x.2 ∈ js then σ (f, x.2) else l x), r) := by
  induction js generalizing l with
  | nil => simp
  | cons j js ih =>
    simp only [List.map_cons, execSteps_cons, execStep, ih]
    congr 2
    funext x
    obtain ⟨x1, x2⟩ := x
    simp only [upd, List.mem_cons, Prod.mk.injEq]
    grind

theorem exec_wrList (a : A) (f : Nat) (e : Nat → Locals V → A → V) (js : List Nat) (σ : Store V) (l : Locals V)
    (r : Option R) :
    execSteps a (σ, l, r) (js.map fun j => (Step.wr (f, j) (e j) : Step V A R)) =
      ((fun ad => if ad.1 = f ∧ ad.2 ∈ js then e ad.2 l a else σ ad), l, r) := by
  induction js generalizing σ with
  | nil => simp
  | cons j js ih =>
    simp only [List.map_cons, execSteps_cons, execStep, ih]
    congr 1
    funext x
    obtain ⟨x1, x2⟩ := x
    simp only [upd, List.mem_cons, Prod.mk.injEq]
    grind

theorem exec_rdWords (a : A) (W f i : Nat) (σ : Store V) (l : Locals V) (r : Option R) :
    execSteps a (σ, l, r) (rdWords W f i : List (Step V A R)) =
      (σ, (fun x => if x.1 = i ∧ x.2 < W then σ (f, x.2) else l x), r) := by
  simp [rdWords, exec_rdList]

theorem exec_wrWords (a : A) (W f : Nat) (e : Nat → Locals V → A → V) (σ : Store V) (l : Locals V) (r : Option R) :
    execSteps a (σ, l, r) (wrWords W f e : List (Step V A R)) =
      ((fun ad => if ad.1 = f ∧ ad.2 < W then e ad.2 l a else σ ad), l, r) := by
  simp [wrWords, exec_wrList]

/-! ### check-up reports -/

variable {X : Type} [Inhabited V]

/-- `getReport` (one critical section that copies the report words) changes nothing and returns the words -/
theorem rep_get (c : Class) (g f W : Nat) (fl : Flow V (RepOp X) (List V))
    (hget : c.evsOf "getReport" = [.acq g, .rd f, .rel g])
    (hret : ∀ l, fl.ret l RepOp.getReport = locVec W 1 l) (σ : Store V) :
    (runCall σ (repCall c W fl RepOp.getReport)).1 = σ ∧
    (runCall σ (repCall c W fl RepOp.getReport)).2 = some (vecOf W f σ) := by
  simp only [repCall, RepOp.method, hget, ofEvents, ofEventsFrom, evSteps, runCall, execSteps_append,
    execSteps_cons, execSteps_nil, execStep, exec_rdWords, hret]
  refine ⟨trivial, ?_⟩
  simp only [vecOf, locVec, Option.some.injEq]
  apply List.map_congr_left
  intro j hj
  simp [List.mem_range.mp hj]

/-! ### the concrete `CheckupGreaterThan` data flow meets the sequential contract (used by the examples) -/

theorem gt_eval_evs : gtFrozen.evsOf "evaluate" =
    [.acq 0, .rd 1, .rd 2, .wr 3, .wr 3, .wr 3, .wr 3, .wr 3, .wr 3, .wr 3, .wr 3, .wr 3, .rd 3, .rel 0] := by decide
theorem gt_timeout_evs : gtFrozen.evsOf "timeout" = [.acq 0, .wr 3, .wr 3, .wr 3, .wr 3, .wr 3, .rel 0] := by decide
theorem gt_get_evs : gtFrozen.evsOf "getReport" = [.acq 0, .rd 3, .rel 0] := by decide

theorem gt_eval (thr eps x : Nat) (σ : Store Nat) (hK : gtK thr eps σ) :
    gtK thr eps (runCall σ (repCall gtFrozen 3 gtFlow (.evaluate x))).1 ∧
    vecOf 3 3 (runCall σ (repCall gtFrozen 3 gtFlow (.evaluate x))).1 = pad 3 (gtTriple thr eps (some x)) := by
  obtain ⟨h1, h2⟩ := hK
  simp only [repCall, RepOp.method, gt_eval_evs, ofEvents, ofEventsFrom, evSteps, runCall, execSteps_append,
    execSteps_cons, execSteps_nil, execStep, exec_rdWords, exec_wrWords, gtFlow, gtK]
  refine ⟨by simp [h1, h2], ?_⟩
  simp only [vecOf, pad, gtTriple, gtOK]
  by_cases hc : x + eps > thr
  · simp [hc, h1, h2, List.range_succ]
  · simp [hc, h1, h2, List.range_succ]

theorem gt_timeout (thr eps : Nat) (σ : Store Nat) (hK : gtK thr eps σ) :
    gtK thr eps (runCall σ (repCall gtFrozen 3 gtFlow .timeout)).1 ∧
    vecOf 3 3 (runCall σ (repCall gtFrozen 3 gtFlow .timeout)).1 = pad 3 (gtTriple thr eps none) := by
  obtain ⟨h1, h2⟩ := hK
  simp only [repCall, RepOp.method, gt_timeout_evs, ofEvents, ofEventsFrom, evSteps, runCall, execSteps_append,
    execSteps_cons, execSteps_nil, execStep, exec_rdWords, exec_wrWords, gtFlow, gtK]
  refine ⟨by simp [h1, h2], ?_⟩
  simp [vecOf, pad, gtTriple, List.range_succ]

theorem gt_get (thr eps : Nat) (σ : Store Nat) (hK : gtK thr eps σ) :
    gtK thr eps (runCall σ (repCall gtFrozen 3 gtFlow .getReport)).1 := by
  rw [(rep_get gtFrozen 0 3 3 gtFlow gt_get_evs (fun _ => rfl) σ).1]; exact hK

/-! ### legal histories of the cell and of the one-place buffer -/

/-- results of a legal history of the cell: every `load` returns the initial value or the argument of a `store` -/
theorem sv_results (W : Nat) (cur : List V) (ops : List (SVOp V)) :
    ∀ r ∈ ((svObj W).runList cur ops).2, r = some [] ∨ r = some cur ∨ ∃ v, SVOp.store v ∈ ops ∧ r = some (pad W v) := by
  induction ops generalizing cur with
  | nil => simp [SeqObj.runList]
  | cons op rest ih =>
    intro r hr
    simp only [SeqObj.runList, List.mem_cons] at hr
    cases op with
    | store v =>
      simp only [svObj] at hr ih
      rcases hr with rfl | hr
      · exact Or.inl rfl
      · rcases ih (pad W v) r hr with h | h | ⟨w, hw, h⟩
        · exact Or.inl h
        · exact Or.inr (Or.inr ⟨v, by simp, h⟩)
        · exact Or.inr (Or.inr ⟨w, by simp [hw], h⟩)
    | load =>
      simp only [svObj] at hr ih
      rcases hr with rfl | hr
      · exact Or.inr (Or.inl rfl)
      · rcases ih cur r hr with h | h | ⟨w, hw, h⟩
        · exact Or.inl h
        · exact Or.inr (Or.inl h)
        · exact Or.inr (Or.inr ⟨w, by simp [hw], h⟩)

/-- in a legal history of the one-place buffer the values handed out are, in order, a subsequence of the pending
    value followed by the values stored -/
theorem opt_consumed_sublist (n : Nat) (pend : Option (List Nat)) (ops : List OptOp) :
    (((optObj n).runList pend ops).2.filterMap consumed).Sublist (pend.toList ++ ops.filterMap (OptOp.stored n)) := by
  induction ops generalizing pend with
  | nil => simp [SeqObj.runList]
  | cons op rest ih =>
    cases op with
    | store v =>
      have := ih (some (pad n v))
      simp only [SeqObj.runList, optObj, List.filterMap_cons, consumed, OptOp.stored] at this ⊢
      refine this.trans ?_
      simp only [Option.toList_some, List.singleton_append]
      exact List.sublist_append_right _ _
    | consume =>
      have := ih none
      simp only [SeqObj.runList, optObj, List.filterMap_cons, OptOp.stored] at this ⊢
      cases pend with
      | none => simpa [consumed] using this
      | some v => simpa [consumed] using this

theorem runList_append {S Op R : Type} (o : SeqObj S Op R) (s : S) (a b : List Op) :
    o.runList s (a ++ b) = ((o.runList (o.runList s a).1 b).1, (o.runList s a).2 ++ (o.runList (o.runList s a).1 b).2) := by
  induction a generalizing s with
  | nil => simp [SeqObj.runList]
  | cons x r ih => simp [SeqObj.runList, ih]


end Romea.Lin
