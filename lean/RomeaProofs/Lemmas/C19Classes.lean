import RomeaModel.LinClasses
import RomeaProofs.Lemmas.C19Lin
import RomeaProofs.Lemmas.C19Report

/-!
# The anchored classes refine their sequential specifications (helper lemmas for C19)
-/
namespace Romea.Lin
open Romea.Lockset Romea.Generated.C19

variable {V A R : Type}

/-! ### SharedVariable -/

theorem sv_store_evs : cls_SharedVariable.evsOf "store" = [.acq 0, .wr 1, .rel 0] := by decide
theorem sv_load_evs : cls_SharedVariable.evsOf "load" = [.acq 0, .rd 1, .rel 0] := by decide

variable [Inhabited V]

theorem sv_refines (W : Nat) (op : SVOp V) (σ : Store V) :
    vecOf W 1 (runCall σ (svCall W op)).1 = ((svObj W).step (vecOf W 1 σ) op).1 ∧
    (runCall σ (svCall W op)).2 = ((svObj W).step (vecOf W 1 σ) op).2 := by
  cases op with
  | store v =>
    simp only [svCall, SVOp.method, sv_store_evs, ofEvents, ofEventsFrom, evSteps, runCall, execSteps_append,
      execSteps_cons, execSteps_nil, execStep, exec_rdWords, exec_wrWords, svObj, svFlow]
    refine ⟨?_, trivial⟩
    simp only [vecOf, pad]
    apply List.map_congr_left
    intro j hj
    simp [List.mem_range.mp hj]
  | load =>
    simp only [svCall, SVOp.method, sv_load_evs, ofEvents, ofEventsFrom, evSteps, runCall, execSteps_append,
      execSteps_cons, execSteps_nil, execStep, exec_rdWords, exec_wrWords, svObj, svFlow]
    refine ⟨trivial, ?_⟩
    simp only [vecOf, locVec, Option.some.injEq]
    apply List.map_congr_left
    intro j hj
    simp [List.mem_range.mp hj]

/-! ### SharedOptionalVariable -/

theorem opt_store_evs : cls_SharedOptionalVariable.evsOf "store" = [.acq 0, .wr 1, .rel 0] := by decide
theorem opt_consume_evs : cls_SharedOptionalVariable.evsOf "consume" = [.acq 0, .rd 1, .wr 1, .rel 0] := by decide

theorem opt_refines (n : Nat) (op : OptOp) (σ : Store Nat) :
    optAbs n (runCall σ (optCall n op)).1 = ((optObj n).step (optAbs n σ) op).1 ∧
    (runCall σ (optCall n op)).2 = ((optObj n).step (optAbs n σ) op).2 := by
  cases op with
  | store v =>
    simp only [optCall, OptOp.method, opt_store_evs, ofEvents, ofEventsFrom, evSteps, runCall, execSteps_append,
      execSteps_cons, execSteps_nil, execStep, exec_rdWords, exec_wrWords, optObj, optFlow, optAbs]
    refine ⟨?_, trivial⟩
    simp only [true_and, Nat.zero_lt_succ, if_true, Nat.one_ne_zero, if_false, pad, Option.some.injEq]
    apply List.map_congr_left
    intro j hj
    simp [List.mem_range.mp hj]
  | consume =>
    simp only [optCall, OptOp.method, opt_consume_evs, ofEvents, ofEventsFrom, evSteps, runCall, execSteps_append,
      execSteps_cons, execSteps_nil, execStep, exec_rdWords, exec_wrWords, optObj, optFlow, optAbs]
    refine ⟨by simp, ?_⟩
    simp only [Option.some.injEq]
    have e0 : (if (1 : Nat) = 0 + 1 + 1 ∧ 0 < n + 1 then σ (1, 0) else
        if True ∧ 0 < n + 1 then σ (1, 0) else (emptyLoc : Locals Nat) (1, 0)) = σ (1, 0) := by simp
    rw [e0]
    by_cases hz : σ (1, 0) = 0
    · simp [hz]
    · simp only [hz, if_false, Option.some.injEq]
      apply List.map_congr_left
      intro j hj
      simp [List.mem_range.mp hj]


end Romea.Lin
