import RomeaProofs.Lemmas.C10Rot

/-!
# C10 helper lemmas: quaternions over `ℝ`
-/
namespace Romea.C10
open Romea.Rotation

def normSq (q : Quat ℝ) : ℝ := q.w * q.w + q.x * q.x + q.y * q.y + q.z * q.z

/-- the homogeneous (degree-2) rotation matrix of a quaternion; equals `toRotationMatrix` on unit quaternions and is
    multiplicative for every pair of quaternions -/
def hmat (q : Quat ℝ) : Mat3 ℝ :=
  { m00 := q.w * q.w + q.x * q.x - q.y * q.y - q.z * q.z, m01 := 2 * (q.x * q.y - q.w * q.z), m02 := 2 * (q.x * q.z + q.w * q.y)
    m10 := 2 * (q.x * q.y + q.w * q.z), m11 := q.w * q.w - q.x * q.x + q.y * q.y - q.z * q.z, m12 := 2 * (q.y * q.z - q.w * q.x)
    m20 := 2 * (q.x * q.z - q.w * q.y), m21 := 2 * (q.y * q.z + q.w * q.x), m22 := q.w * q.w - q.x * q.x - q.y * q.y + q.z * q.z }

/-- the three association orders of Eigen's quaternion product denote the same real quaternion -/
theorem qmul_arch (arch : QArch) (a b : Quat ℝ) : qmul arch a b = qmul .generic a b := by
  cases arch
  · rfl
  · apply Quat.ext' <;> simp only [qmul] <;> ring
  · apply Quat.ext' <;> simp only [qmul] <;> ring

theorem normSq_qmul (a b : Quat ℝ) : normSq (qmul .generic a b) = normSq a * normSq b := by
  simp only [normSq, qmul]; ring

theorem hmat_qmul (a b : Quat ℝ) : hmat (qmul .generic a b) = Mat3.mul (hmat a) (hmat b) := by
  apply Mat3.ext' <;> simp only [hmat, qmul, Mat3.mul] <;> ring

theorem toRotationMatrix_of_unit (q : Quat ℝ) (h : normSq q = 1) : toRotationMatrix q = hmat q := by
  simp only [normSq] at h
  apply Mat3.ext' <;> simp only [toRotationMatrix, hmat, Nat.cast_ofNat, Nat.cast_one]
  · linarith
  · ring
  · ring
  · ring
  · linarith
  · ring
  · ring
  · ring
  · linarith

theorem hmat_neg (q : Quat ℝ) : hmat ⟨-q.w, -q.x, -q.y, -q.z⟩ = hmat q := by
  apply Mat3.ext' <;> simp only [hmat] <;> ring

theorem ofSci_half : (OfScientific.ofScientific 5 true 1 : ℝ) = 1 / 2 := by norm_num

theorem quatX (a : ℝ) : quatOfAngleAxis a unitX = ⟨Real.cos (a / 2), Real.sin (a / 2), 0, 0⟩ := by
  have : (2⁻¹ : ℝ) * a = a / 2 := by ring
  simp [quatOfAngleAxis, unitX, ofSci_half, this]
theorem quatY (a : ℝ) : quatOfAngleAxis a unitY = ⟨Real.cos (a / 2), 0, Real.sin (a / 2), 0⟩ := by
  have : (2⁻¹ : ℝ) * a = a / 2 := by ring
  simp [quatOfAngleAxis, unitY, ofSci_half, this]
theorem quatZ (a : ℝ) : quatOfAngleAxis a unitZ = ⟨Real.cos (a / 2), 0, 0, Real.sin (a / 2)⟩ := by
  have : (2⁻¹ : ℝ) * a = a / 2 := by ring
  simp [quatOfAngleAxis, unitZ, ofSci_half, this]

theorem cos_half (a : ℝ) : Real.cos a = Real.cos (a / 2) * Real.cos (a / 2) - Real.sin (a / 2) * Real.sin (a / 2) := by
  have h := Real.cos_two_mul (a / 2)
  have h2 := Real.sin_sq_add_cos_sq (a / 2)
  have : 2 * (a / 2) = a := by ring
  rw [this] at h
  nlinarith
theorem sin_half (a : ℝ) : Real.sin a = 2 * (Real.sin (a / 2) * Real.cos (a / 2)) := by
  have h := Real.sin_two_mul (a / 2)
  have : 2 * (a / 2) = a := by ring
  rw [this] at h
  linarith
theorem half_unit (a : ℝ) : Real.cos (a / 2) * Real.cos (a / 2) + Real.sin (a / 2) * Real.sin (a / 2) = 1 := by
  have h2 := Real.sin_sq_add_cos_sq (a / 2)
  nlinarith

theorem normSq_quatX (a : ℝ) : normSq (quatOfAngleAxis a unitX) = 1 := by
  rw [quatX]; simp only [normSq]; have := half_unit a; linarith
theorem normSq_quatY (a : ℝ) : normSq (quatOfAngleAxis a unitY) = 1 := by
  rw [quatY]; simp only [normSq]; have := half_unit a; linarith
theorem normSq_quatZ (a : ℝ) : normSq (quatOfAngleAxis a unitZ) = 1 := by
  rw [quatZ]; simp only [normSq]; have := half_unit a; linarith

theorem hmat_quatX (a : ℝ) : hmat (quatOfAngleAxis a unitX) = rotX a := by
  rw [quatX]
  have hc := cos_half a; have hs := sin_half a; have hu := half_unit a
  apply Mat3.ext' <;> simp only [hmat, rotX] <;> nlinarith
theorem hmat_quatY (a : ℝ) : hmat (quatOfAngleAxis a unitY) = rotY a := by
  rw [quatY]
  have hc := cos_half a; have hs := sin_half a; have hu := half_unit a
  apply Mat3.ext' <;> simp only [hmat, rotY] <;> nlinarith
theorem hmat_quatZ (a : ℝ) : hmat (quatOfAngleAxis a unitZ) = rotZ a := by
  rw [quatZ]
  have hc := cos_half a; have hs := sin_half a; have hu := half_unit a
  apply Mat3.ext' <;> simp only [hmat, rotZ] <;> nlinarith

theorem normSq_eulerQuat (arch : QArch) (e : Vec3 ℝ) : normSq (eulerAnglesToQuaternion arch e) = 1 := by
  simp only [eulerAnglesToQuaternion, qmul_arch arch, normSq_qmul, normSq_quatX, normSq_quatY, normSq_quatZ, mul_one]

theorem hmat_eulerQuat (arch : QArch) (e : Vec3 ℝ) : hmat (eulerAnglesToQuaternion arch e) = rotZYX e.x e.y e.z := by
  simp only [eulerAnglesToQuaternion, qmul_arch arch, hmat_qmul, hmat_quatX, hmat_quatY, hmat_quatZ, rotZYX]

theorem eulerAnglesToRotation3D_eq (arch : QArch) (e : Vec3 ℝ) :
    eulerAnglesToRotation3D arch e = rotZYX e.x e.y e.z := by
  rw [eulerAnglesToRotation3D, toRotationMatrix_of_unit _ (normSq_eulerQuat arch e), hmat_eulerQuat]

end Romea.C10
