import RomeaModel.RansacSampled
import RomeaProofs.Lemmas.C06Sampler

/-!
# C06 helper lemmas: the sampler composed with the RANSAC skeleton (`RomeaModel/RansacSampled.lean`)

Three groups, the first two at EVERY scalar type (the executed `Float` / `Float32` included):

* **simulation** — a run of the skeleton's loop on the composed model (`sampledOps`) is, step by step, the run of the same loop on the
  skeleton's own rigid model (`rigidOps`) whose scripted oracle list holds what the sampler + geometry will produce (`toRigid`);
* **bookkeeping** — every pass of the loop calls `drawPoints` exactly once: the samples logged, the sampler state and the engine after
  a run are those of the sampler's own sequence (`sampleSeq`, `smpAfter`); and congruence: runs from states that agree on the rigid
  model, the engine, `scale_` and the log agree on everything;
* over ℝ — along the sampler's own sequence the engine stays in range, `scale_` is kept, and each sample has pairwise distinct targets
  while `NoCollapse` holds at each draw (`NoCollapseRun`), which `WellSpread` implies.
-/
namespace Romea.C06
open Romea.Ransac Romea.Sampler Romea.RansacSampled

set_option linter.unusedSectionVars false

/-- a `Run` / `Result` seen through a map of the model state -/
def mapRun {S T α : Type} (f : S → T) (r : Run S α) : Run T α :=
  { s := f r.s, iteration := r.iteration, best := r.best, it := r.it, exited := r.exited }

def mapResult {S T α : Type} (f : S → T) (r : Result S α) : Result T α :=
  { s := f r.s, ret := r.ret, iterations := r.iterations, best := r.best, bound := r.bound, diverged := r.diverged }

section Generic
variable {α β : Type}
variable [Add α] [Sub α] [Mul α] [Div α] [LT α] [DecidableLT α] [LE α] [DecidableLE α] [NatCast α] [Trans α] [Trunc α]
variable [Add β] [Sub β] [Mul β] [Div β] [Neg β] [NatCast β] [Trans β] [Widen β α]

/-! ## Simulation: composed model ↦ skeleton model with the oracle list the sampler produces -/

theorem draw_sim (sc : Scene α β) (cast : α → α) (n : Nat) (s : Sampled α β) :
    (rigidOps cast).draw (toRigid sc (n + 1) s)
      = (toRigid sc n ((sampledOps sc cast).draw s).1, ((sampledOps sc cast).draw s).2) := by
  simp only [toRigid, sampledOps, drawSampled, rigidOps, candSeq, List.length_append, List.length_singleton]

theorem count_sim (sc : Scene α β) (cast : α → α) (n : Nat) (s : Sampled α β) :
    (rigidOps cast).count (toRigid sc n s)
      = (toRigid sc n ((sampledOps sc cast).count s).1, ((sampledOps sc cast).count s).2) := rfl

theorem refine_sim (sc : Scene α β) (cast : α → α) (n : Nat) (s : Sampled α β) :
    (rigidOps cast).refine (toRigid sc n s) = toRigid sc n ((sampledOps sc cast).refine s) := rfl

theorem body_sim (sc : Scene α β) (cast : α → α) (eps : α) (nDraw n : Nat) (r : Run (Sampled α β) α) :
    body (rigidOps cast) eps nDraw (mapRun (toRigid sc (n + 1)) r)
      = mapRun (toRigid sc n) (body (sampledOps sc cast) eps nDraw r) := by
  simp only [body, mapRun, draw_sim, count_sim]
  split
  · split <;> rfl
  · rfl

theorem loop_sim (sc : Scene α β) (cast : α → α) (eps : α) (nDraw : Nat) (fuel n : Nat) (r : Run (Sampled α β) α) :
    ∃ m, loop (rigidOps cast) eps nDraw fuel (mapRun (toRigid sc (n + fuel)) r)
      = mapRun (toRigid sc m) (loop (sampledOps sc cast) eps nDraw fuel r) := by
  induction fuel generalizing n r with
  | zero => exact ⟨n, rfl⟩
  | succ k ih =>
    by_cases h : (r.iteration : α) < r.it.n
    · obtain ⟨m, hm⟩ := ih n (body (sampledOps sc cast) eps nDraw r)
      refine ⟨m, ?_⟩
      have h' : ((mapRun (toRigid sc (n + (k + 1))) r).iteration : α) < (mapRun (toRigid sc (n + (k + 1))) r).it.n := h
      rw [loop, if_pos h', loop, if_pos h, show n + (k + 1) = (n + k) + 1 from rfl, body_sim, hm]
    · refine ⟨n + (k + 1), ?_⟩
      have h' : ¬ ((mapRun (toRigid sc (n + (k + 1))) r).iteration : α) < (mapRun (toRigid sc (n + (k + 1))) r).it.n := h
      rw [loop, if_neg h', loop, if_neg h]
      rfl

/-- **the composed run IS the skeleton's run on the oracle list the sampler + geometry produce**: `estimateModel` on the composed model
    and `estimateModel` on the skeleton's rigid model, scripted with the candidates of the sampler's next `cap + 1` samples, return
    the same verdict, iteration count, best count, bound and divergence flag, and end in the same rigid-model state up to the unread
    rest of the script -/
theorem estimateModel_sim (sc : Scene α β) (cast : α → α) (p eps : α) (cap : Nat) (s : Sampled α β) :
    ∃ m, estimateModel (rigidOps cast) p eps cap (toRigid sc (cap + 1) s)
      = mapResult (toRigid sc m) (estimateModel (sampledOps sc cast) p eps cap s) := by
  obtain ⟨m, hm⟩ := loop_sim sc cast eps ((sampledOps sc cast).nDraw s) (cap + 1) 0
    { s := s, iteration := 0, best := 0, it := Iterations.init p ((sampledOps sc cast).nPts s) cap, exited := false }
  rw [Nat.zero_add] at hm
  have hm' : loop (rigidOps cast) eps ((rigidOps cast).nDraw (toRigid sc (cap + 1) s)) (cap + 1)
      { s := toRigid sc (cap + 1) s, iteration := 0, best := 0,
        it := Iterations.init p ((rigidOps cast).nPts (toRigid sc (cap + 1) s)) cap, exited := false } = _ := hm
  by_cases h1 : (sampledOps sc cast).nPts s < (sampledOps sc cast).minInl s
  · refine ⟨cap + 1, ?_⟩
    have h1' : (rigidOps cast).nPts (toRigid sc (cap + 1) s) < (rigidOps cast).minInl (toRigid sc (cap + 1) s) := h1
    rw [estimateModel, if_pos h1', estimateModel, if_pos h1]
    rfl
  · refine ⟨m, ?_⟩
    have h1' : ¬ (rigidOps cast).nPts (toRigid sc (cap + 1) s) < (rigidOps cast).minInl (toRigid sc (cap + 1) s) := h1
    rw [estimateModel, if_neg h1', estimateModel, if_neg h1]
    simp only [hm']
    by_cases h2 : (loop (sampledOps sc cast) eps ((sampledOps sc cast).nDraw s) (cap + 1)
        { s := s, iteration := 0, best := 0, it := Iterations.init p ((sampledOps sc cast).nPts s) cap, exited := false }).best
          ≤ (sampledOps sc cast).nDraw s
    · have h2' : (mapRun (toRigid sc m) (loop (sampledOps sc cast) eps ((sampledOps sc cast).nDraw s) (cap + 1)
          { s := s, iteration := 0, best := 0, it := Iterations.init p ((sampledOps sc cast).nPts s) cap, exited := false })).best
            ≤ (rigidOps cast).nDraw (toRigid sc (cap + 1) s) := h2
      rw [if_pos h2', if_pos h2]
      rfl
    · have h2' : ¬ (mapRun (toRigid sc m) (loop (sampledOps sc cast) eps ((sampledOps sc cast).nDraw s) (cap + 1)
          { s := s, iteration := 0, best := 0, it := Iterations.init p ((sampledOps sc cast).nPts s) cap, exited := false })).best
            ≤ (rigidOps cast).nDraw (toRigid sc (cap + 1) s) := h2
      rw [if_neg h2', if_neg h2]
      rfl

/-! ## Bookkeeping: one `drawPoints` per pass -/

theorem sampleSeq_succ (sc : Scene α β) (k n : Nat) (st : Sampler.State α β) :
    sampleSeq sc k (n + 1) st
      = (st.drawPoints sc.order sc.pts sc.corrs k).2 :: sampleSeq sc k n (st.drawPoints sc.order sc.pts sc.corrs k).1 := rfl

theorem smpAfter_succ (sc : Scene α β) (k n : Nat) (st : Sampler.State α β) :
    smpAfter sc k (n + 1) st = smpAfter sc k n (st.drawPoints sc.order sc.pts sc.corrs k).1 := rfl

theorem sampleSeq_length (sc : Scene α β) (k n : Nat) (st : Sampler.State α β) : (sampleSeq sc k n st).length = n := by
  induction n generalizing st with
  | zero => rfl
  | succ n ih => rw [sampleSeq_succ, List.length_cons, ih]

/-- what one pass of the loop does to the composed state, whatever the geometry answers -/
theorem body_composed (sc : Scene α β) (cast : α → α) (eps : α) (nDraw : Nat) (r : Run (Sampled α β) α) :
    let dp := r.s.smp.drawPoints sc.order sc.pts sc.corrs (nDrawOf r.s.rigid.dim)
    let b := body (sampledOps sc cast) eps nDraw r
    b.iteration = r.iteration + 1 ∧ b.s.smp = dp.1 ∧ b.s.samples = r.s.samples ++ [dp.2] ∧ b.s.rigid.dim = r.s.rigid.dim ∧
    b.s.rigid.nPts = r.s.rigid.nPts ∧ b.s.rigid.σ = r.s.rigid.σ ∧ b.s.rigid.sorted = r.s.rigid.sorted := by
  intro dp b
  simp only [b, body]
  split_ifs <;> exact ⟨rfl, rfl, rfl, rfl, rfl, rfl, rfl⟩

/-- the loop: `j` passes were executed; the log grew by the sampler's own next `j` samples; the sampler is `j` calls further -/
theorem loop_composed (sc : Scene α β) (cast : α → α) (eps : α) (nDraw fuel : Nat) (r : Run (Sampled α β) α) :
    ∃ j, j ≤ fuel ∧
      (loop (sampledOps sc cast) eps nDraw fuel r).iteration = r.iteration + j ∧
      (loop (sampledOps sc cast) eps nDraw fuel r).s.smp = smpAfter sc (nDrawOf r.s.rigid.dim) j r.s.smp ∧
      (loop (sampledOps sc cast) eps nDraw fuel r).s.samples
        = r.s.samples ++ sampleSeq sc (nDrawOf r.s.rigid.dim) j r.s.smp ∧
      (loop (sampledOps sc cast) eps nDraw fuel r).s.rigid.dim = r.s.rigid.dim := by
  induction fuel generalizing r with
  | zero => exact ⟨0, Nat.le_refl _, rfl, rfl, by simp [loop, sampleSeq], rfl⟩
  | succ k ih =>
    by_cases h : (r.iteration : α) < r.it.n
    · obtain ⟨hb1, hb2, hb3, hb4, _⟩ := body_composed sc cast eps nDraw r
      obtain ⟨j, hj, h1, h2, h3, h4⟩ := ih (body (sampledOps sc cast) eps nDraw r)
      refine ⟨j + 1, by omega, ?_, ?_, ?_, ?_⟩
      · rw [loop, if_pos h, h1, hb1]; omega
      · rw [loop, if_pos h, h2, hb4, hb2, smpAfter_succ]
      · rw [loop, if_pos h, h3, hb4, hb2, hb3, sampleSeq_succ, List.append_assoc]; rfl
      · rw [loop, if_pos h, h4, hb4]
    · have e : loop (sampledOps sc cast) eps nDraw (k + 1) r = { r with exited := true } := by rw [loop, if_neg h]
      rw [e]
      exact ⟨0, Nat.zero_le _, rfl, rfl, by simp [sampleSeq], rfl⟩

/-- the whole `estimateModel` run on the composed model: the log grew by exactly the sampler's next `iterations` samples and the
    sampler is `iterations` calls further (`refine` touches neither) -/
theorem estimateModel_composed (sc : Scene α β) (cast : α → α) (p eps : α) (cap : Nat) (s : Sampled α β) :
    let r := estimateModel (sampledOps sc cast) p eps cap s
    r.iterations ≤ cap + 1 ∧
    r.s.smp = smpAfter sc (nDrawOf s.rigid.dim) r.iterations s.smp ∧
    r.s.samples = s.samples ++ sampleSeq sc (nDrawOf s.rigid.dim) r.iterations s.smp ∧
    r.s.rigid.dim = s.rigid.dim := by
  intro r
  obtain ⟨j, hj, h1, h2, h3, h4⟩ := loop_composed sc cast eps ((sampledOps sc cast).nDraw s) (cap + 1)
    { s := s, iteration := 0, best := 0, it := Iterations.init p ((sampledOps sc cast).nPts s) cap, exited := false }
  simp only [Nat.zero_add] at h1
  simp only [r, estimateModel]
  split
  · exact ⟨Nat.zero_le _, rfl, by simp [sampleSeq], rfl⟩
  · split
    · simp only [h1]
      exact ⟨hj, h2, h3, h4⟩
    · simp only [h1]
      exact ⟨hj, h2, h3, h4⟩

theorem smpAfter_engine (sc : Scene α β) (k n : Nat) (st : Sampler.State α β) :
    (smpAfter sc k n st).engine = next^[2 * k * n] st.engine ∧ (smpAfter sc k n st).scale = st.scale := by
  induction n generalizing st with
  | zero => exact ⟨rfl, rfl⟩
  | succ n ih =>
    obtain ⟨h1, h2⟩ := ih (st.drawPoints sc.order sc.pts sc.corrs k).1
    rw [smpAfter_succ]
    constructor
    · rw [h1, drawPoints_engine_any, ← Function.iterate_add_apply]
      congr 1
    · rw [h2]
      exact (drawLoop_engine_scale sc.order sc.pts sc.corrs k _).2

/-! ## The oracle list of the equivalent skeleton run, and successive runs on one sampler -/

/-- the scripted oracle list of `toRigid` is the geometry applied, call number by call number, to the sampler's own samples -/
theorem candSeq_eq (sc : Scene α β) (k i n : Nat) (st : Sampler.State α β) :
    candSeq sc k i n st = List.zipWith (fun j smp => sc.geom (i + j) smp) (List.range n) (sampleSeq sc k n st) := by
  induction n generalizing i st with
  | zero => rfl
  | succ n ih =>
    rw [candSeq, sampleSeq_succ, List.range_succ_eq_map, List.zipWith_cons_cons, ih, List.zipWith_map_left]
    have hf : (fun j smp => sc.geom (i + 1 + j) smp) = (fun a b => sc.geom (i + a.succ) b) := by
      funext j smp
      rw [Nat.add_assoc, Nat.add_comm 1 j]
    rw [hf]
    rfl

/-- one `loadCorrespondences` + `estimateModel` of the ICP loop, on the model object's long-lived sampler: what changes from one ICP
    iteration to the next (scene, rigid-model data, parameters) -/
structure Load (α β : Type) where
  sc : Scene α β
  cast : α → α
  p : α
  eps : α
  cap : Nat
  rigid : Rigid α

/-- successive `estimateModel` runs that share ONE sampler object: final sampler state and the total number of points drawn -/
def runLoads : List (Load α β) → Sampler.State α β → Sampler.State α β × Nat
  | [], st => (st, 0)
  | l :: ls, st =>
    let r := estimateModel (sampledOps l.sc l.cast) l.p l.eps l.cap { rigid := l.rigid, smp := st, samples := [] }
    let rest := runLoads ls r.s.smp
    (rest.1, nDrawOf l.rigid.dim * r.iterations + rest.2)

theorem runLoads_engine (ls : List (Load α β)) (st : Sampler.State α β) :
    (runLoads ls st).1.engine = next^[2 * (runLoads ls st).2] st.engine ∧ (runLoads ls st).1.scale = st.scale := by
  induction ls generalizing st with
  | nil => exact ⟨rfl, rfl⟩
  | cons l ls ih =>
    obtain ⟨_, h2, _, _⟩ := estimateModel_composed l.sc l.cast l.p l.eps l.cap { rigid := l.rigid, smp := st, samples := [] }
    obtain ⟨e1, e2⟩ := smpAfter_engine l.sc (nDrawOf l.rigid.dim)
      (estimateModel (sampledOps l.sc l.cast) l.p l.eps l.cap { rigid := l.rigid, smp := st, samples := [] }).iterations st
    obtain ⟨i1, i2⟩ := ih (estimateModel (sampledOps l.sc l.cast) l.p l.eps l.cap { rigid := l.rigid, smp := st, samples := [] }).s.smp
    simp only [runLoads]
    constructor
    · rw [i1, h2, e1, ← Function.iterate_add_apply]
      congr 1
      simp only [Nat.mul_add, Nat.mul_assoc, Nat.add_comm]
    · rw [i2, h2, e2]

/-! ## Congruence: what a run can depend on -/

/-- two composed states that a run cannot tell apart: same rigid model, same engine state, same `scale_`, same log — the sampler's
    `weights_` / `cumSumWeights_` may differ (`drawPoints` reloads them) -/
def SameInputs (s1 s2 : Sampled α β) : Prop :=
  s1.rigid = s2.rigid ∧ s1.smp.engine = s2.smp.engine ∧ s1.smp.scale = s2.smp.scale ∧ s1.samples = s2.samples

theorem draw_congr (sc : Scene α β) (cast : α → α) (s1 s2 : Sampled α β) (h : SameInputs s1 s2) :
    (sampledOps sc cast).draw s1 = (sampledOps sc cast).draw s2 := by
  obtain ⟨h1, h2, h3, h4⟩ := h
  simp only [sampledOps, drawSampled]
  rw [drawPoints_congr sc.order s1.smp s2.smp h2 h3, h1, h4]

/-- behind its first pass a run no longer depends on the stale weights at all: the two bodies are EQUAL -/
theorem body_congr (sc : Scene α β) (cast : α → α) (eps : α) (nDraw : Nat) (r1 r2 : Run (Sampled α β) α)
    (hs : SameInputs r1.s r2.s) (hi : r1.iteration = r2.iteration) (hb : r1.best = r2.best) (hit : r1.it = r2.it)
    (hx : r1.exited = r2.exited) :
    body (sampledOps sc cast) eps nDraw r1 = body (sampledOps sc cast) eps nDraw r2 := by
  simp only [body, draw_congr sc cast r1.s r2.s hs, hi, hb, hit, hx]

theorem loop_congr (sc : Scene α β) (cast : α → α) (eps : α) (nDraw fuel : Nat) (r1 r2 : Run (Sampled α β) α)
    (hs : SameInputs r1.s r2.s) (hi : r1.iteration = r2.iteration) (hb : r1.best = r2.best) (hit : r1.it = r2.it)
    (hx : r1.exited = r2.exited) :
    let l1 := loop (sampledOps sc cast) eps nDraw fuel r1
    let l2 := loop (sampledOps sc cast) eps nDraw fuel r2
    SameInputs l1.s l2.s ∧ l1.iteration = l2.iteration ∧ l1.best = l2.best ∧ l1.it = l2.it ∧ l1.exited = l2.exited := by
  cases fuel with
  | zero => exact ⟨hs, hi, hb, hit, rfl⟩
  | succ k =>
    intro l1 l2
    by_cases h : (r1.iteration : α) < r1.it.n
    · have h' : (r2.iteration : α) < r2.it.n := by rw [← hi, ← hit]; exact h
      have e : l1 = l2 := by
        simp only [l1, l2]
        rw [loop, if_pos h, loop, if_pos h', body_congr sc cast eps nDraw r1 r2 hs hi hb hit hx]
      rw [e]
      exact ⟨⟨rfl, rfl, rfl, rfl⟩, rfl, rfl, rfl, rfl⟩
    · have h' : ¬ (r2.iteration : α) < r2.it.n := by rw [← hi, ← hit]; exact h
      simp only [l1, l2]
      rw [loop, if_neg h, loop, if_neg h']
      exact ⟨hs, hi, hb, hit, rfl⟩

theorem estimateModel_congr (sc : Scene α β) (cast : α → α) (p eps : α) (cap : Nat) (s1 s2 : Sampled α β)
    (h : SameInputs s1 s2) :
    let r1 := estimateModel (sampledOps sc cast) p eps cap s1
    let r2 := estimateModel (sampledOps sc cast) p eps cap s2
    r1.ret = r2.ret ∧ r1.iterations = r2.iterations ∧ r1.best = r2.best ∧ r1.bound = r2.bound ∧ r1.diverged = r2.diverged ∧
    SameInputs r1.s r2.s := by
  intro r1 r2
  have hr : s1.rigid = s2.rigid := h.1
  have hn : (sampledOps sc cast).nPts s1 = (sampledOps sc cast).nPts s2 := by simp only [sampledOps, hr]
  have hd : (sampledOps sc cast).nDraw s1 = (sampledOps sc cast).nDraw s2 := by simp only [sampledOps, hr]
  have hm : (sampledOps sc cast).minInl s1 = (sampledOps sc cast).minInl s2 := by simp only [sampledOps, hr]
  obtain ⟨l1, l2, l3, l4, l5⟩ := loop_congr sc cast eps ((sampledOps sc cast).nDraw s1) (cap + 1)
    { s := s1, iteration := 0, best := 0, it := Iterations.init p ((sampledOps sc cast).nPts s1) cap, exited := false }
    { s := s2, iteration := 0, best := 0, it := Iterations.init p ((sampledOps sc cast).nPts s1) cap, exited := false }
    h rfl rfl rfl rfl
  simp only [r1, r2]
  by_cases c1 : (sampledOps sc cast).nPts s1 < (sampledOps sc cast).minInl s1
  · have c1' : (sampledOps sc cast).nPts s2 < (sampledOps sc cast).minInl s2 := by rw [← hn, ← hm]; exact c1
    rw [estimateModel, if_pos c1, estimateModel, if_pos c1']
    exact ⟨rfl, rfl, rfl, rfl, rfl, h⟩
  · have c1' : ¬ (sampledOps sc cast).nPts s2 < (sampledOps sc cast).minInl s2 := by rw [← hn, ← hm]; exact c1
    rw [estimateModel, if_neg c1, estimateModel, if_neg c1', ← hn, ← hd]
    by_cases c2 : (loop (sampledOps sc cast) eps ((sampledOps sc cast).nDraw s1) (cap + 1)
        { s := s1, iteration := 0, best := 0, it := Iterations.init p ((sampledOps sc cast).nPts s1) cap, exited := false }).best
          ≤ (sampledOps sc cast).nDraw s1
    · have c2' := c2
      rw [l3] at c2'
      rw [if_pos c2, if_pos c2']
      exact ⟨rfl, l2, l3, by rw [l4], by rw [l5], l1⟩
    · have c2' := c2
      rw [l3] at c2'
      rw [if_neg c2, if_neg c2']
      refine ⟨rfl, l2, l3, by rw [l4], by rw [l5], ?_⟩
      obtain ⟨a, b, c, d⟩ := l1
      exact ⟨congrArg (rigidOps cast).refine a, b, c, d⟩

end Generic

/-! ## Over ℝ: the samples of the sampler's own sequence -/

/-- `NoCollapse` holds at each of the next `n` `drawPoints(…, k)` calls (each starts from the reloaded weights) -/
def NoCollapseRun (sc : Scene ℝ ℝ) (k : Nat) : Nat → Sampler.State ℝ ℝ → Prop
  | 0, _ => True
  | n + 1, st => NoCollapse sc.order sc.pts sc.corrs k (reload st sc.corrs) ∧
      NoCollapseRun sc k n (st.drawPoints sc.order sc.pts sc.corrs k).1

theorem drawPoints_inRange (sc : Scene ℝ ℝ) (k : Nat) (st : Sampler.State ℝ ℝ) (he : InRange st.engine) :
    InRange (st.drawPoints sc.order sc.pts sc.corrs k).1.engine := by
  rw [drawPoints_engine_any]; exact iterate_next_inRange he _

theorem drawPoints_scale (sc : Scene ℝ ℝ) (k : Nat) (st : Sampler.State ℝ ℝ) :
    (st.drawPoints sc.order sc.pts sc.corrs k).1.scale = st.scale :=
  (drawLoop_engine_scale sc.order sc.pts sc.corrs k _).2

/-- what is known of one sample drawn without collapse -/
def GoodSample (corrs : List (Sampler.Corr ℝ)) (k : Nat) (smp : List Nat) : Prop :=
  smp.length = k ∧ (∀ i ∈ smp, ∃ h : i < corrs.length, 0 < corrs[i].weight) ∧ (smp.map (tgtAt corrs)).Nodup ∧ smp.Nodup

theorem drawPoints_good (sc : Scene ℝ ℝ) (k : Nat) (st : Sampler.State ℝ ℝ) (he : InRange st.engine)
    (hw : ∀ c ∈ sc.corrs, 0 ≤ c.weight) (hnc : NoCollapse sc.order sc.pts sc.corrs k (reload st sc.corrs)) :
    GoodSample sc.corrs k (st.drawPoints sc.order sc.pts sc.corrs k).2 := by
  obtain ⟨a, b, _⟩ := drawLoop_alive sc.order sc.pts sc.corrs _ k [] _ (reload_base st sc.corrs he hw) (zeroed_nil sc.corrs _) hnc
  rw [← drawPoints_eq] at a b
  refine ⟨?_, fun i hi => ?_, b, List.Nodup.of_map _ b⟩
  · rw [drawPoints_eq]; exact drawLoop_length _ _ _ _ _
  · obtain ⟨h1, h2, _⟩ := a i hi
    refine ⟨h1, ?_⟩
    rwa [getD_of_lt _ _ (by simpa using h1), List.getElem_map] at h2

theorem sampleSeq_good (sc : Scene ℝ ℝ) (k n : Nat) (st : Sampler.State ℝ ℝ) (he : InRange st.engine)
    (hw : ∀ c ∈ sc.corrs, 0 ≤ c.weight) (hnc : NoCollapseRun sc k n st) :
    ∀ smp ∈ sampleSeq sc k n st, GoodSample sc.corrs k smp := by
  induction n generalizing st with
  | zero => intro smp h; simp [sampleSeq] at h
  | succ n ih =>
    intro smp h
    rw [sampleSeq_succ] at h
    rcases List.mem_cons.mp h with rfl | h
    · exact drawPoints_good sc k st he hw hnc.1
    · exact ih _ (drawPoints_inRange sc k st he) hnc.2 smp h

/-- on a well-spread (one-to-one) list no draw of no call ever meets collapsed weights -/
theorem noCollapseRun_of_wellSpread (sc : Scene ℝ ℝ) (k n : Nat) (st : Sampler.State ℝ ℝ) (he : InRange st.engine)
    (hws : WellSpread st.scale sc.pts sc.corrs) (hk : k ≤ sc.corrs.length) : NoCollapseRun sc k n st := by
  induction n generalizing st with
  | zero => trivial
  | succ n ih =>
    have hw : ∀ c ∈ sc.corrs, 0 ≤ c.weight := fun c hc => le_of_lt (hws.wpos c hc)
    refine ⟨?_, ih _ (drawPoints_inRange sc k st he) (by rw [drawPoints_scale]; exact hws)⟩
    exact noCollapse_of_wellSpread sc.order sc.pts sc.corrs _ st.scale hws k [] _ (reload_base st sc.corrs he hw)
      (zeroed_nil sc.corrs _)
      (by
        intro i hi _
        simp only [reload]
        rw [getD_of_lt _ _ (by simpa using hi), List.getElem_map]
        exact hws.wpos _ (List.getElem_mem _))
      rfl List.nodup_nil (by simpa using hk)

end Romea.C06
