import RomeaProofs.Lemmas.C14Basic

/-!
# C14 helper lemmas: the counting argument (every scalar type)

Since /repo 5c8bf28 `setEndPoint` records, per axis, how many cell borders the ray crosses
(`rayRemainingSteps_ = |endIdx - originIdx|`) and `step_` replaces the crossing parameter of an axis by the
sentinel as soon as its crossings are all done.  Hence, as long as

* `<` is a strict order on the scalars (irreflexive, transitive — true of IEEE `<`, NaN being incomparable),
* every axis that still has crossings to make carries a crossing parameter strictly below the sentinel
  (`Fresh.below`: finitely many values `tMax ⊕ k·tDelta`, `k < needed`), and
* the step sign agrees with the order of the origin and end indexes (`Fresh.sign`),

the decision tree of `next` can only select an axis that still has crossings to make: after exactly
`L1 = Σ needed` steps every axis has been advanced exactly `needed` times towards the end cell.  No real
arithmetic is involved; the statements hold at `Float`, `Float32`, `ℝ`, `RN` alike.
-/
set_option linter.unusedSectionVars false

namespace Romea.RayCast
open Romea

variable {d : Nat}

/-- face-adjacent cells: one coordinate changes by exactly one -/
def Adjacent (c c' : Vec d Int) : Prop :=
  ∃ a, (c'.at a = c.at a + 1 ∨ c'.at a = c.at a - 1) ∧ ∀ i, i ≠ a → c'.at i = c.at i

/-- consecutive cells of `c :: l` are face-adjacent -/
def ChainAdj : Vec d Int → List (Vec d Int) → Prop
  | _, [] => True
  | c, c' :: l => Adjacent c c' ∧ ChainAdj c' l

/-- last cell of `c :: l` -/
def lastCell : Vec d Int → List (Vec d Int) → Vec d Int
  | c, [] => c
  | _, c' :: l => lastCell c' l

theorem lastCell_eq_getLast (c : Vec d Int) (l : List (Vec d Int)) :
    lastCell c l = (c :: l).getLast (List.cons_ne_nil c l) := by
  induction l generalizing c with
  | nil => rfl
  | cons a l ih => rw [lastCell, ih a, List.getLast_cons (List.cons_ne_nil a l)]

theorem chainAdj_get (c : Vec d Int) (l : List (Vec d Int)) (h : ChainAdj c l) :
    ∀ k (hk : k + 1 < (c :: l).length), Adjacent ((c :: l)[k]'(by omega)) ((c :: l)[k + 1]'hk) := by
  induction l generalizing c with
  | nil => intro k hk; simp at hk
  | cons a l ih =>
    intro k hk
    cases k with
    | zero => exact h.1
    | succ k =>
      have := ih a h.2 k (by simpa using hk)
      simpa using this

section
variable {α : Type} [Add α] [Sub α] [Mul α] [Div α] [LT α] [DecidableLT α]
  [NatCast α] [IntCast α] [OfScientific α] [Trans α] [Trunc α] [Limits α]

/-- number of border crossings the ray makes on axis `i` -/
def needed (s₀ : State d α) (i : Fin d) : ℕ := (s₀.eIdx.at i - s₀.oIdx.at i).natAbs

/-- crossing parameter of axis `i` after `k` advances that did not exhaust it:
    `((tMax + tDelta) + tDelta) + …` (`k` floating-point additions) -/
def tmaxAfter (s₀ : State d α) (i : Fin d) (k : ℕ) : α :=
  Nat.iterate (fun x => x + s₀.tDelta.at i) k (s₀.tMax.at i)

/-- `<` is a strict (partial) order -/
structure StrictOrd (α : Type) [LT α] : Prop where
  irrefl : ∀ a : α, ¬ a < a
  trans : ∀ a b c : α, a < b → b < c → a < c

/-- what the counting argument needs of the decision tree: among crossing parameters that are all either the
    sentinel or strictly below it, with at least one below, the selected one is below -/
def PickOK (sp : Spec d α) : Prop :=
  ∀ (t : Vec d α) (M : α), (∀ j, t.at j < M ∨ t.at j = M) → (∃ i, t.at i < M) → t.at (sp.pick t) < M

theorem pick2_ok (h : StrictOrd α) : PickOK (spec2 : Spec 2 α) := by
  intro t M hall ⟨i, hi⟩
  show t.at (pick2 t) < M
  unfold pick2
  have h0 := hall 0
  have h1 := hall 1
  have hi' : t.at 0 < M ∨ t.at 1 < M := by
    have : i = 0 ∨ i = 1 := by omega
    rcases this with rfl | rfl
    · exact Or.inl hi
    · exact Or.inr hi
  split
  · rename_i h01
    rcases h0 with h0 | h0
    · exact h0
    · exfalso
      rw [h0] at h01
      rcases h1 with h1 | h1
      · exact h.irrefl _ (h.trans _ _ _ h01 h1)
      · rw [h1] at h01; exact h.irrefl _ h01
  · rename_i h01
    rcases h1 with h1 | h1
    · exact h1
    · exfalso
      rw [h1] at h01
      rcases hi' with h' | h'
      · exact h01 h'
      · rw [h1] at h'; exact h.irrefl _ h'

omit [Add α] [Sub α] [Mul α] [Div α] [NatCast α] [IntCast α] [OfScientific α] [Trans α] [Trunc α] [Limits α] in
private theorem pick3_lt (h : StrictOrd α) (t : Vec 3 α) (M : α) (hall : ∀ j, t.at j < M ∨ t.at j = M)
    (hex : ∃ i, t.at i < M) : t.at (pick3 t) < M := by
  obtain ⟨i, hi⟩ := hex
  have hi' : t.at 0 < M ∨ t.at 1 < M ∨ t.at 2 < M := by
    have : i = 0 ∨ i = 1 ∨ i = 2 := by omega
    rcases this with rfl | rfl | rfl
    · exact Or.inl hi
    · exact Or.inr (Or.inl hi)
    · exact Or.inr (Or.inr hi)
  have irr := h.irrefl
  have tr := h.trans
  -- `x < M` is impossible for `x = M`, and `M < x` is impossible for every entry
  have notgt : ∀ j, ¬ M < t.at j := by
    intro j hj
    rcases hall j with h' | h'
    · exact irr _ (tr _ _ _ hj h')
    · rw [h'] at hj; exact irr _ hj
  unfold pick3
  split
  · rename_i h01
    split
    · rcases hall 0 with h0 | h0
      · exact h0
      · rw [h0] at h01; exact absurd h01 (notgt 1)
    · rename_i h02
      rcases hall 2 with h2 | h2
      · exact h2
      · exfalso
        rw [h2] at h02
        rcases hall 1 with h1 | h1
        · exact h02 (tr _ _ _ h01 h1)
        · rw [h1] at h01; exact h02 h01
  · rename_i h01
    split
    · rename_i h12
      rcases hall 1 with h1 | h1
      · exact h1
      · rw [h1] at h12; exact absurd h12 (notgt 2)
    · rename_i h12
      rcases hall 2 with h2 | h2
      · exact h2
      · exfalso
        rw [h2] at h12
        rcases hall 1 with h1 | h1
        · exact h12 h1
        · rw [h1] at h01
          rcases hi' with h' | h' | h'
          · exact h01 h'
          · rw [h1] at h'; exact irr _ h'
          · rw [h2] at h'; exact irr _ h'

theorem pick3d_ok (h : StrictOrd α) : PickOK (spec3d : Spec 3 α) := fun t M a b => pick3_lt h t M a b
theorem pick3f_ok (h : StrictOrd α) : PickOK (spec3f : Spec 3 α) := fun t M a b => pick3_lt h t M a b

/-- hypotheses on a freshly initialised ray (`s₀` = state after `setEndPoint`) -/
structure Fresh (s₀ : State d α) : Prop where
  /-- origin and end indexes are small enough for the `int` arithmetic of the counts -/
  idx : ∀ i, 0 ≤ s₀.oIdx.at i ∧ s₀.oIdx.at i < 2 ^ 29 ∧ 0 ≤ s₀.eIdx.at i ∧ s₀.eIdx.at i < 2 ^ 29
  rem0 : ∀ i, s₀.rem.at i = needed s₀ i
  tmax0 : ∀ i, needed s₀ i = 0 → s₀.tMax.at i = Limits.maxVal
  /-- the step sign agrees with the order of the indexes -/
  sign : ∀ i, (s₀.oIdx.at i < s₀.eIdx.at i → s₀.step.at i = 1) ∧ (s₀.eIdx.at i < s₀.oIdx.at i → s₀.step.at i = -1)
  /-- residual hypothesis on the comparisons: an axis with crossings left has a parameter below the sentinel -/
  below : ∀ i k, k < needed s₀ i → tmaxAfter s₀ i k < Limits.maxVal

/-- the traversal state after some steps, in terms of the number of advances per axis -/
structure CInv (s₀ s : State d α) (c : Vec d Int) (m : Fin d → ℕ) : Prop where
  hstep : s.step = s₀.step
  hdelta : s.tDelta = s₀.tDelta
  hm : ∀ i, m i ≤ needed s₀ i
  hrem : ∀ i, s.rem.at i = (needed s₀ i : Int) - m i
  htmax : ∀ i, s.tMax.at i = if m i < needed s₀ i then tmaxAfter s₀ i (m i) else Limits.maxVal
  hcell : ∀ i, c.at i = s₀.oIdx.at i + s₀.step.at i * m i

/-- `c` lies in the index box spanned by the origin and the end cell -/
def InBox (s₀ : State d α) (c : Vec d Int) : Prop :=
  ∀ i, min (s₀.oIdx.at i) (s₀.eIdx.at i) ≤ c.at i ∧ c.at i ≤ max (s₀.oIdx.at i) (s₀.eIdx.at i)

omit [Add α] [Sub α] [Mul α] [Div α] [LT α] [DecidableLT α] [NatCast α] [IntCast α] [OfScientific α] [Trans α]
  [Trunc α] [Limits α] in
private theorem cell_formula (s₀ : State d α)
    (sign : ∀ i, (s₀.oIdx.at i < s₀.eIdx.at i → s₀.step.at i = 1) ∧ (s₀.eIdx.at i < s₀.oIdx.at i → s₀.step.at i = -1))
    (i : Fin d) (k : ℕ) (hk : k ≤ needed s₀ i) :
    min (s₀.oIdx.at i) (s₀.eIdx.at i) ≤ s₀.oIdx.at i + s₀.step.at i * k ∧
    s₀.oIdx.at i + s₀.step.at i * k ≤ max (s₀.oIdx.at i) (s₀.eIdx.at i) ∧
    (k = needed s₀ i → s₀.oIdx.at i + s₀.step.at i * k = s₀.eIdx.at i) := by
  unfold needed at *
  rcases lt_trichotomy (s₀.oIdx.at i) (s₀.eIdx.at i) with h | h | h
  · rw [(sign i).1 h]; omega
  · have : k = 0 := by omega
    subst this
    simp [h]
  · rw [(sign i).2 h]; omega

theorem CInv.inBox {s₀ s : State d α} {c : Vec d Int} {m : Fin d → ℕ} (F : Fresh s₀) (hI : CInv s₀ s c m) :
    InBox s₀ c := by
  intro i
  rw [hI.hcell i]
  have := cell_formula s₀ F.sign i (m i) (hI.hm i)
  exact ⟨this.1, this.2.1⟩

theorem Fresh.inv_init {s₀ : State d α} (F : Fresh s₀) : CInv s₀ s₀ s₀.oIdx (fun _ => 0) where
  hstep := rfl
  hdelta := rfl
  hm := fun _ => Nat.zero_le _
  hrem := by intro i; rw [F.rem0 i]; simp
  htmax := by
    intro i
    by_cases h : 0 < needed s₀ i
    · simp [h, tmaxAfter]
    · have h0 : needed s₀ i = 0 := by omega
      simp [h0, F.tmax0 i h0]
  hcell := by intro i; simp

/-- one `next` call while crossings remain: the axis selected still has crossings to make; it is advanced by one
    cell towards the end cell -/
theorem next_count {sp : Spec d α} (ho : StrictOrd α) (hp : PickOK sp) {s₀ s : State d α} (F : Fresh s₀)
    {c : Vec d Int} {m : Fin d → ℕ} (hI : CInv s₀ s c m) (hlt : ∑ i, m i < ∑ i, needed s₀ i) :
    let a := sp.pick s.tMax
    m a < needed s₀ a ∧
    CInv s₀ (next sp s c).1 (next sp s c).2 (fun i => m i + (if i = a then 1 else 0)) ∧
    Adjacent c (next sp s c).2 := by
  intro a
  -- every crossing parameter is the sentinel or below it; one is below
  have hall : ∀ j, s.tMax.at j < Limits.maxVal ∨ s.tMax.at j = Limits.maxVal := by
    intro j
    rw [hI.htmax j]
    by_cases h : m j < needed s₀ j
    · left; simp only [h, if_true]; exact F.below j (m j) h
    · right; simp [h]
  obtain ⟨b, -, hb⟩ := Finset.exists_lt_of_sum_lt hlt
  have hex : ∃ i, s.tMax.at i < Limits.maxVal := ⟨b, by rw [hI.htmax b]; simp only [hb, if_true]; exact F.below b (m b) hb⟩
  have hlt_a : s.tMax.at a < Limits.maxVal := hp s.tMax Limits.maxVal hall hex
  have hma : m a < needed s₀ a := by
    by_contra hge
    rw [hI.htmax a] at hlt_a
    simp only [hge, if_false] at hlt_a
    exact ho.irrefl _ hlt_a
  have hrem_pos : s.rem.at a > 0 := by rw [hI.hrem a]; omega
  set m' : Fin d → ℕ := fun i => m i + (if i = a then 1 else 0) with hm'
  have hm'a : m' a = m a + 1 := by simp [hm']
  have hm'ne : ∀ i, i ≠ a → m' i = m i := by intro i hi; simp [hm', hi]
  -- the index: no wrap
  have hcf := cell_formula s₀ F.sign a (m a + 1) (by omega)
  have hidx := F.idx a
  have hcella : (next sp s c).2.at a = s₀.oIdx.at a + s₀.step.at a * ((m a + 1 : ℕ) : ℤ) := by
    have e1 : (next sp s c).2 = upd c a (wrap64 (c.at a + s.step.at a)) := by
      show (stepAxis s c a).2 = _
      unfold stepAxis
      simp only [hrem_pos, if_true]
      split <;> rfl
    rw [e1, at_upd_self, hI.hcell a, hI.hstep]
    have : s₀.oIdx.at a + s₀.step.at a * (m a : ℤ) + s₀.step.at a =
        s₀.oIdx.at a + s₀.step.at a * ((m a + 1 : ℕ) : ℤ) := by push_cast; ring
    rw [this]
    apply wrap64_id
    · have := hcf.1; omega
    · have := hcf.2.1; omega
  have hcellne : ∀ i, i ≠ a → (next sp s c).2.at i = c.at i := by
    intro i hi
    have e1 : (next sp s c).2 = upd c a (wrap64 (c.at a + s.step.at a)) := by
      show (stepAxis s c a).2 = _
      unfold stepAxis
      simp only [hrem_pos, if_true]
      split <;> rfl
    rw [e1]; exact at_upd_ne _ _ hi
  have hσ : s₀.step.at a = 1 ∨ s₀.step.at a = -1 := by
    unfold needed at hma
    rcases lt_trichotomy (s₀.oIdx.at a) (s₀.eIdx.at a) with h | h | h
    · exact Or.inl ((F.sign a).1 h)
    · omega
    · exact Or.inr ((F.sign a).2 h)
  refine ⟨hma, ?_, ?_⟩
  · -- the new invariant, by cases on whether the axis is now exhausted
    by_cases hlast : s.rem.at a - 1 = 0
    · have hN : needed s₀ a = m a + 1 := by have := hI.hrem a; omega
      have e1 : (next sp s c).1 = { s with rem := upd s.rem a (s.rem.at a - 1), tMax := upd s.tMax a Limits.maxVal } := by
        show (stepAxis s c a).1 = _
        unfold stepAxis
        simp only [hrem_pos, if_true, hlast]
      constructor
      · rw [e1]; exact hI.hstep
      · rw [e1]; exact hI.hdelta
      · intro i
        by_cases hia : i = a
        · rw [hia, hm'a]; omega
        · rw [hm'ne i hia]; exact hI.hm i
      · intro i
        rw [e1]
        by_cases hia : i = a
        · rw [hia]; simp only [at_upd_self]; rw [hI.hrem a, hm'a]; push_cast; ring
        · simp only [at_upd_ne _ _ hia]; rw [hI.hrem i, hm'ne i hia]
      · intro i
        rw [e1]
        by_cases hia : i = a
        · rw [hia]; simp only [at_upd_self]; rw [hm'a, if_neg (by omega)]
        · simp only [at_upd_ne _ _ hia]; rw [hI.htmax i, hm'ne i hia]
      · intro i
        by_cases hia : i = a
        · rw [hia, hcella, hm'a]
        · rw [hcellne i hia, hI.hcell i, hm'ne i hia]
    · have hN : m a + 1 < needed s₀ a := by have := hI.hrem a; omega
      have e1 : (next sp s c).1 =
          { s with rem := upd s.rem a (s.rem.at a - 1), tMax := upd s.tMax a (s.tMax.at a + s.tDelta.at a) } := by
        show (stepAxis s c a).1 = _
        unfold stepAxis
        simp only [hrem_pos, if_true, hlast, if_false]
      constructor
      · rw [e1]; exact hI.hstep
      · rw [e1]; exact hI.hdelta
      · intro i
        by_cases hia : i = a
        · rw [hia, hm'a]; omega
        · rw [hm'ne i hia]; exact hI.hm i
      · intro i
        rw [e1]
        by_cases hia : i = a
        · rw [hia]; simp only [at_upd_self]; rw [hI.hrem a, hm'a]; push_cast; ring
        · simp only [at_upd_ne _ _ hia]; rw [hI.hrem i, hm'ne i hia]
      · intro i
        rw [e1]
        by_cases hia : i = a
        · rw [hia]; simp only [at_upd_self]
          rw [hm'a, if_pos hN, hI.htmax a, if_pos hma, hI.hdelta]
          unfold tmaxAfter
          rw [Function.iterate_succ_apply']
        · simp only [at_upd_ne _ _ hia]; rw [hI.htmax i, hm'ne i hia]
      · intro i
        by_cases hia : i = a
        · rw [hia, hcella, hm'a]
        · rw [hcellne i hia, hI.hcell i, hm'ne i hia]
  · refine ⟨a, ?_, hcellne⟩
    rw [hcella, hI.hcell a]
    rcases hσ with h | h
    · left; rw [h]; push_cast; ring
    · right; rw [h]; push_cast; ring

omit [Add α] [Sub α] [Mul α] [Div α] [LT α] [DecidableLT α] [NatCast α] [IntCast α] [OfScientific α] [Trans α]
  [Trunc α] [Limits α] in
theorem sum_bump (m : Fin d → ℕ) (a : Fin d) : ∑ i, (m i + (if i = a then 1 else 0)) = ∑ i, m i + 1 := by
  simp [Finset.sum_add_distrib]

/-- `k` `next` calls while at least `k` crossings remain -/
theorem steps_count {sp : Spec d α} (ho : StrictOrd α) (hp : PickOK sp) {s₀ : State d α} (F : Fresh s₀) (k : ℕ) :
    ∀ (s : State d α) (c : Vec d Int) (m : Fin d → ℕ), CInv s₀ s c m →
      ∑ i, m i + k ≤ ∑ i, needed s₀ i →
      ∃ m', CInv s₀ (steps sp k s c).1 (lastCell c (steps sp k s c).2) m' ∧ ∑ i, m' i = ∑ i, m i + k ∧
        (steps sp k s c).2.length = k ∧ ChainAdj c (steps sp k s c).2 ∧
        ∀ c' ∈ (steps sp k s c).2, InBox s₀ c' := by
  induction k with
  | zero =>
    intro s c m hI _
    exact ⟨m, by simpa [steps, lastCell] using hI, by simp, by simp [steps], by simp [steps, ChainAdj],
      by simp [steps]⟩
  | succ k ih =>
    intro s c m hI hle
    obtain ⟨-, hI₁, hadj⟩ := next_count ho hp F hI (by omega)
    have hsum₁ := sum_bump m (sp.pick s.tMax)
    obtain ⟨m₂, hI₂, hsum₂, hlen, hchain, hall⟩ := ih (next sp s c).1 (next sp s c).2 _ hI₁ (by omega)
    refine ⟨m₂, ?_, by omega, ?_, ?_, ?_⟩
    · simpa [steps, lastCell] using hI₂
    · simp [steps, hlen]
    · simp only [steps, ChainAdj]; exact ⟨hadj, hchain⟩
    · intro c' hc'
      simp only [steps, List.mem_cons] at hc'
      rcases hc' with rfl | h
      · exact hI₁.inBox F
      · exact hall c' h

/-- after exactly `L1` steps the current cell is the end cell -/
theorem CInv.final {s₀ s : State d α} {c : Vec d Int} {m : Fin d → ℕ} (F : Fresh s₀) (hI : CInv s₀ s c m)
    (hsum : ∑ i, m i = ∑ i, needed s₀ i) : c = s₀.eIdx := by
  have hall : ∀ i, m i = needed s₀ i := by
    by_contra hne
    rw [not_forall] at hne
    obtain ⟨i, hi⟩ := hne
    have hlt : m i < needed s₀ i := lt_of_le_of_ne (hI.hm i) hi
    have := Finset.sum_lt_sum (s := Finset.univ) (fun b _ => hI.hm b) ⟨i, Finset.mem_univ i, hlt⟩
    omega
  apply vec_ext
  intro i
  rw [hI.hcell i]
  exact (cell_formula s₀ F.sign i (m i) (hI.hm i)).2.2 (hall i)

/-- `computeRayNumberOfCells` of a fresh ray in at most three dimensions: `L1 + 1`, no `int` overflow -/
theorem numCells_eq {s₀ : State d α} (hd : d ≤ 3)
    (idx : ∀ i, 0 ≤ s₀.oIdx.at i ∧ s₀.oIdx.at i < 2 ^ 29 ∧ 0 ≤ s₀.eIdx.at i ∧ s₀.eIdx.at i < 2 ^ 29) :
    numCells s₀ = ((∑ i, needed s₀ i : ℕ) : ℤ) + 1 := by
  have hterm : ∀ i, iabs (toInt32 (s₀.eIdx.at i) - toInt32 (s₀.oIdx.at i)) = ((needed s₀ i : ℕ) : ℤ) := by
    intro i
    obtain ⟨h1, h2, h3, h4⟩ := idx i
    rw [toInt32_id h3 (lt_trans h4 (by norm_num)), toInt32_id h1 (lt_trans h2 (by norm_num)), iabs_eq]
    unfold needed
    simp
  have hsmall : ∀ i, needed s₀ i < 2 ^ 29 := by
    intro i
    unfold needed
    have := idx i
    omega
  have hsum : ∑ i, needed s₀ i ≤ d * 2 ^ 29 := by
    calc ∑ i, needed s₀ i ≤ ∑ _i : Fin d, 2 ^ 29 := Finset.sum_le_sum (fun i _ => (hsmall i).le)
      _ = d * 2 ^ 29 := by simp
  unfold numCells
  rw [sumFrom_eq]
  simp only [hterm, zero_add]
  rw [← Nat.cast_sum]
  apply wrap64_id
  · positivity
  · have : ((∑ i, needed s₀ i : ℕ) : ℤ) ≤ 3 * 2 ^ 29 := by
      have : ∑ i, needed s₀ i ≤ 3 * 2 ^ 29 := le_trans hsum (Nat.mul_le_mul_right _ hd)
      exact_mod_cast this
    omega

end
end Romea.RayCast
