import RomeaModel.WrapGrid
import Mathlib.Tactic.Ring
import Mathlib.Tactic.Linarith

/-! One-dimensional arithmetic of the circular buffer (C15): the `long long` / `size_t` computations of
`WrappableGrid::translate` on their side conditions, and the circular blanking fact. -/
namespace Romea.C15Arith
open Romea.WrapGrid

theorem nat_mod_two (x n : Nat) (h : x < 2 * n) : x % n = if x < n then x else x - n := by
  split
  · exact Nat.mod_eq_of_lt ‹_›
  · rw [Nat.mod_eq_sub_mod (by omega)]
    exact Nat.mod_eq_of_lt (by omega)

theorem int_emod_piece (x : Int) (n : Nat) (hn : 0 < n) (h1 : -(n : Int) ≤ x) (h2 : x < 2 * (n : Int)) :
    x % (n : Int) = if x < 0 then x + n else if x < n then x else x - n := by
  have hn' : (0 : Int) < n := by exact_mod_cast hn
  split
  · exact ((Int.ediv_emod_unique (q := -1) hn').mpr ⟨by omega, by omega, by omega⟩).2
  · split
    · exact Int.emod_eq_of_lt (by omega) ‹_›
    · exact ((Int.ediv_emod_unique (q := 1) hn').mpr ⟨by omega, by omega, by omega⟩).2

/-- the C++ expression `((offset % n) + n) % n` with truncating `%` is the mathematical residue -/
theorem wrappedOffset_eq (n : Nat) (hn : 0 < n) (d : Int) : wrappedOffset n d = d % (n : Int) := by
  have hn' : (0 : Int) < n := by exact_mod_cast hn
  unfold wrappedOffset
  have h1 := Int.lt_tmod_of_pos d hn'
  have h2 := Int.tmod_lt_of_pos d hn'
  rw [Int.tmod_eq_emod_of_nonneg (by omega), Int.add_emod_right]
  have h3 := Int.tmod_add_tdiv_mul d (n : Int)
  conv_rhs => rw [← h3]
  rw [Int.mul_comm, Int.add_mul_emod_self_left]

theorem toSizeT_of_range (x : Int) (h0 : 0 ≤ x) (h1 : x < 2 ^ 64) : toSizeT x = x.toNat := by
  unfold toSizeT
  rw [Int.emod_eq_of_lt h0 h1]

/-- lines 160-163: the new offset is the old one plus the translation, modulo the number of cells -/
theorem newOffset_eq (n o : Nat) (d : Int) (hn : 0 < n) (hn2 : n < 2 ^ 62) (ho : o < n) :
    ((newOffset n o d : Nat) : Int) = ((o : Int) + d) % (n : Int) ∧ newOffset n o d < n := by
  have hn' : (0 : Int) < n := by exact_mod_cast hn
  have hw0 := Int.emod_nonneg d (Int.ne_of_gt hn')
  have hw1 := Int.emod_lt_of_pos d hn'
  have hlt : newOffset n o d < n := Nat.mod_lt _ hn
  refine ⟨?_, hlt⟩
  unfold newOffset
  rw [wrappedOffset_eq n hn d, toSizeT_of_range _ hw0 (by omega)]
  have h64 : (o + (d % (n : Int)).toNat) % two64 = o + (d % (n : Int)).toNat := by
    apply Nat.mod_eq_of_lt
    unfold two64
    omega
  rw [h64]
  push_cast
  rw [Int.toNat_of_nonneg hw0, Int.add_emod_emod]

theorem slab_pos (n : Nat) (d : Int) (hn2 : n < 2 ^ 62) (hd : 0 < d) :
    firstSlab n d = 0 ∧ lastSlab n d = min d.toNat n := by
  unfold lastSlab firstSlab numberOfSlabs
  simp only [gt_iff_lt, hd, if_true]
  refine ⟨trivial, ?_⟩
  have h0 : (0 : Int) ≤ min d (n : Int) := by omega
  rw [toSizeT_of_range _ h0 (by omega)]
  rw [Nat.mod_eq_of_lt (by unfold two64; omega)]
  omega

theorem slab_neg (n : Nat) (d : Int) (hn2 : n < 2 ^ 62) (hd : d < 0) :
    firstSlab n d = n - min (-d).toNat n ∧ lastSlab n d = n := by
  unfold lastSlab firstSlab numberOfSlabs
  have hd' : ¬ (0 < d) := by omega
  simp only [gt_iff_lt, hd', if_false]
  have h0 : (0 : Int) ≤ min (-d) (n : Int) := by omega
  have h1 : (0 : Int) ≤ (n : Int) - min (-d) (n : Int) := by omega
  rw [toSizeT_of_range _ h0 (by omega), toSizeT_of_range _ h1 (by omega)]
  refine ⟨by omega, ?_⟩
  rw [Nat.mod_eq_of_lt (by unfold two64; omega)]
  omega

/-- The circular blanking fact (one axis). After the translation by `d`, logical index `i` is stored in the slot
    that logical index `j = (i + d) mod n` occupied before; `j` lies in the blanked range
    `[firstSlab, lastSlab)` exactly when `i + d` is outside `[0, n)`; otherwise `j = i + d`. -/
theorem circular (n o i : Nat) (d : Int) (hn : 0 < n) (hn2 : n < 2 ^ 62) (ho : o < n) (hi : i < n) (hd : d ≠ 0) :
    let j := (((i : Int) + d) % (n : Int)).toNat
    j < n ∧
    (i + newOffset n o d) % n = (j + o) % n ∧
    ((firstSlab n d ≤ j ∧ j < lastSlab n d) ↔ ¬ (0 ≤ (i : Int) + d ∧ (i : Int) + d < n)) ∧
    ((0 ≤ (i : Int) + d ∧ (i : Int) + d < n) → j = ((i : Int) + d).toNat) := by
  intro j
  have hn' : (0 : Int) < n := by exact_mod_cast hn
  have hj0 := Int.emod_nonneg ((i : Int) + d) (Int.ne_of_gt hn')
  have hj1 := Int.emod_lt_of_pos ((i : Int) + d) hn'
  have hjI : (j : Int) = ((i : Int) + d) % (n : Int) := Int.toNat_of_nonneg hj0
  have hjn : j < n := by omega
  obtain ⟨hoff, _⟩ := newOffset_eq n o d hn hn2 ho
  refine ⟨hjn, ?_, ?_, ?_⟩
  · have : (((i + newOffset n o d) % n : Nat) : Int) = (((j + o) % n : Nat) : Int) := by
      push_cast
      rw [hoff, hjI, Int.add_emod_emod, Int.emod_add_emod]
      congr 1; ring
    exact_mod_cast this
  · by_cases hpos : 0 < d
    · obtain ⟨hf, hl⟩ := slab_pos n d hn2 hpos
      rw [hf, hl]
      by_cases hbig : (n : Int) ≤ d
      · constructor
        · intro _; omega
        · intro _; omega
      · have hp := int_emod_piece ((i : Int) + d) n hn (by omega) (by omega)
        rw [← hjI] at hp
        split at hp
        · omega
        · split at hp <;> omega
    · have hneg : d < 0 := by omega
      obtain ⟨hf, hl⟩ := slab_neg n d hn2 hneg
      rw [hf, hl]
      by_cases hbig : (n : Int) ≤ -d
      · constructor
        · intro _; omega
        · intro _; omega
      · have hp := int_emod_piece ((i : Int) + d) n hn (by omega) (by omega)
        rw [← hjI] at hp
        split at hp
        · omega
        · split at hp <;> omega
  · intro h
    have : ((i : Int) + d) % (n : Int) = (i : Int) + d := Int.emod_eq_of_lt h.1 h.2
    show (((i : Int) + d) % (n : Int)).toNat = _
    rw [this]

/-- what a C++ `long long` / `int` can hold -/
def Fits64 (x : Int) : Prop := -(2 ^ 63) ≤ x ∧ x < 2 ^ 63
def Fits32 (x : Int) : Prop := -(2 ^ 31) ≤ x ∧ x < 2 ^ 31

end Romea.C15Arith
