import RomeaModel.BBox
import RomeaProofs.RealInst
import Mathlib.Data.Real.Basic
import Mathlib.Data.Matrix.Mul
import Mathlib.LinearAlgebra.Matrix.NonsingularInverse
import Mathlib.Algebra.BigOperators.Fin
import Mathlib.Algebra.Order.BigOperators.Group.Finset
import Mathlib.Tactic.Linarith
import Mathlib.Tactic.Ring
import Mathlib.Tactic.NormNum

/-!
# C20 — bounding volumes and point-set extents

Property theorems about `RomeaModel/BBox.lean` instantiated at `ℝ` (exact arithmetic).  The only partial
operations on the path are the divisions by the literal `2`, by the number of points (guard: non-empty set) and by
the largest side of the point set (guard `side ≠ 0`, carried explicitly in `pointset_extents`); no `sqrt`/`log`.
Vectors are `Fin n → ℝ`, the rotation is `Fin n → Fin n → ℝ`, used as a Mathlib `Matrix` (definitionally equal).
All statements hold for every dimension `n` (the code instantiates 2 and 3), and for both summation orders `Sum3`.

Not carried: floating-point rounding (decides containment for points within a few ulp of a face; see the probe).
-/
namespace Romea.C20
open Romea Romea.BBox
open scoped BigOperators

/-! ## Helper lemmas (private) -/

private theorem allFin_iff (n : ℕ) (P : Fin n → Bool) : allFin n P = true ↔ ∀ i, P i = true := by
  unfold allFin
  rw [List.all_eq_true]
  exact ⟨fun h i => h i (List.mem_finRange i), fun h i _ => h i⟩

private theorem two_real : (two : ℝ) = 2 := by unfold two; norm_num
private theorem zero_real : (zero : ℝ) = 0 := by unfold zero; norm_num
private theorem one_real : (one : ℝ) = 1 := by unfold one; norm_num

private theorem minS_real (a b : ℝ) : minS a b = min a b := by
  unfold minS; by_cases h : b < a
  · rw [if_pos h, min_eq_right h.le]
  · rw [if_neg h, min_eq_left (not_lt.mp h)]

private theorem maxS_real (a b : ℝ) : maxS a b = max a b := by
  unfold maxS; by_cases h : a < b
  · rw [if_pos h, max_eq_right h.le]
  · rw [if_neg h, max_eq_left (not_lt.mp h)]

private theorem foldl_add_eq (l : List ℝ) (z : ℝ) : l.foldl (· + ·) z = z + l.sum := by
  induction l generalizing z with
  | nil => simp
  | cons x xs ih => simp only [List.foldl_cons, List.sum_cons]; rw [ih]; ring

private theorem sumList_real (o : Sum3) (l : List ℝ) : sumList o l = l.sum := by
  induction l with
  | nil => simp [sumList, zero_real]
  | cons x xs ih =>
    cases o with
    | left => simp only [sumList]; rw [foldl_add_eq]; simp
    | right =>
      cases xs with
      | nil => simp [sumList]
      | cons y ys => simp only [sumList] at ih ⊢; rw [ih]; simp

private theorem finRange_sum {n : ℕ} (f : Fin n → ℝ) : ((List.finRange n).map f).sum = ∑ i, f i := by
  rw [Fin.sum_univ_def]

private theorem foldl_acc_sum {β : Type} (l : List β) (f : β → ℝ) (z : ℝ) :
    l.foldl (fun acc k => acc + f k) z = z + (l.map f).sum := by
  induction l generalizing z with
  | nil => simp
  | cons x xs ih => simp only [List.foldl_cons, List.map_cons, List.sum_cons]; rw [ih]; ring

/-- running minimum of a list -/
private theorem foldl_min_spec (l : List ℝ) (init : ℝ) :
    l.foldl min init ≤ init ∧ (∀ x ∈ l, l.foldl min init ≤ x) ∧ (l.foldl min init = init ∨ l.foldl min init ∈ l) := by
  induction l generalizing init with
  | nil => simp
  | cons a as ih =>
    obtain ⟨h1, h2, h3⟩ := ih (min init a)
    simp only [List.foldl_cons]
    refine ⟨h1.trans (min_le_left _ _), ?_, ?_⟩
    · intro x hx
      rcases List.mem_cons.mp hx with rfl | hx
      · exact h1.trans (min_le_right _ _)
      · exact h2 x hx
    · rcases h3 with h3 | h3
      · rcases min_choice init a with hc | hc
        · left; rw [h3, hc]
        · right; rw [h3, hc]; exact List.mem_cons_self
      · right; exact List.mem_cons_of_mem _ h3

/-- running maximum of a list -/
private theorem foldl_max_spec (l : List ℝ) (init : ℝ) :
    init ≤ l.foldl max init ∧ (∀ x ∈ l, x ≤ l.foldl max init) ∧ (l.foldl max init = init ∨ l.foldl max init ∈ l) := by
  induction l generalizing init with
  | nil => simp
  | cons a as ih =>
    obtain ⟨h1, h2, h3⟩ := ih (max init a)
    simp only [List.foldl_cons]
    refine ⟨(le_max_left _ _).trans h1, ?_, ?_⟩
    · intro x hx
      rcases List.mem_cons.mp hx with rfl | hx
      · exact (le_max_right _ _).trans h1
      · exact h2 x hx
    · rcases h3 with h3 | h3
      · rcases max_choice init a with hc | hc
        · left; rw [h3, hc]
        · right; rw [h3, hc]; exact List.mem_cons_self
      · right; exact List.mem_cons_of_mem _ h3

/-- a running minimum started from a constant that is ≥ every element of a non-empty list is the true minimum -/
private theorem foldl_min_true (l : List ℝ) (init : ℝ) (hne : l ≠ []) (hinit : ∀ x ∈ l, x ≤ init) :
    (∀ x ∈ l, l.foldl min init ≤ x) ∧ l.foldl min init ∈ l := by
  obtain ⟨_, h2, h3⟩ := foldl_min_spec l init
  refine ⟨h2, ?_⟩
  rcases h3 with h3 | h3
  · obtain ⟨x, hx⟩ := List.exists_mem_of_ne_nil l hne
    have : l.foldl min init = x := le_antisymm (h2 x hx) (by rw [h3]; exact hinit x hx)
    rw [this]; exact hx
  · exact h3

private theorem foldl_max_true (l : List ℝ) (init : ℝ) (hne : l ≠ []) (hinit : ∀ x ∈ l, init ≤ x) :
    (∀ x ∈ l, x ≤ l.foldl max init) ∧ l.foldl max init ∈ l := by
  obtain ⟨_, h2, h3⟩ := foldl_max_spec l init
  refine ⟨h2, ?_⟩
  rcases h3 with h3 | h3
  · obtain ⟨x, hx⟩ := List.exists_mem_of_ne_nil l hne
    have : l.foldl max init = x := le_antisymm (by rw [h3]; exact hinit x hx) (h2 x hx)
    rw [this]; exact hx
  · exact h3

private theorem fold_min_pts {n : ℕ} (pts : List (Vec n ℝ)) (i : Fin n) (init : ℝ) :
    pts.foldl (fun m p => minS m (p i)) init = (pts.map (fun p => p i)).foldl min init := by
  rw [List.foldl_map]; congr 1; funext m p; exact minS_real _ _

private theorem fold_max_pts {n : ℕ} (pts : List (Vec n ℝ)) (i : Fin n) (init : ℝ) :
    pts.foldl (fun m p => maxS m (p i)) init = (pts.map (fun p => p i)).foldl max init := by
  rw [List.foldl_map]; congr 1; funext m p; exact maxS_real _ _

private theorem fold_sum_pts {n : ℕ} (pts : List (Vec n ℝ)) (i : Fin n) :
    pts.foldl (fun s p => s + p i) zero = (pts.map (fun p => p i)).sum := by
  rw [foldl_acc_sum, zero_real, zero_add]

/-- true componentwise minimum / maximum of a point set -/
def IsMinOf {n : ℕ} (pts : List (Vec n ℝ)) (i : Fin n) (m : ℝ) : Prop := (∀ p ∈ pts, m ≤ p i) ∧ ∃ p ∈ pts, m = p i
def IsMaxOf {n : ℕ} (pts : List (Vec n ℝ)) (i : Fin n) (m : ℝ) : Prop := (∀ p ∈ pts, p i ≤ m) ∧ ∃ p ∈ pts, m = p i

private theorem runmin_true {n : ℕ} (pts : List (Vec n ℝ)) (i : Fin n) (init : ℝ) (hne : pts ≠ [])
    (hinit : ∀ p ∈ pts, p i ≤ init) : IsMinOf pts i (pts.foldl (fun m p => minS m (p i)) init) := by
  rw [fold_min_pts]
  have hne' : pts.map (fun p => p i) ≠ [] := by simpa using hne
  obtain ⟨h1, h2⟩ := foldl_min_true (pts.map (fun p => p i)) init hne'
    (by intro x hx; obtain ⟨p, hp, rfl⟩ := List.mem_map.mp hx; exact hinit p hp)
  refine ⟨fun p hp => h1 _ (List.mem_map.mpr ⟨p, hp, rfl⟩), ?_⟩
  obtain ⟨p, hp, he⟩ := List.mem_map.mp h2
  exact ⟨p, hp, he.symm⟩

private theorem runmax_true {n : ℕ} (pts : List (Vec n ℝ)) (i : Fin n) (init : ℝ) (hne : pts ≠ [])
    (hinit : ∀ p ∈ pts, init ≤ p i) : IsMaxOf pts i (pts.foldl (fun m p => maxS m (p i)) init) := by
  rw [fold_max_pts]
  have hne' : pts.map (fun p => p i) ≠ [] := by simpa using hne
  obtain ⟨h1, h2⟩ := foldl_max_true (pts.map (fun p => p i)) init hne'
    (by intro x hx; obtain ⟨p, hp, rfl⟩ := List.mem_map.mp hx; exact hinit p hp)
  refine ⟨fun p hp => h1 _ (List.mem_map.mpr ⟨p, hp, rfl⟩), ?_⟩
  obtain ⟨p, hp, he⟩ := List.mem_map.mp h2
  exact ⟨p, hp, he.symm⟩

private theorem maxCoeff_spec {n : ℕ} (hn : 0 < n) (v : Vec n ℝ) :
    (∀ i, v i ≤ maxCoeff v) ∧ ∃ i, maxCoeff v = v i := by
  unfold maxCoeff
  have hmem : ∀ i, v i ∈ (List.finRange n).map v := fun i => List.mem_map.mpr ⟨i, List.mem_finRange i, rfl⟩
  cases hl : (List.finRange n).map v with
  | nil =>
    have := hmem ⟨0, hn⟩
    rw [hl] at this; simp at this
  | cons x xs =>
    simp only
    have hfold : xs.foldl maxS x = xs.foldl max x := by congr 1; funext a b; exact maxS_real a b
    rw [hfold]
    obtain ⟨h1, h2, h3⟩ := foldl_max_spec xs x
    constructor
    · intro i
      have := hmem i
      rw [hl] at this
      rcases List.mem_cons.mp this with h | h
      · rw [h]; exact h1
      · exact h2 _ h
    · have : xs.foldl max x ∈ (List.finRange n).map v := by
        rw [hl]
        rcases h3 with h3 | h3
        · rw [h3]; exact List.mem_cons_self
        · exact List.mem_cons_of_mem _ h3
      obtain ⟨i, _, hi⟩ := List.mem_map.mp this
      exact ⟨i, hi.symm⟩

/-! ## Intervals -/

/-- `inside` is componentwise membership of the closed interval -/
theorem interval_inside {n : ℕ} (I : Interval n ℝ) (v : Vec n ℝ) :
    I.inside v = true ↔ ∀ i, I.lower i ≤ v i ∧ v i ≤ I.upper i := by
  unfold Interval.inside
  rw [Bool.and_eq_true, allFin_iff, allFin_iff]
  simp only [decide_eq_true_eq, ge_iff_le]
  exact ⟨fun h i => ⟨h.1 i, h.2 i⟩, fun h => ⟨fun i => (h i).1, fun i => (h i).2⟩⟩

/-- **interval_hull**: `include` is the componentwise hull — bounds are the componentwise min / max, it contains
    both intervals, and it is contained in every interval that contains both -/
theorem interval_hull {n : ℕ} (I J : Interval n ℝ) :
    (∀ i, (I.include J).lower i = min (I.lower i) (J.lower i) ∧ (I.include J).upper i = max (I.upper i) (J.upper i)) ∧
    (∀ v, I.inside v = true ∨ J.inside v = true → (I.include J).inside v = true) ∧
    (∀ K : Interval n ℝ,
      (∀ i, K.lower i ≤ I.lower i ∧ K.lower i ≤ J.lower i ∧ I.upper i ≤ K.upper i ∧ J.upper i ≤ K.upper i) ↔
      (∀ i, K.lower i ≤ (I.include J).lower i ∧ (I.include J).upper i ≤ K.upper i)) := by
  have hb : ∀ i, (I.include J).lower i = min (I.lower i) (J.lower i) ∧
      (I.include J).upper i = max (I.upper i) (J.upper i) := fun i => ⟨minS_real _ _, maxS_real _ _⟩
  refine ⟨hb, ?_, ?_⟩
  · intro v hv
    rw [interval_inside]
    intro i
    rw [(hb i).1, (hb i).2]
    rcases hv with hv | hv <;> rw [interval_inside] at hv
    · exact ⟨(min_le_left _ _).trans (hv i).1, (hv i).2.trans (le_max_left _ _)⟩
    · exact ⟨(min_le_right _ _).trans (hv i).1, (hv i).2.trans (le_max_right _ _)⟩
  · intro K
    constructor
    · intro h i
      rw [(hb i).1, (hb i).2]
      exact ⟨le_min (h i).1 (h i).2.1, max_le (h i).2.2.1 (h i).2.2.2⟩
    · intro h i
      have h1 := (h i).1
      have h2 := (h i).2
      rw [(hb i).1] at h1
      rw [(hb i).2] at h2
      exact ⟨h1.trans (min_le_left _ _), h1.trans (min_le_right _ _), (le_max_left _ _).trans h2, (le_max_right _ _).trans h2⟩

/-! ## Axis-aligned boxes -/

/-- **aabb_of_interval**: a box built from an interval reproduces that interval -/
theorem aabb_of_interval {n : ℕ} (I : Interval n ℝ) :
    (AABB.ofInterval I).toInterval.lower = I.lower ∧ (AABB.ofInterval I).toInterval.upper = I.upper ∧
    (∀ i, (AABB.ofInterval I).center i = (I.upper i + I.lower i) / 2 ∧ (AABB.ofInterval I).half i = (I.upper i - I.lower i) / 2) := by
  refine ⟨?_, ?_, ?_⟩
  · funext i
    show (I.upper i + I.lower i) / two - (I.upper i - I.lower i) / two = I.lower i
    rw [two_real]; ring
  · funext i
    show (I.upper i + I.lower i) / two + (I.upper i - I.lower i) / two = I.upper i
    rw [two_real]; ring
  · intro i
    constructor
    · show (I.upper i + I.lower i) / two = _
      rw [two_real]
    · show (I.upper i - I.lower i) / two = _
      rw [two_real]

/-- **aabb_inside**: containment ⇔ every coordinate within centre ± half extent ⇔ membership of `toInterval` -/
theorem aabb_inside {n : ℕ} (b : AABB n ℝ) (p : Vec n ℝ) :
    (b.isInside p = true ↔ ∀ i, |p i - b.center i| ≤ b.half i) ∧
    (b.isInside p = true ↔ b.toInterval.inside p = true) := by
  have h1 : b.isInside p = true ↔ ∀ i, |p i - b.center i| ≤ b.half i := by
    unfold AABB.isInside
    rw [allFin_iff]
    simp only [decide_eq_true_eq, trans_abs]
  refine ⟨h1, ?_⟩
  rw [h1, interval_inside]
  constructor
  · intro h i
    have := abs_le.mp (h i)
    show b.center i - b.half i ≤ p i ∧ p i ≤ b.center i + b.half i
    constructor <;> linarith [this.1, this.2]
  · intro h i
    have : b.center i - b.half i ≤ p i ∧ p i ≤ b.center i + b.half i := h i
    rw [abs_le]; constructor <;> linarith [this.1, this.2]

/-! ## Oriented boxes -/

/-- coordinates in the box frame = `Rᵀ (p − c)` (for either summation order) -/
theorem obb_toLocal {n : ℕ} (o : Sum3) (b : OBB n ℝ) (p : Vec n ℝ) :
    b.toLocal o p = Matrix.mulVec (Matrix.transpose (Matrix.of b.rot)) (fun j => p j - b.aabb.center j) := by
  funext i
  unfold OBB.toLocal
  rw [sumList_real, finRange_sum]
  simp [Matrix.mulVec, dotProduct, Matrix.transpose_apply, Matrix.of_apply]

/-- **obb_inside**: containment ⇔ the point expressed in the box frame, `Rᵀ (p − c)`, lies in the centred box -/
theorem obb_inside {n : ℕ} (o : Sum3) (b : OBB n ℝ) (p : Vec n ℝ) :
    (b.isInside o p = true ↔
      ∀ i, |Matrix.mulVec (Matrix.transpose (Matrix.of b.rot)) (fun j => p j - b.aabb.center j) i| ≤ b.aabb.half i) ∧
    (b.isInside o p = true ↔
      (AABB.mk (fun _ => 0) b.aabb.half).isInside (Matrix.mulVec (Matrix.transpose (Matrix.of b.rot)) (fun j => p j - b.aabb.center j)) = true) := by
  have h1 : b.isInside o p = true ↔
      ∀ i, |Matrix.mulVec (Matrix.transpose (Matrix.of b.rot)) (fun j => p j - b.aabb.center j) i| ≤ b.aabb.half i := by
    unfold OBB.isInside
    rw [allFin_iff, obb_toLocal]
    simp only [decide_eq_true_eq, trans_abs]
  refine ⟨h1, ?_⟩
  rw [h1, (aabb_inside _ _).1]
  simp

/-- half extents of the derived axis-aligned box: `Σₙ |R i n · hₙ|` -/
theorem obb_toAABB_half {n : ℕ} (b : OBB n ℝ) (i : Fin n) :
    b.toAABB.half i = ∑ k, |b.rot i k * b.aabb.half k| ∧ b.toAABB.center = b.aabb.center := by
  refine ⟨?_, rfl⟩
  show (List.finRange n).foldl (fun acc k => acc + Trans.abs (b.rot i k * b.aabb.half k)) zero = _
  rw [foldl_acc_sum, zero_real, zero_add, finRange_sum]
  simp only [trans_abs]

/-- **obb_enclosed_tight**, part 1: for an orthogonal `R` every point of the oriented box lies in the derived
    axis-aligned box -/
theorem obb_enclosed {n : ℕ} (o : Sum3) (b : OBB n ℝ)
    (hR : Matrix.transpose (Matrix.of b.rot) * Matrix.of b.rot = 1)
    (p : Vec n ℝ) (hp : b.isInside o p = true) : b.toAABB.isInside p = true := by
  have hR' : Matrix.of b.rot * Matrix.transpose (Matrix.of b.rot) = 1 :=
    mul_eq_one_comm.mp hR
  rw [(aabb_inside _ _).1]
  rw [(obb_inside o b p).1] at hp
  intro i
  set v : Fin n → ℝ := fun j => p j - b.aabb.center j with hv
  set y : Fin n → ℝ := Matrix.mulVec (Matrix.transpose (Matrix.of b.rot)) v with hy
  have hvy : v = Matrix.mulVec (Matrix.of b.rot) y := by
    rw [hy, Matrix.mulVec_mulVec, hR', Matrix.one_mulVec]
  rw [(obb_toAABB_half b i).1, (obb_toAABB_half b i).2]
  have hvi : p i - b.aabb.center i = ∑ k, b.rot i k * y k := by
    have := congrFun hvy i
    simpa [Matrix.mulVec, dotProduct, hv] using this
  rw [hvi]
  calc |∑ k, b.rot i k * y k| ≤ ∑ k, |b.rot i k * y k| := Finset.abs_sum_le_sum_abs _ _
    _ ≤ ∑ k, |b.rot i k * b.aabb.half k| := by
        apply Finset.sum_le_sum
        intro k _
        rw [abs_mul, abs_mul]
        exact mul_le_mul_of_nonneg_left ((hp k).trans (le_abs_self _)) (abs_nonneg _)

/-- **obb_enclosed_tight**, part 2 (tightness): for an orthogonal `R` and non-negative half extents, the upper face
    `i` of the derived box is attained at the corner `yₙ = sign(R i n) · hₙ` of the oriented box (and the lower
    face at the opposite corner): the world point `c + R y` belongs to the oriented box and its `i`-th coordinate is
    `cᵢ ± half'ᵢ` -/
theorem obb_tight {n : ℕ} (o : Sum3) (b : OBB n ℝ)
    (hR : Matrix.transpose (Matrix.of b.rot) * Matrix.of b.rot = 1)
    (hh : ∀ k, 0 ≤ b.aabb.half k) (i : Fin n) (s : ℝ) (hs : s = 1 ∨ s = -1) :
    let y : Fin n → ℝ := fun k => s * (if 0 ≤ b.rot i k then b.aabb.half k else -b.aabb.half k)
    let p : Vec n ℝ := fun j => b.aabb.center j + Matrix.mulVec (Matrix.of b.rot) y j
    b.isInside o p = true ∧ p i - b.aabb.center i = s * b.toAABB.half i := by
  intro y p
  have hloc : Matrix.mulVec (Matrix.transpose (Matrix.of b.rot)) (fun j => p j - b.aabb.center j) = y := by
    have : (fun j => p j - b.aabb.center j) = Matrix.mulVec (Matrix.of b.rot) y := by
      funext j; simp [p]
    rw [this, Matrix.mulVec_mulVec, hR, Matrix.one_mulVec]
  constructor
  · rw [(obb_inside o b p).1, hloc]
    intro k
    show |s * (if 0 ≤ b.rot i k then b.aabb.half k else -b.aabb.half k)| ≤ b.aabb.half k
    have hsabs : |s| = 1 := by rcases hs with h | h <;> rw [h] <;> norm_num
    rw [abs_mul, hsabs, one_mul]
    split_ifs
    · rw [abs_of_nonneg (hh k)]
    · rw [abs_neg, abs_of_nonneg (hh k)]
  · rw [(obb_toAABB_half b i).1]
    have : p i - b.aabb.center i = ∑ k, b.rot i k * y k := by
      simp [p, Matrix.mulVec, dotProduct]
    rw [this, Finset.mul_sum]
    apply Finset.sum_congr rfl
    intro k _
    show b.rot i k * (s * (if 0 ≤ b.rot i k then b.aabb.half k else -b.aabb.half k)) = s * |b.rot i k * b.aabb.half k|
    rw [abs_mul, abs_of_nonneg (hh k)]
    split_ifs with h
    · rw [abs_of_nonneg h]; ring
    · rw [abs_of_neg (not_le.mp h)]; ring

/-- **obb_enclosed_tight**: the derived axis-aligned box contains every point of the oriented box, and each of its
    `2n` faces is touched by a point (a corner) of the oriented box -/
theorem obb_enclosed_tight {n : ℕ} (o : Sum3) (b : OBB n ℝ)
    (hR : Matrix.transpose (Matrix.of b.rot) * Matrix.of b.rot = 1) (hh : ∀ k, 0 ≤ b.aabb.half k) :
    (∀ p, b.isInside o p = true → b.toAABB.isInside p = true) ∧
    (∀ i : Fin n, (∃ p, b.isInside o p = true ∧ p i = b.toAABB.center i + b.toAABB.half i) ∧
                  (∃ p, b.isInside o p = true ∧ p i = b.toAABB.center i - b.toAABB.half i)) := by
  refine ⟨fun p hp => obb_enclosed o b hR p hp, fun i => ⟨?_, ?_⟩⟩
  · obtain ⟨h1, h2⟩ := obb_tight o b hR hh i 1 (Or.inl rfl)
    refine ⟨_, h1, ?_⟩
    have hc : b.toAABB.center i = b.aabb.center i := rfl
    rw [hc]; linarith
  · obtain ⟨h1, h2⟩ := obb_tight o b hR hh i (-1) (Or.inr rfl)
    refine ⟨_, h1, ?_⟩
    have hc : b.toAABB.center i = b.aabb.center i := rfl
    rw [hc]; linarith

/-! ## Point-set extents -/

/-- **pointset_extents** (`PointSetPreconditioner::compute`): for every non-empty point set, and every pair of
    starting constants with `initMin ≥` all coordinates and `initMax ≤` all coordinates, the reported minimum and
    maximum are the true componentwise extrema, the mean is the centroid, the scale is the reciprocal of the
    largest side (`scale · side = 1` whenever `side ≠ 0`) and the translation is `−mean · scale`. -/
theorem pointset_extents {sz cart : ℕ} (hc : cart ≤ sz) (hsz : 0 < sz) (initMin initMax : ℝ) (pts : List (Vec sz ℝ))
    (hne : pts ≠ []) (hmin : ∀ p ∈ pts, ∀ i, p i ≤ initMin) (hmax : ∀ p ∈ pts, ∀ i, initMax ≤ p i) :
    let r := Precond.computeWith (cart := cart) hc initMin initMax pts
    (∀ i, IsMinOf pts i (r.min i)) ∧ (∀ i, IsMaxOf pts i (r.max i)) ∧
    (∀ i, r.mean i = (pts.map (fun p => p i)).sum / (pts.length : ℝ)) ∧
    (∃ side, (∀ i, r.max i - r.min i ≤ side) ∧ (∃ i, side = r.max i - r.min i) ∧ r.scale = 1 / side ∧
      (side ≠ 0 → r.scale * side = 1)) ∧
    (∀ i : Fin cart, r.translation i = -(r.mean ⟨i.val, Nat.lt_of_lt_of_le i.isLt hc⟩) * r.scale) := by
  intro r
  have hmn : ∀ i, IsMinOf pts i (r.min i) := fun i => runmin_true pts i initMin hne (fun p hp => hmin p hp i)
  have hmx : ∀ i, IsMaxOf pts i (r.max i) := fun i => runmax_true pts i initMax hne (fun p hp => hmax p hp i)
  refine ⟨hmn, hmx, ?_, ?_, fun i => rfl⟩
  · intro i
    show pts.foldl (fun s p => s + p i) zero / ((pts.length : ℕ) : ℝ) = _
    rw [fold_sum_pts]
  · obtain ⟨h1, i0, h2⟩ := maxCoeff_spec hsz (fun i => r.max i - r.min i)
    refine ⟨maxCoeff (fun i => r.max i - r.min i), h1, ⟨i0, h2⟩, ?_, ?_⟩
    · show one / maxCoeff (fun i => r.max i - r.min i) = _
      rw [one_real]
    · intro hside
      show one / maxCoeff (fun i => r.max i - r.min i) * _ = 1
      rw [one_real]; exact one_div_mul_cancel hside

/-- the code's constants are harmless: with `initMin = M` and `initMax = −M` (`numeric_limits::max()` and
    `lowest() = −max()`) the extents are the true ones for every non-empty set whose coordinates lie in `[−M, M]`,
    in particular for sets with all-negative coordinates -/
theorem pointset_extents_limits {sz cart : ℕ} (hc : cart ≤ sz) (M : ℝ) (pts : List (Vec sz ℝ))
    (hne : pts ≠ []) (hM : ∀ p ∈ pts, ∀ i, -M ≤ p i ∧ p i ≤ M) :
    let r := Precond.computeWith (cart := cart) hc M (-M) pts
    (∀ i, IsMinOf pts i (r.min i)) ∧ (∀ i, IsMaxOf pts i (r.max i)) := by
  intro r
  exact ⟨fun i => runmin_true pts i M hne (fun p hp => (hM p hp i).2),
         fun i => runmax_true pts i (-M) hne (fun p hp => (hM p hp i).1)⟩

/-- why the starting constant of the maximum matters (the defect repaired in /repo by the commit "PointSetPreconditioner
    starts its running maximum at lowest()"): started from any constant above the data — e.g. `numeric_limits::min()`,
    the smallest *positive* number, on an all-negative set — the reported maximum is that constant, not the true one -/
theorem pointset_max_wrong_if_started_above {sz cart : ℕ} (hc : cart ≤ sz) (initMin initMax : ℝ)
    (pts : List (Vec sz ℝ)) (i : Fin sz) (habove : ∀ p ∈ pts, p i < initMax) :
    (Precond.computeWith (cart := cart) hc initMin initMax pts).max i = initMax ∧
    ¬ IsMaxOf pts i ((Precond.computeWith (cart := cart) hc initMin initMax pts).max i) := by
  have h : (Precond.computeWith (cart := cart) hc initMin initMax pts).max i = initMax := by
    show pts.foldl (fun m p => maxS m (p i)) initMax = initMax
    rw [fold_max_pts]
    have : ∀ l : List ℝ, (∀ x ∈ l, x < initMax) → l.foldl max initMax = initMax := by
      intro l
      induction l with
      | nil => intro _; rfl
      | cons a as ih =>
        intro hl
        simp only [List.foldl_cons]
        rw [max_eq_left (hl a List.mem_cons_self).le]
        exact ih (fun x hx => hl x (List.mem_cons_of_mem _ hx))
    apply this
    intro x hx
    obtain ⟨p, hp, rfl⟩ := List.mem_map.mp hx
    exact habove p hp
  refine ⟨h, ?_⟩
  rw [h]
  rintro ⟨_, p, hp, he⟩
  exact absurd he (ne_of_gt (habove p hp))

/-- `min` / `max` / `mean` of Eigen containers (EigenContainers.hpp): true componentwise extrema and centroid of every
    non-empty container whose coordinates lie within the starting constants `±M` (`±numeric_limits::max()`) -/
theorem container_extents {n : ℕ} (M : ℝ) (pts : List (Vec n ℝ)) (hne : pts ≠ [])
    (hM : ∀ p ∈ pts, ∀ i, -M ≤ p i ∧ p i ≤ M) :
    (∀ i, IsMinOf pts i (contMinWith M pts i)) ∧ (∀ i, IsMaxOf pts i (contMaxWith (-M) pts i)) ∧
    (∀ i, contMean pts i = (pts.map (fun p => p i)).sum / (pts.length : ℝ)) := by
  refine ⟨fun i => runmin_true pts i M hne (fun p hp => (hM p hp i).2),
          fun i => runmax_true pts i (-M) hne (fun p hp => (hM p hp i).1), ?_⟩
  intro i
  show pts.foldl (fun s p => s + p i) zero / ((pts.length : ℕ) : ℝ) = _
  rw [fold_sum_pts]

/-! ## Non-vacuity: concrete non-trivial instances of the hypotheses -/

/-- the all-negative set of the design's replay, `{(−3,−4), (−1,−2)}`: extents (−3,−4) … (−1,−2), largest side 2, scale 1/2 -/
example :
    let pts : List (Vec 2 ℝ) := [![-3, -4], ![-1, -2]]
    pts ≠ [] ∧ (∀ p ∈ pts, ∀ i, -(10 : ℝ) ≤ p i ∧ p i ≤ 10) := by
  intro pts
  refine ⟨by simp [pts], ?_⟩
  intro p hp i
  simp only [pts, List.mem_cons, List.not_mem_nil, or_false] at hp
  rcases hp with rfl | rfl <;> fin_cases i <;> simp <;> norm_num

/-- a proper rotation (quarter turn) satisfies the orthogonality hypothesis of `obb_enclosed` / `obb_tight` -/
example : Matrix.transpose (!![0, -1; 1, 0] : Matrix (Fin 2) (Fin 2) ℝ) * !![0, -1; 1, 0] = 1 := by
  ext i j; fin_cases i <;> fin_cases j <;> simp [Matrix.mul_apply, Fin.sum_univ_two]

example : (AABB.mk (n := 2) ![1, 2] ![0.5, 0] : AABB 2 ℝ).isInside ![1.5, 2] = true := by
  apply (aabb_inside _ _).1.mpr; intro i; fin_cases i <;> norm_num

end Romea.C20
