import RomeaModel.Rate
import Mathlib.Tactic.Linarith
import Mathlib.Tactic.Ring
import Mathlib.Data.List.Basic
import Mathlib.Data.Real.Basic

/-!
# C17 — rate monitoring and rate check-ups follow the stamped-event history exactly

All theorems quantify over EVERY event history (`List Ev`: data stamps and heartbeats in any
interleaving), every window size `W ≥ 1`: unbounded.  Time is integer nanoseconds.  The rate is
symbolic (`none` = 0, `some s` = `W·10⁹/s`); its evaluation in double precision is executed and
compared by the correspondence check, not proved.
-/
namespace Romea.C17
open Romea.Rate Romea.Checkup Romea.Generated.C17

/-! ## Specification-side bookkeeping of a history -/

/-- inter-stamp periods, the first one measured from `l` (the monitor starts with `lastDuration_ = 0`) -/
def periodsFrom (l : Int) : List Int → List Int
  | [] => []
  | t :: r => (t - l) :: periodsFrom t r

/-- the last element of a list, or `l` when it is empty -/
def lastOr (l : Int) : List Int → Int
  | [] => l
  | t :: r => lastOr t r

theorem lastOr_append (l : Int) (ss : List Int) (t : Int) : lastOr l (ss ++ [t]) = t := by
  induction ss generalizing l with
  | nil => rfl
  | cons a r ih => simpa [lastOr] using ih a

/-- stamps seen so far, and whether a heartbeat has timed out since the last stamp -/
def track (st : List Int × Bool) : Ev → List Int × Bool
  | .stamp t => (st.1 ++ [t], false)
  | .hb t => (st.1, st.2 || (decide (st.1 ≠ []) && decide (t - lastOr 0 st.1 > timeoutNs)))

def history (evs : List Ev) : List Int × Bool := evs.foldl track ([], false)

private theorem periodsFrom_append (l : Int) (ss : List Int) (t : Int) :
    periodsFrom l (ss ++ [t]) = periodsFrom l ss ++ [t - lastOr l ss] := by
  induction ss generalizing l with
  | nil => simp [periodsFrom, lastOr]
  | cons a r ih =>
    simp only [List.cons_append, periodsFrom, ih a, lastOr]

private theorem periodsFrom_length (l : Int) (ss : List Int) : (periodsFrom l ss).length = ss.length := by
  induction ss generalizing l with
  | nil => rfl
  | cons a r ih => simp [periodsFrom, ih a]

/-- telescoping: the last periods sum to the span between the corresponding stamps -/
private theorem sum_drop_periods (l : Int) (ss : List Int) (k : Nat) (hk : k ≤ ss.length) :
    ((periodsFrom l ss).drop k).sum = lastOr l ss - (l :: ss)[k]'(by simp; omega) := by
  induction ss generalizing l k with
  | nil => simp at hk; subst hk; simp [periodsFrom, lastOr]
  | cons t r ih =>
    cases k with
    | zero =>
      have := ih t 0 (Nat.zero_le _)
      simp only [List.drop_zero] at this
      simp only [periodsFrom, List.drop_zero, List.sum_cons, this]
      simp [lastOr]
    | succ k' =>
      have := ih t k' (by simpa using hk)
      simp only [periodsFrom, List.drop_succ_cons, this]
      simp [lastOr]

/-! ## Monitor invariant -/

structure MInv (m : Mon) (ss : List Int) : Prop where
  last_eq : m.last = lastOr 0 ss
  q_eq : m.q = (periodsFrom 0 ss).drop (ss.length - m.W)
  sum_eq : m.sum = m.q.sum

private theorem init_inv (W : Nat) : MInv (Mon.init W) [] := ⟨rfl, by simp [Mon.init, periodsFrom], rfl⟩

private theorem update_fields (m : Mon) (t : Int) :
    (m.update t).W = m.W ∧ (m.update t).last = t := by
  simp only [Mon.update]; split <;> simp

private theorem update_inv (m : Mon) (ss : List Int) (t : Int) (hW : 0 < m.W) (h : MInv m ss) :
    MInv (m.update t) (ss ++ [t]) ∧
    (m.update t).rate = if m.W ≤ ss.length then some ((periodsFrom 0 (ss ++ [t])).drop (ss.length + 1 - m.W)).sum
                        else m.rate := by
  have hP := periodsFrom_append 0 ss t
  have hlen := periodsFrom_length 0 ss
  have hql : m.q.length = min ss.length m.W := by rw [h.q_eq, List.length_drop, hlen]; omega
  by_cases hfull : m.W ≤ ss.length
  · -- the queue holds W periods: push, pop the oldest
    have hq1 : (m.q ++ [t - m.last]).length = m.W + 1 := by simp [hql]; omega
    have e_q : (m.update t).q = (m.q ++ [t - m.last]).tail := by simp [Mon.update, hq1]
    have e_sum : (m.update t).sum = m.sum + (t - m.last) - (m.q ++ [t - m.last]).headD 0 := by simp [Mon.update, hq1]
    have e_rate : (m.update t).rate = some (m.sum + (t - m.last) - (m.q ++ [t - m.last]).headD 0) := by
      simp [Mon.update, hq1]
    have hne : m.q ≠ [] := by
      intro hn; rw [hn] at hql; simp at hql; omega
    obtain ⟨a, r, har⟩ := List.exists_cons_of_ne_nil hne
    have htail : (m.q ++ [t - m.last]).tail = (periodsFrom 0 (ss ++ [t])).drop (ss.length + 1 - m.W) := by
      rw [hP, h.last_eq, List.drop_append_of_le_length (by rw [hlen]; omega)]
      rw [har, List.cons_append, List.tail_cons]
      have : r = (periodsFrom 0 ss).drop (ss.length + 1 - m.W) := by
        have h1 : (a :: r).tail = ((periodsFrom 0 ss).drop (ss.length - m.W)).tail := by rw [← har, h.q_eq]
        rw [List.tail_cons, List.tail_drop] at h1
        rw [h1]; congr 1; omega
      rw [this]
    have hsum : m.sum + (t - m.last) - (m.q ++ [t - m.last]).headD 0 = ((m.q ++ [t - m.last]).tail).sum := by
      rw [h.sum_eq, har]; simp only [List.cons_append, List.headD_cons, List.tail_cons, List.sum_cons, List.sum_append, List.sum_nil]; ring
    refine ⟨⟨?_, ?_, ?_⟩, ?_⟩
    · rw [(update_fields m t).2, lastOr_append]
    · rw [e_q, (update_fields m t).1, htail]; simp
    · rw [e_sum, e_q, hsum]
    · rw [if_pos hfull, e_rate, hsum, htail]
  · -- the queue is not full yet: push only
    have hq1 : ¬ m.q.length = m.W := by rw [hql]; omega
    have e_q : (m.update t).q = m.q ++ [t - m.last] := by simp [Mon.update, hq1]
    have e_sum : (m.update t).sum = m.sum + (t - m.last) := by simp [Mon.update, hq1]
    have e_rate : (m.update t).rate = m.rate := by simp [Mon.update, hq1]
    refine ⟨⟨?_, ?_, ?_⟩, ?_⟩
    · rw [(update_fields m t).2, lastOr_append]
    · rw [e_q, (update_fields m t).1, h.q_eq, hP, h.last_eq]
      simp only [List.length_append, List.length_singleton]
      rw [show ss.length - m.W = 0 by omega, show ss.length + 1 - m.W = 0 by omega]; simp
    · rw [e_sum, e_q, h.sum_eq]; simp
    · rw [if_neg hfull, e_rate]

private theorem timeout_fields (m : Mon) (t : Int) :
    (m.timeout t).1.W = m.W ∧ (m.timeout t).1.last = m.last ∧ (m.timeout t).1.q = m.q ∧ (m.timeout t).1.sum = m.sum := by
  simp only [Mon.timeout]; split <;> simp

private theorem q_ne_nil_iff (m : Mon) (ss : List Int) (hW : 0 < m.W) (h : MInv m ss) : m.q ≠ [] ↔ ss ≠ [] := by
  have hlen := periodsFrom_length 0 ss
  have hql : m.q.length = min ss.length m.W := by rw [h.q_eq, List.length_drop, hlen]; omega
  constructor
  · intro hq hs; subst hs; simp at hql; exact hq hql
  · intro hs hq
    rw [hq] at hql; simp at hql
    have : ss.length ≠ 0 := fun h0 => hs (List.eq_nil_of_length_eq_zero h0)
    omega

/-- the rate the monitor must hold after a history: `none` (= 0) until `W + 1` stamps have been seen
    or after a timeout since the last stamp; otherwise the sum of the last `W` periods, i.e. the time
    spanned between stamp `n` and stamp `n - W` -/
def expectedRate (W : Nat) (h : List Int × Bool) : Option Int :=
  if W + 1 ≤ h.1.length ∧ h.2 = false then
    some (lastOr 0 h.1 - (0 :: h.1).getD (h.1.length - W) 0)
  else none

private theorem run_inv (W : Nat) (hW : 0 < W) (evs : List Ev) (m : Mon) (st : List Int × Bool)
    (hmW : m.W = W) (h : MInv m st.1) (hr : m.rate = expectedRate W st) :
    MInv (m.run evs) (evs.foldl track st).1 ∧ (m.run evs).W = W ∧
    (m.run evs).rate = expectedRate W (evs.foldl track st) := by
  induction evs generalizing m st with
  | nil => exact ⟨h, hmW, hr⟩
  | cons e rest ih =>
    simp only [Mon.run, List.foldl_cons]
    cases e with
    | stamp t =>
      obtain ⟨hinv, hrate⟩ := update_inv m st.1 t (by rw [hmW]; exact hW) h
      have hWu : (m.update t).W = W := by rw [(update_fields m t).1, hmW]
      apply ih (m.update t) (track st (.stamp t)) hWu hinv
      simp only [track, expectedRate]
      rw [hrate, hmW]
      simp only [List.length_append, List.length_singleton, lastOr_append]
      by_cases hfull : W ≤ st.1.length
      · have h1 : W + 1 ≤ st.1.length + 1 ∧ True := ⟨by omega, trivial⟩
        rw [if_pos hfull, if_pos h1]
        congr 1
        rw [sum_drop_periods 0 (st.1 ++ [t]) (st.1.length + 1 - W) (by simp), lastOr_append]
        congr 1
        rw [List.getD_eq_getElem?_getD, List.getElem?_eq_getElem (by simp; omega)]
        rfl
      · have h1 : ¬ (W + 1 ≤ st.1.length + 1 ∧ True) := by omega
        rw [if_neg hfull, if_neg h1, hr, expectedRate, if_neg (by omega)]
    | hb t =>
      have hf := timeout_fields m t
      have hinv : MInv (m.timeout t).1 st.1 := ⟨by rw [hf.2.1]; exact h.last_eq, by rw [hf.2.2.1, hf.1]; exact h.q_eq,
        by rw [hf.2.2.2, hf.2.2.1]; exact h.sum_eq⟩
      apply ih (m.timeout t).1 (track st (.hb t)) (by rw [hf.1, hmW]) hinv
      have hq := q_ne_nil_iff m st.1 (by rw [hmW]; exact hW) h
      by_cases hto : m.q ≠ [] ∧ t - m.last > timeoutNs
      · have hs : st.1 ≠ [] := hq.mp hto.1
        have hrate : (m.timeout t).1.rate = none := by simp only [Mon.timeout, if_pos hto]
        have htr : track st (.hb t) = (st.1, true) := by
          have : t - lastOr 0 st.1 > timeoutNs := by rw [← h.last_eq]; exact hto.2
          simp [track, hs, this]
        rw [hrate, htr]
        simp [expectedRate]
      · have hrate : (m.timeout t).1.rate = m.rate := by simp only [Mon.timeout, if_neg hto]
        have htr : track st (.hb t) = st := by
          obtain ⟨ss, fl⟩ := st
          by_cases hs : ss = []
          · simp [track, hs]
          · have : ¬ t - lastOr 0 ss > timeoutNs := by
              intro hgt; exact hto ⟨hq.mpr hs, by rw [h.last_eq]; exact hgt⟩
            simp [track, this]
        rw [hrate, htr, hr]

/-! ## Property theorems -/

/-- **Rate exactness.** For EVERY interleaving of data stamps and heartbeats the stored rate is 0
    (`none`) until `W + 1` stamps have been seen, and thereafter — unless a heartbeat has timed out since
    the last stamp — it is `W·10⁹ / (sₙ − sₙ₋W)` (`some (sₙ − sₙ₋W)`): `W` divided by the time spanned by the
    last `W` periods. -/
theorem rate_exact (W : Nat) (hW : 0 < W) (evs : List Ev) :
    ((Mon.init W).run evs).rate = expectedRate W (history evs) ∧ ((Mon.init W).run evs).W = W := by
  obtain ⟨_, h2, h3⟩ := run_inv W hW evs (Mon.init W) ([], false) rfl (init_inv W) (by simp [expectedRate, Mon.init])
  exact ⟨h3, h2⟩

/-- the stamps recorded by `history` are the data stamps of the event list, in order -/
theorem history_stamps (evs : List Ev) : (history evs).1 = stamps evs := by
  have : ∀ (st : List Int × Bool), (evs.foldl track st).1 = st.1 ++ stamps evs := by
    induction evs with
    | nil => intro st; simp [stamps]
    | cons e r ih =>
      intro st
      cases e with
      | stamp t => simp [track, stamps, ih]
      | hb t => simp [track, stamps, ih]
  simpa [history] using this ([], false)

/-- for strictly increasing data stamps the span in the rate formula is positive: the rate is finite
    and positive (no division by zero) -/
theorem rate_span_pos (W : Nat) (hW : 0 < W) (ss : List Int) (hinc : ss.Pairwise (· < ·)) (hn : W + 1 ≤ ss.length) :
    0 < lastOr 0 ss - (0 :: ss).getD (ss.length - W) 0 := by
  obtain ⟨j, hj⟩ : ∃ j, ss.length - W = j + 1 := ⟨ss.length - W - 1, by omega⟩
  have hk : j < ss.length := by omega
  have hget : (0 :: ss).getD (ss.length - W) 0 = ss[j] := by
    rw [hj, List.getD_cons_succ, List.getD_eq_getElem?_getD, List.getElem?_eq_getElem hk]; rfl
  have hlast : ∀ (l : Int) (s : List Int) (h : s ≠ []), lastOr l s = s.getLast h := by
    intro l s
    induction s generalizing l with
    | nil => intro h; exact absurd rfl h
    | cons a r ih =>
      intro h
      cases r with
      | nil => rfl
      | cons b r' => simp only [lastOr] at ih ⊢; rw [List.getLast_cons (by simp)]; exact ih a (by simp)
  have hne : ss ≠ [] := by intro h; subst h; simp at hn
  rw [hget, hlast 0 ss hne, List.getLast_eq_getElem]
  have := List.pairwise_iff_getElem.mp hinc j (ss.length - 1) hk (by omega) (by omega)
  linarith

/-- **Timeout rule.** In every reachable state, a heartbeat at `t` reports a timeout exactly when a
    stamp exists and `t` is more than the timeout (0.5 s) after the last stamp; it then forces the rate
    to 0; any other heartbeat changes nothing. -/
theorem timeout_rule (W : Nat) (hW : 0 < W) (evs : List Ev) (t : Int) :
    (((((Mon.init W).run evs).timeout t).2 = true) ↔
        (history evs).1 ≠ [] ∧ t - lastOr 0 (history evs).1 > timeoutNs) ∧
    ((((Mon.init W).run evs).timeout t).2 = true → (((Mon.init W).run evs).timeout t).1.rate = none) ∧
    ((((Mon.init W).run evs).timeout t).2 = false → (((Mon.init W).run evs).timeout t).1 = (Mon.init W).run evs) := by
  obtain ⟨hinv, hWr, _⟩ := run_inv W hW evs (Mon.init W) ([], false) rfl (init_inv W) (by simp [expectedRate, Mon.init])
  have hq := q_ne_nil_iff _ _ (by rw [hWr]; exact hW) hinv
  have hl := hinv.last_eq
  unfold history
  generalize (Mon.init W).run evs = m at *
  generalize (List.foldl track ([], false) evs).1 = ss at *
  by_cases hto : m.q ≠ [] ∧ t - m.last > timeoutNs
  · have e2 : (m.timeout t).2 = true := by simp only [Mon.timeout, if_pos hto]
    have e1 : (m.timeout t).1.rate = none := by simp only [Mon.timeout, if_pos hto]
    exact ⟨⟨fun _ => ⟨hq.mp hto.1, by rw [← hl]; exact hto.2⟩, fun _ => e2⟩, fun _ => e1,
      fun h => by rw [e2] at h; simp at h⟩
  · have e2 : (m.timeout t).2 = false := by simp only [Mon.timeout, if_neg hto]
    have e1 : (m.timeout t).1 = m := by simp only [Mon.timeout, if_neg hto]
    exact ⟨⟨fun h => by rw [e2] at h; simp at h, fun h => absurd ⟨hq.mpr h.1, by rw [hl]; exact h.2⟩ hto⟩,
      fun h => by rw [e2] at h; simp at h, fun _ => e1⟩

/-- **The literal constants are the ones the property states** (regenerated from the source on every
    run): window clamp 4 … 64, timeout 0.5 s; and the window is `clamp(2·rate, 4, 64)`. -/
theorem constants_as_stated : minWindow = 4 ∧ maxWindow = 64 ∧ timeoutNs = 500000000 := by decide

theorem window_is_clamp (k : Nat) : windowOf k = min (max k 4) 64 ∧ 4 ≤ windowOf k ∧ windowOf k ≤ 64 := by
  have h := constants_as_stated
  unfold windowOf
  rw [h.1, h.2.1]
  refine ⟨rfl, ?_, ?_⟩ <;> omega

/-! ## The rate check-up agrees with the monitor after every event -/

/-- what "status, message and value agree with each other and with that rate" means -/
def Agrees (val : Nat → Option Int → ℝ) (c : CR ℝ) : Prop :=
  -- before the first stamp: ERROR, "no data received", empty value
  (c.mon.q = [] ∧ c.chk.status = .error ∧ c.chk.msg = .initial ∧ c.chk.info = none) ∨
  -- after a timeout, until the next stamp: STALE, "timeout", empty value, rate forced to 0
  (c.chk.status = .stale ∧ c.chk.msg = .timeout ∧ c.chk.info = none ∧ c.mon.rate = none) ∨
  -- otherwise: status and message are the threshold classification of the monitor's CURRENT rate, and the
  -- value string is that rate
  ((c.chk.status, c.chk.msg) = classify c.chk.kind c.chk.t c.chk.e (val c.mon.W c.mon.rate) ∧
    c.chk.info = some (val c.mon.W c.mon.rate))

private theorem cr_run (val : Nat → Option Int → ℝ) (evs : List Ev) (c : CR ℝ) (h : Agrees val c) :
    (CR.run val c evs).mon = c.mon.run evs ∧ (CR.run val c evs).chk.kind = c.chk.kind ∧
    (CR.run val c evs).chk.t = c.chk.t ∧ (CR.run val c evs).chk.e = c.chk.e ∧ Agrees val (CR.run val c evs) := by
  induction evs generalizing c with
  | nil => exact ⟨rfl, rfl, rfl, rfl, h⟩
  | cons e rest ih =>
    simp only [CR.run, Mon.run, List.foldl_cons]
    cases e with
    | stamp t =>
      have hstep : CR.step val c (.stamp t) =
          CR.mk (c.mon.update t) (evaluate c.chk (val (c.mon.update t).W (c.mon.update t).rate)).1 := by
        simp [CR.step, CR.stamp]
      have hag : Agrees val (CR.step val c (.stamp t)) := by
        rw [hstep]; right; right
        simp [evaluate]
      have := ih (CR.step val c (.stamp t)) hag
      simp only [CR.run, Mon.run] at this
      refine ⟨?_, ?_, ?_, ?_, this.2.2.2.2⟩
      · rw [this.1, hstep]; rfl
      · rw [this.2.1, hstep]; simp [evaluate]
      · rw [this.2.2.1, hstep]; simp [evaluate]
      · rw [this.2.2.2.1, hstep]; simp [evaluate]
    | hb t =>
      by_cases hto : (c.mon.timeout t).2 = true
      · have hstep : CR.step val c (.hb t) = { mon := (c.mon.timeout t).1, chk := Checkup.timeout c.chk } := by
          simp [CR.step, CR.heartbeat, hto]
        have hrate : (c.mon.timeout t).1.rate = none := by
          simp only [Mon.timeout] at hto ⊢
          split at hto <;> simp_all
        have hag : Agrees val (CR.step val c (.hb t)) := by
          rw [hstep]; right; left
          exact ⟨rfl, rfl, rfl, hrate⟩
        have := ih (CR.step val c (.hb t)) hag
        simp only [CR.run, Mon.run] at this
        refine ⟨?_, ?_, ?_, ?_, this.2.2.2.2⟩
        · rw [this.1, hstep]; rfl
        · rw [this.2.1, hstep]; rfl
        · rw [this.2.2.1, hstep]; rfl
        · rw [this.2.2.2.1, hstep]; rfl
      · have hto' : (c.mon.timeout t).2 = false := by simpa using hto
        have hsame : (c.mon.timeout t).1 = c.mon := by
          by_cases hc : c.mon.q ≠ [] ∧ t - c.mon.last > timeoutNs
          · simp only [Mon.timeout, if_pos hc] at hto'; simp at hto'
          · simp only [Mon.timeout, if_neg hc]
        have hstep : CR.step val c (.hb t) = c := by
          simp [CR.step, CR.heartbeat, hto', hsame]
        rw [hstep]
        have := ih c h
        simp only [CR.run, Mon.run] at this
        refine ⟨?_, this.2.1, this.2.2.1, this.2.2.2.1, this.2.2.2.2⟩
        rw [this.1]
        show _ = List.foldl Mon.step (Mon.step c.mon (.hb t)) rest
        simp only [Mon.step, hsame]

/-- **Check-up agreement.** For EVERY history of stamps and heartbeats, the rate check-up (equal-to or
    greater-than) built on the monitor holds, after every event, a status, message class and value that
    agree with each other and with the monitor's rate (given by `rate_exact`): ERROR / "no data received" /
    empty value before the first stamp; STALE / "timeout" / empty value (and rate 0) after a timed-out
    heartbeat until the next stamp; otherwise the threshold classification (C18) of the current rate with
    the rate as value. -/
theorem checkup_agrees (k : Kind) (r e : ℝ) (W : Nat) (hW : 0 < W) (val : Nat → Option Int → ℝ) (evs : List Ev) :
    let c := CR.run val (CR.init k r e W) evs
    c.mon = (Mon.init W).run evs ∧ c.chk.kind = k ∧ c.chk.t = r ∧ c.chk.e = e ∧ Agrees val c ∧
    (c.mon.q = [] ↔ stamps evs = []) := by
  intro c
  have h0 : Agrees val (CR.init k r e W) := Or.inl ⟨rfl, rfl, rfl, rfl⟩
  obtain ⟨h1, h2, h3, h4, h5⟩ := cr_run val evs (CR.init k r e W) h0
  refine ⟨h1, h2, h3, h4, h5, ?_⟩
  obtain ⟨hinv, hWr, _⟩ := run_inv W hW evs (Mon.init W) ([], false) rfl (init_inv W) (by simp [expectedRate, Mon.init])
  have hq := q_ne_nil_iff _ _ (by rw [hWr]; exact hW) hinv
  show (CR.run val (CR.init k r e W) evs).mon.q = [] ↔ _
  rw [h1, ← history_stamps]
  exact not_iff_not.mp hq

/-! ## Non-vacuity -/

example : ((Mon.init 4).run [.stamp 10, .stamp 20, .hb 25, .stamp 30, .stamp 40, .stamp 50]).rate = some 40 := by decide
example : expectedRate 4 (history [.stamp 10, .stamp 20, .hb 25, .stamp 30, .stamp 40, .stamp 50]) = some 40 := by
  decide
example : (((Mon.init 4).run [.stamp 10]).timeout 500000011).2 = true := by decide
example : [10, 20, 30, 40, 50].Pairwise (· < ·) := by decide

end Romea.C17
