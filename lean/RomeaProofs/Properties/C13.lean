import RomeaModel.GridMap
import RomeaProofs.RealInst
import Mathlib.Algebra.Order.Floor.Ring
import Mathlib.Algebra.Order.Floor.Semiring
import Mathlib.Tactic.Linarith
import Mathlib.Tactic.FieldSimp
import Mathlib.Tactic.Ring
import Mathlib.Tactic.NormNum

/-!
# C13 — grid index mapping

Property theorems about `RomeaModel/GridMap.lean` instantiated at `ℝ` (exact arithmetic on the values of the
floats; `Trans.floor`/`Trans.ceil` are the integer floor/ceiling, `Trunc.trunc` is truncation toward zero).
Hypotheses are the property's quantifier text: resolution `0 < r`, extent `L ≤ U`, point `L ≤ p ≤ U`.
The only partial operations on the path are the divisions by `r` (guard `r ≠ 0`, discharged from `0 < r`) and the
floating → `size_t` conversions, whose arguments are shown to be non-negative (so that truncation = floor and no
undefined conversion is hit).  All statements are per axis; `grid_axis`, `grid_indexes_axis`, `grid_centre_axis`
show that the `DIM`-dimensional object is exactly the product of its axes, so every statement holds along every axis.

Not carried by these theorems: the rounding of `L/r`, `U/r`, `(p - origin)/r` and of the centre table in `float`/
`double` (DESIGN.md C13 "not carried"); that is exercised by the correspondence check and the probe.
-/
namespace Romea.C13
open Romea Romea.GridMap

/-! ## Helper lemmas (private) -/

private theorem half_real : (half : ℝ) = 1 / 2 := by
  unfold half; norm_num

private theorem trunc_nonneg (x : ℝ) (h : 0 ≤ x) : Trunc.trunc x = ⌊x⌋ := by
  rw [trunc_real, if_pos h]

private theorem origin_real (L r : ℝ) : originOf L r = r * ((⌊L / r⌋ : ℝ) - 1 / 2) := by
  unfold originOf; rw [half_real]; rfl

private theorem centreAt_real (L r : ℝ) (k : ℕ) :
    centreAt (originOf L r) r k = r * ((⌊L / r⌋ : ℝ) + k) := by
  unfold centreAt; rw [half_real, origin_real]; ring

private theorem floor_le_ceil_of_le (L U r : ℝ) (hr : 0 < r) (hLU : L ≤ U) : ⌊L / r⌋ ≤ ⌈U / r⌉ := by
  have h1 : L / r ≤ U / r := div_le_div_of_nonneg_right hLU hr.le
  have h2 : (⌊L / r⌋ : ℝ) ≤ L / r := Int.floor_le _
  have h3 : U / r ≤ (⌈U / r⌉ : ℝ) := Int.le_ceil _
  exact_mod_cast (h2.trans h1).trans h3

/-- the scaled coordinate `(p - origin) / r` in closed form -/
private theorem scaled (L r p : ℝ) (hr : 0 < r) :
    (p - originOf L r) / r = p / r - (⌊L / r⌋ : ℝ) + 1 / 2 := by
  rw [origin_real]; field_simp; ring

private theorem scaled_ge_half (L r p : ℝ) (hr : 0 < r) (hp : L ≤ p) : 1 / 2 ≤ (p - originOf L r) / r := by
  rw [scaled L r p hr]
  have h1 : L / r ≤ p / r := div_le_div_of_nonneg_right hp hr.le
  have h2 : (⌊L / r⌋ : ℝ) ≤ L / r := Int.floor_le _
  linarith

private theorem table_get (origin r : ℝ) (n k : ℕ) :
    ((Array.range n).map (centreAt origin r))[k]? = if k < n then some (centreAt origin r k) else none := by
  by_cases h : k < n
  · simp [h]
  · simp [h]

/-! ## The constructor -/

/-- the floating value converted to `size_t` is a non-negative integer (no undefined conversion),
    and the number of cells is `⌈U/r⌉ − ⌊L/r⌋ + 1 ≥ 1` -/
theorem numCells_eq (r L U : ℝ) (hr : 0 < r) (hLU : L ≤ U) :
    0 ≤ numCellsF L U r ∧ numCellsOf L U r = ⌈U / r⌉ - ⌊L / r⌋ + 1 ∧ 1 ≤ numCellsOf L U r := by
  have hfc := floor_le_ceil_of_le L U r hr hLU
  have hval : numCellsF L U r = (((⌈U / r⌉ - ⌊L / r⌋ + 1 : ℤ)) : ℝ) := by
    unfold numCellsF; simp only [trans_ceil, trans_floor]; push_cast; ring
  have hnn : 0 ≤ numCellsF L U r := by
    rw [hval]; exact_mod_cast (by omega : (0 : ℤ) ≤ ⌈U / r⌉ - ⌊L / r⌋ + 1)
  have hn : numCellsOf L U r = ⌈U / r⌉ - ⌊L / r⌋ + 1 := by
    unfold numCellsOf; rw [trunc_nonneg _ hnn, hval, Int.floor_intCast]
  exact ⟨hnn, hn, by rw [hn]; omega⟩

/-- fields of the constructed axis; the table has exactly `n` entries and entry `k` is `r (⌊L/r⌋ + k)`:
    every cell is centred on a multiple of the resolution -/
theorem axis_fields (r L U : ℝ) (hr : 0 < r) (hLU : L ≤ U) :
    let a := Axis.ofInterval L U r
    a.res = r ∧ a.origin = r * ((⌊L / r⌋ : ℝ) - 1 / 2) ∧ a.n = ⌈U / r⌉ - ⌊L / r⌋ + 1 ∧
    a.centres.size = a.n.toNat ∧
    ∀ k : ℕ, a.centre k = if (k : ℤ) < a.n then some (r * ((⌊L / r⌋ : ℝ) + k)) else none := by
  intro a
  obtain ⟨_, hn, h1⟩ := numCells_eq r L U hr hLU
  refine ⟨rfl, origin_real L r, hn, by simp [a, Axis.ofInterval], ?_⟩
  intro k
  have hk : (k < (numCellsOf L U r).toNat) ↔ ((k : ℤ) < numCellsOf L U r) := by omega
  show ((Array.range (numCellsOf L U r).toNat).map (centreAt (originOf L r) r))[k]? = _
  rw [table_get, centreAt_real L r]
  by_cases h : (k : ℤ) < numCellsOf L U r
  · have h' : (k : ℤ) < a.n := h
    rw [if_pos (hk.mpr h), if_pos h']
  · have h' : ¬ (k : ℤ) < a.n := h
    rw [if_neg (fun hh => h (hk.mp hh)), if_neg h']

/-- the symmetric maximal-range constructor is the interval form on `[-m, m]` (and `0 ≤ m` gives `L ≤ U`) -/
theorem ofRange_eq (m r : ℝ) : Axis.ofRange m r = Axis.ofInterval (-m) m r ∧ (0 ≤ m → -m ≤ m) :=
  ⟨rfl, fun h => by linarith⟩

/-! ## The index of a point -/

/-- closed form: the quotient that is truncated is `≥ 1/2` (so the conversion is defined and is a floor),
    and `idx p = ⌊p/r + 1/2⌋ − ⌊L/r⌋` -/
theorem index_eq (r L U p : ℝ) (hr : 0 < r) (hp : L ≤ p) :
    0 ≤ (p - (Axis.ofInterval L U r).origin) / (Axis.ofInterval L U r).res ∧
    (Axis.ofInterval L U r).index p = ⌊(p - originOf L r) / r⌋ ∧
    (Axis.ofInterval L U r).index p = ⌊p / r + 1 / 2⌋ - ⌊L / r⌋ := by
  have hge := scaled_ge_half L r p hr hp
  have h0 : 0 ≤ (p - originOf L r) / r := by linarith
  have hidx : (Axis.ofInterval L U r).index p = ⌊(p - originOf L r) / r⌋ := by
    show Trunc.trunc ((p - originOf L r) / r) = _
    exact trunc_nonneg _ h0
  refine ⟨h0, hidx, ?_⟩
  rw [hidx, scaled L r p hr]
  have : p / r - (⌊L / r⌋ : ℝ) + 1 / 2 = (p / r + 1 / 2) - ((⌊L / r⌋ : ℤ) : ℝ) := by ring
  rw [this, Int.floor_sub_intCast]

/-- **index_in_range**: every point of the closed extent maps to an index `0 ≤ idx < N` -/
theorem index_in_range (r L U p : ℝ) (hr : 0 < r) (hLU : L ≤ U) (hp : L ≤ p ∧ p ≤ U) :
    0 ≤ (Axis.ofInterval L U r).index p ∧ (Axis.ofInterval L U r).index p < (Axis.ofInterval L U r).n := by
  obtain ⟨_, hidx, _⟩ := index_eq r L U p hr hp.1
  obtain ⟨_, hn, _⟩ := numCells_eq r L U hr hLU
  have hge := scaled_ge_half L r p hr hp.1
  rw [hidx]
  constructor
  · exact Int.floor_nonneg.mpr (by linarith)
  · show _ < numCellsOf L U r
    rw [hn, Int.floor_lt, scaled L r p hr]
    have h1 : p / r ≤ U / r := div_le_div_of_nonneg_right hp.2 hr.le
    have h2 : U / r ≤ (⌈U / r⌉ : ℝ) := Int.le_ceil _
    push_cast; linarith

/-- **within_half_cell**: the cell a point maps to exists in the table and its centre is within half a
    resolution of the point (`−r/2 ≤ p − c < r/2`: cells are half-open) -/
theorem within_half_cell (r L U p : ℝ) (hr : 0 < r) (hLU : L ≤ U) (hp : L ≤ p ∧ p ≤ U) :
    ∃ c, (Axis.ofInterval L U r).centre ((Axis.ofInterval L U r).index p).toNat = some c ∧
      |p - c| ≤ r / 2 ∧ -(r / 2) ≤ p - c ∧ p - c < r / 2 := by
  obtain ⟨h0, hlt⟩ := index_in_range r L U p hr hLU hp
  obtain ⟨_, hidx, _⟩ := index_eq r L U p hr hp.1
  obtain ⟨_, _, _, _, hc⟩ := axis_fields r L U hr hLU
  set i := (Axis.ofInterval L U r).index p with hi
  have hcast : ((i.toNat : ℕ) : ℤ) = i := Int.toNat_of_nonneg h0
  have hci := hc i.toNat
  rw [hcast, if_pos hlt] at hci
  refine ⟨_, hci, ?_⟩
  -- x = (p - o)/r, i = ⌊x⌋
  have hx1 : (i : ℝ) ≤ (p - originOf L r) / r := by rw [hidx]; exact Int.floor_le _
  have hx2 : (p - originOf L r) / r < (i : ℝ) + 1 := by rw [hidx]; exact Int.lt_floor_add_one _
  rw [scaled L r p hr] at hx1 hx2
  have hcastR : ((i.toNat : ℕ) : ℝ) = (i : ℝ) := by exact_mod_cast congrArg (fun z : ℤ => (z : ℝ)) hcast
  rw [hcastR]
  have hpr : p = r * (p / r) := by field_simp
  have e : p - r * ((⌊L / r⌋ : ℝ) + (i : ℝ)) = r * (p / r - (⌊L / r⌋ : ℝ) - (i : ℝ)) := by
    rw [mul_sub, mul_sub, ← hpr]; ring
  have hlo : -(r / 2) ≤ p - r * ((⌊L / r⌋ : ℝ) + (i : ℝ)) := by
    rw [e]; nlinarith
  have hhi : p - r * ((⌊L / r⌋ : ℝ) + (i : ℝ)) < r / 2 := by
    rw [e]; nlinarith
  exact ⟨abs_le.mpr ⟨hlo, hhi.le⟩, hlo, hhi⟩

/-! ## The centres -/

/-- **centre_fixed**: every cell's centre maps back to the cell's own index -/
theorem centre_fixed (r L U : ℝ) (hr : 0 < r) (hLU : L ≤ U) (k : ℕ) (hk : (k : ℤ) < (Axis.ofInterval L U r).n) :
    ∃ c, (Axis.ofInterval L U r).centre k = some c ∧ (Axis.ofInterval L U r).index c = k := by
  obtain ⟨_, _, _, _, hc⟩ := axis_fields r L U hr hLU
  have hck := hc k
  rw [if_pos hk] at hck
  refine ⟨_, hck, ?_⟩
  show Trunc.trunc ((r * ((⌊L / r⌋ : ℝ) + k) - originOf L r) / r) = (k : ℤ)
  have hq : (r * ((⌊L / r⌋ : ℝ) + k) - originOf L r) / r = (k : ℝ) + 1 / 2 := by
    rw [origin_real]; field_simp; ring
  have hk0 : (0 : ℝ) ≤ (k : ℝ) := Nat.cast_nonneg k
  rw [hq, trunc_nonneg _ (by linarith)]
  rw [Int.floor_eq_iff]
  constructor <;> push_cast <;> linarith

/-- **spacing**: neighbouring centres are exactly one resolution apart -/
theorem spacing (r L U : ℝ) (hr : 0 < r) (hLU : L ≤ U) (k : ℕ) (c c' : ℝ)
    (h : (Axis.ofInterval L U r).centre k = some c) (h' : (Axis.ofInterval L U r).centre (k + 1) = some c') :
    c' - c = r := by
  obtain ⟨_, _, _, _, hc⟩ := axis_fields r L U hr hLU
  have h1 := hc k
  have h2 := hc (k + 1)
  rw [h] at h1
  rw [h'] at h2
  split_ifs at h1 h2
  simp only [Option.some.injEq] at h1 h2
  rw [h1, h2]; push_cast; ring

/-- **covers_bounds**: the first cell starts below the lower bound, the last cell ends above the upper bound
    (and both exist) -/
theorem covers_bounds (r L U : ℝ) (hr : 0 < r) (hLU : L ≤ U) :
    ∃ c0 cl, (Axis.ofInterval L U r).centre 0 = some c0 ∧
      (Axis.ofInterval L U r).centre ((Axis.ofInterval L U r).n - 1).toNat = some cl ∧
      c0 - r / 2 < L ∧ U < cl + r / 2 ∧ c0 ≤ L ∧ U ≤ cl := by
  obtain ⟨_, _, hn, _, hc⟩ := axis_fields r L U hr hLU
  obtain ⟨_, _, h1⟩ := numCells_eq r L U hr hLU
  have hn1 : (1 : ℤ) ≤ (Axis.ofInterval L U r).n := h1
  have hc0 := hc 0
  rw [if_pos (by push_cast; omega)] at hc0
  have hcast : ((((Axis.ofInterval L U r).n - 1).toNat : ℕ) : ℤ) = (Axis.ofInterval L U r).n - 1 :=
    Int.toNat_of_nonneg (by omega)
  have hcl := hc ((Axis.ofInterval L U r).n - 1).toNat
  rw [hcast, if_pos (by omega)] at hcl
  refine ⟨_, _, hc0, hcl, ?_⟩
  have hcastR : (((((Axis.ofInterval L U r).n - 1).toNat : ℕ)) : ℝ) = ((⌈U / r⌉ : ℝ) - (⌊L / r⌋ : ℝ)) := by
    have h2 : (((((Axis.ofInterval L U r).n - 1).toNat : ℕ)) : ℝ) = ((((Axis.ofInterval L U r).n - 1 : ℤ)) : ℝ) := by
      exact_mod_cast congrArg (fun z : ℤ => (z : ℝ)) hcast
    rw [h2, hn]; push_cast; ring
  rw [hcastR]
  have hL : r * (⌊L / r⌋ : ℝ) ≤ L := by
    have := mul_le_mul_of_nonneg_left (Int.floor_le (L / r)) hr.le
    rwa [mul_div_cancel₀ _ hr.ne'] at this
  have hU : U ≤ r * (⌈U / r⌉ : ℝ) := by
    have := mul_le_mul_of_nonneg_left (Int.le_ceil (U / r)) hr.le
    rwa [mul_div_cancel₀ _ hr.ne'] at this
  have e : r * ((⌊L / r⌋ : ℝ) + ((⌈U / r⌉ : ℝ) - (⌊L / r⌋ : ℝ))) = r * (⌈U / r⌉ : ℝ) := by ring
  rw [e]
  push_cast
  refine ⟨by linarith, by linarith, by linarith, hU⟩

/-! ## The `DIM`-dimensional mapping is the product of its axes -/

theorem grid_axis (L U : List ℝ) (r : ℝ) (i : ℕ) (hL : i < L.length) (hU : i < U.length) :
    (Grid.ofInterval L U r)[i]? = some (Axis.ofInterval L[i] U[i] r) := by
  simp [Grid.ofInterval, hL, hU]

theorem grid_range_axis (dim : ℕ) (m r : ℝ) (i : ℕ) (hi : i < dim) :
    (Grid.ofRange dim m r)[i]? = some (Axis.ofInterval (-m) m r) := by
  simp [Grid.ofRange, hi, Axis.ofRange]

theorem grid_indexes_axis (g : Grid ℝ) (p : List ℝ) (i : ℕ) (hg : i < g.length) (hp : i < p.length) :
    (g.indexes p)[i]? = some (g[i].index p[i]) := by
  simp [Grid.indexes, hg, hp]

theorem grid_numCells_axis (g : Grid ℝ) (i : ℕ) (hg : i < g.length) : g.numCells[i]? = some g[i].n := by
  simp [Grid.numCells, hg]

theorem grid_centre_axis (g : Grid ℝ) (k : List ℕ) (c : List ℝ) (h : g.centre k = some c)
    (i : ℕ) (hg : i < g.length) (hk : i < k.length) :
    ∃ ci, c[i]? = some ci ∧ g[i].centre k[i] = some ci := by
  induction g generalizing k c i with
  | nil => simp at hg
  | cons a g ih =>
    cases k with
    | nil => simp at hk
    | cons k0 ks =>
      simp only [Grid.centre, List.zip_cons_cons, List.mapM_cons] at h
      cases h0 : a.centre k0 with
      | none => simp [h0] at h
      | some c0 =>
        cases h1 : (g.zip ks).mapM (fun ak => ak.1.centre ak.2) with
        | none => simp [h0, h1] at h
        | some cs =>
          simp [h0, h1] at h
          subst h
          cases i with
          | zero => exact ⟨c0, by simp, by simpa using h0⟩
          | succ j =>
            have := ih ks cs h1 j (by simpa using hg) (by simpa using hk)
            simpa using this

/-! ## Non-vacuity: concrete non-trivial instances of the hypotheses -/

example : (0 : ℝ) < 0.3 ∧ (-1.25 : ℝ) ≤ 2.6 ∧ ((-1.25 : ℝ) ≤ 0.45 ∧ (0.45 : ℝ) ≤ 2.6) := by norm_num
example : ∃ c, (Axis.ofInterval (-1.25 : ℝ) 2.6 0.3).centre ((Axis.ofInterval (-1.25 : ℝ) 2.6 0.3).index 0.45).toNat = some c ∧
    |0.45 - c| ≤ 0.3 / 2 ∧ -(0.3 / 2) ≤ 0.45 - c ∧ 0.45 - c < 0.3 / 2 :=
  within_half_cell 0.3 (-1.25) 2.6 0.45 (by norm_num) (by norm_num) (by norm_num)
/-- the grid of the repository's own test (`test_grid.cpp`): extent [-1, 1], unit resolution → 3 cells -/
example : (Axis.ofInterval (-1 : ℝ) 1 1).n = 3 := by
  have := (numCells_eq 1 (-1) 1 (by norm_num) (by norm_num)).2.1
  show numCellsOf (-1 : ℝ) 1 1 = 3
  rw [this]; norm_num

end Romea.C13
