import RomeaProofs.Lemmas.C07Bridge

import Mathlib.LinearAlgebra.Matrix.NonsingularInverse
import Mathlib.LinearAlgebra.Matrix.PosDef
import Mathlib.LinearAlgebra.Matrix.DotProduct
import Mathlib.Algebra.Order.Star.Real

/-!
# C07 — the linear least-squares solver returns the minimiser of the current problem only

Property theorems about the model `RomeaModel/LeastSquares.lean` over `ℝ` (exact arithmetic; rounding is outside
the theorems and covered by the correspondence check and the probe).  Divisions: the only division on the path
is `1 / σ` in the SVD pseudo-inverse, taken only when `σ > epsilon ≥ 0`, so the totalised `x / 0 = 0` of `ℝ` is
never used (the hypothesis `NoCut` together with `0 ≤ eps` guards it explicitly).

Eigen's routines are parameters of the model; the theorems quantify over every routine satisfying
`IsSVD` resp. `LDLTContract` below.

Notation: for a solver state `s`, `JM s` / `YV s` / `WV s` are rows `0 … dataSize-1` (columns `0 … est-1`) of its
buffers, `AcM s`, `BcV s` the configured preconditioner (see `RomeaProofs/Lemmas/C07Bridge.lean`).
-/
namespace Romea.C07
open Matrix Romea.LeastSquares

/-! ## Contracts of the external routines -/

/-- `JacobiSVD` of a square matrix: `A = U·diag(S)·Vᵀ` with `U`, `V` orthogonal and `S ≥ 0`
    (no ordering of the singular values is needed) -/
structure IsSVD (e : Nat) (A : Mat ℝ) (d : SVD ℝ) : Prop where
  U_orth : (toM e e d.U)ᵀ * toM e e d.U = 1
  V_orth : (toM e e d.V)ᵀ * toM e e d.V = 1
  S_nonneg : ∀ i : Fin e, 0 ≤ d.S.get i
  factor : toM e e A = toM e e d.U * Matrix.diagonal (toV e d.S) * (toM e e d.V)ᵀ

/-- the routine `env.svd` returns an SVD of every square matrix it is given -/
def SVDContract (env : Env ℝ) : Prop := ∀ e A, IsSVD e A (env.svd e A)

/-- `A.ldlt().solve(Identity)` returns the inverse of every symmetric positive definite matrix -/
def LDLTContract (env : Env ℝ) : Prop :=
  ∀ e A, (toM e e A).PosDef → toM e e A * toM e e (env.ldltInv e A) = 1

/-- `env.svd` returned an SVD of the normal matrix of the current problem of `s` (all that the theorems need of
    `SVDContract`) -/
def SVDAt (env : Env ℝ) (s : State ℝ) : Prop := IsSVD s.est (computeJtJ s) (env.svd s.est (computeJtJ s))

theorem SVDContract.at {env : Env ℝ} (h : SVDContract env) (s : State ℝ) : SVDAt env s := h _ _

/-- no singular value of the normal matrix is at or below the absolute cut `epsilon` of `estimateUsingSVD` -/
def NoCut (env : Env ℝ) (s : State ℝ) : Prop :=
  ∀ i : Fin s.est, env.eps < (env.svd s.est (computeJtJ s)).S.get i

/-- squared Euclidean norm -/
def sq {n : Nat} (v : Fin n → ℝ) : ℝ := v ⬝ᵥ v

theorem sq_nonneg' {n : Nat} (v : Fin n → ℝ) : 0 ≤ sq v := by
  unfold sq dotProduct
  exact Finset.sum_nonneg fun i _ => mul_self_nonneg _

/-! ## 1. Minimiser -/

/-- Pythagoras: if `x` satisfies the normal equations `Jᵀ(Jx − Y) = 0` then for EVERY `x'`
    `‖Jx' − Y‖² = ‖Jx − Y‖² + ‖J(x' − x)‖²`. -/
theorem pythagoras {n e : Nat} (J : Matrix (Fin n) (Fin e) ℝ) (Y : Fin n → ℝ) (x x' : Fin e → ℝ)
    (h : Jᵀ *ᵥ (J *ᵥ x - Y) = 0) :
    sq (J *ᵥ x' - Y) = sq (J *ᵥ x - Y) + sq (J *ᵥ (x' - x)) := by
  have hsplit : J *ᵥ x' - Y = (J *ᵥ x - Y) + J *ᵥ (x' - x) := by
    rw [Matrix.mulVec_sub]; abel
  have hcross : (J *ᵥ x - Y) ⬝ᵥ (J *ᵥ (x' - x)) = 0 := by
    rw [Matrix.dotProduct_mulVec, ← Matrix.mulVec_transpose, h, zero_dotProduct]
  unfold sq
  rw [hsplit, add_dotProduct, dotProduct_add, dotProduct_add, hcross, dotProduct_comm (J *ᵥ (x' - x)) (J *ᵥ x - Y), hcross]
  ring

/-- hence a solution of the normal equations minimises `‖Jx − Y‖` -/
theorem minimiser_of_normal_equations {n e : Nat} (J : Matrix (Fin n) (Fin e) ℝ) (Y : Fin n → ℝ) (x : Fin e → ℝ)
    (h : Jᵀ *ᵥ (J *ᵥ x - Y) = 0) (x' : Fin e → ℝ) :
    sq (J *ᵥ x - Y) ≤ sq (J *ᵥ x' - Y) := by
  rw [pythagoras J Y x x' h]
  linarith [sq_nonneg' (J *ᵥ (x' - x))]

/-- the exact least-squares solution of the current problem of a state: `(JᵀJ)⁻¹ JᵀY` -/
noncomputable def solution (s : State ℝ) : Fin s.est → ℝ :=
  ((JM s)ᵀ * JM s)⁻¹ *ᵥ ((JM s)ᵀ *ᵥ YV s)

/-- for a full-rank problem `solution` satisfies the normal equations … -/
theorem solution_normal_equations (s : State ℝ) (hfull : IsUnit ((JM s)ᵀ * JM s).det) :
    (JM s)ᵀ *ᵥ (JM s *ᵥ solution s - YV s) = 0 := by
  rw [Matrix.mulVec_sub, Matrix.mulVec_mulVec, solution, Matrix.mulVec_mulVec, Matrix.mul_nonsing_inv _ hfull,
    Matrix.one_mulVec, sub_self]

/-- … and is therefore the minimiser of `‖Jx − Y‖` over all `x'` -/
theorem solution_minimises (s : State ℝ) (hfull : IsUnit ((JM s)ᵀ * JM s).det) (x' : Fin s.est → ℝ) :
    sq (JM s *ᵥ solution s - YV s) ≤ sq (JM s *ᵥ x' - YV s) :=
  minimiser_of_normal_equations _ _ _ (solution_normal_equations s hfull) x'

/-- any matrix that is a left inverse of the normal matrix produces `solution` -/
private theorem solve_with_left_inverse (s : State ℝ) (B : Matrix (Fin s.est) (Fin s.est) ℝ)
    (hB : B * ((JM s)ᵀ * JM s) = 1) : B *ᵥ ((JM s)ᵀ *ᵥ YV s) = solution s := by
  rw [solution, Matrix.inv_eq_left_inv hB]

/-- the SVD pseudo-inverse as written is the inverse when no singular value is cut -/
private theorem pinvCut_left_inverse (eps : ℝ) (heps : 0 ≤ eps) (e : Nat) (A : Mat ℝ) (d : SVD ℝ) (hd : IsSVD e A d)
    (hcut : ∀ i : Fin e, eps < d.S.get i) : toM e e (pinvCut eps e d) * toM e e A = 1 := by
  have hV : toM e e d.V * (toM e e d.V)ᵀ = 1 := mul_eq_one_comm.mp hd.V_orth
  have hD : Matrix.diagonal (cutDiag eps e d.S) * Matrix.diagonal (toV e d.S) = 1 := by
    rw [Matrix.diagonal_mul_diagonal, ← Matrix.diagonal_one]
    congr 1
    funext i
    have hpos : 0 < d.S.get i := lt_of_le_of_lt heps (hcut i)
    simp only [cutDiag, hcut i, if_true, toV_apply]
    field_simp
  rw [toM_pinvCut, hd.factor]
  calc toM e e d.V * diagonal (cutDiag eps e d.S) * (toM e e d.U)ᵀ * (toM e e d.U * diagonal (toV e d.S) * (toM e e d.V)ᵀ)
      = toM e e d.V * (diagonal (cutDiag eps e d.S) * ((toM e e d.U)ᵀ * toM e e d.U) * diagonal (toV e d.S)) * (toM e e d.V)ᵀ := by
        simp only [Matrix.mul_assoc]
    _ = 1 := by rw [hd.U_orth, Matrix.mul_one, hD, Matrix.mul_one, hV]

/-- **SVD path**: under the SVD contract, with no singular value cut, `estimateUsingSVD` returns
    `Ac·x + Bc` where `x` is the exact least-squares solution of the current problem, and stores the inverse
    of the normal matrix. -/
theorem estimateSVD_spec (env : Env ℝ) (s : State ℝ) (hsvd : SVDAt env s) (heps : 0 ≤ env.eps) (hcut : NoCut env s) :
    toV s.est (estimateSVD env s).2 = AcM s *ᵥ solution s + BcV s ∧
    toM s.est s.est (estimateSVD env s).1.inv * ((JM s)ᵀ * JM s) = 1 := by
  have hinv : toM s.est s.est (pinvCut env.eps s.est (env.svd s.est (computeJtJ s))) * ((JM s)ᵀ * JM s) = 1 := by
    rw [← toM_computeJtJ]
    exact pinvCut_left_inverse env.eps heps s.est _ _ hsvd hcut
  refine ⟨?_, hinv⟩
  show toV s.est (applyPreconditioner s _ (computeJtY s)) = _
  rw [toV_applyPreconditioner, toV_computeJtY, solve_with_left_inverse s _ hinv]

/-- the normal matrix of a full-rank problem is positive definite -/
theorem normal_matrix_posDef (s : State ℝ) (hfull : IsUnit ((JM s)ᵀ * JM s).det) : ((JM s)ᵀ * JM s).PosDef := by
  have hps : ((JM s)ᵀ * JM s).PosSemidef := by
    have := Matrix.posSemidef_conjTranspose_mul_self (JM s)
    simpa [Matrix.conjTranspose_eq_transpose_of_trivial] using this
  rw [Matrix.posDef_iff_dotProduct_mulVec]
  refine ⟨hps.1, fun x hx => ?_⟩
  have hnn : 0 ≤ star x ⬝ᵥ (((JM s)ᵀ * JM s) *ᵥ x) := hps.dotProduct_mulVec_nonneg x
  rcases lt_or_eq_of_le hnn with h | h
  · exact h
  · exfalso
    -- xᵀJᵀJx = ‖Jx‖² = 0 ⇒ Jx = 0 ⇒ JᵀJx = 0 ⇒ x = 0
    have h1 : (JM s *ᵥ x) ⬝ᵥ (JM s *ᵥ x) = 0 := by
      have : star x = x := by funext i; simp
      rw [this, ← Matrix.mulVec_mulVec, Matrix.dotProduct_mulVec, ← Matrix.mulVec_transpose, Matrix.transpose_transpose] at h
      exact h.symm
    have h2 : JM s *ᵥ x = 0 := dotProduct_self_eq_zero.mp h1
    have h3 : ((JM s)ᵀ * JM s) *ᵥ x = 0 := by rw [← Matrix.mulVec_mulVec, h2, Matrix.mulVec_zero]
    have hinj := (Matrix.mulVec_injective_iff_isUnit.mpr ((Matrix.isUnit_iff_isUnit_det _).mpr hfull))
    exact hx (hinj (by rw [h3, Matrix.mulVec_zero]))

/-- **Cholesky path**: under the LDLT contract, for a full-rank problem,
    `estimateUsingCholeskyDecomposition` returns `Ac·x + Bc` with `x` the exact least-squares solution. -/
theorem estimateCholesky_spec (env : Env ℝ) (s : State ℝ) (hldlt : LDLTContract env)
    (hfull : IsUnit ((JM s)ᵀ * JM s).det) :
    toV s.est (estimateCholesky env s).2 = AcM s *ᵥ solution s + BcV s ∧
    toM s.est s.est (estimateCholesky env s).1.inv * ((JM s)ᵀ * JM s) = 1 := by
  have hr : toM s.est s.est (computeJtJ s) * toM s.est s.est (env.ldltInv s.est (computeJtJ s)) = 1 := by
    apply hldlt; rw [toM_computeJtJ]; exact normal_matrix_posDef s hfull
  have hinv : toM s.est s.est (env.ldltInv s.est (computeJtJ s)) * ((JM s)ᵀ * JM s) = 1 := by
    rw [← toM_computeJtJ]; exact mul_eq_one_comm.mp hr
  refine ⟨?_, hinv⟩
  show toV s.est (applyPreconditioner s _ (computeJtY s)) = _
  rw [toV_applyPreconditioner, toV_computeJtY, solve_with_left_inverse s _ hinv]

/-- without a singular value cut the problem is full rank -/
theorem full_rank_of_noCut (env : Env ℝ) (s : State ℝ) (hsvd : SVDAt env s) (heps : 0 ≤ env.eps) (hcut : NoCut env s) :
    IsUnit ((JM s)ᵀ * JM s).det :=
  Matrix.isUnit_det_of_left_inverse (estimateSVD_spec env s hsvd heps hcut).2

/-- **The returned estimate minimises `‖Jx − Y‖`** (identity preconditioner): normal equations and minimality. -/
theorem minimiser (env : Env ℝ) (s : State ℝ) (hsvd : SVDAt env s) (heps : 0 ≤ env.eps) (hcut : NoCut env s)
    (hA : AcM s = 1) (hb : BcV s = 0) :
    let x := toV s.est (estimateSVD env s).2
    (JM s)ᵀ *ᵥ (JM s *ᵥ x - YV s) = 0 ∧
    ∀ x', sq (JM s *ᵥ x' - YV s) = sq (JM s *ᵥ x - YV s) + sq (JM s *ᵥ (x' - x)) := by
  intro x
  have hx : x = solution s := by
    show toV s.est (estimateSVD env s).2 = _
    rw [(estimateSVD_spec env s hsvd heps hcut).1, hA, hb, Matrix.one_mulVec, add_zero]
  have hne := solution_normal_equations s (full_rank_of_noCut env s hsvd heps hcut)
  rw [hx]
  exact ⟨hne, fun x' => pythagoras _ _ _ x' hne⟩

/-! ### The same facts with explicit dimensions (used by C05, where the solver state is produced by a loop) -/

/-- the exact least-squares solution `(JᵀJ)⁻¹JᵀY` of a problem given as matrices -/
noncomputable def lsSolution {n e : Nat} (J : Matrix (Fin n) (Fin e) ℝ) (Y : Fin n → ℝ) : Fin e → ℝ :=
  (Jᵀ * J)⁻¹ *ᵥ (Jᵀ *ᵥ Y)

theorem lsSolution_normal_equations {n e : Nat} (J : Matrix (Fin n) (Fin e) ℝ) (Y : Fin n → ℝ)
    (hfull : IsUnit (Jᵀ * J).det) : Jᵀ *ᵥ (J *ᵥ lsSolution J Y - Y) = 0 := by
  rw [Matrix.mulVec_sub, Matrix.mulVec_mulVec, lsSolution, Matrix.mulVec_mulVec, Matrix.mul_nonsing_inv _ hfull,
    Matrix.one_mulVec, sub_self]

/-- uniqueness: for a full-rank problem every solution of the normal equations is `lsSolution` -/
theorem lsSolution_unique {n e : Nat} (J : Matrix (Fin n) (Fin e) ℝ) (Y : Fin n → ℝ) (hfull : IsUnit (Jᵀ * J).det)
    (z : Fin e → ℝ) (hz : Jᵀ *ᵥ (J *ᵥ z - Y) = 0) : lsSolution J Y = z := by
  have h : Jᵀ *ᵥ Y = (Jᵀ * J) *ᵥ z := by
    rw [Matrix.mulVec_sub, Matrix.mulVec_mulVec, sub_eq_zero] at hz
    exact hz.symm
  rw [lsSolution, h, Matrix.mulVec_mulVec, Matrix.nonsing_inv_mul _ hfull, Matrix.one_mulVec]

theorem estimateSVD_spec_dims (env : Env ℝ) (s : State ℝ) {n e : Nat} (hn : s.dataSize = n) (he : s.est = e)
    (hsvd : SVDAt env s) (heps : 0 ≤ env.eps) (hcut : NoCut env s) :
    toV e (estimateSVD env s).2 = toM e e s.Ac *ᵥ lsSolution (toM n e s.J) (toV n s.Y) + toV e s.Bc ∧
    IsUnit ((toM n e s.J)ᵀ * toM n e s.J).det := by
  subst hn he
  exact ⟨(estimateSVD_spec env s hsvd heps hcut).1, full_rank_of_noCut env s hsvd heps hcut⟩

/-! ## 2. Cholesky path = SVD path -/

theorem cholesky_eq_svd (env : Env ℝ) (s : State ℝ) (hsvd : SVDAt env s) (hldlt : LDLTContract env)
    (heps : 0 ≤ env.eps) (hcut : NoCut env s) :
    toV s.est (estimateCholesky env s).2 = toV s.est (estimateSVD env s).2 := by
  rw [(estimateSVD_spec env s hsvd heps hcut).1,
    (estimateCholesky_spec env s hldlt (full_rank_of_noCut env s hsvd heps hcut)).1]

/-! ## 3. Preconditioner applied as `A x + b` -/

/-- whatever preconditioner is configured, both paths return `A·x + b` for the SAME `x` (the least-squares
    solution, which does not depend on the preconditioner) -/
theorem preconditioner_affine (env : Env ℝ) (s : State ℝ) (A : Mat ℝ) (b : Vec ℝ) (hsvd : SVDAt env s)
    (hldlt : LDLTContract env) (heps : 0 ≤ env.eps) (hcut : NoCut env s) :
    let s' := setPreconditioner s A b
    let x₀ := solution s
    toV s.est (estimateSVD env s').2 = toM s.est s.est A *ᵥ x₀ + toV s.est b ∧
    toV s.est (estimateCholesky env s').2 = toM s.est s.est A *ᵥ x₀ + toV s.est b := by
  intro s' x₀
  have hcut' : NoCut env s' := hcut
  have hsvd' : SVDAt env s' := hsvd
  exact ⟨(estimateSVD_spec env s' hsvd' heps hcut').1,
    (estimateCholesky_spec env s' hldlt (full_rank_of_noCut env s' hsvd' heps hcut')).1⟩

/-! ## 4. Weighted variant -/

/-- `Σ_k (w_k · r_k)²`, `r = Jx − Y` the residual of the current problem -/
def wcost (s : State ℝ) (x : Fin s.est → ℝ) : ℝ := ∑ k, (WV s k * ((JM s *ᵥ x) k - YV s k)) ^ 2

private theorem sq_weighted_aux {n e : Nat} (J' J : Matrix (Fin n) (Fin e) ℝ) (Y' Y W : Fin n → ℝ)
    (hJ : J' = Matrix.diagonal W * J) (hY : Y' = fun k => W k * Y k) (x : Fin e → ℝ) :
    sq (J' *ᵥ x - Y') = ∑ k, (W k * ((J *ᵥ x) k - Y k)) ^ 2 := by
  subst hJ hY
  unfold sq dotProduct
  refine Finset.sum_congr rfl fun k _ => ?_
  rw [← Matrix.mulVec_mulVec, Pi.sub_apply, Matrix.mulVec_diagonal]
  ring

private theorem sq_weighted (s : State ℝ) (x : Fin s.est → ℝ) :
    sq (JM (weightJAndY s) *ᵥ x - YV (weightJAndY s)) = wcost s x :=
  sq_weighted_aux (JM (weightJAndY s)) (JM s) (YV (weightJAndY s)) (YV s) (WV s) (JM_weightJAndY s) (YV_weightJAndY s) x

/-- **Weighted variant**: `weightedEstimate` returns `Ac·x + Bc` where `x` minimises `Σ (w_i r_i)²` over all `x'`
    (full rank of the weighted problem, LDLT contract). -/
theorem weighted_minimiser (env : Env ℝ) (s : State ℝ) (hldlt : LDLTContract env)
    (hfull : IsUnit ((JM (weightJAndY s))ᵀ * JM (weightJAndY s)).det) :
    ∃ x : Fin s.est → ℝ, toV s.est (weightedEstimate env s).2 = AcM s *ᵥ x + BcV s ∧ ∀ x', wcost s x ≤ wcost s x' := by
  refine ⟨solution (weightJAndY s), (estimateCholesky_spec env (weightJAndY s) hldlt hfull).1, fun x' => ?_⟩
  have h1 := sq_weighted s (solution (weightJAndY s))
  have h2 := sq_weighted s x'
  have h3 := solution_minimises (weightJAndY s) hfull x'
  exact le_trans (le_of_eq h1.symm) (le_trans h3 (le_of_eq h2))

/-- the in-place scaling persists: after `weightedEstimate` the buffers hold the weighted rows, so a second
    call weights them again (this is what the code does; callers rewrite the rows before every solve) -/
theorem weighted_scales_in_place (env : Env ℝ) (s : State ℝ) :
    JM (weightedEstimate env s).1 = Matrix.diagonal (WV s) * JM s ∧
    YV (weightedEstimate env s).1 = fun k => WV s k * YV s k :=
  ⟨JM_weightJAndY s, YV_weightJAndY s⟩

/-! ## 5. History independence

The object's buffers only grow, are reallocated with unspecified contents, and keep rows of earlier, larger
problems beyond the current data size.  `Spec` is what the TEXT of a history determines about the object: the
sizes, the preconditioner, and those buffer entries that have been specified (written, or set by the code)
since the last reallocation — `none` = unspecified.  `astep` is the specification-level transition; it never
looks at the junk carried by `setDataSize`, nor at any buffer content of the initial state.  The estimate of
`astep` is computed on `Spec.problem`: an object holding exactly rows `0 … n-1` of the current problem and nothing
else.  `history_independent` proves, by induction over EVERY operation sequence, that whenever the specified
part of the history determines an output, the real object returns exactly that output. -/

open Classical in
/-- specification-level state -/
structure Spec where
  est : Nat
  n : Nat
  cap : Nat                        -- `Y_.rows()` (= `J_.rows()` = `W_.rows()`)
  jcols : Nat                      -- `J_.cols()`
  J : Nat → Nat → Option ℝ
  Y : Nat → Option ℝ
  W : Nat → Option ℝ
  Ac : Mat ℝ
  Bc : Vec ℝ
  inv : Option (Mat ℝ)

/-- well-formed object: the three buffers have the same number of rows and `J_` is rectangular
    (true of every `LeastSquares` object: they are Eigen matrices resized together) -/
def WF (s : State ℝ) : Prop :=
  s.J.size = s.Y.size ∧ s.W.size = s.Y.size ∧ ∀ k < s.Y.size, rowSize s k = Mat.cols s.J

/-- forget every buffer content (and `inverseJtJ_`) of a concrete object -/
def forget (s : State ℝ) : Spec :=
  { est := s.est, n := s.dataSize, cap := s.Y.size, jcols := Mat.cols s.J,
    J := fun _ _ => none, Y := fun _ => none, W := fun _ => none, Ac := s.Ac, Bc := s.Bc, inv := none }

/-- the current problem is completely specified (`needW`: including the weights) -/
def Spec.Defined (a : Spec) (needW : Bool) : Prop :=
  (∀ k < a.n, ∀ c < a.est, (a.J k c).isSome) ∧ (∀ k < a.n, (a.Y k).isSome) ∧
  (needW = true → ∀ k < a.n, (a.W k).isSome)

/-- an object that holds exactly rows `0 … n-1` of the current problem, the preconditioner, and nothing else -/
noncomputable def Spec.problem (a : Spec) : State ℝ :=
  { dataSize := a.n, est := a.est, Ac := a.Ac, Bc := a.Bc,
    J := Mat.tab a.n a.est fun k c => (a.J k c).getD 0,
    Y := Vec.tab a.n fun k => (a.Y k).getD 0,
    W := Vec.tab a.n fun k => (a.W k).getD 0,
    inv := a.inv.getD #[] }

/-- in-place weighting at specification level: a product is specified iff both factors are -/
def Spec.weighted (a : Spec) : Spec :=
  { a with
    J := fun k c => if k < a.n ∧ c < a.est then
        (match a.J k c, a.W k with | some v, some w => some (v * w) | _, _ => none) else a.J k c,
    Y := fun k => if k < a.n then
        (match a.Y k, a.W k with | some v, some w => some (v * w) | _, _ => none) else a.Y k }

open Classical in
/-- specification-level transition and output (`none` = not determined by the specified part of the history) -/
noncomputable def astep (env : Env ℝ) (a : Spec) : Op ℝ → Spec × Option (Out ℝ)
  | .setEstimateSize e _ =>
      -- `J_.resize(Y_.rows(), e)`: the rows keep their specified entries iff the number of coefficients is unchanged
      ({ a with est := e, jcols := e,
                J := if a.cap * e = a.cap * a.jcols then (fun k c => if k < a.cap ∧ c < e then a.J k c else none)
                     else fun _ _ => none,
                Ac := identity e, Bc := Vec.tab e fun _ => zero, inv := some (Mat.tab e e fun _ _ => zero) }, some .unit)
  | .setDataSize n _ _ =>
      if a.cap < n then
        ({ a with n := n, cap := n, jcols := a.est, J := fun _ _ => none, Y := fun _ => none,
                  W := fun k => if k < n then some 1 else none }, some (.grew true))
      else ({ a with n := n }, some (.grew false))
  | .writeRow i r y =>
      ({ a with J := fun k c => if k = i ∧ i < a.cap ∧ c < a.jcols ∧ c < a.est then some (r.get c) else a.J k c,
                Y := fun k => if k = i ∧ i < a.cap then some y else a.Y k }, some .unit)
  | .setW i w => ({ a with W := fun k => if k = i ∧ i < a.cap then some w else a.W k }, some .unit)
  | .setPre A b => ({ a with Ac := A, Bc := b }, some .unit)
  | .estimateSVD =>
      if a.Defined false then
        let r := estimateSVD env a.problem
        ({ a with inv := some r.1.inv }, some (.vec r.2))
      else ({ a with inv := none }, none)
  | .estimateCholesky =>
      if a.Defined false then
        let r := estimateCholesky env a.problem
        ({ a with inv := some r.1.inv }, some (.vec r.2))
      else ({ a with inv := none }, none)
  | .weightedEstimate =>
      if a.Defined true then
        let r := weightedEstimate env a.problem
        ({ a.weighted with inv := some r.1.inv }, some (.vec r.2))
      else ({ a.weighted with inv := none }, none)
  | .covariance v =>
      match a.inv with
      | some m => (a, some (.mat (covariance { a.problem with inv := m } v)))
      | none => (a, none)

noncomputable def arun (env : Env ℝ) (a : Spec) (ops : List (Op ℝ)) : Spec :=
  ops.foldl (fun a o => (astep env a o).1) a

/-- the concrete object agrees with everything the specification knows -/
def Refines (s : State ℝ) (a : Spec) : Prop :=
  s.est = a.est ∧ s.dataSize = a.n ∧ s.Y.size = a.cap ∧ s.J.size = a.cap ∧ s.W.size = a.cap ∧
  (∀ k < a.cap, rowSize s k = a.jcols) ∧ s.Ac = a.Ac ∧ s.Bc = a.Bc ∧
  (∀ k c v, a.J k c = some v → s.J.get k c = v) ∧ (∀ k v, a.Y k = some v → s.Y.get k = v) ∧
  (∀ k v, a.W k = some v → s.W.get k = v) ∧ (∀ m, a.inv = some m → s.inv = m)

theorem refines_forget (s : State ℝ) (h : WF s) : Refines s (forget s) := by
  obtain ⟨h1, h2, h3⟩ := h
  refine ⟨rfl, rfl, rfl, h1, h2, h3, rfl, rfl, ?_, ?_, ?_, ?_⟩ <;> simp [forget]

/-- two objects with the same current problem -/
def SameProblem (s t : State ℝ) (withW : Bool) : Prop :=
  s.est = t.est ∧ s.dataSize = t.dataSize ∧ s.Ac = t.Ac ∧ s.Bc = t.Bc ∧
  (∀ k < s.dataSize, ∀ c < s.est, s.J.get k c = t.J.get k c) ∧ (∀ k < s.dataSize, s.Y.get k = t.Y.get k) ∧
  (withW = true → ∀ k < s.dataSize, s.W.get k = t.W.get k)

private theorem normal_congr (s t : State ℝ) (h : SameProblem s t false) :
    computeJtJ s = computeJtJ t ∧ computeJtY s = computeJtY t := by
  obtain ⟨he, hn, _, _, hJ, hY, _⟩ := h
  constructor
  · unfold computeJtJ
    rw [← he, ← hn]
    apply Mat.tab_congr
    intro i hi j hj
    split
    · exact sumTo_congr _ _ _ fun k hk => by rw [hJ k hk i hi, hJ k hk j hj]
    · exact sumTo_congr _ _ _ fun k hk => by rw [hJ k hk i hi, hJ k hk j hj]
  · unfold computeJtY
    rw [← he, ← hn]
    apply Vec.tab_congr
    intro i hi
    exact sumTo_congr _ _ _ fun k hk => by rw [hJ k hk i hi, hY k hk]

private theorem applyPreconditioner_congr (s t : State ℝ) (he : s.est = t.est) (hA : s.Ac = t.Ac) (hB : s.Bc = t.Bc)
    (inv : Mat ℝ) (b : Vec ℝ) : applyPreconditioner s inv b = applyPreconditioner t inv b := by
  unfold applyPreconditioner
  rw [he, hA, hB]

/-- **Frame property**: the estimates (and the stored inverse) are functions of the estimate size, the
    preconditioner and rows `0 … n-1` only -/
theorem estimate_frame (env : Env ℝ) (s t : State ℝ) (h : SameProblem s t false) :
    (estimateSVD env s).2 = (estimateSVD env t).2 ∧ (estimateSVD env s).1.inv = (estimateSVD env t).1.inv ∧
    (estimateCholesky env s).2 = (estimateCholesky env t).2 ∧ (estimateCholesky env s).1.inv = (estimateCholesky env t).1.inv := by
  obtain ⟨hA, hb⟩ := normal_congr s t h
  obtain ⟨he, _, hAc, hBc, _⟩ := h
  refine ⟨?_, ?_, ?_, ?_⟩ <;>
    simp only [estimateSVD, estimateCholesky, hA, hb, he, applyPreconditioner_congr s t he hAc hBc]

private theorem sameProblem_weight (s t : State ℝ) (h : SameProblem s t true) :
    SameProblem (weightJAndY s) (weightJAndY t) false := by
  obtain ⟨he, hn, hAc, hBc, hJ, hY, hW⟩ := h
  refine ⟨he, hn, hAc, hBc, ?_, ?_, fun h => absurd h (by simp)⟩
  · intro k hk c hc
    have hk' : k < s.dataSize := hk
    have hc' : c < s.est := hc
    rw [weightJAndY_J_get, weightJAndY_J_get, ← hn, ← he, hJ k hk' c hc', hW rfl k hk']
  · intro k hk
    have hk' : k < s.dataSize := hk
    rw [weightJAndY_Y_get, weightJAndY_Y_get, ← hn, hY k hk', hW rfl k hk']

theorem weighted_frame (env : Env ℝ) (s t : State ℝ) (h : SameProblem s t true) :
    (weightedEstimate env s).2 = (weightedEstimate env t).2 ∧
    (weightedEstimate env s).1.inv = (weightedEstimate env t).1.inv := by
  have := estimate_frame env _ _ (sameProblem_weight s t h)
  exact ⟨this.2.2.1, this.2.2.2⟩

/-! ### The object keeps no summary of the rows between calls (seeded change c07f)

`JtJ_` / `JtY_` are scratch: every estimate rebuilds them from the rows as they are at the call.  So an estimate answered
earlier — of whichever kind — cannot influence a later one, and rows rewritten by the caller after an estimate (through
references obtained before it or after it: the model's `writeRow` / `setW` is the write itself) are the rows the next
estimate uses.  All statements are for EVERY object state, every environment, every list of writes. -/

/-- `inverseJtJ_` is not part of the problem -/
theorem sameProblem_setInv (s : State ℝ) (m : Mat ℝ) (w : Bool) : SameProblem { s with inv := m } s w :=
  ⟨rfl, rfl, rfl, rfl, fun _ _ _ _ => rfl, fun _ _ => rfl, fun _ _ _ => rfl⟩

/-- an unweighted estimate changes nothing but `inverseJtJ_` -/
theorem estimate_keeps_problem (env : Env ℝ) (s : State ℝ) (w : Bool) :
    SameProblem (estimateSVD env s).1 s w ∧ SameProblem (estimateCholesky env s).1 s w :=
  ⟨sameProblem_setInv s _ w, sameProblem_setInv s _ w⟩

/-- **solve, then solve / weighted-solve again on the same data**: the second answer is what a object that had never
    been asked before returns (in particular the weighted estimate after a Cholesky or SVD estimate IS the weighted one) -/
theorem estimate_after_estimate (env : Env ℝ) (s : State ℝ) :
    (weightedEstimate env (estimateCholesky env s).1).2 = (weightedEstimate env s).2 ∧
    (weightedEstimate env (estimateSVD env s).1).2 = (weightedEstimate env s).2 ∧
    (estimateSVD env (estimateCholesky env s).1).2 = (estimateSVD env s).2 ∧
    (estimateCholesky env (estimateSVD env s).1).2 = (estimateCholesky env s).2 ∧
    (estimateCholesky env (estimateCholesky env s).1).2 = (estimateCholesky env s).2 ∧
    (estimateSVD env (estimateSVD env s).1).2 = (estimateSVD env s).2 := by
  have hc := (estimate_keeps_problem env s true).2
  have hv := (estimate_keeps_problem env s true).1
  have hc' := (estimate_keeps_problem env s false).2
  have hv' := (estimate_keeps_problem env s false).1
  exact ⟨(weighted_frame env _ _ hc).1, (weighted_frame env _ _ hv).1, (estimate_frame env _ _ hc').1,
    (estimate_frame env _ _ hv').2.2.1, (estimate_frame env _ _ hc').2.2.1, (estimate_frame env _ _ hv').1⟩

/-- solve again right after a weighted solve: the rows ARE the scaled rows now (`weighted_scales_in_place`), the answer
    is the weighted one again, on both paths' inputs -/
theorem estimate_after_weighted (env : Env ℝ) (s : State ℝ) :
    (estimateCholesky env (weightedEstimate env s).1).2 = (weightedEstimate env s).2 ∧
    (estimateSVD env (weightedEstimate env s).1).2 = (estimateSVD env (weightJAndY s)).2 := by
  have h : SameProblem (weightedEstimate env s).1 (weightJAndY s) false := sameProblem_setInv (weightJAndY s) _ false
  exact ⟨(estimate_frame env _ _ h).2.2.1, (estimate_frame env _ _ h).1⟩

/-- a list of caller writes: rows `(i, r, y)` and weights `(i, w)` -/
def callerWrites (s : State ℝ) (l : List (Nat × Vec ℝ × ℝ ⊕ Nat × ℝ)) : State ℝ :=
  l.foldl (fun s w => match w with
    | .inl (i, r, y) => writeRow s i r y
    | .inr (i, w) => setW s i w) s

/-- caller writes do not look at `inverseJtJ_` and do not touch it -/
theorem callerWrites_setInv (s : State ℝ) (m : Mat ℝ) (l : List (Nat × Vec ℝ × ℝ ⊕ Nat × ℝ)) :
    callerWrites { s with inv := m } l = { callerWrites s l with inv := m } := by
  induction l generalizing s with
  | nil => rfl
  | cons w ws ih =>
    cases w with
    | inl t => exact ih (writeRow s t.1 t.2.1 t.2.2)
    | inr t => exact ih (setW s t.1 t.2)

/-- **solve, overwrite rows / weights (no resize, any references), solve again**: every estimate after the writes equals
    that of an object on which the first estimate was never computed — the answer of problem 1 cannot come back -/
theorem estimate_after_rewrite (env : Env ℝ) (s : State ℝ) (l : List (Nat × Vec ℝ × ℝ ⊕ Nat × ℝ)) (first : State ℝ)
    (hfirst : first = (estimateSVD env s).1 ∨ first = (estimateCholesky env s).1) :
    (estimateSVD env (callerWrites first l)).2 = (estimateSVD env (callerWrites s l)).2 ∧
    (estimateCholesky env (callerWrites first l)).2 = (estimateCholesky env (callerWrites s l)).2 ∧
    (weightedEstimate env (callerWrites first l)).2 = (weightedEstimate env (callerWrites s l)).2 := by
  have key : ∀ m : Mat ℝ, SameProblem (callerWrites { s with inv := m } l) (callerWrites s l) true := fun m => by
    rw [callerWrites_setInv]; exact sameProblem_setInv _ m true
  have key' : ∀ m : Mat ℝ, SameProblem (callerWrites { s with inv := m } l) (callerWrites s l) false := fun m => by
    rw [callerWrites_setInv]; exact sameProblem_setInv _ m false
  rcases hfirst with h | h <;> subst h
  · exact ⟨(estimate_frame env _ _ (key' _)).1, (estimate_frame env _ _ (key' _)).2.2.1, (weighted_frame env _ _ (key _)).1⟩
  · exact ⟨(estimate_frame env _ _ (key' _)).1, (estimate_frame env _ _ (key' _)).2.2.1, (weighted_frame env _ _ (key _)).1⟩

private theorem sameProblem_of_refines (s : State ℝ) (a : Spec) (needW : Bool) (h : Refines s a) (hd : a.Defined needW) :
    SameProblem s a.problem needW := by
  obtain ⟨he, hn, _, _, _, _, hAc, hBc, hJ, hY, hW, _⟩ := h
  obtain ⟨dJ, dY, dW⟩ := hd
  refine ⟨he, hn, hAc, hBc, ?_, ?_, ?_⟩
  · intro k hk c hc
    rw [hn] at hk; rw [he] at hc
    obtain ⟨v, hv⟩ := Option.isSome_iff_exists.mp (dJ k hk c hc)
    show _ = Mat.get (Mat.tab a.n a.est _) k c
    rw [Mat.get_tab _ _ _ hk hc, hv, hJ k c v hv]; rfl
  · intro k hk
    rw [hn] at hk
    obtain ⟨v, hv⟩ := Option.isSome_iff_exists.mp (dY k hk)
    show _ = Vec.get (Vec.tab a.n _) k
    rw [Vec.get_tab _ _ hk, hv, hY k v hv]; rfl
  · intro hw k hk
    rw [hn] at hk
    obtain ⟨v, hv⟩ := Option.isSome_iff_exists.mp (dW hw k hk)
    show _ = Vec.get (Vec.tab a.n _) k
    rw [Vec.get_tab _ _ hk, hv, hW k v hv]; rfl

private theorem rowSize_congr (s t : State ℝ) (h : s.J = t.J) (k : Nat) : rowSize s k = rowSize t k := by
  unfold rowSize; rw [h]

/-- **One step**: refinement is preserved by every operation, and every output determined at specification level
    is the output of the real object -/
theorem step_refines (env : Env ℝ) (s : State ℝ) (a : Spec) (op : Op ℝ) (h : Refines s a) :
    Refines (step env s op).1 (astep env a op).1 ∧ ∀ y, (astep env a op).2 = some y → (step env s op).2 = y := by
  obtain ⟨he, hn, hY, hJs, hWs, hrow, hAc, hBc, hJ, hYv, hWv, hinv⟩ := h
  cases op with
  | setEstimateSize e jJ =>
    -- the concrete and the specification-level test "same number of coefficients" agree
    have hcond : (s.Y.size * e = s.J.size * Mat.cols s.J) ↔ (a.cap * e = a.cap * a.jcols) := by
      rw [hY, hJs]
      by_cases h0 : a.cap = 0
      · simp [h0]
      · have hc : Mat.cols s.J = a.jcols := hrow 0 (Nat.pos_of_ne_zero h0)
        rw [hc]
    have hsize : (setEstimateSize s e jJ).J.size = a.cap := by
      unfold setEstimateSize
      simp only []
      split <;> simp [Mat.tab, hY]
    refine ⟨⟨rfl, hn, hY, hsize, hWs, ?_, rfl, rfl, ?_, hYv, hWv, ?_⟩, ?_⟩
    · intro k hk
      show rowSize (setEstimateSize s e jJ) k = e
      have hk' : k < s.Y.size := by rw [hY]; exact hk
      unfold setEstimateSize rowSize
      simp only []
      split <;> simp [Mat.tab, hk']
    · intro k c v hv
      show (setEstimateSize s e jJ).J.get k c = v
      simp only [astep] at hv
      by_cases hc : a.cap * e = a.cap * a.jcols
      · rw [if_pos hc] at hv
        by_cases hkc : k < a.cap ∧ c < e
        · rw [if_pos hkc] at hv
          have hpos : 0 < a.cap := by omega
          have hej : e = a.jcols := Nat.eq_of_mul_eq_mul_left hpos hc
          unfold setEstimateSize
          simp only [if_pos (hcond.mpr hc)]
          rw [hY, Mat.get_tab _ _ _ hkc.1 hkc.2, hJs]
          have h1 : (k + c * a.cap) % a.cap = k := by
            rw [Nat.add_mul_mod_self_right]; exact Nat.mod_eq_of_lt hkc.1
          have h2 : (k + c * a.cap) / a.cap = c := by
            rw [Nat.add_mul_div_right _ _ hpos, Nat.div_eq_of_lt hkc.1, Nat.zero_add]
          simp only [h1, h2]
          exact hJ k c v hv
        · rw [if_neg hkc] at hv; exact absurd hv (by simp)
      · rw [if_neg hc] at hv; exact absurd hv (by simp)
    · intro m hm
      simp only [astep, Option.some.injEq] at hm
      subst hm; rfl
    · intro y hy
      simp only [astep, Option.some.injEq] at hy
      subst hy; rfl
  | setDataSize n jJ jY =>
    by_cases hg : a.cap < n
    · have hg' : s.Y.size < n := by rw [hY]; exact hg
      simp only [step, astep, setDataSize, hg, hg', if_true]
      refine ⟨⟨he, rfl, by simp [Vec.tab], by simp [Mat.tab], by simp [Vec.tab], ?_, hAc, hBc, by simp, by simp, ?_, hinv⟩, ?_⟩
      · intro k hk
        simp [rowSize, Mat.tab, hk, he]
      · intro k v hv
        by_cases hk : k < n
        · simp only [hk, if_true, Option.some.injEq] at hv
          subst hv
          show Vec.get (Vec.tab n fun _ => LeastSquares.one) k = 1
          rw [Vec.get_tab _ _ hk]; simp
        · simp [hk] at hv
      · intro y hy
        simp only [Option.some.injEq] at hy
        subst hy; rfl
    · have hg' : ¬ s.Y.size < n := by rw [hY]; exact hg
      simp only [step, astep, setDataSize, hg, hg', if_false]
      refine ⟨⟨he, rfl, hY, hJs, hWs, hrow, hAc, hBc, hJ, hYv, hWv, hinv⟩, ?_⟩
      intro y hy
      simp only [Option.some.injEq] at hy
      subst hy; rfl
  | writeRow i r y =>
    obtain ⟨z1, z2, z3, z4⟩ := writeRow_sizes s i r y
    refine ⟨⟨he, hn, z2.trans hY, z1.trans hJs, (congrArg Array.size z3).trans hWs, ?_, hAc, hBc, ?_, ?_, ?_, hinv⟩, ?_⟩
    · intro k hk
      show rowSize (writeRow s i r y) k = a.jcols
      rw [z4 k]; exact hrow k hk
    · intro k c v hv
      show (writeRow s i r y).J.get k c = v
      rw [writeRow_J_get]
      simp only [astep] at hv
      by_cases hc : k = i ∧ i < a.cap ∧ c < a.jcols ∧ c < a.est
      · rw [if_pos hc] at hv
        have : k = i ∧ i < s.J.size ∧ c < rowSize s i ∧ c < s.est := by
          refine ⟨hc.1, by rw [hJs]; exact hc.2.1, by rw [hrow i hc.2.1]; exact hc.2.2.1, by rw [he]; exact hc.2.2.2⟩
        rw [if_pos this]
        exact Option.some.inj hv
      · rw [if_neg hc] at hv
        have : ¬ (k = i ∧ i < s.J.size ∧ c < rowSize s i ∧ c < s.est) := by
          intro hh
          apply hc
          have hi : i < a.cap := by rw [← hJs]; exact hh.2.1
          exact ⟨hh.1, hi, by rw [← hrow i hi]; exact hh.2.2.1, by rw [← he]; exact hh.2.2.2⟩
        rw [if_neg this]
        exact hJ k c v hv
    · intro k v hv
      show (writeRow s i r y).Y.get k = v
      rw [writeRow_Y_get]
      simp only [astep] at hv
      by_cases hc : k = i ∧ i < a.cap
      · rw [if_pos hc] at hv
        rw [if_pos ⟨hc.1, by rw [hY]; exact hc.2⟩]
        exact Option.some.inj hv
      · rw [if_neg hc] at hv
        rw [if_neg (by rw [hY]; exact hc)]
        exact hYv k v hv
    · intro k v hv
      show (writeRow s i r y).W.get k = v
      rw [z3]; exact hWv k v hv
    · intro y' hy
      simp only [astep, Option.some.injEq] at hy
      subst hy; rfl
  | setW i w =>
    refine ⟨⟨he, hn, hY, hJs, by simp [step, setW]; exact hWs, hrow, hAc, hBc, hJ, hYv, ?_, hinv⟩, ?_⟩
    · intro k v hv
      show (setW s i w).W.get k = v
      rw [setW_get]
      simp only [astep] at hv
      by_cases hc : k = i ∧ i < a.cap
      · rw [if_pos hc] at hv
        rw [if_pos ⟨hc.1, by rw [hWs]; exact hc.2⟩]
        exact Option.some.inj hv
      · rw [if_neg hc] at hv
        rw [if_neg (by rw [hWs]; exact hc)]
        exact hWv k v hv
    · intro y hy
      simp only [astep, Option.some.injEq] at hy
      subst hy; rfl
  | setPre A b =>
    refine ⟨⟨he, hn, hY, hJs, hWs, hrow, rfl, rfl, hJ, hYv, hWv, hinv⟩, ?_⟩
    intro y hy
    simp only [astep, Option.some.injEq] at hy
    subst hy; rfl
  | estimateSVD =>
    have href : Refines s a := ⟨he, hn, hY, hJs, hWs, hrow, hAc, hBc, hJ, hYv, hWv, hinv⟩
    by_cases hd : a.Defined false
    · have hf := estimate_frame env s a.problem (sameProblem_of_refines s a false href hd)
      simp only [step, astep, hd, if_true]
      refine ⟨⟨he, hn, hY, hJs, hWs, hrow, hAc, hBc, hJ, hYv, hWv, ?_⟩, ?_⟩
      · intro m hm
        simp only [Option.some.injEq] at hm
        subst hm; exact hf.2.1
      · intro y hy
        simp only [Option.some.injEq] at hy
        subst hy; exact congrArg Out.vec hf.1
    · simp only [step, astep, hd, if_false]
      refine ⟨⟨he, hn, hY, hJs, hWs, hrow, hAc, hBc, hJ, hYv, hWv, by simp⟩, by simp⟩
  | estimateCholesky =>
    have href : Refines s a := ⟨he, hn, hY, hJs, hWs, hrow, hAc, hBc, hJ, hYv, hWv, hinv⟩
    by_cases hd : a.Defined false
    · have hf := estimate_frame env s a.problem (sameProblem_of_refines s a false href hd)
      simp only [step, astep, hd, if_true]
      refine ⟨⟨he, hn, hY, hJs, hWs, hrow, hAc, hBc, hJ, hYv, hWv, ?_⟩, ?_⟩
      · intro m hm
        simp only [Option.some.injEq] at hm
        subst hm; exact hf.2.2.2
      · intro y hy
        simp only [Option.some.injEq] at hy
        subst hy; exact congrArg Out.vec hf.2.2.1
    · simp only [step, astep, hd, if_false]
      refine ⟨⟨he, hn, hY, hJs, hWs, hrow, hAc, hBc, hJ, hYv, hWv, by simp⟩, by simp⟩
  | weightedEstimate =>
    have href : Refines s a := ⟨he, hn, hY, hJs, hWs, hrow, hAc, hBc, hJ, hYv, hWv, hinv⟩
    obtain ⟨z1, z2, z3, z4⟩ := weightJAndY_sizes s
    -- the buffers after the in-place weighting refine `a.weighted`
    have hJw : ∀ k c v, a.weighted.J k c = some v → (weightJAndY s).J.get k c = v := by
      intro k c v hv
      rw [weightJAndY_J_get, hn, he]
      simp only [Spec.weighted] at hv
      by_cases hc : k < a.n ∧ c < a.est
      · rw [if_pos hc] at hv; rw [if_pos hc]
        cases hj : a.J k c with
        | none => simp [hj] at hv
        | some vj =>
          cases hw : a.W k with
          | none => simp [hj, hw] at hv
          | some vw =>
            simp only [hj, hw, Option.some.injEq] at hv
            rw [hJ k c vj hj, hWv k vw hw, hv]
      · rw [if_neg hc] at hv; rw [if_neg hc]; exact hJ k c v hv
    have hYw : ∀ k v, a.weighted.Y k = some v → (weightJAndY s).Y.get k = v := by
      intro k v hv
      rw [weightJAndY_Y_get, hn]
      simp only [Spec.weighted] at hv
      by_cases hc : k < a.n
      · rw [if_pos hc] at hv; rw [if_pos hc]
        cases hj : a.Y k with
        | none => simp [hj] at hv
        | some vj =>
          cases hw : a.W k with
          | none => simp [hj, hw] at hv
          | some vw =>
            simp only [hj, hw, Option.some.injEq] at hv
            rw [hYv k vj hj, hWv k vw hw, hv]
      · rw [if_neg hc] at hv; rw [if_neg hc]; exact hYv k v hv
    have hbase : ∀ (inv : Mat ℝ) (ai : Option (Mat ℝ)), (∀ m, ai = some m → inv = m) →
        Refines { weightJAndY s with inv := inv } { a.weighted with inv := ai } := by
      intro inv ai hi
      refine ⟨he, hn, z2.trans hY, z1.trans hJs, (congrArg Array.size z3).trans hWs, ?_, hAc, hBc, hJw, hYw, ?_, hi⟩
      · intro k hk
        show rowSize (weightJAndY s) k = a.jcols
        rw [z4 k]; exact hrow k hk
      · intro k v hv
        show (weightJAndY s).W.get k = v
        rw [z3]; exact hWv k v hv
    by_cases hd : a.Defined true
    · have hf := weighted_frame env s a.problem (sameProblem_of_refines s a true href hd)
      simp only [step, astep, hd, if_true]
      refine ⟨hbase _ _ ?_, ?_⟩
      · intro m hm
        simp only [Option.some.injEq] at hm
        subst hm; exact hf.2
      · intro y hy
        simp only [Option.some.injEq] at hy
        subst hy; exact congrArg Out.vec hf.1
    · simp only [step, astep, hd, if_false]
      exact ⟨hbase _ _ (by simp), by simp⟩
  | covariance v =>
    cases hi : a.inv with
    | none =>
      simp only [step, astep, hi]
      exact ⟨⟨he, hn, hY, hJs, hWs, hrow, hAc, hBc, hJ, hYv, hWv, by simp [hi]⟩, by simp⟩
    | some m =>
      simp only [step, astep, hi]
      refine ⟨⟨he, hn, hY, hJs, hWs, hrow, hAc, hBc, hJ, hYv, hWv, hinv⟩, ?_⟩
      intro y hy
      simp only [Option.some.injEq] at hy
      subst hy
      have hm : s.inv = m := hinv m hi
      show Out.mat (covariance s v) = Out.mat (covariance { a.problem with inv := m } v)
      unfold covariance
      simp only [Spec.problem, he, hAc, hm]

theorem run_refines (env : Env ℝ) (s : State ℝ) (a : Spec) (ops : List (Op ℝ)) (h : Refines s a) :
    Refines (run env s ops) (arun env a ops) := by
  induction ops generalizing s a with
  | nil => exact h
  | cons o os ih => exact ih _ _ (step_refines env s a o h).1

/-- **History independence.**  For EVERY initial object `s₀` (any buffer contents, any capacity), EVERY operation
    sequence `ops` (any interleaving of resizes — growing or shrinking —, row and weight writes, preconditioner
    and estimate-size changes, estimates, with ANY contents appearing in reallocated buffers) and every next
    operation `op`: if the specified part of the history determines the output (`astep … = some y`; for an
    estimate this means exactly that rows `0 … n-1` of the current problem have been written since the last
    reallocation) then the real object returns `y`.  `astep`/`arun` never read the junk, the initial buffer
    contents, nor any row `≥ n` — so neither does the answer. -/
theorem history_independent (env : Env ℝ) (s₀ : State ℝ) (hwf : WF s₀) (ops : List (Op ℝ)) (op : Op ℝ) (y : Out ℝ)
    (hy : (astep env (arun env (forget s₀) ops) op).2 = some y) :
    (step env (run env s₀ ops) op).2 = y :=
  (step_refines env _ _ op (run_refines env s₀ (forget s₀) ops (refines_forget s₀ hwf))).2 y hy

/-- an operation with the unspecified reallocation contents replaced by zeros -/
def eraseJunk : Op ℝ → Op ℝ
  | .setDataSize n _ _ => .setDataSize n (fun _ _ => 0) (fun _ => 0)
  | .setEstimateSize e _ => .setEstimateSize e (fun _ _ => 0)
  | o => o

/-- the specification-level semantics does not see the junk … -/
theorem astep_eraseJunk (env : Env ℝ) (a : Spec) (op : Op ℝ) : astep env a (eraseJunk op) = astep env a op := by
  cases op <;> rfl

/-- … along whole histories -/
theorem arun_eraseJunk (env : Env ℝ) (a : Spec) (ops : List (Op ℝ)) :
    arun env a (ops.map eraseJunk) = arun env a ops := by
  induction ops generalizing a with
  | nil => rfl
  | cons o os ih =>
    simp only [arun, List.map_cons, List.foldl_cons] at ih ⊢
    rw [astep_eraseJunk]; exact ih _

/-- two specification states describe the same current problem: estimate size, data size, preconditioner and
    rows `0 … n-1` (with their weights) — nothing else -/
def Spec.SameProblem (a b : Spec) : Prop :=
  a.est = b.est ∧ a.n = b.n ∧ a.Ac = b.Ac ∧ a.Bc = b.Bc ∧
  (∀ k < a.n, ∀ c < a.est, a.J k c = b.J k c) ∧ (∀ k < a.n, a.Y k = b.Y k) ∧ (∀ k < a.n, a.W k = b.W k)

private theorem sameProblem_of_specs (s₁ s₂ : State ℝ) (a₁ a₂ : Spec) (h₁ : Refines s₁ a₁) (h₂ : Refines s₂ a₂)
    (hd : a₁.Defined true) (hs : a₁.SameProblem a₂) : SameProblem s₁ s₂ true := by
  obtain ⟨he1, hn1, _, _, _, _, hAc1, hBc1, hJ1, hY1, hW1, _⟩ := h₁
  obtain ⟨he2, hn2, _, _, _, _, hAc2, hBc2, hJ2, hY2, hW2, _⟩ := h₂
  obtain ⟨se, sn, sA, sB, sJ, sY, sW⟩ := hs
  obtain ⟨dJ, dY, dW⟩ := hd
  refine ⟨by rw [he1, he2, se], by rw [hn1, hn2, sn], by rw [hAc1, hAc2, sA], by rw [hBc1, hBc2, sB], ?_, ?_, ?_⟩
  · intro k hk c hc
    rw [hn1] at hk; rw [he1] at hc
    obtain ⟨v, hv⟩ := Option.isSome_iff_exists.mp (dJ k hk c hc)
    rw [hJ1 k c v hv, hJ2 k c v (by rw [← sJ k hk c hc]; exact hv)]
  · intro k hk
    rw [hn1] at hk
    obtain ⟨v, hv⟩ := Option.isSome_iff_exists.mp (dY k hk)
    rw [hY1 k v hv, hY2 k v (by rw [← sY k hk]; exact hv)]
  · intro _ k hk
    rw [hn1] at hk
    obtain ⟨v, hv⟩ := Option.isSome_iff_exists.mp (dW rfl k hk)
    rw [hW1 k v hv, hW2 k v (by rw [← sW k hk]; exact hv)]

/-- **The estimate is a function of the current problem only.**  Two objects with arbitrary, different histories
    (different initial contents, capacities, junk, earlier problems of any size) whose specified current problems
    coincide return the same estimate on all three paths. -/
theorem estimate_depends_on_current_problem_only (env : Env ℝ) (s₁ s₂ : State ℝ) (h₁ : WF s₁) (h₂ : WF s₂)
    (ops₁ ops₂ : List (Op ℝ)) (hd : (arun env (forget s₁) ops₁).Defined true)
    (hsame : (arun env (forget s₁) ops₁).SameProblem (arun env (forget s₂) ops₂)) :
    (estimateSVD env (run env s₁ ops₁)).2 = (estimateSVD env (run env s₂ ops₂)).2 ∧
    (estimateCholesky env (run env s₁ ops₁)).2 = (estimateCholesky env (run env s₂ ops₂)).2 ∧
    (weightedEstimate env (run env s₁ ops₁)).2 = (weightedEstimate env (run env s₂ ops₂)).2 := by
  have r₁ := run_refines env s₁ _ ops₁ (refines_forget s₁ h₁)
  have r₂ := run_refines env s₂ _ ops₂ (refines_forget s₂ h₂)
  have hs := sameProblem_of_specs _ _ _ _ r₁ r₂ hd hsame
  have hs' : SameProblem (run env s₁ ops₁) (run env s₂ ops₂) false :=
    ⟨hs.1, hs.2.1, hs.2.2.1, hs.2.2.2.1, hs.2.2.2.2.1, hs.2.2.2.2.2.1, fun h => absurd h (by simp)⟩
  have f := estimate_frame env _ _ hs'
  exact ⟨f.1, f.2.2.1, (weighted_frame env _ _ hs).1⟩

/-! ### … hence equal to a fresh solver's -/

/-- the script that states a problem on a brand-new object: sizes, every row and weight `< n`, preconditioner -/
def freshOps (e n : Nat) (R : Nat → Vec ℝ) (ys ws : Nat → ℝ) (A : Mat ℝ) (b : Vec ℝ) : List (Op ℝ) :=
  [.setEstimateSize e (fun _ _ => 0), .setDataSize n (fun _ _ => 0) (fun _ => 0)] ++
    ((List.range n).flatMap fun i => [.writeRow i (R i) (ys i), .setW i (ws i)]) ++ [.setPre A b]

private theorem arun_append (env : Env ℝ) (a : Spec) (l₁ l₂ : List (Op ℝ)) :
    arun env a (l₁ ++ l₂) = arun env (arun env a l₁) l₂ := by
  simp [arun, List.foldl_append]

private theorem arun_writes (env : Env ℝ) (a : Spec) (R : Nat → Vec ℝ) (ys ws : Nat → ℝ) (m : Nat) (hm : m ≤ a.cap) :
    let a' := arun env a ((List.range m).flatMap fun i => [Op.writeRow i (R i) (ys i), Op.setW i (ws i)])
    a'.est = a.est ∧ a'.n = a.n ∧ a'.cap = a.cap ∧ a'.jcols = a.jcols ∧ a'.Ac = a.Ac ∧ a'.Bc = a.Bc ∧
    (∀ k < m, ∀ c < a.est, c < a.jcols → a'.J k c = some ((R k).get c)) ∧
    (∀ k < m, a'.Y k = some (ys k)) ∧ (∀ k < m, a'.W k = some (ws k)) := by
  induction m with
  | zero =>
    simp only [List.range_zero, List.flatMap_nil]
    exact ⟨rfl, rfl, rfl, rfl, rfl, rfl, fun k hk => absurd hk (by omega), fun k hk => absurd hk (by omega),
      fun k hk => absurd hk (by omega)⟩
  | succ m ih =>
    obtain ⟨i1, i2, i3, i4, i5, i6, i7, i8, i9⟩ := ih (by omega)
    intro a'
    generalize hb : arun env a ((List.range m).flatMap fun i => [Op.writeRow i (R i) (ys i), Op.setW i (ws i)]) = b
      at i1 i2 i3 i4 i5 i6 i7 i8 i9
    have ha' : a' = (astep env (astep env b (.writeRow m (R m) (ys m))).1 (.setW m (ws m))).1 := by
      show arun env a _ = _
      rw [List.range_succ, List.flatMap_append, arun_append, hb]
      simp [arun]
    rw [ha']
    have hmc : m < b.cap := by omega
    refine ⟨i1, i2, i3, i4, i5, i6, ?_, ?_, ?_⟩
    · intro k hk c hc hcj
      show (if k = m ∧ m < b.cap ∧ c < b.jcols ∧ c < b.est then some ((R m).get c) else b.J k c) = _
      by_cases hkm : k = m
      · subst hkm; rw [if_pos ⟨rfl, hmc, by omega, by omega⟩]
      · rw [if_neg (fun h => hkm h.1)]; exact i7 k (by omega) c hc hcj
    · intro k hk
      show (if k = m ∧ m < b.cap then some (ys m) else b.Y k) = _
      by_cases hkm : k = m
      · subst hkm; rw [if_pos ⟨rfl, hmc⟩]
      · rw [if_neg (fun h => hkm h.1)]; exact i8 k (by omega)
    · intro k hk
      show (if k = m ∧ m < b.cap then some (ws m) else b.W k) = _
      by_cases hkm : k = m
      · subst hkm; rw [if_pos ⟨rfl, hmc⟩]
      · rw [if_neg (fun h => hkm h.1)]; exact i9 k (by omega)

theorem wf_default : WF (State.default : State ℝ) := by
  refine ⟨rfl, rfl, fun k hk => ?_⟩
  simp [State.default] at hk

/-- the script on a brand-new object specifies exactly the stated problem -/
theorem freshOps_spec (env : Env ℝ) (e n : Nat) (R : Nat → Vec ℝ) (ys ws : Nat → ℝ) (A : Mat ℝ) (b : Vec ℝ) :
    let a := arun env (forget State.default) (freshOps e n R ys ws A b)
    a.est = e ∧ a.n = n ∧ a.Ac = A ∧ a.Bc = b ∧
    (∀ k < n, ∀ c < e, a.J k c = some ((R k).get c)) ∧ (∀ k < n, a.Y k = some (ys k)) ∧ (∀ k < n, a.W k = some (ws k)) := by
  intro a
  -- after the two sizing operations
  let a₁ := arun env (forget State.default) [Op.setEstimateSize e (fun _ _ => 0), Op.setDataSize n (fun _ _ => 0) (fun _ => 0)]
  have ha : a = arun env (arun env a₁ ((List.range n).flatMap fun i => [Op.writeRow i (R i) (ys i), Op.setW i (ws i)])) [Op.setPre A b] := by
    show arun env _ (freshOps e n R ys ws A b) = _
    unfold freshOps
    rw [arun_append, arun_append]
  by_cases hn : n = 0
  · subst hn
    rw [ha]
    simp only [List.range_zero, List.flatMap_nil, arun, List.foldl_nil, List.foldl_cons, astep, a₁, forget, State.default]
    simp
  · have hpos : 0 < n := Nat.pos_of_ne_zero hn
    have h1 : a₁.est = e ∧ a₁.n = n ∧ a₁.cap = n ∧ a₁.jcols = e := by
      simp only [a₁, arun, List.foldl_cons, List.foldl_nil, astep, forget, State.default]
      simp [hpos]
    obtain ⟨e1, e2, e3, e4⟩ := h1
    obtain ⟨i1, i2, i3, i4, i5, i6, i7, i8, i9⟩ := arun_writes env a₁ R ys ws n (by omega)
    rw [ha]
    simp only [arun, List.foldl_cons, List.foldl_nil, astep]
    simp only [arun] at i1 i2 i7 i8 i9
    refine ⟨i1.trans e1, i2.trans e2, trivial, trivial, ?_, i8, i9⟩
    intro k hk c hc
    exact i7 k hk c (by omega) (by omega)

/-- **A smaller problem after a larger one equals a fresh solver.**  Whatever the history of an object, if its
    specified current problem is `(e, n, rows, weights, A, b)` then all three estimates equal those of a brand-new
    object on which exactly that problem has been stated. -/
theorem equals_fresh_solver (env : Env ℝ) (s₀ : State ℝ) (hwf : WF s₀) (ops : List (Op ℝ))
    (hd : (arun env (forget s₀) ops).Defined true) :
    let a := arun env (forget s₀) ops
    let fresh := run env State.default
      (freshOps a.est a.n (fun k => Vec.tab a.est fun c => (a.J k c).getD 0) (fun k => (a.Y k).getD 0)
        (fun k => (a.W k).getD 0) a.Ac a.Bc)
    (estimateSVD env (run env s₀ ops)).2 = (estimateSVD env fresh).2 ∧
    (estimateCholesky env (run env s₀ ops)).2 = (estimateCholesky env fresh).2 ∧
    (weightedEstimate env (run env s₀ ops)).2 = (weightedEstimate env fresh).2 := by
  intro a fresh
  obtain ⟨f1, f2, f3, f4, f5, f6, f7⟩ := freshOps_spec env a.est a.n (fun k => Vec.tab a.est fun c => (a.J k c).getD 0)
    (fun k => (a.Y k).getD 0) (fun k => (a.W k).getD 0) a.Ac a.Bc
  apply estimate_depends_on_current_problem_only env s₀ State.default hwf wf_default ops _ hd
  obtain ⟨dJ, dY, dW⟩ := hd
  refine ⟨f1.symm, f2.symm, f3.symm, f4.symm, ?_, ?_, ?_⟩
  · intro k hk c hc
    rw [f5 k hk c hc, Vec.get_tab _ _ hc]
    obtain ⟨v, hv⟩ := Option.isSome_iff_exists.mp (dJ k hk c hc)
    show a.J k c = _
    rw [hv]; rfl
  · intro k hk
    rw [f6 k hk]
    obtain ⟨v, hv⟩ := Option.isSome_iff_exists.mp (dY k hk)
    show a.Y k = _
    rw [hv]; rfl
  · intro k hk
    rw [f7 k hk]
    obtain ⟨v, hv⟩ := Option.isSome_iff_exists.mp (dW rfl k hk)
    show a.W k = _
    rw [hv]; rfl

/-! ## 6. Covariance -/

/-- after an SVD estimate (no cut) `computeEstimateCovariance(var)` is `var · Acᵀ (JᵀJ)⁻¹ Ac` — note the
    transposition pattern of the code: this is the propagated covariance `Ac (JᵀJ)⁻¹ Acᵀ · var` only for symmetric `Ac` -/
theorem covariance_spec (env : Env ℝ) (s : State ℝ) (hsvd : SVDAt env s) (heps : 0 ≤ env.eps) (hcut : NoCut env s) (var : ℝ) :
    toM s.est s.est (covariance (estimateSVD env s).1 var) = var • ((AcM s)ᵀ * ((JM s)ᵀ * JM s)⁻¹ * AcM s) := by
  have h := (estimateSVD_spec env s hsvd heps hcut).2
  have hinv : InvM (estimateSVD env s).1 = ((JM s)ᵀ * JM s)⁻¹ := (Matrix.inv_eq_left_inv h).symm
  have := toM_covariance (estimateSVD env s).1 var
  rw [hinv] at this
  exact this

/-! ## Non-vacuity -/

/-- a routine satisfying the LDLT contract exists (the exact inverse) -/
noncomputable def exactInverse (e : Nat) (A : Mat ℝ) : Mat ℝ := Mat.tab e e fun i j =>
  if h : i < e ∧ j < e then (toM e e A)⁻¹ ⟨i, h.1⟩ ⟨j, h.2⟩ else 0

example : LDLTContract { eps := 0, svd := fun _ _ => ⟨#[], #[], #[]⟩, ldltInv := exactInverse } := by
  intro e A hpd
  have : toM e e (exactInverse e A) = (toM e e A)⁻¹ := by
    funext i j
    simp only [toM_apply, exactInverse, Mat.get_tab _ _ _ i.isLt j.isLt]
    simp [i.isLt, j.isLt]
  rw [this]
  exact Matrix.mul_nonsing_inv _ ((Matrix.isUnit_iff_isUnit_det _).mp hpd.isUnit)

/-- the object after: new(2); setDataSize(2); rows (2,0 | 1), (0,3 | 6) -/
noncomputable def exState : State ℝ :=
  run { eps := 0, svd := fun _ _ => ⟨#[], #[], #[]⟩, ldltInv := fun _ A => A } State.default
    [.setEstimateSize 2 (fun _ _ => 7), .setDataSize 2 (fun _ _ => 7) (fun _ => 7), .writeRow 0 #[2, 0] 1, .writeRow 1 #[0, 3] 6]

/-- an environment whose SVD routine answers the normal matrix diag(4, 9) of `exState` correctly -/
noncomputable def exEnv : Env ℝ := { eps := 1 / 10, svd := fun _ _ => ⟨identity 2, #[4, 9], identity 2⟩, ldltInv := fun _ A => A }


theorem exState_J : JM exState = !![2, 0; 0, 3] := by
  funext i j
  fin_cases i <;> fin_cases j <;> rfl

theorem exState_Y : YV exState = ![1, 6] := by
  funext i
  fin_cases i <;> rfl

theorem exState_wf : WF exState := by
  refine ⟨rfl, rfl, ?_⟩
  intro k hk
  have : k < 2 := hk
  interval_cases k <;> rfl


/-- the hypotheses of `minimiser`, `cholesky_eq_svd`, `preconditioner_affine`, `covariance_spec` hold for a concrete
    non-trivial object and routine -/
example : SVDAt exEnv exState ∧ NoCut exEnv exState ∧ 0 ≤ exEnv.eps ∧ AcM exState = 1 ∧ BcV exState = 0 := by
  refine ⟨⟨?_, ?_, ?_, ?_⟩, ?_, by norm_num [exEnv], ?_, ?_⟩
  · show (toM 2 2 (identity 2))ᵀ * toM 2 2 (identity 2) = 1
    rw [toM_identity]; simp
  · show (toM 2 2 (identity 2))ᵀ * toM 2 2 (identity 2) = 1
    rw [toM_identity]; simp
  · intro i
    show (0 : ℝ) ≤ Vec.get #[4, 9] i
    fin_cases i
    · show (0 : ℝ) ≤ 4; norm_num
    · show (0 : ℝ) ≤ 9; norm_num
  · show toM 2 2 (computeJtJ exState) = toM 2 2 (identity 2) * Matrix.diagonal (toV 2 #[4, 9]) * (toM 2 2 (identity 2))ᵀ
    have h := toM_computeJtJ exState
    rw [exState_J] at h
    have h2 : toM 2 2 (computeJtJ exState) = (!![2, 0; 0, 3]ᵀ * !![2, 0; 0, 3] : Matrix (Fin 2) (Fin 2) ℝ) := h
    have hS : toV 2 #[(4 : ℝ), 9] = ![4, 9] := by funext i; fin_cases i <;> rfl
    have key : (!![2, 0; 0, 3]ᵀ * !![2, 0; 0, 3] : Matrix (Fin 2) (Fin 2) ℝ) =
        1 * Matrix.diagonal ![4, 9] * (1 : Matrix (Fin 2) (Fin 2) ℝ)ᵀ := by
      rw [Matrix.one_mul, Matrix.transpose_one, Matrix.mul_one]
      ext i j
      fin_cases i <;> fin_cases j <;> norm_num [Matrix.mul_apply, Fin.sum_univ_two, Matrix.diagonal_apply]
    rw [h2, toM_identity, hS, key]
  · intro i
    show (1 / 10 : ℝ) < Vec.get #[4, 9] i
    fin_cases i
    · show (1 / 10 : ℝ) < 4; norm_num
    · show (1 / 10 : ℝ) < 9; norm_num
  · show toM 2 2 (identity 2) = 1
    exact toM_identity 2
  · funext i
    fin_cases i <;> (show (LeastSquares.zero : ℝ) = 0) <;> simp

/-- a history with a larger problem (3 rows) followed by a smaller one (2 rows) on the same object: the hypotheses of
    `history_independent` / `equals_fresh_solver` hold, and the row left over from the larger problem is not part of
    the specified current problem -/
noncomputable def exShrink : List (Op ℝ) :=
  [.setEstimateSize 2 (fun _ _ => 7), .setDataSize 3 (fun _ _ => 7) (fun _ => 7), .writeRow 0 #[1, 1] 1, .writeRow 1 #[1, 2] 2,
   .writeRow 2 #[5, 5] 9, .setDataSize 2 (fun _ _ => 8) (fun _ => 8), .writeRow 0 #[2, 0] 1, .writeRow 1 #[0, 3] 6]

example : WF (State.default : State ℝ) ∧ (arun exEnv (forget State.default) exShrink).Defined true ∧
    (arun exEnv (forget State.default) exShrink).n = 2 ∧ (arun exEnv (forget State.default) exShrink).cap = 3 ∧
    (arun exEnv (forget State.default) exShrink).J 2 0 = some 5 := by
  refine ⟨wf_default, ⟨?_, ?_, ?_⟩, rfl, rfl, rfl⟩
  · intro k hk c hc
    have hk' : k < 2 := hk
    have hc' : c < 2 := hc
    interval_cases k <;> interval_cases c <;> rfl
  · intro k hk
    have hk' : k < 2 := hk
    interval_cases k <;> rfl
  · intro _ k hk
    have hk' : k < 2 := hk
    interval_cases k <;> rfl

/-- the estimate size is CHANGED on the live object with no reallocation behind it (the history repaired in /repo
    186525a: `new(2); setDataSize(4); rows; setEstimateSize(3); setDataSize(4); rows`): the specification-level state is
    completely `Defined` with the new size, so `history_independent` / `equals_fresh_solver` apply to it; and an
    estimate-size change to the SAME size keeps the specified rows -/
noncomputable def exResize : List (Op ℝ) :=
  [.setEstimateSize 2 (fun _ _ => 7), .setDataSize 4 (fun _ _ => 7) (fun _ => 7), .writeRow 0 #[1, 0] 1, .writeRow 1 #[1, 1] 3,
   .writeRow 2 #[1, 2] 5, .writeRow 3 #[1, 3] 7, .setEstimateSize 3 (fun _ _ => 9), .setDataSize 4 (fun _ _ => 8) (fun _ => 8),
   .writeRow 0 #[1, 0, 0] 1, .writeRow 1 #[1, 1, 1] 2, .writeRow 2 #[1, 2, 4] 7, .writeRow 3 #[1, 3, 9] 14]

example : (arun exEnv (forget State.default) exResize).Defined true ∧
    (arun exEnv (forget State.default) exResize).est = 3 ∧ (arun exEnv (forget State.default) exResize).cap = 4 ∧
    (arun exEnv (forget State.default) exResize).jcols = 3 ∧
    (arun exEnv (forget State.default) (exResize.take 7)).J 1 1 = none ∧
    (arun exEnv (forget State.default) (exResize.take 6 ++ [.setEstimateSize 2 (fun _ _ => 9)])).J 1 1 = some 1 := by
  refine ⟨⟨?_, ?_, ?_⟩, rfl, rfl, rfl, rfl, rfl⟩
  · intro k hk c hc
    have hk' : k < 4 := hk
    have hc' : c < 3 := hc
    interval_cases k <;> interval_cases c <;> rfl
  · intro k hk
    have hk' : k < 4 := hk
    interval_cases k <;> rfl
  · intro _ k hk
    have hk' : k < 4 := hk
    interval_cases k <;> rfl

end Romea.C07
