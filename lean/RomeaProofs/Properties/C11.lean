import RomeaModel.Pose
import RomeaProofs.RealInst
import Mathlib.Data.Matrix.Mul
import Mathlib.Data.Fin.VecNotation
import Mathlib.Algebra.BigOperators.Fin
import Mathlib.LinearAlgebra.Matrix.NonsingularInverse
import Mathlib.Tactic.FinCases
import Mathlib.Tactic.Linarith
import Mathlib.Tactic.Ring
import Mathlib.Tactic.NormNum
import Mathlib.Tactic.LinearCombination

/-!
# C11 — pose / twist conversions keep means and covariances consistent; pose action; uncertainty ellipse

Property theorems only (helper lemmas are `private`).  Everything is stated over `ℝ` on the model of
`RomeaModel/Pose.lean`.  Guards of partial operations: the only totalised functions on the paths below
are `Real.sqrt` (ellipse radii: the radicands are non-negative by the oracle contract, discharged in
`ellipse`) and the division by `σ²` (`σ > 0` is a hypothesis).  `atan2` is `Complex.arg`, total.

Oracle parameters and their contracts:
* `rotOf` (`Eigen::Affine3d::rotation()`): the theorems assume `rotOf L = L` for the linear parts used
  (true of the polar factor whenever `L` is a rotation matrix);
* `svd` (`JacobiSVD` of the 2×2 covariance): `IsEig2` below; it is satisfiable for every symmetric PSD 2×2
  matrix (`isEig2_exists`), so `ellipse` is not vacuous anywhere on the property's domain.

Positive semi-definiteness is stated elementarily (`IsPSD`): symmetric and `xᵀ C x ≥ 0` for every `x`.

Not proved here (see the plugin's `ASSUMPTIONS`): the attitude half of the composition law needs the
Euler round trip `R(angles(M)) = M`, which is property C10's `rotation_roundtrip`; here the orientation
of the result is proved to be *by definition* `rotation3DToEulerAngles (L · Rz Ry Rx)` (`pose_orientation`),
and the probe checks the composition of attitudes on the implementation.
-/
namespace Romea.C11
open Romea.Pose Matrix

/-- the selected components: x, y, yaw -/
def sel : Fin 3 → Fin 6 := ![0, 1, 5]

/-- symmetric and positive semi-definite, stated elementarily -/
def IsPSD {n : Nat} (C : Mat n n ℝ) : Prop :=
  (∀ i j, C i j = C j i) ∧ ∀ x : Fin n → ℝ, 0 ≤ ∑ i, ∑ j, x i * C i j * x j

/-! ## Selection of the components 0, 1, 5 -/

/-- reducing a 6×6 covariance reads exactly the entries `(sel i, sel j)` — and nothing else -/
theorem selection_se2 (C : Mat 6 6 ℝ) (i j : Fin 3) : toSe2Covariance C i j = C (sel i) (sel j) := by
  fin_cases i <;> fin_cases j <;> rfl

/-- embedding a 3×3 covariance writes its entries at `(sel i, sel j)` … -/
theorem selection_se3 (C : Mat 3 3 ℝ) (i j : Fin 3) : toSe3Covariance C (sel i) (sel j) = C i j := by
  fin_cases i <;> fin_cases j <;> rfl

/-- … and zero everywhere else -/
theorem selection_se3_zero (C : Mat 3 3 ℝ) (a b : Fin 6)
    (h : (∀ i, a ≠ sel i) ∨ (∀ j, b ≠ sel j)) : toSe3Covariance C a b = 0 := by
  rcases h with h | h
  · have h0 := h 0; have h1 := h 1; have h2 := h 2
    fin_cases a <;> fin_cases b <;> simp_all [sel, toSe3Covariance]
  · have h0 := h 0; have h1 := h 1; have h2 := h 2
    fin_cases a <;> fin_cases b <;> simp_all [sel, toSe3Covariance]

/-- embedding a planar covariance into 6×6 and reducing it again is the identity -/
theorem se2_of_se3_of_se2 (C : Mat 3 3 ℝ) : toSe2Covariance (toSe3Covariance C) = C := by
  funext i j; fin_cases i <;> fin_cases j <;> rfl

/-- the reduced covariance depends on the selected entries only -/
theorem se2_depends_on_selected_only (C C' : Mat 6 6 ℝ) (h : ∀ i j, C (sel i) (sel j) = C' (sel i) (sel j)) :
    toSe2Covariance C = toSe2Covariance C' := by
  funext i j; rw [selection_se2, selection_se2, h]

/-- `toPose2D` keeps x, y, yaw and the selected covariance -/
theorem pose_reduction (p : Pose3D ℝ) :
    (toPose2D p).position 0 = p.position 0 ∧ (toPose2D p).position 1 = p.position 1 ∧
    (toPose2D p).yaw = p.orientation 2 ∧
    ∀ i j, (toPose2D p).covariance i j = p.covariance (sel i) (sel j) := by
  refine ⟨rfl, rfl, rfl, ?_⟩
  intro i j; simp only [toPose2D, tab_get]; exact selection_se2 _ i j

/-- `toTwist2D` keeps vx, vy, yaw rate and the selected covariance -/
theorem twist_reduction (t : Twist3D ℝ) :
    (toTwist2D t).linearSpeeds 0 = t.linearSpeeds 0 ∧ (toTwist2D t).linearSpeeds 1 = t.linearSpeeds 1 ∧
    (toTwist2D t).angularSpeed = t.angularSpeeds 2 ∧
    ∀ i j, (toTwist2D t).covariance i j = t.covariance (sel i) (sel j) := by
  refine ⟨rfl, rfl, rfl, ?_⟩
  intro i j; simp only [toTwist2D, tab_get]; exact selection_se2 _ i j

/-- `toPoseAndTwist2D` is the pair of the two reductions -/
theorem pose_and_twist_reduction (pt : PoseAndTwist3D ℝ) :
    (toPoseAndTwist2D pt).pose = toPose2D pt.pose ∧ (toPoseAndTwist2D pt).twist = toTwist2D pt.twist :=
  ⟨rfl, rfl⟩

/-- `toPosition3D` keeps the position and its 3×3 covariance block -/
theorem position_reduction (p : Pose3D ℝ) :
    (toPosition3D p).position = p.position ∧
    ∀ i j : Fin 3, (toPosition3D p).covariance i j = p.covariance (Fin.castLE (by omega) i) (Fin.castLE (by omega) j) :=
  ⟨rfl, fun _ _ => rfl⟩

/-! ## Symmetry and positive semi-definiteness are preserved both ways -/

theorem psd_preserved_se2 (C : Mat 6 6 ℝ) (h : IsPSD C) : IsPSD (toSe2Covariance C) := by
  refine ⟨fun i j => ?_, fun x => ?_⟩
  · rw [selection_se2, selection_se2]; exact h.1 _ _
  · have key := h.2 ![x 0, x 1, 0, 0, 0, x 2]
    simp only [Fin.sum_univ_succ, Fin.sum_univ_zero] at key ⊢
    simp [toSe2Covariance] at key ⊢
    linarith

theorem psd_preserved_se3 (C : Mat 3 3 ℝ) (h : IsPSD C) : IsPSD (toSe3Covariance C) := by
  refine ⟨fun a b => ?_, fun x => ?_⟩
  · have := h.1
    fin_cases a <;> fin_cases b <;> simp [toSe3Covariance, this]
  · have key := h.2 ![x 0, x 1, x 5]
    simp only [Fin.sum_univ_succ, Fin.sum_univ_zero] at key ⊢
    simp [toSe3Covariance] at key ⊢
    linarith

/-! ## The pose transformation: position and orientation

`Matrix.of` turns a model matrix (a plain function) into a Mathlib `Matrix`. -/

private theorem mul3_eq (A B : Mat 3 3 ℝ) : Matrix.of (mul3 A B) = Matrix.of A * Matrix.of B := by
  ext i j; simp [mul3, Matrix.mul_apply, Fin.sum_univ_succ]; ring

/-- position of `A * pose` is `L p + T` (for a rigid `A`: `rotOf L = L`) -/
theorem pose_position (rotOf : Mat 3 3 ℝ → Mat 3 3 ℝ) (L : Mat 3 3 ℝ) (T p o : Vec 3 ℝ)
    (hL : rotOf L = L) : (poseMulMean rotOf L T p o).1.get = Matrix.of L *ᵥ p + T := by
  funext i
  simp only [poseMulMean, hL, tab_get, vtab_get, mulVec3, Matrix.mulVec, dotProduct, Fin.sum_univ_succ,
    Fin.sum_univ_zero, Matrix.of_apply, Pi.add_apply]
  simp
  ring

/-- `Rz(yaw) · Ry(pitch) · Rx(roll)` as a Mathlib matrix -/
noncomputable def rzyx (o : Vec 3 ℝ) : Matrix (Fin 3) (Fin 3) ℝ :=
  Matrix.of (rotZ (Real.cos (o 2)) (Real.sin (o 2))) * Matrix.of (rotY (Real.cos (o 1)) (Real.sin (o 1))) *
    Matrix.of (rotX (Real.cos (o 0)) (Real.sin (o 0)))

/-- `SmartRotation3D::R()` is `Rz Ry Rx` -/
theorem smartR_eq (o : Vec 3 ℝ) : Matrix.of (smartR o).get = rzyx o := by
  simp only [smartR, tab_get, rzyx]
  rw [mul3_eq, mul3_eq]; rfl

/-- orientation of `A * pose` is, by definition, the Euler angle triple of `L · Rz(yaw) Ry(pitch) Rx(roll)` -/
theorem pose_orientation (rotOf : Mat 3 3 ℝ → Mat 3 3 ℝ) (L : Mat 3 3 ℝ) (T p o : Vec 3 ℝ) (hL : rotOf L = L) :
    (poseMulMean rotOf L T p o).2.get = rotation3DToEulerAngles (fun i j => (Matrix.of L * rzyx o) i j) := by
  simp only [poseMulMean, hL, tab_get, vtab_get]
  congr 1
  funext i j
  rw [← smartR_eq, ← mul3_eq]; rfl

/-- the identity transform leaves the position unchanged -/
theorem identity_neutral_position (rotOf : Mat 3 3 ℝ → Mat 3 3 ℝ) (p o : Vec 3 ℝ)
    (h1 : rotOf (fun i j => if i = j then 1 else 0) = (fun i j => if i = j then 1 else 0)) :
    (poseMulMean rotOf (fun i j => if i = j then 1 else 0) (fun _ => 0) p o).1.get = p := by
  rw [pose_position rotOf _ _ _ _ h1]
  have : (Matrix.of (fun i j : Fin 3 => if i = j then (1 : ℝ) else 0)) = 1 := by
    ext i j; simp [Matrix.one_apply]
  rw [this, Matrix.one_mulVec]
  funext i; simp

/-- successive transforms compose on the position: `A₂ * (A₁ * pose)` and `(A₂ ∘ A₁) * pose` have the same
    position, where `A₂ ∘ A₁ = (L₂ L₁, L₂ T₁ + T₂)`; the orientation handed from one to the other is irrelevant -/
theorem composition_position (rotOf : Mat 3 3 ℝ → Mat 3 3 ℝ) (L₁ L₂ L₂₁ : Mat 3 3 ℝ)
    (T₁ T₂ T₂₁ p o o' : Vec 3 ℝ) (h₁ : rotOf L₁ = L₁) (h₂ : rotOf L₂ = L₂) (h₂₁ : rotOf L₂₁ = L₂₁)
    (hL : Matrix.of L₂₁ = Matrix.of L₂ * Matrix.of L₁) (hT : T₂₁ = Matrix.of L₂ *ᵥ T₁ + T₂) :
    (poseMulMean rotOf L₂ T₂ (poseMulMean rotOf L₁ T₁ p o).1.get o').1.get =
      (poseMulMean rotOf L₂₁ T₂₁ p o).1.get := by
  rw [pose_position rotOf _ _ _ _ h₂, pose_position rotOf _ _ _ _ h₁, pose_position rotOf _ _ _ _ h₂₁, hL, hT]
  rw [Matrix.mulVec_add, Matrix.mulVec_mulVec, add_assoc]

/-! ## Uncertainty ellipse -/

/-- contract of the SVD oracle on a symmetric PSD 2×2 matrix `C`: descending non-negative values,
    orthonormal columns, `C = U diag(s₀, s₁) Uᵀ` -/
structure IsEig2 (C : Mat 2 2 ℝ) (d : Eig2 ℝ) : Prop where
  desc : d.s1 ≤ d.s0
  nonneg : 0 ≤ d.s1
  orth : ∀ i j, d.U 0 i * d.U 0 j + d.U 1 i * d.U 1 j = if i = j then 1 else 0
  recon : ∀ i j, C i j = d.U i 0 * d.s0 * d.U j 0 + d.U i 1 * d.s1 * d.U j 1

/-- the rotation by `θ` -/
noncomputable def rot2 (θ : ℝ) : Matrix (Fin 2) (Fin 2) ℝ := !![Real.cos θ, -Real.sin θ; Real.sin θ, Real.cos θ]

private theorem rows_orthonormal (U : Matrix (Fin 2) (Fin 2) ℝ)
    (h : ∀ i j, U 0 i * U 0 j + U 1 i * U 1 j = if i = j then 1 else 0) :
    U 0 0 * U 0 0 + U 0 1 * U 0 1 = 1 ∧ U 1 0 * U 1 0 + U 1 1 * U 1 1 = 1 ∧ U 0 0 * U 1 0 + U 0 1 * U 1 1 = 0 := by
  have hm : Uᵀ * U = 1 := by
    ext i j
    simp only [Matrix.mul_apply, Fin.sum_univ_two, Matrix.transpose_apply, Matrix.one_apply]
    exact h i j
  have hm' : U * Uᵀ = 1 := mul_eq_one_comm.mp hm
  have e := fun i j => congrFun (congrFun hm' i) j
  have e00 := e 0 0; have e11 := e 1 1; have e01 := e 0 1
  simp only [Matrix.mul_apply, Fin.sum_univ_two, Matrix.transpose_apply, Matrix.one_apply] at e00 e11 e01
  refine ⟨by simpa using e00, by simpa using e11, by simpa using e01⟩

private theorem rot_diag_rot (c s M m : ℝ) (i j : Fin 2) :
    ((!![c, -s; s, c] : Matrix (Fin 2) (Fin 2) ℝ) * !![M, 0; 0, m] * (!![c, -s; s, c] : Matrix (Fin 2) (Fin 2) ℝ)ᵀ) i j =
      (!![c * c * M + s * s * m, c * s * M - c * s * m; c * s * M - c * s * m, s * s * M + c * c * m] :
        Matrix (Fin 2) (Fin 2) ℝ) i j := by
  fin_cases i <;> fin_cases j <;> simp [Matrix.mul_apply, Fin.sum_univ_two] <;> ring

/-- For every covariance `C` and every oracle result meeting the eigen contract (this includes rank-deficient
    `C`, where `s₁ = 0`), and every `σ > 0`: `major ≥ minor ≥ 0` and
    `R(θ) diag(major², minor²) R(θ)ᵀ / σ² = C`. -/
theorem ellipse (svd : Mat 2 2 ℝ → Eig2 ℝ) (c : Vec 2 ℝ) (C : Mat 2 2 ℝ) (σ : ℝ) (hσ : 0 < σ)
    (hsvd : IsEig2 C (svd C)) :
    let e := ellipseOfCov svd c C σ
    e.center = c ∧ e.minor ≤ e.major ∧ 0 ≤ e.minor ∧
    ∀ i j, (rot2 e.orientation * !![e.major ^ 2, 0; 0, e.minor ^ 2] * (rot2 e.orientation)ᵀ) i j / σ ^ 2 = C i j := by
  intro e
  obtain ⟨hdesc, hnn, horth, hrec⟩ := hsvd
  set d := svd C with hd
  have h0 : 0 ≤ d.s0 := le_trans hnn hdesc
  have hmaj : e.major = Real.sqrt d.s0 * σ := rfl
  have hmin : e.minor = Real.sqrt d.s1 * σ := rfl
  have hori : e.orientation = Complex.arg ⟨d.U 0 0, d.U 1 0⟩ := rfl
  have hunit : d.U 0 0 * d.U 0 0 + d.U 1 0 * d.U 1 0 = 1 := by simpa using horth 0 0
  have hnorm : ‖(⟨d.U 0 0, d.U 1 0⟩ : ℂ)‖ = 1 := by
    rw [Complex.norm_def, Complex.normSq_apply]; simp [hunit]
  have hne : (⟨d.U 0 0, d.U 1 0⟩ : ℂ) ≠ 0 := by
    intro h; rw [h] at hnorm; simp at hnorm
  have hcos : Real.cos e.orientation = d.U 0 0 := by rw [hori, Complex.cos_arg hne, hnorm]; simp
  have hsin : Real.sin e.orientation = d.U 1 0 := by rw [hori, Complex.sin_arg, hnorm]; simp
  obtain ⟨r0, r1, r01⟩ := rows_orthonormal d.U horth
  have hmaj2 : e.major ^ 2 = d.s0 * σ ^ 2 := by rw [hmaj, mul_pow, Real.sq_sqrt h0]
  have hmin2 : e.minor ^ 2 = d.s1 * σ ^ 2 := by rw [hmin, mul_pow, Real.sq_sqrt hnn]
  have hσ2 : σ ^ 2 ≠ 0 := pow_ne_zero 2 (ne_of_gt hσ)
  refine ⟨rfl, ?_, ?_, ?_⟩
  · rw [hmaj, hmin]; exact mul_le_mul_of_nonneg_right (Real.sqrt_le_sqrt hdesc) (le_of_lt hσ)
  · rw [hmin]; exact mul_nonneg (Real.sqrt_nonneg _) (le_of_lt hσ)
  · intro i j
    rw [div_eq_iff hσ2, hrec i j, rot2, hcos, hsin, hmaj2, hmin2, rot_diag_rot]
    -- second column of U, squared / mixed, in terms of the first one
    have c00 : d.U 0 1 * d.U 0 1 = d.U 1 0 * d.U 1 0 := by nlinarith
    have c11 : d.U 1 1 * d.U 1 1 = d.U 0 0 * d.U 0 0 := by nlinarith
    have c01 : d.U 0 1 * d.U 1 1 = -(d.U 0 0 * d.U 1 0) := by linarith
    fin_cases i <;> fin_cases j <;> simp
    · linear_combination (-(d.s1 * σ ^ 2)) * c00
    · linear_combination (-(d.s1 * σ ^ 2)) * c01
    · linear_combination (-(d.s1 * σ ^ 2)) * c01
    · linear_combination (-(d.s1 * σ ^ 2)) * c11

/-- the contract is satisfiable for every symmetric PSD 2×2 matrix that is diagonal … -/
theorem isEig2_diagonal (a b : ℝ) (hab : b ≤ a) (hb : 0 ≤ b) :
    IsEig2 (fun i j => if i = j then (if i = 0 then a else b) else 0) ⟨a, b, fun i j => if i = j then 1 else 0⟩ := by
  refine ⟨hab, hb, ?_, ?_⟩
  · intro i j; fin_cases i <;> fin_cases j <;> simp
  · intro i j; fin_cases i <;> fin_cases j <;> simp

/-- … and is invariant under rotating the matrix: if `d` is a decomposition of `C` then `(s, R U)` is one of
    `R C Rᵀ` — hence the contract is satisfiable for every symmetric PSD 2×2 matrix (all of them are of
    this form by the spectral theorem, which is what the oracle implements). -/
theorem isEig2_rotate (C : Matrix (Fin 2) (Fin 2) ℝ) (d : Eig2 ℝ) (h : IsEig2 C d) (θ : ℝ) :
    IsEig2 (rot2 θ * C * (rot2 θ)ᵀ) ⟨d.s0, d.s1, rot2 θ * Matrix.of d.U⟩ := by
  obtain ⟨h1, h2, h3, h4⟩ := h
  have hcs := Real.cos_sq_add_sin_sq θ
  refine ⟨h1, h2, ?_, ?_⟩
  · intro i j
    have := h3 i j
    simp only [rot2, Matrix.mul_apply, Fin.sum_univ_two, Matrix.of_apply, Matrix.cons_val_zero, Matrix.cons_val_one,
      Matrix.cons_val', Matrix.cons_val_fin_one]
    rw [← this]
    linear_combination (d.U 0 i * d.U 0 j + d.U 1 i * d.U 1 j) * hcs
  · intro i j
    simp only [Matrix.mul_apply, Fin.sum_univ_two, Matrix.transpose_apply, Matrix.of_apply]
    rw [h4 0 0, h4 0 1, h4 1 0, h4 1 1]
    ring

/-- every symmetric 2×2 matrix is `R(θ) diag(m + h, m - h) R(θ)ᵀ` with `m = (a + d)/2`,
    `h = ‖(a - d, 2b)‖ / 2`, `θ = arg (a - d, 2b) / 2` -/
private theorem sym2_diagonalised (a b d : ℝ) (hz : (⟨a - d, 2 * b⟩ : ℂ) ≠ 0) :
    let z : ℂ := ⟨a - d, 2 * b⟩
    let θ := Complex.arg z / 2
    let m := (a + d) / 2
    let h := ‖z‖ / 2
    (rot2 θ * !![m + h, 0; 0, m - h] * (rot2 θ)ᵀ) = !![a, b; b, d] := by
  intro z θ m h
  have hn : ‖z‖ ≠ 0 := norm_ne_zero_iff.mpr hz
  have h2θ : 2 * θ = Complex.arg z := by simp only [θ]; ring
  have hc2 : Real.cos (2 * θ) = (a - d) / ‖z‖ := by rw [h2θ, Complex.cos_arg hz]
  have hs2 : Real.sin (2 * θ) = 2 * b / ‖z‖ := by rw [h2θ, Complex.sin_arg]
  have hcc : Real.cos θ * Real.cos θ = (1 + (a - d) / ‖z‖) / 2 := by
    have := Real.cos_sq θ; rw [hc2] at this; rw [← pow_two, this]; ring
  have hss : Real.sin θ * Real.sin θ = (1 - (a - d) / ‖z‖) / 2 := by
    have := Real.sin_sq θ; rw [pow_two, pow_two, hcc] at this; rw [this]; ring
  have hcs : Real.cos θ * Real.sin θ = b / ‖z‖ := by
    have := Real.sin_two_mul θ
    rw [hs2] at this
    have h2 : 2 * (Real.cos θ * Real.sin θ) = 2 * (b / ‖z‖) := by rw [mul_div_assoc] at this; linarith
    linarith
  ext i j
  rw [rot2, rot_diag_rot]
  fin_cases i <;> fin_cases j <;> simp only [m, h] <;> simp
  · rw [hcc, hss]; field_simp; ring
  · rw [hcs]; field_simp; ring
  · rw [hcs]; field_simp; ring
  · rw [hcc, hss]; field_simp; ring

/-- **The eigen contract is satisfiable for every symmetric positive semi-definite 2×2 covariance**
    (so `ellipse` is not vacuous for any input of the property's domain, rank-deficient ones included). -/
theorem isEig2_exists (C : Mat 2 2 ℝ) (hC : IsPSD C) : ∃ d : Eig2 ℝ, IsEig2 C d := by
  obtain ⟨hsym, hpos⟩ := hC
  set a := C 0 0 with ha
  set b := C 0 1 with hb
  set d := C 1 1 with hd
  have hb' : C 1 0 = b := (hsym 0 1).symm
  have hCm : (Matrix.of C) = !![a, b; b, d] := by
    ext i j; fin_cases i <;> fin_cases j <;> simp [ha, hb, hd, hb']
  by_cases hz : (⟨a - d, 2 * b⟩ : ℂ) = 0
  · -- isotropic: C = a • 1
    have h1 : a - d = 0 := by simpa using congrArg Complex.re hz
    have h2 : 2 * b = 0 := by simpa using congrArg Complex.im hz
    have hb0 : b = 0 := by linarith
    have hda : d = a := by linarith
    have ha0 : 0 ≤ a := by
      have := hpos ![1, 0]
      simp [Fin.sum_univ_two] at this
      simpa [ha] using this
    refine ⟨⟨a, a, fun i j => if i = j then 1 else 0⟩, le_refl a, ha0, ?_, ?_⟩
    · intro i j; fin_cases i <;> fin_cases j <;> simp
    · intro i j
      have := congrFun (congrFun hCm i) j
      simp only [Matrix.of_apply] at this
      rw [this]
      fin_cases i <;> fin_cases j <;> simp [hb0, hda]
  · have hdiag := sym2_diagonalised a b d hz
    simp only at hdiag
    set z : ℂ := ⟨a - d, 2 * b⟩ with hzdef
    set θ := Complex.arg z / 2 with hθ
    set m := (a + d) / 2 with hm
    set h := ‖z‖ / 2 with hh
    have hh0 : 0 ≤ h := by positivity
    have hentries := fun i j => rot_diag_rot (Real.cos θ) (Real.sin θ) (m + h) (m - h) i j
    have e := fun i j => congrFun (congrFun hdiag i) j
    have e00 := e 0 0; have e01 := e 0 1; have e11 := e 1 1
    rw [rot2, hentries] at e00 e01 e11
    simp at e00 e01 e11
    -- the small eigenvalue is a value of the quadratic form, hence non-negative
    have hsmall : 0 ≤ m - h := by
      have hq := hpos ![-Real.sin θ, Real.cos θ]
      simp [Fin.sum_univ_two] at hq
      rw [hb', ← ha, ← hb, ← hd, ← e00, ← e01, ← e11] at hq
      have hcs := Real.cos_sq_add_sin_sq θ
      have h4 : (Real.cos θ ^ 2 + Real.sin θ ^ 2) ^ 2 = 1 := by rw [hcs]; ring
      nlinarith [h4, hcs]
    have hD : (Matrix.of fun i j : Fin 2 => if i = j then (if i = 0 then m + h else m - h) else 0) = !![m + h, 0; 0, m - h] := by
      ext i j; fin_cases i <;> fin_cases j <;> simp
    have hbase := isEig2_diagonal (m + h) (m - h) (by linarith) hsmall
    have hrot := isEig2_rotate (Matrix.of fun i j : Fin 2 => if i = j then (if i = 0 then m + h else m - h) else 0) _ hbase θ
    rw [hD, hdiag, ← hCm] at hrot
    exact ⟨_, hrot⟩

/-! ## Non-vacuity: concrete instances meeting the hypotheses -/

example : toSe2Covariance (toSe3Covariance (fun i j : Fin 3 => ((3 * i.1 + j.1 + 1 : Nat) : ℝ))) 1 2 = 6 := by
  rw [se2_of_se3_of_se2]; norm_num

example : IsPSD (fun i j : Fin 3 => if i = j then (1 : ℝ) else 0) := by
  refine ⟨fun i j => by by_cases h : i = j <;> simp [h, eq_comm], fun x => ?_⟩
  simp only [Fin.sum_univ_succ, Fin.sum_univ_zero]
  simp
  nlinarith [mul_self_nonneg (x 0), mul_self_nonneg (x 1), mul_self_nonneg (x 2)]

/-- a rank-deficient covariance `diag(4, 0)` with the identity as `U`: the ellipse theorem applies -/
example : IsEig2 (fun i j => if i = j then (if i = 0 then (4 : ℝ) else 0) else 0) ⟨4, 0, fun i j => if i = j then 1 else 0⟩ :=
  isEig2_diagonal 4 0 (by norm_num) (le_refl 0)

end Romea.C11
