import RomeaModel.ENU
import RomeaProofs.RealInst
import RomeaProofs.RN
import RomeaProofs.Properties.C01
import Mathlib.LinearAlgebra.Matrix.Determinant.Basic
import Mathlib.LinearAlgebra.Matrix.Notation
import Mathlib.Tactic.Linarith
import Mathlib.Tactic.Ring
import Mathlib.Tactic.LinearCombination
import Mathlib.Tactic.FieldSimp
import Mathlib.Data.List.Induction
import Mathlib.Analysis.SpecialFunctions.Trigonometric.Deriv
import Mathlib.Analysis.SpecialFunctions.Sqrt

/-!
# C02 — the local tangent-plane (ENU) converter

Geometry (sections 1–3) is stated over `ℝ`: the model instantiated at the reals (exact arithmetic, libm =
the mathematical functions).  `ℝ` is totalised, so every partial operation on the path is listed and its
guard discharged explicitly:
* the only division in the converter itself is `1 / det` in Eigen's cofactor inverse; `det_frame` proves
  `det = 1` for every frame the converter can hold, and every theorem that goes through the inverse uses it;
* `toECEF` (division by `sqrt (1 - e² sin²)`) — its guards are discharged over `RN` in C01
  (`Romea.C01.toECEF_of`: on `0 < b ≤ a` the `RN` run is the image of the `ℝ` run used here).  The theorems
  below that mention `toECEF` hold for every ellipsoid record `E`, guards or not, because they only use
  that the anchor position is *some* point `T` and, for `above_anchor`, the linear dependence on the height.
The history theorem (section 4) is structural and is proved for every scalar type `α` (so also for `Float`).
-/
namespace Romea.C02
open Romea Romea.Geodesy Romea.ENU Real

/-! ## Helpers -/

/-- the matrix as a Mathlib matrix -/
def toMatrix (m : Mat3 ℝ) : Matrix (Fin 3) (Fin 3) ℝ :=
  !![m.m00, m.m01, m.m02; m.m10, m.m11, m.m12; m.m20, m.m21, m.m22]

def transpose3 (m : Mat3 ℝ) : Mat3 ℝ :=
  ⟨m.m00, m.m10, m.m20, m.m01, m.m11, m.m21, m.m02, m.m12, m.m22⟩

/-- unit vectors of the local frame at geodetic (lat, lon) -/
noncomputable def east (lon : ℝ) : Vec3 ℝ := ⟨-sin lon, cos lon, 0⟩
noncomputable def north (lat lon : ℝ) : Vec3 ℝ := ⟨-sin lat * cos lon, -sin lat * sin lon, cos lat⟩
/-- the ellipsoid normal of C01 (`Romea.C01.toECEF_on_normal`) -/
noncomputable def up (lat lon : ℝ) : Vec3 ℝ := ⟨cos lat * cos lon, cos lat * sin lon, sin lat⟩

private theorem vec3_ext {u v : Vec3 ℝ} (hx : u.x = v.x) (hy : u.y = v.y) (hz : u.z = v.z) : u = v := by
  cases u; cases v; simp_all

/-- entries of the frame matrix, as real expressions -/
private theorem frameR_entries (lat lon : ℝ) :
    frameR lat lon = ⟨-sin lon, -sin lat * cos lon, cos lat * cos lon,
                       cos lon, -sin lat * sin lon, cos lat * sin lon,
                       0, cos lat, sin lat⟩ := by
  simp [frameR]

/-! ## 1. The frame matrix is a proper rotation whose columns are east, north, up -/

/-- F1a. columns of the matrix written by `setAnchor`: east, north, up (up = the ellipsoid normal of C01.1) -/
theorem frame_columns (lat lon : ℝ) :
    let R := frameR lat lon
    (⟨R.m00, R.m10, R.m20⟩ : Vec3 ℝ) = east lon ∧ (⟨R.m01, R.m11, R.m21⟩ : Vec3 ℝ) = north lat lon ∧
    (⟨R.m02, R.m12, R.m22⟩ : Vec3 ℝ) = up lat lon := by
  simp [frameR_entries, east, north, up]

/-- F1b. `Rᵀ R = 1`, `R Rᵀ = 1` and `det R = 1`: a proper rotation (no reflection, no scaling) -/
theorem frame_is_rotation (lat lon : ℝ) :
    (toMatrix (frameR lat lon)).transpose * toMatrix (frameR lat lon) = 1 ∧
    toMatrix (frameR lat lon) * (toMatrix (frameR lat lon)).transpose = 1 ∧
    (toMatrix (frameR lat lon)).det = 1 := by
  have h1 := sin_sq_add_cos_sq lat
  have h2 := sin_sq_add_cos_sq lon
  rw [frameR_entries]
  refine ⟨?_, ?_, ?_⟩
  · simp only [toMatrix, Matrix.transpose, Matrix.one_fin_three]
    ext i j
    fin_cases i <;> fin_cases j <;> simp [Matrix.mul_apply, Fin.sum_univ_three] <;>
      first
      | ring1
      | linear_combination h2
      | linear_combination sin lat ^ 2 * h2 + h1
      | linear_combination (-(sin lat * cos lat)) * h2
      | linear_combination cos lat ^ 2 * h2 + h1
  · simp only [toMatrix, Matrix.transpose, Matrix.one_fin_three]
    ext i j
    fin_cases i <;> fin_cases j <;> simp [Matrix.mul_apply, Fin.sum_univ_three] <;>
      first
      | ring1
      | linear_combination h1
      | linear_combination cos lon ^ 2 * h1 + h2
      | linear_combination (cos lon * sin lon) * h1
      | linear_combination sin lon ^ 2 * h1 + h2
  · simp only [toMatrix, Matrix.det_fin_three, Matrix.of_apply, Matrix.cons_val', Matrix.cons_val_zero,
      Matrix.cons_val_one, Matrix.cons_val_two, Matrix.empty_val', Matrix.cons_val_fin_one, Matrix.head_cons,
      Matrix.tail_cons, Matrix.head_fin_const]
    linear_combination (sin lon ^ 2 + cos lon ^ 2) * h1 + h2

/-! ### east and north are the normalised partial derivatives of `toECEF` -/

private theorem primeVertical_eq' (E : Ellipsoid ℝ) (lat : ℝ) :
    primeVertical E lat = E.a / Real.sqrt (1 - E.e2 * sin lat * sin lat) := by
  simp [primeVertical]

/-- F1c. `∂toECEF/∂lon = ((N + h) cos lat) · east`: the first axis is the direction of increasing longitude
    (`(N + h) cos lat > 0` on C01's domain: `Romea.C01.horizontal_radius_pos`). -/
theorem east_is_dlon (E : Ellipsoid ℝ) (lat lon h : ℝ) :
    let k := (primeVertical E lat + h) * cos lat
    HasDerivAt (fun l => (toECEF E ⟨lat, l, h⟩).x) (k * (east lon).x) lon ∧
    HasDerivAt (fun l => (toECEF E ⟨lat, l, h⟩).y) (k * (east lon).y) lon ∧
    HasDerivAt (fun l => (toECEF E ⟨lat, l, h⟩).z) (k * (east lon).z) lon := by
  intro k
  refine ⟨?_, ?_, ?_⟩
  · exact (hasDerivAt_cos lon).const_mul k
  · exact (hasDerivAt_sin lon).const_mul k
  · simp only [east, mul_zero]
    exact hasDerivAt_const lon ((toECEF E ⟨lat, 0, h⟩).z)

private theorem hasDerivAt_primeVertical (E : Ellipsoid ℝ) (φ : ℝ) (hw : 0 < 1 - E.e2 * sin φ * sin φ) :
    HasDerivAt (fun x => primeVertical E x)
      (E.a * E.e2 * sin φ * cos φ / Real.sqrt (1 - E.e2 * sin φ * sin φ) ^ 3) φ := by
  have hs := hasDerivAt_sin φ
  have h1 : HasDerivAt (fun x => 1 - E.e2 * sin x * sin x) (-(E.e2 * cos φ * sin φ + E.e2 * sin φ * cos φ)) φ :=
    ((hs.const_mul E.e2).mul hs).const_sub 1
  have h2 := h1.sqrt hw.ne'
  have hW : Real.sqrt (1 - E.e2 * sin φ * sin φ) ≠ 0 := (Real.sqrt_pos.mpr hw).ne'
  have h3 := (hasDerivAt_const φ E.a).div h2 hW
  have : (fun x => primeVertical E x) = fun x => E.a / Real.sqrt (1 - E.e2 * sin x * sin x) := by
    funext x; exact primeVertical_eq' E x
  rw [this]
  have h4 : HasDerivAt (fun x => E.a / Real.sqrt (1 - E.e2 * sin x * sin x)) _ φ := h3
  refine h4.congr_deriv ?_
  field_simp
  ring

/-- F1d. `∂toECEF/∂lat = (M + h) · north` with `M = a(1-e²)/(1 - e² sin² lat)^{3/2}` the meridional radius:
    the second axis is the direction of increasing latitude (`M + h > 0` on C01's domain:
    `Romea.C01.meridional_radius_pos`).  Guard: `0 < 1 - e² sin² lat` (C01: `0 < b ≤ a`). -/
theorem north_is_dlat (E : Ellipsoid ℝ) (lat lon h : ℝ) (hw : 0 < 1 - E.e2 * sin lat * sin lat) :
    let M := E.a * (1 - E.e2) / Real.sqrt (1 - E.e2 * sin lat * sin lat) ^ 3
    HasDerivAt (fun φ => (toECEF E ⟨φ, lon, h⟩).x) ((M + h) * (north lat lon).x) lat ∧
    HasDerivAt (fun φ => (toECEF E ⟨φ, lon, h⟩).y) ((M + h) * (north lat lon).y) lat ∧
    HasDerivAt (fun φ => (toECEF E ⟨φ, lon, h⟩).z) ((M + h) * (north lat lon).z) lat := by
  intro M
  have hN := hasDerivAt_primeVertical E lat hw
  have hW : Real.sqrt (1 - E.e2 * sin lat * sin lat) ≠ 0 := (Real.sqrt_pos.mpr hw).ne'
  have hW2 : Real.sqrt (1 - E.e2 * sin lat * sin lat) ^ 2 = 1 - E.e2 * sin lat * sin lat := Real.sq_sqrt hw.le
  have h1 := sin_sq_add_cos_sq lat
  have hc := hasDerivAt_cos lat
  have hs := hasDerivAt_sin lat
  refine ⟨?_, ?_, ?_⟩
  · have := ((hN.add_const h).mul hc).mul_const (cos lon)
    have h5 : HasDerivAt (fun φ => (toECEF E ⟨φ, lon, h⟩).x) _ lat := this
    refine h5.congr_deriv ?_
    simp only [north, M, primeVertical_eq']
    generalize Real.sqrt (1 - E.e2 * sin lat * sin lat) = W at *
    field_simp
    linear_combination (-(sin lat * cos lon * E.a)) * hW2 + (sin lat * cos lon * E.a * E.e2) * h1
  · have := ((hN.add_const h).mul hc).mul_const (sin lon)
    have h5 : HasDerivAt (fun φ => (toECEF E ⟨φ, lon, h⟩).y) _ lat := this
    refine h5.congr_deriv ?_
    simp only [north, M, primeVertical_eq']
    generalize Real.sqrt (1 - E.e2 * sin lat * sin lat) = W at *
    field_simp
    linear_combination (-(sin lat * sin lon * E.a)) * hW2 + (sin lat * sin lon * E.a * E.e2) * h1
  · have := ((hN.mul_const (1 - E.e2)).add_const h).mul hs
    have e : (fun φ => (toECEF E ⟨φ, lon, h⟩).z) = (fun x => primeVertical E x * (1 - E.e2) + h) * sin := by
      funext x; simp [toECEF]
    rw [e]
    refine this.congr_deriv ?_
    simp only [north, M, primeVertical_eq']
    generalize Real.sqrt (1 - E.e2 * sin lat * sin lat) = W at *
    field_simp
    linear_combination (cos lat * E.a * (1 - E.e2)) * hW2

/-- F1e. On C01's domain both scale factors are positive: the first axis of the frame is the unit vector of
    increasing longitude (east), the second the unit vector of increasing latitude (north); with `up` the
    outward ellipsoid normal of C01.1 (`frame_columns`) and `det = 1` the frame is right-handed. -/
theorem axes_point_east_and_north {a b lat h : ℝ} (lon : ℝ) (hd : C01.Dom a b lat h) :
    let E := Ellipsoid.make a b
    ∃ k m : ℝ, 0 < k ∧ 0 < m ∧
      HasDerivAt (fun l => (toECEF E ⟨lat, l, h⟩).x) (k * (east lon).x) lon ∧
      HasDerivAt (fun l => (toECEF E ⟨lat, l, h⟩).y) (k * (east lon).y) lon ∧
      HasDerivAt (fun l => (toECEF E ⟨lat, l, h⟩).z) (k * (east lon).z) lon ∧
      HasDerivAt (fun φ => (toECEF E ⟨φ, lon, h⟩).x) (m * (north lat lon).x) lat ∧
      HasDerivAt (fun φ => (toECEF E ⟨φ, lon, h⟩).y) (m * (north lat lon).y) lat ∧
      HasDerivAt (fun φ => (toECEF E ⟨φ, lon, h⟩).z) (m * (north lat lon).z) lat := by
  intro E
  have hw : 0 < 1 - E.e2 * sin lat * sin lat := C01.radicand_pos hd.hb hd.hab lat
  obtain ⟨e1, e2, e3⟩ := east_is_dlon E lat lon h
  obtain ⟨n1, n2, n3⟩ := north_is_dlat E lat lon h hw
  exact ⟨_, _, C01.horizontal_radius_pos hd, C01.meridional_radius_pos hd, e1, e2, e3, n1, n2, n3⟩

/-! ## The affine inverse, as Eigen computes it, on a frame matrix -/

/-- the determinant as `inverse3` computes it (`Σ cofactor_k0 · m_k0`) -/
def det3 (m : Mat3 ℝ) : ℝ :=
  (m.m11 * m.m22 - m.m12 * m.m21) * m.m00 +
    ((m.m21 * m.m02 - m.m22 * m.m01) * m.m10 + (m.m01 * m.m12 - m.m02 * m.m11) * m.m20)

/-- transposed cofactor matrix -/
def adj3 (m : Mat3 ℝ) : Mat3 ℝ :=
  { m00 := m.m11 * m.m22 - m.m12 * m.m21, m01 := m.m21 * m.m02 - m.m22 * m.m01, m02 := m.m01 * m.m12 - m.m02 * m.m11
    m10 := m.m12 * m.m20 - m.m10 * m.m22, m11 := m.m22 * m.m00 - m.m20 * m.m02, m12 := m.m02 * m.m10 - m.m00 * m.m12
    m20 := m.m10 * m.m21 - m.m11 * m.m20, m21 := m.m20 * m.m01 - m.m21 * m.m00, m22 := m.m00 * m.m11 - m.m01 * m.m10 }

def scale3 (k : ℝ) (m : Mat3 ℝ) : Mat3 ℝ :=
  ⟨m.m00 * k, m.m01 * k, m.m02 * k, m.m10 * k, m.m11 * k, m.m12 * k, m.m20 * k, m.m21 * k, m.m22 * k⟩

/-- the model's `inverse3` is `adj / det` with exactly one partial operation: `1 / det3 m` -/
theorem inverse3_def (m : Mat3 ℝ) : inverse3 m = scale3 (1 / det3 m) (adj3 m) := by
  simp [inverse3, scale3, adj3, det3]

/-- `det3` is the determinant -/
theorem det3_eq_det (m : Mat3 ℝ) : det3 m = (toMatrix m).det := by
  simp only [toMatrix, det3, Matrix.det_fin_three, Matrix.of_apply, Matrix.cons_val', Matrix.cons_val_zero,
    Matrix.cons_val_one, Matrix.cons_val_two, Matrix.empty_val', Matrix.cons_val_fin_one, Matrix.head_cons,
    Matrix.tail_cons, Matrix.head_fin_const]
  ring

/-- guard of the only division of the converter: the determinant of every frame matrix is 1 (≠ 0) -/
theorem det_frame (lat lon : ℝ) : det3 (frameR lat lon) = 1 := by
  rw [det3_eq_det]; exact (frame_is_rotation lat lon).2.2

private theorem adj_frame (lat lon : ℝ) : adj3 (frameR lat lon) = transpose3 (frameR lat lon) := by
  have h1 := sin_sq_add_cos_sq lat
  have h2 := sin_sq_add_cos_sq lon
  rw [frameR_entries]
  simp only [adj3, transpose3, Mat3.mk.injEq]
  refine ⟨?_, ?_, ?_, ?_, ?_, ?_, ?_, ?_, ?_⟩ <;>
    first
    | ring1
    | linear_combination (-sin lon) * h1
    | linear_combination (cos lon) * h1
    | linear_combination (cos lat) * h2
    | linear_combination (sin lat) * h2

/-- F3a. Eigen's cofactor inverse of the frame matrix is exactly its transpose -/
theorem inverse3_frame (lat lon : ℝ) : inverse3 (frameR lat lon) = transpose3 (frameR lat lon) := by
  rw [inverse3_def, det_frame, adj_frame]
  simp [scale3]

/-! ### the guard is enforced: over `RN` the run of `toENU` is defined exactly when `det ≠ 0` -/

def ofM (m : Mat3 ℝ) : Mat3 RN :=
  ⟨RN.of m.m00, RN.of m.m01, RN.of m.m02, RN.of m.m10, RN.of m.m11, RN.of m.m12, RN.of m.m20, RN.of m.m21, RN.of m.m22⟩
def ofS (s : State ℝ) : State RN := ⟨s.anchored, C01.ofG s.anchor, ofM s.R, C01.ofV s.T⟩

/-- over `RN` (NaN-absorbing reals) `toENU` of a state with `det R ≠ 0` — in particular of every anchored state,
    `det_frame` — is the image of the `ℝ` run used in the theorems of this file: no guard fails -/
theorem toENUv_of (s : State ℝ) (p : Vec3 ℝ) (hdet : det3 s.R ≠ 0) :
    toENUv (ofS s) (C01.ofV p) = C01.ofV (toENUv s p) := by
  simp only [det3] at hdet
  simp only [toENUv, inverseAffine, inverse3, applyAffine, ofS, ofM, C01.ofV, one, RN.natCast_of, Nat.cast_one,
    RN.mul_of, RN.sub_of, RN.add_of]
  rw [RN.div_of _ _ hdet]
  simp only [RN.mul_of, RN.add_of, RN.neg_of]

/-- and `toECEF` (no partial operation at all) -/
theorem toECEFv_of (s : State ℝ) (v : Vec3 ℝ) : toECEFv (ofS s) (C01.ofV v) = C01.ofV (toECEFv s v) := by
  simp only [toECEFv, applyAffine, ofS, ofM, C01.ofV, one, RN.natCast_of, Nat.cast_one, RN.mul_of, RN.add_of]

/-- if the determinant were 0 the `RN` run would be NaN in every coordinate (the guard is not vacuous) -/
theorem toENUv_nan_of_det_zero (s : State ℝ) (p : Vec3 ℝ) (hdet : det3 s.R = 0) :
    toENUv (ofS s) (C01.ofV p) = ⟨RN.nan, RN.nan, RN.nan⟩ := by
  simp only [det3] at hdet
  simp only [toENUv, inverseAffine, inverse3, applyAffine, ofS, ofM, C01.ofV, one, RN.natCast_of, Nat.cast_one,
    RN.mul_of, RN.sub_of, RN.add_of]
  rw [hdet, RN.div_zero]
  simp

/-! ## 2. `toENU` is the projection on (east, north, up); anchor ↦ origin; h above the anchor ↦ (0,0,h) -/

def dot (u v : Vec3 ℝ) : ℝ := u.x * v.x + u.y * v.y + u.z * v.z
def vsub (u v : Vec3 ℝ) : Vec3 ℝ := ⟨u.x - v.x, u.y - v.y, u.z - v.z⟩
def vadd (u v : Vec3 ℝ) : Vec3 ℝ := ⟨u.x + v.x, u.y + v.y, u.z + v.z⟩
def smul (k : ℝ) (v : Vec3 ℝ) : Vec3 ℝ := ⟨k * v.x, k * v.y, k * v.z⟩

/-- F2a. In a frame anchored at (lat, lon) with origin `T`, the local coordinates of an ECEF point `p` are
    the components of `p - T` along east, north and up: first axis east, second north, third up. -/
theorem toENU_projection (s : State ℝ) (lat lon : ℝ) (hR : s.R = frameR lat lon) (p : Vec3 ℝ) :
    toENUv s p = ⟨dot (east lon) (vsub p s.T), dot (north lat lon) (vsub p s.T), dot (up lat lon) (vsub p s.T)⟩ := by
  simp only [toENUv, inverseAffine, applyAffine, hR, inverse3_frame]
  simp only [transpose3, frameR_entries, dot, vsub, east, north, up, one, Nat.cast_one]
  apply vec3_ext <;> simp only [] <;> ring

/-- the converse direction: `toECEF(v) = T + v.x·east + v.y·north + v.z·up` -/
theorem toECEF_combination (s : State ℝ) (lat lon : ℝ) (hR : s.R = frameR lat lon) (v : Vec3 ℝ) :
    toECEFv s v = vadd s.T (vadd (smul v.x (east lon)) (vadd (smul v.y (north lat lon)) (smul v.z (up lat lon)))) := by
  simp only [toECEFv, applyAffine, hR]
  simp only [frameR_entries, vadd, smul, east, north, up, one, Nat.cast_one]
  apply vec3_ext <;> simp only [] <;> ring

private theorem frame_dots (lat lon : ℝ) :
    dot (east lon) (east lon) = 1 ∧ dot (north lat lon) (north lat lon) = 1 ∧ dot (up lat lon) (up lat lon) = 1 ∧
    dot (east lon) (north lat lon) = 0 ∧ dot (east lon) (up lat lon) = 0 ∧ dot (north lat lon) (up lat lon) = 0 := by
  have h1 := sin_sq_add_cos_sq lat
  have h2 := sin_sq_add_cos_sq lon
  simp only [dot, east, north, up]
  refine ⟨?_, ?_, ?_, ?_, ?_, ?_⟩
  · linear_combination h2
  · linear_combination sin lat ^ 2 * h2 + h1
  · linear_combination cos lat ^ 2 * h2 + h1
  · ring
  · ring
  · linear_combination (-(sin lat * cos lat)) * h2

/-- F2b. The anchor maps to the origin (for every ellipsoid record and every previous state). -/
theorem anchor_to_origin (E : Ellipsoid ℝ) (s₀ : State ℝ) (g : Geo ℝ) :
    toENUv (setAnchor E s₀ g) (toECEF E g) = ⟨0, 0, 0⟩ := by
  rw [toENU_projection _ g.lat g.lon rfl]
  simp [setAnchor, vsub, dot]

/-- F2c. The point `d` metres above the anchor (same latitude and longitude, height `h + d`) maps to `(0, 0, d)`. -/
theorem above_anchor (E : Ellipsoid ℝ) (s₀ : State ℝ) (lat lon h d : ℝ) :
    toENUv (setAnchor E s₀ ⟨lat, lon, h⟩) (toECEF E ⟨lat, lon, h + d⟩) = ⟨0, 0, d⟩ := by
  rw [toENU_projection _ lat lon rfl]
  obtain ⟨_, _, huu, _, heu, hnu⟩ := frame_dots lat lon
  have hd : vsub (toECEF E ⟨lat, lon, h + d⟩) (setAnchor E s₀ ⟨lat, lon, h⟩).T = smul d (up lat lon) := by
    simp only [setAnchor, toECEF, vsub, smul, up]
    apply vec3_ext <;> simp only [trans_sin, trans_cos] <;> ring
  rw [hd]
  simp only [dot, smul] at *
  apply vec3_ext <;> simp only []
  · linear_combination d * heu
  · linear_combination d * hnu
  · linear_combination d * huu

/-! ## 3. Isometry and exact mutual inverses -/

/-- Euclidean distance in ℝ³ -/
noncomputable def dist3 (u v : Vec3 ℝ) : ℝ := Real.sqrt (dot (vsub u v) (vsub u v))

/-- F3b. `toENU` preserves every Euclidean distance (frame = rotation + translation). -/
theorem isometry (s : State ℝ) (lat lon : ℝ) (hR : s.R = frameR lat lon) (p q : Vec3 ℝ) :
    dist3 (toENUv s p) (toENUv s q) = dist3 p q := by
  have h1 := sin_sq_add_cos_sq lat
  have h2 := sin_sq_add_cos_sq lon
  unfold dist3
  congr 1
  rw [toENU_projection s lat lon hR, toENU_projection s lat lon hR]
  simp only [dot, vsub, east, north, up]
  linear_combination
    ((p.x - q.x) ^ 2 * cos lon ^ 2 + (p.y - q.y) ^ 2 * sin lon ^ 2 + (p.z - q.z) ^ 2 +
      2 * (p.x - q.x) * (p.y - q.y) * cos lon * sin lon) * h1 + ((p.x - q.x) ^ 2 + (p.y - q.y) ^ 2) * h2

/-- `toECEF` preserves distances as well -/
theorem isometry_toECEF (s : State ℝ) (lat lon : ℝ) (hR : s.R = frameR lat lon) (v w : Vec3 ℝ) :
    dist3 (toECEFv s v) (toECEFv s w) = dist3 v w := by
  have h1 := sin_sq_add_cos_sq lat
  have h2 := sin_sq_add_cos_sq lon
  unfold dist3
  congr 1
  rw [toECEF_combination s lat lon hR, toECEF_combination s lat lon hR]
  simp only [dot, vsub, vadd, smul, east, north, up]
  linear_combination
    ((v.y - w.y) ^ 2 + (v.z - w.z) ^ 2) * h1 +
    ((v.x - w.x) ^ 2 + (v.y - w.y) ^ 2 * sin lat ^ 2 + (v.z - w.z) ^ 2 * cos lat ^ 2
      - 2 * (v.y - w.y) * (v.z - w.z) * sin lat * cos lat) * h2

/-- F3c. `toENU ∘ toECEF = id`, exactly (the cofactor inverse of the frame matrix is its transpose). -/
theorem toENU_toECEF (s : State ℝ) (lat lon : ℝ) (hR : s.R = frameR lat lon) (v : Vec3 ℝ) :
    toENUv s (toECEFv s v) = v := by
  have h1 := sin_sq_add_cos_sq lat
  have h2 := sin_sq_add_cos_sq lon
  rw [toENU_projection s lat lon hR, toECEF_combination s lat lon hR]
  simp only [dot, vsub, vadd, smul, east, north, up]
  apply vec3_ext <;> simp only []
  · linear_combination v.x * h2
  · linear_combination v.y * h1 + (v.y * sin lat ^ 2 - v.z * sin lat * cos lat) * h2
  · linear_combination v.z * h1 + (v.z * cos lat ^ 2 - v.y * sin lat * cos lat) * h2

/-- F3d. `toECEF ∘ toENU = id`, exactly. -/
theorem toECEF_toENU (s : State ℝ) (lat lon : ℝ) (hR : s.R = frameR lat lon) (p : Vec3 ℝ) :
    toECEFv s (toENUv s p) = p := by
  have h1 := sin_sq_add_cos_sq lat
  have h2 := sin_sq_add_cos_sq lon
  rw [toECEF_combination s lat lon hR, toENU_projection s lat lon hR]
  simp only [dot, vsub, vadd, smul, east, north, up]
  apply vec3_ext <;> simp only []
  · linear_combination ((p.x - s.T.x) * cos lon ^ 2 + (p.y - s.T.y) * cos lon * sin lon) * h1 + (p.x - s.T.x) * h2
  · linear_combination ((p.x - s.T.x) * cos lon * sin lon + (p.y - s.T.y) * sin lon ^ 2) * h1 + (p.y - s.T.y) * h2
  · linear_combination (p.z - s.T.z) * h1

/-- F3e. compositions with `toWGS84` inherit C01: if `g` (in the code: the value returned by
    `toWGS84(v)`, i.e. `ecefConverter_.toWGS84(toECEF(v))`) are geodetic coordinates that `toECEF` maps back onto
    the ECEF image of `v` (C01's round trip), then converting `g` to the local frame gives back `v`, and the
    anchored converter is left unchanged. -/
theorem toENU_toWGS84_of_C01 (E : Ellipsoid ℝ) (s : State ℝ) (lat lon : ℝ) (hR : s.R = frameR lat lon)
    (ha : s.anchored = true) (v : Vec3 ℝ) (g : Geo ℝ) (hC01 : toECEF E g = toECEFv s v) :
    (toENUgeo E s g).2 = v ∧ (toENUgeo E s g).1 = s := by
  simp only [toENUgeo, ha, if_true, hC01, toENU_toECEF s lat lon hR, and_self]

/-- F3f. `toENU ∘ toWGS84 = id` to within 1 mm, as a theorem (C01's `reverse_composition` + the isometry): for an
    anchored converter and a local point `v` whose ECEF image is the image of geodetic coordinates `(lat, lon, h)` in
    C01's property domain (every point within 100 km / 10 km of an anchor of the property's domain is), the `RN` run
    of `toWGS84(v)` is defined and returns geodetic coordinates `g'` whose local coordinates are within 1 mm of `v`. -/
theorem toENU_toWGS84_within_1mm {a b lat h : ℝ} (lon : ℝ) (hp : C01.PropDom a b lat h) (hl₁ : -π < lon) (hl₂ : lon ≤ π)
    (s : State ℝ) (alat alon : ℝ) (hR : s.R = frameR alat alon) (ha : s.anchored = true) (v : Vec3 ℝ)
    (hv : toECEFv s v = toECEF (Ellipsoid.make a b) ⟨lat, lon, h⟩) (fuel : Nat) (hf : 8 ≤ fuel) :
    ∃ g' : Geo ℝ,
      toWGS84v fuel (Ellipsoid.make (RN.of a) (RN.of b)) (ofS s) (C01.ofV v) = some (C01.ofG g') ∧
      dist3 (toENUgeo (Ellipsoid.make a b) s g').2 v ≤ 1e-3 := by
  have hd := hp.dom
  obtain ⟨φ', h', e, ex, ey, ez⟩ := C01.reverse_composition_real lon hp hl₁ hl₂ fuel hf
  refine ⟨⟨φ', lon, h'⟩, ?_, ?_⟩
  · unfold toWGS84v
    rw [toECEFv_of, hv, ← e, C01.make_of hd.hb hd.hab]
    congr 1
    exact (C01.toECEF_of _ ⟨lat, lon, h⟩ (C01.radicand_pos hd.hb hd.hab lat)).symm
  · simp only [toENUgeo, ha, if_true]
    have h1 : dist3 (toENUv s (toECEF (Ellipsoid.make a b) ⟨φ', lon, h'⟩)) (toENUv s (toECEFv s v)) =
        dist3 (toECEF (Ellipsoid.make a b) ⟨φ', lon, h'⟩) (toECEFv s v) := isometry s alat alon hR _ _
    rw [toENU_toECEF s alat alon hR] at h1
    rw [h1, hv]
    unfold dist3
    simp only [dot, vsub, ex, ey, sub_self, mul_zero, zero_add]
    rw [← sq, Real.sqrt_sq_eq_abs]
    exact ez

/-! ## 4. History: the state after ANY sequence of calls is a function of the anchor bookkeeping alone

Proved for every scalar type `α` (structural: no arithmetic fact is used), hence also at `Float`. -/

section History
variable {α : Type} [Add α] [Sub α] [Mul α] [Div α] [Neg α] [LT α] [DecidableLT α] [NatCast α]
  [OfScientific α] [Trans α]

/-- abstract bookkeeping of a call history: `cur` = the anchor in force (none: un-anchored),
    `stored` = what `getAnchor()` returns (`wgs84Anchor_`; survives `reset`) -/
structure Book (α : Type) where
  cur : Option (Geo α)
  stored : Geo α

def Book.init : Book α := ⟨none, ⟨ENU.zero, ENU.zero, ENU.zero⟩⟩

def Book.step (b : Book α) : Op α → Book α
  | .setAnchor g => ⟨some g, g⟩
  | .reset => ⟨none, b.stored⟩
  | .toENUgeo g => match b.cur with
    | some _ => b
    | none => ⟨some g, g⟩                                           -- auto-anchor
  | .toENUwgs lat lon => match b.cur with
    | some _ => b
    | none => ⟨some ⟨lat, lon, b.stored.alt⟩, ⟨lat, lon, b.stored.alt⟩⟩  -- auto-anchor at the stored altitude
  | .toENUecef _ => b
  | .toECEF _ => b
  | .toWGS84 _ => b

/-- bookkeeping of a whole history, starting from the default-constructed converter -/
def book (ops : List (Op α)) : Book α := ops.foldl Book.step Book.init

/-- the state determined by the bookkeeping: frame of the anchor in force, or the identity -/
def stateOf (E : Ellipsoid α) (b : Book α) : State α :=
  match b.cur with
  | some a => { anchored := true, anchor := b.stored, R := frameR a.lat a.lon, T := toECEF E a }
  | none => { anchored := false, anchor := b.stored, R := Mat3.identity, T := Vec3.origin }

private theorem step_stateOf (fuel : Nat) (E : Ellipsoid α) (b : Book α) (hb : ∀ a, b.cur = some a → b.stored = a)
    (o : Op α) :
    (step fuel E (stateOf E b) o).1 = stateOf E (b.step o) ∧ (∀ a, (b.step o).cur = some a → (b.step o).stored = a) := by
  obtain ⟨cur, stored⟩ := b
  cases o with
  | setAnchor g => exact ⟨rfl, fun a h => by simpa [Book.step] using h⟩
  | reset => cases cur <;> exact ⟨rfl, fun a h => by simp [Book.step] at h⟩
  | toENUecef v => exact ⟨rfl, hb⟩
  | toECEF v => exact ⟨rfl, hb⟩
  | toWGS84 v => exact ⟨rfl, hb⟩
  | toENUgeo g =>
    cases cur with
    | none => exact ⟨rfl, fun a h => by simpa [Book.step] using h⟩
    | some c => exact ⟨rfl, hb⟩
  | toENUwgs lat lon =>
    cases cur with
    | none => exact ⟨rfl, fun a h => by simpa [Book.step] using h⟩
    | some c => exact ⟨rfl, hb⟩

private theorem run_stateOf (fuel : Nat) (E : Ellipsoid α) (ops : List (Op α)) :
    ∀ b : Book α, (∀ a, b.cur = some a → b.stored = a) →
      run fuel E (stateOf E b) ops = stateOf E (ops.foldl Book.step b) ∧
      (∀ a, (ops.foldl Book.step b).cur = some a → (ops.foldl Book.step b).stored = a) := by
  induction ops with
  | nil => intro b hb; exact ⟨rfl, hb⟩
  | cons o os ih =>
    intro b hb
    obtain ⟨h1, h2⟩ := step_stateOf fuel E b hb o
    have := ih (b.step o) h2
    simp only [run, List.foldl_cons] at this ⊢
    rw [h1]; exact this

/-- F4. After ANY sequence of `setAnchor` / `reset` / `toENU` (three overloads) / `toECEF` / `toWGS84` calls on a
    default-constructed converter, the whole state is `stateOf (book ops)`: the anchored flag, the rotation and
    the translation depend on the history only through the anchor in force — `frame(a)` for the LAST anchoring
    event `a` after the last `reset` (nothing of an earlier anchor survives in `R`, `T`), the identity when there
    is none.  (`getAnchor()` is the last anchor ever set; it survives `reset`, see `Book.step`.) -/
theorem history (fuel : Nat) (E : Ellipsoid α) (ops : List (Op α)) :
    run fuel E init ops = stateOf E (book ops) ∧
    (∀ a, (book ops).cur = some a → (book ops).stored = a) := by
  have := run_stateOf fuel E ops Book.init (fun a h => by simp [Book.init] at h)
  exact this

/-- the constructor with an anchor is `setAnchor` on the default-constructed object (ENUConverter.cpp:38-42) -/
theorem history_from_anchor (fuel : Nat) (E : Ellipsoid α) (g : Geo α) (ops : List (Op α)) :
    run fuel E (setAnchor E init g) ops = stateOf E (book (.setAnchor g :: ops)) := by
  have := (history fuel E (.setAnchor g :: ops)).1
  simp only [run, List.foldl_cons] at this ⊢
  exact this

/-- `isAnchored()` after a history ⇔ an anchor is in force -/
theorem anchored_iff (fuel : Nat) (E : Ellipsoid α) (ops : List (Op α)) :
    (run fuel E init ops).anchored = (book ops).cur.isSome := by
  rw [(history fuel E ops).1]
  unfold stateOf
  cases (book ops).cur <;> rfl

omit [Add α] [Sub α] [Mul α] [Div α] [Neg α] [LT α] [DecidableLT α] [OfScientific α] [Trans α] in
private theorem book_snoc (ops : List (Op α)) (o : Op α) : book (ops ++ [o]) = (book ops).step o := by
  simp [book, List.foldl_append]

/-- the last anchor wins: whatever happened before, after `setAnchor g` the transform is the frame of `g` -/
theorem last_anchor_wins (fuel : Nat) (E : Ellipsoid α) (ops : List (Op α)) (g : Geo α) :
    let s := run fuel E init (ops ++ [.setAnchor g])
    s.anchored = true ∧ s.R = frameR g.lat g.lon ∧ s.T = toECEF E g ∧ s.anchor = g := by
  intro s
  have : s = stateOf E ⟨some g, g⟩ := by
    simp only [s]; rw [(history fuel E _).1, book_snoc]; rfl
  rw [this]; exact ⟨rfl, rfl, rfl, rfl⟩

/-- `reset()` returns the converter to the un-anchored state with the identity transform -/
theorem reset_gives_identity (fuel : Nat) (E : Ellipsoid α) (ops : List (Op α)) :
    let s := run fuel E init (ops ++ [.reset])
    s.anchored = false ∧ s.R = Mat3.identity ∧ s.T = Vec3.origin := by
  intro s
  have : s = stateOf E ⟨none, (book ops).stored⟩ := by
    simp only [s]; rw [(history fuel E _).1, book_snoc]; rfl
  rw [this]; exact ⟨rfl, rfl, rfl⟩

/-- an un-anchored converter anchors itself on the first geodetic point it converts … -/
theorem auto_anchor (fuel : Nat) (E : Ellipsoid α) (ops : List (Op α)) (g : Geo α)
    (h : (run fuel E init ops).anchored = false) :
    let s := run fuel E init (ops ++ [.toENUgeo g])
    s.anchored = true ∧ s.R = frameR g.lat g.lon ∧ s.T = toECEF E g ∧ s.anchor = g := by
  intro s
  rw [anchored_iff] at h
  have hc : (book ops).cur = none := by
    cases hc : (book ops).cur with
    | none => rfl
    | some a => rw [hc] at h; simp at h
  have : s = stateOf E ⟨some g, g⟩ := by
    simp only [s]; rw [(history fuel E _).1, book_snoc]
    simp only [Book.step, hc]
  rw [this]; exact ⟨rfl, rfl, rfl, rfl⟩

/-- calls that leave the converter anchored: `setAnchor`, and the two geodetic `toENU` overloads
    (which anchor the converter if it is not) -/
def Op.isAnchoring : Op α → Prop
  | .setAnchor _ => True
  | .toENUgeo _ => True
  | .toENUwgs _ _ => True
  | _ => False

def Op.isReset : Op α → Prop
  | .reset => True
  | _ => False

/-- "a `setAnchor` / auto-anchor happened since the last `reset`" -/
def AnchoredSinceLastReset (ops : List (Op α)) : Prop :=
  ∃ pre o post, ops = pre ++ o :: post ∧ Op.isAnchoring o ∧ ∀ o' ∈ post, ¬ Op.isReset o'

omit [Add α] [Sub α] [Mul α] [Div α] [Neg α] [LT α] [DecidableLT α] [NatCast α] [OfScientific α] [Trans α] in
private theorem since_snoc_other (l : List (Op α)) (o : Op α) (hna : ¬ Op.isAnchoring o) (hnr : ¬ Op.isReset o) :
    AnchoredSinceLastReset (l ++ [o]) ↔ AnchoredSinceLastReset l := by
  constructor
  · rintro ⟨pre, o', post, heq, ha, hp⟩
    rcases List.eq_nil_or_concat post with rfl | ⟨post', x, rfl⟩
    · have := (List.append_inj' heq rfl).2
      simp only [List.cons.injEq, and_true] at this
      rw [← this] at ha; exact absurd ha hna
    · rw [List.concat_eq_append, ← List.cons_append, ← List.append_assoc] at heq
      have := (List.append_inj' heq rfl).1
      refine ⟨pre, o', post', this, ha, fun o'' ho'' => hp o'' ?_⟩
      rw [List.concat_eq_append]; exact List.mem_append_left _ ho''
  · rintro ⟨pre, o', post, rfl, ha, hp⟩
    refine ⟨pre, o', post ++ [o], by simp, ha, ?_⟩
    intro o'' ho''
    rcases List.mem_append.mp ho'' with h | h
    · exact hp o'' h
    · rw [List.mem_singleton.mp h]; exact hnr

/-- F4'. The anchored flag after any history holds iff a `setAnchor` or an (auto-)anchoring `toENU` call
    happened since the last `reset`. -/
theorem anchored_iff_since_last_reset (fuel : Nat) (E : Ellipsoid α) (ops : List (Op α)) :
    (run fuel E init ops).anchored = true ↔ AnchoredSinceLastReset ops := by
  rw [anchored_iff]
  induction ops using List.reverseRecOn with
  | nil =>
    simp only [book, List.foldl_nil, Book.init, Option.isSome_none, Bool.false_eq_true, false_iff]
    rintro ⟨pre, o, post, h, _⟩
    simp at h
  | append_singleton l o ih =>
    rw [book_snoc]
    cases o with
    | setAnchor g =>
      simp only [Book.step, Option.isSome_some, true_iff]
      exact ⟨l, _, [], rfl, trivial, by simp⟩
    | toENUgeo g =>
      have : ((book l).step (.toENUgeo g)).cur.isSome = true := by
        simp only [Book.step]; cases h : (book l).cur <;> simp [h]
      simp only [this, true_iff]
      exact ⟨l, _, [], rfl, trivial, by simp⟩
    | toENUwgs lat lon =>
      have : ((book l).step (.toENUwgs lat lon)).cur.isSome = true := by
        simp only [Book.step]; cases h : (book l).cur <;> simp [h]
      simp only [this, true_iff]
      exact ⟨l, _, [], rfl, trivial, by simp⟩
    | reset =>
      simp only [Book.step, Option.isSome_none, Bool.false_eq_true, false_iff]
      rintro ⟨pre, o', post, heq, ha, hp⟩
      rcases List.eq_nil_or_concat post with rfl | ⟨post', x, rfl⟩
      · have := (List.append_inj' heq rfl).2
        simp only [List.cons.injEq, and_true] at this
        rw [← this] at ha; exact ha
      · rw [List.concat_eq_append, ← List.cons_append, ← List.append_assoc] at heq
        have := (List.append_inj' heq rfl).2
        simp only [List.cons.injEq, and_true] at this
        have hx := hp x (by rw [List.concat_eq_append]; simp)
        rw [← this] at hx; exact hx trivial
    | toENUecef v =>
      rw [since_snoc_other l (.toENUecef v) (by simp [Op.isAnchoring]) (by simp [Op.isReset])]; exact ih
    | toECEF v =>
      rw [since_snoc_other l (.toECEF v) (by simp [Op.isAnchoring]) (by simp [Op.isReset])]; exact ih
    | toWGS84 v =>
      rw [since_snoc_other l (.toWGS84 v) (by simp [Op.isAnchoring]) (by simp [Op.isReset])]; exact ih

end History

/-- … and (over ℝ) that first point maps to the origin. -/
theorem auto_anchor_maps_to_origin (fuel : Nat) (E : Ellipsoid ℝ) (ops : List (Op ℝ)) (g : Geo ℝ)
    (h : (run fuel E init ops).anchored = false) :
    (step fuel E (run fuel E init ops) (.toENUgeo g)).2 = .vec ⟨0, 0, 0⟩ := by
  simp only [step, toENUgeo, h, Bool.false_eq_true, if_false]
  rw [anchor_to_origin]

/-- the same through the `WGS84Coordinates` overload: the altitude is taken from the stored anchor, and the
    point (at that altitude) maps to the origin -/
theorem auto_anchor_wgs_maps_to_origin (fuel : Nat) (E : Ellipsoid ℝ) (ops : List (Op ℝ)) (lat lon : ℝ)
    (h : (run fuel E init ops).anchored = false) :
    (step fuel E (run fuel E init ops) (.toENUwgs lat lon)).2 = .vec ⟨0, 0, 0⟩ := by
  simp only [step, toENUwgs, toENUgeo, h, Bool.false_eq_true, if_false]
  rw [anchor_to_origin]

/-! ## Non-vacuity: concrete instances -/

/-- a concrete anchored state satisfies the hypothesis `s.R = frameR lat lon` of the theorems above -/
example : (setAnchor (grs80 : Ellipsoid ℝ) init ⟨0.8, 0.05, 400⟩).R = frameR 0.8 0.05 := rfl
/-- the frame at latitude 0, longitude 0: east = +y, north = +z, up = +x -/
example : frameR (0 : ℝ) 0 = ⟨0, 0, 1, 1, 0, 0, 0, 1, 0⟩ := by
  simp [frameR_entries]
/-- a history with two anchors and a reset: the bookkeeping ends at the second anchor's successor -/
example (g₁ g₂ g₃ : Geo ℝ) :
    (book [.setAnchor g₁, .toENUgeo g₂, .reset, .toENUgeo g₃, .setAnchor g₂, .toENUecef ⟨1, 2, 3⟩]).cur = some g₂ := rfl
example (g₁ g₃ : Geo ℝ) : (book [.setAnchor g₁, .reset, .toENUwgs g₃.lat g₃.lon]).cur = some ⟨g₃.lat, g₃.lon, g₁.alt⟩ := rfl
example (g : Geo ℝ) : AnchoredSinceLastReset [Op.reset, .toENUgeo g, .toECEF ⟨0, 0, 0⟩] :=
  ⟨[.reset], .toENUgeo g, [.toECEF ⟨0, 0, 0⟩], rfl, trivial, by simp [Op.isReset]⟩

end Romea.C02
