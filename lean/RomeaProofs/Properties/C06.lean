import RomeaModel.Ransac
import RomeaModel.Sampler
import RomeaProofs.RealInst
import RomeaProofs.Lemmas.C06Sampler
import RomeaModel.RansacSampled
import RomeaProofs.Lemmas.C06Composed
import Mathlib.Tactic.Linarith
import Mathlib.Tactic.NormNum
import Mathlib.Analysis.Real.Sqrt

/-!
# C06 — ICP + RANSAC: control skeleton and bookkeeping (partial)

What is proved here is about the model `RomeaModel/Ransac.lean`: the adaptive iteration bound, the RANSAC loop over
an arbitrary `RansacModel`, the consensus bookkeeping of the rigid-transformation model, the ICP one-to-one filter
and the ICP outer loop — and, in the last section, about `RomeaModel/Sampler.lean`: the random engine, `generate_canonical`,
the cumulative weights, the lower-bound search and the weight update of `RansacRandomCorrespondences`; the section after it is about
`RomeaModel/RansacSampled.lean`, the skeleton with that sampler as its draw oracle.  All other geometry
(candidate transformations, errors, nearest neighbours) is universally quantified (oracle outputs).  Scalars are `ℝ` (exact values of
the doubles); the only partial operation on these paths is `sum / n` with `n = 0`, which the `n ≥ minimal inliers`
guard excludes (`minInlOf dim > 0`), so Mathlib's totalised division is harmless — stated where it matters.

NOT proved (stated only, see the end of the file): the headline claim of the property — error ≤ 0.015 for every
displacement in the envelope on `scan2d.txt`, outliers never win the consensus.  That is probed on the real code by
`tools/props/c06.py`.
-/
namespace Romea.C06
open Romea.Ransac Romea.Generated

/-! ## Literal thresholds (regenerated from the sources on every run) -/

/-- the literal thresholds named in the property, as the sources have them now: ICP iteration cap 10 and
    epsilon 0.001, inlier threshold factor 9 (= 3²), draw sizes 3 / 4, minimal inliers 2 × draw size,
    fitting probability 0.99f, RANSAC iteration cap 1000 -/
theorem constants_pinned :
    C06.icpMaxIterations = 10 ∧ (C06.icpEpsilonMantissa, C06.icpEpsilonExponent) = (1, 3) ∧
    C06.inlierFactor = 9 ∧ C06.drawPoints2D = 3 ∧ C06.drawPoints3D = 4 ∧ C06.minimalInliersFactor = 2 ∧
    (C06.fittingProbabilityMantissa, C06.fittingProbabilityExponent, C06.fittingProbabilityIsFloat) = (99, 2, true) ∧
    C06.ransacMaxIterations = 1000 := by decide

/-! ## The adaptive iteration bound never increases and never exceeds the cap -/

private theorem stdMin_le_left (a b : ℝ) : stdMin a b ≤ a := by
  unfold stdMin; split_ifs with h <;> linarith

/-- one `update` never increases the bound -/
theorem iteration_bound_update_le (eps : ℝ) (it : Iterations ℝ) (nInl nDraw : Nat) :
    (it.update eps nInl nDraw).n ≤ it.n := by
  simp only [Iterations.update]; exact stdMin_le_left _ _

/-- after ANY sequence of updates the bound is at most the cap it was constructed with, and every prefix of the
    sequence gives a bound at least as large as the whole (monotone non-increasing) -/
theorem iteration_bound_monotone (eps p : ℝ) (nPts cap : Nat) (ups more : List (Nat × Nat)) :
    let run := fun (l : List (Nat × Nat)) =>
      l.foldl (fun it u => it.update eps u.1 u.2) (Iterations.init p nPts cap)
    (run (ups ++ more)).n ≤ (run ups).n ∧ (run ups).n ≤ (cap : ℝ) := by
  intro run
  have key : ∀ (l : List (Nat × Nat)) (it : Iterations ℝ),
      (l.foldl (fun it u => it.update eps u.1 u.2) it).n ≤ it.n := by
    intro l
    induction l with
    | nil => intro it; exact le_refl _
    | cons u us ih =>
      intro it
      simp only [List.foldl_cons]
      exact le_trans (ih _) (iteration_bound_update_le eps it u.1 u.2)
  constructor
  · simp only [run, List.foldl_append]; exact key more _
  · exact key ups _

/-! ## `Ransac::estimateModel` over an arbitrary model -/

section Loop
variable {S : Type}

private theorem body_spec (ops : ModelOps S) (eps : ℝ) (nDraw : Nat) (r : Run S ℝ) :
    (body ops eps nDraw r).iteration = r.iteration + 1 ∧ (body ops eps nDraw r).it.n ≤ r.it.n := by
  simp only [body]
  split_ifs <;> simp [iteration_bound_update_le]

/-- the bound seen by the `while` test never increases from one pass to the next -/
theorem loop_bound_le (ops : ModelOps S) (eps : ℝ) (nDraw fuel : Nat) (r : Run S ℝ) :
    (loop ops eps nDraw fuel r).it.n ≤ r.it.n := by
  induction fuel generalizing r with
  | zero => simp [loop]
  | succ k ih =>
    unfold loop
    split_ifs
    · exact le_trans (ih _) (body_spec ops eps nDraw r).2
    · simp

private theorem loop_exits (ops : ModelOps S) (eps : ℝ) (nDraw cap fuel : Nat) (r : Run S ℝ)
    (hn : r.it.n ≤ (cap : ℝ)) (hi : r.iteration ≤ cap) (hf : cap + 1 ≤ fuel + r.iteration) :
    (loop ops eps nDraw fuel r).exited = true ∧ (loop ops eps nDraw fuel r).iteration ≤ cap := by
  induction fuel generalizing r with
  | zero => omega
  | succ k ih =>
    unfold loop
    split_ifs with h
    · have hb := body_spec ops eps nDraw r
      have hlt : (r.iteration : ℝ) < (cap : ℝ) := lt_of_lt_of_le h hn
      have hlt' : r.iteration < cap := by exact_mod_cast hlt
      apply ih
      · exact le_trans hb.2 hn
      · rw [hb.1]; omega
      · rw [hb.1]; omega
    · exact ⟨rfl, hi⟩

/-- the RANSAC loop terminates by its own exit test within the cap (`diverged = false`), uses at most `cap`
    iterations, and reports a bound that is at most the cap -/
theorem estimateModel_terminates (ops : ModelOps S) (p eps : ℝ) (cap : Nat) (s : S) :
    (estimateModel ops p eps cap s).diverged = false ∧ (estimateModel ops p eps cap s).iterations ≤ cap ∧
    (estimateModel ops p eps cap s).bound ≤ (cap : ℝ) := by
  unfold estimateModel
  simp only
  split_ifs with h1 h2
  · simp
  all_goals
    have hx := loop_exits ops eps (ops.nDraw s) cap (cap + 1)
      { s := s, iteration := 0, best := 0, it := Iterations.init p (ops.nPts s) cap, exited := false }
      (by simp [Iterations.init]) (by simp) (by simp)
    have hb := loop_bound_le ops eps (ops.nDraw s) (cap + 1)
      { s := s, iteration := 0, best := 0, it := Iterations.init p (ops.nPts s) cap, exited := false }
    refine ⟨by simp [hx.1], hx.2, hb⟩

end Loop


/-! ## Consensus bookkeeping of the rigid-transformation model -/

private theorem uniqAux_subset {β : Type} (eq : β → β → Bool) (last : β) (l : List β) :
    ∀ x ∈ uniqAux eq last l, x ∈ l := by
  induction l generalizing last with
  | nil => simp [uniqAux]
  | cons y ys ih =>
    intro x hx
    simp only [uniqAux] at hx
    split_ifs at hx
    · exact List.mem_cons_of_mem _ (ih _ x hx)
    · rcases List.mem_cons.mp hx with rfl | h
      · exact List.mem_cons_self
      · exact List.mem_cons_of_mem _ (ih _ x h)

private theorem uniq_subset {β : Type} (eq : β → β → Bool) (l : List β) : ∀ x ∈ uniq eq l, x ∈ l := by
  cases l with
  | nil => simp [uniq]
  | cons y ys =>
    intro x hx
    simp only [uniq] at hx
    rcases List.mem_cons.mp hx with rfl | h
    · exact List.mem_cons_self
    · exact List.mem_cons_of_mem _ (uniqAux_subset eq _ ys x h)

private theorem uniqAux_length_le {β : Type} (eq : β → β → Bool) (last : β) (l : List β) :
    (uniqAux eq last l).length ≤ l.length := by
  induction l generalizing last with
  | nil => simp [uniqAux]
  | cons y ys ih =>
    simp only [uniqAux]
    split_ifs
    · exact le_trans (ih _) (by simp)
    · simp only [List.length_cons]; exact Nat.succ_le_succ (ih _)

private theorem uniq_length_le {β : Type} (eq : β → β → Bool) (l : List β) : (uniq eq l).length ≤ l.length := by
  cases l with
  | nil => simp [uniq]
  | cons y ys => simp only [uniq, List.length_cons]; exact Nat.succ_le_succ (uniqAux_length_le eq y ys)

/-- the discarded-result `std::unique` keeps the vector's length and only ever holds elements it held before -/
theorem uniqueInPlace_spec {β : Type} (eq : β → β → Bool) (l : List β) :
    (uniqueInPlace eq l).length = l.length ∧ ∀ x ∈ uniqueInPlace eq l, x ∈ l := by
  unfold uniqueInPlace
  constructor
  · have := uniq_length_le eq l
    simp only [List.length_append, List.length_drop]; omega
  · intro x hx
    rcases List.mem_append.mp hx with h | h
    · exact uniq_subset eq l x h
    · exact List.mem_of_mem_drop h

private theorem inliers_spec (cast : ℝ → ℝ) (sorted : List (Corr ℝ)) (errs : List ℝ) (σ : ℝ) :
    (∀ c ∈ inliers cast sorted errs σ, c.d < cast ((C06.inlierFactor : ℝ) * σ * σ)) ∧
    (inliers cast sorted errs σ).length ≤ sorted.length := by
  unfold inliers
  constructor
  · intro c hc
    simp only [List.mem_filterMap] at hc
    obtain ⟨ce, _, h⟩ := hc
    split_ifs at h with hlt
    simp only [Option.some.injEq] at h
    rw [← h]; exact hlt
  · refine le_trans (List.length_filterMap_le _ _) ?_
    simp only [List.length_zip]; exact Nat.min_le_left _ _

/-- one call of `countInliers`: every member of the stored best set was already there or has squared error below
    the threshold under the current candidate; the best set never shrinks; the returned count is its size; it is only
    replaced by a set with at least the minimal number of inliers and RMSE below σ -/
theorem countInliers_spec (cast : ℝ → ℝ) (minInl : Nat) (sorted : List (Corr ℝ)) (errs : List ℝ) (σ : ℝ)
    (st : Consensus ℝ) :
    let r := countInliers cast minInl sorted errs σ st
    (∀ c ∈ r.1.best, c ∈ st.best ∨ c.d < cast ((C06.inlierFactor : ℝ) * σ * σ)) ∧
    st.best.length ≤ r.1.best.length ∧ r.2.1 = r.1.best.length ∧
    (r.1 = st ∨ (minInl ≤ r.1.best.length ∧ r.1.bestRmse < σ ∧ r.1.best.length ≤ sorted.length)) := by
  intro r
  have hu := uniqueInPlace_spec (eqTgt (α := ℝ)) (inliers cast sorted errs σ)
  have hi := inliers_spec cast sorted errs σ
  simp only [r, countInliers]
  split_ifs with h1 h2
  · refine ⟨?_, ?_, trivial, Or.inr ⟨h1.1, h1.2, ?_⟩⟩
    · intro c hc; exact Or.inr (hi.1 c (hu.2 c hc))
    · rcases h2 with h | h
      · exact le_of_lt h
      · exact le_of_eq h.1.symm
    · rw [hu.1]; exact hi.2
  · exact ⟨fun c hc => Or.inl hc, le_refl _, trivial, Or.inl rfl⟩
  · exact ⟨fun c hc => Or.inl hc, le_refl _, trivial, Or.inl rfl⟩

/-- **inliers_within_3sigma** — after ANY sequence of candidates (each with its own sorted correspondences and
    error vector) evaluated by `countInliers` since `loadCorrespondences` cleared the bookkeeping, every member of
    the stored best set (the set `refine()` refits on) has squared error `< 9σ²` under the candidate that selected
    it (the error stored with the member).  A correspondence whose error is `≥ 9σ²` (displaced by ≥ 3σ from the
    candidate) is therefore never part of the refit. -/
theorem inliers_within_3sigma (cast : ℝ → ℝ) (minInl : Nat) (σ maxVal : ℝ)
    (cands : List (List (Corr ℝ) × List ℝ)) :
    let st := cands.foldl (fun st c => (countInliers cast minInl c.1 c.2 σ st).1) (Consensus.cleared maxVal)
    ∀ c ∈ st.best, c.d < cast ((C06.inlierFactor : ℝ) * σ * σ) := by
  intro st
  have key : ∀ (l : List (List (Corr ℝ) × List ℝ)) (s0 : Consensus ℝ),
      (∀ c ∈ s0.best, c.d < cast ((C06.inlierFactor : ℝ) * σ * σ)) →
      ∀ c ∈ (l.foldl (fun st c => (countInliers cast minInl c.1 c.2 σ st).1) s0).best,
        c.d < cast ((C06.inlierFactor : ℝ) * σ * σ) := by
    intro l
    induction l with
    | nil => intro s0 h; exact h
    | cons x xs ih =>
      intro s0 h
      simp only [List.foldl_cons]
      apply ih
      intro c hc
      rcases (countInliers_spec cast minInl x.1 x.2 σ s0).1 c hc with h' | h'
      · exact h c h'
      · exact h'
  exact key cands _ (by simp [Consensus.cleared])

/-- in distances rather than squared distances (double point types: `cast = id`): every member of the refit set is
    closer than `3σ` to its target under the selecting candidate -/
theorem inliers_within_3sigma_dist (minInl : Nat) (σ maxVal : ℝ) (hσ : 0 < σ)
    (cands : List (List (Corr ℝ) × List ℝ)) :
    let st := cands.foldl (fun st c => (countInliers id minInl c.1 c.2 σ st).1) (Consensus.cleared maxVal)
    ∀ c ∈ st.best, Real.sqrt c.d < 3 * σ := by
  intro st c hc
  have h := inliers_within_3sigma id minInl σ maxVal cands c hc
  have h9 : ((C06.inlierFactor : ℕ) : ℝ) = 9 := by norm_num [C06.inlierFactor]
  simp only [id, h9] at h
  have h3 : (0:ℝ) ≤ 3 * σ := by linarith
  rw [Real.sqrt_lt' (by linarith)]
  nlinarith


/-! ## `estimateModel` over the rigid-transformation model: success implies consensus -/

/-- the parts of the rigid model's state the RANSAC loop never touches -/
private def Same (s0 s : Rigid ℝ) : Prop := s.dim = s0.dim ∧ s.σ = s0.σ ∧ s.sorted = s0.sorted

/-- invariant of the stored consensus: empty, or at least the minimal number of inliers with RMSE below σ; all
    members within the threshold; not larger than the correspondence list -/
private def Good (cast : ℝ → ℝ) (s : Rigid ℝ) : Prop :=
  (s.cons.best = [] ∨ (minInlOf s.dim ≤ s.cons.best.length ∧ s.cons.bestRmse < s.σ)) ∧
  (∀ c ∈ s.cons.best, c.d < cast ((C06.inlierFactor : ℝ) * s.σ * s.σ)) ∧
  s.cons.best.length ≤ s.sorted.length

private theorem f32round_small (n : Nat) (h : n < 2 ^ 24) : f32round n = n := by
  unfold f32round; rw [if_pos h]

private theorem rigid_draw (cast : ℝ → ℝ) (s0 s : Rigid ℝ) (h : Same s0 s) (hg : Good cast s) :
    Same s0 ((rigidOps cast).draw s).1 ∧ Good cast ((rigidOps cast).draw s).1 ∧
    ((rigidOps cast).draw s).1.cons = s.cons := by
  simp only [rigidOps]
  cases s.todo <;> exact ⟨h, hg, rfl⟩

private theorem rigid_count (cast : ℝ → ℝ) (s0 s : Rigid ℝ) (h : Same s0 s) (hg : Good cast s) :
    Same s0 ((rigidOps cast).count s).1 ∧ Good cast ((rigidOps cast).count s).1 ∧
    s.cons.best.length ≤ ((rigidOps cast).count s).1.cons.best.length ∧
    ((rigidOps cast).count s).2 = ((rigidOps cast).count s).1.cons.best.length := by
  have hs := countInliers_spec cast (minInlOf s.dim) s.sorted s.current s.σ s.cons
  simp only at hs
  obtain ⟨h1, h2, _, h4⟩ := hs
  simp only [rigidOps]
  refine ⟨h, ⟨?_, ?_, ?_⟩, h2, rfl⟩
  · rcases h4 with h4 | h4
    · simp only [h4]; exact hg.1
    · exact Or.inr ⟨h4.1, h4.2.1⟩
  · intro c hc
    rcases h1 c hc with h' | h'
    · exact hg.2.1 c h'
    · exact h'
  · rcases h4 with h4 | h4
    · simp only [h4]; exact hg.2.2
    · exact h4.2.2

/-- invariant of the RANSAC loop run on the rigid model -/
private def RInv (cast : ℝ → ℝ) (s0 : Rigid ℝ) (r : Run (Rigid ℝ) ℝ) : Prop :=
  Same s0 r.s ∧ Good cast r.s ∧ r.best ≤ r.s.cons.best.length

private theorem body_inv (cast : ℝ → ℝ) (eps : ℝ) (nDraw : Nat) (s0 : Rigid ℝ) (hsz : s0.sorted.length < 2 ^ 24)
    (r : Run (Rigid ℝ) ℝ) (h : RInv cast s0 r) : RInv cast s0 (body (rigidOps cast) eps nDraw r) := by
  obtain ⟨hs, hg, hb⟩ := h
  obtain ⟨d1, d2, d3⟩ := rigid_draw cast s0 r.s hs hg
  obtain ⟨c1, c2, c3, c4⟩ := rigid_count cast s0 _ d1 d2
  simp only [body]
  split_ifs with hd himp
  · refine ⟨c1, c2, ?_⟩
    simp only
    rw [c4]
    have : ((rigidOps cast).count ((rigidOps cast).draw r.s).1).1.cons.best.length < 2 ^ 24 := by
      have := c2.2.2; rw [c1.2.2] at this; omega
    rw [f32round_small _ this]
  · refine ⟨c1, c2, ?_⟩
    simp only
    rw [d3] at c3; omega
  · refine ⟨d1, d2, ?_⟩
    simp only
    rw [d3]; exact hb

private theorem loop_inv (cast : ℝ → ℝ) (eps : ℝ) (nDraw : Nat) (s0 : Rigid ℝ) (hsz : s0.sorted.length < 2 ^ 24)
    (fuel : Nat) (r : Run (Rigid ℝ) ℝ) (h : RInv cast s0 r) :
    RInv cast s0 (loop (rigidOps cast) eps nDraw fuel r) := by
  induction fuel generalizing r with
  | zero => simpa [loop, RInv] using h
  | succ k ih =>
    unfold loop
    split_ifs
    · exact ih _ (body_inv cast eps nDraw s0 hsz r h)
    · simpa [RInv] using h

/-- **success_implies_consensus** — `Ransac::estimateModel` run on the rigid-transformation model (whatever the
    sampler draws and whatever errors the candidates produce: `s.todo` is arbitrary), started right after
    `loadCorrespondences` (empty best set), with fewer than 2^24 correspondences: if it returns `true` then the
    stored best consensus set has MORE than the draw size and AT LEAST twice the draw size members, the reported
    RMSE is below σ, and every member has squared error below 9σ² under the candidate that selected it. -/
theorem success_implies_consensus (cast : ℝ → ℝ) (p eps : ℝ) (cap : Nat) (s : Rigid ℝ)
    (hclr : s.cons.best = []) (hsz : s.sorted.length < 2 ^ 24) :
    let r := estimateModel (rigidOps cast) p eps cap s
    r.ret = true →
      nDrawOf s.dim < r.s.cons.best.length ∧ 2 * nDrawOf s.dim ≤ r.s.cons.best.length ∧
      r.s.cons.bestRmse < s.σ ∧ ∀ c ∈ r.s.cons.best, c.d < cast ((C06.inlierFactor : ℝ) * s.σ * s.σ) := by
  intro r hret
  have h0 : RInv cast s ⟨s, 0, 0, Iterations.init p ((rigidOps cast).nPts s) cap, false⟩ := by
    refine ⟨⟨rfl, rfl, rfl⟩, ⟨Or.inl hclr, ?_, ?_⟩, Nat.zero_le _⟩
    · simp [hclr]
    · simp [hclr]
  have hl := loop_inv cast eps ((rigidOps cast).nDraw s) s hsz (cap + 1) _ h0
  simp only [r, estimateModel] at hret ⊢
  split_ifs at hret ⊢ with h1 h2
  obtain ⟨hs, hg, hb⟩ := hl
  have hn : (rigidOps cast).nDraw s = nDrawOf s.dim := rfl
  have hrf : ∀ t : Rigid ℝ, ((rigidOps cast).refine t).cons = t.cons := fun _ => rfl
  simp only [hrf]
  rw [hn] at h2 hb hs hg
  have hlen : nDrawOf s.dim < _ := lt_of_lt_of_le (not_le.mp h2) hb
  refine ⟨hlen, ?_, ?_, ?_⟩
  · rcases hg.1 with he | he
    · rw [he] at hlen; simp at hlen
    · have := he.1; rw [hs.1] at this
      have h2' : minInlOf s.dim = 2 * nDrawOf s.dim := by simp [minInlOf, C06.minimalInliersFactor]
      rw [h2'] at this; exact this
  · rcases hg.1 with he | he
    · rw [he] at hlen; simp at hlen
    · rw [← hs.2.1]; exact he.2
  · intro c hc; have := hg.2.1 c hc; rw [hs.2.1] at this; exact this


/-! ## ICP: the one-to-one filter -/

/-- `a` may stand before `b` in a list sorted by (source index, distance) -/
private def leSrc (a b : Corr ℝ) : Prop := a.src ≤ b.src ∧ (a.src = b.src → a.d ≤ b.d)

private theorem not_ltSrc_iff (a b : Corr ℝ) : (!ltSrc b a) = true ↔ leSrc a b := by
  unfold ltSrc leSrc
  by_cases h1 : b.src < a.src
  · rw [if_pos h1]
    constructor
    · intro h; simp at h
    · intro h; omega
  · rw [if_neg h1]
    by_cases h2 : b.src = a.src ∧ b.d < a.d
    · rw [if_pos h2]
      constructor
      · intro h; simp at h
      · intro h; exact absurd (h.2 h2.1.symm) (not_le.mpr h2.2)
    · rw [if_neg h2]
      constructor
      · intro _
        refine ⟨by omega, fun e => ?_⟩
        by_contra hc
        exact h2 ⟨e.symm, not_le.mp hc⟩
      · intro _; rfl

private theorem sorted_sortBy (l : List (Corr ℝ)) : (sortBy ltSrc l).Pairwise leSrc := by
  have h := List.pairwise_mergeSort (le := fun a b : Corr ℝ => !ltSrc b a)
    (by
      intro a b c hab hbc
      rw [not_ltSrc_iff] at hab hbc ⊢
      refine ⟨le_trans hab.1 hbc.1, fun hac => ?_⟩
      have e1 : a.src = b.src := by have := hab.1; have := hbc.1; omega
      have e2 : b.src = c.src := by omega
      exact le_trans (hab.2 e1) (hbc.2 e2))
    (by
      intro a b
      simp only [Bool.or_eq_true]
      rw [not_ltSrc_iff, not_ltSrc_iff]
      unfold leSrc
      rcases lt_trichotomy a.src b.src with h | h | h
      · left; exact ⟨le_of_lt h, fun e => by omega⟩
      · rcases le_total a.d b.d with hd | hd
        · left; exact ⟨le_of_eq h, fun _ => hd⟩
        · right; exact ⟨le_of_eq h.symm, fun _ => hd⟩
      · right; exact ⟨le_of_lt h, fun e => by omega⟩) l
  unfold sortBy
  exact h.imp (fun {a b} hab => (not_ltSrc_iff a b).mp hab)

private theorem uniqAux_sorted (last : Corr ℝ) (xs : List (Corr ℝ)) (h : (last :: xs).Pairwise leSrc) :
    (∀ c ∈ uniqAux eqSrc last xs, c ∈ xs ∧ last.src < c.src) ∧
    ((uniqAux eqSrc last xs).map (·.src)).Pairwise (· < ·) ∧
    (∀ c ∈ uniqAux eqSrc last xs, ∀ c' ∈ xs, c'.src = c.src → c.d ≤ c'.d) ∧
    (∀ c' ∈ xs, c'.src = last.src ∨ ∃ c ∈ uniqAux eqSrc last xs, c.src = c'.src) := by
  induction xs generalizing last with
  | nil => simp [uniqAux]
  | cons x xs ih =>
    have hlx : leSrc last x := (List.pairwise_cons.mp h).1 x List.mem_cons_self
    have htail : (x :: xs).Pairwise leSrc := (List.pairwise_cons.mp h).2
    have hlast : (last :: xs).Pairwise leSrc := by
      refine List.pairwise_cons.mpr ⟨fun y hy => (List.pairwise_cons.mp h).1 y (List.mem_cons_of_mem _ hy), ?_⟩
      exact (List.pairwise_cons.mp htail).2
    simp only [uniqAux, eqSrc, beq_iff_eq]
    split_ifs with he
    · obtain ⟨a, b, c, d⟩ := ih last hlast
      refine ⟨fun c' hc' => ⟨List.mem_cons_of_mem _ (a c' hc').1, (a c' hc').2⟩, b, ?_, ?_⟩
      · intro k hk c' hc' hs
        rcases List.mem_cons.mp hc' with rfl | hc'
        · have := (a k hk).2; omega
        · exact c k hk c' hc' hs
      · intro c' hc'
        rcases List.mem_cons.mp hc' with rfl | hc'
        · left; exact he.symm
        · exact d c' hc'
    · have hlt : last.src < x.src := lt_of_le_of_ne hlx.1 he
      obtain ⟨a, b, c, d⟩ := ih x htail
      refine ⟨?_, ?_, ?_, ?_⟩
      · intro k hk
        rcases List.mem_cons.mp hk with rfl | hk
        · exact ⟨List.mem_cons_self, hlt⟩
        · exact ⟨List.mem_cons_of_mem _ (a k hk).1, lt_trans hlt (a k hk).2⟩
      · simp only [List.map_cons, List.pairwise_cons]
        refine ⟨?_, b⟩
        intro v hv
        obtain ⟨k, hk, rfl⟩ := List.mem_map.mp hv
        exact (a k hk).2
      · intro k hk c' hc' hs
        rcases List.mem_cons.mp hk with rfl | hk
        · rcases List.mem_cons.mp hc' with rfl | hc'
          · exact le_refl _
          · exact ((List.pairwise_cons.mp htail).1 c' hc').2 hs.symm
        · rcases List.mem_cons.mp hc' with rfl | hc'
          · have := (a k hk).2; omega
          · exact c k hk c' hc' hs
      · intro c' hc'
        rcases List.mem_cons.mp hc' with rfl | hc'
        · right; exact ⟨c', List.mem_cons_self, rfl⟩
        · rcases d c' hc' with e | ⟨k, hk, e⟩
          · right; exact ⟨x, List.mem_cons_self, e.symm⟩
          · right; exact ⟨k, List.mem_cons_of_mem _ hk, e⟩

/-- **one_to_one** — after the ICP correspondence filter (sort by (source, distance), unique by source) no source
    index repeats (the kept source indices are strictly increasing), every kept pair is one of the input pairs and
    is a closest one among all input pairs with the same source index, and no matched source index is lost. -/
theorem one_to_one (l : List (Corr ℝ)) :
    ((oneToOne l).map (·.src)).Pairwise (· < ·) ∧
    (∀ c ∈ oneToOne l, c ∈ l ∧ ∀ c' ∈ l, c'.src = c.src → c.d ≤ c'.d) ∧
    (∀ c' ∈ l, ∃ c ∈ oneToOne l, c.src = c'.src) := by
  have hs := sorted_sortBy l
  have hmem : ∀ c, c ∈ sortBy ltSrc l ↔ c ∈ l := fun c => by unfold sortBy; exact List.mem_mergeSort
  unfold oneToOne
  generalize sortBy ltSrc l = sl at hs hmem
  cases sl with
  | nil =>
    simp only [uniq, List.map_nil, List.Pairwise.nil, List.not_mem_nil, false_and, true_and]
    refine ⟨fun c hc => absurd hc (by simp), fun c' hc' => absurd ((hmem c').mpr hc') (by simp)⟩
  | cons x xs =>
    obtain ⟨a, b, c, d⟩ := uniqAux_sorted x xs hs
    simp only [uniq]
    refine ⟨?_, ?_, ?_⟩
    · simp only [List.map_cons, List.pairwise_cons]
      refine ⟨?_, b⟩
      intro v hv
      obtain ⟨k, hk, rfl⟩ := List.mem_map.mp hv
      exact (a k hk).2
    · intro k hk
      rcases List.mem_cons.mp hk with rfl | hk
      · refine ⟨(hmem k).mp List.mem_cons_self, fun c' hc' hsrc => ?_⟩
        rcases List.mem_cons.mp ((hmem c').mpr hc') with rfl | hc'
        · exact le_refl _
        · exact ((List.pairwise_cons.mp hs).1 c' hc').2 hsrc.symm
      · refine ⟨(hmem k).mp (List.mem_cons_of_mem _ (a k hk).1), fun c' hc' hsrc => ?_⟩
        rcases List.mem_cons.mp ((hmem c').mpr hc') with rfl | hc'
        · have := (a k hk).2; omega
        · exact c k hk c' hc' hsrc
    · intro c' hc'
      rcases List.mem_cons.mp ((hmem c').mpr hc') with rfl | hc'
      · exact ⟨c', List.mem_cons_self, rfl⟩
      · rcases d c' hc' with e | ⟨k, hk, e⟩
        · exact ⟨x, List.mem_cons_self, e.symm⟩
        · exact ⟨k, List.mem_cons_of_mem _ hk, e⟩

/-- in particular the kept source indices are pairwise distinct -/
theorem one_to_one_nodup (l : List (Corr ℝ)) : ((oneToOne l).map (·.src)).Nodup :=
  (one_to_one l).1.imp (fun h => Nat.ne_of_lt h)


/-! ## ICP: the outer loop and its return flag -/

/-- `previousEstimatedTransformation` at the start of iteration `i`: the transformation of the last iteration
    before `i` whose RANSAC estimate succeeded, `p` (the identity) if there is none -/
def prevBefore (p : List ℝ) : List (IcpStep ℝ) → Nat → List ℝ
  | _, 0 => p
  | [], _ + 1 => p
  | st :: rest, i + 1 => prevBefore (if st.est then st.T else p) rest i

/-- iteration `i` meets the convergence test: its RANSAC estimate succeeded and the entry-wise L1 difference to the
    previous successful estimate is below ε -/
def BreakAt (eps : ℝ) (p : List ℝ) (steps : List (IcpStep ℝ)) (i : Nat) : Prop :=
  ∃ st, steps[i]? = some st ∧ st.est = true ∧ absDiffSum st.T (prevBefore p steps i) < eps

private theorem icpIter_cases (eps : ℝ) (s : IcpState ℝ) (st : IcpStep ℝ) :
    ((icpIter eps s st).broke = true ∧ (icpIter eps s st).n = s.n ∧ st.est = true ∧ absDiffSum st.T s.prev < eps) ∨
    ((icpIter eps s st).broke = false ∧ (icpIter eps s st).n = s.n + 1 ∧
      (icpIter eps s st).prev = (if st.est then st.T else s.prev) ∧
      ¬ (st.est = true ∧ absDiffSum st.T s.prev < eps)) ∨
    (s.broke = true) := by
  by_cases hb : s.broke = true
  · exact Or.inr (Or.inr hb)
  · have hb' : s.broke = false := by simpa using hb
    by_cases h1 : st.est = true
    · by_cases h2 : absDiffSum st.T s.prev < eps
      · exact Or.inl ⟨by simp [icpIter, h1, h2], by simp [icpIter, h1, h2], h1, h2⟩
      · exact Or.inr (Or.inl ⟨by simp [icpIter, h1, h2], by simp [icpIter, h1, h2], by simp [icpIter, h1, h2],
          fun h => h2 h.2⟩)
    · exact Or.inr (Or.inl ⟨by simp [icpIter, h1, hb'], by simp [icpIter, h1], by simp [icpIter, h1],
        fun h => h1 h.1⟩)

private theorem icpRun_succ (eps : ℝ) (k : Nat) (s : IcpState ℝ) (steps : List (IcpStep ℝ)) :
    icpRun eps (k + 1) s steps =
      if (icpIter eps s (steps.headD failedStep)).broke then icpIter eps s (steps.headD failedStep)
      else icpRun eps k (icpIter eps s (steps.headD failedStep)) steps.tail := rfl

private theorem icpRun_spec (eps : ℝ) (k : Nat) (s : IcpState ℝ) (steps : List (IcpStep ℝ)) (hs : s.broke = false) :
    let r := icpRun eps k s steps
    (r.broke = true → r.n < s.n + k) ∧ (r.broke = false → r.n = s.n + k) ∧
    (r.broke = true ↔ ∃ i, i < k ∧ BreakAt eps s.prev steps i) := by
  induction k generalizing s steps with
  | zero => simp [icpRun, hs]
  | succ k ih =>
    intro r
    simp only [r, icpRun_succ]
    have hfail : (failedStep : IcpStep ℝ).est = false := rfl
    rcases icpIter_cases eps s (steps.headD failedStep) with h | h | h
    · -- break at this iteration
      obtain ⟨h1, h2, h3, h4⟩ := h
      rw [if_pos h1]
      refine ⟨fun _ => by omega, fun hc => by rw [h1] at hc; exact absurd hc (by simp), ?_⟩
      refine ⟨fun _ => ⟨0, Nat.succ_pos _, ?_⟩, fun _ => h1⟩
      cases steps with
      | nil => simp [hfail] at h3
      | cons st rest => exact ⟨st, rfl, h3, h4⟩
    · obtain ⟨h1, h2, h3, h4⟩ := h
      rw [if_neg (by rw [h1]; exact Bool.false_ne_true)]
      obtain ⟨a, b, c⟩ := ih (icpIter eps s (steps.headD failedStep)) steps.tail h1
      refine ⟨fun hb => by have := a hb; omega, fun hb => by have := b hb; omega, ?_⟩
      rw [c, h3]
      constructor
      · rintro ⟨i, hi, st, e1, e2, e3⟩
        refine ⟨i + 1, Nat.succ_lt_succ hi, st, ?_, e2, ?_⟩
        · cases steps with
          | nil => simp at e1
          | cons x xs => simpa using e1
        · cases steps with
          | nil => simp at e1
          | cons x xs => simpa [prevBefore] using e3
      · rintro ⟨i, hi, st, e1, e2, e3⟩
        cases i with
        | zero =>
          exfalso
          apply h4
          cases steps with
          | nil => simp at e1
          | cons x xs =>
            simp only [List.getElem?_cons_zero, Option.some.injEq] at e1
            subst e1
            exact ⟨e2, by simpa [prevBefore] using e3⟩
        | succ j =>
          refine ⟨j, Nat.lt_of_succ_lt_succ hi, st, ?_, e2, ?_⟩
          · cases steps with
            | nil => simp at e1
            | cons x xs => simpa using e1
          · cases steps with
            | nil => simp at e1
            | cons x xs => simpa [prevBefore] using e3
    · rw [hs] at h; exact absurd h (by simp)

/-- **icp_flag** — `find` returns `true` iff the loop left through `break`, i.e. iff at some iteration BEFORE the
    cap the RANSAC estimate succeeded and differed from the previous successful estimate (the identity at first)
    by less than ε in entry-wise L1 norm.  Reaching the cap returns `false` whatever was estimated. -/
theorem icp_flag (maxIter : Nat) (eps : ℝ) (ident : List ℝ) (maxVal : ℝ) (steps : List (IcpStep ℝ)) :
    ((icpFind maxIter eps ident maxVal steps).1 = true ↔ (icpFind maxIter eps ident maxVal steps).2.broke = true) ∧
    ((icpFind maxIter eps ident maxVal steps).1 = true ↔ ∃ i, i < maxIter ∧ BreakAt eps ident steps i) := by
  obtain ⟨a, b, c⟩ := icpRun_spec eps maxIter (icpInit ident maxVal) steps rfl
  have hn : (icpInit ident maxVal).n = 0 := rfl
  have hp : (icpInit ident maxVal).prev = ident := rfl
  rw [hn, Nat.zero_add] at a b
  rw [hp] at c
  have key : (icpFind maxIter eps ident maxVal steps).1 = true ↔
      (icpRun eps maxIter (icpInit ident maxVal) steps).broke = true := by
    simp only [icpFind, bne_iff_ne, ne_eq]
    constructor
    · intro h
      by_contra hb
      exact h (b (by simpa using hb))
    · intro h; have := a h; omega
  exact ⟨key, key.trans c⟩

/-- with the constants of the sources: the default ICP returns `true` iff it converged within its 10 iterations -/
theorem icp_flag_default (eps : ℝ) (ident : List ℝ) (maxVal : ℝ) (steps : List (IcpStep ℝ)) :
    (icpFind C06.icpMaxIterations eps ident maxVal steps).1 = true ↔ ∃ i, i < 10 ∧ BreakAt eps ident steps i :=
  (icp_flag C06.icpMaxIterations eps ident maxVal steps).2


/-- for ANY model, `estimateModel` succeeds exactly when there were enough points and some counted consensus
    exceeded the draw size (the scripted-model form of "success implies consensus") -/
theorem estimateModel_ret_iff {S : Type} (ops : ModelOps S) (p eps : ℝ) (cap : Nat) (s : S) :
    (estimateModel ops p eps cap s).ret = true ↔
      ops.minInl s ≤ ops.nPts s ∧ ops.nDraw s < (estimateModel ops p eps cap s).best := by
  unfold estimateModel
  simp only
  split_ifs with h1 h2
  · constructor
    · intro h; exact absurd h (by simp)
    · intro h; dsimp only at h; omega
  · constructor
    · intro h; exact absurd h (by simp)
    · intro h; dsimp only at h; omega
  · constructor
    · intro _; dsimp only; omega
    · intro _; rfl

/-! ## The headline claim — STATED ONLY, not proved

`∀ (tx ty θ : ℝ), |tx| ≤ 0.2 → |ty| ≤ 0.2 → |θ| ≤ 0.05 →`
`  let r := FindRigidTransformationByICP(σ = 0.2).find(scan2d, displaced scan2d tx ty θ, identity);`
`  r.flag = true ∧ ‖r.transformation − H(tx, ty, θ)‖_F ≤ 0.015`
and the analogous statement for synthetic correspondence sets with up to 30 % gross outliers.  Neither is a theorem of
this development: they are statements about the numerical behaviour of the whole pipeline (kd-tree matching, PCA
normals, Eigen's decompositions — the `minstd_rand0` sampler itself is inside the model since the section "The RANSAC sampler"
below) on one data file.  They are exercised by the probe in
`tools/props/c06.py` on the real code; the probe currently finds the known non-convergent corner
`tx ≥ 0.18 ∧ ty ≥ 0.18 ∧ θ ≥ 0.045` (open finding). -/

/-! ## Non-vacuity -/

section Examples

/-- an error exactly on the threshold 9σ² is NOT an inlier; one just below is -/
example : (inliers id [⟨0, 0, 0⟩, ⟨1, 1, 0⟩] [9, 8] (1 : ℝ)).map (·.src) = [1] := by
  have h8 : (8:ℝ) < 9 := by norm_num
  simp [inliers, C06.inlierFactor, h8]

/-- a candidate whose (single) correspondence has squared error 1/4 with σ = 1, minimal consensus 1: accepted
    (RMSE 1/2 < 1), the returned count is 1 -/
example : (countInliers id 1 [⟨0, 0, 0⟩] [1/4] (1 : ℝ) (Consensus.cleared 100)).2.1 = 1 := by
  have h : inliers id [⟨0, 0, 0⟩] [1/4] (1 : ℝ) = [⟨0, 0, 1/4⟩] := by
    have h4 : ((4:ℝ)⁻¹) < 9 := by norm_num
    simp [inliers, C06.inlierFactor, h4]
  have hr : rmseOf [(⟨0, 0, 1/4⟩ : Corr ℝ)] = 1/2 := by
    simp only [rmseOf, zero, List.foldl_cons, List.foldl_nil, List.length_singleton]
    rw [show ((0:ℕ):ℝ) + 1/4 = (1/2)^2 by norm_num]
    simp
  simp only [countInliers, h, uniqueInPlace, uniq, uniqAux, List.length_singleton, List.drop_succ_cons, List.drop_nil,
    List.append_nil, hr]
  norm_num [Consensus.cleared]

/-- hypotheses of `success_implies_consensus` are met by a freshly loaded model -/
example : (⟨2, 6, 1, [], [], [], Consensus.cleared 100, false⟩ : Rigid ℝ).cons.best = [] ∧
    (⟨2, 6, 1, [], [], [], Consensus.cleared 100, false⟩ : Rigid ℝ).sorted.length < 2 ^ 24 := by
  simp [Consensus.cleared]

/-- the filter on a list with a repeated source index keeps the closer pair -/
example : ((oneToOne [⟨3, 0, 5⟩, ⟨1, 1, 2⟩, ⟨3, 2, 1⟩] : List (Corr ℝ)).map (fun c => (c.src, c.tgt))) = [(1, 1), (3, 2)] := by
  simp [oneToOne, sortBy, List.mergeSort, List.MergeSort.Internal.splitInTwo, ltSrc, uniq, uniqAux, eqSrc]

/-- the iteration bound starts at the cap -/
example : (Iterations.init (0.99 : ℝ) 100 1000).n = 1000 := by simp [Iterations.init]

/-- an ICP run that converges at its second iteration (first estimate far from the identity, second one equal to
    the first) meets the break condition there; a run in which RANSAC never succeeds returns false -/
example : BreakAt (0.001 : ℝ) [1, 0, 0, 1] [⟨true, 0.1, [1, 0, 0.5, 1]⟩, ⟨true, 0.1, [1, 0, 0.5, 1]⟩] 1 := by
  refine ⟨⟨true, 0.1, [1, 0, 0.5, 1]⟩, rfl, rfl, ?_⟩
  norm_num [prevBefore, absDiffSum, zero]

example : (icpFind 10 (0.001 : ℝ) [1, 0, 0, 1] 100 []).1 = false := by
  have h := (icp_flag 10 (0.001 : ℝ) [1, 0, 0, 1] 100 []).2
  by_contra hc
  obtain ⟨i, _, st, hst, _⟩ := h.mp (by simpa using hc)
  simp at hst

end Examples

end Romea.C06


/-! # The RANSAC sampler (`RansacRandomCorrespondences`) and its random engine

Theorems about `RomeaModel/Sampler.lean` (tied bit-exactly to the C++ by the `smp.*` ops of the correspondence check).
Scalars: `ℝ` for both the weights (`double`) and the point coordinates; the only partial operation is the division by the
total weight in `computeCumSumWeights_`, whose guard `0 < total` is an explicit hypothesis wherever it matters; the
all-weights-zero case (`0/0`) is treated at `RN` (`collapse_draws_index_zero`): there the C++ compares NaNs, every
comparison fails and `std::lower_bound` answers index 0.  The theorems about the engine hold for the exact integers the
C++ computes (`Nat`), those about which engine state a history leaves behind hold at EVERY scalar type, the executed
`Float` / `Float32` included.  Helpers: `RomeaProofs/Lemmas/C06Sampler.lean`. -/
namespace Romea.C06
open Romea.Sampler

/-! ## The engine -/

/-- **the LCG never sticks**: a state in `[1, 2^31 − 2]` is followed by a state in `[1, 2^31 − 2]`; every seed gives such a
    state (the default-constructed engine starts at 1) and so does every number of steps after any seed.  State 0 — the
    one the generator could never leave — is therefore unreachable. -/
theorem engine_state_in_range_forever :
    (∀ x, InRange x → InRange (next x)) ∧ (∀ s n, InRange (next^[n] (seed s))) ∧ engineInit = 1 ∧ next 0 = 0 :=
  ⟨fun _ h => next_inRange h, fun s n => iterate_next_inRange (seed_inRange s) n, engineInit_eq, by decide⟩

example : InRange 1 ∧ InRange 2147483646 ∧ ¬ InRange 0 := by unfold InRange lcgM; omega

/-- **`generate_canonical` is in (0, 1)**: from every legitimate engine state the variate handed to `std::lower_bound` is
    `((g₁ − 1) + (g₂ − 1)·r)/r²` (`g₁, g₂` the next two engine outputs, `r = 2^31 − 2`), strictly between 0 and 1: the
    `nextafter` clamp is dead over the reals, and `u = 0` would need `g₁ = g₂ = 1`, impossible because 1 is followed by 16807. -/
theorem uniform_variate_in_unit_interval (x : Nat) (h : InRange x) :
    (uniform01 (α := ℝ) x).1 = next (next x) ∧
    (uniform01 (α := ℝ) x).2 =
      (((next x - 1 : Nat) : ℝ) + ((next (next x) - 1 : Nat) : ℝ) * 2147483646) / (2147483646 * 2147483646) ∧
    0 < (uniform01 (α := ℝ) x).2 ∧ (uniform01 (α := ℝ) x).2 < 1 := by
  obtain ⟨a, b, c⟩ := uniform01_range h
  exact ⟨c, by rw [uniform01_real h], a, b⟩

example : InRange engineInit := by rw [engineInit_eq]; unfold InRange lcgM; omega

/-! ## Cumulative weights and the search -/

/-- **cumulative weights**: for non-negative weights with a positive total, `cumSumWeights_` has the length of the weights,
    entry `i` is (sum of the first `i + 1` weights)/total, the entries are non-decreasing, lie in [0, 1], and the last one is
    exactly 1. -/
theorem cumulative_weights_monotone (w : List ℝ) (hw : ∀ x ∈ w, 0 ≤ x) (hs : 0 < w.sum) :
    (cumSum w).length = w.length ∧ (cumSum w).Pairwise (· ≤ ·) ∧ (∀ x ∈ cumSum w, 0 ≤ x ∧ x ≤ 1) ∧
    (cumSum w).getLast? = some 1 := by
  have hne : w ≠ [] := by intro e; subst e; simp at hs
  have hlen := cumSum_length w
  refine ⟨hlen, ?_, ?_, ?_⟩
  · rw [List.pairwise_iff_getElem]
    intro i j hi hj hij
    rw [cumSum_getElem w i (by rw [← hlen]; exact hi), cumSum_getElem w j (by rw [← hlen]; exact hj)]
    exact div_le_div_of_nonneg_right (sum_take_mono w hw (by omega)) (le_of_lt hs)
  · intro x hx
    rw [List.mem_iff_getElem] at hx
    obtain ⟨i, hi, rfl⟩ := hx
    rw [cumSum_getElem w i (by rw [← hlen]; exact hi)]
    exact ⟨div_nonneg (sum_take_nonneg w hw _) (le_of_lt hs), by
      rw [div_le_one hs]; exact sum_take_le_sum w hw _⟩
  · have hl : 0 < w.length := List.length_pos_iff.mpr hne
    rw [List.getLast?_eq_getElem?, List.getElem?_eq_getElem (by rw [hlen]; omega)]
    simp only [hlen]
    rw [cumSum_getElem w (w.length - 1) (by omega), show w.length - 1 + 1 = w.length by omega, List.take_length,
      div_self (ne_of_gt hs)]

example : cumSum [(1 : ℝ), 1, 2] = [1 / 4, 2 / 4, 4 / 4] := by
  norm_num [cumSum, partialSums, psFrom]

/-- **the binary search is the inverse CDF**: on a non-decreasing list `std::lower_bound` (the halving search of libstdc++)
    returns the first position whose entry is not below `u` — every earlier entry is `< u`, every entry from it on is `≥ u` —
    or the length if there is none. -/
theorem lower_bound_is_first_not_below (cum : List ℝ) (hc : cum.Pairwise (· ≤ ·)) (u : ℝ) :
    lowerBound cum u ≤ cum.length ∧
    (∀ j (hj : j < cum.length), j < lowerBound cum u → cum[j] < u) ∧
    (∀ j (hj : j < cum.length), lowerBound cum u ≤ j → u ≤ cum[j]) := by
  have hget : ∀ j (hj : j < cum.length), cum.getD j u = cum[j] := fun j hj => by
    simp [List.getD_eq_getElem?_getD, hj]
  obtain ⟨a, b, c⟩ := lowerBound_spec cum u (by
    intro i j hij hj hB
    unfold Below at hB ⊢
    rw [hget j hj] at hB
    rw [hget i (by omega)]
    rcases Nat.lt_or_ge i j with h | h
    · exact lt_of_le_of_lt (List.pairwise_iff_getElem.mp hc i j (by omega) hj h) hB
    · have : i = j := by omega
      subst this; exact hB)
  refine ⟨a, fun j hj hlt => ?_, fun j hj hle => ?_⟩
  · have := b j hlt
    unfold Below at this
    rwa [hget j hj] at this
  · have := c j hle hj
    unfold Below at this
    rw [hget j hj] at this
    exact not_lt.mp this

example : lowerBound [(1 : ℝ) / 4, 2 / 4, 4 / 4] (2 / 4) = 1 ∧ lowerBound [(1 : ℝ) / 4, 2 / 4, 4 / 4] (3 / 4) = 2 := by
  constructor
  · rw [lowerBound, lowerBoundFrom_unfold]; norm_num
    rw [lowerBoundFrom_unfold]; norm_num
    rw [lowerBoundFrom_unfold]; norm_num
  · rw [lowerBound, lowerBoundFrom_unfold]; norm_num
    rw [lowerBoundFrom_unfold]; norm_num
    rw [lowerBoundFrom_unfold]; norm_num

/-- **the drawn index is in bounds and has positive weight**: for non-negative weights with positive total and a variate
    `0 < u < 1` the index `std::distance(begin, lower_bound(cum, u))` is `< n`, its weight is strictly positive, and it is
    the inverse CDF: (sum of the weights before it)/total `< u ≤` (sum up to and including it)/total. -/
theorem drawn_index_in_bounds_positive_weight (w : List ℝ) (hw : ∀ x ∈ w, 0 ≤ x) (hs : 0 < w.sum) (u : ℝ)
    (hu0 : 0 < u) (hu1 : u < 1) :
    ∃ h : lowerBound (cumSum w) u < w.length,
      0 < w[lowerBound (cumSum w) u] ∧
      (w.take (lowerBound (cumSum w) u)).sum / w.sum < u ∧
      u ≤ (w.take (lowerBound (cumSum w) u + 1)).sum / w.sum :=
  drawIndex_spec w hw hs u hu0 hu1

/-- **the sampling law**: index `i` is drawn exactly for the variates in the half-open interval
    `(cum[i−1], cum[i]]` (with `cum[−1] = 0`), whose length is `w[i]/total` — the correspondences are drawn with
    probability proportional to their current weight (for an ideal uniform variate). -/
theorem drawn_index_iff (w : List ℝ) (hw : ∀ x ∈ w, 0 ≤ x) (hs : 0 < w.sum) (u : ℝ) (hu0 : 0 < u) (hu1 : u < 1)
    (i : Nat) :
    lowerBound (cumSum w) u = i ↔ ((w.take i).sum / w.sum < u ∧ u ≤ (w.take (i + 1)).sum / w.sum) := by
  obtain ⟨hr, _, hlo, hhi⟩ := drawIndex_spec w hw hs u hu0 hu1
  constructor
  · intro h; rw [h] at hlo hhi; exact ⟨hlo, hhi⟩
  · rintro ⟨h1, h2⟩
    rcases Nat.lt_trichotomy (lowerBound (cumSum w) u) i with hlt | heq | hgt
    · exfalso
      have := div_le_div_of_nonneg_right (sum_take_mono w hw (show lowerBound (cumSum w) u + 1 ≤ i by omega)) (le_of_lt hs)
      linarith
    · exact heq
    · exfalso
      have := div_le_div_of_nonneg_right (sum_take_mono w hw (show i + 1 ≤ lowerBound (cumSum w) u by omega)) (le_of_lt hs)
      linarith

example : lowerBound (cumSum [(1 : ℝ), 1, 2]) (3 / 5) = 2 := by
  rw [drawn_index_iff [1, 1, 2] (by simp) (by norm_num) (3 / 5) (by norm_num) (by norm_num) 2]
  norm_num

/-- **`u = 0` characterised**: a variate `u ≤ 0` selects index 0 whatever its weight — the one way a zero-weight
    correspondence could be drawn while the total is positive.  `uniform_variate_in_unit_interval` shows the engine never
    produces it. -/
theorem zero_variate_draws_index_zero (w : List ℝ) (hw : ∀ x ∈ w, 0 ≤ x) (hs : 0 < w.sum) (u : ℝ) (hu : u ≤ 0) :
    lowerBound (cumSum w) u = 0 :=
  drawIndex_of_nonpos w hw hs u hu

example : ∃ w : List ℝ, (∀ x ∈ w, 0 ≤ x) ∧ 0 < w.sum ∧ w[lowerBound (cumSum w) 0]? = some 0 :=
  ⟨[0, 1], by simp, by simp, by
    rw [zero_variate_draws_index_zero [0, 1] (by simp) (by simp) 0 (le_refl _)]; rfl⟩

/-- **the collapsed case** (`RN`: `0/0 = NaN`, comparisons with NaN false): when every weight is 0 every cumulative weight
    is NaN and `std::lower_bound` answers index 0 for every `u` — the code then returns `correspondences[0]`, possibly
    again and again: the distinct-target guarantee below needs a positive weight at every draw. -/
theorem collapse_draws_index_zero (w : List RN) (hw : ∀ x ∈ w, x = RN.of 0) (u : RN) :
    (∀ x ∈ cumSum w, x = RN.nan) ∧ lowerBound (cumSum w) u = 0 :=
  ⟨(cumSum_zero_RN w hw).2, lowerBound_collapsed_RN w hw u⟩

example : cumSum [RN.of 0, RN.of 0] = [RN.nan, RN.nan] := by
  simp [cumSum, partialSums, psFrom, RN.div_zero]

/-! ## The weights -/

/-- **weights stay within [0, 1] × their loaded value** — for EVERY state of the object with a legitimate engine, every
    point set, every correspondence list with non-negative weights and every number of draws (collapsed or not): after
    `drawPoints` the object holds one weight per correspondence, each between 0 and the weight of its correspondence, the
    cumulative weights are those of the weights, and the engine state is legitimate again. -/
theorem weights_stay_within_initial (o : SumOrder) (st : State ℝ ℝ) (pts : Array (List ℝ)) (corrs : List (Corr ℝ))
    (k : Nat) (he : InRange st.engine) (hw : ∀ c ∈ corrs, 0 ≤ c.weight) :
    let r := st.drawPoints o pts corrs k
    r.2.length = k ∧ r.1.weights.length = corrs.length ∧ r.1.cum = cumSum r.1.weights ∧ InRange r.1.engine ∧
    ∀ n (hn : n < corrs.length), 0 ≤ r.1.weights.getD n 0 ∧ r.1.weights.getD n 0 ≤ corrs[n].weight := by
  intro r
  have hb := drawLoop_base o pts corrs _ k _ (reload_base st corrs he hw)
  rw [← drawPoints_eq] at hb
  refine ⟨drawLoop_length o pts corrs k _, hb.len, hb.cum, hb.eng, fun n hn => ?_⟩
  have := hb.bnd n hn
  have e : (corrs.map (·.weight)).getD n 0 = corrs[n].weight := by
    rw [getD_of_lt _ _ (by simpa using hn), List.getElem_map]
  rwa [e] at this

/-- **drawn targets are zeroed, hence pairwise distinct** — as long as some weight is positive whenever a point is drawn
    (`NoCollapse`): every drawn index is in bounds and its correspondence had a positive weight, the target indexes of the
    `k` drawn correspondences are pairwise distinct (so the `k` correspondences are distinct), and afterwards every
    correspondence sharing its target index with a drawn one has weight 0. -/
theorem drawn_targets_zeroed_and_distinct (o : SumOrder) (st : State ℝ ℝ) (pts : Array (List ℝ))
    (corrs : List (Corr ℝ)) (k : Nat) (he : InRange st.engine) (hw : ∀ c ∈ corrs, 0 ≤ c.weight)
    (hnc : NoCollapse o pts corrs k (reload st corrs)) :
    let r := st.drawPoints o pts corrs k
    (∀ i ∈ r.2, ∃ h : i < corrs.length, 0 < corrs[i].weight) ∧
    (r.2.map (tgtAt corrs)).Nodup ∧ r.2.Nodup ∧
    (∀ d ∈ r.2, ∀ n, n < corrs.length → tgtAt corrs n = tgtAt corrs d → r.1.weights.getD n 0 = 0) := by
  intro r
  obtain ⟨a, b, c⟩ := drawLoop_alive o pts corrs _ k [] _ (reload_base st corrs he hw) (zeroed_nil corrs _) hnc
  rw [← drawPoints_eq] at a b c
  refine ⟨fun i hi => ?_, b, (List.Nodup.of_map _ b), fun d hd n hn ht => ?_⟩
  · obtain ⟨h1, h2, _⟩ := a i hi
    refine ⟨h1, ?_⟩
    rwa [getD_of_lt _ _ (by simpa using h1), List.getElem_map] at h2
  · exact (c d (by simpa using hd)).2 n hn ht

/-- **one-to-one lists never collapse**: if the correspondences have positive weights and pairwise distinct targets (the
    ICP filter's post-condition `one_to_one_nodup` gives distinct sources; the matching step gives each target once), the
    source points of different correspondences differ along an axis with non-zero `scale_`, and `k ≤ n`, then NO draw
    meets collapsed weights: the `k` drawn correspondences are in bounds and pairwise distinct, with pairwise distinct
    target indexes and pairwise distinct source indexes. -/
theorem one_to_one_draws_distinct_correspondences (o : SumOrder) (st : State ℝ ℝ) (pts : Array (List ℝ))
    (corrs : List (Corr ℝ)) (k : Nat) (he : InRange st.engine) (hws : WellSpread st.scale pts corrs)
    (hk : k ≤ corrs.length) :
    let r := st.drawPoints o pts corrs k
    NoCollapse o pts corrs k (reload st corrs) ∧
    r.2.length = k ∧ (∀ i ∈ r.2, i < corrs.length) ∧ r.2.Nodup ∧
    (r.2.map (tgtAt corrs)).Nodup ∧ (r.2.map (srcAt corrs)).Nodup := by
  intro r
  have hw : ∀ c ∈ corrs, 0 ≤ c.weight := fun c hc => le_of_lt (hws.wpos c hc)
  have hnc : NoCollapse o pts corrs k (reload st corrs) :=
    noCollapse_of_wellSpread o pts corrs _ st.scale hws k [] _ (reload_base st corrs he hw) (zeroed_nil corrs _)
      (by
        intro n hn _
        simp only [reload]
        rw [getD_of_lt _ _ (by simpa using hn), List.getElem_map]
        exact hws.wpos _ (List.getElem_mem _))
      rfl List.nodup_nil (by simpa using hk)
  obtain ⟨a, b, c, _⟩ := drawn_targets_zeroed_and_distinct o st pts corrs k he hw hnc
  refine ⟨hnc, drawLoop_length o pts corrs k _, fun i hi => (a i hi).1, c, b, ?_⟩
  rw [List.nodup_map_iff_inj_on c]
  intro i hi j hj hij
  exact hws.src_inj i j (a i hi).1 (a j hj).1 hij

/-- the hypotheses of `one_to_one_draws_distinct_correspondences` (and with them `NoCollapse`, the hypothesis of
    `drawn_targets_zeroed_and_distinct`) are met by three correspondences on the corners of a triangle, unit scale -/
private theorem wellSpread_example :
    WellSpread [1, 1] #[[0, 0], [1, 0], [0, 1]] [⟨0, 5, 1⟩, ⟨1, 3, 1⟩, ⟨2, 4, 2⟩] := by
  refine ⟨?_, ?_, ?_⟩
  · intro c hc
    simp only [List.mem_cons, List.not_mem_nil, or_false] at hc
    rcases hc with rfl | rfl | rfl <;> norm_num
  · intro i j hi hj h
    simp only [List.length_cons, List.length_nil] at hi hj
    have hi' : i = 0 ∨ i = 1 ∨ i = 2 := by omega
    have hj' : j = 0 ∨ j = 1 ∨ j = 2 := by omega
    rcases hi' with rfl | rfl | rfl <;> rcases hj' with rfl | rfl | rfl <;> simp [tgtAt] at h ⊢
  · intro i j hi hj hne
    simp only [List.length_cons, List.length_nil] at hi hj
    have hi' : i = 0 ∨ i = 1 ∨ i = 2 := by omega
    have hj' : j = 0 ∨ j = 1 ∨ j = 2 := by omega
    rcases hi' with rfl | rfl | rfl <;> rcases hj' with rfl | rfl | rfl <;>
      simp [srcAt, pointAt, scaledSquares] at hne ⊢

example : NoCollapse .left #[[0, 0], [1, 0], [0, 1]] [⟨0, 5, 1⟩, ⟨1, 3, 1⟩, ⟨2, 4, 2⟩] 3
    (reload ⟨1, [1, 1], [], []⟩ [⟨0, 5, 1⟩, ⟨1, 3, 1⟩, ⟨2, 4, 2⟩]) :=
  (one_to_one_draws_distinct_correspondences .left ⟨1, [1, 1], [], []⟩ _ _ 3 (by show 1 ≤ 1 ∧ 1 ≤ lcgM - 1; unfold lcgM; omega)
    wellSpread_example (by simp)).1

/-- … and three draws from them return a permutation of the three indexes -/
example : ((⟨1, [1, 1], [], []⟩ : State ℝ ℝ).drawPoints .left #[[0, 0], [1, 0], [0, 1]]
    [⟨0, 5, 1⟩, ⟨1, 3, 1⟩, ⟨2, 4, 2⟩] 3).2.Nodup :=
  (one_to_one_draws_distinct_correspondences .left ⟨1, [1, 1], [], []⟩ _ _ 3 (by show 1 ≤ 1 ∧ 1 ≤ lcgM - 1; unfold lcgM; omega)
    wellSpread_example (by simp)).2.2.2.1

/-- without `computeScale` (`scale_ = 0`, the constructor's value) the down-weighting factor is 0 for every pair of
    points: the hypothesis `WellSpread.spread` is not vacuous -/
example : downWeight (α := ℝ) .left ([0, 0] : List ℝ) [3, 4] [1, 2] = 0 := by
  simp [downWeight, scaledSquares, sumOrdered]

/-! ## Determinism -/

/-- **only the engine and `scale_` persist**: `drawPoints` reloads the weights, so whatever `weights_` and
    `cumSumWeights_` held before the call does not influence the call.  Holds at every scalar type (`Float` included). -/
theorem draw_ignores_stale_weights {α β : Type}
    [Add α] [Sub α] [Mul α] [Div α] [LT α] [DecidableLT α] [LE α] [DecidableLE α] [NatCast α] [Trans α]
    [Add β] [Sub β] [Mul β] [Div β] [Neg β] [NatCast β] [Trans β] [Widen β α]
    (o : SumOrder) (st : State α β) (w' c' : List α) (pts : Array (List β)) (corrs : List (Corr α)) (k : Nat) :
    ({ st with weights := w', cum := c' } : State α β).drawPoints o pts corrs k = st.drawPoints o pts corrs k :=
  drawPoints_stale o st w' c' pts corrs k

/-- **the engine is never reseeded and advances by exactly two steps per drawn point**, whatever the inputs are: after ANY
    history of calls (`computeScale`, `drawPoints`, `resetWeights_`) the engine state is the start state advanced by twice
    the number of points drawn so far.  Holds at every scalar type (the engine is integer arithmetic). -/
theorem engine_after_history {α β : Type}
    [Add α] [Sub α] [Mul α] [Div α] [LT α] [DecidableLT α] [LE α] [DecidableLE α] [NatCast α] [Trans α]
    [Add β] [Sub β] [Mul β] [Div β] [Neg β] [NatCast β] [Trans β] [Widen β α]
    (o : SumOrder) (size : Nat) (cs : List (Call α β)) :
    ((State.init size : State α β).run o cs).1.engine = next^[2 * totalDraws cs] 1 := by
  rw [run_engine]; rfl

/-- **deterministic per object**: what a history of calls returns is a function of the engine state and `scale_` it starts
    from and of the calls — nothing else.  In particular two freshly constructed objects (`State.init`: engine 1, zero
    scale) given the same calls return the same indexes call by call and end in the same engine state; and an object that
    has already drawn `m` points answers like a fresh one whose engine was advanced by `2m` steps.  Every scalar type. -/
theorem history_deterministic {α β : Type}
    [Add α] [Sub α] [Mul α] [Div α] [LT α] [DecidableLT α] [LE α] [DecidableLE α] [NatCast α] [Trans α]
    [Add β] [Sub β] [Mul β] [Div β] [Neg β] [NatCast β] [Trans β] [Widen β α]
    (o : SumOrder) (cs : List (Call α β)) (s1 s2 : State α β) (he : s1.engine = s2.engine) (hs : s1.scale = s2.scale) :
    (s1.run o cs).2 = (s2.run o cs).2 ∧ (s1.run o cs).1.engine = (s2.run o cs).1.engine ∧
    (s1.run o cs).1.scale = (s2.run o cs).1.scale :=
  run_engine_scale o cs s1 s2 he hs

/-- two fresh objects, the same history (of any length): the same answers -/
theorem fresh_objects_agree {α β : Type}
    [Add α] [Sub α] [Mul α] [Div α] [LT α] [DecidableLT α] [LE α] [DecidableLE α] [NatCast α] [Trans α]
    [Add β] [Sub β] [Mul β] [Div β] [Neg β] [NatCast β] [Trans β] [Widen β α]
    (o : SumOrder) (size : Nat) (cs : List (Call α β)) (stale : State α β)
    (he : stale.engine = engineInit) (hs : stale.scale = List.replicate size zero) :
    (stale.run o cs).2 = ((State.init size : State α β).run o cs).2 :=
  (run_engine_scale o cs stale (State.init size) he hs).1

/-- a history with two draws of 3 and 4 points leaves a fresh object's engine 14 steps from the seed; the first six of
    them are the published `minstd_rand0` sequence 16807, 282475249, 1622650073, 984943658, 1144108930, 470211272 -/
example : next^[6] 1 = 470211272 := by decide

example : totalDraws ([Call.draw #[] [] 3, Call.scale [] [], Call.draw #[] [] 4, Call.reset] : List (Call ℝ ℝ)) = 7 := by
  simp [totalDraws, callDraws]

/-- `history_deterministic` / `fresh_objects_agree` apply to a used object whose leftovers differ from a fresh one's -/
example : (⟨engineInit, List.replicate 2 zero, [0.5, 0.25], [1, 1]⟩ : State ℝ ℝ).engine = engineInit ∧
    (⟨engineInit, List.replicate 2 zero, [0.5, 0.25], [1, 1]⟩ : State ℝ ℝ).scale = List.replicate 2 zero ∧
    (⟨engineInit, List.replicate 2 zero, [0.5, 0.25], [1, 1]⟩ : State ℝ ℝ).weights ≠ (State.init 2 : State ℝ ℝ).weights := by
  refine ⟨rfl, rfl, ?_⟩
  simp [State.init]

end Romea.C06


/-! # Sampler composed with the skeleton

Theorems about `RomeaModel/RansacSampled.lean`: `Ransac::estimateModel` run on the rigid-transformation model whose `draw` calls the
REAL sampler (`RansacRigidTransformationModel::draw`, .cpp:231-251) and threads its state through the iterations; only the geometry
behind a sample (`compute_`, `check_`, the errors) is still an oracle (`Scene.geom`, a function of the call number and of the drawn
indexes).  They hold for EVERY sampler state the run starts from (engine state, `scale_`, stale weights), every point set and
correspondence list, every geometry oracle, every cap — hence for every `estimateModel` call of an ICP run, which re-uses the object.

* `composed_terminates`, `composed_ret_iff` are INSTANTIATIONS of the skeleton theorems (they quantify over every `ModelOps`);
* `composed_success_implies_consensus` is the skeleton theorem transported along `composed_run_is_skeleton_run`, a step-by-step
  simulation (every scalar type): the composed run is the skeleton's run on the scripted oracle list that the sampler + geometry
  produce (`oracle_list_is_geometry_of_samples`) — so every skeleton theorem about `rigidOps`, present or future, transfers;
* what only the composition can say: `composed_engine_advance`, `composed_engine_across_runs` (every scalar type, `Float` included),
  `composed_samples_distinct_targets`, `composed_one_to_one_distinct_correspondences` (ℝ), `composed_deterministic`,
  `fresh_composed_agree` (every scalar type).

Helpers: `RomeaProofs/Lemmas/C06Composed.lean`.  Tie: the two halves by their own ops (`ransac.script`, `smp.*`); the glue
`drawSampled` (four lines read off `RansacRigidTransformationModel::draw`) by the second pass of `rr.real`: behind `loadPointSets` and
behind every REAL `draw()` the harness reads the model object's own sampler member (`scale_`, `weights_`, `cumSumWeights_`, engine) and
the tools replay "fresh sampler, `computeScale(min, max of the raw source points)`, ONE `drawPoints(raw points, loaded correspondences,
draw size)` per `draw()` on the same state" (`smpAfter`) through the Lean sampler at `Float`: bit-exact. -/
namespace Romea.C06
open Romea.Ransac Romea.RansacSampled Romea.Generated
open Romea.Sampler (next engineInit SumOrder Widen)

/-! ## The skeleton theorems hold of the composed model -/

/-- **termination, by instantiation** of `estimateModel_terminates` (which quantifies over every `ModelOps`): with the real sampler
    as draw oracle the loop still exits by its own test within the cap and reports a bound at most the cap -/
theorem composed_terminates (sc : Scene ℝ ℝ) (cast : ℝ → ℝ) (p eps : ℝ) (cap : Nat) (s : Sampled ℝ ℝ) :
    (estimateModel (sampledOps sc cast) p eps cap s).diverged = false ∧
    (estimateModel (sampledOps sc cast) p eps cap s).iterations ≤ cap ∧
    (estimateModel (sampledOps sc cast) p eps cap s).bound ≤ (cap : ℝ) :=
  estimateModel_terminates (sampledOps sc cast) p eps cap s

/-- **verdict, by instantiation** of `estimateModel_ret_iff`: success exactly when there are at least `2·k` source points in the
    correspondences and some counted consensus exceeded the draw size `k` (`k` = 3 in 2D, 4 in 3D) -/
theorem composed_ret_iff (sc : Scene ℝ ℝ) (cast : ℝ → ℝ) (p eps : ℝ) (cap : Nat) (s : Sampled ℝ ℝ) :
    (estimateModel (sampledOps sc cast) p eps cap s).ret = true ↔
      minInlOf s.rigid.dim ≤ s.rigid.nPts ∧ nDrawOf s.rigid.dim < (estimateModel (sampledOps sc cast) p eps cap s).best :=
  estimateModel_ret_iff (sampledOps sc cast) p eps cap s

section AnyScalar
variable {α β : Type}
variable [Add α] [Sub α] [Mul α] [Div α] [LT α] [DecidableLT α] [LE α] [DecidableLE α] [NatCast α] [Trans α] [Trunc α]
variable [Add β] [Sub β] [Mul β] [Div β] [Neg β] [NatCast β] [Trans β] [Widen β α]

/-- **the composed run IS a skeleton run** (every scalar type): `estimateModel` on the composed model equals — verdict, iteration
    count, best count, bound, divergence flag, and the rigid model's final state up to the unread rest of the script —
    `estimateModel` on the skeleton's own rigid model (`rigidOps`) scripted with the candidates of the sampler's next `cap + 1`
    samples (`toRigid`).  The skeleton's oracle list is thereby INSTANTIATED by the sampler. -/
theorem composed_run_is_skeleton_run (sc : Scene α β) (cast : α → α) (p eps : α) (cap : Nat) (s : Sampled α β) :
    ∃ m, estimateModel (rigidOps cast) p eps cap (toRigid sc (cap + 1) s)
      = mapResult (toRigid sc m) (estimateModel (sampledOps sc cast) p eps cap s) :=
  estimateModel_sim sc cast p eps cap s

/-- … and that script is the geometry applied, call number by call number, to the sampler's own next samples: the `j`-th candidate
    is `geom (calls before + j) (j-th sample)` — every candidate is estimated from the correspondences the sampler drew -/
theorem oracle_list_is_geometry_of_samples (sc : Scene α β) (n : Nat) (s : Sampled α β) :
    (toRigid sc n s).todo
      = List.zipWith (fun j smp => sc.geom (s.samples.length + j) smp) (List.range n)
          (sampleSeq sc (nDrawOf s.rigid.dim) n s.smp) ∧
    (sampleSeq sc (nDrawOf s.rigid.dim) n s.smp).length = n :=
  ⟨candSeq_eq sc _ _ n s.smp, sampleSeq_length sc _ n s.smp⟩

end AnyScalar

/-- **success implies consensus, with the real sampler** — the skeleton theorem transported along the simulation: started right
    after `loadCorrespondences` (empty best set) with fewer than 2^24 correspondences, from ANY sampler state and for ANY geometry,
    a `true` verdict means the stored best consensus has more than `k` and at least `2k` members, its RMSE is below σ and every
    member has squared error below 9σ² -/
theorem composed_success_implies_consensus (sc : Scene ℝ ℝ) (cast : ℝ → ℝ) (p eps : ℝ) (cap : Nat) (s : Sampled ℝ ℝ)
    (hclr : s.rigid.cons.best = []) (hsz : s.rigid.sorted.length < 2 ^ 24) :
    let r := estimateModel (sampledOps sc cast) p eps cap s
    r.ret = true →
      nDrawOf s.rigid.dim < r.s.rigid.cons.best.length ∧ 2 * nDrawOf s.rigid.dim ≤ r.s.rigid.cons.best.length ∧
      r.s.rigid.cons.bestRmse < s.rigid.σ ∧
      ∀ c ∈ r.s.rigid.cons.best, c.d < cast ((C06.inlierFactor : ℝ) * s.rigid.σ * s.rigid.σ) := by
  intro r hret
  obtain ⟨m, hm⟩ := estimateModel_sim sc cast p eps cap s
  have h := success_implies_consensus cast p eps cap (toRigid sc (cap + 1) s) hclr hsz
  simp only [hm] at h
  exact h hret

/-! ## What only the composition can say: the engine -/

section AnyScalar
variable {α β : Type}
variable [Add α] [Sub α] [Mul α] [Div α] [LT α] [DecidableLT α] [LE α] [DecidableLE α] [NatCast α] [Trans α] [Trunc α]
variable [Add β] [Sub β] [Mul β] [Div β] [Neg β] [NatCast β] [Trans β] [Widen β α]

/-- **across a whole `estimateModel` run the engine advances by exactly 2 · (draw size) · (iterations executed) steps and is never
    reseeded**; `scale_` is untouched; the samples logged are exactly the sampler's own next `iterations` samples — a sequence fixed
    by the sampler state, the points and the correspondences alone: the geometry, σ, the consensus found so far decide only HOW MANY
    of them are consumed.  Every scalar type (`Float` / `Float32` included), every start state, every oracle. -/
theorem composed_engine_advance (sc : Scene α β) (cast : α → α) (p eps : α) (cap : Nat) (s : Sampled α β) :
    let r := estimateModel (sampledOps sc cast) p eps cap s
    r.s.smp.engine = next^[2 * nDrawOf s.rigid.dim * r.iterations] s.smp.engine ∧
    r.s.smp.scale = s.smp.scale ∧
    r.s.samples = s.samples ++ sampleSeq sc (nDrawOf s.rigid.dim) r.iterations s.smp ∧
    r.s.samples.length = s.samples.length + r.iterations ∧
    r.iterations ≤ cap + 1 := by
  intro r
  obtain ⟨h0, h1, h2, _⟩ := estimateModel_composed sc cast p eps cap s
  obtain ⟨e1, e2⟩ := smpAfter_engine sc (nDrawOf s.rigid.dim) r.iterations s.smp
  refine ⟨by rw [h1]; exact e1, by rw [h1]; exact e2, h2, ?_, h0⟩
  rw [h2, List.length_append, sampleSeq_length]

/-- a freshly constructed model (default-seeded engine): after its first run the engine is `next^[2·k·iterations] 1` -/
theorem composed_engine_fresh (sc : Scene α β) (cast : α → α) (p eps : α) (cap : Nat) (rigid : Rigid α) (size : Nat) :
    let r := estimateModel (sampledOps sc cast) p eps cap (Sampled.fresh rigid size : Sampled α β)
    r.s.smp.engine = next^[2 * nDrawOf rigid.dim * r.iterations] 1 ∧ r.s.samples.length = r.iterations := by
  intro r
  obtain ⟨h1, _, _, h4, _⟩ := composed_engine_advance sc cast p eps cap (Sampled.fresh rigid size : Sampled α β)
  refine ⟨?_, by simp only [Sampled.fresh, List.length_nil, Nat.zero_add] at h4; exact h4⟩
  rw [h1]
  show next^[_] engineInit = _
  rw [engineInit_eq]
  rfl

/-- **never reseeded across the runs of an ICP loop either**: successive `estimateModel` runs on ONE model object — each behind its
    own `loadCorrespondences` (new scene, new rigid-model data, any parameters) — leave the engine at the start state advanced by
    twice the total number of points drawn, `Σ k_i · iterations_i`; `scale_` survives -/
theorem composed_engine_across_runs (ls : List (Load α β)) (st : Sampler.State α β) :
    (runLoads ls st).1.engine = next^[2 * (runLoads ls st).2] st.engine ∧ (runLoads ls st).1.scale = st.scale :=
  runLoads_engine ls st

end AnyScalar

/-! ## What only the composition can say: the samples the candidates are estimated from -/

/-- **every candidate model of the run is estimated from `k` correspondences with pairwise distinct target indexes** — whenever no
    draw meets collapsed weights (`NoCollapseRun`: `NoCollapse` at each of the `iterations` calls): every sample the run hands to
    the geometry has exactly `k` indexes, all in bounds with a positive loaded weight, pairwise distinct, with pairwise distinct
    TARGET indexes.  Every start state with a legitimate engine, every geometry, every cap. -/
theorem composed_samples_distinct_targets (sc : Scene ℝ ℝ) (cast : ℝ → ℝ) (p eps : ℝ) (cap : Nat) (s : Sampled ℝ ℝ)
    (he : InRange s.smp.engine) (hw : ∀ c ∈ sc.corrs, 0 ≤ c.weight)
    (hnc : NoCollapseRun sc (nDrawOf s.rigid.dim) (estimateModel (sampledOps sc cast) p eps cap s).iterations s.smp) :
    let r := estimateModel (sampledOps sc cast) p eps cap s
    r.s.samples = s.samples ++ sampleSeq sc (nDrawOf s.rigid.dim) r.iterations s.smp ∧
    ∀ smp ∈ sampleSeq sc (nDrawOf s.rigid.dim) r.iterations s.smp,
      smp.length = nDrawOf s.rigid.dim ∧ (∀ i ∈ smp, ∃ h : i < sc.corrs.length, 0 < sc.corrs[i].weight) ∧
      (smp.map (tgtAt sc.corrs)).Nodup ∧ smp.Nodup := by
  intro r
  exact ⟨(composed_engine_advance sc cast p eps cap s).2.2.1, sampleSeq_good sc _ _ s.smp he hw hnc⟩

/-- **on a one-to-one list every candidate is estimated from `k` DISTINCT correspondences**: if the correspondences have positive
    weights and pairwise distinct targets, the source points of different correspondences differ along an axis with non-zero
    `scale_` (`WellSpread`, the hypothesis of `one_to_one_draws_distinct_correspondences`) and `k ≤ n`, then NO draw of NO iteration
    collapses, and every sample of the run consists of `k` in-bounds, pairwise distinct correspondences with pairwise distinct
    target and pairwise distinct source indexes -/
theorem composed_one_to_one_distinct_correspondences (sc : Scene ℝ ℝ) (cast : ℝ → ℝ) (p eps : ℝ) (cap : Nat) (s : Sampled ℝ ℝ)
    (he : InRange s.smp.engine) (hws : WellSpread s.smp.scale sc.pts sc.corrs)
    (hk : nDrawOf s.rigid.dim ≤ sc.corrs.length) :
    let r := estimateModel (sampledOps sc cast) p eps cap s
    (∀ n, NoCollapseRun sc (nDrawOf s.rigid.dim) n s.smp) ∧
    r.s.samples = s.samples ++ sampleSeq sc (nDrawOf s.rigid.dim) r.iterations s.smp ∧
    ∀ smp ∈ sampleSeq sc (nDrawOf s.rigid.dim) r.iterations s.smp,
      smp.length = nDrawOf s.rigid.dim ∧ (∀ i ∈ smp, i < sc.corrs.length) ∧ smp.Nodup ∧
      (smp.map (tgtAt sc.corrs)).Nodup ∧ (smp.map (srcAt sc.corrs)).Nodup := by
  intro r
  have hw : ∀ c ∈ sc.corrs, 0 ≤ c.weight := fun c hc => le_of_lt (hws.wpos c hc)
  have hnc := fun n => noCollapseRun_of_wellSpread sc (nDrawOf s.rigid.dim) n s.smp he hws hk
  obtain ⟨h1, h2⟩ := composed_samples_distinct_targets sc cast p eps cap s he hw (hnc _)
  refine ⟨hnc, h1, fun smp hs => ?_⟩
  obtain ⟨a, b, c, d⟩ := h2 smp hs
  refine ⟨a, fun i hi => (b i hi).1, d, c, ?_⟩
  rw [List.nodup_map_iff_inj_on d]
  intro i hi j hj hij
  exact hws.src_inj i j (b i hi).1 (b j hj).1 hij

/-! ## What only the composition can say: determinism of the whole run -/

section AnyScalar
variable {α β : Type}
variable [Add α] [Sub α] [Mul α] [Div α] [LT α] [DecidableLT α] [LE α] [DecidableLE α] [NatCast α] [Trans α] [Trunc α]
variable [Add β] [Sub β] [Mul β] [Div β] [Neg β] [NatCast β] [Trans β] [Widen β α]

/-- **the whole run is a function of the rigid-model data, the engine state, `scale_`, the scene and the parameters — nothing else**:
    two composed models that agree on those (their stale `weights_` / `cumSumWeights_` may differ) make the same sequence of draws,
    execute the same number of iterations and return the same verdict, best count and bound, and end with the same rigid-model
    state, engine state and `scale_`.  Every scalar type. -/
theorem composed_deterministic (sc : Scene α β) (cast : α → α) (p eps : α) (cap : Nat) (s1 s2 : Sampled α β)
    (hr : s1.rigid = s2.rigid) (he : s1.smp.engine = s2.smp.engine) (hs : s1.smp.scale = s2.smp.scale)
    (hl : s1.samples = s2.samples) :
    let r1 := estimateModel (sampledOps sc cast) p eps cap s1
    let r2 := estimateModel (sampledOps sc cast) p eps cap s2
    r1.s.samples = r2.s.samples ∧ r1.ret = r2.ret ∧ r1.iterations = r2.iterations ∧ r1.best = r2.best ∧ r1.bound = r2.bound ∧
    r1.diverged = r2.diverged ∧ r1.s.rigid = r2.s.rigid ∧ r1.s.smp.engine = r2.s.smp.engine ∧ r1.s.smp.scale = r2.s.smp.scale := by
  intro r1 r2
  obtain ⟨a, b, c, d, e, f1, f2, f3, f4⟩ := estimateModel_congr sc cast p eps cap s1 s2 ⟨hr, he, hs, hl⟩
  exact ⟨f4, a, b, c, d, e, f1, f2, f3⟩

/-- **"deterministic per object"**: two freshly constructed composed models (default-seeded engine, zero `scale_`) — or a fresh one
    and any object in that engine / scale state, whatever its leftover weights — given the same inputs make the same sequence of
    draws and return the same verdict -/
theorem fresh_composed_agree (sc : Scene α β) (cast : α → α) (p eps : α) (cap : Nat) (rigid : Rigid α) (size : Nat)
    (other : Sampler.State α β) (he : other.engine = engineInit) (hs : other.scale = List.replicate size Sampler.zero) :
    let r1 := estimateModel (sampledOps sc cast) p eps cap { rigid := rigid, smp := other, samples := [] }
    let r2 := estimateModel (sampledOps sc cast) p eps cap (Sampled.fresh rigid size : Sampled α β)
    r1.s.samples = r2.s.samples ∧ r1.ret = r2.ret ∧ r1.iterations = r2.iterations ∧ r1.best = r2.best := by
  intro r1 r2
  obtain ⟨a, b, c, d, _⟩ := composed_deterministic sc cast p eps cap
    { rigid := rigid, smp := other, samples := [] } (Sampled.fresh rigid size : Sampled α β) rfl he hs rfl
  exact ⟨a, b, c, d⟩

end AnyScalar

/-! ## Non-vacuity -/

section ComposedExamples

/-- three correspondences on the corners of a triangle (the `wellSpread_example` data), a geometry whose `check_` always fails -/
private noncomputable def sc0 : Scene ℝ ℝ :=
  { order := .left, pts := #[[0, 0], [1, 0], [0, 1]], corrs := [⟨0, 5, 1⟩, ⟨1, 3, 1⟩, ⟨2, 4, 2⟩],
    geom := fun _ _ => { ok := false, errs := [] } }

/-- a freshly loaded 2D model (6 source points in the correspondences, σ = 1) whose sampler has unit `scale_` and engine state 1 -/
private noncomputable def s0 : Sampled ℝ ℝ :=
  { rigid := ⟨2, 6, 1, [], [], [], Consensus.cleared 100, false⟩, smp := ⟨1, [1, 1], [], []⟩, samples := [] }

private theorem s0_inRange : InRange s0.smp.engine := by show 1 ≤ 1 ∧ 1 ≤ Sampler.lcgM - 1; unfold Sampler.lcgM; omega

/-- the composed run is not trivial: with cap 2 and a geometry that rejects every sample, both iterations are executed … -/
private theorem s0_iterations : (estimateModel (sampledOps sc0 id) (0.99 : ℝ) 0 2 s0).iterations = 2 := by
  simp only [estimateModel, loop, body, sampledOps, drawSampled, rigidOps, sc0, s0, Iterations.init, nDrawOf, minInlOf,
    C06.drawPoints2D, C06.minimalInliersFactor]
  simp

/-- … so the engine has advanced by 2 · 3 · 2 = 12 steps, six variates, two samples of three indexes (`composed_engine_advance`) -/
example : (estimateModel (sampledOps sc0 id) (0.99 : ℝ) 0 2 s0).s.smp.engine = next^[12] 1 ∧
    (estimateModel (sampledOps sc0 id) (0.99 : ℝ) 0 2 s0).s.samples.length = 2 := by
  obtain ⟨h1, _, _, h4, _⟩ := composed_engine_advance sc0 id (0.99 : ℝ) 0 2 s0
  rw [s0_iterations] at h1 h4
  exact ⟨h1, h4⟩

/-- the hypotheses of `composed_one_to_one_distinct_correspondences` — and through it `NoCollapseRun`, the hypothesis of
    `composed_samples_distinct_targets` — are met by that model: `k = 3 ≤ 3` correspondences, well spread -/
example : InRange s0.smp.engine ∧ WellSpread s0.smp.scale sc0.pts sc0.corrs ∧ nDrawOf s0.rigid.dim ≤ sc0.corrs.length :=
  ⟨s0_inRange, wellSpread_example, by simp [s0, sc0, nDrawOf, C06.drawPoints2D]⟩

example : NoCollapseRun sc0 (nDrawOf s0.rigid.dim) (estimateModel (sampledOps sc0 id) (0.99 : ℝ) 0 2 s0).iterations s0.smp :=
  (composed_one_to_one_distinct_correspondences sc0 id 0.99 0 2 s0 s0_inRange wellSpread_example
    (by simp [s0, sc0, nDrawOf, C06.drawPoints2D])).1 _

/-- … and both samples of that run are permutations of the three correspondences -/
example : ∀ smp ∈ (estimateModel (sampledOps sc0 id) (0.99 : ℝ) 0 2 s0).s.samples, smp.length = 3 ∧ smp.Nodup := by
  obtain ⟨_, h2, h3⟩ := composed_one_to_one_distinct_correspondences sc0 id 0.99 0 2 s0 s0_inRange wellSpread_example
    (by simp [s0, sc0, nDrawOf, C06.drawPoints2D])
  intro smp hs
  rw [h2] at hs
  have hs' : smp ∈ sampleSeq sc0 (nDrawOf s0.rigid.dim) (estimateModel (sampledOps sc0 id) (0.99 : ℝ) 0 2 s0).iterations s0.smp := by
    simpa [s0] using hs
  obtain ⟨a, _, c, _⟩ := h3 smp hs'
  exact ⟨by simpa [s0, nDrawOf, C06.drawPoints2D] using a, c⟩

/-- hypotheses of `composed_success_implies_consensus` (freshly loaded model) and of `composed_ret_iff`'s right-hand side (enough
    points: `2·3 ≤ 6`) -/
example : s0.rigid.cons.best = [] ∧ s0.rigid.sorted.length < 2 ^ 24 ∧ minInlOf s0.rigid.dim ≤ s0.rigid.nPts := by
  simp [s0, Consensus.cleared, minInlOf, nDrawOf, C06.drawPoints2D, C06.minimalInliersFactor]

/-- a geometry that accepts every sample with zero error on six one-to-one sorted correspondences: the hypothesis `ret = true` of
    `composed_success_implies_consensus` is attainable in the composed model (cap 1: one sample is drawn, its consensus of 6 > 3
    members with RMSE 0 < σ wins, the bound stays ≤ 1 and the loop exits) -/
private noncomputable def sc1 : Scene ℝ ℝ :=
  { order := .left, pts := #[[0, 0], [1, 0], [0, 1]], corrs := [⟨0, 5, 1⟩, ⟨1, 3, 1⟩, ⟨2, 4, 2⟩],
    geom := fun _ _ => { ok := true, errs := [0, 0, 0, 0, 0, 0] } }

private noncomputable def s1 : Sampled ℝ ℝ :=
  { rigid := ⟨2, 6, 1, [⟨0, 0, 0⟩, ⟨1, 1, 0⟩, ⟨2, 2, 0⟩, ⟨3, 3, 0⟩, ⟨4, 4, 0⟩, ⟨5, 5, 0⟩], [], [], Consensus.cleared 100, false⟩,
    smp := ⟨1, [1, 1], [], []⟩, samples := [] }

private theorem s1_count :
    (countInliers id 6 [⟨0, 0, 0⟩, ⟨1, 1, 0⟩, ⟨2, 2, 0⟩, ⟨3, 3, 0⟩, ⟨4, 4, 0⟩, ⟨5, 5, 0⟩] [0, 0, 0, 0, 0, 0] (1 : ℝ)
      (Consensus.cleared 100)).2.1 = 6 := by
  have h : inliers id [⟨0, 0, 0⟩, ⟨1, 1, 0⟩, ⟨2, 2, 0⟩, ⟨3, 3, 0⟩, ⟨4, 4, 0⟩, ⟨5, 5, 0⟩] [0, 0, 0, 0, 0, 0] (1 : ℝ)
      = [⟨0, 0, 0⟩, ⟨1, 1, 0⟩, ⟨2, 2, 0⟩, ⟨3, 3, 0⟩, ⟨4, 4, 0⟩, ⟨5, 5, 0⟩] := by
    simp [inliers, C06.inlierFactor]
  have hu : uniqueInPlace eqTgt ([⟨0, 0, 0⟩, ⟨1, 1, 0⟩, ⟨2, 2, 0⟩, ⟨3, 3, 0⟩, ⟨4, 4, 0⟩, ⟨5, 5, 0⟩] : List (Corr ℝ))
      = [⟨0, 0, 0⟩, ⟨1, 1, 0⟩, ⟨2, 2, 0⟩, ⟨3, 3, 0⟩, ⟨4, 4, 0⟩, ⟨5, 5, 0⟩] := by
    simp [uniqueInPlace, uniq, uniqAux, eqTgt]
  have hr : rmseOf ([⟨0, 0, 0⟩, ⟨1, 1, 0⟩, ⟨2, 2, 0⟩, ⟨3, 3, 0⟩, ⟨4, 4, 0⟩, ⟨5, 5, 0⟩] : List (Corr ℝ)) = 0 := by
    simp [rmseOf, zero]
  simp only [countInliers, h, hu, hr]
  norm_num [Consensus.cleared]

example : (estimateModel (sampledOps sc1 id) (0.99 : ℝ) 0 1 s1).ret = true ∧ s1.rigid.cons.best = [] ∧
    s1.rigid.sorted.length < 2 ^ 24 := by
  refine ⟨?_, by simp [s1, Consensus.cleared], by simp [s1]⟩
  rw [composed_ret_iff]
  refine ⟨by simp [s1, minInlOf, nDrawOf, C06.drawPoints2D, C06.minimalInliersFactor], ?_⟩
  have hmin : minInlOf 2 = 6 := by simp [minInlOf, nDrawOf, C06.drawPoints2D, C06.minimalInliersFactor]
  have hf0 : f32round 0 = 0 := by decide
  have hf6 : f32round 6 = 6 := by decide
  have hnd : nDrawOf s1.rigid.dim = 3 := by simp [s1, nDrawOf, C06.drawPoints2D]
  rw [hnd]
  simp only [estimateModel, sampledOps, rigidOps, s1, hmin, nDrawOf, C06.drawPoints2D]
  simp only [loop, body, drawSampled, sc1, hmin, s1_count, hf0, hf6]
  have hle : (Iterations.update (0 : ℝ) (Iterations.init 0.99 6 1) 6 3).n ≤ 1 := by
    have := iteration_bound_update_le (0 : ℝ) (Iterations.init 0.99 6 1) 6 3
    simpa [Iterations.init] using this
  have hnot : ¬ (1 : ℝ) < (Iterations.update (0 : ℝ) (Iterations.init 0.99 6 1) 6 3).n := not_lt.mpr hle
  have h0 : (0 : ℝ) < (Iterations.init (0.99 : ℝ) 6 1).n := by simp [Iterations.init]
  simp [hnot, h0]

/-- `composed_terminates` at that model: the run of `s0_iterations` used exactly its cap -/
example : (estimateModel (sampledOps sc0 id) (0.99 : ℝ) 0 2 s0).iterations ≤ 2 :=
  (composed_terminates sc0 id 0.99 0 2 s0).2.1

/-- the script of the equivalent skeleton run (`composed_run_is_skeleton_run`) has one candidate per possible pass -/
example : (toRigid sc0 3 s0).todo.length = 3 := by
  rw [(oracle_list_is_geometry_of_samples sc0 3 s0).1, List.length_zipWith,
    (oracle_list_is_geometry_of_samples sc0 3 s0).2]
  simp

/-- `composed_deterministic` / `fresh_composed_agree` apply to a used object whose leftovers differ from a fresh one's -/
example : (⟨engineInit, List.replicate 2 Sampler.zero, [0.5, 0.25], [1, 1]⟩ : Sampler.State ℝ ℝ).engine = engineInit ∧
    (⟨engineInit, List.replicate 2 Sampler.zero, [0.5, 0.25], [1, 1]⟩ : Sampler.State ℝ ℝ).scale = List.replicate 2 Sampler.zero ∧
    (⟨engineInit, List.replicate 2 Sampler.zero, [0.5, 0.25], [1, 1]⟩ : Sampler.State ℝ ℝ).weights
      ≠ (Sampled.fresh s0.rigid 2 : Sampled ℝ ℝ).smp.weights := by
  refine ⟨rfl, rfl, ?_⟩
  simp [Sampled.fresh, Sampler.State.init]

/-- two ICP iterations on one object (`composed_engine_across_runs`): the total is the sum over the runs -/
example : (runLoads [⟨sc0, id, (0.99 : ℝ), 0, 2, s0.rigid⟩, ⟨sc0, id, 0.99, 0, 2, s0.rigid⟩] s0.smp).2
    = 3 * (estimateModel (sampledOps sc0 id) (0.99 : ℝ) 0 2 s0).iterations
      + (3 * (estimateModel (sampledOps sc0 id) (0.99 : ℝ) 0 2
          ⟨s0.rigid, (estimateModel (sampledOps sc0 id) (0.99 : ℝ) 0 2 s0).s.smp, []⟩).iterations + 0) := by
  simp [runLoads, s0, nDrawOf, C06.drawPoints2D]

end ComposedExamples

end Romea.C06
