import RomeaModel.Rotation
import RomeaModel.Coordinates
import RomeaProofs.Lemmas.C10Misc
import Mathlib.Analysis.Real.Pi.Bounds

/-!
# C10 — angle, rotation and coordinate parametrisations are mutually consistent

Property theorems about the executable model `RomeaModel/Rotation.lean`, `RomeaModel/Coordinates.lean`
(the same definitions the driver `drv_c10` runs at `Float` / `Float32` against the C++).

Scalar: `ℝ` (`RomeaProofs/RealInst.lean`): libm functions are the mathematical functions, `atan2 y x = Complex.arg (x + iy)`
(which is `0` at the origin, like IEEE `atan2(0, 0)`), no rounding, no overflow; the `Scalar ↔ double` conversions of the
normalisers are the identity.  Mathlib's real functions are totalised, so every guard of a partial operation on a
theorem's path is carried explicitly: it appears as a proved conjunct (`asin`/`acos` argument in `[-1, 1]`, divisor `≠ 0`)
or follows from a hypothesis in an obvious way (`sqrt` is only ever applied to sums of squares).

Helper lemmas live in `RomeaProofs/Lemmas/C10*.lean`; only property statements (and their non-vacuity examples) are here.
`CongrMod2Pi a b` means `∃ k : ℤ, a = b + k * (2π)`; `IsProperRotation m` means `mᵀ m = 1 ∧ det m = 1` for the Mathlib
matrix of the record `m`; `rotZYX roll pitch yaw = Rz(yaw) * Ry(pitch) * Rx(roll)`.

Not carried (DESIGN.md, C10): floating-point rounding — in particular `between0And2Pi(-1e-17) = 2π` exactly, because
`value + 2π` rounds to `2π`; the `float` instantiations; both are covered by the correspondence check and the probe.
-/
namespace Romea.C10
open Romea.Rotation Romea.Coordinates

/-! ## Angle normalisers -/

/-- `between0And2Pi`: for every input inside the asserted domain `(-4π, 4π)` the result is congruent to the input
    modulo 2π and lies in `[0, 2π)`. -/
theorem normaliser_0_2pi (x : ℝ) (h : -(4 * Real.pi) < x ∧ x < 4 * Real.pi) :
    CongrMod2Pi (between0And2Pi x) x ∧ 0 ≤ between0And2Pi x ∧ between0And2Pi x < 2 * Real.pi :=
  between0And2Pi_spec x h

/-- `betweenMinusPiAndPi`: congruent modulo 2π, inside `[-π, π]`. -/
theorem normaliser_minus_pi_pi (x : ℝ) (h : -(4 * Real.pi) < x ∧ x < 4 * Real.pi) :
    CongrMod2Pi (betweenMinusPiAndPi x) x ∧ -Real.pi ≤ betweenMinusPiAndPi x ∧ betweenMinusPiAndPi x ≤ Real.pi :=
  betweenMinusPiAndPi_spec x h

/-- the model's `fmod` (the function validated against libm's on every run) is the remainder with the sign of the
    dividend, on the normalisers' domain -/
theorem fmod_is_remainder (x : ℝ) (h : -(4 * Real.pi) < x ∧ x < 4 * Real.pi) :
    (∃ k : ℤ, fmod x (2 * Real.pi) = x - k * (2 * Real.pi)) ∧ |fmod x (2 * Real.pi)| < 2 * Real.pi ∧
    (0 ≤ x → 0 ≤ fmod x (2 * Real.pi)) ∧ (x < 0 → fmod x (2 * Real.pi) ≤ 0) := by
  have := Real.pi_pos
  exact fmod_spec x (2 * Real.pi) (by positivity) (by rw [abs_lt]; constructor <;> linarith)

/-- the hypothesis of the three theorems above is exactly the `assert` of the C++ normalisers (`normaliserPre`) -/
theorem normaliser_precondition (x : ℝ) : normaliserPre x = true ↔ -(4 * Real.pi) < x ∧ x < 4 * Real.pi := by
  simp [normaliserPre]

example : -(4 * Real.pi) < (-7 : ℝ) ∧ (-7 : ℝ) < 4 * Real.pi := by
  have := Real.pi_gt_three; constructor <;> linarith

/-! ## Quaternion-built matrix = `Rz * Ry * Rx`; `SmartRotation3D` builds the same matrix -/

/-- `eulerAnglesToRotation3D` (quaternion product of the three angle-axis factors, then `toRotationMatrix`, in any of the
    three association orders Eigen uses) is exactly `Rz(yaw) * Ry(pitch) * Rx(roll)`. -/
theorem quaternion_is_RzRyRx (arch : QArch) (roll pitch yaw : ℝ) :
    eulerAnglesToRotation3D arch ⟨roll, pitch, yaw⟩ = rotZYX roll pitch yaw ∧
    toMatrix (eulerAnglesToRotation3D arch ⟨roll, pitch, yaw⟩) =
      toMatrix (rotZ yaw) * toMatrix (rotY pitch) * toMatrix (rotX roll) := by
  have h := eulerAnglesToRotation3D_eq arch ⟨roll, pitch, yaw⟩
  refine ⟨h, ?_⟩
  rw [h, rotZYX, toMatrix_mul, toMatrix_mul]

/-- the quaternion `eulerAnglesToQuaternion` returns is a unit quaternion (which `toRotationMatrix` silently assumes) -/
theorem euler_quaternion_unit (arch : QArch) (roll pitch yaw : ℝ) :
    normSq (eulerAnglesToQuaternion arch ⟨roll, pitch, yaw⟩) = 1 :=
  normSq_eulerQuat arch _

/-- the SSE association orders of the quaternion product and of the matrix-vector product denote the same real values
    as the generic ones (so the choice the driver makes per scalar type is immaterial to every theorem here) -/
theorem arch_irrelevant (arch : QArch) (a b : Quat ℝ) (m : Mat3 ℝ) (v : Vec3 ℝ) :
    qmul arch a b = qmul .generic a b ∧ Mat3.mulVec arch m v = Mat3.mulVec .generic m v :=
  ⟨qmul_arch arch a b, mulVec_arch arch m v⟩

/-- `SmartRotation3D`: after ANY sequence of `init` calls on a default-constructed object, `R()` is the matrix
    `eulerAnglesToRotation3D` builds from the angles of the last call (the identity if there was none). -/
theorem smart_R_eq (arch : QArch) (calls : List (ℝ × ℝ × ℝ)) :
    (calls.foldl (fun s a => Smart.init s a.1 a.2.1 a.2.2) Smart.new).r =
      match calls.getLast? with
      | some a => eulerAnglesToRotation3D arch ⟨a.1, a.2.1, a.2.2⟩
      | none => Mat3.identity := by
  have inv : ∀ (l : List (ℝ × ℝ × ℝ)) (s : Smart ℝ), SmartInv s →
      SmartInv (l.foldl (fun s a => Smart.init s a.1 a.2.1 a.2.2) s) := by
    intro l
    induction l with
    | nil => intro s h; exact h
    | cons a t ih => intro s h; exact ih _ (smartInv_init s h a.1 a.2.1 a.2.2).1
  rcases List.eq_nil_or_concat calls with h | ⟨init, last, h⟩
  · subst h; simp [Smart.new]
  · subst h
    rw [List.concat_eq_append, List.foldl_append]
    simp only [List.foldl_cons, List.foldl_nil, List.getLast?_append, List.getLast?_singleton, Option.some_or]
    rw [(smartInv_init _ (inv init _ smartInv_new) last.1 last.2.1 last.2.2).2, eulerAnglesToRotation3D_eq]

/-- constructor form: `SmartRotation3D(ax, ay, az).R() = eulerAnglesToRotation3D(ax, ay, az)` -/
theorem smart_ctor_R_eq (arch : QArch) (ax ay az : ℝ) :
    (Smart.ofAngles ax ay az).r = eulerAnglesToRotation3D arch ⟨ax, ay, az⟩ := by
  rw [Smart.ofAngles, (smartInv_init _ smartInv_new ax ay az).2, eulerAnglesToRotation3D_eq]

/-! ## All produced matrices are proper rotations -/

theorem proper_euler (arch : QArch) (roll pitch yaw : ℝ) :
    IsProperRotation (eulerAnglesToRotation3D arch ⟨roll, pitch, yaw⟩) := by
  rw [eulerAnglesToRotation3D_eq]; exact isProper_rotZYX _ _ _

theorem proper_smart (s : Smart ℝ) (h : SmartInv s) (ax ay az : ℝ) : IsProperRotation (Smart.init s ax ay az).r := by
  rw [(smartInv_init s h ax ay az).2]; exact isProper_rotZYX _ _ _

/-- the matrix `quaternionToEulerAngles` decodes is a proper rotation for every non-zero quaternion, unit or not
    (and the division by the norm is guarded) -/
theorem proper_quaternion (q : Quat ℝ) (h : q ≠ ⟨0, 0, 0, 0⟩) :
    Real.sqrt (normSq q) ≠ 0 ∧ IsProperRotation (toRotationMatrix (qnormalized q)) := by
  have hpos : 0 < normSq q := by
    rcases (normSq_nonneg q).eq_or_lt with h0 | hp
    · exact absurd (normSq_eq_zero h0.symm) h
    · exact hp
  obtain ⟨hne, hu⟩ := normSq_qnormalized q hpos
  refine ⟨hne, ?_⟩
  rw [toRotationMatrix_of_unit _ hu]
  exact isProper_hmat _ hu

theorem proper_rotation2d (a : ℝ) : IsProperRotation2 (eulerAngleToRotation2D a) := by
  have := Real.sin_sq_add_cos_sq a
  simp only [IsProperRotation2, eulerAngleToRotation2D, trans_cos, trans_sin]
  refine ⟨⟨?_, ?_, ?_⟩, ?_⟩ <;> nlinarith

example : SmartInv (Smart.new : Smart ℝ) ∧ SmartInv (Smart.init Smart.new 0.3 (-1.2) 4) :=
  ⟨smartInv_new, (smartInv_init _ smartInv_new _ _ _).1⟩

example : (⟨1, 2, -3, 0.5⟩ : Quat ℝ) ≠ ⟨0, 0, 0, 0⟩ := by
  intro h; have := congrArg Quat.w h; norm_num at this

/-! ## angles → rotation → angles -/

/-- For `|pitch| < π/2` and ALL roll, yaw: extracting the angles of `eulerAnglesToRotation3D(roll, pitch, yaw)` returns
    roll, pitch, yaw modulo 2π, each inside `[0, 2π)`; the `asin` argument is inside `[-1, 1]`. -/
theorem angles_roundtrip (arch : QArch) (roll pitch yaw : ℝ) (hp : |pitch| < Real.pi / 2) :
    let m := eulerAnglesToRotation3D arch ⟨roll, pitch, yaw⟩
    let e := rotation3DToEulerAngles m
    (-1 ≤ m.m20 ∧ m.m20 ≤ 1) ∧
    (CongrMod2Pi e.x roll ∧ CongrMod2Pi e.y pitch ∧ CongrMod2Pi e.z yaw) ∧
    (0 ≤ e.x ∧ e.x < 2 * Real.pi) ∧ (0 ≤ e.y ∧ e.y < 2 * Real.pi) ∧ (0 ≤ e.z ∧ e.z < 2 * Real.pi) := by
  intro m e
  rw [abs_lt] at hp
  have hm : m = rotZYX roll pitch yaw := eulerAnglesToRotation3D_eq arch _
  have hcp : 0 < Real.cos pitch := Real.cos_pos_of_mem_Ioo ⟨by linarith, hp.2⟩
  obtain ⟨hc, hx, hy, hz⟩ := fromR_congr m
  have h20 : m.m20 = -Real.sin pitch := by rw [hm, rotZYX_entries]
  have hroll : rawRoll m = Complex.arg ⟨Real.cos pitch * Real.cos roll, Real.cos pitch * Real.sin roll⟩ := by
    rw [hm, rotZYX_entries]; rfl
  have hyaw : rawYaw m = Complex.arg ⟨Real.cos pitch * Real.cos yaw, Real.cos pitch * Real.sin yaw⟩ := by
    rw [hm, rotZYX_entries]; simp only [rawYaw, mul_comm]
  have hpitch : rawPitch m = pitch := by
    rw [rawPitch, h20, Real.arcsin_neg, neg_neg, Real.arcsin_sin (by linarith) hp.2.le]
  refine ⟨?_, ⟨?_, ?_, ?_⟩, hx, hy, hz⟩
  · rw [h20]; constructor <;> linarith [Real.sin_le_one pitch, Real.neg_one_le_sin pitch]
  · exact hc.1.trans (hroll ▸ arg_polar _ roll hcp)
  · exact hpitch ▸ hc.2.1
  · exact hc.2.2.trans (hyaw ▸ arg_polar _ yaw hcp)

/-- the same through the quaternion: `quaternionToEulerAngles(eulerAnglesToQuaternion(angles)) ≡ angles (mod 2π)` -/
theorem angles_quaternion_roundtrip (arch : QArch) (roll pitch yaw : ℝ) (hp : |pitch| < Real.pi / 2) :
    let e := quaternionToEulerAngles (eulerAnglesToQuaternion arch ⟨roll, pitch, yaw⟩)
    (CongrMod2Pi e.x roll ∧ CongrMod2Pi e.y pitch ∧ CongrMod2Pi e.z yaw) ∧
    (0 ≤ e.x ∧ e.x < 2 * Real.pi) ∧ (0 ≤ e.y ∧ e.y < 2 * Real.pi) ∧ (0 ≤ e.z ∧ e.z < 2 * Real.pi) := by
  intro e
  have hu := normSq_eulerQuat arch ⟨roll, pitch, yaw⟩
  have hn : qnormalized (eulerAnglesToQuaternion arch ⟨roll, pitch, yaw⟩) = eulerAnglesToQuaternion arch ⟨roll, pitch, yaw⟩ := by
    rw [qnormalized_real, hu, if_pos one_pos, Real.sqrt_one]; simp
  have he : e = rotation3DToEulerAngles (eulerAnglesToRotation3D arch ⟨roll, pitch, yaw⟩) := by
    simp only [e, quaternionToEulerAngles, hn, eulerAnglesToRotation3D]
  rw [he]
  exact (angles_roundtrip arch roll pitch yaw hp).2

example : |(-1.5 : ℝ)| < Real.pi / 2 := by
  rw [abs_lt]; have := Real.pi_gt_three; constructor <;> linarith

/-! ## rotation → angles → rotation -/

/-- For every proper rotation with `|R20| < 1`: rebuilding a rotation from the extracted angles returns the rotation
    (the extracted angles are inside `[0, 2π)` by `fromR_congr`; `asin`'s argument is inside `[-1, 1]`). -/
theorem rotation_roundtrip (arch : QArch) (m : Mat3 ℝ) (h : IsProperRotation m) (hlt : |m.m20| < 1) :
    (-1 ≤ m.m20 ∧ m.m20 ≤ 1) ∧ eulerAnglesToRotation3D arch (rotation3DToEulerAngles m) = m := by
  refine ⟨⟨(abs_lt.mp hlt).1.le, (abs_lt.mp hlt).2.le⟩, ?_⟩
  obtain ⟨⟨c1, c2, c3⟩, _⟩ := fromR_congr m
  rw [eulerAnglesToRotation3D_eq, rotZYX_congr c1 c2 c3]
  exact rotZYX_raw m h hlt

/-- the same from a (unit or non-unit) non-zero quaternion: the angles rebuild exactly the rotation the quaternion denotes -/
theorem quaternion_rotation_roundtrip (arch : QArch) (q : Quat ℝ) (h : q ≠ ⟨0, 0, 0, 0⟩)
    (hlt : |(toRotationMatrix (qnormalized q)).m20| < 1) :
    eulerAnglesToRotation3D arch (quaternionToEulerAngles q) = toRotationMatrix (qnormalized q) :=
  (rotation_roundtrip arch _ (proper_quaternion q h).2 hlt).2

example : IsProperRotation (rotZYX 0.3 (Real.pi / 6) (-2)) ∧ |(rotZYX 0.3 (Real.pi / 6) (-2)).m20| < 1 := by
  refine ⟨isProper_rotZYX _ _ _, ?_⟩
  rw [rotZYX_entries]
  simp only [abs_neg, Real.sin_pi_div_six]
  rw [abs_lt]; constructor <;> norm_num

/-! ## quaternion scale invariance -/

/-- `quaternionToEulerAngles(s·q) = quaternionToEulerAngles(q)` for every `s ≠ 0` (negative included) and every `q` -/
theorem quaternion_scale_invariant (s : ℝ) (hs : s ≠ 0) (q : Quat ℝ) :
    quaternionToEulerAngles (qscale s q) = quaternionToEulerAngles q := by
  simp only [quaternionToEulerAngles, toRotationMatrix_qnormalized_qscale s hs q]

example : (-2.5 : ℝ) ≠ 0 := by norm_num

/-! ## the planar pair -/

/-- angle → 2×2 rotation → angle: the angle modulo 2π, in `[0, 2π)` -/
theorem rotation2d_inverse_angle (a : ℝ) :
    CongrMod2Pi (rotation2DToEulerAngle (eulerAngleToRotation2D a)) a ∧
    0 ≤ rotation2DToEulerAngle (eulerAngleToRotation2D a) ∧ rotation2DToEulerAngle (eulerAngleToRotation2D a) < 2 * Real.pi := by
  have e : rotation2DToEulerAngle (eulerAngleToRotation2D a) =
      between0And2Pi (Complex.arg ⟨2 * Real.cos a, 2 * Real.sin a⟩) := by
    simp only [rotation2DToEulerAngle, eulerAngleToRotation2D, trans_atan2, trans_cos, trans_sin]
    congr 3 <;> ring
  rw [e]
  exact b02pi_arg_polar 2 a two_pos

/-- 2×2 proper rotation → angle → rotation: the rotation -/
theorem rotation2d_inverse_rotation (m : Mat2 ℝ) (h : IsProperRotation2 m) :
    eulerAngleToRotation2D (rotation2DToEulerAngle m) = m := by
  obtain ⟨h11, h01⟩ := proper2_shape m h
  obtain ⟨⟨h0, _, _⟩, _⟩ := h
  have e : rotation2DToEulerAngle m = between0And2Pi (Complex.arg ⟨2 * m.m00, 2 * m.m10⟩) := by
    simp only [rotation2DToEulerAngle, trans_atan2]
    congr 3
    · rw [h11]; ring
    · rw [h01]; ring
  obtain ⟨c, _, _⟩ := between0And2Pi_spec _ (arg_range ⟨2 * m.m00, 2 * m.m10⟩)
  have hp := polar_form (2 * m.m00) (2 * m.m10)
  have hs : Real.sqrt (2 * m.m00 * (2 * m.m00) + 2 * m.m10 * (2 * m.m10)) = 2 := by
    have : 2 * m.m00 * (2 * m.m00) + 2 * m.m10 * (2 * m.m10) = 2 * 2 := by nlinarith
    rw [this]; exact Real.sqrt_mul_self (by norm_num)
  rw [hs] at hp
  apply Mat2.ext' <;> simp only [eulerAngleToRotation2D, trans_cos, trans_sin, e, c.sin_eq, c.cos_eq]
  · linarith [hp.1]
  · linarith [hp.2]
  · linarith [hp.2]
  · linarith [hp.1]

example : IsProperRotation2 ⟨0, -1, 1, 0⟩ := by simp [IsProperRotation2]

/-! ## `rigid_transformation3` -/

/-- linear part `Rx(ax) * Ry(ay) * Rz(az)` (a proper rotation), translation column `linear * t` -/
theorem rigid_transformation3_spec (arch : QArch) (t : Vec3 ℝ) (ax ay az : ℝ) :
    let r := rigidTransformation3 arch t ⟨ax, ay, az⟩
    r.1 = Mat3.mul (Mat3.mul (rotX ax) (rotY ay)) (rotZ az) ∧ IsProperRotation r.1 ∧
    r.2 = Mat3.mulVec .generic r.1 t := by
  intro r
  have h1 : r.1 = Mat3.mul (Mat3.mul (rotX ax) (rotY ay)) (rotZ az) := by
    simp only [r, rigidTransformation3, angleAxisX, angleAxisY, angleAxisZ, identity_mul]
  refine ⟨h1, ?_, ?_⟩
  · rw [h1]; exact isProper_mul (isProper_mul (isProper_rotX ax) (isProper_rotY ay)) (isProper_rotZ az)
  · simp only [r, rigidTransformation3, mulVec_arch arch]
    apply Vec3.ext' <;> simp

/-! ## polar coordinates -/

/-- Cartesian → polar → Cartesian is the identity (every point, the origin included) -/
theorem polar_cartesian_roundtrip (x y : ℝ) : polarToCartesian (toPolar x y) = (x, y) := by
  have h := polar_form x y
  simp only [polarToCartesian, toPolar, polarRange, polarAzimut, trans_sqrt, trans_cos, trans_sin, trans_atan2]
  rw [h.1, h.2]

/-- polar → Cartesian → polar: the range (for `r ≥ 0`) and, for `r > 0`, the azimuth modulo 2π — the azimuth itself when
    it lies in `(-π, π]` -/
theorem polar_roundtrip (r a : ℝ) (hr : 0 < r) :
    let c := polarToCartesian (⟨r, a⟩ : Polar ℝ)
    (toPolar c.1 c.2).range = r ∧ CongrMod2Pi (toPolar c.1 c.2).azimut a ∧
    (-Real.pi < a ∧ a ≤ Real.pi → (toPolar c.1 c.2).azimut = a) := by
  intro c
  have hc : c = (r * Real.cos a, r * Real.sin a) := rfl
  have hrange : (toPolar c.1 c.2).range = r := by
    simp only [hc, toPolar, polarRange, trans_sqrt]
    have : r * Real.cos a * (r * Real.cos a) + r * Real.sin a * (r * Real.sin a) = r * r := by
      nlinarith [Real.sin_sq_add_cos_sq a]
    rw [this]; exact Real.sqrt_mul_self hr.le
  have haz : (toPolar c.1 c.2).azimut = Complex.arg ⟨r * Real.cos a, r * Real.sin a⟩ := rfl
  refine ⟨hrange, haz ▸ arg_polar r a hr, fun hI => ?_⟩
  rw [haz]
  have h : (⟨r * Real.cos a, r * Real.sin a⟩ : ℂ) = (r : ℂ) * (Complex.cos a + Complex.sin a * Complex.I) := by
    apply Complex.ext <;> simp [← Complex.ofReal_cos, ← Complex.ofReal_sin]
  rw [h]
  exact Complex.arg_mul_cos_add_sin_mul_I hr ⟨hI.1, hI.2⟩

example : (0 : ℝ) < 2.5 ∧ (-Real.pi < (3 : ℝ) ∧ (3 : ℝ) ≤ Real.pi) := by
  have := Real.pi_gt_three; refine ⟨by norm_num, by linarith, by linarith⟩

/-! ## spherical coordinates -/

/-- Cartesian → spherical → Cartesian is the identity for every point but the origin; the guards of the division and
    of `acos` hold -/
theorem spherical_cartesian_roundtrip (x y z : ℝ) (h : ¬ (x = 0 ∧ y = 0 ∧ z = 0)) :
    sphericalRange x y z ≠ 0 ∧ (-1 ≤ z / sphericalRange x y z ∧ z / sphericalRange x y z ≤ 1) ∧
    sphericalToCartesian (toSpherical x y z) = (x, y, z) := by
  have hpos : 0 < x * x + y * y + z * z := by
    by_contra hn
    have h0 : x * x + y * y + z * z = 0 :=
      le_antisymm (not_lt.mp hn) (by nlinarith [mul_self_nonneg x, mul_self_nonneg y, mul_self_nonneg z])
    have hx : x = 0 := by nlinarith [mul_self_nonneg x, mul_self_nonneg y, mul_self_nonneg z]
    have hy : y = 0 := by nlinarith [mul_self_nonneg x, mul_self_nonneg y, mul_self_nonneg z]
    have hz : z = 0 := by nlinarith [mul_self_nonneg x, mul_self_nonneg y, mul_self_nonneg z]
    exact h ⟨hx, hy, hz⟩
  have hρ : sphericalRange x y z = Real.sqrt (x * x + y * y + z * z) := rfl
  set ρ := sphericalRange x y z with hρdef
  have hρpos : 0 < ρ := by rw [hρ]; exact Real.sqrt_pos.mpr hpos
  have hρsq : ρ * ρ = x * x + y * y + z * z := by rw [hρ]; exact Real.mul_self_sqrt hpos.le
  have hlo : -1 ≤ z / ρ := by
    rw [le_div_iff₀ hρpos]; nlinarith [mul_self_nonneg x, mul_self_nonneg y, mul_self_nonneg (z + ρ)]
  have hhi : z / ρ ≤ 1 := by
    rw [div_le_iff₀ hρpos]; nlinarith [mul_self_nonneg x, mul_self_nonneg y, mul_self_nonneg (z - ρ)]
  refine ⟨hρpos.ne', ⟨hlo, hhi⟩, ?_⟩
  have hp := polar_form x y
  -- ρ sin(acos(z/ρ)) = sqrt(x² + y²)
  have hsin : ρ * Real.sin (Real.arccos (z / ρ)) = Real.sqrt (x * x + y * y) := by
    rw [Real.sin_arccos]
    have e : 1 - (z / ρ) ^ 2 = (x * x + y * y) / (ρ * ρ) := by
      field_simp; nlinarith
    rw [e, Real.sqrt_div (by nlinarith [mul_self_nonneg x, mul_self_nonneg y]), Real.sqrt_mul_self hρpos.le]
    field_simp
  have hcos : ρ * Real.cos (Real.arccos (z / ρ)) = z := by
    rw [Real.cos_arccos hlo hhi]; field_simp
  simp only [sphericalToCartesian, toSpherical, sphericalElevation, trans_acos, trans_cos, trans_sin, trans_atan2, ← hρdef]
  refine Prod.ext ?_ (Prod.ext ?_ ?_)
  · calc ρ * Real.cos (Complex.arg ⟨x, y⟩) * Real.sin (Real.arccos (z / ρ))
        = (ρ * Real.sin (Real.arccos (z / ρ))) * Real.cos (Complex.arg ⟨x, y⟩) := by ring
      _ = x := by rw [hsin, hp.1]
  · calc ρ * Real.sin (Complex.arg ⟨x, y⟩) * Real.sin (Real.arccos (z / ρ))
        = (ρ * Real.sin (Real.arccos (z / ρ))) * Real.sin (Complex.arg ⟨x, y⟩) := by ring
      _ = y := by rw [hsin, hp.2]
  · exact hcos

/-- spherical → Cartesian → spherical for `r > 0`, elevation in `[0, π]`: range and elevation are recovered; the azimuth
    modulo 2π whenever the point is off the z axis (`0 < elevation < π`), and exactly when it also lies in `(-π, π]`.
    The guards of the division and of `acos` hold. -/
theorem spherical_roundtrip (r az el : ℝ) (hr : 0 < r) (hel : 0 ≤ el ∧ el ≤ Real.pi) :
    let c := sphericalToCartesian (⟨r, az, el⟩ : Spherical ℝ)
    let s := toSpherical c.1 c.2.1 c.2.2
    sphericalRange c.1 c.2.1 c.2.2 ≠ 0 ∧ s.range = r ∧ s.elevation = el ∧
    (0 < el ∧ el < Real.pi → CongrMod2Pi s.azimut az ∧ (-Real.pi < az ∧ az ≤ Real.pi → s.azimut = az)) := by
  intro c s
  have hc : c = (r * Real.cos az * Real.sin el, r * Real.sin az * Real.sin el, r * Real.cos el) := rfl
  have hrange : sphericalRange c.1 c.2.1 c.2.2 = r := by
    simp only [hc, sphericalRange, trans_sqrt]
    have : r * Real.cos az * Real.sin el * (r * Real.cos az * Real.sin el) +
        r * Real.sin az * Real.sin el * (r * Real.sin az * Real.sin el) + r * Real.cos el * (r * Real.cos el) = r * r := by
      have h1 := Real.sin_sq_add_cos_sq az
      have h2 := Real.sin_sq_add_cos_sq el
      have : (Real.cos az ^ 2 + Real.sin az ^ 2) * Real.sin el ^ 2 + Real.cos el ^ 2 = 1 := by
        rw [add_comm (Real.cos az ^ 2), h1, one_mul, h2]
      nlinarith
    rw [this]; exact Real.sqrt_mul_self hr.le
  have hs : s = ⟨r, Complex.arg ⟨r * Real.cos az * Real.sin el, r * Real.sin az * Real.sin el⟩,
      Real.arccos (r * Real.cos el / r)⟩ := by
    simp only [s, toSpherical, sphericalElevation, hrange, trans_atan2, trans_acos]
    rw [hc]
  refine ⟨by rw [hrange]; exact hr.ne', by rw [hs], ?_, ?_⟩
  · rw [hs]; simp only
    rw [mul_div_cancel_left₀ _ hr.ne', Real.arccos_cos hel.1 hel.2]
  · intro hI
    have hsin : 0 < r * Real.sin el := mul_pos hr (Real.sin_pos_of_pos_of_lt_pi hI.1 hI.2)
    have e : (⟨r * Real.cos az * Real.sin el, r * Real.sin az * Real.sin el⟩ : ℂ) =
        ⟨(r * Real.sin el) * Real.cos az, (r * Real.sin el) * Real.sin az⟩ := by
      apply Complex.ext <;> simp <;> ring
    rw [hs]; simp only
    rw [e]
    refine ⟨arg_polar _ az hsin, fun hA => ?_⟩
    have h : (⟨(r * Real.sin el) * Real.cos az, (r * Real.sin el) * Real.sin az⟩ : ℂ) =
        ((r * Real.sin el : ℝ) : ℂ) * (Complex.cos az + Complex.sin az * Complex.I) := by
      apply Complex.ext <;> simp [← Complex.ofReal_cos, ← Complex.ofReal_sin]
    rw [h]
    exact Complex.arg_mul_cos_add_sin_mul_I hsin ⟨hA.1, hA.2⟩

example : ¬ ((3e-8 : ℝ) = 0 ∧ (4e-8 : ℝ) = 0 ∧ (1 : ℝ) = 0) := by norm_num
example : (0 : ℝ) < 1e6 ∧ ((0 : ℝ) ≤ 2 ∧ (2 : ℝ) ≤ Real.pi) ∧ ((0 : ℝ) < 2 ∧ (2 : ℝ) < Real.pi) := by
  have := Real.pi_gt_three; refine ⟨by norm_num, ⟨by norm_num, by linarith⟩, by norm_num, by linarith⟩

end Romea.C10
