import RomeaModel.Geodesy
import RomeaProofs.RN
import RomeaProofs.Lemmas.C01Analysis
import Mathlib.Tactic.Linarith
import Mathlib.Tactic.Ring
import Mathlib.Tactic.FieldSimp
import Mathlib.Tactic.Positivity

/-!
# C01 — ECEF ↔ geodetic conversion

The theorems are stated over `RN` (reals with an absorbing NaN, `RomeaProofs/RN.lean`): every division,
square root and `atan2` on the path has its guard discharged — the statement `f (of x) = of y` is not
provable otherwise.  The route is: (i) on the domain the `RN` run of the model equals the image of the
`ℝ` run (`*_of` bridge lemmas, which is where all guards are discharged), (ii) geometry/algebra on the
`ℝ` run.  Idealisation (trusted base): exact arithmetic, no overflow, libm = the mathematical functions.

Domain (`Dom`): `0 < b ≤ a`, `|lat| < π/2`, `N(lat)(1−e²) + h > 0` — implied by the quantifier text of the
property (`PropDom`: `|lat| ≤ 89.9°`, `h ∈ [−11 km, 100 km]`, `a` within 0.1 % of 6378137 m, `f ≤ 1/290`;
`PropDom.dom`).  Sections 1–4: identities and ranges on `Dom`; sections 5–7: contraction of the latitude
iteration (`q = 0.0099`), exit within 8 passes, round-trip accuracy and reverse composition on `PropDom`
(real-analysis helper lemmas: `RomeaProofs/Lemmas/C01Analysis.lean`).
-/
namespace Romea.C01
open Romea Romea.Geodesy Romea.RN Real

/-! ## Embedding of real data into `RN` -/

def ofE (E : Ellipsoid ℝ) : Ellipsoid RN := ⟨of E.a, of E.b, of E.e2, of E.e⟩
def ofG (g : Geo ℝ) : Geo RN := ⟨of g.lat, of g.lon, of g.alt⟩
def ofV (v : Vec3 ℝ) : Vec3 RN := ⟨of v.x, of v.y, of v.z⟩

/-- the domain of the property, as explicit predicates -/
structure Dom (a b lat h : ℝ) : Prop where
  hb : 0 < b
  hab : b ≤ a
  hlat₁ : -(π / 2) < lat
  hlat₂ : lat < π / 2
  hh : 0 < primeVertical (Ellipsoid.make a b) lat * (1 - (Ellipsoid.make a b).e2) + h

/-! ## Elementary facts about the ellipsoid (private helpers) -/

private theorem e2_eq (a b : ℝ) : (Ellipsoid.make a b).e2 = (a * a - b * b) / (a * a) := rfl
private theorem a_eq (a b : ℝ) : (Ellipsoid.make a b).a = a := rfl

private theorem e2_bounds {a b : ℝ} (hb : 0 < b) (hab : b ≤ a) :
    0 ≤ (Ellipsoid.make a b).e2 ∧ (Ellipsoid.make a b).e2 < 1 ∧
    1 - (Ellipsoid.make a b).e2 = b * b / (a * a) := by
  have ha : 0 < a := lt_of_lt_of_le hb hab
  have haa : 0 < a * a := by positivity
  rw [e2_eq]
  refine ⟨?_, ?_, ?_⟩
  · apply div_nonneg _ haa.le
    nlinarith
  · rw [div_lt_one haa]; nlinarith
  · field_simp; ring

/-- `1 - e² sin² lat ≥ 1 - e² > 0` -/
private theorem w_pos {a b : ℝ} (hb : 0 < b) (hab : b ≤ a) (lat : ℝ) :
    0 < 1 - (Ellipsoid.make a b).e2 * sin lat * sin lat := by
  obtain ⟨h0, h1, _⟩ := e2_bounds hb hab
  have hs : sin lat * sin lat ≤ 1 := by nlinarith [sin_sq_add_cos_sq lat, sq_nonneg (cos lat)]
  have : (Ellipsoid.make a b).e2 * sin lat * sin lat ≤ (Ellipsoid.make a b).e2 := by
    rw [mul_assoc]; exact mul_le_of_le_one_right h0 hs
  linarith

/-- guard of the square root and of the division in `toECEF` / `toWGS84`: `1 - e² sin² lat > 0` -/
theorem radicand_pos {a b : ℝ} (hb : 0 < b) (hab : b ≤ a) (lat : ℝ) :
    0 < 1 - (Ellipsoid.make a b).e2 * sin lat * sin lat := w_pos hb hab lat

private theorem primeVertical_eq (E : Ellipsoid ℝ) (lat : ℝ) :
    primeVertical E lat = E.a / Real.sqrt (1 - E.e2 * sin lat * sin lat) := by
  simp [primeVertical]

private theorem N_pos {a b : ℝ} (hb : 0 < b) (hab : b ≤ a) (lat : ℝ) :
    0 < primeVertical (Ellipsoid.make a b) lat := by
  rw [primeVertical_eq]
  exact div_pos (lt_of_lt_of_le hb hab) (Real.sqrt_pos.mpr (w_pos hb hab lat))

/-! ## Bridge lemmas: on the domain the `RN` run is the image of the `ℝ` run -/

/-- the constructor: guards `a*a ≠ 0` (division) and `0 ≤ e²` (square root) -/
theorem make_of {a b : ℝ} (hb : 0 < b) (hab : b ≤ a) :
    Ellipsoid.make (of a) (of b) = ofE (Ellipsoid.make a b) := by
  have ha : 0 < a := lt_of_lt_of_le hb hab
  have haa : a * a ≠ 0 := by positivity
  have h0 := (e2_bounds hb hab).1
  rw [e2_eq] at h0
  simp only [Ellipsoid.make, ofE, mul_of, sub_of]
  rw [div_of _ _ haa, sqrt_of _ h0]
  rfl

/-- `primeVertical`: guards `0 ≤ 1 - e² sin²` (sqrt) and `sqrt … ≠ 0` (division) -/
theorem primeVertical_of (E : Ellipsoid ℝ) (lat : ℝ) (hw : 0 < 1 - E.e2 * sin lat * sin lat) :
    primeVertical (ofE E) (of lat) = of (primeVertical E lat) := by
  have hs : Real.sqrt (1 - E.e2 * sin lat * sin lat) ≠ 0 := (Real.sqrt_pos.mpr hw).ne'
  simp only [primeVertical, ofE, one, natCast_of, Nat.cast_one, sin_of, mul_of, sub_of]
  rw [sqrt_of _ hw.le, div_of _ _ hs]
  rfl

/-- `toECEF` has no further partial operation -/
theorem toECEF_of (E : Ellipsoid ℝ) (g : Geo ℝ) (hw : 0 < 1 - E.e2 * sin g.lat * sin g.lat) :
    toECEF (ofE E) (ofG g) = ofV (toECEF E g) := by
  have hN := primeVertical_of E g.lat hw
  simp only [toECEF, ofG, ofV]
  rw [hN]
  simp only [ofE, one, natCast_of, Nat.cast_one, sin_of, cos_of, mul_of, sub_of, add_of]
  rfl

/-! ## 1. `toECEF` yields the point on the ellipsoid normal through (lat, lon) at height h -/

private theorem N_sq {a b : ℝ} (hb : 0 < b) (hab : b ≤ a) (lat : ℝ) :
    primeVertical (Ellipsoid.make a b) lat ^ 2 * (1 - (Ellipsoid.make a b).e2 * sin lat * sin lat) = a ^ 2 := by
  have hw := w_pos hb hab lat
  rw [primeVertical_eq, a_eq, div_pow, Real.sq_sqrt hw.le]
  exact div_mul_cancel₀ _ hw.ne'

/-- F1. For `0 < b ≤ a`: the `RN` run of `toECEF` is defined (no guard fails) and its value `P` satisfies:
    the height-0 point `P0` lies on the ellipsoid `x²/a² + y²/a² + z²/b² = 1`; the gradient of that quadric
    at `P0` is a positive multiple of the unit vector `n = (cos lat cos lon, cos lat sin lon, sin lat)`
    (so `n` is the outward ellipsoid normal at `P0`, i.e. `lat`, `lon` are the geodetic coordinates of `P0`);
    and `P = P0 + h·n`. -/
theorem toECEF_on_normal {a b : ℝ} (lat lon h : ℝ) (hb : 0 < b) (hab : b ≤ a) :
    let E := Ellipsoid.make a b
    let n : Vec3 ℝ := ⟨cos lat * cos lon, cos lat * sin lon, sin lat⟩
    let P0 := toECEF E ⟨lat, lon, 0⟩
    let P := toECEF E ⟨lat, lon, h⟩
    toECEF (Ellipsoid.make (of a) (of b)) ⟨of lat, of lon, of 0⟩ = ofV P0 ∧
    toECEF (Ellipsoid.make (of a) (of b)) ⟨of lat, of lon, of h⟩ = ofV P ∧
    P0.x ^ 2 / a ^ 2 + P0.y ^ 2 / a ^ 2 + P0.z ^ 2 / b ^ 2 = 1 ∧
    (∃ k : ℝ, 0 < k ∧ 2 * P0.x / a ^ 2 = k * n.x ∧ 2 * P0.y / a ^ 2 = k * n.y ∧ 2 * P0.z / b ^ 2 = k * n.z) ∧
    n.x ^ 2 + n.y ^ 2 + n.z ^ 2 = 1 ∧
    P.x = P0.x + h * n.x ∧ P.y = P0.y + h * n.y ∧ P.z = P0.z + h * n.z := by
  intro E n P0 P
  have ha : 0 < a := lt_of_lt_of_le hb hab
  have hw := w_pos hb hab lat
  obtain ⟨he0, he1, hk⟩ := e2_bounds hb hab
  have hN := N_pos hb hab lat
  have hN2 := N_sq hb hab lat
  have hx0 : P0.x = primeVertical E lat * cos lat * cos lon := by simp [P0, toECEF]
  have hy0 : P0.y = primeVertical E lat * cos lat * sin lon := by simp [P0, toECEF]
  have hz0 : P0.z = primeVertical E lat * (1 - E.e2) * sin lat := by simp [P0, toECEF]
  have hx : P.x = (primeVertical E lat + h) * cos lat * cos lon := rfl
  have hy : P.y = (primeVertical E lat + h) * cos lat * sin lon := rfl
  have hz : P.z = (primeVertical E lat * (1 - E.e2) + h) * sin lat := by
    simp [P, toECEF]
  have hsc := sin_sq_add_cos_sq lat
  have hsl := sin_sq_add_cos_sq lon
  refine ⟨?_, ?_, ?_, ?_, ?_, ?_, ?_, ?_⟩
  · rw [make_of hb hab]; exact toECEF_of E ⟨lat, lon, 0⟩ hw
  · rw [make_of hb hab]; exact toECEF_of E ⟨lat, lon, h⟩ hw
  · -- on the ellipsoid
    rw [hx0, hy0, hz0, hk]
    have hb2 : b ^ 2 ≠ 0 := by positivity
    have ha2 : a ^ 2 ≠ 0 := by positivity
    have key : primeVertical E lat ^ 2 * (cos lat ^ 2 + (b * b / (a * a)) * sin lat ^ 2) = a ^ 2 := by
      rw [← hN2, ← hk]; have : cos lat ^ 2 = 1 - sin lat ^ 2 := by linarith
      rw [this]; ring
    field_simp
    field_simp at key
    linear_combination key + primeVertical E lat ^ 2 * cos lat ^ 2 * a ^ 2 * hsl
  · refine ⟨2 * primeVertical E lat / a ^ 2, by positivity, ?_, ?_, ?_⟩
    · rw [hx0]; simp only [n]; ring
    · rw [hy0]; simp only [n]; ring
    · rw [hz0, hk]; simp only [n]; field_simp
  · simp only [n]; nlinarith [hsc, hsl]
  · rw [hx, hx0]; simp only [n]; ring
  · rw [hy, hy0]; simp only [n]; ring
  · rw [hz, hz0]; simp only [n]; ring

/-! ## Facts on the domain -/

private theorem dom_facts {a b lat h : ℝ} (hd : Dom a b lat h) :
    0 < cos lat ∧ 0 < primeVertical (Ellipsoid.make a b) lat + h ∧
    0 < (primeVertical (Ellipsoid.make a b) lat + h) * cos lat := by
  have hc : 0 < cos lat := cos_pos_of_mem_Ioo ⟨hd.hlat₁, hd.hlat₂⟩
  have hN := N_pos hd.hb hd.hab lat
  obtain ⟨he0, _, _⟩ := e2_bounds hd.hb hd.hab
  have hh := hd.hh
  have : 0 < primeVertical (Ellipsoid.make a b) lat + h := by nlinarith
  exact ⟨hc, this, mul_pos this hc⟩

/-- guard used by C01.2/3 and C02: the horizontal radius `(N + h) cos lat` is positive on the domain -/
theorem horizontal_radius_pos {a b lat h : ℝ} (hd : Dom a b lat h) :
    0 < (primeVertical (Ellipsoid.make a b) lat + h) * cos lat := (dom_facts hd).2.2

private theorem W_le_one {a b : ℝ} (hb : 0 < b) (hab : b ≤ a) (lat : ℝ) :
    Real.sqrt (1 - (Ellipsoid.make a b).e2 * sin lat * sin lat) ≤ 1 := by
  obtain ⟨he0, _, _⟩ := e2_bounds hb hab
  rw [Real.sqrt_le_left zero_le_one]
  have : 0 ≤ (Ellipsoid.make a b).e2 * sin lat * sin lat := by
    rw [mul_assoc]; exact mul_nonneg he0 (mul_self_nonneg _)
  linarith

/-- the meridional radius `M = a(1-e²)/(1-e² sin²)^{3/2}` satisfies `M + h ≥ N(1-e²) + h > 0` on the domain
    (used by C02: the second ENU axis is the direction of increasing latitude) -/
theorem meridional_radius_pos {a b lat h : ℝ} (hd : Dom a b lat h) :
    0 < (Ellipsoid.make a b).a * (1 - (Ellipsoid.make a b).e2) /
      Real.sqrt (1 - (Ellipsoid.make a b).e2 * sin lat * sin lat) ^ 3 + h := by
  have hw := w_pos hd.hb hd.hab lat
  have hW := Real.sqrt_pos.mpr hw
  have hW1 := W_le_one hd.hb hd.hab lat
  obtain ⟨he0, he1, _⟩ := e2_bounds hd.hb hd.hab
  have ha : 0 < a := lt_of_lt_of_le hd.hb hd.hab
  have hh := hd.hh
  rw [primeVertical_eq] at hh
  rw [a_eq] at hh ⊢
  set W := Real.sqrt (1 - (Ellipsoid.make a b).e2 * sin lat * sin lat) with hWdef
  have h3 : W ^ 3 ≤ W := by nlinarith [mul_pos hW hW]
  have : a / W * (1 - (Ellipsoid.make a b).e2) ≤ a * (1 - (Ellipsoid.make a b).e2) / W ^ 3 := by
    rw [div_mul_eq_mul_div]
    exact div_le_div_of_nonneg_left (by nlinarith) (by positivity) h3
  linarith

/-- horizontal distance of the image point: `sqrt(X² + Y²) = (N + h) cos lat` -/
private theorem norm_real {r : ℝ} (hr : 0 < r) (lon : ℝ) :
    Real.sqrt (r * cos lon * (r * cos lon) + r * sin lon * (r * sin lon)) = r := by
  have : r * cos lon * (r * cos lon) + r * sin lon * (r * sin lon) = r ^ 2 := by
    nlinarith [sin_sq_add_cos_sq lon]
  rw [this, Real.sqrt_sq hr.le]

theorem normXY_of (X Y : ℝ) : normXY (of X) (of Y) = of (Real.sqrt (X * X + Y * Y)) := by
  have h : 0 ≤ X * X + Y * Y := by nlinarith [mul_self_nonneg X, mul_self_nonneg Y]
  simp only [normXY, mul_of, add_of]
  exact sqrt_of _ h

/-! ## 2. The longitude is recovered on (−π, π]; −π comes back as π -/

private theorem arg_polar {r θ : ℝ} (hr : 0 < r) (hθ₁ : -π < θ) (hθ₂ : θ ≤ π) :
    Complex.arg ⟨r * cos θ, r * sin θ⟩ = θ := by
  have : (⟨r * cos θ, r * sin θ⟩ : ℂ) = (r : ℂ) * (Complex.cos θ + Complex.sin θ * Complex.I) := by
    apply Complex.ext <;>
      simp [Complex.cos_ofReal_re, Complex.sin_ofReal_re, Complex.cos_ofReal_im, Complex.sin_ofReal_im]
  rw [this]
  exact Complex.arg_mul_cos_add_sin_mul_I hr ⟨hθ₁, hθ₂⟩

theorem lonOf_of (X Y : ℝ) (h : ¬ (X = 0 ∧ Y = 0)) : lonOf (of X) (of Y) = of (Complex.arg ⟨X, Y⟩) :=
  atan2_of Y X h

private theorem toWGS84_lon {α : Type} [Add α] [Sub α] [Mul α] [Div α] [LT α] [DecidableLT α] [NatCast α]
    [OfScientific α] [Trans α] {fuel : Nat} {E : Ellipsoid α} {p : Vec3 α} {r : Geo α}
    (h : toWGS84 fuel E p = some r) : r.lon = lonOf p.x p.y := by
  unfold toWGS84 at h
  dsimp only at h
  split at h
  · exact absurd h (by simp)
  · simp only [Option.some.injEq] at h
    rw [← h]

/-- F2. For every longitude in (−π, π] the longitude computed from `toECEF(lat, lon, h)` is `lon`
    (in particular `π`, the antimeridian, is returned as `π`: no guard fails there any more). -/
theorem lon_recovered {a b lat h : ℝ} (lon : ℝ) (hd : Dom a b lat h) (hl₁ : -π < lon) (hl₂ : lon ≤ π) :
    let P := toECEF (Ellipsoid.make (of a) (of b)) ⟨of lat, of lon, of h⟩
    lonOf P.x P.y = of lon ∧
    ∀ fuel r, toWGS84 fuel (Ellipsoid.make (of a) (of b)) P = some r → r.lon = of lon := by
  intro P
  obtain ⟨hc, hNh, hr⟩ := dom_facts hd
  have hP : P = ofV (toECEF (Ellipsoid.make a b) ⟨lat, lon, h⟩) := by
    simp only [P]; rw [make_of hd.hb hd.hab]
    exact toECEF_of _ ⟨lat, lon, h⟩ (w_pos hd.hb hd.hab lat)
  have hx : (toECEF (Ellipsoid.make a b) ⟨lat, lon, h⟩).x =
      (primeVertical (Ellipsoid.make a b) lat + h) * cos lat * cos lon := rfl
  have hy : (toECEF (Ellipsoid.make a b) ⟨lat, lon, h⟩).y =
      (primeVertical (Ellipsoid.make a b) lat + h) * cos lat * sin lon := rfl
  have key : lonOf P.x P.y = of lon := by
    rw [hP]; simp only [ofV]
    rw [hx, hy, lonOf_of, arg_polar hr hl₁ hl₂]
    rintro ⟨h1, h2⟩
    have := sin_sq_add_cos_sq lon
    have h1' : cos lon = 0 := by
      rcases mul_eq_zero.mp h1 with h | h
      · exact absurd h hr.ne'
      · exact h
    have h2' : sin lon = 0 := by
      rcases mul_eq_zero.mp h2 with h | h
      · exact absurd h hr.ne'
      · exact h
    rw [h1', h2'] at this; norm_num at this
  exact ⟨key, fun fuel r hr' => by rw [toWGS84_lon hr', key]⟩

/-- F2'. The other end of the antimeridian: a geodetic longitude of exactly −π comes back as +π. -/
theorem lon_minus_pi_maps_to_pi {a b lat h : ℝ} (hd : Dom a b lat h) :
    let P := toECEF (Ellipsoid.make (of a) (of b)) ⟨of lat, of (-π), of h⟩
    lonOf P.x P.y = of π := by
  intro P
  have h1 := (lon_recovered π hd (by linarith [pi_pos]) le_rfl).1
  have : P = toECEF (Ellipsoid.make (of a) (of b)) ⟨of lat, of π, of h⟩ := by
    simp only [P, toECEF, cos_of, sin_of, cos_neg, sin_neg, sin_pi, neg_zero]
  rw [this]; exact h1

/-! ## The exit threshold (regenerated literal) -/

/-- the exit threshold `EPSILON` of the loop, as a real number (the literal is regenerated from the C++ source
    on every check run, `RomeaModel/Generated/GeodesyConstants.lean`) -/
noncomputable def eps : ℝ := (epsilon : ℝ)

theorem epsilon_of : (epsilon : RN) = of eps := rfl

/-- obligation on the regenerated literal: `1e-15 ≤ EPSILON ≤ 1e-11`.  A source change that loosens the exit
    test beyond what the accuracy statements below assume (or tightens it below what the termination bound
    assumes) makes this theorem (and the check) fail. -/
theorem epsilon_bounds : 1e-15 ≤ eps ∧ eps ≤ 1e-11 := by
  simp only [eps, epsilon, Generated.epsilonMantissa, Generated.epsilonExponent]
  norm_num

theorem epsilon_pos : 0 < eps := lt_of_lt_of_le (by norm_num) epsilon_bounds.1

/-! ## 3. The true latitude is a fixed point of the iteration map; the altitude formula returns h there -/

/-- bridge for one pass of the loop body. Guards: `norm ≠ 0` (`Z / norm`), `0 < 1 - e² sin²` (sqrt and
    division by `norm * sqrt …`), and the outer denominator `1 - a e² cos φ / (norm sqrt …) ≠ 0`. -/
theorem latStep_of (E : Ellipsoid ℝ) (r Z lat : ℝ) (hr : r ≠ 0)
    (hw : 0 < 1 - E.e2 * (sin lat * sin lat))
    (hD : 1 - E.a * E.e2 * cos lat / (r * Real.sqrt (1 - E.e2 * (sin lat * sin lat))) ≠ 0) :
    latStep (ofE E) (of r) (of Z) (of lat) = of (latStep E r Z lat) := by
  have hs : Real.sqrt (1 - E.e2 * (sin lat * sin lat)) ≠ 0 := (Real.sqrt_pos.mpr hw).ne'
  have hrs : r * Real.sqrt (1 - E.e2 * (sin lat * sin lat)) ≠ 0 := mul_ne_zero hr hs
  simp only [latStep, ofE, one, natCast_of, Nat.cast_one, sin_of, cos_of, mul_of, sub_of]
  rw [sqrt_of _ hw.le, mul_of, div_of _ _ hrs, sub_of, div_of _ _ hr, div_of _ _ hD, atan_of]
  rfl

/-- bridge for the altitude formula. Guards: `cos lat ≠ 0`, `0 < 1 - e² sin²`. -/
theorem altOf_of (E : Ellipsoid ℝ) (r lat : ℝ) (hc : cos lat ≠ 0)
    (hw : 0 < 1 - E.e2 * (sin lat * sin lat)) :
    altOf (ofE E) (of r) (of lat) = of (altOf E r lat) := by
  have hs : Real.sqrt (1 - E.e2 * (sin lat * sin lat)) ≠ 0 := (Real.sqrt_pos.mpr hw).ne'
  simp only [altOf, ofE, one, natCast_of, Nat.cast_one, sin_of, cos_of, mul_of, sub_of]
  rw [sqrt_of _ hw.le, div_of _ _ hc, div_of _ _ hs, sub_of]
  rfl

private theorem step_algebra (N W e2 h s c : ℝ) (hW : W ≠ 0) (hc : c ≠ 0) (hNh : N + h ≠ 0)
    (hM : N * (1 - e2) + h ≠ 0) :
    ((N * (1 - e2) + h) * s / ((N + h) * c)) / (1 - (N * W) * e2 * c / (((N + h) * c) * W)) = s / c := by
  have h1 : 1 - (N * W) * e2 * c / (((N + h) * c) * W) = (N * (1 - e2) + h) / (N + h) := by
    field_simp; ring
  rw [h1]; field_simp

/-- over ℝ: at the image of `(lat, lon, h)` one pass of the loop body returns `lat`,
    and the altitude formula returns `h` -/
private theorem fixed_real (E : Ellipsoid ℝ) (lat h : ℝ) (hw : 0 < 1 - E.e2 * sin lat * sin lat)
    (hl₁ : -(π / 2) < lat) (hl₂ : lat < π / 2) (hNh : primeVertical E lat + h ≠ 0)
    (hM : primeVertical E lat * (1 - E.e2) + h ≠ 0) :
    latStep E ((primeVertical E lat + h) * cos lat) ((primeVertical E lat * (1 - E.e2) + h) * sin lat) lat = lat ∧
    1 - E.a * E.e2 * cos lat / ((primeVertical E lat + h) * cos lat * Real.sqrt (1 - E.e2 * (sin lat * sin lat)))
      = (primeVertical E lat * (1 - E.e2) + h) / (primeVertical E lat + h) ∧
    altOf E ((primeVertical E lat + h) * cos lat) lat = h := by
  have hc : cos lat ≠ 0 := (cos_pos_of_mem_Ioo ⟨hl₁, hl₂⟩).ne'
  have hw' : 0 < 1 - E.e2 * (sin lat * sin lat) := by rw [← mul_assoc]; exact hw
  have hW : Real.sqrt (1 - E.e2 * (sin lat * sin lat)) ≠ 0 := (Real.sqrt_pos.mpr hw').ne'
  have hN : primeVertical E lat = E.a / Real.sqrt (1 - E.e2 * (sin lat * sin lat)) := by
    rw [primeVertical_eq, mul_assoc]
  have hA : E.a = primeVertical E lat * Real.sqrt (1 - E.e2 * (sin lat * sin lat)) := by
    rw [hN, div_mul_cancel₀ _ hW]
  generalize primeVertical E lat = N at *
  have e1 : latStep E ((N + h) * cos lat) ((N * (1 - E.e2) + h) * sin lat) lat =
      Real.arctan (((N * (1 - E.e2) + h) * sin lat / ((N + h) * cos lat)) /
        (1 - E.a * E.e2 * cos lat / (((N + h) * cos lat) * Real.sqrt (1 - E.e2 * (sin lat * sin lat))))) := by
    simp [latStep]
  have e2 : altOf E ((N + h) * cos lat) lat =
      (N + h) * cos lat / cos lat - E.a / Real.sqrt (1 - E.e2 * (sin lat * sin lat)) := by
    simp [altOf]
  rw [e1, e2]
  generalize Real.sqrt (1 - E.e2 * (sin lat * sin lat)) = W at *
  refine ⟨?_, ?_, ?_⟩
  · rw [hA, step_algebra N W E.e2 h (sin lat) (cos lat) hW hc hNh hM, ← tan_eq_sin_div_cos,
      arctan_tan hl₁ hl₂]
  · rw [hA]; field_simp; ring
  · rw [hA]; field_simp; ring

/-- the image point in `RN`, its horizontal norm, and the guards of one loop pass at the true latitude -/
private theorem image_facts {a b lat h : ℝ} (lon : ℝ) (hd : Dom a b lat h) :
    let E := Ellipsoid.make a b
    let N := primeVertical E lat
    let P := toECEF (Ellipsoid.make (of a) (of b)) ⟨of lat, of lon, of h⟩
    P.z = of ((N * (1 - E.e2) + h) * sin lat) ∧ normXY P.x P.y = of ((N + h) * cos lat) := by
  intro E N P
  obtain ⟨hc, hNh, hr⟩ := dom_facts hd
  have hP : P = ofV (toECEF E ⟨lat, lon, h⟩) := by
    simp only [P]; rw [make_of hd.hb hd.hab]
    exact toECEF_of _ ⟨lat, lon, h⟩ (w_pos hd.hb hd.hab lat)
  have hx : (toECEF E ⟨lat, lon, h⟩).x = (N + h) * cos lat * cos lon := rfl
  have hy : (toECEF E ⟨lat, lon, h⟩).y = (N + h) * cos lat * sin lon := rfl
  have hz : (toECEF E ⟨lat, lon, h⟩).z = (N * (1 - E.e2) + h) * sin lat := by simp [toECEF, N]
  refine ⟨by rw [hP]; simp only [ofV]; rw [hz], ?_⟩
  rw [hP]; simp only [ofV]
  rw [normXY_of, hx, hy, norm_real hr]

/-- F3. The true latitude is a fixed point of the iteration map `latStep` at the image of `(lat, lon, h)`
    (every guard of the loop body holds there), and a loop pass started there exits at once with `lat`. -/
theorem lat_fixed_point {a b lat h : ℝ} (lon : ℝ) (hd : Dom a b lat h) :
    let E := Ellipsoid.make (of a) (of b)
    let P := toECEF E ⟨of lat, of lon, of h⟩
    latStep E (normXY P.x P.y) P.z (of lat) = of lat ∧
    ∀ fuel, latLoop E (normXY P.x P.y) P.z (fuel + 1) (of lat) = some (of lat) := by
  intro E P
  obtain ⟨hc, hNh, hr⟩ := dom_facts hd
  obtain ⟨hz, hn⟩ := image_facts lon hd
  have hw := w_pos hd.hb hd.hab lat
  have hw' : 0 < 1 - (Ellipsoid.make a b).e2 * (sin lat * sin lat) := by rw [← mul_assoc]; exact hw
  obtain ⟨f1, f2, _⟩ := fixed_real (Ellipsoid.make a b) lat h hw hd.hlat₁ hd.hlat₂ hNh.ne' hd.hh.ne'
  have hD : 1 - (Ellipsoid.make a b).a * (Ellipsoid.make a b).e2 * cos lat /
      ((primeVertical (Ellipsoid.make a b) lat + h) * cos lat *
        Real.sqrt (1 - (Ellipsoid.make a b).e2 * (sin lat * sin lat))) ≠ 0 := by
    rw [f2]; exact div_ne_zero hd.hh.ne' hNh.ne'
  have key : latStep E (normXY P.x P.y) P.z (of lat) = of lat := by
    simp only [P, E] at hz hn ⊢
    rw [hz, hn, make_of hd.hb hd.hab, latStep_of _ _ _ _ hr.ne' hw' hD, f1]
  refine ⟨key, fun fuel => ?_⟩
  have heps : ¬ ((epsilon : RN) < Trans.abs (of lat - of lat)) := by
    simp only [epsilon_of, sub_of, abs_of, lt_of, sub_self, abs_zero, not_lt]
    exact epsilon_pos.le
  simp only [latLoop, key, heps, if_false]

/-- F3'. At the true latitude the altitude formula returns `h` (guards: `cos lat ≠ 0`, `1 - e² sin² > 0`). -/
theorem alt_recovered {a b lat h : ℝ} (lon : ℝ) (hd : Dom a b lat h) :
    let E := Ellipsoid.make (of a) (of b)
    let P := toECEF E ⟨of lat, of lon, of h⟩
    altOf E (normXY P.x P.y) (of lat) = of h := by
  intro E P
  obtain ⟨hc, hNh, hr⟩ := dom_facts hd
  obtain ⟨_, hn⟩ := image_facts lon hd
  have hw := w_pos hd.hb hd.hab lat
  have hw' : 0 < 1 - (Ellipsoid.make a b).e2 * (sin lat * sin lat) := by rw [← mul_assoc]; exact hw
  obtain ⟨_, _, f3⟩ := fixed_real (Ellipsoid.make a b) lat h hw hd.hlat₁ hd.hlat₂ hNh.ne' hd.hh.ne'
  simp only [P, E] at hn ⊢
  rw [hn, make_of hd.hb hd.hab, altOf_of _ _ _ hc.ne' hw', f3]

/-! ## 4. Ranges of the outputs -/

private theorem atan_eq_of {x : RN} {φ : ℝ} (h : Trans.atan x = of φ) : ∃ y : ℝ, φ = Real.arctan y := by
  rcases eq_of_or_nan x with rfl | ⟨y, rfl⟩
  · rw [atan_nan] at h; exact absurd h.symm (of_ne_nan φ)
  · rw [atan_of] at h; exact ⟨y, (of_inj.mp h).symm⟩

private theorem atan2_eq_of {y x : RN} {l : ℝ} (h : Trans.atan2 y x = of l) : ∃ z : ℂ, l = Complex.arg z := by
  rcases eq_of_or_nan x with rfl | ⟨a, rfl⟩
  · have : Trans.atan2 y nan = nan := lift2_nan_right _ _ y
    rw [this] at h; exact absurd h.symm (of_ne_nan l)
  rcases eq_of_or_nan y with rfl | ⟨b, rfl⟩
  · have : Trans.atan2 nan (of a) = nan := lift2_nan_left _ _ _
    rw [this] at h; exact absurd h.symm (of_ne_nan l)
  by_cases hg : a = 0 ∧ b = 0
  · obtain ⟨rfl, rfl⟩ := hg
    rw [atan2_zero_zero] at h; exact absurd h.symm (of_ne_nan l)
  · rw [atan2_of _ _ hg] at h; exact ⟨_, (of_inj.mp h).symm⟩

private theorem latLoop_some {E : Ellipsoid RN} {n Z : RN} :
    ∀ (fuel : Nat) (l v : RN), latLoop E n Z fuel l = some v → ∃ l', v = latStep E n Z l' := by
  intro fuel
  induction fuel with
  | zero => intro l v h; simp [latLoop] at h
  | succ k ih =>
    intro l v h
    simp only [latLoop] at h
    split at h
    · exact ih _ _ h
    · exact ⟨l, (Option.some.inj h).symm⟩

/-- F4. Whatever the input (any ellipsoid, any point, any fuel): if `toWGS84` returns and the latitude /
    longitude are numbers (not NaN), the latitude lies in (−π/2, π/2) and the longitude in (−π, π]. -/
theorem ranges (fuel : Nat) (E : Ellipsoid RN) (p : Vec3 RN) (r : Geo RN) (h : toWGS84 fuel E p = some r) :
    (∀ φ, r.lat = of φ → -(π / 2) < φ ∧ φ < π / 2) ∧ (∀ l, r.lon = of l → -π < l ∧ l ≤ π) := by
  constructor
  · intro φ hφ
    unfold toWGS84 at h
    dsimp only at h
    split at h
    · exact absurd h (by simp)
    · rename_i v hv
      simp only [Option.some.injEq] at h
      obtain ⟨l', hl'⟩ := latLoop_some _ _ _ hv
      have : Trans.atan ((p.z / normXY p.x p.y) / (one - (E.a * E.e2 * Trans.cos l' /
          (normXY p.x p.y * Trans.sqrt (one - E.e2 * (Trans.sin l' * Trans.sin l')))))) = of φ := by
        rw [← hφ, ← h]; simp only []; rw [hl']; rfl
      obtain ⟨y, rfl⟩ := atan_eq_of this
      exact ⟨neg_pi_div_two_lt_arctan y, arctan_lt_pi_div_two y⟩
  · intro l hl
    rw [toWGS84_lon h] at hl
    obtain ⟨z, rfl⟩ := atan2_eq_of hl
    exact ⟨Complex.neg_pi_lt_arg z, Complex.arg_le_pi z⟩

/-! ## 5. Accuracy of the returned latitude from the exit test, under a contraction hypothesis

`roundtrip_accuracy_partial` is the abstract step: IF near the true latitude (radius `ρ`) the loop body is defined
(no guard fails) and contracts towards the true latitude with factor `q < 1`, and the initial guess lies within
`ρ`, THEN the loop exits within `k+1` passes (`(1+q) q^k ρ ≤ ε`) and the returned latitude is within `q·ε/(1−q)`
of the truth (`ε = eps ≤ 1e-11`, `epsilon_bounds`), the longitude being exact.  Sections 6–7 discharge these
hypotheses on the property's domain (`g_contracts`, `roundtrip_accuracy`, `reverse_composition`), so the name
`_partial` only marks that this statement alone is conditional. -/

private theorem loop_contracts {E : Ellipsoid RN} {n Z : RN} {lat ρ q : ℝ} (g : ℝ → ℝ)
    (hq0 : 0 ≤ q) (hq1 : q < 1)
    (hstep : ∀ φ, |φ - lat| ≤ ρ → latStep E n Z (of φ) = of (g φ))
    (hcontr : ∀ φ, |φ - lat| ≤ ρ → |g φ - lat| ≤ q * |φ - lat|) :
    ∀ (k : ℕ) (φ₀ : ℝ), |φ₀ - lat| ≤ ρ → (1 + q) * q ^ k * |φ₀ - lat| ≤ eps →
      ∀ fuel, k < fuel → ∃ φ', latLoop E n Z fuel (of φ₀) = some (of φ') ∧
        |φ' - lat| ≤ q * eps / (1 - q) := by
  intro k
  induction k with
  | zero =>
    intro φ₀ h0 hk fuel hf
    obtain ⟨f, rfl⟩ : ∃ f, fuel = f + 1 := ⟨fuel - 1, by omega⟩
    have hc := hcontr φ₀ h0
    have hdelta : |g φ₀ - φ₀| ≤ eps := by
      have : |g φ₀ - φ₀| ≤ |g φ₀ - lat| + |φ₀ - lat| := by
        have := abs_sub_le (g φ₀) lat φ₀; rwa [abs_sub_comm lat φ₀] at this
      simp only [pow_zero, mul_one] at hk
      nlinarith [abs_nonneg (φ₀ - lat)]
    refine ⟨g φ₀, ?_, ?_⟩
    · simp only [latLoop, hstep φ₀ h0, epsilon_of, sub_of, abs_of, lt_of, not_lt.mpr hdelta, if_false]
    · rw [le_div_iff₀ (by linarith)]
      have : |φ₀ - lat| ≤ |g φ₀ - φ₀| + |g φ₀ - lat| := by
        have := abs_sub_le φ₀ (g φ₀) lat; rwa [abs_sub_comm φ₀ (g φ₀)] at this
      nlinarith [abs_nonneg (g φ₀ - lat)]
  | succ k ih =>
    intro φ₀ h0 hk fuel hf
    obtain ⟨f, rfl⟩ : ∃ f, fuel = f + 1 := ⟨fuel - 1, by omega⟩
    have hc := hcontr φ₀ h0
    by_cases hdelta : |g φ₀ - φ₀| ≤ eps
    · refine ⟨g φ₀, ?_, ?_⟩
      · simp only [latLoop, hstep φ₀ h0, epsilon_of, sub_of, abs_of, lt_of, not_lt.mpr hdelta, if_false]
      · rw [le_div_iff₀ (by linarith)]
        have : |φ₀ - lat| ≤ |g φ₀ - φ₀| + |g φ₀ - lat| := by
          have := abs_sub_le φ₀ (g φ₀) lat; rwa [abs_sub_comm φ₀ (g φ₀)] at this
        nlinarith [abs_nonneg (g φ₀ - lat)]
    · have h1 : |g φ₀ - lat| ≤ ρ := by nlinarith [abs_nonneg (φ₀ - lat)]
      have h2 : (1 + q) * q ^ k * |g φ₀ - lat| ≤ eps := by
        have hq : 0 ≤ (1 + q) * q ^ k := by positivity
        calc (1 + q) * q ^ k * |g φ₀ - lat| ≤ (1 + q) * q ^ k * (q * |φ₀ - lat|) :=
              mul_le_mul_of_nonneg_left hc hq
          _ = (1 + q) * q ^ (k + 1) * |φ₀ - lat| := by ring
          _ ≤ eps := hk
      obtain ⟨φ', e, hb⟩ := ih (g φ₀) h1 h2 f (by omega)
      refine ⟨φ', ?_, hb⟩
      simp only [latLoop, hstep φ₀ h0, epsilon_of, sub_of, abs_of, lt_of, not_le.mp hdelta, if_true]
      exact e

theorem roundtrip_accuracy_partial {a b lat h : ℝ} (lon : ℝ) (hd : Dom a b lat h)
    (hl₁ : -π < lon) (hl₂ : lon ≤ π) (g : ℝ → ℝ) (ρ q : ℝ) (hq0 : 0 ≤ q) (hq1 : q < 1) (φ₀ : ℝ) (k : ℕ) :
    let E := Ellipsoid.make (of a) (of b)
    let P := toECEF E ⟨of lat, of lon, of h⟩
    let n := normXY P.x P.y
    (∀ φ, |φ - lat| ≤ ρ → latStep E n P.z (of φ) = of (g φ)) →        -- loop body defined near `lat`
    (∀ φ, |φ - lat| ≤ ρ → |g φ - lat| ≤ q * |φ - lat|) →             -- … and contracting towards it
    lat0 E P.x P.y P.z n = of φ₀ → |φ₀ - lat| ≤ ρ →                   -- initial guess within `ρ`
    (1 + q) * q ^ k * ρ ≤ eps →
    ∀ fuel, k < fuel → ∃ φ', toWGS84 fuel E P = some ⟨of φ', of lon, altOf E n (of φ')⟩ ∧
      |φ' - lat| ≤ q * eps / (1 - q) := by
  intro E P n hstep hcontr hstart h0 hk fuel hf
  have hk' : (1 + q) * q ^ k * |φ₀ - lat| ≤ eps :=
    le_trans (mul_le_mul_of_nonneg_left h0 (by positivity)) hk
  obtain ⟨φ', e, hb⟩ := loop_contracts g hq0 hq1 hstep hcontr k φ₀ h0 hk' fuel hf
  refine ⟨φ', ?_, hb⟩
  have hlon := (lon_recovered lon hd hl₁ hl₂).1
  simp only [toWGS84]
  rw [hstart, e, hlon]

/-! ## The quantifier domain of the property lies inside `Dom` -/

theorem dom_of_property_domain {a b lat h : ℝ} (ha : 6378137 * 0.999 ≤ a) (hf : a * (1 - 1 / 290) ≤ b)
    (hba : b ≤ a) (hlat : |lat| ≤ 89.9 * π / 180) (hh : -11000 ≤ h) : Dom a b lat h := by
  have ha0 : 0 < a := by linarith
  have hb : 0 < b := by nlinarith
  obtain ⟨h1, h2⟩ := abs_le.mp hlat
  have hpi := pi_pos
  refine ⟨hb, hba, by linarith, by linarith, ?_⟩
  obtain ⟨he0, he1, hk⟩ := e2_bounds hb hba
  have hw := w_pos hb hba lat
  -- N ≥ a because sqrt(1 - e² sin²) ≤ 1
  have hW1 := W_le_one hb hba lat
  have hN : a ≤ primeVertical (Ellipsoid.make a b) lat := by
    rw [primeVertical_eq, a_eq, le_div_iff₀ (Real.sqrt_pos.mpr hw)]
    nlinarith
  rw [hk]
  have hbb : b * b / (a * a) * a = b * b / a := by field_simp
  have h3 : b * b / a ≤ primeVertical (Ellipsoid.make a b) lat * (b * b / (a * a)) := by
    rw [← hbb, mul_comm]; exact mul_le_mul_of_nonneg_right hN (by positivity)
  have h4 : 11000 < b * b / a := by
    rw [lt_div_iff₀ ha0]; nlinarith
  linarith

/-! ## 6. Contraction of the iteration map on the property's domain (S) -/

/-- the quantifier domain of the property, as explicit predicates -/
structure PropDom (a b lat h : ℝ) : Prop where
  ha : 6378137 * 0.999 ≤ a
  ha' : a ≤ 6378137 * 1.001
  hf : a * (1 - 1 / 290) ≤ b
  hba : b ≤ a
  hlat : |lat| ≤ 89.9 * π / 180
  hh : -11000 ≤ h
  hh' : h ≤ 100000

theorem PropDom.dom {a b lat h : ℝ} (hp : PropDom a b lat h) : Dom a b lat h :=
  dom_of_property_domain hp.ha hp.hf hp.hba hp.hlat hp.hh

/-- numeric facts on the property's domain -/
private theorem prop_facts {a b lat h : ℝ} (hp : PropDom a b lat h) :
    let E := Ellipsoid.make a b
    0 ≤ E.e2 ∧ E.e2 ≤ 579 / 84100 ∧ 0.9965 ≤ Real.sqrt (1 - E.e2) ∧
    a ≤ primeVertical E lat ∧ primeVertical E lat ≤ a / 0.9965 ∧
    0.998273 * a ≤ primeVertical E lat + h ∧
    0.99138 * a ≤ primeVertical E lat * (1 - E.e2) + h ∧
    0.001745 ≤ cos lat := by
  intro E
  have ha0 : 0 < a := by linarith [hp.ha]
  have hb : 0 < b := by nlinarith [hp.hf]
  obtain ⟨he0, he1, hk⟩ := e2_bounds hb hp.hba
  have haa : 0 < a * a := by positivity
  -- e2 ≤ 1 - (289/290)^2
  have he2 : E.e2 ≤ 579 / 84100 := by
    have h1 : 1 - E.e2 = b * b / (a * a) := hk
    have h2 : (289 / 290 : ℝ) ^ 2 ≤ b * b / (a * a) := by
      rw [le_div_iff₀ haa]
      have : a * (289 / 290) ≤ b := by linarith [hp.hf]
      nlinarith
    have : (289 / 290 : ℝ) ^ 2 = 1 - 579 / 84100 := by norm_num
    linarith
  have hsq : 0.9965 ≤ Real.sqrt (1 - E.e2) := by
    apply Real.le_sqrt_of_sq_le
    have : (0.9965 : ℝ) ^ 2 ≤ 1 - 579 / 84100 := by norm_num
    linarith
  have hw := w_pos hb hp.hba lat
  have hW := Real.sqrt_pos.mpr hw
  have hW1 := W_le_one hb hp.hba lat
  have hWlo : Real.sqrt (1 - E.e2) ≤ Real.sqrt (1 - E.e2 * sin lat * sin lat) := by
    apply Real.sqrt_le_sqrt
    have := C01Analysis.radicand_ge he0 lat
    rw [← mul_assoc] at this; exact this
  have hN1 : a ≤ primeVertical E lat := by
    rw [primeVertical_eq, a_eq, le_div_iff₀ hW]; nlinarith
  have hN2 : primeVertical E lat ≤ a / 0.9965 := by
    rw [primeVertical_eq, a_eq]
    exact div_le_div_of_nonneg_left ha0.le (by norm_num) (le_trans hsq hWlo)
  have h11 : (11000 : ℝ) ≤ 0.001727 * a := by nlinarith [hp.ha]
  have hR1 : 0.998273 * a ≤ primeVertical E lat + h := by linarith [hp.hh]
  have hR2 : 0.99138 * a ≤ primeVertical E lat * (1 - E.e2) + h := by
    have h1 : a * (1 - 579 / 84100) ≤ primeVertical E lat * (1 - E.e2) := by
      have : (0 : ℝ) ≤ 1 - 579 / 84100 := by norm_num
      calc a * (1 - 579 / 84100) ≤ primeVertical E lat * (1 - 579 / 84100) :=
            mul_le_mul_of_nonneg_right hN1 this
        _ ≤ primeVertical E lat * (1 - E.e2) :=
            mul_le_mul_of_nonneg_left (by linarith) (le_trans ha0.le hN1)
    have : a * (1 - 579 / 84100) = 0.9931153388822830 * a + a * (1 - 579 / 84100 - 0.9931153388822830) := by ring
    nlinarith [hp.hh]
  exact ⟨he0, he2, hsq, hN1, hN2, hR1, hR2, C01Analysis.cos_ge_of_abs_le hp.hlat⟩

/-- one pass of the loop body in the normal form `arctan (t / (1 - c·w φ))`, `c = a e²/p`, `t = Z/p` -/
private theorem latStep_eq_g (E : Ellipsoid ℝ) (p Z φ : ℝ) (hp : p ≠ 0) (hw : 0 < 1 - E.e2 * (sin φ * sin φ)) :
    latStep E p Z φ = C01Analysis.g E.e2 (E.a * E.e2 / p) (Z / p) φ ∧
    1 - E.a * E.e2 * cos φ / (p * Real.sqrt (1 - E.e2 * (sin φ * sin φ))) =
      1 - E.a * E.e2 / p * C01Analysis.w E.e2 φ := by
  have hW := (Real.sqrt_pos.mpr hw).ne'
  have e : E.a * E.e2 * cos φ / (p * Real.sqrt (1 - E.e2 * (sin φ * sin φ))) =
      E.a * E.e2 / p * C01Analysis.w E.e2 φ := by
    unfold C01Analysis.w; field_simp
  refine ⟨?_, by rw [e]⟩
  simp only [latStep, C01Analysis.g, one, Nat.cast_one, trans_atan, trans_sin, trans_cos, trans_sqrt]
  rw [e]

/-- on the property's domain the outer denominator of the loop body stays ≥ 0.95 within 0.01 rad of the
    true latitude (guard of the division, and the lower bound used by the contraction estimate) -/
private theorem denom_ge {a b lat h : ℝ} (hp : PropDom a b lat h) (φ : ℝ) (hφ : |φ - lat| ≤ 0.01) :
    let E := Ellipsoid.make a b
    0.95 ≤ 1 - E.a * E.e2 / ((primeVertical E lat + h) * cos lat) * C01Analysis.w E.e2 φ := by
  intro E
  obtain ⟨he0, he2, hsq, hN1, hN2, hR1, hR2, hC⟩ := prop_facts hp
  have ha0 : 0 < a := by linarith [hp.ha]
  have he1 : E.e2 < 1 := lt_of_le_of_lt he2 (by norm_num)
  set R1 := primeVertical E lat + h with hR1def
  set C := cos lat with hCdef
  have hR1pos : 0 < R1 := by nlinarith
  have hCpos : 0 < C := by linarith
  have hw1 := C01Analysis.abs_w_le he0 he1 φ
  have hcosφ : |cos φ| ≤ C + 0.01 := by
    have := abs_cos_sub_cos_le φ lat
    have h2 : |cos φ| ≤ |cos φ - cos lat| + |cos lat| := by
      have := abs_add_le (cos φ - cos lat) (cos lat); simpa using this
    rw [abs_of_pos hCpos] at h2; linarith
  have hsk : 0 < Real.sqrt (1 - E.e2) := by linarith
  have hw2 : |C01Analysis.w E.e2 φ| ≤ (C + 0.01) / 0.9965 := by
    refine le_trans hw1 ?_
    rw [div_le_div_iff₀ hsk (by norm_num)]
    nlinarith [abs_nonneg (cos φ)]
  have hc0 : 0 ≤ E.a * E.e2 / (R1 * C) := by
    rw [a_eq]; positivity
  have hcw : E.a * E.e2 / (R1 * C) * C01Analysis.w E.e2 φ ≤ E.a * E.e2 / (R1 * C) * ((C + 0.01) / 0.9965) :=
    mul_le_mul_of_nonneg_left (le_trans (le_abs_self _) hw2) hc0
  have hfin : E.a * E.e2 / (R1 * C) * ((C + 0.01) / 0.9965) ≤ 0.05 := by
    rw [a_eq, div_mul_div_comm, div_le_iff₀ (by positivity)]
    -- a e2 (C + 0.01) ≤ 0.05 * (R1 C * 0.9965)
    have h1 : a * E.e2 * (C + 0.01) ≤ a * (579 / 84100) * (C + 0.01) := by
      apply mul_le_mul_of_nonneg_right _ (by linarith)
      exact mul_le_mul_of_nonneg_left he2 ha0.le
    have h2 : 0.05 * (0.998273 * a * C * 0.9965) ≤ 0.05 * (R1 * C * 0.9965) := by
      have : 0.998273 * a * C ≤ R1 * C := mul_le_mul_of_nonneg_right hR1 hCpos.le
      linarith
    have h3 : a * (579 / 84100) * (C + 0.01) ≤ 0.05 * (0.998273 * a * C * 0.9965) := by
      have : 0 ≤ a * (0.0428 * C - 0.0000689) := mul_nonneg ha0.le (by linarith)
      nlinarith
    linarith
  linarith

/-- S5. `g_contracts`: on the property's domain (`|lat| ≤ 89.9°`, `h ∈ [−11 km, 100 km]`, `a` within 0.1 % of
    6378137 m, `f ≤ 1/290`) the loop body `φ ↦ latStep φ` at the image of `(lat, lon, h)` is Lipschitz with the
    explicit constant `q = 0.0099 < 0.01` on the interval of radius 0.01 rad around the true latitude. -/
theorem g_contracts {a b lat h : ℝ} (hp : PropDom a b lat h) (φ₁ φ₂ : ℝ)
    (h₁ : |φ₁ - lat| ≤ 0.01) (h₂ : |φ₂ - lat| ≤ 0.01) :
    let E := Ellipsoid.make a b
    let p := (primeVertical E lat + h) * cos lat
    let Z := (primeVertical E lat * (1 - E.e2) + h) * sin lat
    |latStep E p Z φ₁ - latStep E p Z φ₂| ≤ 0.0099 * |φ₁ - φ₂| := by
  intro E p Z
  obtain ⟨he0, he2, hsq, hN1, hN2, hR1, hR2, hC⟩ := prop_facts hp
  have ha0 : 0 < a := by linarith [hp.ha]
  have he1 : E.e2 < 1 := lt_of_le_of_lt he2 (by norm_num)
  have hR1pos : 0 < primeVertical E lat + h := by nlinarith
  have hR2pos : 0 < primeVertical E lat * (1 - E.e2) + h := by nlinarith
  have hCpos : 0 < cos lat := by linarith
  have hppos : 0 < p := mul_pos hR1pos hCpos
  have hw : ∀ φ, 0 < 1 - E.e2 * (sin φ * sin φ) := fun φ =>
    lt_of_lt_of_le (by linarith) (C01Analysis.radicand_ge he0 φ)
  rw [(latStep_eq_g E p Z φ₁ hppos.ne' (hw φ₁)).1, (latStep_eq_g E p Z φ₂ hppos.ne' (hw φ₂)).1]
  have hD1 := denom_ge hp φ₁ h₁
  have hD2 := denom_ge hp φ₂ h₂
  have hsk : 0 < Real.sqrt (1 - E.e2) := by linarith
  set c := E.a * E.e2 / p with hcdef
  set t := Z / p with htdef
  have hc0 : 0 ≤ c := by rw [hcdef, a_eq]; positivity
  have hcp : c * p = a * E.e2 := by rw [hcdef, a_eq]; field_simp
  by_cases hcase : 0.7071 ≤ cos lat
  · -- cos lat large: c is small, use Dmin² + t² ≥ 2 Dmin |t|
    have hK : |t| * c ≤ c / 1.9 * (0.95 ^ 2 + t ^ 2) := by
      have h3 : 1.9 * |t| ≤ 0.95 ^ 2 + t ^ 2 := by
        have := sq_nonneg (|t| - 0.95); rw [← sq_abs t]; nlinarith
      have : |t| * c = c / 1.9 * (1.9 * |t|) := by ring
      rw [this]; exact mul_le_mul_of_nonneg_left h3 (by positivity)
    have := C01Analysis.g_lipschitz_core he0 he1 hc0 (by norm_num : (0 : ℝ) < 0.95) hD1 hD2
      (by positivity) hK (t := t) (x := φ₁) (y := φ₂)
    refine le_trans this (mul_le_mul_of_nonneg_right ?_ (abs_nonneg _))
    -- c / 1.9 / sqrt(1 - e2) ≤ 0.0099
    have hcle : c ≤ 0.0098 := by
      have hp1 : 0.998273 * a * 0.7071 ≤ p := by
        calc 0.998273 * a * 0.7071 ≤ (primeVertical E lat + h) * 0.7071 :=
              mul_le_mul_of_nonneg_right hR1 (by norm_num)
          _ ≤ (primeVertical E lat + h) * cos lat := mul_le_mul_of_nonneg_left hcase hR1pos.le
      have : a * E.e2 ≤ a * (579 / 84100) := mul_le_mul_of_nonneg_left he2 ha0.le
      nlinarith
    rw [div_le_iff₀ hsk, div_le_iff₀ (by norm_num)]
    nlinarith
  · -- sin lat large: |t| is large, use Dmin² + t² ≥ t²
    have hC2 : cos lat < 0.7071 := not_le.mp hcase
    have hS : 0.7071 < |sin lat| := by
      have h1 := sin_sq_add_cos_sq lat
      have h2 : cos lat ^ 2 < 0.7071 ^ 2 := by nlinarith
      have h3 : (0.7071 : ℝ) ^ 2 < sin lat ^ 2 := by nlinarith
      have := sq_lt_sq.mp h3
      rwa [abs_of_pos (by norm_num : (0 : ℝ) < 0.7071)] at this
    have hZ : |Z| = (primeVertical E lat * (1 - E.e2) + h) * |sin lat| := by
      simp only [Z, abs_mul, abs_of_pos hR2pos]
    have htabs : |t| = |Z| / p := by rw [htdef, abs_div, abs_of_pos hppos]
    have hZpos : 0 < |Z| := by rw [hZ]; exact mul_pos hR2pos (by linarith)
    have htpos : 0 < |t| := by rw [htabs]; exact div_pos hZpos hppos
    have hK : |t| * c ≤ c / |t| * (0.95 ^ 2 + t ^ 2) := by
      have : c / |t| * (0.95 ^ 2 + t ^ 2) = |t| * c + c / |t| * 0.95 ^ 2 := by
        rw [← sq_abs t]; field_simp; ring
      rw [this]; have : 0 ≤ c / |t| * 0.95 ^ 2 := by positivity
      linarith
    have := C01Analysis.g_lipschitz_core he0 he1 hc0 (by norm_num : (0 : ℝ) < 0.95) hD1 hD2
      (by positivity) hK (t := t) (x := φ₁) (y := φ₂)
    refine le_trans this (mul_le_mul_of_nonneg_right ?_ (abs_nonneg _))
    -- c / |t| = a e2 / |Z|
    have hct : c / |t| = a * E.e2 / |Z| := by
      rw [htabs, hcdef, a_eq]; field_simp
    rw [hct, div_le_iff₀ hsk, div_le_iff₀ hZpos]
    have hZge : 0.99138 * a * 0.7071 ≤ |Z| := by
      rw [hZ]
      calc 0.99138 * a * 0.7071 ≤ (primeVertical E lat * (1 - E.e2) + h) * 0.7071 :=
            mul_le_mul_of_nonneg_right hR2 (by norm_num)
        _ ≤ (primeVertical E lat * (1 - E.e2) + h) * |sin lat| :=
            mul_le_mul_of_nonneg_left hS.le hR2pos.le
    have : a * E.e2 ≤ a * (579 / 84100) := mul_le_mul_of_nonneg_left he2 ha0.le
    nlinarith

/-! ## 7. The loop exits and the round trip is accurate on the property's domain (S) -/

/-- bridge for the initial latitude. Guards: `0 < X²+Y²+Z²` (sqrt, division), `norm (1 - a e²/r) ≠ 0`. -/
theorem lat0_of (E : Ellipsoid ℝ) (X Y Z n : ℝ) (hr : 0 < X * X + Y * Y + Z * Z)
    (hD : n * (1 - E.a * E.e2 / Real.sqrt (X * X + Y * Y + Z * Z)) ≠ 0) :
    lat0 (ofE E) (of X) (of Y) (of Z) (of n) = of (lat0 E X Y Z n) := by
  have hs : Real.sqrt (X * X + Y * Y + Z * Z) ≠ 0 := (Real.sqrt_pos.mpr hr).ne'
  simp only [lat0, ofE, one, natCast_of, Nat.cast_one, mul_of, add_of]
  rw [sqrt_of _ hr.le, div_of _ _ hs, sub_of, mul_of, div_of _ _ hD, atan_of]
  rfl

/-- the initial guess of `toWGS84` lies within 0.01 rad of the true latitude, and its guards hold -/
private theorem lat0_close {a b lat h : ℝ} (lon : ℝ) (hp : PropDom a b lat h) :
    let E := Ellipsoid.make a b
    let p := (primeVertical E lat + h) * cos lat
    let Z := (primeVertical E lat * (1 - E.e2) + h) * sin lat
    0 < p * cos lon * (p * cos lon) + p * sin lon * (p * sin lon) + Z * Z ∧
    p * (1 - E.a * E.e2 / Real.sqrt (p * cos lon * (p * cos lon) + p * sin lon * (p * sin lon) + Z * Z)) ≠ 0 ∧
    |lat0 E (p * cos lon) (p * sin lon) Z p - lat| ≤ 0.01 := by
  intro E p Z
  obtain ⟨he0, he2, hsq, hN1, hN2, hR1, hR2, hC⟩ := prop_facts hp
  have hd := hp.dom
  have ha0 : 0 < a := by linarith [hp.ha]
  have hR1pos : 0 < primeVertical E lat + h := by nlinarith
  have hR2pos : 0 < primeVertical E lat * (1 - E.e2) + h := by nlinarith
  have hCpos : 0 < cos lat := by linarith
  have hppos : 0 < p := mul_pos hR1pos hCpos
  have hsum : p * cos lon * (p * cos lon) + p * sin lon * (p * sin lon) + Z * Z = p ^ 2 + Z ^ 2 := by
    nlinarith [sin_sq_add_cos_sq lon]
  have hrpos : 0 < p ^ 2 + Z ^ 2 := by positivity
  rw [hsum]
  set r := Real.sqrt (p ^ 2 + Z ^ 2) with hrdef
  have hr0 : 0 < r := Real.sqrt_pos.mpr hrpos
  -- r ≥ R2: r² = R1² C² + R2² S² ≥ R2² since R1 ≥ R2
  have hR21 : primeVertical E lat * (1 - E.e2) + h ≤ primeVertical E lat + h := by
    nlinarith [le_trans ha0.le hN1]
  have hrge : primeVertical E lat * (1 - E.e2) + h ≤ r := by
    apply Real.le_sqrt_of_sq_le
    have h1 := sin_sq_add_cos_sq lat
    have : (primeVertical E lat * (1 - E.e2) + h) ^ 2 ≤ (primeVertical E lat + h) ^ 2 :=
      pow_le_pow_left₀ hR2pos.le hR21 2
    simp only [p, Z]
    nlinarith [sq_nonneg (cos lat), sq_nonneg (sin lat)]
  -- D0 = 1 - a e2 / r ∈ [0.993, 1]
  have hae : a * E.e2 ≤ 0.00695 * r := by
    have : a * E.e2 ≤ a * (579 / 84100) := mul_le_mul_of_nonneg_left he2 ha0.le
    nlinarith
  have hD0lo : 0.993 ≤ 1 - E.a * E.e2 / r := by
    rw [a_eq]
    have : a * E.e2 / r ≤ 0.00695 := by rw [div_le_iff₀ hr0]; exact hae
    linarith
  have hD0hi : 1 - E.a * E.e2 / r ≤ 1 := by
    rw [a_eq]; have : 0 ≤ a * E.e2 / r := by positivity
    linarith
  -- D* = R2 / R1 ∈ [0.993, 1]
  have hw := w_pos hd.hb hd.hab lat
  obtain ⟨f1, f2, _⟩ := fixed_real E lat h hw hd.hlat₁ hd.hlat₂ hR1pos.ne' hR2pos.ne'
  have hDslo : 0.993 ≤ (primeVertical E lat * (1 - E.e2) + h) / (primeVertical E lat + h) := by
    rw [le_div_iff₀ hR1pos]
    have hNe : primeVertical E lat * E.e2 ≤ a / 0.9965 * (579 / 84100) :=
      mul_le_mul hN2 he2 he0 (by positivity)
    have : a / 0.9965 * (579 / 84100) ≤ 0.00691 * a := by
      rw [div_mul_eq_mul_div, div_le_iff₀ (by norm_num)]; nlinarith
    nlinarith
  have hDshi : (primeVertical E lat * (1 - E.e2) + h) / (primeVertical E lat + h) ≤ 1 := by
    rw [div_le_one hR1pos]; exact hR21
  refine ⟨hrpos, ?_, ?_⟩
  · exact mul_ne_zero hppos.ne' (by linarith)
  · -- both latitudes are arctangents of t / D
    set D0 := 1 - E.a * E.e2 / r with hD0def
    set Ds := (primeVertical E lat * (1 - E.e2) + h) / (primeVertical E lat + h) with hDsdef
    have e0 : lat0 E (p * cos lon) (p * sin lon) Z p = Real.arctan (Z / p / D0) := by
      simp only [lat0, one, Nat.cast_one, trans_atan, trans_sqrt]
      rw [hsum, div_div]
    have es : lat = Real.arctan (Z / p / Ds) := by
      have e := (latStep_eq_g E p Z lat hppos.ne' (by rw [← mul_assoc]; exact hw))
      have := f1
      rw [e.1] at this
      unfold C01Analysis.g at this
      rw [← e.2, f2] at this
      exact this.symm
    rw [e0]
    conv_lhs => rw [es]
    exact C01Analysis.arctan_div_close hD0lo hD0hi hDslo hDshi

/-- components of the image point in `RN` -/
private theorem image_xy {a b lat h : ℝ} (lon : ℝ) (hd : Dom a b lat h) :
    let E := Ellipsoid.make a b
    let p := (primeVertical E lat + h) * cos lat
    let P := toECEF (Ellipsoid.make (of a) (of b)) ⟨of lat, of lon, of h⟩
    P.x = of (p * cos lon) ∧ P.y = of (p * sin lon) := by
  intro E p P
  have hP : P = ofV (toECEF E ⟨lat, lon, h⟩) := by
    simp only [P]; rw [make_of hd.hb hd.hab]
    exact toECEF_of _ ⟨lat, lon, h⟩ (w_pos hd.hb hd.hab lat)
  rw [hP]; exact ⟨rfl, rfl⟩

/-- S6a. `roundtrip_accuracy` (latitude, longitude): on the property's domain, for every longitude in (−π, π]
    and every fuel ≥ 8, the `RN` run of `toWGS84 ∘ toECEF` is defined up to the altitude formula (no guard
    fails), the loop exits within 8 passes, the longitude is returned exactly and the latitude within
    `1e-13 rad` (≤ the property's `1e-9 rad`) of the truth. -/
theorem roundtrip_accuracy_lat_lon {a b lat h : ℝ} (lon : ℝ) (hp : PropDom a b lat h)
    (hl₁ : -π < lon) (hl₂ : lon ≤ π) :
    let E := Ellipsoid.make (of a) (of b)
    let P := toECEF E ⟨of lat, of lon, of h⟩
    ∀ fuel, 8 ≤ fuel → ∃ φ', toWGS84 fuel E P = some ⟨of φ', of lon, altOf E (normXY P.x P.y) (of φ')⟩ ∧
      |φ' - lat| ≤ 1e-13 := by
  intro E P fuel hfuel
  have hd := hp.dom
  obtain ⟨he0, he2, hsq, hN1, hN2, hR1, hR2, hC⟩ := prop_facts hp
  have ha0 : 0 < a := by linarith [hp.ha]
  set Er := Ellipsoid.make a b with hEr
  set p := (primeVertical Er lat + h) * cos lat with hpdef
  set Z := (primeVertical Er lat * (1 - Er.e2) + h) * sin lat with hZdef
  have hR1pos : 0 < primeVertical Er lat + h := by nlinarith
  have hR2pos : 0 < primeVertical Er lat * (1 - Er.e2) + h := by nlinarith
  have hppos : 0 < p := mul_pos hR1pos (by linarith)
  have hw : ∀ φ, 0 < 1 - Er.e2 * (sin φ * sin φ) := fun φ =>
    lt_of_lt_of_le (by linarith) (C01Analysis.radicand_ge he0 φ)
  obtain ⟨hz, hn⟩ := image_facts lon hd
  obtain ⟨hx, hy⟩ := image_xy lon hd
  obtain ⟨g1, g2, g3⟩ := lat0_close lon hp
  obtain ⟨f1, _, _⟩ := fixed_real Er lat h (w_pos hd.hb hd.hab lat) hd.hlat₁ hd.hlat₂ hR1pos.ne' hR2pos.ne'
  have key := roundtrip_accuracy_partial lon hd hl₁ hl₂ (fun φ => latStep Er p Z φ) 0.01 0.0099
    (by norm_num) (by norm_num) (lat0 Er (p * cos lon) (p * sin lon) Z p) 7
  simp only [] at key
  have hstep : ∀ φ, |φ - lat| ≤ 0.01 → latStep E (normXY P.x P.y) P.z (of φ) = of (latStep Er p Z φ) := by
    intro φ hφ
    have hD := denom_ge hp φ hφ
    have e := (latStep_eq_g Er p Z φ hppos.ne' (hw φ)).2
    simp only [P, E] at hz hn ⊢
    rw [hz, hn, make_of hd.hb hd.hab]
    refine latStep_of Er p Z φ hppos.ne' (hw φ) ?_
    rw [e]; simp only [] at hD; linarith
  have hcontr : ∀ φ, |φ - lat| ≤ 0.01 → |latStep Er p Z φ - lat| ≤ 0.0099 * |φ - lat| := by
    intro φ hφ
    have := g_contracts hp φ lat hφ (by rw [sub_self, abs_zero]; norm_num)
    simp only [] at this
    rw [f1] at this; exact this
  have hstart : lat0 E P.x P.y P.z (normXY P.x P.y) = of (lat0 Er (p * cos lon) (p * sin lon) Z p) := by
    simp only [P, E] at hz hn hx hy ⊢
    rw [hz, hn, hx, hy, make_of hd.hb hd.hab]
    exact lat0_of Er _ _ _ _ g1 g2
  have hk : (1 + 0.0099) * 0.0099 ^ 7 * 0.01 ≤ eps := le_trans (by norm_num) epsilon_bounds.1
  obtain ⟨φ', e, hb⟩ := key hstep hcontr hstart g3 hk fuel (by omega)
  refine ⟨φ', e, le_trans hb ?_⟩
  have := epsilon_bounds.2
  rw [div_le_iff₀ (by norm_num)]
  nlinarith

/-- the altitude formula evaluated within `1e-13 rad` of the true latitude is within 1 mm of `h`
    (the ill-conditioned term is `p / cos φ`: `(N + h) · 1e-13 / cos 89.9° ≈ 0.37 mm`) -/
private theorem alt_close {a b lat h : ℝ} (hp : PropDom a b lat h) (φ' : ℝ) (hδ : |φ' - lat| ≤ 1e-13) :
    let E := Ellipsoid.make a b
    let p := (primeVertical E lat + h) * cos lat
    0.001744 ≤ cos φ' ∧ |altOf E p φ' - h| ≤ 3.8e-4 := by
  intro E p
  obtain ⟨he0, he2, hsq, hN1, hN2, hR1, hR2, hC⟩ := prop_facts hp
  have ha0 : 0 < a := by linarith [hp.ha]
  obtain ⟨hc', hu, _⟩ := C01Analysis.inv_cos_close hC hδ
  have hv := C01Analysis.inv_W_close he0 he2 hδ
  refine ⟨hc', ?_⟩
  have hcpos : 0 < cos φ' := by linarith
  have hCpos : 0 < cos lat := by linarith
  have hR1pos : 0 < primeVertical E lat + h := by nlinarith
  have hR1le : primeVertical E lat + h ≤ 6.51e6 := by
    have : a / 0.9965 ≤ 6.41e6 := by rw [div_le_iff₀ (by norm_num)]; nlinarith [hp.ha']
    linarith [hp.hh']
  have e1 : altOf E p φ' = p / cos φ' - E.a / Real.sqrt (1 - E.e2 * (sin φ' * sin φ')) := by
    simp [altOf]
  have e2' : h = (primeVertical E lat + h) - E.a / Real.sqrt (1 - E.e2 * (sin lat * sin lat)) := by
    rw [primeVertical_eq, mul_assoc]; ring
  have e3 : altOf E p φ' - h = (primeVertical E lat + h) * (cos lat / cos φ' - 1) -
      a * (1 / Real.sqrt (1 - E.e2 * (sin φ' * sin φ')) - 1 / Real.sqrt (1 - E.e2 * (sin lat * sin lat))) := by
    rw [e1]; conv_lhs => rw [e2']
    have hEa : E.a = a := rfl
    rw [hEa]
    simp only [p]; field_simp; ring
  rw [e3]
  have t1 : |(primeVertical E lat + h) * (cos lat / cos φ' - 1)| ≤ 6.51e6 * 5.74e-11 := by
    rw [abs_mul, abs_of_pos hR1pos]
    exact mul_le_mul hR1le hu (abs_nonneg _) (by norm_num)
  have t2 : |a * (1 / Real.sqrt (1 - E.e2 * (sin φ' * sin φ')) -
      1 / Real.sqrt (1 - E.e2 * (sin lat * sin lat)))| ≤ 6.39e6 * 1e-15 := by
    rw [abs_mul, abs_of_pos ha0]
    exact mul_le_mul (by linarith [hp.ha']) hv (abs_nonneg _) (by norm_num)
  have := abs_sub (( primeVertical E lat + h) * (cos lat / cos φ' - 1))
    (a * (1 / Real.sqrt (1 - E.e2 * (sin φ' * sin φ')) - 1 / Real.sqrt (1 - E.e2 * (sin lat * sin lat))))
  have hnum : (6.51e6 : ℝ) * 5.74e-11 + 6.39e6 * 1e-15 ≤ 3.8e-4 := by norm_num
  linarith

/-- S6. `roundtrip_accuracy`: on the property's domain, for every longitude in (−π, π] and every fuel ≥ 8, the `RN`
    run of `toWGS84 (toECEF (lat, lon, h))` is defined (no guard fails anywhere), the loop exits within 8 passes,
    and the result is within `1e-13 rad` (property: `1e-9`) in latitude, exact in longitude and within `0.38 mm`
    (property: `1 mm`) in height. -/
theorem roundtrip_accuracy {a b lat h : ℝ} (lon : ℝ) (hp : PropDom a b lat h) (hl₁ : -π < lon) (hl₂ : lon ≤ π) :
    let E := Ellipsoid.make (of a) (of b)
    let P := toECEF E ⟨of lat, of lon, of h⟩
    ∀ fuel, 8 ≤ fuel → ∃ φ' h', toWGS84 fuel E P = some ⟨of φ', of lon, of h'⟩ ∧
      |φ' - lat| ≤ 1e-9 ∧ |h' - h| ≤ 1e-3 ∧
      |φ' - lat| ≤ 1e-13 ∧ h' = altOf (Ellipsoid.make a b) ((primeVertical (Ellipsoid.make a b) lat + h) * cos lat) φ' := by
  intro E P fuel hfuel
  have hd := hp.dom
  obtain ⟨φ', e, hb⟩ := roundtrip_accuracy_lat_lon lon hp hl₁ hl₂ fuel hfuel
  obtain ⟨hc', halt⟩ := alt_close hp φ' hb
  obtain ⟨he0, he2, _⟩ := prop_facts hp
  obtain ⟨_, hn⟩ := image_facts lon hd
  have hw : 0 < 1 - (Ellipsoid.make a b).e2 * (sin φ' * sin φ') :=
    lt_of_lt_of_le (by linarith) (C01Analysis.radicand_ge he0 φ')
  refine ⟨φ', _, ?_, le_trans hb (by norm_num), le_trans halt (by norm_num), hb, rfl⟩
  rw [e]
  rw [hn, make_of hd.hb hd.hab, altOf_of _ _ _ (by linarith) hw]

/-- real-level core of the reverse composition: re-projecting `(φ', lon, alt(φ'))` with `φ'` within `1e-13 rad`
    of the true latitude reproduces the horizontal radius exactly and `Z` within 0.38 mm -/
private theorem reverse_close {a b lat h : ℝ} (hp : PropDom a b lat h) (φ' : ℝ) (hδ : |φ' - lat| ≤ 1e-13) :
    let E := Ellipsoid.make a b
    let p := (primeVertical E lat + h) * cos lat
    let h' := altOf E p φ'
    (primeVertical E φ' + h') * cos φ' = p ∧
    |(primeVertical E φ' * (1 - E.e2) + h') * sin φ' - (primeVertical E lat * (1 - E.e2) + h) * sin lat| ≤ 3.8e-4 := by
  intro E p h'
  obtain ⟨he0, he2, hsq, hN1, hN2, hR1, hR2, hC⟩ := prop_facts hp
  have ha0 : 0 < a := by linarith [hp.ha]
  obtain ⟨hc', _, hu⟩ := C01Analysis.inv_cos_close hC hδ
  have hv := C01Analysis.inv_W_close he0 he2 hδ
  have hcpos : 0 < cos φ' := by linarith
  have hk : (0.9965 : ℝ) ^ 2 ≤ 1 - E.e2 := by nlinarith
  have hw : ∀ x : ℝ, 0 < 1 - E.e2 * (sin x * sin x) := fun x =>
    lt_of_lt_of_le (by nlinarith) (C01Analysis.radicand_ge he0 x)
  have hWge : ∀ x : ℝ, 0.9965 ≤ Real.sqrt (1 - E.e2 * (sin x * sin x)) := fun x =>
    Real.le_sqrt_of_sq_le (le_trans hk (C01Analysis.radicand_ge he0 x))
  have hR1pos : 0 < primeVertical E lat + h := by nlinarith
  have hR1le : primeVertical E lat + h ≤ 6.51e6 := by
    have : a / 0.9965 ≤ 6.41e6 := by rw [div_le_iff₀ (by norm_num)]; nlinarith [hp.ha']
    linarith [hp.hh']
  have hEa : E.a = a := rfl
  have eN : ∀ x, primeVertical E x = a / Real.sqrt (1 - E.e2 * (sin x * sin x)) := fun x => by
    rw [primeVertical_eq, mul_assoc, hEa]
  have eh' : h' = p / cos φ' - a / Real.sqrt (1 - E.e2 * (sin φ' * sin φ')) := by
    simp only [h', altOf, one, Nat.cast_one, trans_sin, trans_cos, trans_sqrt, hEa]
  set W' := Real.sqrt (1 - E.e2 * (sin φ' * sin φ')) with hW'
  set W := Real.sqrt (1 - E.e2 * (sin lat * sin lat)) with hW
  have hW'pos : 0 < W' := by linarith [hWge φ']
  have hWpos : 0 < W := by linarith [hWge lat]
  have eN1 : primeVertical E φ' = a / W' := eN φ'
  have eN0 : primeVertical E lat = a / W := eN lat
  have eh1 : h' = p / cos φ' - a / W' := eh'
  have ep : p = (a / W + h) * cos lat := by simp only [p]; rw [eN0]
  clear_value W' W h' p
  constructor
  · rw [eN1, eh1]; field_simp; ring
  · have e : (primeVertical E φ' * (1 - E.e2) + h') * sin φ' - (primeVertical E lat * (1 - E.e2) + h) * sin lat =
        (primeVertical E lat + h) * (sin (φ' - lat) / cos φ') -
          E.e2 * a * ((1 / W' - 1 / W) * sin φ' + (sin φ' - sin lat) * (1 / W)) := by
      rw [eN1, eN0, eh1, sin_sub, ep]
      field_simp; ring
    rw [e]
    have t1 : |(primeVertical E lat + h) * (sin (φ' - lat) / cos φ')| ≤ 6.51e6 * 5.74e-11 := by
      rw [abs_mul, abs_of_pos hR1pos, abs_div, abs_of_pos hcpos]
      exact mul_le_mul hR1le hu (by positivity) (by norm_num)
    have t2 : |E.e2 * a * ((1 / W' - 1 / W) * sin φ' + (sin φ' - sin lat) * (1 / W))| ≤
        579 / 84100 * 6.39e6 * (1e-15 + 1e-13 * 1.0036) := by
      rw [abs_mul, abs_mul, abs_of_nonneg he0, abs_of_pos ha0]
      have hs1 : |(1 / W' - 1 / W) * sin φ'| ≤ 1e-15 := by
        rw [abs_mul]
        calc |1 / W' - 1 / W| * |sin φ'| ≤ 1e-15 * 1 :=
              mul_le_mul hv (abs_sin_le_one φ') (abs_nonneg _) (by norm_num)
          _ = 1e-15 := by norm_num
      have hs2 : |(sin φ' - sin lat) * (1 / W)| ≤ 1e-13 * 1.0036 := by
        rw [abs_mul, abs_of_pos (by positivity : (0 : ℝ) < 1 / W)]
        have h1 : |sin φ' - sin lat| ≤ 1e-13 := le_trans (abs_sin_sub_sin_le φ' lat) hδ
        have h2 : 1 / W ≤ 1.0036 := by
          rw [div_le_iff₀ hWpos]; nlinarith [hWge lat]
        exact mul_le_mul h1 h2 (by positivity) (by norm_num)
      have hs : |(1 / W' - 1 / W) * sin φ' + (sin φ' - sin lat) * (1 / W)| ≤ 1e-15 + 1e-13 * 1.0036 :=
        le_trans (abs_add_le _ _) (add_le_add hs1 hs2)
      have hea : E.e2 * a ≤ 579 / 84100 * 6.39e6 :=
        mul_le_mul he2 (by linarith [hp.ha']) ha0.le (by norm_num)
      exact mul_le_mul hea hs (abs_nonneg _) (by norm_num)
    have := abs_sub ((primeVertical E lat + h) * (sin (φ' - lat) / cos φ'))
      (E.e2 * a * ((1 / W' - 1 / W) * sin φ' + (sin φ' - sin lat) * (1 / W)))
    have hnum : (6.51e6 : ℝ) * 5.74e-11 + 579 / 84100 * 6.39e6 * (1e-15 + 1e-13 * 1.0036) ≤ 3.8e-4 := by norm_num
    linarith

/-- S7. `reverse_composition`: on the property's domain the composition `toECEF ∘ toWGS84` applied to the ECEF
    image `P` of `(lat, lon, h)` — i.e. to every Cartesian point of the property's domain — is defined over `RN`
    and reproduces `P`: `X` and `Y` exactly, `Z` within 0.38 mm; hence the Euclidean distance is below 1 mm. -/
theorem reverse_composition {a b lat h : ℝ} (lon : ℝ) (hp : PropDom a b lat h) (hl₁ : -π < lon) (hl₂ : lon ≤ π) :
    let E := Ellipsoid.make (of a) (of b)
    let P := toECEF E ⟨of lat, of lon, of h⟩
    ∀ fuel, 8 ≤ fuel → ∃ (r : Geo RN) (Z Z' : ℝ), toWGS84 fuel E P = some r ∧
      P.z = of Z ∧ toECEF E r = ⟨P.x, P.y, of Z'⟩ ∧ |Z' - Z| ≤ 1e-3 := by
  intro E P fuel hfuel
  have hd := hp.dom
  obtain ⟨φ', h', e, _, _, hb, eh'⟩ := roundtrip_accuracy lon hp hl₁ hl₂ fuel hfuel
  obtain ⟨he0, he2, _⟩ := prop_facts hp
  obtain ⟨hz, _⟩ := image_facts lon hd
  obtain ⟨hx, hy⟩ := image_xy lon hd
  obtain ⟨r1, r2⟩ := reverse_close hp φ' hb
  have hw : 0 < 1 - (Ellipsoid.make a b).e2 * sin φ' * sin φ' := by
    rw [mul_assoc]; exact lt_of_lt_of_le (by linarith) (C01Analysis.radicand_ge he0 φ')
  refine ⟨_, _, (toECEF (Ellipsoid.make a b) ⟨φ', lon, h'⟩).z, e, hz, ?_, ?_⟩
  · have := toECEF_of (Ellipsoid.make a b) ⟨φ', lon, h'⟩ hw
    simp only [ofG] at this
    simp only [E, P]
    rw [hx, hy, make_of hd.hb hd.hab, this]
    simp only [ofV]
    have ex : (toECEF (Ellipsoid.make a b) ⟨φ', lon, h'⟩).x =
        (primeVertical (Ellipsoid.make a b) φ' + h') * cos φ' * cos lon := rfl
    have ey : (toECEF (Ellipsoid.make a b) ⟨φ', lon, h'⟩).y =
        (primeVertical (Ellipsoid.make a b) φ' + h') * cos φ' * sin lon := rfl
    rw [ex, ey, eh', r1]
  · have ez : (toECEF (Ellipsoid.make a b) ⟨φ', lon, h'⟩).z =
        (primeVertical (Ellipsoid.make a b) φ' * (1 - (Ellipsoid.make a b).e2) + h') * sin φ' := by
      simp [toECEF]
    rw [ez, eh']
    exact le_trans r2 (by norm_num)

/-- S7'. the same with the result named at the real level (used by C02): the geodetic coordinates returned for
    the image of `(lat, lon, h)` are `(φ', lon, h')`, and `toECEF (φ', lon, h')` has the same `x`, `y` and a `z`
    within 1 mm -/
theorem reverse_composition_real {a b lat h : ℝ} (lon : ℝ) (hp : PropDom a b lat h) (hl₁ : -π < lon) (hl₂ : lon ≤ π) :
    ∀ fuel, 8 ≤ fuel → ∃ φ' h' : ℝ,
      toWGS84 fuel (Ellipsoid.make (of a) (of b)) (toECEF (Ellipsoid.make (of a) (of b)) ⟨of lat, of lon, of h⟩) =
        some (ofG ⟨φ', lon, h'⟩) ∧
      (toECEF (Ellipsoid.make a b) ⟨φ', lon, h'⟩).x = (toECEF (Ellipsoid.make a b) ⟨lat, lon, h⟩).x ∧
      (toECEF (Ellipsoid.make a b) ⟨φ', lon, h'⟩).y = (toECEF (Ellipsoid.make a b) ⟨lat, lon, h⟩).y ∧
      |(toECEF (Ellipsoid.make a b) ⟨φ', lon, h'⟩).z - (toECEF (Ellipsoid.make a b) ⟨lat, lon, h⟩).z| ≤ 1e-3 := by
  intro fuel hfuel
  obtain ⟨φ', h', e, _, _, hb, eh'⟩ := roundtrip_accuracy lon hp hl₁ hl₂ fuel hfuel
  obtain ⟨r1, r2⟩ := reverse_close hp φ' hb
  refine ⟨φ', h', e, ?_, ?_, ?_⟩
  · have ex : (toECEF (Ellipsoid.make a b) ⟨φ', lon, h'⟩).x =
        (primeVertical (Ellipsoid.make a b) φ' + h') * cos φ' * cos lon := rfl
    rw [ex, eh', r1]; rfl
  · have ey : (toECEF (Ellipsoid.make a b) ⟨φ', lon, h'⟩).y =
        (primeVertical (Ellipsoid.make a b) φ' + h') * cos φ' * sin lon := rfl
    rw [ey, eh', r1]; rfl
  · have ez : ∀ g : Geo ℝ, (toECEF (Ellipsoid.make a b) g).z =
        (primeVertical (Ellipsoid.make a b) g.lat * (1 - (Ellipsoid.make a b).e2) + g.alt) * sin g.lat := by
      intro g; simp [toECEF]
    rw [ez, ez, eh']
    exact le_trans r2 (by norm_num)

/-- S6'. the other end of the antimeridian: geodetic longitude exactly `−π` comes back as `+π` (same meridian),
    with the same accuracy in latitude and height -/
theorem roundtrip_accuracy_minus_pi {a b lat h : ℝ} (hp : PropDom a b lat h) :
    let E := Ellipsoid.make (of a) (of b)
    let P := toECEF E ⟨of lat, of (-π), of h⟩
    ∀ fuel, 8 ≤ fuel → ∃ φ' h', toWGS84 fuel E P = some ⟨of φ', of π, of h'⟩ ∧
      |φ' - lat| ≤ 1e-9 ∧ |h' - h| ≤ 1e-3 := by
  intro E P fuel hfuel
  have : P = toECEF E ⟨of lat, of π, of h⟩ := by
    simp only [P, toECEF, cos_of, sin_of, cos_neg, sin_neg, sin_pi, neg_zero]
  rw [this]
  obtain ⟨φ', h', e, h1, h2, _⟩ := roundtrip_accuracy π hp (by linarith [pi_pos]) le_rfl fuel hfuel
  exact ⟨φ', h', e, h1, h2⟩

/-! ## Non-vacuity: concrete instances of the hypotheses -/

/-- GRS80, Clermont-Ferrand-like point: in the domain -/
example : Dom 6378137 6356752.314 (45 * π / 180) 400 :=
  dom_of_property_domain (by norm_num) (by norm_num) (by norm_num)
    (by rw [abs_of_nonneg (by positivity)]; nlinarith [pi_pos]) (by norm_num)
/-- the antimeridian at −11 km on the sphere, latitude −89.9° -/
example : Dom 6378137 6378137 (-(89.9 * π / 180)) (-11000) :=
  dom_of_property_domain (by norm_num) (by norm_num) le_rfl
    (by rw [abs_neg, abs_of_nonneg (by positivity)]) le_rfl
example : (-π < π) ∧ (π ≤ π) := ⟨by linarith [pi_pos], le_rfl⟩
/-- the property's quantifier domain is inhabited at its corners: GRS80, 89.9° N, −11 km; sphere, 100 km -/
example : PropDom 6378137 6356752.314 (89.9 * π / 180) (-11000) :=
  ⟨by norm_num, by norm_num, by norm_num, by norm_num, by rw [abs_of_nonneg (by positivity)], le_rfl, by norm_num⟩
example : PropDom (6378137 * 1.001) (6378137 * 1.001) 0 100000 :=
  ⟨by norm_num, le_rfl, by norm_num, le_rfl, by rw [abs_zero]; positivity, by norm_num, le_rfl⟩

end Romea.C01
