import RomeaModel.Geodesy
import RomeaProofs.RN
import Mathlib.Tactic.Linarith
import Mathlib.Tactic.Ring
import Mathlib.Tactic.FieldSimp
import Mathlib.Tactic.Positivity

/-!
# C01 — ECEF ↔ geodetic conversion

The theorems are stated over `RN` (reals with an absorbing NaN, `RomeaProofs/RN.lean`): every division,
square root and `atan2` on the path has its guard discharged — the statement `f (of x) = of y` is not
provable otherwise.  The route is: (i) on the domain the `RN` run of the model equals the image of the
`ℝ` run (`*_of` bridge lemmas, which is where all guards are discharged), (ii) geometry/algebra on the
`ℝ` run.  Idealisation (trusted base): exact arithmetic, no overflow, libm = the mathematical functions.

Domain (`Dom`): `0 < b ≤ a`, `|lat| < π/2`, `N(lat)(1−e²) + h > 0` — implied by the quantifier text of the
property (`|lat| ≤ 89.9°`, `h ≥ −11 km`, `a ≈ 6378 km`, `f ≤ 1/290`).
-/
namespace Romea.C01
open Romea Romea.Geodesy Romea.RN Real

/-! ## Embedding of real data into `RN` -/

def ofE (E : Ellipsoid ℝ) : Ellipsoid RN := ⟨of E.a, of E.b, of E.e2, of E.e⟩
def ofG (g : Geo ℝ) : Geo RN := ⟨of g.lat, of g.lon, of g.alt⟩
def ofV (v : Vec3 ℝ) : Vec3 RN := ⟨of v.x, of v.y, of v.z⟩

/-- the domain of the property, as explicit predicates -/
structure Dom (a b lat h : ℝ) : Prop where
  hb : 0 < b
  hab : b ≤ a
  hlat₁ : -(π / 2) < lat
  hlat₂ : lat < π / 2
  hh : 0 < primeVertical (Ellipsoid.make a b) lat * (1 - (Ellipsoid.make a b).e2) + h

/-! ## Elementary facts about the ellipsoid (private helpers) -/

private theorem e2_eq (a b : ℝ) : (Ellipsoid.make a b).e2 = (a * a - b * b) / (a * a) := rfl
private theorem a_eq (a b : ℝ) : (Ellipsoid.make a b).a = a := rfl

private theorem e2_bounds {a b : ℝ} (hb : 0 < b) (hab : b ≤ a) :
    0 ≤ (Ellipsoid.make a b).e2 ∧ (Ellipsoid.make a b).e2 < 1 ∧
    1 - (Ellipsoid.make a b).e2 = b * b / (a * a) := by
  have ha : 0 < a := lt_of_lt_of_le hb hab
  have haa : 0 < a * a := by positivity
  rw [e2_eq]
  refine ⟨?_, ?_, ?_⟩
  · apply div_nonneg _ haa.le
    nlinarith
  · rw [div_lt_one haa]; nlinarith
  · field_simp; ring

/-- `1 - e² sin² lat ≥ 1 - e² > 0` -/
private theorem w_pos {a b : ℝ} (hb : 0 < b) (hab : b ≤ a) (lat : ℝ) :
    0 < 1 - (Ellipsoid.make a b).e2 * sin lat * sin lat := by
  obtain ⟨h0, h1, _⟩ := e2_bounds hb hab
  have hs : sin lat * sin lat ≤ 1 := by nlinarith [sin_sq_add_cos_sq lat, sq_nonneg (cos lat)]
  have : (Ellipsoid.make a b).e2 * sin lat * sin lat ≤ (Ellipsoid.make a b).e2 := by
    rw [mul_assoc]; exact mul_le_of_le_one_right h0 hs
  linarith

/-- guard of the square root and of the division in `toECEF` / `toWGS84`: `1 - e² sin² lat > 0` -/
theorem radicand_pos {a b : ℝ} (hb : 0 < b) (hab : b ≤ a) (lat : ℝ) :
    0 < 1 - (Ellipsoid.make a b).e2 * sin lat * sin lat := w_pos hb hab lat

private theorem primeVertical_eq (E : Ellipsoid ℝ) (lat : ℝ) :
    primeVertical E lat = E.a / Real.sqrt (1 - E.e2 * sin lat * sin lat) := by
  simp [primeVertical]

private theorem N_pos {a b : ℝ} (hb : 0 < b) (hab : b ≤ a) (lat : ℝ) :
    0 < primeVertical (Ellipsoid.make a b) lat := by
  rw [primeVertical_eq]
  exact div_pos (lt_of_lt_of_le hb hab) (Real.sqrt_pos.mpr (w_pos hb hab lat))

/-! ## Bridge lemmas: on the domain the `RN` run is the image of the `ℝ` run -/

/-- the constructor: guards `a*a ≠ 0` (division) and `0 ≤ e²` (square root) -/
theorem make_of {a b : ℝ} (hb : 0 < b) (hab : b ≤ a) :
    Ellipsoid.make (of a) (of b) = ofE (Ellipsoid.make a b) := by
  have ha : 0 < a := lt_of_lt_of_le hb hab
  have haa : a * a ≠ 0 := by positivity
  have h0 := (e2_bounds hb hab).1
  rw [e2_eq] at h0
  simp only [Ellipsoid.make, ofE, mul_of, sub_of]
  rw [div_of _ _ haa, sqrt_of _ h0]
  rfl

/-- `primeVertical`: guards `0 ≤ 1 - e² sin²` (sqrt) and `sqrt … ≠ 0` (division) -/
theorem primeVertical_of (E : Ellipsoid ℝ) (lat : ℝ) (hw : 0 < 1 - E.e2 * sin lat * sin lat) :
    primeVertical (ofE E) (of lat) = of (primeVertical E lat) := by
  have hs : Real.sqrt (1 - E.e2 * sin lat * sin lat) ≠ 0 := (Real.sqrt_pos.mpr hw).ne'
  simp only [primeVertical, ofE, one, natCast_of, Nat.cast_one, sin_of, mul_of, sub_of]
  rw [sqrt_of _ hw.le, div_of _ _ hs]
  rfl

/-- `toECEF` has no further partial operation -/
theorem toECEF_of (E : Ellipsoid ℝ) (g : Geo ℝ) (hw : 0 < 1 - E.e2 * sin g.lat * sin g.lat) :
    toECEF (ofE E) (ofG g) = ofV (toECEF E g) := by
  have hN := primeVertical_of E g.lat hw
  simp only [toECEF, ofG, ofV]
  rw [hN]
  simp only [ofE, one, natCast_of, Nat.cast_one, sin_of, cos_of, mul_of, sub_of, add_of]
  rfl

/-! ## 1. `toECEF` yields the point on the ellipsoid normal through (lat, lon) at height h -/

private theorem N_sq {a b : ℝ} (hb : 0 < b) (hab : b ≤ a) (lat : ℝ) :
    primeVertical (Ellipsoid.make a b) lat ^ 2 * (1 - (Ellipsoid.make a b).e2 * sin lat * sin lat) = a ^ 2 := by
  have hw := w_pos hb hab lat
  rw [primeVertical_eq, a_eq, div_pow, Real.sq_sqrt hw.le]
  exact div_mul_cancel₀ _ hw.ne'

/-- F1. For `0 < b ≤ a`: the `RN` run of `toECEF` is defined (no guard fails) and its value `P` satisfies:
    the height-0 point `P0` lies on the ellipsoid `x²/a² + y²/a² + z²/b² = 1`; the gradient of that quadric
    at `P0` is a positive multiple of the unit vector `n = (cos lat cos lon, cos lat sin lon, sin lat)`
    (so `n` is the outward ellipsoid normal at `P0`, i.e. `lat`, `lon` are the geodetic coordinates of `P0`);
    and `P = P0 + h·n`. -/
theorem toECEF_on_normal {a b : ℝ} (lat lon h : ℝ) (hb : 0 < b) (hab : b ≤ a) :
    let E := Ellipsoid.make a b
    let n : Vec3 ℝ := ⟨cos lat * cos lon, cos lat * sin lon, sin lat⟩
    let P0 := toECEF E ⟨lat, lon, 0⟩
    let P := toECEF E ⟨lat, lon, h⟩
    toECEF (Ellipsoid.make (of a) (of b)) ⟨of lat, of lon, of 0⟩ = ofV P0 ∧
    toECEF (Ellipsoid.make (of a) (of b)) ⟨of lat, of lon, of h⟩ = ofV P ∧
    P0.x ^ 2 / a ^ 2 + P0.y ^ 2 / a ^ 2 + P0.z ^ 2 / b ^ 2 = 1 ∧
    (∃ k : ℝ, 0 < k ∧ 2 * P0.x / a ^ 2 = k * n.x ∧ 2 * P0.y / a ^ 2 = k * n.y ∧ 2 * P0.z / b ^ 2 = k * n.z) ∧
    n.x ^ 2 + n.y ^ 2 + n.z ^ 2 = 1 ∧
    P.x = P0.x + h * n.x ∧ P.y = P0.y + h * n.y ∧ P.z = P0.z + h * n.z := by
  intro E n P0 P
  have ha : 0 < a := lt_of_lt_of_le hb hab
  have hw := w_pos hb hab lat
  obtain ⟨he0, he1, hk⟩ := e2_bounds hb hab
  have hN := N_pos hb hab lat
  have hN2 := N_sq hb hab lat
  have hx0 : P0.x = primeVertical E lat * cos lat * cos lon := by simp [P0, toECEF]
  have hy0 : P0.y = primeVertical E lat * cos lat * sin lon := by simp [P0, toECEF]
  have hz0 : P0.z = primeVertical E lat * (1 - E.e2) * sin lat := by simp [P0, toECEF]
  have hx : P.x = (primeVertical E lat + h) * cos lat * cos lon := rfl
  have hy : P.y = (primeVertical E lat + h) * cos lat * sin lon := rfl
  have hz : P.z = (primeVertical E lat * (1 - E.e2) + h) * sin lat := by
    simp [P, toECEF]
  have hsc := sin_sq_add_cos_sq lat
  have hsl := sin_sq_add_cos_sq lon
  refine ⟨?_, ?_, ?_, ?_, ?_, ?_, ?_, ?_⟩
  · rw [make_of hb hab]; exact toECEF_of E ⟨lat, lon, 0⟩ hw
  · rw [make_of hb hab]; exact toECEF_of E ⟨lat, lon, h⟩ hw
  · -- on the ellipsoid
    rw [hx0, hy0, hz0, hk]
    have hb2 : b ^ 2 ≠ 0 := by positivity
    have ha2 : a ^ 2 ≠ 0 := by positivity
    have key : primeVertical E lat ^ 2 * (cos lat ^ 2 + (b * b / (a * a)) * sin lat ^ 2) = a ^ 2 := by
      rw [← hN2, ← hk]; have : cos lat ^ 2 = 1 - sin lat ^ 2 := by linarith
      rw [this]; ring
    field_simp
    field_simp at key
    linear_combination key + primeVertical E lat ^ 2 * cos lat ^ 2 * a ^ 2 * hsl
  · refine ⟨2 * primeVertical E lat / a ^ 2, by positivity, ?_, ?_, ?_⟩
    · rw [hx0]; simp only [n]; ring
    · rw [hy0]; simp only [n]; ring
    · rw [hz0, hk]; simp only [n]; field_simp
  · simp only [n]; nlinarith [hsc, hsl]
  · rw [hx, hx0]; simp only [n]; ring
  · rw [hy, hy0]; simp only [n]; ring
  · rw [hz, hz0]; simp only [n]; ring

/-! ## Facts on the domain -/

private theorem dom_facts {a b lat h : ℝ} (hd : Dom a b lat h) :
    0 < cos lat ∧ 0 < primeVertical (Ellipsoid.make a b) lat + h ∧
    0 < (primeVertical (Ellipsoid.make a b) lat + h) * cos lat := by
  have hc : 0 < cos lat := cos_pos_of_mem_Ioo ⟨hd.hlat₁, hd.hlat₂⟩
  have hN := N_pos hd.hb hd.hab lat
  obtain ⟨he0, _, _⟩ := e2_bounds hd.hb hd.hab
  have hh := hd.hh
  have : 0 < primeVertical (Ellipsoid.make a b) lat + h := by nlinarith
  exact ⟨hc, this, mul_pos this hc⟩

/-- guard used by C01.2/3 and C02: the horizontal radius `(N + h) cos lat` is positive on the domain -/
theorem horizontal_radius_pos {a b lat h : ℝ} (hd : Dom a b lat h) :
    0 < (primeVertical (Ellipsoid.make a b) lat + h) * cos lat := (dom_facts hd).2.2

private theorem W_le_one {a b : ℝ} (hb : 0 < b) (hab : b ≤ a) (lat : ℝ) :
    Real.sqrt (1 - (Ellipsoid.make a b).e2 * sin lat * sin lat) ≤ 1 := by
  obtain ⟨he0, _, _⟩ := e2_bounds hb hab
  rw [Real.sqrt_le_left zero_le_one]
  have : 0 ≤ (Ellipsoid.make a b).e2 * sin lat * sin lat := by
    rw [mul_assoc]; exact mul_nonneg he0 (mul_self_nonneg _)
  linarith

/-- the meridional radius `M = a(1-e²)/(1-e² sin²)^{3/2}` satisfies `M + h ≥ N(1-e²) + h > 0` on the domain
    (used by C02: the second ENU axis is the direction of increasing latitude) -/
theorem meridional_radius_pos {a b lat h : ℝ} (hd : Dom a b lat h) :
    0 < (Ellipsoid.make a b).a * (1 - (Ellipsoid.make a b).e2) /
      Real.sqrt (1 - (Ellipsoid.make a b).e2 * sin lat * sin lat) ^ 3 + h := by
  have hw := w_pos hd.hb hd.hab lat
  have hW := Real.sqrt_pos.mpr hw
  have hW1 := W_le_one hd.hb hd.hab lat
  obtain ⟨he0, he1, _⟩ := e2_bounds hd.hb hd.hab
  have ha : 0 < a := lt_of_lt_of_le hd.hb hd.hab
  have hh := hd.hh
  rw [primeVertical_eq] at hh
  rw [a_eq] at hh ⊢
  set W := Real.sqrt (1 - (Ellipsoid.make a b).e2 * sin lat * sin lat) with hWdef
  have h3 : W ^ 3 ≤ W := by nlinarith [mul_pos hW hW]
  have : a / W * (1 - (Ellipsoid.make a b).e2) ≤ a * (1 - (Ellipsoid.make a b).e2) / W ^ 3 := by
    rw [div_mul_eq_mul_div]
    exact div_le_div_of_nonneg_left (by nlinarith) (by positivity) h3
  linarith

/-- horizontal distance of the image point: `sqrt(X² + Y²) = (N + h) cos lat` -/
private theorem norm_real {r : ℝ} (hr : 0 < r) (lon : ℝ) :
    Real.sqrt (r * cos lon * (r * cos lon) + r * sin lon * (r * sin lon)) = r := by
  have : r * cos lon * (r * cos lon) + r * sin lon * (r * sin lon) = r ^ 2 := by
    nlinarith [sin_sq_add_cos_sq lon]
  rw [this, Real.sqrt_sq hr.le]

theorem normXY_of (X Y : ℝ) : normXY (of X) (of Y) = of (Real.sqrt (X * X + Y * Y)) := by
  have h : 0 ≤ X * X + Y * Y := by nlinarith [mul_self_nonneg X, mul_self_nonneg Y]
  simp only [normXY, mul_of, add_of]
  exact sqrt_of _ h

/-! ## 2. The longitude is recovered on (−π, π]; −π comes back as π -/

private theorem arg_polar {r θ : ℝ} (hr : 0 < r) (hθ₁ : -π < θ) (hθ₂ : θ ≤ π) :
    Complex.arg ⟨r * cos θ, r * sin θ⟩ = θ := by
  have : (⟨r * cos θ, r * sin θ⟩ : ℂ) = (r : ℂ) * (Complex.cos θ + Complex.sin θ * Complex.I) := by
    apply Complex.ext <;>
      simp [Complex.cos_ofReal_re, Complex.sin_ofReal_re, Complex.cos_ofReal_im, Complex.sin_ofReal_im]
  rw [this]
  exact Complex.arg_mul_cos_add_sin_mul_I hr ⟨hθ₁, hθ₂⟩

theorem lonOf_of (X Y : ℝ) (h : ¬ (X = 0 ∧ Y = 0)) : lonOf (of X) (of Y) = of (Complex.arg ⟨X, Y⟩) :=
  atan2_of Y X h

private theorem toWGS84_lon {α : Type} [Add α] [Sub α] [Mul α] [Div α] [LT α] [DecidableLT α] [NatCast α]
    [OfScientific α] [Trans α] {fuel : Nat} {E : Ellipsoid α} {p : Vec3 α} {r : Geo α}
    (h : toWGS84 fuel E p = some r) : r.lon = lonOf p.x p.y := by
  unfold toWGS84 at h
  dsimp only at h
  split at h
  · exact absurd h (by simp)
  · simp only [Option.some.injEq] at h
    rw [← h]

/-- F2. For every longitude in (−π, π] the longitude computed from `toECEF(lat, lon, h)` is `lon`
    (in particular `π`, the antimeridian, is returned as `π`: no guard fails there any more). -/
theorem lon_recovered {a b lat h : ℝ} (lon : ℝ) (hd : Dom a b lat h) (hl₁ : -π < lon) (hl₂ : lon ≤ π) :
    let P := toECEF (Ellipsoid.make (of a) (of b)) ⟨of lat, of lon, of h⟩
    lonOf P.x P.y = of lon ∧
    ∀ fuel r, toWGS84 fuel (Ellipsoid.make (of a) (of b)) P = some r → r.lon = of lon := by
  intro P
  obtain ⟨hc, hNh, hr⟩ := dom_facts hd
  have hP : P = ofV (toECEF (Ellipsoid.make a b) ⟨lat, lon, h⟩) := by
    simp only [P]; rw [make_of hd.hb hd.hab]
    exact toECEF_of _ ⟨lat, lon, h⟩ (w_pos hd.hb hd.hab lat)
  have hx : (toECEF (Ellipsoid.make a b) ⟨lat, lon, h⟩).x =
      (primeVertical (Ellipsoid.make a b) lat + h) * cos lat * cos lon := rfl
  have hy : (toECEF (Ellipsoid.make a b) ⟨lat, lon, h⟩).y =
      (primeVertical (Ellipsoid.make a b) lat + h) * cos lat * sin lon := rfl
  have key : lonOf P.x P.y = of lon := by
    rw [hP]; simp only [ofV]
    rw [hx, hy, lonOf_of, arg_polar hr hl₁ hl₂]
    rintro ⟨h1, h2⟩
    have := sin_sq_add_cos_sq lon
    have h1' : cos lon = 0 := by
      rcases mul_eq_zero.mp h1 with h | h
      · exact absurd h hr.ne'
      · exact h
    have h2' : sin lon = 0 := by
      rcases mul_eq_zero.mp h2 with h | h
      · exact absurd h hr.ne'
      · exact h
    rw [h1', h2'] at this; norm_num at this
  exact ⟨key, fun fuel r hr' => by rw [toWGS84_lon hr', key]⟩

/-- F2'. The other end of the antimeridian: a geodetic longitude of exactly −π comes back as +π. -/
theorem lon_minus_pi_maps_to_pi {a b lat h : ℝ} (hd : Dom a b lat h) :
    let P := toECEF (Ellipsoid.make (of a) (of b)) ⟨of lat, of (-π), of h⟩
    lonOf P.x P.y = of π := by
  intro P
  have h1 := (lon_recovered π hd (by linarith [pi_pos]) le_rfl).1
  have : P = toECEF (Ellipsoid.make (of a) (of b)) ⟨of lat, of π, of h⟩ := by
    simp only [P, toECEF, cos_of, sin_of, cos_neg, sin_neg, sin_pi, neg_zero]
  rw [this]; exact h1

/-! ## The exit threshold (regenerated literal) -/

/-- the exit threshold `EPSILON` of the loop, as a real number (the literal is regenerated from the C++ source
    on every check run, `RomeaModel/Generated/GeodesyConstants.lean`) -/
noncomputable def eps : ℝ := (epsilon : ℝ)

theorem epsilon_of : (epsilon : RN) = of eps := rfl

/-- obligation on the regenerated literal: `0 < EPSILON ≤ 1e-11`.  A source change that loosens the exit test
    beyond what the accuracy statements below assume makes this theorem (and the check) fail. -/
theorem epsilon_bounds : 0 < eps ∧ eps ≤ 1e-11 := by
  simp only [eps, epsilon, Generated.epsilonMantissa, Generated.epsilonExponent]
  norm_num

/-! ## 3. The true latitude is a fixed point of the iteration map; the altitude formula returns h there -/

/-- bridge for one pass of the loop body. Guards: `norm ≠ 0` (`Z / norm`), `0 < 1 - e² sin²` (sqrt and
    division by `norm * sqrt …`), and the outer denominator `1 - a e² cos φ / (norm sqrt …) ≠ 0`. -/
theorem latStep_of (E : Ellipsoid ℝ) (r Z lat : ℝ) (hr : r ≠ 0)
    (hw : 0 < 1 - E.e2 * (sin lat * sin lat))
    (hD : 1 - E.a * E.e2 * cos lat / (r * Real.sqrt (1 - E.e2 * (sin lat * sin lat))) ≠ 0) :
    latStep (ofE E) (of r) (of Z) (of lat) = of (latStep E r Z lat) := by
  have hs : Real.sqrt (1 - E.e2 * (sin lat * sin lat)) ≠ 0 := (Real.sqrt_pos.mpr hw).ne'
  have hrs : r * Real.sqrt (1 - E.e2 * (sin lat * sin lat)) ≠ 0 := mul_ne_zero hr hs
  simp only [latStep, ofE, one, natCast_of, Nat.cast_one, sin_of, cos_of, mul_of, sub_of]
  rw [sqrt_of _ hw.le, mul_of, div_of _ _ hrs, sub_of, div_of _ _ hr, div_of _ _ hD, atan_of]
  rfl

/-- bridge for the altitude formula. Guards: `cos lat ≠ 0`, `0 < 1 - e² sin²`. -/
theorem altOf_of (E : Ellipsoid ℝ) (r lat : ℝ) (hc : cos lat ≠ 0)
    (hw : 0 < 1 - E.e2 * (sin lat * sin lat)) :
    altOf (ofE E) (of r) (of lat) = of (altOf E r lat) := by
  have hs : Real.sqrt (1 - E.e2 * (sin lat * sin lat)) ≠ 0 := (Real.sqrt_pos.mpr hw).ne'
  simp only [altOf, ofE, one, natCast_of, Nat.cast_one, sin_of, cos_of, mul_of, sub_of]
  rw [sqrt_of _ hw.le, div_of _ _ hc, div_of _ _ hs, sub_of]
  rfl

private theorem step_algebra (N W e2 h s c : ℝ) (hW : W ≠ 0) (hc : c ≠ 0) (hNh : N + h ≠ 0)
    (hM : N * (1 - e2) + h ≠ 0) :
    ((N * (1 - e2) + h) * s / ((N + h) * c)) / (1 - (N * W) * e2 * c / (((N + h) * c) * W)) = s / c := by
  have h1 : 1 - (N * W) * e2 * c / (((N + h) * c) * W) = (N * (1 - e2) + h) / (N + h) := by
    field_simp; ring
  rw [h1]; field_simp

/-- over ℝ: at the image of `(lat, lon, h)` one pass of the loop body returns `lat`,
    and the altitude formula returns `h` -/
private theorem fixed_real (E : Ellipsoid ℝ) (lat h : ℝ) (hw : 0 < 1 - E.e2 * sin lat * sin lat)
    (hl₁ : -(π / 2) < lat) (hl₂ : lat < π / 2) (hNh : primeVertical E lat + h ≠ 0)
    (hM : primeVertical E lat * (1 - E.e2) + h ≠ 0) :
    latStep E ((primeVertical E lat + h) * cos lat) ((primeVertical E lat * (1 - E.e2) + h) * sin lat) lat = lat ∧
    1 - E.a * E.e2 * cos lat / ((primeVertical E lat + h) * cos lat * Real.sqrt (1 - E.e2 * (sin lat * sin lat)))
      = (primeVertical E lat * (1 - E.e2) + h) / (primeVertical E lat + h) ∧
    altOf E ((primeVertical E lat + h) * cos lat) lat = h := by
  have hc : cos lat ≠ 0 := (cos_pos_of_mem_Ioo ⟨hl₁, hl₂⟩).ne'
  have hw' : 0 < 1 - E.e2 * (sin lat * sin lat) := by rw [← mul_assoc]; exact hw
  have hW : Real.sqrt (1 - E.e2 * (sin lat * sin lat)) ≠ 0 := (Real.sqrt_pos.mpr hw').ne'
  have hN : primeVertical E lat = E.a / Real.sqrt (1 - E.e2 * (sin lat * sin lat)) := by
    rw [primeVertical_eq, mul_assoc]
  have hA : E.a = primeVertical E lat * Real.sqrt (1 - E.e2 * (sin lat * sin lat)) := by
    rw [hN, div_mul_cancel₀ _ hW]
  generalize primeVertical E lat = N at *
  have e1 : latStep E ((N + h) * cos lat) ((N * (1 - E.e2) + h) * sin lat) lat =
      Real.arctan (((N * (1 - E.e2) + h) * sin lat / ((N + h) * cos lat)) /
        (1 - E.a * E.e2 * cos lat / (((N + h) * cos lat) * Real.sqrt (1 - E.e2 * (sin lat * sin lat))))) := by
    simp [latStep]
  have e2 : altOf E ((N + h) * cos lat) lat =
      (N + h) * cos lat / cos lat - E.a / Real.sqrt (1 - E.e2 * (sin lat * sin lat)) := by
    simp [altOf]
  rw [e1, e2]
  generalize Real.sqrt (1 - E.e2 * (sin lat * sin lat)) = W at *
  refine ⟨?_, ?_, ?_⟩
  · rw [hA, step_algebra N W E.e2 h (sin lat) (cos lat) hW hc hNh hM, ← tan_eq_sin_div_cos,
      arctan_tan hl₁ hl₂]
  · rw [hA]; field_simp; ring
  · rw [hA]; field_simp; ring

/-- the image point in `RN`, its horizontal norm, and the guards of one loop pass at the true latitude -/
private theorem image_facts {a b lat h : ℝ} (lon : ℝ) (hd : Dom a b lat h) :
    let E := Ellipsoid.make a b
    let N := primeVertical E lat
    let P := toECEF (Ellipsoid.make (of a) (of b)) ⟨of lat, of lon, of h⟩
    P.z = of ((N * (1 - E.e2) + h) * sin lat) ∧ normXY P.x P.y = of ((N + h) * cos lat) := by
  intro E N P
  obtain ⟨hc, hNh, hr⟩ := dom_facts hd
  have hP : P = ofV (toECEF E ⟨lat, lon, h⟩) := by
    simp only [P]; rw [make_of hd.hb hd.hab]
    exact toECEF_of _ ⟨lat, lon, h⟩ (w_pos hd.hb hd.hab lat)
  have hx : (toECEF E ⟨lat, lon, h⟩).x = (N + h) * cos lat * cos lon := rfl
  have hy : (toECEF E ⟨lat, lon, h⟩).y = (N + h) * cos lat * sin lon := rfl
  have hz : (toECEF E ⟨lat, lon, h⟩).z = (N * (1 - E.e2) + h) * sin lat := by simp [toECEF, N]
  refine ⟨by rw [hP]; simp only [ofV]; rw [hz], ?_⟩
  rw [hP]; simp only [ofV]
  rw [normXY_of, hx, hy, norm_real hr]

/-- F3. The true latitude is a fixed point of the iteration map `latStep` at the image of `(lat, lon, h)`
    (every guard of the loop body holds there), and a loop pass started there exits at once with `lat`. -/
theorem lat_fixed_point {a b lat h : ℝ} (lon : ℝ) (hd : Dom a b lat h) :
    let E := Ellipsoid.make (of a) (of b)
    let P := toECEF E ⟨of lat, of lon, of h⟩
    latStep E (normXY P.x P.y) P.z (of lat) = of lat ∧
    ∀ fuel, latLoop E (normXY P.x P.y) P.z (fuel + 1) (of lat) = some (of lat) := by
  intro E P
  obtain ⟨hc, hNh, hr⟩ := dom_facts hd
  obtain ⟨hz, hn⟩ := image_facts lon hd
  have hw := w_pos hd.hb hd.hab lat
  have hw' : 0 < 1 - (Ellipsoid.make a b).e2 * (sin lat * sin lat) := by rw [← mul_assoc]; exact hw
  obtain ⟨f1, f2, _⟩ := fixed_real (Ellipsoid.make a b) lat h hw hd.hlat₁ hd.hlat₂ hNh.ne' hd.hh.ne'
  have hD : 1 - (Ellipsoid.make a b).a * (Ellipsoid.make a b).e2 * cos lat /
      ((primeVertical (Ellipsoid.make a b) lat + h) * cos lat *
        Real.sqrt (1 - (Ellipsoid.make a b).e2 * (sin lat * sin lat))) ≠ 0 := by
    rw [f2]; exact div_ne_zero hd.hh.ne' hNh.ne'
  have key : latStep E (normXY P.x P.y) P.z (of lat) = of lat := by
    simp only [P, E] at hz hn ⊢
    rw [hz, hn, make_of hd.hb hd.hab, latStep_of _ _ _ _ hr.ne' hw' hD, f1]
  refine ⟨key, fun fuel => ?_⟩
  have heps : ¬ ((epsilon : RN) < Trans.abs (of lat - of lat)) := by
    simp only [epsilon_of, sub_of, abs_of, lt_of, sub_self, abs_zero, not_lt]
    exact epsilon_bounds.1.le
  simp only [latLoop, key, heps, if_false]

/-- F3'. At the true latitude the altitude formula returns `h` (guards: `cos lat ≠ 0`, `1 - e² sin² > 0`). -/
theorem alt_recovered {a b lat h : ℝ} (lon : ℝ) (hd : Dom a b lat h) :
    let E := Ellipsoid.make (of a) (of b)
    let P := toECEF E ⟨of lat, of lon, of h⟩
    altOf E (normXY P.x P.y) (of lat) = of h := by
  intro E P
  obtain ⟨hc, hNh, hr⟩ := dom_facts hd
  obtain ⟨_, hn⟩ := image_facts lon hd
  have hw := w_pos hd.hb hd.hab lat
  have hw' : 0 < 1 - (Ellipsoid.make a b).e2 * (sin lat * sin lat) := by rw [← mul_assoc]; exact hw
  obtain ⟨_, _, f3⟩ := fixed_real (Ellipsoid.make a b) lat h hw hd.hlat₁ hd.hlat₂ hNh.ne' hd.hh.ne'
  simp only [P, E] at hn ⊢
  rw [hn, make_of hd.hb hd.hab, altOf_of _ _ _ hc.ne' hw', f3]

/-! ## 4. Ranges of the outputs -/

private theorem atan_eq_of {x : RN} {φ : ℝ} (h : Trans.atan x = of φ) : ∃ y : ℝ, φ = Real.arctan y := by
  rcases eq_of_or_nan x with rfl | ⟨y, rfl⟩
  · rw [atan_nan] at h; exact absurd h.symm (of_ne_nan φ)
  · rw [atan_of] at h; exact ⟨y, (of_inj.mp h).symm⟩

private theorem atan2_eq_of {y x : RN} {l : ℝ} (h : Trans.atan2 y x = of l) : ∃ z : ℂ, l = Complex.arg z := by
  rcases eq_of_or_nan x with rfl | ⟨a, rfl⟩
  · have : Trans.atan2 y nan = nan := lift2_nan_right _ _ y
    rw [this] at h; exact absurd h.symm (of_ne_nan l)
  rcases eq_of_or_nan y with rfl | ⟨b, rfl⟩
  · have : Trans.atan2 nan (of a) = nan := lift2_nan_left _ _ _
    rw [this] at h; exact absurd h.symm (of_ne_nan l)
  by_cases hg : a = 0 ∧ b = 0
  · obtain ⟨rfl, rfl⟩ := hg
    rw [atan2_zero_zero] at h; exact absurd h.symm (of_ne_nan l)
  · rw [atan2_of _ _ hg] at h; exact ⟨_, (of_inj.mp h).symm⟩

private theorem latLoop_some {E : Ellipsoid RN} {n Z : RN} :
    ∀ (fuel : Nat) (l v : RN), latLoop E n Z fuel l = some v → ∃ l', v = latStep E n Z l' := by
  intro fuel
  induction fuel with
  | zero => intro l v h; simp [latLoop] at h
  | succ k ih =>
    intro l v h
    simp only [latLoop] at h
    split at h
    · exact ih _ _ h
    · exact ⟨l, (Option.some.inj h).symm⟩

/-- F4. Whatever the input (any ellipsoid, any point, any fuel): if `toWGS84` returns and the latitude /
    longitude are numbers (not NaN), the latitude lies in (−π/2, π/2) and the longitude in (−π, π]. -/
theorem ranges (fuel : Nat) (E : Ellipsoid RN) (p : Vec3 RN) (r : Geo RN) (h : toWGS84 fuel E p = some r) :
    (∀ φ, r.lat = of φ → -(π / 2) < φ ∧ φ < π / 2) ∧ (∀ l, r.lon = of l → -π < l ∧ l ≤ π) := by
  constructor
  · intro φ hφ
    unfold toWGS84 at h
    dsimp only at h
    split at h
    · exact absurd h (by simp)
    · rename_i v hv
      simp only [Option.some.injEq] at h
      obtain ⟨l', hl'⟩ := latLoop_some _ _ _ hv
      have : Trans.atan ((p.z / normXY p.x p.y) / (one - (E.a * E.e2 * Trans.cos l' /
          (normXY p.x p.y * Trans.sqrt (one - E.e2 * (Trans.sin l' * Trans.sin l')))))) = of φ := by
        rw [← hφ, ← h]; simp only []; rw [hl']; rfl
      obtain ⟨y, rfl⟩ := atan_eq_of this
      exact ⟨neg_pi_div_two_lt_arctan y, arctan_lt_pi_div_two y⟩
  · intro l hl
    rw [toWGS84_lon h] at hl
    obtain ⟨z, rfl⟩ := atan2_eq_of hl
    exact ⟨Complex.neg_pi_lt_arg z, Complex.arg_le_pi z⟩

/-! ## 5. Accuracy of the returned latitude (S: delivered as `_partial`)

Full statement aimed at (DESIGN.md C01.5, S):
  for `|lat| ≤ 89.9°`, `h ∈ [−11 km, 100 km]`, `a` within 0.1 % of 6378137, `f ≤ 1/290` the loop exits within the
  fuel and `|lat' − lat| ≤ 1e-9`, `lon' = lon`, `|h' − h| ≤ 1e-3`, and the reverse composition is within 1 mm.
What is proved below: the same conclusion for the latitude and longitude, with the explicit error bound
`q·ε/(1−q)` (`ε = eps ≤ 1e-11`, `epsilon_bounds`), and termination within `k+1` passes, *under the hypothesis* that near the true latitude (radius `ρ`)
the loop body is defined (no guard fails) and contracts towards the true latitude with factor `q < 1`, and that
the initial guess lies within `ρ`.  Missing for the full statement: the analytic bound `q < 0.01` of the
iteration map on the property's domain, the distance of the initial guess, and the Lipschitz constant of the
altitude formula (≈ (N+h)·tan lat, 3.7e9 m/rad at 89.9°).  These are covered by the probe only. -/

private theorem loop_contracts {E : Ellipsoid RN} {n Z : RN} {lat ρ q : ℝ} (g : ℝ → ℝ)
    (hq0 : 0 ≤ q) (hq1 : q < 1)
    (hstep : ∀ φ, |φ - lat| ≤ ρ → latStep E n Z (of φ) = of (g φ))
    (hcontr : ∀ φ, |φ - lat| ≤ ρ → |g φ - lat| ≤ q * |φ - lat|) :
    ∀ (k : ℕ) (φ₀ : ℝ), |φ₀ - lat| ≤ ρ → (1 + q) * q ^ k * |φ₀ - lat| ≤ eps →
      ∀ fuel, k < fuel → ∃ φ', latLoop E n Z fuel (of φ₀) = some (of φ') ∧
        |φ' - lat| ≤ q * eps / (1 - q) := by
  intro k
  induction k with
  | zero =>
    intro φ₀ h0 hk fuel hf
    obtain ⟨f, rfl⟩ : ∃ f, fuel = f + 1 := ⟨fuel - 1, by omega⟩
    have hc := hcontr φ₀ h0
    have hdelta : |g φ₀ - φ₀| ≤ eps := by
      have : |g φ₀ - φ₀| ≤ |g φ₀ - lat| + |φ₀ - lat| := by
        have := abs_sub_le (g φ₀) lat φ₀; rwa [abs_sub_comm lat φ₀] at this
      simp only [pow_zero, mul_one] at hk
      nlinarith [abs_nonneg (φ₀ - lat)]
    refine ⟨g φ₀, ?_, ?_⟩
    · simp only [latLoop, hstep φ₀ h0, epsilon_of, sub_of, abs_of, lt_of, not_lt.mpr hdelta, if_false]
    · rw [le_div_iff₀ (by linarith)]
      have : |φ₀ - lat| ≤ |g φ₀ - φ₀| + |g φ₀ - lat| := by
        have := abs_sub_le φ₀ (g φ₀) lat; rwa [abs_sub_comm φ₀ (g φ₀)] at this
      nlinarith [abs_nonneg (g φ₀ - lat)]
  | succ k ih =>
    intro φ₀ h0 hk fuel hf
    obtain ⟨f, rfl⟩ : ∃ f, fuel = f + 1 := ⟨fuel - 1, by omega⟩
    have hc := hcontr φ₀ h0
    by_cases hdelta : |g φ₀ - φ₀| ≤ eps
    · refine ⟨g φ₀, ?_, ?_⟩
      · simp only [latLoop, hstep φ₀ h0, epsilon_of, sub_of, abs_of, lt_of, not_lt.mpr hdelta, if_false]
      · rw [le_div_iff₀ (by linarith)]
        have : |φ₀ - lat| ≤ |g φ₀ - φ₀| + |g φ₀ - lat| := by
          have := abs_sub_le φ₀ (g φ₀) lat; rwa [abs_sub_comm φ₀ (g φ₀)] at this
        nlinarith [abs_nonneg (g φ₀ - lat)]
    · have h1 : |g φ₀ - lat| ≤ ρ := by nlinarith [abs_nonneg (φ₀ - lat)]
      have h2 : (1 + q) * q ^ k * |g φ₀ - lat| ≤ eps := by
        have hq : 0 ≤ (1 + q) * q ^ k := by positivity
        calc (1 + q) * q ^ k * |g φ₀ - lat| ≤ (1 + q) * q ^ k * (q * |φ₀ - lat|) :=
              mul_le_mul_of_nonneg_left hc hq
          _ = (1 + q) * q ^ (k + 1) * |φ₀ - lat| := by ring
          _ ≤ eps := hk
      obtain ⟨φ', e, hb⟩ := ih (g φ₀) h1 h2 f (by omega)
      refine ⟨φ', ?_, hb⟩
      simp only [latLoop, hstep φ₀ h0, epsilon_of, sub_of, abs_of, lt_of, not_le.mp hdelta, if_true]
      exact e

theorem roundtrip_accuracy_partial {a b lat h : ℝ} (lon : ℝ) (hd : Dom a b lat h)
    (hl₁ : -π < lon) (hl₂ : lon ≤ π) (g : ℝ → ℝ) (ρ q : ℝ) (hq0 : 0 ≤ q) (hq1 : q < 1) (φ₀ : ℝ) (k : ℕ) :
    let E := Ellipsoid.make (of a) (of b)
    let P := toECEF E ⟨of lat, of lon, of h⟩
    let n := normXY P.x P.y
    (∀ φ, |φ - lat| ≤ ρ → latStep E n P.z (of φ) = of (g φ)) →        -- loop body defined near `lat`
    (∀ φ, |φ - lat| ≤ ρ → |g φ - lat| ≤ q * |φ - lat|) →             -- … and contracting towards it
    lat0 E P.x P.y P.z n = of φ₀ → |φ₀ - lat| ≤ ρ →                   -- initial guess within `ρ`
    (1 + q) * q ^ k * ρ ≤ eps →
    ∀ fuel, k < fuel → ∃ φ', toWGS84 fuel E P = some ⟨of φ', of lon, altOf E n (of φ')⟩ ∧
      |φ' - lat| ≤ q * eps / (1 - q) := by
  intro E P n hstep hcontr hstart h0 hk fuel hf
  have hk' : (1 + q) * q ^ k * |φ₀ - lat| ≤ eps :=
    le_trans (mul_le_mul_of_nonneg_left h0 (by positivity)) hk
  obtain ⟨φ', e, hb⟩ := loop_contracts g hq0 hq1 hstep hcontr k φ₀ h0 hk' fuel hf
  refine ⟨φ', ?_, hb⟩
  have hlon := (lon_recovered lon hd hl₁ hl₂).1
  simp only [toWGS84]
  rw [hstart, e, hlon]

/-! ## The quantifier domain of the property lies inside `Dom` -/

theorem dom_of_property_domain {a b lat h : ℝ} (ha : 6378137 * 0.999 ≤ a) (hf : a * (1 - 1 / 290) ≤ b)
    (hba : b ≤ a) (hlat : |lat| ≤ 89.9 * π / 180) (hh : -11000 ≤ h) : Dom a b lat h := by
  have ha0 : 0 < a := by linarith
  have hb : 0 < b := by nlinarith
  obtain ⟨h1, h2⟩ := abs_le.mp hlat
  have hpi := pi_pos
  refine ⟨hb, hba, by linarith, by linarith, ?_⟩
  obtain ⟨he0, he1, hk⟩ := e2_bounds hb hba
  have hw := w_pos hb hba lat
  -- N ≥ a because sqrt(1 - e² sin²) ≤ 1
  have hW1 := W_le_one hb hba lat
  have hN : a ≤ primeVertical (Ellipsoid.make a b) lat := by
    rw [primeVertical_eq, a_eq, le_div_iff₀ (Real.sqrt_pos.mpr hw)]
    nlinarith
  rw [hk]
  have hbb : b * b / (a * a) * a = b * b / a := by field_simp
  have h3 : b * b / a ≤ primeVertical (Ellipsoid.make a b) lat * (b * b / (a * a)) := by
    rw [← hbb, mul_comm]; exact mul_le_mul_of_nonneg_right hN (by positivity)
  have h4 : 11000 < b * b / a := by
    rw [lt_div_iff₀ ha0]; nlinarith
  linarith

/-! ## Non-vacuity: concrete instances of the hypotheses -/

/-- GRS80, Clermont-Ferrand-like point: in the domain -/
example : Dom 6378137 6356752.314 (45 * π / 180) 400 :=
  dom_of_property_domain (by norm_num) (by norm_num) (by norm_num)
    (by rw [abs_of_nonneg (by positivity)]; nlinarith [pi_pos]) (by norm_num)
/-- the antimeridian at −11 km on the sphere, latitude −89.9° -/
example : Dom 6378137 6378137 (-(89.9 * π / 180)) (-11000) :=
  dom_of_property_domain (by norm_num) (by norm_num) le_rfl
    (by rw [abs_neg, abs_of_nonneg (by positivity)]) le_rfl
example : (-π < π) ∧ (π ≤ π) := ⟨by linarith [pi_pos], le_rfl⟩

end Romea.C01
