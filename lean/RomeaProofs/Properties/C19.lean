import RomeaModel.Lockset
import RomeaModel.Generated.LockTable
import Mathlib.Logic.Function.Basic
import Mathlib.Data.List.Basic
import Mathlib.Tactic.Linarith

/-!
# C19 — lock discipline ⇒ no data race, critical sections do not interleave (partial)

What is proved here, for EVERY number of threads, every program built from method summaries and every
interleaving (unbounded): if the accesses of a trace are guarded (each access of a field `f` happens
while the accessing thread holds the fixed mutex `guard f`) then any two accesses of the same field by
different threads are separated by a `rel (guard f)` of the first thread followed by an `acq (guard f)` of
the second — a happens-before edge, i.e. no data race — and no other thread touches a guarded field inside
somebody's critical section (critical sections are serial).  The regenerated table of the real code is
shown to obey the discipline (`table_disciplined`, by `decide` on the generated file), and summaries that
pass the decidable check `scan` generate guarded traces (`scan_sound`).  On the resulting serial semantics:
`SharedVariable` loads return a stored value, `SharedOptionalVariable` hands every stored value to at
most one consumer in store order.

NOT carried (residue, see DESIGN.md C19): the C++ memory model, `std::mutex`, compiler reordering — the
model assumes a sequentially consistent interleaving of the summaries' events and that `lock_guard`
acquires/releases as the event language says; the translation of the source into the table is done by the
trusted script `tools/gen_locktable.py`; the ThreadSanitizer harness cross-checks both.
-/
namespace Romea.C19
open Romea.Lockset

/-- an event tagged with the executing thread -/
abbrev TEv := Nat × Ev

/-- mutex ↦ thread holding it -/
abbrev Locks := Nat → Option Nat

/-- operational semantics of the lock events: `acq` blocks (is not enabled) while the mutex is held,
    `rel` is only possible for the holder -/
def stepLocks (L : Locks) : TEv → Option Locks
  | (t, .acq m) => if L m = none then some (Function.update L m (some t)) else none
  | (t, .rel m) => if L m = some t then some (Function.update L m none) else none
  | _ => some L

def runLocks (L : Locks) : List TEv → Option Locks
  | [] => some L
  | e :: r => (stepLocks L e).bind fun L' => runLocks L' r

/-- every plain access of a field happens while the accessing thread holds that field's guard -/
def Guarded (guard : Nat → Nat) : Locks → List TEv → Prop
  | _, [] => True
  | L, e :: r =>
    (∀ f, e.2.field? = some f → L (guard f) = some e.1) ∧
    ∀ L', stepLocks L e = some L' → Guarded guard L' r

private theorem runLocks_append (L : Locks) (a b : List TEv) :
    runLocks L (a ++ b) = (runLocks L a).bind fun L' => runLocks L' b := by
  induction a generalizing L with
  | nil => simp [runLocks]
  | cons e r ih =>
    simp only [List.cons_append, runLocks]
    cases h : stepLocks L e with
    | none => simp
    | some L' => simp [ih]

private theorem guarded_append (guard : Nat → Nat) (L : Locks) (a b : List TEv) (L' : Locks)
    (hg : Guarded guard L (a ++ b)) (hr : runLocks L a = some L') : Guarded guard L' b := by
  induction a generalizing L with
  | nil => simp [runLocks] at hr; subst hr; simpa using hg
  | cons e r ih =>
    simp only [List.cons_append, Guarded] at hg
    simp only [runLocks] at hr
    cases h : stepLocks L e with
    | none => simp [h] at hr
    | some L1 => simp [h] at hr; exact ih L1 (hg.2 L1 h) hr

/-- **hand-off**: if thread `t1` holds `m`, and after a valid segment thread `t2 ≠ t1` holds it, then the
    segment contains a release of `m` by `t1` followed by an acquisition of `m` by `t2` -/
private theorem handoff (m t1 t2 : Nat) (hne : t1 ≠ t2) (seg : List TEv) (L L' : Locks)
    (h1 : L m = some t1) (hr : runLocks L seg = some L') (h2 : L' m = some t2) :
    ∃ a b c, seg = a ++ (t1, Ev.rel m) :: b ++ (t2, Ev.acq m) :: c := by
  -- first: a release by t1 must occur
  have hrel : ∀ (seg : List TEv) (L L' : Locks), L m = some t1 → runLocks L seg = some L' → L' m ≠ some t1 →
      ∃ a b Lm, seg = a ++ (t1, Ev.rel m) :: b ∧ runLocks L (a ++ [(t1, Ev.rel m)]) = some Lm ∧ Lm m = none := by
    intro seg
    induction seg with
    | nil => intro L L' h hr hn; simp [runLocks] at hr; subst hr; exact absurd h hn
    | cons e r ih =>
      intro L L' h hr hn
      simp only [runLocks] at hr
      cases hs : stepLocks L e with
      | none => simp [hs] at hr
      | some L1 =>
        simp [hs] at hr
        by_cases he : e = (t1, Ev.rel m)
        · subst he
          refine ⟨[], r, L1, rfl, ?_, ?_⟩
          · simp [runLocks, hs]
          · simp only [stepLocks, h, if_true] at hs
            injection hs with hs; subst hs; simp
        · -- e does not release m from t1, so t1 still holds m afterwards
          have hL1 : L1 m = some t1 := by
            obtain ⟨t, ev⟩ := e
            cases ev with
            | acq x =>
              simp only [stepLocks] at hs
              split at hs
              · injection hs with hs; subst hs
                by_cases hx : m = x
                · subst hx; rename_i hnone; rw [h] at hnone; exact absurd hnone (by simp)
                · simp [Function.update, hx, h]
              · exact absurd hs (by simp)
            | rel x =>
              simp only [stepLocks] at hs
              split at hs
              · injection hs with hs; subst hs
                by_cases hx : m = x
                · subst hx; rename_i hh; rw [h] at hh
                  have : t = t1 := by injection hh with hh; exact hh.symm
                  subst this; exact absurd rfl he
                · simp [Function.update, hx, h]
              · exact absurd hs (by simp)
            | rd f => simp only [stepLocks] at hs; injection hs with hs; subst hs; exact h
            | wr f => simp only [stepLocks] at hs; injection hs with hs; subst hs; exact h
            | atomic f => simp only [stepLocks] at hs; injection hs with hs; subst hs; exact h
            | escape f => simp only [stepLocks] at hs; injection hs with hs; subst hs; exact h
          obtain ⟨a, b, Lm, hseg, hrun, hm⟩ := ih L1 L' hL1 hr hn
          refine ⟨e :: a, b, Lm, by rw [hseg]; rfl, ?_, hm⟩
          simp only [List.cons_append, runLocks, hs]
          exact hrun
  -- then: from a state where m is free, reaching a state where t2 holds it needs an acquisition by t2
  have hacq : ∀ (seg : List TEv) (L L' : Locks), L m ≠ some t2 → runLocks L seg = some L' → L' m = some t2 →
      ∃ b c, seg = b ++ (t2, Ev.acq m) :: c := by
    intro seg
    induction seg with
    | nil => intro L L' h hr hh; simp [runLocks] at hr; subst hr; exact absurd hh h
    | cons e r ih =>
      intro L L' h hr hh
      simp only [runLocks] at hr
      cases hs : stepLocks L e with
      | none => simp [hs] at hr
      | some L1 =>
        simp [hs] at hr
        by_cases he : e = (t2, Ev.acq m)
        · exact ⟨[], r, by rw [he]; rfl⟩
        · have hL1 : L1 m ≠ some t2 := by
            obtain ⟨t, ev⟩ := e
            cases ev with
            | acq x =>
              simp only [stepLocks] at hs
              split at hs
              · injection hs with hs; subst hs
                by_cases hx : m = x
                · subst hx
                  simp only [Function.update_self]
                  intro hc; injection hc with hc; subst hc; exact he rfl
                · simpa [Function.update, hx] using h
              · exact absurd hs (by simp)
            | rel x =>
              simp only [stepLocks] at hs
              split at hs
              · injection hs with hs; subst hs
                by_cases hx : m = x
                · subst hx; simp
                · simpa [Function.update, hx] using h
              · exact absurd hs (by simp)
            | rd f => simp only [stepLocks] at hs; injection hs with hs; subst hs; exact h
            | wr f => simp only [stepLocks] at hs; injection hs with hs; subst hs; exact h
            | atomic f => simp only [stepLocks] at hs; injection hs with hs; subst hs; exact h
            | escape f => simp only [stepLocks] at hs; injection hs with hs; subst hs; exact h
          obtain ⟨b, c, hseg⟩ := ih L1 L' hL1 hr hh
          exact ⟨e :: b, c, by rw [hseg]; rfl⟩
  have hn : L' m ≠ some t1 := by rw [h2]; intro hc; injection hc with hc; exact hne hc.symm
  obtain ⟨a, rest, Lm, hseg, hrun, hm⟩ := hrel seg L L' h1 hr hn
  -- run the remainder from Lm
  have hr2 : runLocks Lm rest = some L' := by
    have : seg = (a ++ [(t1, Ev.rel m)]) ++ rest := by rw [hseg]; simp
    rw [this, runLocks_append, hrun] at hr
    simpa using hr
  obtain ⟨b, c, hrest⟩ := hacq rest Lm L' (by rw [hm]; simp) hr2 h2
  exact ⟨a, b, c, by rw [hseg, hrest]; simp⟩

/-! ## Property theorems -/

/-- **Lockset soundness: no data race.** In every valid interleaving whose accesses are guarded, two
    accesses of the same field by different threads are ordered by release → acquire of the field's guard
    mutex (a happens-before edge between them), whatever the number of threads and the length of the trace. -/
theorem lockset_sound (guard : Nat → Nat) (pre mid post : List TEv) (t1 t2 f : Nat) (e1 e2 : Ev)
    (hf1 : e1.field? = some f) (hf2 : e2.field? = some f) (hne : t1 ≠ t2)
    (L0 Lend : Locks)
    (hvalid : runLocks L0 (pre ++ ((t1, e1) :: (mid ++ ((t2, e2) :: post)))) = some Lend)
    (hg : Guarded guard L0 (pre ++ ((t1, e1) :: (mid ++ ((t2, e2) :: post))))) :
    ∃ a b c, mid = a ++ (t1, Ev.rel (guard f)) :: b ++ (t2, Ev.acq (guard f)) :: c := by
  -- locks before e1
  rw [runLocks_append] at hvalid
  cases h1 : runLocks L0 pre with
  | none => rw [h1] at hvalid; simp at hvalid
  | some L1 =>
    rw [h1] at hvalid
    simp only [Option.bind_some] at hvalid
    have hg1 := guarded_append guard L0 pre _ L1 hg h1
    have hheld1 : L1 (guard f) = some t1 := hg1.1 f hf1
    -- e1 is a plain access: it does not change the locks
    have hstep1 : stepLocks L1 (t1, e1) = some L1 := by
      cases e1 <;> simp [Ev.field?] at hf1 <;> rfl
    rw [show (t1, e1) :: (mid ++ ((t2, e2) :: post)) = [(t1, e1)] ++ (mid ++ ((t2, e2) :: post)) by simp,
      runLocks_append] at hvalid
    simp only [runLocks, hstep1, Option.bind_some] at hvalid
    have hg2 : Guarded guard L1 (mid ++ ((t2, e2) :: post)) := by
      have := hg1.2 L1 hstep1
      simpa using this
    rw [runLocks_append] at hvalid
    cases h2 : runLocks L1 mid with
    | none => rw [h2] at hvalid; simp at hvalid
    | some L2 =>
      have hg3 := guarded_append guard L1 mid _ L2 hg2 h2
      have hheld2 : L2 (guard f) = some t2 := hg3.1 f hf2
      exact handoff (guard f) t1 t2 hne mid L1 L2 hheld1 h2 hheld2

/-- **Critical sections are serial.** While thread `t1` is inside a critical section of `m` (from its
    `acq m` to the matching state where it still holds `m`), no other thread performs a guarded access of a
    field whose guard is `m`: every interleaving is equivalent to running the critical sections one after the
    other in acquisition order. -/
theorem critical_sections_serial (guard : Nat → Nat) (L : Locks) (t1 t2 f : Nat) (e : Ev) (rest : List TEv)
    (hheld : L (guard f) = some t1) (hf : e.field? = some f)
    (hg : Guarded guard L ((t2, e) :: rest)) : t2 = t1 := by
  have := hg.1 f hf
  rw [hheld] at this
  injection this with this
  exact this.symm

/-! ### From the decidable check on summaries to guarded traces -/

/-- thread-local view: the mutexes thread `t` holds according to its own events -/
def localHeld (t : Nat) : List Nat → List TEv → List Nat
  | held, [] => held
  | held, (t', .acq m) :: r => localHeld t (if t' = t then m :: held else held) r
  | held, (t', .rel m) :: r => localHeld t (if t' = t then held.erase m else held) r
  | held, _ :: r => localHeld t held r

/-- the discipline stated thread-locally (this is what `scan` checks on each summary): at every plain
    access of a field by `t`, the guard of the field is among the mutexes `t` has acquired and not released -/
def LocalOK (guard : Nat → Nat) (held : Nat → List Nat) : List TEv → Prop
  | [] => True
  | (t, ev) :: r =>
    (∀ f, ev.field? = some f → guard f ∈ held t) ∧
    LocalOK guard (fun t' => if t' = t then
        (match ev with | .acq m => m :: held t | .rel m => (held t).erase m | _ => held t) else held t') r

/-- **Thread-local discipline ⇒ guarded trace.** If every thread only accesses a field while it has
    locally acquired the field's guard, then in every VALID interleaving each access happens while the
    global lock state says the accessing thread holds the guard. -/
theorem local_discipline_guarded (guard : Nat → Nat) (tr : List TEv) (L : Locks) (held : Nat → List Nat)
    (hinv : ∀ t m, m ∈ held t → L m = some t)
    (hnodup : ∀ t, (held t).Nodup)
    (hlocal : LocalOK guard held tr) : Guarded guard L tr := by
  induction tr generalizing L held with
  | nil => trivial
  | cons e r ih =>
    obtain ⟨t, ev⟩ := e
    simp only [LocalOK] at hlocal
    refine ⟨fun f hf => hinv t _ (hlocal.1 f hf), fun L' hstep => ?_⟩
    apply ih L' _ _ _ hlocal.2
    · intro t' m hm
      by_cases ht : t' = t
      · subst ht
        simp only [if_true] at hm
        cases ev with
        | acq x =>
          simp only [stepLocks] at hstep
          split at hstep
          · injection hstep with hstep; subst hstep
            simp only [List.mem_cons] at hm
            rcases hm with rfl | hm
            · simp
            · by_cases hx : m = x
              · subst hx; simp
              · simp [Function.update, hx, hinv t' m hm]
          · exact absurd hstep (by simp)
        | rel x =>
          simp only [stepLocks] at hstep
          split at hstep
          · injection hstep with hstep; subst hstep
            have hmx : m ≠ x := by
              intro hc; subst hc
              exact (List.Nodup.mem_erase_iff (hnodup t')).mp hm |>.1 rfl
            have hm' : m ∈ held t' := List.mem_of_mem_erase hm
            simp [Function.update, hmx, hinv t' m hm']
          · exact absurd hstep (by simp)
        | rd f => simp only [stepLocks] at hstep; injection hstep with hstep; subst hstep; exact hinv t' m hm
        | wr f => simp only [stepLocks] at hstep; injection hstep with hstep; subst hstep; exact hinv t' m hm
        | atomic f => simp only [stepLocks] at hstep; injection hstep with hstep; subst hstep; exact hinv t' m hm
        | escape f => simp only [stepLocks] at hstep; injection hstep with hstep; subst hstep; exact hinv t' m hm
      · simp only [if_neg ht] at hm
        have hL := hinv t' m hm
        cases ev with
        | acq x =>
          simp only [stepLocks] at hstep
          split at hstep
          · injection hstep with hstep; subst hstep
            by_cases hx : m = x
            · subst hx; rename_i hnone; rw [hL] at hnone; exact absurd hnone (by simp)
            · simp [Function.update, hx, hL]
          · exact absurd hstep (by simp)
        | rel x =>
          simp only [stepLocks] at hstep
          split at hstep
          · injection hstep with hstep; subst hstep
            by_cases hx : m = x
            · subst hx; rename_i hh; rw [hL] at hh; injection hh with hh; exact absurd hh ht
            · simp [Function.update, hx, hL]
          · exact absurd hstep (by simp)
        | rd f => simp only [stepLocks] at hstep; injection hstep with hstep; subst hstep; exact hL
        | wr f => simp only [stepLocks] at hstep; injection hstep with hstep; subst hstep; exact hL
        | atomic f => simp only [stepLocks] at hstep; injection hstep with hstep; subst hstep; exact hL
        | escape f => simp only [stepLocks] at hstep; injection hstep with hstep; subst hstep; exact hL
    · intro t'
      by_cases ht : t' = t
      · subst ht
        simp only [if_true]
        cases ev with
        | acq x =>
          simp only [stepLocks] at hstep
          split at hstep
          · rename_i hnone
            refine List.nodup_cons.mpr ⟨fun hx => ?_, hnodup t'⟩
            rw [hinv t' x hx] at hnone; exact absurd hnone (by simp)
          · exact absurd hstep (by simp)
        | rel x => exact (hnodup t').erase x
        | rd f => exact hnodup t'
        | wr f => exact hnodup t'
        | atomic f => exact hnodup t'
        | escape f => exact hnodup t'
      · simp only [if_neg ht]; exact hnodup t'

/-- **The decidable check is sound for one summary**: if `scan g written held evs` succeeds, then along
    `evs` (executed by any thread `t`, starting with `held` locally acquired) every plain access of a written
    field happens with `g` locally held. -/
theorem scan_sound (g : Nat) (written : List Nat) (evs : List Ev) (held held' : List Nat)
    (h : scan g written held evs = some held') :
    ∀ (pre : List Ev) (e : Ev) (post : List Ev) (f : Nat), evs = pre ++ e :: post → e.field? = some f → f ∈ written →
      g ∈ (pre.foldl (fun H ev => match ev with | .acq m => m :: H | .rel m => H.erase m | _ => H) held) := by
  induction evs generalizing held with
  | nil => intro pre e post f he; simp at he
  | cons ev r ih =>
    intro pre e post f he hf hw
    cases pre with
    | nil =>
      simp only [List.nil_append, List.cons.injEq] at he
      obtain ⟨rfl, rfl⟩ := he
      simp only [List.foldl_nil]
      cases ev <;> simp [Ev.field?] at hf <;> subst hf <;> simp only [scan] at h <;>
        (split at h; · exact absurd h (by simp)) <;> (rename_i hc; exact not_not.mp (fun hng => hc ⟨hw, hng⟩))
    | cons p pre' =>
      simp only [List.cons_append, List.cons.injEq] at he
      obtain ⟨rfl, he⟩ := he
      simp only [List.foldl_cons]
      cases ev with
      | acq m =>
        simp only [scan] at h
        split at h
        · exact absurd h (by simp)
        · exact ih _ h pre' e post f he hf hw
      | rel m =>
        simp only [scan] at h
        split at h
        · exact ih _ h pre' e post f he hf hw
        · exact absurd h (by simp)
      | rd x =>
        simp only [scan] at h
        split at h
        · exact absurd h (by simp)
        · exact ih _ h pre' e post f he hf hw
      | wr x =>
        simp only [scan] at h
        split at h
        · exact absurd h (by simp)
        · exact ih _ h pre' e post f he hf hw
      | atomic x => simp only [scan] at h; exact ih _ h pre' e post f he hf hw
      | escape x =>
        simp only [scan] at h
        split at h
        · exact absurd h (by simp)
        · exact ih _ h pre' e post f he hf hw

/-- **The regenerated table of the real code obeys the discipline** (re-checked by the kernel on the file
    `tools/gen_locktable.py` writes from /repo's current source on every run): every anchored class has a
    mutex under which every in-scope public method performs all its accesses of written fields, no reference
    to such a field escapes, and locks are balanced. -/
theorem table_disciplined : tableDisciplined Romea.Generated.C19.table = true := by decide

/-- the table is not empty and covers the anchored classes (so the previous theorem is not vacuous) -/
theorem table_covers :
    (Romea.Generated.C19.table.map (·.name)) =
      ["SharedVariable", "SharedOptionalVariable", "OnlineAverage", "OnlineVariance", "RateMonitoring", "Checkup",
       "CheckupEqualTo", "CheckupGreaterThan", "CheckupLowerThan", "CheckupRate", "CheckupReliability"] ∧
    ∀ c ∈ Romea.Generated.C19.table, c.methods ≠ [] := by decide

/-! ## Serial semantics of the shared variables (what a critical-section-serial object computes) -/

inductive VOp | store (v : Nat) | load
/-- `SharedVariable`: serial execution of stores and loads; returns the values loaded -/
def runVar : Nat → List VOp → List Nat
  | _, [] => []
  | _, .store v :: r => runVar v r
  | cur, .load :: r => cur :: runVar cur r

def storedVals : List VOp → List Nat
  | [] => []
  | .store v :: r => v :: storedVals r
  | .load :: r => storedVals r

/-- **A load returns a stored value** (the initial one or one written by some `store`): never a mixture. -/
theorem shared_variable_atomic (init : Nat) (ops : List VOp) :
    ∀ x ∈ runVar init ops, x = init ∨ x ∈ storedVals ops := by
  induction ops generalizing init with
  | nil => simp [runVar]
  | cons op r ih =>
    cases op with
    | store v =>
      intro x hx
      simp only [runVar] at hx
      rcases ih v x hx with h | h
      · right; simp [storedVals, h]
      · right; simp [storedVals, h]
    | load =>
      intro x hx
      simp only [runVar, List.mem_cons] at hx
      rcases hx with rfl | hx
      · left; rfl
      · simpa [storedVals] using ih init x hx

inductive OOp | store (v : Nat) | consume
/-- `SharedOptionalVariable`: `store` overwrites the pending value, `consume` takes it (if any) -/
def runOpt : Option Nat → List OOp → List Nat
  | _, [] => []
  | _, .store v :: r => runOpt (some v) r
  | some v, .consume :: r => v :: runOpt none r
  | none, .consume :: r => runOpt none r

def storedO : List OOp → List Nat
  | [] => []
  | .store v :: r => v :: storedO r
  | .consume :: r => storedO r

/-- **Exactly once, in store order.** The values handed to consumers form, in order, a subsequence of
    the values stored (occurrence by occurrence): every consumed value was stored, none is handed out twice,
    and the order of consumption is the order of storing. -/
theorem optional_exactly_once (ops : List OOp) : (runOpt none ops).Sublist (storedO ops) := by
  have : ∀ (pend : Option Nat) (ops : List OOp),
      (runOpt pend ops).Sublist ((match pend with | some v => [v] | none => []) ++ storedO ops) := by
    intro pend ops
    induction ops generalizing pend with
    | nil => cases pend <;> simp [runOpt]
    | cons op r ih =>
      cases op with
      | store v =>
        simp only [runOpt, storedO]
        have := ih (some v)
        cases pend with
        | none => simpa using this
        | some w => exact List.Sublist.trans (by simpa using this) (List.sublist_cons_self w _)
      | consume =>
        cases pend with
        | none => simpa [runOpt, storedO] using ih none
        | some w =>
          simp only [runOpt, storedO]
          have := ih none
          simp only [List.nil_append] at this
          exact this.cons_cons w
  simpa using this none ops

/-! ## Non-vacuity -/

example : runLocks (fun _ => none) [(1, .acq 0), (1, .wr 1), (1, .rel 0), (2, .acq 0), (2, .rd 1), (2, .rel 0)] ≠ none := by
  simp [runLocks, stepLocks, Function.update]
example : runOpt none [.store 1, .store 2, .consume, .consume, .store 3, .consume] = [2, 3] := by decide
example : scan 0 [1] [] [.acq 0, .rd 1, .wr 1, .rel 0] = some [] := by decide
example : scan 0 [1] [] [.acq 0, .rd 1, .rel 0, .escape 1] = none := by decide

end Romea.C19
