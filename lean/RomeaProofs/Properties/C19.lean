import RomeaModel.Lockset
import RomeaModel.Generated.LockTable
import RomeaModel.Linearize
import RomeaModel.LinObjects
import RomeaModel.LinReport
import RomeaProofs.Lemmas.C19Lin
import RomeaProofs.Lemmas.C19Report
import Mathlib.Logic.Function.Basic
import Mathlib.Data.List.Basic
import Mathlib.Tactic.Linarith

/-!
# C19 — concurrency: lock discipline ⇒ no data race; one critical section per call ⇒ linearizable (partial)

Part 1 (lockset).  For EVERY number of threads, every program built from method summaries and every
interleaving (unbounded): if the accesses of a trace are guarded (each access of a field `f` happens
while the accessing thread holds the fixed mutex `guard f`) then any two accesses of the same field by
different threads are separated by a `rel (guard f)` of the first thread followed by an `acq (guard f)` of
the second — a happens-before edge, i.e. no data race — and no other thread touches a guarded field inside
somebody's critical section.  The regenerated table of the real code obeys the discipline (`table_disciplined`,
by `decide` on the generated file), and summaries that pass the decidable check `scan` generate guarded traces.

Part 2 (linearizability, `RomeaModel/Linearize.lean`).  A small-step interleaving semantics — shared store of
WORDS (a C++ value / optional / report is several words, copied one word per step), mutex state, any number of
threads each running a list of method calls, bodies = lists of micro-steps, ANY schedule, blocking `acq` — and the
reduction theorem `linearizable`: if every body is ONE critical section on the guard containing all its store
accesses, then every reachable state (also with calls in flight) is explained by the SERIAL execution of the calls
in the order in which they took the guard.  `table_lin_shaped` (by `decide`, on every run) shows that the event
lists regenerated from today's source have that shape for every anchored class except `RateMonitoring`;
`table_linearizable` concludes the reduction for the bodies `ofEvents` builds from those lists, for every field
width and EVERY data flow; `table_linearizable_to` turns any SEQUENTIAL refinement of an object into linearizability.
Consequences, each for every data flow on today's event lists that is sequentially correct: `SharedVariable` is a
linearizable cell and is never observed half-written; `SharedOptionalVariable` is a linearizable one-place buffer,
every consumed value was stored, none is handed out twice, consumption order = store order, an overwritten value is
dropped; every check-up report copy is the triple of ONE evaluation; the online statistics' getters return the values
of a serial order (every data flow, no contract at all).

NOT carried (residue, see DESIGN.md C19): the C++ memory model, `std::mutex`, compiler reordering — the model is a
sequentially consistent interleaving of word-sized steps and `lock_guard` acquires/releases as the event language
says; the event lists come from the trusted script `tools/gen_locktable.py`; the DATA FLOW of the bodies is not
extracted from the source: every class theorem quantifies over it, constrained only by a SEQUENTIAL contract (what
each method does when run alone — single-threaded behaviour, the subject of C16–C18 and of the unit tests), and the
hand-written flows of `LinClasses.lean` / `LinReport.lean` show the contracts satisfiable on today's event lists (for the
check-up reports of the four classes whose `evaluate` is translated, `Properties/C19Reports.lean` discharges the contract with a
flow computed by the functions translated from today's source);
`RateMonitoring` (critical sections plus a lock-free atomic load) does not have the shape of Part 2: it is covered by
Part 3, `Properties/C19Rate.lean` (`serialisable`, `table_rate_monitoring_shaped`); real-time order of the
linearization is by construction, not a theorem; the ThreadSanitizer harness cross-checks all of this on the real
classes.
-/
namespace Romea.C19
open Romea.Lockset

/-- an event tagged with the executing thread -/
abbrev TEv := Nat × Ev

/-- mutex ↦ thread holding it -/
abbrev Locks := Nat → Option Nat

/-- operational semantics of the lock events: `acq` blocks (is not enabled) while the mutex is held,
    `rel` is only possible for the holder -/
def stepLocks (L : Locks) : TEv → Option Locks
  | (t, .acq m) => if L m = none then some (Function.update L m (some t)) else none
  | (t, .rel m) => if L m = some t then some (Function.update L m none) else none
  | _ => some L

def runLocks (L : Locks) : List TEv → Option Locks
  | [] => some L
  | e :: r => (stepLocks L e).bind fun L' => runLocks L' r

/-- every plain access of a field happens while the accessing thread holds that field's guard -/
def Guarded (guard : Nat → Nat) : Locks → List TEv → Prop
  | _, [] => True
  | L, e :: r =>
    (∀ f, e.2.field? = some f → L (guard f) = some e.1) ∧
    ∀ L', stepLocks L e = some L' → Guarded guard L' r

private theorem runLocks_append (L : Locks) (a b : List TEv) :
    runLocks L (a ++ b) = (runLocks L a).bind fun L' => runLocks L' b := by
  induction a generalizing L with
  | nil => simp [runLocks]
  | cons e r ih =>
    simp only [List.cons_append, runLocks]
    cases h : stepLocks L e with
    | none => simp
    | some L' => simp [ih]

private theorem guarded_append (guard : Nat → Nat) (L : Locks) (a b : List TEv) (L' : Locks)
    (hg : Guarded guard L (a ++ b)) (hr : runLocks L a = some L') : Guarded guard L' b := by
  induction a generalizing L with
  | nil => simp [runLocks] at hr; subst hr; simpa using hg
  | cons e r ih =>
    simp only [List.cons_append, Guarded] at hg
    simp only [runLocks] at hr
    cases h : stepLocks L e with
    | none => simp [h] at hr
    | some L1 => simp [h] at hr; exact ih L1 (hg.2 L1 h) hr

/-- **hand-off**: if thread `t1` holds `m`, and after a valid segment thread `t2 ≠ t1` holds it, then the
    segment contains a release of `m` by `t1` followed by an acquisition of `m` by `t2` -/
private theorem handoff (m t1 t2 : Nat) (hne : t1 ≠ t2) (seg : List TEv) (L L' : Locks)
    (h1 : L m = some t1) (hr : runLocks L seg = some L') (h2 : L' m = some t2) :
    ∃ a b c, seg = a ++ (t1, Ev.rel m) :: b ++ (t2, Ev.acq m) :: c := by
  -- first: a release by t1 must occur
  have hrel : ∀ (seg : List TEv) (L L' : Locks), L m = some t1 → runLocks L seg = some L' → L' m ≠ some t1 →
      ∃ a b Lm, seg = a ++ (t1, Ev.rel m) :: b ∧ runLocks L (a ++ [(t1, Ev.rel m)]) = some Lm ∧ Lm m = none := by
    intro seg
    induction seg with
    | nil => intro L L' h hr hn; simp [runLocks] at hr; subst hr; exact absurd h hn
    | cons e r ih =>
      intro L L' h hr hn
      simp only [runLocks] at hr
      cases hs : stepLocks L e with
      | none => simp [hs] at hr
      | some L1 =>
        simp [hs] at hr
        by_cases he : e = (t1, Ev.rel m)
        · subst he
          refine ⟨[], r, L1, rfl, ?_, ?_⟩
          · simp [runLocks, hs]
          · simp only [stepLocks, h, if_true] at hs
            injection hs with hs; subst hs; simp
        · -- e does not release m from t1, so t1 still holds m afterwards
          have hL1 : L1 m = some t1 := by
            obtain ⟨t, ev⟩ := e
            cases ev with
            | acq x =>
              simp only [stepLocks] at hs
              split at hs
              · injection hs with hs; subst hs
                by_cases hx : m = x
                · subst hx; rename_i hnone; rw [h] at hnone; exact absurd hnone (by simp)
                · simp [Function.update, hx, h]
              · exact absurd hs (by simp)
            | rel x =>
              simp only [stepLocks] at hs
              split at hs
              · injection hs with hs; subst hs
                by_cases hx : m = x
                · subst hx; rename_i hh; rw [h] at hh
                  have : t = t1 := by injection hh with hh; exact hh.symm
                  subst this; exact absurd rfl he
                · simp [Function.update, hx, h]
              · exact absurd hs (by simp)
            | rd f => simp only [stepLocks] at hs; injection hs with hs; subst hs; exact h
            | wr f => simp only [stepLocks] at hs; injection hs with hs; subst hs; exact h
            | atomic f => simp only [stepLocks] at hs; injection hs with hs; subst hs; exact h
            | escape f => simp only [stepLocks] at hs; injection hs with hs; subst hs; exact h
          obtain ⟨a, b, Lm, hseg, hrun, hm⟩ := ih L1 L' hL1 hr hn
          refine ⟨e :: a, b, Lm, by rw [hseg]; rfl, ?_, hm⟩
          simp only [List.cons_append, runLocks, hs]
          exact hrun
  -- then: from a state where m is free, reaching a state where t2 holds it needs an acquisition by t2
  have hacq : ∀ (seg : List TEv) (L L' : Locks), L m ≠ some t2 → runLocks L seg = some L' → L' m = some t2 →
      ∃ b c, seg = b ++ (t2, Ev.acq m) :: c := by
    intro seg
    induction seg with
    | nil => intro L L' h hr hh; simp [runLocks] at hr; subst hr; exact absurd hh h
    | cons e r ih =>
      intro L L' h hr hh
      simp only [runLocks] at hr
      cases hs : stepLocks L e with
      | none => simp [hs] at hr
      | some L1 =>
        simp [hs] at hr
        by_cases he : e = (t2, Ev.acq m)
        · exact ⟨[], r, by rw [he]; rfl⟩
        · have hL1 : L1 m ≠ some t2 := by
            obtain ⟨t, ev⟩ := e
            cases ev with
            | acq x =>
              simp only [stepLocks] at hs
              split at hs
              · injection hs with hs; subst hs
                by_cases hx : m = x
                · subst hx
                  simp only [Function.update_self]
                  intro hc; injection hc with hc; subst hc; exact he rfl
                · simpa [Function.update, hx] using h
              · exact absurd hs (by simp)
            | rel x =>
              simp only [stepLocks] at hs
              split at hs
              · injection hs with hs; subst hs
                by_cases hx : m = x
                · subst hx; simp
                · simpa [Function.update, hx] using h
              · exact absurd hs (by simp)
            | rd f => simp only [stepLocks] at hs; injection hs with hs; subst hs; exact h
            | wr f => simp only [stepLocks] at hs; injection hs with hs; subst hs; exact h
            | atomic f => simp only [stepLocks] at hs; injection hs with hs; subst hs; exact h
            | escape f => simp only [stepLocks] at hs; injection hs with hs; subst hs; exact h
          obtain ⟨b, c, hseg⟩ := ih L1 L' hL1 hr hh
          exact ⟨e :: b, c, by rw [hseg]; rfl⟩
  have hn : L' m ≠ some t1 := by rw [h2]; intro hc; injection hc with hc; exact hne hc.symm
  obtain ⟨a, rest, Lm, hseg, hrun, hm⟩ := hrel seg L L' h1 hr hn
  -- run the remainder from Lm
  have hr2 : runLocks Lm rest = some L' := by
    have : seg = (a ++ [(t1, Ev.rel m)]) ++ rest := by rw [hseg]; simp
    rw [this, runLocks_append, hrun] at hr
    simpa using hr
  obtain ⟨b, c, hrest⟩ := hacq rest Lm L' (by rw [hm]; simp) hr2 h2
  exact ⟨a, b, c, by rw [hseg, hrest]; simp⟩

/-! ## Property theorems -/

/-- **Lockset soundness: no data race.** In every valid interleaving whose accesses are guarded, two
    accesses of the same field by different threads are ordered by release → acquire of the field's guard
    mutex (a happens-before edge between them), whatever the number of threads and the length of the trace. -/
theorem lockset_sound (guard : Nat → Nat) (pre mid post : List TEv) (t1 t2 f : Nat) (e1 e2 : Ev)
    (hf1 : e1.field? = some f) (hf2 : e2.field? = some f) (hne : t1 ≠ t2)
    (L0 Lend : Locks)
    (hvalid : runLocks L0 (pre ++ ((t1, e1) :: (mid ++ ((t2, e2) :: post)))) = some Lend)
    (hg : Guarded guard L0 (pre ++ ((t1, e1) :: (mid ++ ((t2, e2) :: post))))) :
    ∃ a b c, mid = a ++ (t1, Ev.rel (guard f)) :: b ++ (t2, Ev.acq (guard f)) :: c := by
  -- locks before e1
  rw [runLocks_append] at hvalid
  cases h1 : runLocks L0 pre with
  | none => rw [h1] at hvalid; simp at hvalid
  | some L1 =>
    rw [h1] at hvalid
    simp only [Option.bind_some] at hvalid
    have hg1 := guarded_append guard L0 pre _ L1 hg h1
    have hheld1 : L1 (guard f) = some t1 := hg1.1 f hf1
    -- e1 is a plain access: it does not change the locks
    have hstep1 : stepLocks L1 (t1, e1) = some L1 := by
      cases e1 <;> simp [Ev.field?] at hf1 <;> rfl
    rw [show (t1, e1) :: (mid ++ ((t2, e2) :: post)) = [(t1, e1)] ++ (mid ++ ((t2, e2) :: post)) by simp,
      runLocks_append] at hvalid
    simp only [runLocks, hstep1, Option.bind_some] at hvalid
    have hg2 : Guarded guard L1 (mid ++ ((t2, e2) :: post)) := by
      have := hg1.2 L1 hstep1
      simpa using this
    rw [runLocks_append] at hvalid
    cases h2 : runLocks L1 mid with
    | none => rw [h2] at hvalid; simp at hvalid
    | some L2 =>
      have hg3 := guarded_append guard L1 mid _ L2 hg2 h2
      have hheld2 : L2 (guard f) = some t2 := hg3.1 f hf2
      exact handoff (guard f) t1 t2 hne mid L1 L2 hheld1 h2 hheld2

/-- **Critical sections are serial.** While thread `t1` is inside a critical section of `m` (from its
    `acq m` to the matching state where it still holds `m`), no other thread performs a guarded access of a
    field whose guard is `m`: every interleaving is equivalent to running the critical sections one after the
    other in acquisition order. -/
theorem critical_sections_serial (guard : Nat → Nat) (L : Locks) (t1 t2 f : Nat) (e : Ev) (rest : List TEv)
    (hheld : L (guard f) = some t1) (hf : e.field? = some f)
    (hg : Guarded guard L ((t2, e) :: rest)) : t2 = t1 := by
  have := hg.1 f hf
  rw [hheld] at this
  injection this with this
  exact this.symm

/-! ### From the decidable check on summaries to guarded traces -/

/-- thread-local view: the mutexes thread `t` holds according to its own events -/
def localHeld (t : Nat) : List Nat → List TEv → List Nat
  | held, [] => held
  | held, (t', .acq m) :: r => localHeld t (if t' = t then m :: held else held) r
  | held, (t', .rel m) :: r => localHeld t (if t' = t then held.erase m else held) r
  | held, _ :: r => localHeld t held r

/-- the discipline stated thread-locally (this is what `scan` checks on each summary): at every plain
    access of a field by `t`, the guard of the field is among the mutexes `t` has acquired and not released -/
def LocalOK (guard : Nat → Nat) (held : Nat → List Nat) : List TEv → Prop
  | [] => True
  | (t, ev) :: r =>
    (∀ f, ev.field? = some f → guard f ∈ held t) ∧
    LocalOK guard (fun t' => if t' = t then
        (match ev with | .acq m => m :: held t | .rel m => (held t).erase m | _ => held t) else held t') r

/-- **Thread-local discipline ⇒ guarded trace.** If every thread only accesses a field while it has
    locally acquired the field's guard, then in every VALID interleaving each access happens while the
    global lock state says the accessing thread holds the guard. -/
theorem local_discipline_guarded (guard : Nat → Nat) (tr : List TEv) (L : Locks) (held : Nat → List Nat)
    (hinv : ∀ t m, m ∈ held t → L m = some t)
    (hnodup : ∀ t, (held t).Nodup)
    (hlocal : LocalOK guard held tr) : Guarded guard L tr := by
  induction tr generalizing L held with
  | nil => trivial
  | cons e r ih =>
    obtain ⟨t, ev⟩ := e
    simp only [LocalOK] at hlocal
    refine ⟨fun f hf => hinv t _ (hlocal.1 f hf), fun L' hstep => ?_⟩
    apply ih L' _ _ _ hlocal.2
    · intro t' m hm
      by_cases ht : t' = t
      · subst ht
        simp only [if_true] at hm
        cases ev with
        | acq x =>
          simp only [stepLocks] at hstep
          split at hstep
          · injection hstep with hstep; subst hstep
            simp only [List.mem_cons] at hm
            rcases hm with rfl | hm
            · simp
            · by_cases hx : m = x
              · subst hx; simp
              · simp [Function.update, hx, hinv t' m hm]
          · exact absurd hstep (by simp)
        | rel x =>
          simp only [stepLocks] at hstep
          split at hstep
          · injection hstep with hstep; subst hstep
            have hmx : m ≠ x := by
              intro hc; subst hc
              exact (List.Nodup.mem_erase_iff (hnodup t')).mp hm |>.1 rfl
            have hm' : m ∈ held t' := List.mem_of_mem_erase hm
            simp [Function.update, hmx, hinv t' m hm']
          · exact absurd hstep (by simp)
        | rd f => simp only [stepLocks] at hstep; injection hstep with hstep; subst hstep; exact hinv t' m hm
        | wr f => simp only [stepLocks] at hstep; injection hstep with hstep; subst hstep; exact hinv t' m hm
        | atomic f => simp only [stepLocks] at hstep; injection hstep with hstep; subst hstep; exact hinv t' m hm
        | escape f => simp only [stepLocks] at hstep; injection hstep with hstep; subst hstep; exact hinv t' m hm
      · simp only [if_neg ht] at hm
        have hL := hinv t' m hm
        cases ev with
        | acq x =>
          simp only [stepLocks] at hstep
          split at hstep
          · injection hstep with hstep; subst hstep
            by_cases hx : m = x
            · subst hx; rename_i hnone; rw [hL] at hnone; exact absurd hnone (by simp)
            · simp [Function.update, hx, hL]
          · exact absurd hstep (by simp)
        | rel x =>
          simp only [stepLocks] at hstep
          split at hstep
          · injection hstep with hstep; subst hstep
            by_cases hx : m = x
            · subst hx; rename_i hh; rw [hL] at hh; injection hh with hh; exact absurd hh ht
            · simp [Function.update, hx, hL]
          · exact absurd hstep (by simp)
        | rd f => simp only [stepLocks] at hstep; injection hstep with hstep; subst hstep; exact hL
        | wr f => simp only [stepLocks] at hstep; injection hstep with hstep; subst hstep; exact hL
        | atomic f => simp only [stepLocks] at hstep; injection hstep with hstep; subst hstep; exact hL
        | escape f => simp only [stepLocks] at hstep; injection hstep with hstep; subst hstep; exact hL
    · intro t'
      by_cases ht : t' = t
      · subst ht
        simp only [if_true]
        cases ev with
        | acq x =>
          simp only [stepLocks] at hstep
          split at hstep
          · rename_i hnone
            refine List.nodup_cons.mpr ⟨fun hx => ?_, hnodup t'⟩
            rw [hinv t' x hx] at hnone; exact absurd hnone (by simp)
          · exact absurd hstep (by simp)
        | rel x => exact (hnodup t').erase x
        | rd f => exact hnodup t'
        | wr f => exact hnodup t'
        | atomic f => exact hnodup t'
        | escape f => exact hnodup t'
      · simp only [if_neg ht]; exact hnodup t'

/-- **The decidable check is sound for one summary**: if `scan g written held evs` succeeds, then along
    `evs` (executed by any thread `t`, starting with `held` locally acquired) every plain access of a written
    field happens with `g` locally held. -/
theorem scan_sound (g : Nat) (written : List Nat) (evs : List Ev) (held held' : List Nat)
    (h : scan g written held evs = some held') :
    ∀ (pre : List Ev) (e : Ev) (post : List Ev) (f : Nat), evs = pre ++ e :: post → e.field? = some f → f ∈ written →
      g ∈ (pre.foldl (fun H ev => match ev with | .acq m => m :: H | .rel m => H.erase m | _ => H) held) := by
  induction evs generalizing held with
  | nil => intro pre e post f he; simp at he
  | cons ev r ih =>
    intro pre e post f he hf hw
    cases pre with
    | nil =>
      simp only [List.nil_append, List.cons.injEq] at he
      obtain ⟨rfl, rfl⟩ := he
      simp only [List.foldl_nil]
      cases ev <;> simp [Ev.field?] at hf <;> subst hf <;> simp only [scan] at h <;>
        (split at h; · exact absurd h (by simp)) <;> (rename_i hc; exact not_not.mp (fun hng => hc ⟨hw, hng⟩))
    | cons p pre' =>
      simp only [List.cons_append, List.cons.injEq] at he
      obtain ⟨rfl, he⟩ := he
      simp only [List.foldl_cons]
      cases ev with
      | acq m =>
        simp only [scan] at h
        split at h
        · exact absurd h (by simp)
        · exact ih _ h pre' e post f he hf hw
      | rel m =>
        simp only [scan] at h
        split at h
        · exact ih _ h pre' e post f he hf hw
        · exact absurd h (by simp)
      | rd x =>
        simp only [scan] at h
        split at h
        · exact absurd h (by simp)
        · exact ih _ h pre' e post f he hf hw
      | wr x =>
        simp only [scan] at h
        split at h
        · exact absurd h (by simp)
        · exact ih _ h pre' e post f he hf hw
      | atomic x => simp only [scan] at h; exact ih _ h pre' e post f he hf hw
      | escape x =>
        simp only [scan] at h
        split at h
        · exact absurd h (by simp)
        · exact ih _ h pre' e post f he hf hw

/-- **The regenerated table of the real code obeys the discipline** (re-checked by the kernel on the file
    `tools/gen_locktable.py` writes from /repo's current source on every run): every anchored class has a
    mutex under which every in-scope public method performs all its accesses of written fields, no reference
    to such a field escapes, and locks are balanced. -/
theorem table_disciplined : tableDisciplined Romea.Generated.C19.table = true := by decide

/-- the table is not empty and covers the anchored classes (so the previous theorem is not vacuous) -/
theorem table_covers :
    (Romea.Generated.C19.table.map (·.name)) =
      ["SharedVariable", "SharedOptionalVariable", "OnlineAverage", "OnlineVariance", "RateMonitoring", "Checkup",
       "CheckupEqualTo", "CheckupGreaterThan", "CheckupLowerThan", "CheckupRate", "CheckupReliability"] ∧
    ∀ c ∈ Romea.Generated.C19.table, c.methods ≠ [] := by decide

/-! ## Serial semantics of the shared variables (what a critical-section-serial object computes) -/

inductive VOp | store (v : Nat) | load
/-- `SharedVariable`: serial execution of stores and loads; returns the values loaded -/
def runVar : Nat → List VOp → List Nat
  | _, [] => []
  | _, .store v :: r => runVar v r
  | cur, .load :: r => cur :: runVar cur r

def storedVals : List VOp → List Nat
  | [] => []
  | .store v :: r => v :: storedVals r
  | .load :: r => storedVals r

/-- **A load returns a stored value** (the initial one or one written by some `store`): never a mixture. -/
theorem shared_variable_atomic (init : Nat) (ops : List VOp) :
    ∀ x ∈ runVar init ops, x = init ∨ x ∈ storedVals ops := by
  induction ops generalizing init with
  | nil => simp [runVar]
  | cons op r ih =>
    cases op with
    | store v =>
      intro x hx
      simp only [runVar] at hx
      rcases ih v x hx with h | h
      · right; simp [storedVals, h]
      · right; simp [storedVals, h]
    | load =>
      intro x hx
      simp only [runVar, List.mem_cons] at hx
      rcases hx with rfl | hx
      · left; rfl
      · simpa [storedVals] using ih init x hx

inductive OOp | store (v : Nat) | consume
/-- `SharedOptionalVariable`: `store` overwrites the pending value, `consume` takes it (if any) -/
def runOpt : Option Nat → List OOp → List Nat
  | _, [] => []
  | _, .store v :: r => runOpt (some v) r
  | some v, .consume :: r => v :: runOpt none r
  | none, .consume :: r => runOpt none r

def storedO : List OOp → List Nat
  | [] => []
  | .store v :: r => v :: storedO r
  | .consume :: r => storedO r

/-- **Exactly once, in store order.** The values handed to consumers form, in order, a subsequence of
    the values stored (occurrence by occurrence): every consumed value was stored, none is handed out twice,
    and the order of consumption is the order of storing. -/
theorem optional_exactly_once (ops : List OOp) : (runOpt none ops).Sublist (storedO ops) := by
  have : ∀ (pend : Option Nat) (ops : List OOp),
      (runOpt pend ops).Sublist ((match pend with | some v => [v] | none => []) ++ storedO ops) := by
    intro pend ops
    induction ops generalizing pend with
    | nil => cases pend <;> simp [runOpt]
    | cons op r ih =>
      cases op with
      | store v =>
        simp only [runOpt, storedO]
        have := ih (some v)
        cases pend with
        | none => simpa using this
        | some w => exact List.Sublist.trans (by simpa using this) (List.sublist_cons_self w _)
      | consume =>
        cases pend with
        | none => simpa [runOpt, storedO] using ih none
        | some w =>
          simp only [runOpt, storedO]
          have := ih none
          simp only [List.nil_append] at this
          exact this.cons_cons w
  simpa using this none ops

/-! ## Linearizability: every schedule is explained by a serial execution (reduction theorem)

`RomeaModel/Linearize.lean`: small-step interleaving semantics (shared store of words, mutex state, threads running
sequences of method calls, bodies = lists of micro-steps, arbitrary schedule, blocking `acq`), the serial reference
machine, `Shape`, `Linearized`, `LinearizableTo`, and `ofEvents` (bodies from the regenerated lock table).  -/

section Linearizability
open Romea.Lin
variable {V A R : Type} [Inhabited V]

/-- **Reduction theorem (atomicity of critical sections).** ANY number of threads, ANY programs (lists of calls),
    ANY schedule of ANY length — also one that stops with calls in flight: if every body is ONE critical section on
    the guard `g` that contains all its accesses of the shared store (`Shape`), then the state reached is explained by
    the SERIAL execution of the calls in the order in which they acquired `g`: that order respects every thread's
    program order; the completed calls returned, call by call, the serial return values; with the guard free the store
    IS the serial store; with the guard held the present state is an intermediate state of the last serial call
    (letting the holder finish alone yields the serial store and result).  (`Linearized`, in the model file, spells
    these clauses out.)  The linearization point of a call is its `acq g`, which lies between its invocation and
    its return, so the order also respects real-time precedence of calls (by construction of `acqOrder`; not stated
    separately). -/
theorem linearizable (g : Nat) (σ0 : Store V) (prog : Nat → List (Call V A R))
    (hshape : ∀ t, ∀ c ∈ prog t, Shape g c.body) (sch : List Nat) :
    Linearized g σ0 prog (run (init σ0 prog) sch) :=
  linearized_of_inv g σ0 prog _ (inv_run g σ0 prog _ sch (inv_init g σ0 prog hshape))

/-- **Complete runs.** If the schedule ran every thread to the end, the final store is the serial store, every
    thread's results are exactly the serial results and every call of every program is in the serial history. -/
theorem linearizable_complete (g : Nat) (σ0 : Store V) (prog : Nat → List (Call V A R))
    (hshape : ∀ t, ∀ c ∈ prog t, Shape g c.body) (sch : List Nat)
    (hfin : ∀ t, ((run (init σ0 prog) sch).thr t).cur = none ∧ ((run (init σ0 prog) sch).thr t).todo = []) :
    (run (init σ0 prog) sch).store = (serial σ0 prog (acqOrder g (run (init σ0 prog) sch))).store ∧
    ∀ t, ((run (init σ0 prog) sch).thr t).done = (serial σ0 prog (acqOrder g (run (init σ0 prog) sch))).res t ∧
      histCalls (serial σ0 prog (acqOrder g (run (init σ0 prog) sch))).hist t = prog t := by
  have hL := linearizable g σ0 prog hshape sch
  refine ⟨hL.store_free ?_, fun t => ?_⟩
  · cases hl : (run (init σ0 prog) sch).locks g with
    | none => rfl
    | some h => exact absurd hl (hL.idle h (hfin h).1).2.2
  · obtain ⟨h1, h2, _⟩ := hL.idle t (hfin t).1
    refine ⟨h1.symm, ?_⟩
    have := hL.program_order t
    rw [h2, (hfin t).2, List.append_nil] at this
    exact this

/-- classes of the table that do NOT have the one-critical-section shape of this reduction: `RateMonitoring::getRate`
    is a lone atomic load outside the mutex and `update` reads `windowSize_` before locking.  They are covered by
    Part 3 (`Properties/C19Rate.lean`): `table_rate_monitoring_shaped` checks, for every class named here, a richer
    shape on the EXTENDED event lists (atomic loads / stores told apart) and `serialisable` gives it its meaning. -/
def notReduced : List String := ["RateMonitoring"]

/-- **The regenerated table of the real code has the shape the reduction needs** (re-checked by the kernel on every
    run): every in-scope method of every other anchored class is `acq g`, plain reads / writes, `rel g` and nothing
    else — one critical section on the class's guard containing every field access, no access after the release, no
    escaping reference, no second critical section, no atomics. -/
theorem table_lin_shaped : ∀ c ∈ Romea.Generated.C19.table, c.name ∉ notReduced → c.linShaped = true := by decide

/-- **The reduction holds of the bodies generated from today's source**, for every field width `W` (copies are word
    by word), EVERY data flow, every program made of calls of the class's in-scope methods, every schedule. -/
theorem table_linearizable (c : Class) (hc : c ∈ Romea.Generated.C19.table) (hex : c.name ∉ notReduced)
    (W : Nat) (σ0 : Store V) (prog : Nat → List (Call V A R))
    (hprog : ∀ t, ∀ cl ∈ prog t, ∃ m ∈ c.methods, ∃ fl : Flow V A R, cl.body = ofEvents W fl m.evs)
    (sch : List Nat) : Linearized c.guard σ0 prog (run (init σ0 prog) sch) := by
  apply linearizable
  intro t cl hcl
  obtain ⟨m, hm, fl, hb⟩ := hprog t cl hcl
  rw [hb]
  exact shape_ofEvents c.guard W fl m.evs (guard_spec c (table_lin_shaped c hc hex) m hm)

/-- **Linearizability w.r.t. a sequential specification.** If every operation's body has the shape and, run ALONE,
    refines the operation of a sequential object `o` (abstraction function `abs`), then every schedule is
    linearizable to `o` in the sense of Herlihy–Wing (`LinearizableTo`). -/
theorem linearizable_to_object {S Op : Type} (g : Nat) (o : SeqObj S Op R) (abs : Store V → S)
    (impl : Op → Call V Op R) (himpl : ∀ op, (impl op).arg = op) (hshape : ∀ op, Shape g (impl op).body)
    (href : ∀ op σ, abs (runCall σ (impl op)).1 = (o.step (abs σ) op).1 ∧ (runCall σ (impl op)).2 = (o.step (abs σ) op).2)
    (σ0 : Store V) (oprog : Nat → List Op) (sch : List Nat) :
    LinearizableTo o (abs σ0) oprog (run (init σ0 (fun t => (oprog t).map impl)) sch) := by
  apply linearizableTo_of_refines g o abs impl himpl hshape href
  apply inv_run
  apply inv_init
  intro t c hc
  simp only [List.mem_map] at hc
  obtain ⟨op, _, rfl⟩ := hc
  exact hshape op

/-- **The same for a class of the regenerated table**: operations `Op` mapped to in-scope methods of the class by
    name, bodies built from today's event lists (`Class.call`), ANY field width, ANY data flow `fl` that is
    SEQUENTIALLY correct — every call run alone refines the operation of the object `o` — then every schedule of any
    number of threads is linearizable to `o`.  (The hypothesis is about single-threaded runs only.) -/
theorem table_linearizable_to {S Op : Type} (c : Class) (hc : c ∈ Romea.Generated.C19.table) (hex : c.name ∉ notReduced)
    (W : Nat) (fl : Flow V Op R) (meth : Op → String)
    (hmeth : ∀ op, (c.methods.any fun m => m.name == meth op) = true)
    (o : SeqObj S Op R) (abs : Store V → S)
    (hseq : ∀ op σ, abs (runCall σ (c.call W fl meth op)).1 = (o.step (abs σ) op).1 ∧
        (runCall σ (c.call W fl meth op)).2 = (o.step (abs σ) op).2)
    (σ0 : Store V) (oprog : Nat → List Op) (sch : List Nat) :
    LinearizableTo o (abs σ0) oprog (run (init σ0 (fun t => (oprog t).map (c.call W fl meth))) sch) := by
  apply linearizable_to_object c.guard o abs (c.call W fl meth) (fun _ => rfl) _ hseq
  intro op
  obtain ⟨m, hm, he⟩ := evsOf_mem c (meth op) (hmeth op)
  simp only [Class.call, he]
  exact shape_ofEvents c.guard W fl m.evs (guard_spec c (table_lin_shaped c hc hex) m hm)

/-- **No intermediate state is ever observed.** If a predicate `I` on stores holds initially and is re-established by
    every call when run alone (it may be broken INSIDE a call), then in every schedule the store satisfies `I`
    whenever nobody is in a critical section, and every value returned by the `k`-th completed call of a thread is the
    value its `k`-th call computes when run alone from a store satisfying `I`. -/
theorem observed_in_consistent_state (g : Nat) (σ0 : Store V) (prog : Nat → List (Call V A R))
    (hshape : ∀ t, ∀ c ∈ prog t, Shape g c.body) (I : Store V → Prop) (hI0 : I σ0)
    (hpres : ∀ t, ∀ c ∈ prog t, ∀ σ, I σ → I (runCall σ c).1) (sch : List Nat) :
    ((run (init σ0 prog) sch).locks g = none → I (run (init σ0 prog) sch).store) ∧
    ∀ (t k : Nat) (r : Option R), ((run (init σ0 prog) sch).thr t).done[k]? = some r →
      ∃ c σ, (prog t)[k]? = some c ∧ I σ ∧ r = (runCall σ c).2 := by
  have hL := linearizable g σ0 prog hshape sch
  obtain ⟨hIL, H, hH, hall⟩ := serFold_inv I (fun c => ∃ t, c ∈ prog t)
    (by rintro c ⟨t, hc⟩ σ hσ; exact hpres t c hc σ hσ)
    (acqOrder g (run (init σ0 prog) sch)) (serInit σ0 prog) (fun t c hc => ⟨t, hc⟩) hI0
  refine ⟨fun hf => by rw [hL.store_free hf]; exact hIL, fun t k r hk => ?_⟩
  obtain ⟨c, hc, hmem⟩ := result_of_call g σ0 prog _ hL t k r hk
  have hmem' : (t, c, r) ∈ H := by
    have : (serial σ0 prog (acqOrder g (run (init σ0 prog) sch))).hist = (serInit σ0 prog).hist ++ H := hH
    rw [this] at hmem; simpa [serInit] using hmem
  obtain ⟨_, σ, hσ, hr⟩ := hall _ hmem'
  exact ⟨c, σ, hc, hσ, hr⟩

end Linearizability

/-! ## The anchored classes (bodies from the regenerated table; specifications in `RomeaModel/LinObjects.lean`,
`LinReport.lean`; the witnesses that the sequential hypotheses are satisfiable are in `Properties/C19Witness.lean`) -/

section Classes
open Romea.Lin Romea.Generated.C19

/-- **SharedVariable is a linearizable cell**, for every width `W` of the value (copied word by word), every number of
    threads storing and loading, every schedule, and EVERY data flow on the regenerated event lists of `store` / `load`
    that is sequentially a cell (`hseq`: run alone, `store v` leaves the `W` words of `value_` equal to `v`, `load`
    changes nothing and returns them — `svFlow`, i.e. `value_ = value;` / `return value_;`, is one, see the examples):
    there is one sequential history in which every `load` returns the value of the latest `store` before it (or the
    initial value), and every completed call returned what it returns in that history. -/
theorem shared_variable_linearizable {V : Type} [Inhabited V] (W : Nat) (fl : Flow V (SVOp V) (List V))
    (hseq : ∀ op σ, vecOf W 1 (runCall σ (cls_SharedVariable.call W fl SVOp.method op)).1 = ((svObj W).step (vecOf W 1 σ) op).1 ∧
        (runCall σ (cls_SharedVariable.call W fl SVOp.method op)).2 = ((svObj W).step (vecOf W 1 σ) op).2)
    (σ0 : Store V) (prog : Nat → List (SVOp V)) (sch : List Nat) :
    LinearizableTo (svObj W) (vecOf W 1 σ0) prog
      (run (init σ0 (fun t => (prog t).map (cls_SharedVariable.call W fl SVOp.method))) sch) :=
  table_linearizable_to cls_SharedVariable (by simp [Romea.Generated.C19.table]) (by decide) W fl SVOp.method
    (by intro op; cases op <;> (simp only [SVOp.method]; decide)) (svObj W) (vecOf W 1) hseq σ0 prog sch

/-- **A shared variable is never observed half-written**: whatever the width, the thread count and the schedule,
    every value a completed `load` returned is — all `W` words of it — the initial value or the argument of ONE
    `store` call of some thread; never a mixture of two stores.  (`some []` is what a `store` returns.) -/
theorem shared_variable_never_torn {V : Type} [Inhabited V] (W : Nat) (fl : Flow V (SVOp V) (List V))
    (hseq : ∀ op σ, vecOf W 1 (runCall σ (cls_SharedVariable.call W fl SVOp.method op)).1 = ((svObj W).step (vecOf W 1 σ) op).1 ∧
        (runCall σ (cls_SharedVariable.call W fl SVOp.method op)).2 = ((svObj W).step (vecOf W 1 σ) op).2)
    (σ0 : Store V) (prog : Nat → List (SVOp V)) (sch : List Nat) :
    ∀ t, ∀ r ∈ ((run (init σ0 (fun t => (prog t).map (cls_SharedVariable.call W fl SVOp.method))) sch).thr t).done,
      r = some [] ∨ r = some (vecOf W 1 σ0) ∨ ∃ t' v, SVOp.store v ∈ prog t' ∧ r = some (pad W v) := by
  intro t r hr
  obtain ⟨H, hlegal, hprog, hret, _⟩ := shared_variable_linearizable W fl hseq σ0 prog sch
  have hrH : r ∈ H.map (fun e => e.2.2) := by
    have := (hret t).1.subset hr
    simp only [List.mem_map, List.mem_filter] at this ⊢
    obtain ⟨e, ⟨he, _⟩, her⟩ := this
    exact ⟨e, he, her⟩
  rw [← hlegal] at hrH
  rcases sv_results W _ _ r hrH with h | h | ⟨v, hv, h⟩
  · exact Or.inl h
  · exact Or.inr (Or.inl h)
  · refine Or.inr (Or.inr ?_)
    simp only [List.mem_map] at hv
    obtain ⟨e, he, hev⟩ := hv
    obtain ⟨rest, hrest⟩ := hprog e.1
    refine ⟨e.1, v, ?_, h⟩
    rw [← hrest]
    apply List.mem_append_left
    simp only [List.mem_map, List.mem_filter]
    exact ⟨e, ⟨he, by simp⟩, hev⟩

/-- **SharedOptionalVariable is a linearizable one-place buffer** (payload of any width `n`, flag and payload copied
    word by word, any number of producers and consumers, every schedule, EVERY data flow on the regenerated event
    lists of `store` / `consume` that is sequentially a one-place buffer — `optFlow` is one, see the examples). -/
theorem optional_linearizable (n : Nat) (fl : Flow Nat OptOp (Option (List Nat)))
    (hseq : ∀ op σ, optAbs n (runCall σ (cls_SharedOptionalVariable.call (n + 1) fl OptOp.method op)).1 = ((optObj n).step (optAbs n σ) op).1 ∧
        (runCall σ (cls_SharedOptionalVariable.call (n + 1) fl OptOp.method op)).2 = ((optObj n).step (optAbs n σ) op).2)
    (σ0 : Store Nat) (prog : Nat → List OptOp) (sch : List Nat) :
    LinearizableTo (optObj n) (optAbs n σ0) prog
      (run (init σ0 (fun t => (prog t).map (cls_SharedOptionalVariable.call (n + 1) fl OptOp.method))) sch) :=
  table_linearizable_to cls_SharedOptionalVariable (by simp [Romea.Generated.C19.table]) (by decide) (n + 1) fl OptOp.method
    (by intro op; cases op <;> (simp only [OptOp.method]; decide)) (optObj n) (optAbs n) hseq σ0 prog sch

/-- **Exactly once, in store order** (on every legal history of the buffer, hence by `optional_linearizable` on every
    schedule): the values handed to consumers are, in order and occurrence by occurrence, a subsequence of the values
    stored — every consumed value was stored, no stored value is handed out twice, consumption order = store order
    restricted to the consumed values. -/
theorem optional_history_exactly_once (n : Nat) (ops : List OptOp) :
    (((optObj n).runList none ops).2.filterMap consumed).Sublist (ops.filterMap (OptOp.stored n)) := by
  simpa using opt_consumed_sublist n none ops

/-- **A store over an unconsumed value drops the old one**: in a legal history, a `store v` immediately followed by
    another `store w` contributes nothing — the values handed out are those of the history without `store v`. -/
theorem optional_overwrite_drops (n : Nat) (pend : Option (List Nat)) (a b : List OptOp) (v w : List Nat) :
    ((optObj n).runList pend (a ++ OptOp.store v :: OptOp.store w :: b)).2.filterMap consumed =
    ((optObj n).runList pend (a ++ OptOp.store w :: b)).2.filterMap consumed := by
  have hc : consumed (some none) = none := rfl
  rw [runList_append, runList_append]
  simp [SeqObj.runList, optObj, hc]

/-- the two previous theorems on every schedule: one sequential history explains all completed calls, and in it the
    consumed values are a subsequence of the stored ones -/
theorem optional_consumed_once_in_store_order (n : Nat) (fl : Flow Nat OptOp (Option (List Nat)))
    (hseq : ∀ op σ, optAbs n (runCall σ (cls_SharedOptionalVariable.call (n + 1) fl OptOp.method op)).1 = ((optObj n).step (optAbs n σ) op).1 ∧
        (runCall σ (cls_SharedOptionalVariable.call (n + 1) fl OptOp.method op)).2 = ((optObj n).step (optAbs n σ) op).2)
    (σ0 : Store Nat) (h0 : σ0 (1, 0) = 0) (prog : Nat → List OptOp) (sch : List Nat) :
    ∃ H : List (Nat × OptOp × Option (Option (List Nat))),
      (∀ t, ((run (init σ0 (fun t => (prog t).map (cls_SharedOptionalVariable.call (n + 1) fl OptOp.method))) sch).thr t).done <+:
          (H.filter fun e => e.1 == t).map (fun e => e.2.2)) ∧
      (∀ t, ∃ rest, (H.filter fun e => e.1 == t).map (fun e => e.2.1) ++ rest = prog t) ∧
      ((H.map fun e => e.2.2).filterMap consumed).Sublist ((H.map fun e => e.2.1).filterMap (OptOp.stored n)) := by
  obtain ⟨H, hlegal, hprog, hret, _⟩ := optional_linearizable n fl hseq σ0 prog sch
  refine ⟨H, fun t => (hret t).1, hprog, ?_⟩
  rw [← hlegal]
  have : optAbs n σ0 = none := by simp [optAbs, h0]
  rw [this]
  exact optional_history_exactly_once n _

/-- **Every report copy belongs to ONE evaluation.**  For a class `c` all of whose methods are one critical section
    (`linShaped`: true of every check-up class of the regenerated table by `table_lin_shaped`) and whose `getReport` is
    `acq g, rd f, rel g` (checked on the regenerated table for the six check-up classes below), reports `W` words wide (status, message,
    value, …: written one after the other inside `evaluate`, copied one after the other by `getReport`), and EVERY
    data flow `fl` of `evaluate` / `timeout` that meets the SEQUENTIAL contract "run alone (from a store satisfying a
    stable side condition `K`, e.g. the thresholds have their configured values), the call leaves the report words
    equal to `tr e`, the words of its own evaluation `e`" (what C18 proves of the sequential code): in every
    schedule with any number of evaluating / timing-out / reading threads, the copy returned by the `k`-th call of a
    thread, if that call is a `getReport`, is — all words — the initial report or `tr e` for ONE writer call `e` of
    some thread. -/
theorem report_copy_consistent {V X : Type} [Inhabited V] (c : Class) (hls : c.linShaped = true) (f W : Nat) (fl : Flow V (RepOp X) (List V)) (tr : Option X → List V)
    (hget : c.evsOf "getReport" = [.acq c.guard, .rd f, .rel c.guard])
    (hret : ∀ l, fl.ret l RepOp.getReport = locVec W 1 l)
    (K : Store V → Prop) (hK : ∀ op σ, K σ → K (runCall σ (repCall c W fl op)).1)
    (hwr : ∀ op e, RepOp.written op = some e → ∀ σ, K σ → vecOf W f (runCall σ (repCall c W fl op)).1 = pad W (tr e))
    (σ0 : Store V) (hK0 : K σ0) (prog : Nat → List (RepOp X))
    (hmeth : ∀ t, ∀ op ∈ prog t, (c.methods.any fun m => m.name == op.method) = true) (sch : List Nat) :
    ∀ (t k : Nat) (r : Option (List V)), ((run (init σ0 (fun t => (prog t).map (repCall c W fl))) sch).thr t).done[k]? = some r →
      (prog t)[k]? = some RepOp.getReport →
      r = some (vecOf W f σ0) ∨ ∃ t' op e, op ∈ prog t' ∧ RepOp.written op = some e ∧ r = some (pad W (tr e)) := by
  intro t k r hk hop
  have hshape : ∀ t, ∀ cl ∈ (fun t => (prog t).map (repCall c W fl)) t, Shape c.guard cl.body := by
    intro t cl hcl
    simp only [List.mem_map] at hcl
    obtain ⟨op, hop, rfl⟩ := hcl
    obtain ⟨m, hm, hevs⟩ := evsOf_mem c op.method (hmeth t op hop)
    simp only [repCall, hevs]
    exact shape_ofEvents c.guard W fl m.evs (guard_spec c hls m hm)
  have := (observed_in_consistent_state c.guard σ0 _ hshape
    (fun σ => K σ ∧ (vecOf W f σ = vecOf W f σ0 ∨
      ∃ t' op e, op ∈ prog t' ∧ RepOp.written op = some e ∧ vecOf W f σ = pad W (tr e)))
    ⟨hK0, Or.inl rfl⟩ (by
      intro t cl hcl σ hσ
      simp only [List.mem_map] at hcl
      obtain ⟨op, hop, rfl⟩ := hcl
      refine ⟨hK op σ hσ.1, ?_⟩
      cases hw : RepOp.written op with
      | some e => exact Or.inr ⟨t, op, e, hop, hw, hwr op e hw σ hσ.1⟩
      | none =>
        cases op with
        | evaluate x => simp [RepOp.written] at hw
        | timeout => simp [RepOp.written] at hw
        | getReport => rw [(rep_get c c.guard f W fl hget hret σ).1]; exact hσ.2) sch).2 t k r hk
  obtain ⟨cl, σ, hcl, ⟨_, hσ⟩, hr⟩ := this
  have : cl = repCall c W fl RepOp.getReport := by
    simp only [List.getElem?_map, hop, Option.map_some, Option.some.injEq] at hcl
    exact hcl.symm
  rw [this, (rep_get c c.guard f W fl hget hret σ).2] at hr
  rcases hσ with h | ⟨t', op, e, h1, h2, h3⟩
  · exact Or.inl (by rw [hr, h])
  · exact Or.inr ⟨t', op, e, h1, h2, by rw [hr, h3]⟩

/-- the six check-up classes of the regenerated table have the `getReport` the previous theorem asks for (guard 0;
    the report is the member `report_` of `Checkup`, of the comparison check-ups and of `CheckupReliability`, and the inner
    check-up `checkup_` of `CheckupRate`; members are looked up BY NAME in `fields_<Class>`, the member names by field number
    emitted by `tools/gen_locktable.py` — the numbers follow the order of first access and change under harmless edits) -/
theorem checkup_getReport_shape :
    (cls_Checkup.guard = 0 ∧ cls_Checkup.evsOf "getReport" = [.acq 0, .rd (fields_Checkup.idxOf "report_"), .rel 0]) ∧
    (cls_CheckupEqualTo.guard = 0 ∧
      cls_CheckupEqualTo.evsOf "getReport" = [.acq 0, .rd (fields_CheckupEqualTo.idxOf "report_"), .rel 0]) ∧
    (cls_CheckupGreaterThan.guard = 0 ∧
      cls_CheckupGreaterThan.evsOf "getReport" = [.acq 0, .rd (fields_CheckupGreaterThan.idxOf "report_"), .rel 0]) ∧
    (cls_CheckupLowerThan.guard = 0 ∧
      cls_CheckupLowerThan.evsOf "getReport" = [.acq 0, .rd (fields_CheckupLowerThan.idxOf "report_"), .rel 0]) ∧
    (cls_CheckupRate.guard = 0 ∧ cls_CheckupRate.evsOf "getReport" = [.acq 0, .rd (fields_CheckupRate.idxOf "checkup_"), .rel 0]) ∧
    (cls_CheckupReliability.guard = 0 ∧
      cls_CheckupReliability.evsOf "getReport" = [.acq 0, .rd (fields_CheckupReliability.idxOf "report_"), .rel 0]) ∧
    "report_" ∈ fields_Checkup ∧ "report_" ∈ fields_CheckupEqualTo ∧ "report_" ∈ fields_CheckupGreaterThan ∧
    "report_" ∈ fields_CheckupLowerThan ∧ "checkup_" ∈ fields_CheckupRate ∧ "report_" ∈ fields_CheckupReliability := by
  decide

/-- **OnlineAverage / OnlineVariance: the values of `getAverage`, `getVariance`, `isAvailable` are those of a serial
    order** of the `update` / `reset` / getter calls — for every width, EVERY data flow (nothing about the arithmetic
    is assumed), any number of threads, every schedule. -/
theorem online_statistics_linearizable {V A R : Type} [Inhabited V] (c : Class)
    (hc : c = cls_OnlineAverage ∨ c = cls_OnlineVariance)
    (W : Nat) (σ0 : Store V) (prog : Nat → List (Call V A R))
    (hprog : ∀ t, ∀ cl ∈ prog t, ∃ m ∈ c.methods, ∃ fl : Flow V A R, cl.body = ofEvents W fl m.evs)
    (sch : List Nat) : Linearized 0 σ0 prog (run (init σ0 prog) sch) := by
  rcases hc with rfl | rfl
  · exact table_linearizable cls_OnlineAverage (by simp [Romea.Generated.C19.table]) (by decide) W σ0 prog hprog sch
  · exact table_linearizable cls_OnlineVariance (by simp [Romea.Generated.C19.table]) (by decide) W σ0 prog hprog sch

end Classes

/-! ## Non-vacuity -/

example : runLocks (fun _ => none) [(1, .acq 0), (1, .wr 1), (1, .rel 0), (2, .acq 0), (2, .rd 1), (2, .rel 0)] ≠ none := by
  simp [runLocks, stepLocks, Function.update]
example : runOpt none [.store 1, .store 2, .consume, .consume, .store 3, .consume] = [2, 3] := by decide
example : scan 0 [1] [] [.acq 0, .rd 1, .wr 1, .rel 0] = some [] := by decide
example : scan 0 [1] [] [.acq 0, .rd 1, .rel 0, .escape 1] = none := by decide


/-! ### non-vacuity of the linearizability theorems: the semantics run on concrete schedules -/

section Examples
open Romea.Lin Romea.Generated.C19

/-- **the hypothesis is needed (1): no lock.**  Same data flow without `acq`/`rel`: the loader copies between the two
    word writes and returns `[7, 0]` — neither the initial value nor the stored one — and the conclusion of
    `linearizable` fails. -/
private def tornProg : Nat → List (Call Nat (SVOp Nat) (List Nat)) := fun t =>
  if t = 1 then [⟨[.wr (1, 0) (fun _ _ => 7), .wr (1, 1) (fun _ _ => 8)], .store [7, 8]⟩]
  else if t = 2 then [⟨[.rd (1, 0) (1, 0), .rd (1, 1) (1, 1), .ret (svFlow 2).ret], .load⟩] else []

example : ((run (init (fun _ => 0) tornProg) [1, 1, 2, 2, 2, 2, 2, 1]).thr 2).done = [some [7, 0]] := by decide
example : ¬ Linearized 0 (fun _ => 0) tornProg (run (init (fun _ => 0) tornProg) [1, 1, 2, 2, 2, 2, 2, 1]) := by
  intro h
  have := (h.returns 2).1.length_le
  revert this
  decide

/-- **the hypothesis is needed (2): two critical sections in one call.**  `evaluate` takes the mutex twice, writing
    the status word in the first critical section and the message word in the second.  Every access is guarded — the
    lock-discipline check `scan` ACCEPTS it — but it is not one critical section (`evShape` rejects it) and a
    `getReport` scheduled between the two returns the status of this evaluation with the message of the previous
    one. -/
private def splitEvs : List Ev := [.acq 0, .wr 3, .rel 0, .acq 0, .wr 3, .rel 0]
private def splitFlow : Flow Nat (RepOp Nat) (List Nat) where
  wr := fun i j l a => match a with
    | .evaluate x => if i = 1 ∧ j = 0 then x else if i = 4 ∧ j = 1 then x else l (i, j)
    | _ => l (i, j)
  ret := fun l a => match a with
    | .getReport => locVec 2 1 l
    | _ => []
private def splitProg : Nat → List (Call Nat (RepOp Nat) (List Nat)) := fun t =>
  if t = 1 then [⟨ofEvents 2 splitFlow splitEvs, .evaluate 5⟩]
  else if t = 2 then [⟨ofEvents 2 splitFlow [.acq 0, .rd 3, .rel 0], .getReport⟩] else []

example : scan 0 [3] [] splitEvs = some [] := by decide
example : evShape 0 splitEvs = false := by decide
example : ((run (init (fun _ => 0) splitProg) [1, 1, 1, 1, 1, 1, 1, 2, 2, 2, 2, 2, 2, 2]).thr 2).done = [some [5, 0]] := by
  decide

/-- the report theorem is not vacuous: the concrete `CheckupGreaterThan` data flow (message, status and value written
    by separate events, as in `setDiagnostic_` / `setValue_`) meets the sequential contract on the events of
    `CheckupGreaterThan` (`gtFrozen`, a copy of the table entry) -/
example (thr eps : Nat) (σ0 : Store Nat) (h0 : gtK thr eps σ0) (prog : Nat → List (RepOp Nat)) (sch : List Nat) :=
  report_copy_consistent gtFrozen (by decide) 3 3 gtFlow
    (gtTriple thr eps) gt_get_evs (fun _ => rfl) (gtK thr eps)
    (by intro op σ hK
        cases op with
        | evaluate x => exact (gt_eval thr eps x σ hK).1
        | timeout => exact (gt_timeout thr eps σ hK).1
        | getReport => exact gt_get thr eps σ hK)
    (by intro op e hw σ hK
        cases op with
        | evaluate x => simp only [RepOp.written, Option.some.injEq] at hw; subst hw; exact (gt_eval thr eps x σ hK).2
        | timeout => simp only [RepOp.written, Option.some.injEq] at hw; subst hw; exact (gt_timeout thr eps σ hK).2
        | getReport => simp [RepOp.written] at hw)
    σ0 h0 prog (by intro t op _; cases op <;> (simp only [RepOp.method]; decide)) sch

set_option maxRecDepth 16000 in
/-- one evaluating thread, one reader, on the `CheckupGreaterThan` bodies (`gtFrozen`): the reader is scheduled while
    the evaluation has written message and status but not yet the value — it is blocked, and its copy is whole -/
example : ((run (init (storeWith 1 [10]) (fun t => if t = 1 then [repCall gtFrozen 3 gtFlow (.evaluate 20)]
      else if t = 2 then [repCall gtFrozen 3 gtFlow .getReport] else []))
    ([1, 1, 2, 2] ++ List.replicate 30 1 ++ [2, 2, 2] ++ List.replicate 45 1 ++ List.replicate 10 2)).thr 2).done
      = [some [0, 10, 120]] := by
  decide

/-- programs of table bodies exist (hypothesis `hprog` of `table_linearizable` / `online_statistics_linearizable`) -/
example : ∀ cl ∈ [(⟨ofEvents 2 ⟨fun _ _ l _ => l (0, 0), fun _ _ => 0⟩ (cls_OnlineAverage.evsOf "update"), 3⟩ : Call Nat Nat Nat)],
    ∃ m ∈ cls_OnlineAverage.methods, ∃ fl : Flow Nat Nat Nat, cl.body = ofEvents 2 fl m.evs := by
  intro cl hcl
  simp only [List.mem_singleton] at hcl
  subst hcl
  obtain ⟨m, hm, he⟩ := evsOf_mem cls_OnlineAverage "update" (by decide)
  exact ⟨m, hm, _, by rw [he]⟩

end Examples

end Romea.C19
