import RomeaProofs.Properties.C19Reports
import RomeaProofs.Bridge.C18
import RomeaProofs.Bridge.C18Cor

/-!
# C19, part 2b continued — the report copies are the MODEL's / the property's classification of ONE value

`Properties/C19Reports.lean` shows, for today's tables and today's translated source, that every `getReport` copy on every
schedule is the (message, status, info) the TRANSLATED `evaluate` stores for the value of one call.  Here that triple is
identified through `Bridge/C18.lean` (translated `evaluate` = the model's `Checkup.evaluate`) and `Bridge/C18Cor.lean`
(`src_*_ok_iff` at `ℝ`): it is the model's classification of that value, i.e. C18's property.

This module is separate because it depends on the C18 bridge: a purely SEQUENTIAL semantic edit of `evaluate` (say `>` turned
into `>=`) breaks `Bridge.C18` and with it this module, while `Properties/C19Reports.lean` — which speaks about whatever the
translated function computes — keeps compiling.
-/
namespace Romea.C19
open Romea.Lin Romea.Lockset Romea.Generated.C19

/-! ## through `Bridge/C18`: the words are the MODEL's classification of `v` -/

section Model
open Romea.Checkup Romea.Bridge.C18
variable {α : Type} [Inhabited α] [Add α] [Sub α] [LT α] [DecidableLT α]

/-- the (message, status, info) strings / enum value the C++ object shows for a state of the model `RomeaModel/Checkup.lean`
    (`Bridge.C18.shown` without the returned status) -/
def stored (tsi : α → String) (name : String) (s : Checkup.State α) : String × Int × String :=
  (name ++ ending s.msg, code s.status, infoString tsi s.info)

/-- **The copies are the model's classifications.**  For each of the four classes (kind `k` of the model, thresholds
    `a`, `b` = the model's `t`, `e`): every completed `getReport` on every schedule returned the initial report, or the
    strings / status the MODEL state after `Checkup.evaluate (init k a b) v` stands for, for the `v` of ONE evaluate call — by
    `Bridge.C18.evaluate_*_bridge`, which equates the translated source with the model. -/
theorem report_copies_are_model_classifications (tsi : α → String) (a b : α) (name : String) (L : RepLayout)
    (G : α → α → String → α → Int × String × Int × String) (k : Kind)
    (hL : (L, G, k) ∈ [(layEqualTo, srcEqualTo tsi, Kind.equalTo), (layGreaterThan, srcGreaterThan tsi, Kind.greaterThan),
      (layLowerThan, srcLowerThan tsi, Kind.lowerThan), (layReliability, srcReliability tsi, Kind.reliability)])
    (σ0 : Store (Word α)) (h0 : repK L a b name σ0) (prog : Nat → List (RepOp α))
    (hnt : L = layReliability → ∀ th, RepOp.timeout ∉ prog th) (sch : List Nat) :
    CopiesFrom L.f σ0 prog (run (init σ0 (fun t => (prog t).map (repCall L.c 4 (srcFlow L G)))) sch) name
      (fun v => stored tsi name (Checkup.evaluate (Checkup.init k a b) v).1)
      (stored tsi name (Checkup.timeout (Checkup.init k a b))) := by
  have hmem : L ∈ [layEqualTo, layGreaterThan, layLowerThan, layReliability] := by
    simp only [List.mem_cons, Prod.mk.injEq, List.not_mem_nil, or_false] at hL ⊢
    rcases hL with h | h | h | h <;> simp [h.1]
  have hT : ∀ t, RepOp.timeout ∈ prog t → L.okT = true := by
    intro t ht
    simp only [List.mem_cons, List.not_mem_nil, or_false] at hmem
    rcases hmem with h | h | h | h
    · exact layouts_ok.2.1 L (by simp [h])
    · exact layouts_ok.2.1 L (by simp [h])
    · exact layouts_ok.2.1 L (by simp [h])
    · exact absurd ht (hnt h t)
  have hsrc := source_report_copies L G (lay_facts L hmem).1 (lay_facts L hmem).2.1 a b name σ0 h0 prog
    (fun _ _ _ => (lay_facts L hmem).2.2) hT sch
  have hG : ∀ v, (G a b name v).2 = stored tsi name (Checkup.evaluate (Checkup.init k a b) v).1 := by
    intro v
    simp only [List.mem_cons, Prod.mk.injEq, List.not_mem_nil, or_false] at hL
    rcases hL with ⟨_, rfl, rfl⟩ | ⟨_, rfl, rfl⟩ | ⟨_, rfl, rfl⟩ | ⟨_, rfl, rfl⟩
    · have := evaluate_equalTo_bridge tsi name (Checkup.init .equalTo a b) rfl v
      simp only [Checkup.init] at this
      simp only [srcEqualTo, Checkup.init, this]; rfl
    · have := evaluate_greaterThan_bridge tsi name (Checkup.init .greaterThan a b) rfl v
      simp only [Checkup.init] at this
      simp only [srcGreaterThan, Checkup.init, this]; rfl
    · have := evaluate_lowerThan_bridge tsi name (Checkup.init .lowerThan a b) rfl v
      simp only [Checkup.init] at this
      simp only [srcLowerThan, Checkup.init, this]; rfl
    · have := evaluate_reliability_bridge tsi name (Checkup.init .reliability a b) rfl v
      simp only [Checkup.init] at this
      simp only [srcReliability, Checkup.init, this]; rfl
  have hTo : Romea.Src.C18.Checkup.timeout name = stored tsi name (Checkup.timeout (Checkup.init k a b)) :=
    timeout_bridge tsi name (Checkup.init k a b)
  intro th kk r hk hop
  rcases hsrc th kk r hk hop with h | ⟨t', v, h1, h2⟩ | ⟨t', h1, h2⟩
  · exact Or.inl h
  · exact Or.inr (Or.inl ⟨t', v, h1, by rw [h2]; simp only [hG v]⟩)
  · exact Or.inr (Or.inr ⟨t', h1, by rw [h2, hTo]⟩)

end Model

/-! ## at the exact values of the doubles (`ℝ`): the copy shows the property's classification of ONE `v` -/

section Real
open Romea.Checkup Romea.Bridge.C18 Romea.C18

/-- **`CheckupGreaterThan<double>` read concurrently** (the class of the frozen example of part 2, now from the source): on
    every schedule every completed `getReport` returned the initial report, or, for the `v` of ONE `evaluate(v)` made by some
    thread, `[OK, name ++ " is OK.", tsi v, name]` with `v > t − ε` or `[ERROR, name ++ " is too low.", tsi v, name]` with
    `¬ v > t − ε`, or `[STALE, name ++ " timeout.", "", name]` of a `timeout()`. -/
theorem greaterThan_copy_classifies (tsi : ℝ → String) (t ε : ℝ) (name : String) (σ0 : Store (Word ℝ))
    (h0 : repK layGreaterThan t ε name σ0) (prog : Nat → List (RepOp ℝ)) (sch : List Nat) :
    CopiesFrom layGreaterThan.f σ0 prog
      (run (init σ0 (fun th => (prog th).map (repCall cls_CheckupGreaterThan 4 (srcFlow layGreaterThan (srcGreaterThan tsi))))) sch)
      name (fun v => if v > t - ε then (name ++ " is OK.", 0, tsi v) else (name ++ " is too low.", 2, tsi v))
      (name ++ " timeout.", 3, "") := by
  have h := report_copies_are_model_classifications tsi t ε name layGreaterThan (srcGreaterThan tsi) .greaterThan (by simp)
    σ0 h0 prog (fun h => by
      have : layGreaterThan.c.name = layReliability.c.name := by rw [h]
      exact absurd this (by decide)) sch
  have hev : ∀ v : ℝ, stored tsi name (Checkup.evaluate (Checkup.init .greaterThan t ε) v).1 =
      if v > t - ε then (name ++ " is OK.", 0, tsi v) else (name ++ " is too low.", 2, tsi v) := by
    intro v
    simp only [stored, Checkup.evaluate, Checkup.init, greater_than_cases]
    split <;> rfl
  intro th k r hk hop
  rcases h th k r hk hop with h | ⟨t', v, h1, h2⟩ | ⟨t', h1, h2⟩
  · exact Or.inl h
  · exact Or.inr (Or.inl ⟨t', v, h1, by rw [h2]; simp only [hev v]⟩)
  · exact Or.inr (Or.inr ⟨t', h1, h2⟩)

/-- **The status word of a copy decides the property's condition for the `v` whose printed value the copy carries** — the
    four classes, at `ℝ`, through `Bridge/C18Cor` (`src_equal_to_ok_iff` …): a copy that is not the initial report and not a
    time-out is `[status, message, tsi v, name]` for ONE evaluated `v`, and `status = 0` (OK) iff `|v − t| ≤ ε` /
    `v > t − ε` / `v < t + ε` / `lo ≤ v ∧ hi ≤ v` respectively. -/
theorem copy_status_iff_property (tsi : ℝ → String) (a b : ℝ) (name : String) (L : RepLayout)
    (G : ℝ → ℝ → String → ℝ → Int × String × Int × String) (P : ℝ → Prop)
    (hL : (L, G) = (layEqualTo, srcEqualTo tsi) ∧ P = (fun v => |v - a| ≤ b) ∨
          (L, G) = (layGreaterThan, srcGreaterThan tsi) ∧ P = (fun v => v > a - b) ∨
          (L, G) = (layLowerThan, srcLowerThan tsi) ∧ P = (fun v => v < a + b) ∨
          (L, G) = (layReliability, srcReliability tsi) ∧ P = (fun v => a ≤ v ∧ b ≤ v))
    (σ0 : Store (Word ℝ)) (h0 : repK L a b name σ0) (prog : Nat → List (RepOp ℝ))
    (hnt : L = layReliability → ∀ th, RepOp.timeout ∉ prog th) (sch : List Nat) :
    ∀ (th k : Nat) (r : Option (List (Word ℝ))),
      ((run (init σ0 (fun t => (prog t).map (repCall L.c 4 (srcFlow L G)))) sch).thr th).done[k]? = some r →
      (prog th)[k]? = some RepOp.getReport →
      r = some (vecOf 4 L.f σ0) ∨
      (∃ th' v st msg, RepOp.evaluate v ∈ prog th' ∧ r = some [.int st, .str msg, .str (tsi v), .str name] ∧ (st = 0 ↔ P v)) ∨
      (∃ th', RepOp.timeout ∈ prog th' ∧ r = some [.int 3, .str (name ++ " timeout."), .str "", .str name]) := by
  intro th k r hk hop
  have hmem : L ∈ [layEqualTo, layGreaterThan, layLowerThan, layReliability] := by
    rcases hL with ⟨h, _⟩ | ⟨h, _⟩ | ⟨h, _⟩ | ⟨h, _⟩ <;> simp [(Prod.mk.inj h).1]
  have hT : ∀ t, RepOp.timeout ∈ prog t → L.okT = true := by
    intro t ht
    simp only [List.mem_cons, List.not_mem_nil, or_false] at hmem
    rcases hmem with h | h | h | h
    · exact layouts_ok.2.1 L (by simp [h])
    · exact layouts_ok.2.1 L (by simp [h])
    · exact layouts_ok.2.1 L (by simp [h])
    · exact absurd ht (hnt h t)
  have hsrc := source_report_copies L G (lay_facts L hmem).1 (lay_facts L hmem).2.1 a b name σ0 h0 prog
    (fun _ _ _ => (lay_facts L hmem).2.2) hT sch th k r hk hop
  have hG : ∀ v, (G a b name v).2.2.2 = tsi v ∧ ((G a b name v).2.2.1 = 0 ↔ P v) := by
    intro v
    have hr := src_returns_stored tsi name a b v
    rcases hL with ⟨h, rfl⟩ | ⟨h, rfl⟩ | ⟨h, rfl⟩ | ⟨h, rfl⟩ <;> obtain ⟨_, rfl⟩ := Prod.mk.inj h
    · refine ⟨rfl, ?_⟩
      simp only [srcEqualTo]; rw [← hr.1]; exact src_equal_to_ok_iff tsi name a b v
    · refine ⟨rfl, ?_⟩
      simp only [srcGreaterThan]; rw [← hr.2.1]; exact src_greater_than_ok_iff tsi name a b v
    · refine ⟨rfl, ?_⟩
      simp only [srcLowerThan]; rw [← hr.2.2.1]; exact src_lower_than_ok_iff tsi name a b v
    · refine ⟨rfl, ?_⟩
      simp only [srcReliability]; rw [← hr.2.2.2.1]; exact (src_reliability_cases tsi name a b v).2.2
  rcases hsrc with h | ⟨t', v, h1, h2⟩ | ⟨t', h1, h2⟩
  · exact Or.inl h
  · refine Or.inr (Or.inl ⟨t', v, (G a b name v).2.2.1, (G a b name v).2.1, h1, ?_, (hG v).2⟩)
    rw [h2, repWords, (hG v).1]
  · exact Or.inr (Or.inr ⟨t', h1, h2⟩)

end Real

/-! ## Non-vacuity -/

example (tsi : ℝ → String) := copy_status_iff_property tsi 10 1 "speed" layEqualTo (srcEqualTo tsi) _ (Or.inl ⟨rfl, rfl⟩)
example (tsi : ℝ → String) (σ0 : Store (Word ℝ)) (h0 : repK layGreaterThan 10 1 "speed" σ0) :=
  greaterThan_copy_classifies tsi 10 1 "speed" σ0 h0
/-- a store meeting `repK` exists -/
example : repK layGreaterThan (10 : ℝ) 1 "speed" (fun ad => if ad = (layGreaterThan.f1, 0) then .num 10
    else if ad = (layGreaterThan.f2, 0) then .num 1 else .str "speed") := by
  refine ⟨?_, ?_, ?_⟩
  · simp
  · have : (layGreaterThan.f2, 0) ≠ (layGreaterThan.f1, 0) := by decide
    simp [this]
  · have h1 : (layGreaterThan.f, 3) ≠ (layGreaterThan.f1, 0) := by decide
    have h2 : (layGreaterThan.f, 3) ≠ (layGreaterThan.f2, 0) := by decide
    simp [h1, h2]

end Romea.C19
