import RomeaModel.Window
import RomeaProofs.Lemmas.ListWindow
import Mathlib.Data.Rat.Defs
import Mathlib.Tactic.FieldSimp
import Mathlib.Algebra.Order.Field.Basic

/-!
# C16 — sliding-window statistics and ring buffers reflect exactly the last W items

All theorems quantify over EVERY history (`List Op`), window size and multiplier: unbounded.
The integer state is exact; the floating-point divisions that turn `sum` into the reported average
are outside the theorems (executed and compared bit-for-bit by the correspondence check).
-/
namespace Romea.C16
open Romea.Window Romea.ListWindow

/-! ## The window invariant -/

/-- relation between the concrete state and the samples fed since the last reset -/
structure Inv (s : Stat) (xs : List Int) : Prop where
  idx_lt : s.idx < s.W
  notfull : xs.length < s.W → s.idx = xs.length ∧ s.data = xs
  full : s.W ≤ xs.length → s.data.length = s.W ∧ s.data.rotate s.idx = xs.drop (xs.length - s.W)
  sum_eq : s.sum = s.data.sum
  sq_eq : s.sq = s.data.map (fun q => q * q)
  sumsq_eq : s.sumsq = s.sq.sum

private theorem init_inv (W : Nat) (m : Int) (hW : 0 < W) : Inv (Stat.init W m) [] := by
  refine ⟨hW, fun _ => ⟨rfl, rfl⟩, fun h => ?_, rfl, rfl, rfl⟩
  simp [Stat.init] at h; omega

private theorem reset_inv (s : Stat) (hW : 0 < s.W) : Inv s.reset [] := by
  refine ⟨hW, fun _ => ⟨rfl, rfl⟩, fun h => ?_, rfl, rfl, rfl⟩
  simp [Stat.reset] at h; omega

private theorem update_W (s : Stat) (q : Int) : (s.update q).W = s.W ∧ (s.update q).m = s.m ∧ (s.update q).m2 = s.m2 := by
  unfold Stat.update; split <;> simp

private theorem update_inv (s : Stat) (xs : List Int) (q : Int) (hW : 0 < s.W) (h : Inv s xs) :
    Inv (s.update q) (xs ++ [q]) := by
  by_cases hfull : s.data.length = s.W
  · -- window full: overwrite the slot at idx
    have hge : s.W ≤ xs.length := by
      by_contra hlt
      have := (h.notfull (by omega)).2
      rw [this] at hfull; omega
    obtain ⟨hlen, hrot⟩ := h.full hge
    have hidx : s.idx < s.data.length := by rw [hlen]; exact h.idx_lt
    have hidx2 : s.idx < s.sq.length := by rw [h.sq_eq]; simpa using hidx
    have e_idx : (s.update q).idx = (s.idx + 1) % s.W := by simp [Stat.update]
    have e_W : (s.update q).W = s.W := (update_W s q).1
    have e_data : (s.update q).data = s.data.set s.idx q := by simp [Stat.update, hfull]
    have e_sq : (s.update q).sq = s.sq.set s.idx (q * q) := by simp [Stat.update, hfull]
    have e_sum : (s.update q).sum = s.sum + q - s.data.getD s.idx 0 := by simp [Stat.update, hfull]
    have e_sumsq : (s.update q).sumsq = s.sumsq + q * q - s.sq.getD s.idx 0 := by simp [Stat.update, hfull]
    refine ⟨by rw [e_idx, e_W]; exact Nat.mod_lt _ hW, fun hl => ?_, fun _ => ⟨by rw [e_data, e_W]; simp [hlen], ?_⟩, ?_, ?_, ?_⟩ <;>
      simp only [e_idx, e_W, e_data, e_sq, e_sum, e_sumsq] at *
    · simp at hl; omega
    · show (s.data.set s.idx q).rotate ((s.idx + 1) % s.W) = _
      have : (s.data.set s.idx q).length = s.W := by simp [hlen]
      conv_lhs => rw [← this, List.rotate_mod]
      rw [rotate_set_succ _ _ hidx, hrot, List.length_append, List.length_singleton,
        List.drop_append_of_le_length (by omega), List.tail_drop]
      congr 2; omega
    · show s.sum + q - s.data.getD s.idx 0 = (s.data.set s.idx q).sum
      rw [sum_set_int _ _ hidx, h.sum_eq]; ring
    · show s.sq.set s.idx (q * q) = (s.data.set s.idx q).map (fun q => q * q)
      rw [h.sq_eq, List.map_set]
    · show s.sumsq + q * q - s.sq.getD s.idx 0 = (s.sq.set s.idx (q * q)).sum
      rw [sum_set_int _ _ hidx2, h.sumsq_eq]; ring
  · -- window not full: push_back
    have hlt : xs.length < s.W := by
      by_contra hge
      exact hfull (h.full (by omega)).1
    obtain ⟨hidx, hdata⟩ := h.notfull hlt
    have e_idx : (s.update q).idx = (s.idx + 1) % s.W := by simp [Stat.update]
    have e_W : (s.update q).W = s.W := (update_W s q).1
    have e_data : (s.update q).data = s.data ++ [q] := by simp [Stat.update, hfull]
    have e_sq : (s.update q).sq = s.sq ++ [q * q] := by simp [Stat.update, hfull]
    have e_sum : (s.update q).sum = s.sum + q := by simp [Stat.update, hfull]
    have e_sumsq : (s.update q).sumsq = s.sumsq + q * q := by simp [Stat.update, hfull]
    refine ⟨by rw [e_idx, e_W]; exact Nat.mod_lt _ hW, fun hl => ?_, fun hl => ?_, ?_, ?_, ?_⟩ <;>
      simp only [e_idx, e_W, e_data, e_sq, e_sum, e_sumsq] at *
    · simp at hl
      exact ⟨by show (s.idx + 1) % s.W = _; rw [hidx, Nat.mod_eq_of_lt hl]; simp, by show s.data ++ [q] = _; rw [hdata]⟩
    · simp at hl
      have hW' : s.W = xs.length + 1 := by omega
      refine ⟨by show (s.data ++ [q]).length = _; rw [hdata]; simp; omega, ?_⟩
      show (s.data ++ [q]).rotate ((s.idx + 1) % s.W) = _
      rw [hidx, hW', Nat.mod_self, List.rotate_zero, hdata]; simp
    · show s.sum + q = (s.data ++ [q]).sum
      rw [h.sum_eq]; simp
    · show s.sq ++ [q * q] = (s.data ++ [q]).map (fun q => q * q)
      rw [h.sq_eq]; simp
    · show s.sumsq + q * q = (s.sq ++ [q * q]).sum
      rw [h.sumsq_eq]; simp

private def track (acc : List Int) (op : Op) : List Int :=
  match op with | .upd q => acc ++ [q] | .reset => []

private theorem run_inv (ops : List Op) (s : Stat) (xs : List Int) (hW : 0 < s.W) (h : Inv s xs) :
    Inv (s.run ops) (ops.foldl track xs) ∧ (s.run ops).W = s.W ∧ (s.run ops).m = s.m ∧ (s.run ops).m2 = s.m2 := by
  induction ops generalizing s xs with
  | nil => exact ⟨h, rfl, rfl, rfl⟩
  | cons op rest ih =>
    simp only [Stat.run, List.foldl_cons]
    cases op with
    | upd q =>
      simp only [Stat.step]
      have hu := update_W s q
      have := ih (s.update q) (xs ++ [q]) (by rw [hu.1]; exact hW) (update_inv s xs q hW h)
      simp only [Stat.run] at this
      exact ⟨this.1, by rw [this.2.1, hu.1], by rw [this.2.2.1, hu.2.1], by rw [this.2.2.2, hu.2.2]⟩
    | reset =>
      simp only [Stat.step]
      have := ih s.reset [] hW (reset_inv s hW)
      simp only [Stat.run] at this
      exact ⟨this.1, this.2.1, this.2.2.1, this.2.2.2⟩

private theorem sinceReset_eq (ops : List Op) : sinceReset ops = ops.foldl track [] := rfl

/-- the last `min(n, W)` samples since the last reset, oldest first -/
def lastW (W : Nat) (ops : List Op) : List Int :=
  (sinceReset ops).drop ((sinceReset ops).length - W)

theorem lastW_length (W : Nat) (ops : List Op) : (lastW W ops).length = min (sinceReset ops).length W := by
  simp [lastW]; omega

/-! ## Property theorems -/

/-- **Window exactness.** After ANY history of updates and resets the stored window is exactly the
    last `min(n, W)` samples fed since the last reset (as a rotation by the replacement index, hence as
    a multiset), the running sums are the exact sums of that window, and availability is reported
    exactly when `W` samples have arrived since the last reset. -/
theorem window_exact (W : Nat) (m : Int) (hW : 0 < W) (ops : List Op) :
    let s := (Stat.init W m).run ops
    s.data.rotate s.idx = lastW W ops ∧
    s.data.Perm (lastW W ops) ∧
    s.data.length = min (sinceReset ops).length W ∧
    s.sum = (lastW W ops).sum ∧
    s.sumsq = ((lastW W ops).map (fun q => q * q)).sum ∧
    (s.available = true ↔ W ≤ (sinceReset ops).length) ∧
    s.W = W ∧ s.m = m ∧ s.m2 = m * m := by
  intro s
  obtain ⟨hinv, hWeq, hm, hm2⟩ := run_inv ops (Stat.init W m) [] hW (init_inv W m hW)
  rw [← sinceReset_eq] at hinv
  have hWs : s.W = W := hWeq
  have hrot : s.data.rotate s.idx = lastW W ops := by
    unfold lastW
    by_cases hlt : (sinceReset ops).length < W
    · obtain ⟨hi, hd⟩ := hinv.notfull (by rw [hWs]; exact hlt)
      show s.data.rotate s.idx = _
      rw [hi, hd, show (sinceReset ops).length - W = 0 by omega, List.drop_zero]
      exact List.rotate_length _
    · have := (hinv.full (by rw [hWs]; omega)).2
      rw [hWs] at this; exact this
  have hperm : s.data.Perm (lastW W ops) := by rw [← hrot]; exact (List.rotate_perm _ _).symm
  have hlen : s.data.length = min (sinceReset ops).length W := by
    rw [hperm.length_eq, lastW_length]
  refine ⟨hrot, hperm, hlen, ?_, ?_, ?_, hWs, hm, hm2⟩
  · rw [hinv.sum_eq]; exact hperm.sum_eq
  · rw [hinv.sumsq_eq, hinv.sq_eq]; exact (hperm.map _).sum_eq
  · show (s.data.length == s.W) = true ↔ _
    rw [beq_iff_eq, hlen, hWs]; omega

/-- exact rational mean of a list -/
def mean (l : List ℚ) : ℚ := l.sum / l.length

/-- unbiased sample variance -/
def sampleVariance (l : List ℚ) : ℚ := (l.map (fun x => (x - mean l) ^ 2)).sum / (l.length - 1)

/-- the fixed-point samples seen as rationals: `q / m` -/
def descale (m : Int) (l : List Int) : List ℚ := l.map (fun (q : Int) => (q : ℚ) / (m : ℚ))

private theorem sum_descale (m : Int) (l : List Int) : (descale m l).sum = (l.sum : ℚ) / m := by
  induction l with
  | nil => simp [descale]
  | cons a t ih =>
    have h1 : descale m (a :: t) = ((a : ℚ) / m) :: descale m t := rfl
    rw [h1, List.sum_cons, ih, List.sum_cons]; push_cast; ring

private theorem sum_sq_descale (m : Int) (l : List Int) :
    ((descale m l).map (fun x => x ^ 2)).sum = (((l.map (fun q => q * q)).sum : Int) : ℚ) / ((m : ℚ) * (m : ℚ)) := by
  induction l with
  | nil => simp [descale]
  | cons a t ih =>
    have h1 : (descale m (a :: t)).map (fun x => x ^ 2) =
        ((a : ℚ) / m) ^ 2 :: (descale m t).map (fun x => x ^ 2) := rfl
    have h2 : (a :: t).map (fun q => q * q) = a * a :: t.map (fun q => q * q) := rfl
    rw [h1, List.sum_cons, ih, h2, List.sum_cons]; push_cast; ring

private theorem length_descale (m : Int) (l : List Int) : (descale m l).length = l.length := by
  simp [descale]

/-- **No drift.** The quantity the average is computed from, `sum / (m * size)`, is the exact mean of
    the last `min(n, W)` truncated samples (each `q / m`). -/
theorem average_exact (W : Nat) (m : Int) (hW : 0 < W) (_hm : m ≠ 0) (ops : List Op) :
    let s := (Stat.init W m).run ops
    (s.sum : ℚ) / ((s.m : ℚ) * s.data.length) = mean (descale m (lastW W ops)) := by
  intro s
  obtain ⟨_, hperm, _, hsum, _, _, _, hm', _⟩ := window_exact W m hW ops
  show (s.sum : ℚ) / ((s.m : ℚ) * s.data.length) = _
  rw [hsum, hm', hperm.length_eq, mean, sum_descale, length_descale, div_div]

private theorem sum_sq_dev (l : List ℚ) (μ : ℚ) :
    (l.map (fun x => (x - μ) ^ 2)).sum = (l.map (fun x => x ^ 2)).sum - 2 * μ * l.sum + l.length * μ ^ 2 := by
  induction l with
  | nil => simp
  | cons a t ih => simp only [List.map_cons, List.sum_cons, List.length_cons]; rw [ih]; push_cast; ring

/-- **Variance identity** (for any list of at least two rationals): the formula used by the code,
    `(Σx² − n·mean²)/(n − 1)`, is the unbiased sample variance. -/
theorem variance_identity (l : List ℚ) (h : 2 ≤ l.length) :
    ((l.map (fun x => x ^ 2)).sum - l.length * mean l ^ 2) / (l.length - 1) = sampleVariance l := by
  unfold sampleVariance
  rw [sum_sq_dev l (mean l)]
  have hn : (l.length : ℚ) ≠ 0 := by
    have : (2 : ℚ) ≤ l.length := by exact_mod_cast h
    linarith
  congr 1
  unfold mean
  field_simp
  ring

/-- **Variance exactness.** Once the window is full (`W ≥ 2` samples since the last reset), the
    quantity the variance is computed from is the unbiased sample variance of the last `W` truncated
    samples. -/
theorem variance_exact (W : Nat) (m : Int) (hW : 2 ≤ W) (hm : m ≠ 0) (ops : List Op)
    (hfull : W ≤ (sinceReset ops).length) :
    let s := (Stat.init W m).run ops
    let avg : ℚ := (s.sum : ℚ) / ((s.m : ℚ) * s.data.length)
    ((s.sumsq : ℚ) / s.m2 - s.data.length * avg ^ 2) / ((s.W : ℚ) - 1) =
      sampleVariance (descale m (lastW W ops)) := by
  intro s avg
  have havg := average_exact W m (by omega) hm ops
  obtain ⟨_, hperm, hlen, _, hsumsq, _, hWs, _, hm2⟩ := window_exact W m (by omega) ops
  have hlen' : (descale m (lastW W ops)).length = W := by
    rw [length_descale, lastW_length]; omega
  have hdl : s.data.length = W := by rw [hlen]; omega
  rw [← variance_identity _ (by rw [hlen']; exact hW), hlen', sum_sq_descale]
  show ((s.sumsq : ℚ) / s.m2 - s.data.length * ((s.sum : ℚ) / ((s.m : ℚ) * s.data.length)) ^ 2) / ((s.W : ℚ) - 1) = _
  rw [havg, hsumsq, hm2, hdl, hWs]
  push_cast
  rfl

/-- **No overflow on the property's domain**: with `W ≤ 64`, `|m| ≤ 10^6` and every truncated sample
    `|q| ≤ 10^8`, every value the C++ keeps in a `long long` (the sums, also before the old sample is
    subtracted, the squares, the squared multiplier) fits 64 bits and the multiplier fits an `int` —
    so the unbounded integers of the model and the machine integers coincide on every history. -/
theorem no_overflow (W : Nat) (m : Int) (hW : 0 < W) (hW64 : W ≤ 64) (hm : |m| ≤ 10 ^ 6) (ops : List Op)
    (hq : ∀ op ∈ ops, ∀ q, op = Op.upd q → |q| ≤ 10 ^ 8) :
    let s := (Stat.init W m).run ops
    Fits64 s.sum ∧ Fits64 s.sumsq ∧ Fits64 (s.sum + 10 ^ 8) ∧ Fits64 (s.sum - 10 ^ 8) ∧
    Fits64 (s.sumsq + 10 ^ 16) ∧ Fits64 s.m2 ∧ Fits32 s.m := by
  intro s
  obtain ⟨_, _, _, hsum, hsumsq, _, _, hms, hm2⟩ := window_exact W m hW ops
  -- every sample since the last reset is one of the fed samples
  have hmem : ∀ (ops : List Op) (acc : List Int), (∀ x ∈ acc, |x| ≤ 10 ^ 8) →
      (∀ op ∈ ops, ∀ q, op = Op.upd q → |q| ≤ 10 ^ 8) → ∀ x ∈ ops.foldl track acc, |x| ≤ 10 ^ 8 := by
    intro ops
    induction ops with
    | nil => intro acc ha _; exact ha
    | cons op rest ih =>
      intro acc ha hops
      simp only [List.foldl_cons]
      apply ih
      · cases op with
        | upd q =>
          intro x hx
          simp only [track, List.mem_append, List.mem_singleton] at hx
          rcases hx with hx | hx
          · exact ha x hx
          · rw [hx]; exact hops (Op.upd q) (by simp) q rfl
        | reset => intro x hx; simp [track] at hx
      · intro op' hop'; exact hops op' (by simp [hop'])
  have hall : ∀ x ∈ lastW W ops, |x| ≤ 10 ^ 8 := by
    intro x hx
    exact hmem ops [] (by simp) hq x (List.mem_of_mem_drop hx)
  have hlen : ((lastW W ops).length : Int) ≤ 64 := by
    rw [lastW_length]; omega
  have hlen0 : (0 : Int) ≤ (lastW W ops).length := by omega
  have h1 := abs_sum_le (lastW W ops) (10 ^ 8) hall
  have hall2 : ∀ x ∈ (lastW W ops).map (fun q => q * q), |x| ≤ 10 ^ 16 := by
    intro x hx
    obtain ⟨q, hq', rfl⟩ := List.mem_map.mp hx
    have := hall q hq'
    rw [abs_mul]
    have h0 := abs_nonneg q
    nlinarith
  have h2 := abs_sum_le _ (10 ^ 16) hall2
  rw [List.length_map] at h2
  have hb1 : |s.sum| ≤ 64 * 10 ^ 8 := by rw [hsum]; nlinarith
  have hb2 : |s.sumsq| ≤ 64 * 10 ^ 16 := by rw [hsumsq]; nlinarith
  have hb3 : |s.m2| ≤ 10 ^ 12 := by
    rw [hm2, abs_mul]
    have h0 := abs_nonneg m
    nlinarith
  rw [abs_le] at hb1 hb2 hb3
  have hm' : |s.m| ≤ 10 ^ 6 := by rw [hms]; exact hm
  rw [abs_le] at hm'
  simp only [Fits64, Fits32]
  norm_num at hb1 hb2 hb3 hm' ⊢
  omega

/-! ## Ring buffer -/

/-- invariant of the ring w.r.t. the items appended since the last clear -/
structure RInv {T} (r : RingBuf T) (xs : List T) : Prop where
  notfull : xs.length < r.cap → r.buf = xs ∧ (r.idx + 1) % two64 = xs.length
  full : r.cap ≤ xs.length → r.buf.length = r.cap ∧ r.idx < r.cap ∧
    r.buf.rotate (r.idx + 1) = xs.drop (xs.length - r.cap)
  idx_lt : r.idx < two64

private theorem rinit_inv {T} (cap : Nat) (hc : 0 < cap) : RInv (RingBuf.init cap : RingBuf T) [] := by
  refine ⟨fun _ => ⟨rfl, by simp [RingBuf.init, two64]⟩, fun h => ?_, by simp [RingBuf.init, two64]⟩
  simp [RingBuf.init] at h; omega

private theorem rclear_inv {T} (r : RingBuf T) (hc : 0 < r.cap) : RInv r.clear [] := by
  refine ⟨fun _ => ⟨rfl, by simp [RingBuf.clear, two64]⟩, fun h => ?_, by simp [RingBuf.clear, two64]⟩
  simp [RingBuf.clear] at h; omega

private theorem rappend_cap {T} (r : RingBuf T) (v : T) : (r.append v).cap = r.cap := by
  unfold RingBuf.append; split <;> rfl

private theorem rappend_inv {T} (r : RingBuf T) (xs : List T) (v : T) (hc : 0 < r.cap) (hc2 : r.cap < two64)
    (h : RInv r xs) : RInv (r.append v) (xs ++ [v]) ∧ (r.append v).cap = r.cap := by
  have e_cap := rappend_cap r v
  refine ⟨?_, e_cap⟩
  by_cases hfull : r.buf.length = r.cap
  · have hge : r.cap ≤ xs.length := by
      by_contra hlt
      have := (h.notfull (by omega)).1
      rw [this] at hfull; omega
    obtain ⟨hlen, hidx, hrot⟩ := h.full hge
    have hi : (r.idx + 1) % two64 = r.idx + 1 := Nat.mod_eq_of_lt (by omega)
    have e_idx : (r.append v).idx = (r.idx + 1) % r.cap := by simp [RingBuf.append, hfull, hi]
    have e_buf : (r.append v).buf = r.buf.set ((r.idx + 1) % r.cap) v := by simp [RingBuf.append, hfull, hi]
    have hj : (r.idx + 1) % r.cap < r.buf.length := by rw [hlen]; exact Nat.mod_lt _ hc
    refine ⟨fun hl => ?_, fun _ => ⟨?_, ?_, ?_⟩, by rw [e_idx]; exact lt_trans (Nat.mod_lt _ hc) hc2⟩
    · rw [e_cap] at hl; simp at hl; omega
    · rw [e_buf, e_cap]; simp [hlen]
    · rw [e_idx, e_cap]; exact Nat.mod_lt _ hc
    · rw [e_buf, e_idx, e_cap, rotate_set_succ _ _ hj]
      have : r.buf.rotate ((r.idx + 1) % r.cap) = r.buf.rotate (r.idx + 1) := by
        conv_lhs => rw [← hlen, List.rotate_mod]
      rw [this, hrot, List.length_append, List.length_singleton,
        List.drop_append_of_le_length (by omega), List.tail_drop]
      congr 2; omega
  · have hlt : xs.length < r.cap := by
      by_contra hge
      exact hfull (h.full (by omega)).1
    obtain ⟨hbuf, hidx⟩ := h.notfull hlt
    have e_idx : (r.append v).idx = xs.length := by
      simp only [RingBuf.append, hfull, if_false, hidx]
      exact Nat.mod_eq_of_lt hlt
    have e_buf : (r.append v).buf = xs ++ [v] := by
      unfold RingBuf.append; rw [if_neg hfull]; simp [hbuf]
    refine ⟨fun hl => ⟨e_buf, ?_⟩, fun hl => ⟨?_, ?_, ?_⟩, by rw [e_idx]; exact lt_trans hlt hc2⟩
    · rw [e_idx]; rw [e_cap] at hl; simp at hl ⊢; exact Nat.mod_eq_of_lt (by omega)
    · rw [e_buf, e_cap]; rw [e_cap] at hl; simp at hl ⊢; omega
    · rw [e_idx, e_cap]; exact hlt
    · rw [e_cap] at hl; simp at hl
      rw [e_buf, e_idx, e_cap]
      have : (xs ++ [v]).length = xs.length + 1 := by simp
      rw [← this, List.rotate_length, this, show xs.length + 1 - r.cap = 0 by omega, List.drop_zero]

private def rtrack {T} (acc : List T) (op : ROp T) : List T :=
  match op with | .app v => acc ++ [v] | .clear => []

private theorem rrun_inv {T} (ops : List (ROp T)) (r : RingBuf T) (xs : List T) (hc : 0 < r.cap) (hc2 : r.cap < two64)
    (h : RInv r xs) : RInv (r.run ops) (ops.foldl rtrack xs) ∧ (r.run ops).cap = r.cap := by
  induction ops generalizing r xs with
  | nil => exact ⟨h, rfl⟩
  | cons op rest ih =>
    simp only [RingBuf.run, List.foldl_cons]
    cases op with
    | app v =>
      simp only [RingBuf.step]
      obtain ⟨h1, h2⟩ := rappend_inv r xs v hc hc2 h
      have := ih (r.append v) (xs ++ [v]) (by rw [h2]; exact hc) (by rw [h2]; exact hc2) h1
      simp only [RingBuf.run] at this
      exact ⟨this.1, by rw [this.2, h2]⟩
    | clear =>
      simp only [RingBuf.step]
      have := ih r.clear [] hc hc2 (rclear_inv r hc)
      simp only [RingBuf.run] at this
      exact this

private theorem ring_get_of_inv {T} (r : RingBuf T) (xs : List T) (cap : Nat) (hc : 0 < cap) (hc2 : cap < 2 ^ 62)
    (hinv : RInv r xs) (hcap' : r.cap = cap) (k : Nat) :
    r.size = min xs.length cap ∧ (k < r.size → r.get? k = xs.reverse[k]?) := by
  by_cases hlt : xs.length < cap
  · obtain ⟨hbuf, hidx⟩ := hinv.notfull (by rw [hcap']; exact hlt)
    have hsize : r.size = xs.length := by show r.buf.length = _; rw [hbuf]
    refine ⟨by rw [hsize]; omega, fun hk => ?_⟩
    rw [hsize] at hk
    -- idx = n - 1 (n ≥ 1)
    have hidx' : r.idx = xs.length - 1 := by
      have hlt2 := hinv.idx_lt
      simp only [two64] at hidx hlt2
      have : xs.length < 2 ^ 62 := by omega
      omega
    have hslot : r.slot k = xs.length - 1 - k := by
      unfold RingBuf.slot
      rw [hbuf, hidx']
      simp only [two64]
      have h1 : (xs.length - 1 + xs.length) % 2 ^ 64 = xs.length - 1 + xs.length := Nat.mod_eq_of_lt (by omega)
      have h2 : k % 2 ^ 64 = k := Nat.mod_eq_of_lt (by omega)
      rw [h1, h2]
      have h3 : (xs.length - 1 + xs.length + 2 ^ 64 - k) % 2 ^ 64 = xs.length - 1 + xs.length - k := by
        rw [show xs.length - 1 + xs.length + 2 ^ 64 - k = (xs.length - 1 + xs.length - k) + 2 ^ 64 by omega,
          Nat.add_mod_right]
        exact Nat.mod_eq_of_lt (by omega)
      rw [h3, show xs.length - 1 + xs.length - k = (xs.length - 1 - k) + xs.length by omega, Nat.add_mod_right]
      exact Nat.mod_eq_of_lt (by omega)
    show r.buf[r.slot k]? = _
    rw [hslot, hbuf, List.getElem?_reverse hk]
  · have hge : cap ≤ xs.length := by omega
    obtain ⟨hlen, hidx, hrot⟩ := hinv.full (by rw [hcap']; exact hge)
    rw [hcap'] at hlen hidx hrot
    have hsize : r.size = cap := hlen
    refine ⟨by rw [hsize]; omega, fun hk => ?_⟩
    rw [hsize] at hk
    have hslot : r.slot k = (r.idx + cap - k) % cap := by
      unfold RingBuf.slot
      rw [hlen]
      simp only [two64]
      have h1 : (r.idx + cap) % 2 ^ 64 = r.idx + cap := Nat.mod_eq_of_lt (by omega)
      have h2 : k % 2 ^ 64 = k := Nat.mod_eq_of_lt (by omega)
      rw [h1, h2, show r.idx + cap + 2 ^ 64 - k = (r.idx + cap - k) + 2 ^ 64 by omega, Nat.add_mod_right,
        Nat.mod_eq_of_lt (show r.idx + cap - k < 2 ^ 64 by omega)]
    show r.buf[r.slot k]? = _
    -- the k-th most recent item is entry cap-1-k of the oldest-first window
    have hrev : xs.reverse[k]? = (xs.drop (xs.length - cap))[cap - 1 - k]? := by
      rw [List.getElem?_reverse (by omega), List.getElem?_drop]
      congr 1; omega
    rw [hrev, ← hrot, hslot, List.getElem?_rotate (by rw [hlen]; omega), hlen]
    have : (cap - 1 - k + (r.idx + 1)) % cap = (r.idx + cap - k) % cap := by
      congr 1; omega
    rw [this]

/-- **Ring buffer.** For every capacity (power of two or not) and every history of appends and clears,
    the ring holds `min(n, cap)` items and its `k`-th entry is the `k`-th most recently appended item
    since the last clear. (`cap < 2^62`: a `std::vector` cannot be larger.) -/
theorem ring_spec {T} (cap : Nat) (hc : 0 < cap) (hc2 : cap < 2 ^ 62) (ops : List (ROp T)) (k : Nat) :
    ((RingBuf.init cap : RingBuf T).run ops).size = min (sinceClear ops).length cap ∧
    (k < ((RingBuf.init cap : RingBuf T).run ops).size →
      ((RingBuf.init cap : RingBuf T).run ops).get? k = (sinceClear ops).reverse[k]?) := by
  have hc3 : cap < two64 := by simp only [two64]; omega
  obtain ⟨hinv, hcap⟩ := rrun_inv ops (RingBuf.init cap : RingBuf T) [] hc hc3 (rinit_inv cap hc)
  exact ring_get_of_inv _ _ cap hc hc2 hinv hcap k

/-! ## Non-vacuity -/

example : ((Stat.init 3 1).run [.upd 100, .reset, .upd 1, .upd 2, .upd 3, .upd 4]).sum = 9 := by decide
example : lastW 3 [.upd 100, .reset, .upd 1, .upd 2, .upd 3, .upd 4] = [2, 3, 4] := by decide
example : ((RingBuf.init 3 : RingBuf Nat).run [.app 1, .app 2, .app 3, .app 4]).get? 1 = some 3 := by decide
example : sampleVariance [1, 2, 1, 2] = 1 / 3 := by norm_num [sampleVariance, mean]

end Romea.C16
