import RomeaProofs.Lemmas.C05Rows
import RomeaProofs.Lemmas.C05Norm
import RomeaProofs.Properties.C07
import Mathlib.Analysis.SpecialFunctions.Trigonometric.Bounds
import Mathlib.LinearAlgebra.Matrix.Block

/-!
# C05 — point-to-plane least-squares registration solves its linearised problem

Property theorems about the model `RomeaModel/PointToPlane.lean` (which calls C07's solver model) over `ℝ`.
Exact arithmetic: rounding is outside the theorems (correspondence check + probe).  The only divisions are the
`1/σ` of the solver (guarded by `NoCut`, see C07) and `1/scale` in `setPreconditioner` (guarded by `scale ≠ 0`).
Eigen's JacobiSVD is a parameter with the contract `IsSVD` of C07.

Contents: the row residual is the linearised point-to-plane distance (`(ω×s)·n = ω·(s×n)`); `find` returns
`scatter(Ac·x + Bc)` with `x` the least-squares solution (normal equations, minimality, in geometric terms too);
a pure translation is recovered exactly; the linearisation residual of an exact rotation is second order in the angle
(explicit constants), with the error representation of the solution (`_partial`) completed by the norm bound
`‖x − x*‖ ≤ √n·ρ/σ` (`σ` a lower bound of the smallest singular value, which exists for every full-rank problem) and its
composition with the row residuals: `‖x − x*‖ ≤ √n (θ²/2·M₂ + |θ|³/6·M₁)/σ ≤ C·θ²` for `|θ| ≤ 1` (2D and 3D);
invariances: index-based = aligned, homogeneous = Cartesian, preconditioned = plain.
The estimator object is arbitrary throughout (`EWF`: any state reachable from the constructor), and so are the
unspecified contents of reallocated solver buffers (`jJ`, `jY`).
-/
namespace Romea.C05
open Matrix Romea.LeastSquares Romea.PointToPlane Romea.C07

/-- `i`-th coordinate of the image of the point `s` under the homogeneous matrix `M` (last row ignored) -/
def moved (dim : Nat) (M : Mat ℝ) (s : Pt ℝ) (i : Nat) : ℝ :=
  sumTo dim (fun j => M.get i j * Vec.get s j) + M.get i dim

/-- point-to-plane cost of a candidate transformation matrix: `Σ_k ((M sₖ − tₖ)·nₖ)²` -/
def planeDist (dim : Nat) (M : Mat ℝ) (s t n : Pt ℝ) : ℝ :=
  sumTo dim fun i => (moved dim M s i - Vec.get t i) * Vec.get n i

/-- the scalar triple product identity behind the rows: `(ω × s)·n = ω·(s × n)` -/
theorem triple_product (w0 w1 w2 s0 s1 s2 n0 n1 n2 : ℝ) :
    (w1 * s2 - w2 * s1) * n0 + (w2 * s0 - w0 * s2) * n1 + (w0 * s1 - w1 * s0) * n2 =
    w0 * (s1 * n2 - s2 * n1) + w1 * (s2 * n0 - s0 * n2) + w2 * (s0 * n1 - s1 * n0) := by ring

theorem residual_is_linearised_distance (dim : Nat) (hdim : dim = 2 ∨ dim = 3) (s t n : Pt ℝ) (x : Vec ℝ) :
    sumTo (estSize dim) (fun c => Vec.get (rowOf dim s n) c * Vec.get x c) - rhsOf dim s t n =
      planeDist dim (scatter dim x) s t n := by
  rcases hdim with rfl | rfl
  · simp [estSize, sumTo, rowOf, rhsOf, scatter, moved, planeDist, Vec.get, Mat.get]
    ring
  · simp [estSize, sumTo, rowOf, rhsOf, scatter, moved, planeDist, Vec.get, Mat.get]
    ring


/-! ## Rotation: the linearisation residual is of second order -/

theorem trig_bounds (θ : ℝ) : 0 ≤ 1 - Real.cos θ ∧ 1 - Real.cos θ ≤ θ ^ 2 / 2 ∧ |θ - Real.sin θ| ≤ |θ| ^ 3 / 6 := by
  refine ⟨by linarith [Real.cos_le_one θ], by linarith [Real.one_sub_sq_div_two_le_cos (x := θ)], ?_⟩
  rcases lt_trichotomy θ 0 with h | h | h
  · have hp : 0 < -θ := by linarith
    have h1 := Real.sin_lt hp
    have h2 := Real.sin_gt_sub_cube hp
    rw [Real.sin_neg] at h1 h2
    have h3 : θ - Real.sin θ < 0 := by linarith
    rw [abs_of_neg h3, abs_of_neg h]
    have : (-θ) ^ 3 = -(θ ^ 3) := by ring
    nlinarith
  · subst h; simp
  · have h1 := Real.sin_lt h
    have h2 := Real.sin_gt_sub_cube h
    have h3 : 0 < θ - Real.sin θ := by linarith
    rw [abs_of_pos h3, abs_of_pos h]
    linarith

private theorem two_term_bound (θ A B : ℝ) :
    |(1 - Real.cos θ) * A + (θ - Real.sin θ) * B| ≤ θ ^ 2 / 2 * |A| + |θ| ^ 3 / 6 * |B| := by
  obtain ⟨h0, h1, h2⟩ := trig_bounds θ
  calc |(1 - Real.cos θ) * A + (θ - Real.sin θ) * B|
      ≤ |(1 - Real.cos θ) * A| + |(θ - Real.sin θ) * B| := abs_add_le _ _
    _ = (1 - Real.cos θ) * |A| + |θ - Real.sin θ| * |B| := by rw [abs_mul, abs_mul, abs_of_nonneg h0]
    _ ≤ θ ^ 2 / 2 * |A| + |θ| ^ 3 / 6 * |B| := by
        apply add_le_add
        · exact mul_le_mul_of_nonneg_right h1 (abs_nonneg A)
        · exact mul_le_mul_of_nonneg_right h2 (abs_nonneg B)

/-- 2D: for a target that is the EXACT rigid image `t = R(θ)s + T`, the row residual of the true parameters
    `x* = (T, θ)` is `(1 − cos θ)(s·n) + (θ − sin θ)(s × n)`, hence `≤ θ²/2·|s·n| + |θ|³/6·|s × n|`:
    second order in the angle -/
theorem rotation_residual_2d (s t n : Pt ℝ) (θ T0 T1 : ℝ)
    (ht0 : Vec.get t 0 = Real.cos θ * Vec.get s 0 - Real.sin θ * Vec.get s 1 + T0)
    (ht1 : Vec.get t 1 = Real.sin θ * Vec.get s 0 + Real.cos θ * Vec.get s 1 + T1) :
    let r := sumTo 3 (fun c => Vec.get (rowOf 2 s n) c * Vec.get #[T0, T1, θ] c) - rhsOf 2 s t n
    r = (1 - Real.cos θ) * (Vec.get s 0 * Vec.get n 0 + Vec.get s 1 * Vec.get n 1) +
        (θ - Real.sin θ) * (Vec.get s 0 * Vec.get n 1 - Vec.get s 1 * Vec.get n 0) ∧
    |r| ≤ θ ^ 2 / 2 * |Vec.get s 0 * Vec.get n 0 + Vec.get s 1 * Vec.get n 1| +
          |θ| ^ 3 / 6 * |Vec.get s 0 * Vec.get n 1 - Vec.get s 1 * Vec.get n 0| := by
  intro r
  have hr : r = (1 - Real.cos θ) * (Vec.get s 0 * Vec.get n 0 + Vec.get s 1 * Vec.get n 1) +
        (θ - Real.sin θ) * (Vec.get s 0 * Vec.get n 1 - Vec.get s 1 * Vec.get n 0) := by
    simp only [r, sumTo, rowOf, rhsOf, ht0, ht1]
    simp [Vec.get]
    ring
  exact ⟨hr, hr ▸ two_term_bound θ _ _⟩

/-- `a × s` on coordinate functions -/
def cross3 (a s : Nat → ℝ) (i : Nat) : ℝ :=
  match i with
  | 0 => a 1 * s 2 - a 2 * s 1
  | 1 => a 2 * s 0 - a 0 * s 2
  | 2 => a 0 * s 1 - a 1 * s 0
  | _ => 0

def dot3 (u v : Nat → ℝ) : ℝ := u 0 * v 0 + u 1 * v 1 + u 2 * v 2

/-- 3D: for the exact rigid image `t = s + sin θ (a × s) + (1 − cos θ) a × (a × s) + T` (Rodrigues' rotation by `θ`
    about the axis `a` through the origin), the row residual of the true parameters `x* = (T, θ·a)` is
    `(θ − sin θ)(a × s)·n − (1 − cos θ)(a × (a × s))·n`, hence
    `≤ θ²/2·|(a × (a × s))·n| + |θ|³/6·|(a × s)·n|`: second order in the angle -/
theorem rotation_residual_3d (s t n : Pt ℝ) (θ : ℝ) (a T : Nat → ℝ)
    (ht : ∀ i < 3, Vec.get t i = Vec.get s i + Real.sin θ * cross3 a (Vec.get s) i
        + (1 - Real.cos θ) * cross3 a (cross3 a (Vec.get s)) i + T i) :
    let r := sumTo 6 (fun c => Vec.get (rowOf 3 s n) c * Vec.get #[T 0, T 1, T 2, θ * a 0, θ * a 1, θ * a 2] c)
              - rhsOf 3 s t n
    r = (θ - Real.sin θ) * dot3 (cross3 a (Vec.get s)) (Vec.get n)
        - (1 - Real.cos θ) * dot3 (cross3 a (cross3 a (Vec.get s))) (Vec.get n) ∧
    |r| ≤ θ ^ 2 / 2 * |dot3 (cross3 a (cross3 a (Vec.get s))) (Vec.get n)| +
          |θ| ^ 3 / 6 * |dot3 (cross3 a (Vec.get s)) (Vec.get n)| := by
  intro r
  have hr : r = (1 - Real.cos θ) * (-(dot3 (cross3 a (cross3 a (Vec.get s))) (Vec.get n)))
      + (θ - Real.sin θ) * dot3 (cross3 a (Vec.get s)) (Vec.get n) := by
    simp only [r, sumTo, rowOf, rhsOf, ht 0 (by norm_num), ht 1 (by norm_num), ht 2 (by norm_num), dot3, cross3]
    simp [Vec.get]
    ring
  refine ⟨by rw [hr]; ring, ?_⟩
  have := two_term_bound θ (-(dot3 (cross3 a (cross3 a (Vec.get s))) (Vec.get n))) (dot3 (cross3 a (Vec.get s)) (Vec.get n))
  rw [abs_neg] at this
  rw [hr]; exact this


/-- estimator objects as the constructor and the methods leave them: estimate size 3 / 6, the three buffers of equal
    length, `J_` rectangular with as many columns as the estimate size -/
def EWF (dim : Nat) (e : Estimator ℝ) : Prop :=
  e.ls.est = estSize dim ∧ e.ls.J.size = e.ls.Y.size ∧ e.ls.W.size = e.ls.Y.size ∧
  ∀ k < e.ls.Y.size, rowSize e.ls k = e.ls.est

theorem ewf_init (dim : Nat) : EWF dim (init dim : Estimator ℝ) := by
  refine ⟨rfl, ?_, rfl, fun k hk => ?_⟩
  · simp [init, setEstimateSize, State.default, Mat.tab]
  · simp [init, setEstimateSize, State.default] at hk

theorem ewf_setPreconditioner (dim : Nat) (e : Estimator ℝ) (p : Preconditioned ℝ) (h : EWF dim e) :
    EWF dim (PointToPlane.setPreconditioner dim e p) := h

/-- the solver object right before `estimateUsingSVD` is called inside `estimate_` -/
def problemState (e : Estimator ℝ) (n : Nat) (row : Nat → Vec ℝ) (rhs : Nat → ℝ) (jJ : Nat → Nat → ℝ) (jY : Nat → ℝ) :
    State ℝ :=
  fillRows (setDataSize e.ls n jJ jY).1 n row rhs

theorem problemState_spec (dim : Nat) (e : Estimator ℝ) (he : EWF dim e) (n : Nat) (row : Nat → Vec ℝ) (rhs : Nat → ℝ)
    (jJ : Nat → Nat → ℝ) (jY : Nat → ℝ) :
    let ls := problemState e n row rhs jJ jY
    ls.est = estSize dim ∧ ls.dataSize = n ∧ ls.Ac = e.ls.Ac ∧ ls.Bc = e.ls.Bc ∧
    (∀ k < n, ∀ c < estSize dim, ls.J.get k c = (row k).get c) ∧ (∀ k < n, ls.Y.get k = rhs k) ∧
    EWF dim ⟨ls⟩ := by
  obtain ⟨h1, h2, h3, h4⟩ := he
  -- facts about the state after `setDataSize`
  have hs0 : let s0 := (setDataSize e.ls n jJ jY).1
      s0.est = e.ls.est ∧ s0.dataSize = n ∧ s0.Ac = e.ls.Ac ∧ s0.Bc = e.ls.Bc ∧ n ≤ s0.Y.size ∧ s0.J.size = s0.Y.size ∧
      s0.W.size = s0.Y.size ∧ ∀ k < s0.Y.size, rowSize s0 k = s0.est := by
    intro s0
    by_cases hg : e.ls.Y.size < n
    · have : s0 = { e.ls with dataSize := n, J := Mat.tab n e.ls.est jJ, Y := Vec.tab n jY, W := Vec.tab n fun _ => one } := by
        simp [s0, setDataSize, hg]
      rw [this]
      refine ⟨rfl, rfl, rfl, rfl, by simp [Vec.tab], by simp [Vec.tab, Mat.tab], by simp [Vec.tab], ?_⟩
      intro k hk
      have hk' : k < n := by simpa [Vec.tab] using hk
      simp [rowSize, Mat.tab, hk']
    · have : s0 = { e.ls with dataSize := n } := by simp [s0, setDataSize, hg]
      rw [this]
      exact ⟨rfl, rfl, rfl, rfl, by simpa using Nat.le_of_not_lt hg, h2, h3, h4⟩
  obtain ⟨a1, a2, a3, a4, a5, a6, a7, a8⟩ := hs0
  obtain ⟨f1, f2, f3, f4, f5, _, f7, f8, f9, f10, f11⟩ := fillRows_spec (setDataSize e.ls n jJ jY).1 n row rhs
  intro ls
  refine ⟨(f1.trans a1).trans h1, f2.trans a2, f3.trans a3, f4.trans a4, ?_, ?_, ?_⟩
  · intro k hk c hc
    have hk2 : k < (setDataSize e.ls n jJ jY).1.J.size := by rw [a6]; omega
    have hc2 : c < (setDataSize e.ls n jJ jY).1.est := by rw [a1, h1]; exact hc
    have hc3 : c < rowSize (setDataSize e.ls n jJ jY).1 k := by rw [a8 k (by omega)]; exact hc2
    exact (f10 k c).trans (if_pos ⟨hk, hk2, hc3, hc2⟩)
  · intro k hk
    exact (f11 k).trans (if_pos ⟨hk, by omega⟩)
  · refine ⟨(f1.trans a1).trans h1, f7.trans (a6.trans f8.symm), ?_, ?_⟩
    · exact (congrArg Array.size f5).trans (a7.trans f8.symm)
    · intro k hk
      exact (f9 k).trans ((a8 k (by rw [← f8]; exact hk)).trans f1.symm)

/-! ## The linearised problem and what `find` returns -/

/-- row / right-hand side `k` of the aligned overloads -/
def rowA (dim : Nat) (src nrm : Array (Pt ℝ)) (k : Nat) : Vec ℝ := rowOf dim (src.getD k #[]) (nrm.getD k #[])
def rhsA (size : Nat) (src tgt nrm : Array (Pt ℝ)) (k : Nat) : ℝ :=
  rhsOf size (src.getD k #[]) (tgt.getD k #[]) (nrm.getD k #[])

/-- design matrix `[n, s × n]` and right-hand side `(t − s)·n` of the linearised point-to-plane problem -/
def Jlin (dim n : Nat) (src nrm : Array (Pt ℝ)) : Matrix (Fin n) (Fin (estSize dim)) ℝ :=
  fun k c => Vec.get (rowA dim src nrm k) c
def Ylin (size n : Nat) (src tgt nrm : Array (Pt ℝ)) : Fin n → ℝ := fun k => rhsA size src tgt nrm k

/-- a vector of reals as a model array -/
noncomputable def vecOf {e : Nat} (v : Fin e → ℝ) : Vec ℝ := Vec.tab e fun i => if h : i < e then v ⟨i, h⟩ else 0

theorem vecOf_get {e : Nat} (v : Fin e → ℝ) (i : Fin e) : Vec.get (vecOf v) i = v i := by
  rw [vecOf, Vec.get_tab _ _ i.isLt]; simp

/-- `scatter` reads entries `0 … estSize dim − 1` only -/
theorem scatter_congr (dim : Nat) (x y : Vec ℝ) (h : ∀ i < estSize dim, Vec.get x i = Vec.get y i) :
    scatter dim x = scatter dim y := by
  unfold scatter
  by_cases hd : dim = 2
  · subst hd
    simp only [if_true]
    rw [h 0 (by decide), h 1 (by decide), h 2 (by decide)]
  · have he : estSize dim = 6 := by simp [estSize, hd]
    rw [he] at h
    simp only [hd, if_false]
    rw [h 0 (by norm_num), h 1 (by norm_num), h 2 (by norm_num), h 3 (by norm_num), h 4 (by norm_num), h 5 (by norm_num)]

/-- the solver object inside the aligned `estimate_` right before `estimateUsingSVD` -/
def stateAligned (dim size : Nat) (e : Estimator ℝ) (src tgt nrm : Array (Pt ℝ)) (jJ : Nat → Nat → ℝ) (jY : Nat → ℝ) :
    State ℝ :=
  problemState e src.size (rowA dim src nrm) (rhsA size src tgt nrm) jJ jY

theorem estimateAligned_eq (env : Env ℝ) (dim size : Nat) (e : Estimator ℝ) (src tgt nrm : Array (Pt ℝ))
    (jJ : Nat → Nat → ℝ) (jY : Nat → ℝ) :
    estimateAligned env dim size e src tgt nrm jJ jY =
      (⟨(estimateSVD env (stateAligned dim size e src tgt nrm jJ jY)).1⟩,
       scatter dim (estimateSVD env (stateAligned dim size e src tgt nrm jJ jY)).2) := rfl

/-- **`find` solves the linearised problem** (aligned overload; the index-based one reduces to it by
    `indexed_eq_aligned_gathered`).  For every estimator object in any state reachable from its constructor, every
    content of reallocated buffers, under the SVD contract with no singular value cut: the returned matrix is
    `scatter (Ac·x + Bc)` where `x` is THE least-squares solution of `[n, s × n] x = (t − s)·n`; `x` satisfies the
    normal equations and minimises the squared residual. -/
theorem find_solves_linearised_problem (env : Env ℝ) (dim size : Nat) (e : Estimator ℝ) (he : EWF dim e)
    (src tgt nrm : Array (Pt ℝ)) (n : Nat) (hn : src.size = n) (jJ : Nat → Nat → ℝ) (jY : Nat → ℝ)
    (hsvd : SVDAt env (stateAligned dim size e src tgt nrm jJ jY)) (heps : 0 ≤ env.eps)
    (hcut : NoCut env (stateAligned dim size e src tgt nrm jJ jY)) :
    let J := Jlin dim n src nrm
    let Y := Ylin size n src tgt nrm
    let x := lsSolution J Y
    Jᵀ *ᵥ (J *ᵥ x - Y) = 0 ∧ (∀ x', C07.sq (J *ᵥ x - Y) ≤ C07.sq (J *ᵥ x' - Y)) ∧
    (findAligned env dim size e src tgt nrm jJ jY).2 =
      scatter dim (vecOf (toM (estSize dim) (estSize dim) e.ls.Ac *ᵥ x + toV (estSize dim) e.ls.Bc)) ∧
    EWF dim (findAligned env dim size e src tgt nrm jJ jY).1 := by
  subst hn
  intro J Y x
  obtain ⟨p1, p2, p3, p4, p5, p6, p7⟩ :=
    problemState_spec dim e he src.size (rowA dim src nrm) (rhsA size src tgt nrm) jJ jY
  have hJ : toM src.size (estSize dim) (stateAligned dim size e src tgt nrm jJ jY).J = J := by
    funext k c; exact p5 k k.isLt c c.isLt
  have hY : toV src.size (stateAligned dim size e src tgt nrm jJ jY).Y = Y := by
    funext k; exact p6 k k.isLt
  obtain ⟨s1, s2⟩ := estimateSVD_spec_dims env (stateAligned dim size e src tgt nrm jJ jY) p2 p1 hsvd heps hcut
  rw [hJ] at s2
  rw [hJ, hY] at s1
  have hne := lsSolution_normal_equations J Y s2
  refine ⟨hne, fun x' => minimiser_of_normal_equations J Y x hne x', ?_, ?_⟩
  · show (estimateAligned env dim size e src tgt nrm jJ jY).2 = _
    rw [estimateAligned_eq]
    apply scatter_congr
    intro i hi
    have := congrFun s1 ⟨i, hi⟩
    rw [toV_apply] at this
    rw [this, vecOf_get _ ⟨i, hi⟩]
    have hA : (stateAligned dim size e src tgt nrm jJ jY).Ac = e.ls.Ac := p3
    have hB : (stateAligned dim size e src tgt nrm jJ jY).Bc = e.ls.Bc := p4
    rw [hA, hB]
  · show EWF dim (estimateAligned env dim size e src tgt nrm jJ jY).1
    rw [estimateAligned_eq]
    exact p7

/-! ## Invariances -/

private theorem getD_map_pt (a : Array (Nat × Nat)) (f : Nat × Nat → Pt ℝ) (k : Nat) (hk : k < a.size) :
    (a.map f).getD k #[] = f (a.getD k (0, 0)) := by
  simp [Array.getD, hk]

/-- **Index-based = aligned.**  `find` with index-based correspondences is `find` on the aligned arrays obtained by
    gathering the corresponded source points, target points and target normals. -/
theorem indexed_eq_aligned_gathered (env : Env ℝ) (dim size : Nat) (e : Estimator ℝ) (src tgt nrm : Array (Pt ℝ))
    (corr : Array (Nat × Nat)) (jJ : Nat → Nat → ℝ) (jY : Nat → ℝ) :
    findIndexed env dim size e src tgt nrm corr jJ jY =
      findAligned env dim size e (corr.map fun c => src.getD c.1 #[]) (corr.map fun c => tgt.getD c.2 #[])
        (corr.map fun c => nrm.getD c.2 #[]) jJ jY := by
  unfold findIndexed findAligned estimateIndexed estimateAligned
  simp only [Array.size_map]
  rw [fillRows_congr]
  intro k hk
  rw [getD_map_pt _ _ k hk, getD_map_pt _ _ k hk, getD_map_pt _ _ k hk]
  exact ⟨rfl, rfl⟩

/-- **Aligned = index-based** with the identity correspondences `(0,0), (1,1), …` -/
theorem aligned_eq_indexed (env : Env ℝ) (dim size : Nat) (e : Estimator ℝ) (src tgt nrm : Array (Pt ℝ))
    (jJ : Nat → Nat → ℝ) (jY : Nat → ℝ) :
    findAligned env dim size e src tgt nrm jJ jY =
      findIndexed env dim size e src tgt nrm (Array.ofFn (n := src.size) fun k => (k.val, k.val)) jJ jY := by
  unfold findIndexed findAligned estimateIndexed estimateAligned
  simp only [Array.size_ofFn]
  rw [fillRows_congr]
  intro k hk
  have : (Array.ofFn (n := src.size) fun k => (k.val, k.val)).getD k (0, 0) = (k, k) := by
    simp [Array.getD, hk]
  rw [this]
  exact ⟨rfl, rfl⟩

/-- the homogeneous component does not contribute when source and target carry the same one (both 1) -/
theorem rhsOf_homogeneous (dim : Nat) (s t n : Pt ℝ) (hw : Vec.get t dim = Vec.get s dim) :
    rhsOf (dim + 1) s t n = rhsOf dim s t n := by
  simp [rhsOf, sumTo, hw]

/-- `rowOf` and `rhsOf dim` only read the Cartesian components -/
private theorem row_rhs_congr (dim : Nat) (hdim : dim = 2 ∨ dim = 3) (s t n s' t' n' : Pt ℝ)
    (hs : ∀ c < dim, Vec.get s c = Vec.get s' c) (ht : ∀ c < dim, Vec.get t c = Vec.get t' c)
    (hn : ∀ c < dim, Vec.get n c = Vec.get n' c) :
    rowOf dim s n = rowOf dim s' n' ∧ rhsOf dim s t n = rhsOf dim s' t' n' := by
  constructor
  · rcases hdim with rfl | rfl
    · simp only [rowOf, if_true, hs 0 (by norm_num), hs 1 (by norm_num), hn 0 (by norm_num), hn 1 (by norm_num)]
    · simp only [rowOf, show (3 : Nat) ≠ 2 by decide, if_false, hs 0 (by norm_num), hs 1 (by norm_num), hs 2 (by norm_num),
        hn 0 (by norm_num), hn 1 (by norm_num), hn 2 (by norm_num)]
  · unfold rhsOf
    exact sumTo_congr _ _ _ fun c hc => by rw [hs c hc, ht c hc, hn c hc]

/-- **Homogeneous = Cartesian.**  The homogeneous point types (`size = dim + 1`) give the same result, and leave the
    estimator in the same state, as the Cartesian ones (`size = dim`) on the same coordinates, whenever corresponding
    source and target points carry the same homogeneous component. -/
theorem homogeneous_eq_cartesian (env : Env ℝ) (dim : Nat) (hdim : dim = 2 ∨ dim = 3) (e : Estimator ℝ)
    (srcH tgtH nrmH srcC tgtC nrmC : Array (Pt ℝ)) (hsz : srcH.size = srcC.size)
    (hs : ∀ k < srcH.size, ∀ c < dim, Vec.get (srcH.getD k #[]) c = Vec.get (srcC.getD k #[]) c)
    (ht : ∀ k < srcH.size, ∀ c < dim, Vec.get (tgtH.getD k #[]) c = Vec.get (tgtC.getD k #[]) c)
    (hn : ∀ k < srcH.size, ∀ c < dim, Vec.get (nrmH.getD k #[]) c = Vec.get (nrmC.getD k #[]) c)
    (hw : ∀ k < srcH.size, Vec.get (tgtH.getD k #[]) dim = Vec.get (srcH.getD k #[]) dim)
    (jJ : Nat → Nat → ℝ) (jY : Nat → ℝ) :
    findAligned env dim (dim + 1) e srcH tgtH nrmH jJ jY = findAligned env dim dim e srcC tgtC nrmC jJ jY := by
  unfold findAligned estimateAligned
  simp only [← hsz]
  rw [fillRows_congr]
  intro k hk
  obtain ⟨h1, h2⟩ := row_rhs_congr dim hdim _ (tgtH.getD k #[]) _ _ (tgtC.getD k #[]) _ (hs k hk) (ht k hk) (hn k hk)
  exact ⟨h1, (rhsOf_homogeneous dim _ _ _ (hw k hk)).trans h2⟩

/-! ## Minimality in geometric terms, exact translation, rotation error -/

/-- `J x − Y` IS the vector of signed point-to-plane distances of the transformed source points -/
theorem residual_vector (dim : Nat) (hdim : dim = 2 ∨ dim = 3) (n : Nat) (src tgt nrm : Array (Pt ℝ)) (x : Fin (estSize dim) → ℝ)
    (k : Fin n) :
    (Jlin dim n src nrm *ᵥ x - Ylin dim n src tgt nrm) k =
      planeDist dim (scatter dim (vecOf x)) (src.getD k #[]) (tgt.getD k #[]) (nrm.getD k #[]) := by
  rw [← residual_is_linearised_distance dim hdim]
  simp only [Pi.sub_apply, Matrix.mulVec, dotProduct, Jlin, Ylin, rowA, rhsA]
  rw [sumTo_eq_sum_fin]
  congr 1
  exact Finset.sum_congr rfl fun c _ => by rw [vecOf_get]

/-- sum of squared point-to-plane distances of a candidate matrix -/
def cost (dim n : Nat) (src tgt nrm : Array (Pt ℝ)) (M : Mat ℝ) : ℝ :=
  ∑ k : Fin n, (planeDist dim M (src.getD k #[]) (tgt.getD k #[]) (nrm.getD k #[])) ^ 2

/-- **The returned small-motion transform minimises the sum of squared point-to-plane distances** among all
    matrices `identity + skew(ω) + translation` (Cartesian points, identity preconditioner). -/
theorem find_minimises_point_to_plane (env : Env ℝ) (dim : Nat) (hdim : dim = 2 ∨ dim = 3) (e : Estimator ℝ) (he : EWF dim e)
    (hA : toM (estSize dim) (estSize dim) e.ls.Ac = 1) (hB : toV (estSize dim) e.ls.Bc = 0)
    (src tgt nrm : Array (Pt ℝ)) (jJ : Nat → Nat → ℝ) (jY : Nat → ℝ)
    (hsvd : SVDAt env (stateAligned dim dim e src tgt nrm jJ jY)) (heps : 0 ≤ env.eps)
    (hcut : NoCut env (stateAligned dim dim e src tgt nrm jJ jY)) (x' : Fin (estSize dim) → ℝ) :
    cost dim src.size src tgt nrm (findAligned env dim dim e src tgt nrm jJ jY).2 ≤
      cost dim src.size src tgt nrm (scatter dim (vecOf x')) := by
  obtain ⟨_, hmin, hout, _⟩ := find_solves_linearised_problem env dim dim e he src tgt nrm src.size rfl jJ jY hsvd heps hcut
  rw [hout, hA, hB, Matrix.one_mulVec, add_zero]
  have hc : ∀ x : Fin (estSize dim) → ℝ, cost dim src.size src tgt nrm (scatter dim (vecOf x)) =
      C07.sq (Jlin dim src.size src nrm *ᵥ x - Ylin dim src.size src tgt nrm) := by
    intro x
    unfold cost C07.sq dotProduct
    exact Finset.sum_congr rfl fun k _ => by rw [← residual_vector dim hdim, pow_two]
  rw [hc, hc]
  exact hmin x'

/-- right-hand side of a pure translation: `T·n` -/
private theorem rhsOf_translation (dim size : Nat) (s t n : Pt ℝ) (T : Nat → ℝ)
    (hsz : size = dim ∨ (size = dim + 1 ∧ Vec.get t dim = Vec.get s dim))
    (ht : ∀ c < dim, Vec.get t c = Vec.get s c + T c) :
    rhsOf size s t n = sumTo dim fun c => T c * Vec.get n c := by
  have h0 : rhsOf dim s t n = sumTo dim fun c => T c * Vec.get n c := by
    unfold rhsOf
    exact sumTo_congr _ _ _ fun c hc => by rw [ht c hc]; ring
  rcases hsz with rfl | ⟨rfl, hw⟩
  · exact h0
  · rw [rhsOf_homogeneous dim s t n hw, h0]

/-- **A pure translation is recovered exactly.**  If every target point is its source point plus `T` (and the problem
    is full rank: SVD contract, no singular value cut — "the normals span the space"), `find` returns exactly
    `[[I, T], [0, 1]]`: zero rotation part, translation `T`. -/
theorem pure_translation_exact (env : Env ℝ) (dim size : Nat) (hdim : dim = 2 ∨ dim = 3) (e : Estimator ℝ) (he : EWF dim e)
    (hA : toM (estSize dim) (estSize dim) e.ls.Ac = 1) (hB : toV (estSize dim) e.ls.Bc = 0)
    (src tgt nrm : Array (Pt ℝ)) (T : Nat → ℝ)
    (hsz : size = dim ∨ (size = dim + 1 ∧ ∀ k < src.size, Vec.get (tgt.getD k #[]) dim = Vec.get (src.getD k #[]) dim))
    (ht : ∀ k < src.size, ∀ c < dim, Vec.get (tgt.getD k #[]) c = Vec.get (src.getD k #[]) c + T c)
    (jJ : Nat → Nat → ℝ) (jY : Nat → ℝ)
    (hsvd : SVDAt env (stateAligned dim size e src tgt nrm jJ jY)) (heps : 0 ≤ env.eps)
    (hcut : NoCut env (stateAligned dim size e src tgt nrm jJ jY)) :
    (findAligned env dim size e src tgt nrm jJ jY).2 =
      scatter dim (vecOf (e := estSize dim) fun i => if i.val < dim then T i.val else 0) := by
  obtain ⟨_, _, hout, _⟩ := find_solves_linearised_problem env dim size e he src tgt nrm src.size rfl jJ jY hsvd heps hcut
  have hfull := (estimateSVD_spec_dims env (stateAligned dim size e src tgt nrm jJ jY)
    (problemState_spec dim e he src.size _ _ jJ jY).2.1 (problemState_spec dim e he src.size _ _ jJ jY).1 hsvd heps hcut).2
  have hJ : toM src.size (estSize dim) (stateAligned dim size e src tgt nrm jJ jY).J = Jlin dim src.size src nrm := by
    funext k c; exact (problemState_spec dim e he src.size _ _ jJ jY).2.2.2.2.1 k k.isLt c c.isLt
  rw [hJ] at hfull
  rw [hout, hA, hB, Matrix.one_mulVec, add_zero]
  congr 2
  apply lsSolution_unique _ _ hfull
  -- the exact translation has zero residual
  have hzero : Jlin dim src.size src nrm *ᵥ (fun i : Fin (estSize dim) => if i.val < dim then T i.val else 0)
      - Ylin size src.size src tgt nrm = 0 := by
    funext k
    have hr := rhsOf_translation dim size (src.getD k #[]) (tgt.getD k #[]) (nrm.getD k #[]) T
      (hsz.imp id fun h => ⟨h.1, h.2 k k.isLt⟩) (ht k k.isLt)
    have hs := sumTo_eq_sum_fin (estSize dim)
      (fun c => Vec.get (rowOf dim (src.getD k #[]) (nrm.getD k #[])) c * (if c < dim then T c else 0))
    simp only [Pi.sub_apply, Pi.zero_apply, Matrix.mulVec, dotProduct, Jlin, Ylin, rowA, rhsA, hr]
    rw [← hs]
    rcases hdim with rfl | rfl
    · simp [estSize, rowOf, sumTo, Vec.get]
      ring
    · simp [estSize, rowOf, sumTo, Vec.get]
      ring
  rw [hzero, Matrix.mulVec_zero]

/-- **Rotation: error representation.**  For any reference parameters `x*` (e.g. the true motion `(T, θ·a)`), the
    returned parameters differ from `x*` by `(JᵀJ)⁻¹Jᵀ` applied to the linearisation residual `Y − J x*`, whose entries
    are bounded by `rotation_residual_2d` / `rotation_residual_3d` (second order in the angle).
    The full statement `‖x − x*‖ ≤ C·θ²` additionally needs a bound on `‖(JᵀJ)⁻¹Jᵀ‖ = 1/σ_min(J)`, which is a property of
    the point configuration and is not proved here (the probe checks it with `C = √n (1/2 + |θ|/6) max‖s‖ / σ_min(J)`). -/
theorem rotation_error_second_order_partial {n e : Nat} (J : Matrix (Fin n) (Fin e) ℝ) (Y : Fin n → ℝ)
    (hfull : IsUnit (Jᵀ * J).det) (xstar : Fin e → ℝ) :
    lsSolution J Y - xstar = (Jᵀ * J)⁻¹ *ᵥ (Jᵀ *ᵥ (Y - J *ᵥ xstar)) := by
  have h : (Jᵀ * J)⁻¹ *ᵥ (Jᵀ *ᵥ (J *ᵥ xstar)) = xstar := by
    rw [Matrix.mulVec_mulVec xstar Jᵀ J, Matrix.mulVec_mulVec xstar _ (Jᵀ * J), Matrix.nonsing_inv_mul _ hfull,
      Matrix.one_mulVec]
  rw [Matrix.mulVec_sub, Matrix.mulVec_sub, h]
  rfl

/-- **Rotation: norm bound of the error** (completes `rotation_error_second_order_partial`: the conditioning factor
    `‖(JᵀJ)⁻¹Jᵀ‖` is bounded by `1/σ`).  If `σ > 0` is a lower bound of the smallest singular value of `J`
    (`σ²‖v‖² ≤ ‖J v‖²` for every `v`) and every entry of the residual `Y − J x*` of the reference parameters is at most
    `ρ` in absolute value, the least-squares solution is within `√n·ρ/σ` of `x*` in the Euclidean norm.
    (`d = x − x*` solves the normal equations with right-hand side `r = Y − J x*`, so `‖J d‖ ≤ ‖r‖ ≤ √n ρ` and
    `σ‖d‖ ≤ ‖J d‖`.)  `0 ≤ ρ` need not be assumed: it follows from `hres` as soon as there is one row. -/
theorem rotation_error_norm_bound {n e : Nat} (J : Matrix (Fin n) (Fin e) ℝ) (Y : Fin n → ℝ)
    (hfull : IsUnit (Jᵀ * J).det) (xstar : Fin e → ℝ) (σ ρ : ℝ) (hσ : 0 < σ)
    (hmin : ∀ v : Fin e → ℝ, σ ^ 2 * (v ⬝ᵥ v) ≤ (J *ᵥ v) ⬝ᵥ (J *ᵥ v))
    (hres : ∀ k, |(Y - J *ᵥ xstar) k| ≤ ρ) :
    √((lsSolution J Y - xstar) ⬝ᵥ (lsSolution J Y - xstar)) ≤ √(n : ℝ) * ρ / σ := by
  have hne : Jᵀ *ᵥ (J *ᵥ (lsSolution J Y - xstar) - (Y - J *ᵥ xstar)) = 0 := by
    have h := lsSolution_normal_equations J Y hfull
    have e1 : J *ᵥ (lsSolution J Y - xstar) - (Y - J *ᵥ xstar) = J *ᵥ lsSolution J Y - Y := by
      rw [Matrix.mulVec_sub]; abel
    rw [e1, h]
  have h1 := ls_energy_le J (Y - J *ᵥ xstar) (lsSolution J Y - xstar) hne
  have h2 := dot_self_le_of_abs_le (Y - J *ᵥ xstar) ρ hres
  have h3 := hmin (lsSolution J Y - xstar)
  have hρ : n = 0 ∨ 0 ≤ ρ := by
    rcases Nat.eq_zero_or_pos n with h0 | h0
    · exact Or.inl h0
    · exact Or.inr ((abs_nonneg _).trans (hres ⟨0, h0⟩))
  exact sqrt_bound _ σ ρ n hσ (h3.trans (h1.trans h2)) hρ

/-- **A full-rank problem has a positive smallest singular value**: under the full-rank hypothesis of the solver
    (`JᵀJ` invertible) a `σ > 0` as required by `rotation_error_norm_bound` exists
    (explicitly `σ = 1/(‖(JᵀJ)⁻¹‖_F² ‖J‖_F² + 1)`). -/
theorem sigma_min_exists {n e : Nat} (J : Matrix (Fin n) (Fin e) ℝ) (hfull : IsUnit (Jᵀ * J).det) :
    ∃ σ : ℝ, 0 < σ ∧ ∀ v : Fin e → ℝ, σ ^ 2 * (v ⬝ᵥ v) ≤ (J *ᵥ v) ⬝ᵥ (J *ᵥ v) :=
  exists_sigma J hfull

/-- the true parameters `x* = (T, θ)` of a 2D rigid motion as a parameter vector -/
def trueParams2 (T0 T1 θ : ℝ) : Fin (estSize 2) → ℝ := fun c => Vec.get #[T0, T1, θ] c

/-- the true parameters `x* = (T, θ·a)` of a 3D rigid motion (axis `a`, angle `θ`) as a parameter vector -/
def trueParams3 (T a : Nat → ℝ) (θ : ℝ) : Fin (estSize 3) → ℝ :=
  fun c => Vec.get #[T 0, T 1, T 2, θ * a 0, θ * a 1, θ * a 2] c

private theorem residual_entry_2d (n : Nat) (src tgt nrm : Array (Pt ℝ)) (T0 T1 θ : ℝ) (k : Fin n) :
    (Ylin 2 n src tgt nrm - Jlin 2 n src nrm *ᵥ trueParams2 T0 T1 θ) k =
      -(sumTo 3 (fun c => Vec.get (rowOf 2 (src.getD k #[]) (nrm.getD k #[])) c * Vec.get #[T0, T1, θ] c)
        - rhsOf 2 (src.getD k #[]) (tgt.getD k #[]) (nrm.getD k #[])) := by
  rw [sumTo_eq_sum_fin, neg_sub]
  rfl

private theorem residual_entry_3d (n : Nat) (src tgt nrm : Array (Pt ℝ)) (T a : Nat → ℝ) (θ : ℝ) (k : Fin n) :
    (Ylin 3 n src tgt nrm - Jlin 3 n src nrm *ᵥ trueParams3 T a θ) k =
      -(sumTo 6 (fun c => Vec.get (rowOf 3 (src.getD k #[]) (nrm.getD k #[])) c *
            Vec.get #[T 0, T 1, T 2, θ * a 0, θ * a 1, θ * a 2] c)
        - rhsOf 3 (src.getD k #[]) (tgt.getD k #[]) (nrm.getD k #[])) := by
  rw [sumTo_eq_sum_fin, neg_sub]
  rfl

private theorem two_term_le (θ A B M₂ M₁ : ℝ) (hA : A ≤ M₂) (hB : B ≤ M₁) :
    θ ^ 2 / 2 * A + |θ| ^ 3 / 6 * B ≤ θ ^ 2 / 2 * M₂ + |θ| ^ 3 / 6 * M₁ :=
  add_le_add (mul_le_mul_of_nonneg_left hA (by positivity)) (mul_le_mul_of_nonneg_left hB (by positivity))

/-- **Rotation, 2D: the error of the returned parameters is second order in the angle** (completes
    `rotation_error_second_order_partial` for the estimator's own 2D problem).  Targets that are the EXACT rigid images
    `tₖ = R(θ)sₖ + T` of the sources (the hypotheses of `rotation_residual_2d`, for every row), full rank, `σ > 0` a lower
    bound of the smallest singular value of the design matrix, `M₂ ≥ |sₖ·nₖ|` and `M₁ ≥ |sₖ × nₖ|` for every row:
    the least-squares solution `x` of the linearised problem satisfies
    `‖x − (T, θ)‖ ≤ √n (θ²/2·M₂ + |θ|³/6·M₁)/σ`.  (The normals need not be unit vectors; for unit normals
    `M₂ = M₁ = max‖sₖ‖` works.) -/
theorem rotation_error_second_order_2d (n : Nat) (src tgt nrm : Array (Pt ℝ)) (θ T0 T1 σ M₂ M₁ : ℝ)
    (hfull : IsUnit ((Jlin 2 n src nrm)ᵀ * Jlin 2 n src nrm).det) (hσ : 0 < σ)
    (hmin : ∀ v : Fin (estSize 2) → ℝ, σ ^ 2 * (v ⬝ᵥ v) ≤ (Jlin 2 n src nrm *ᵥ v) ⬝ᵥ (Jlin 2 n src nrm *ᵥ v))
    (ht0 : ∀ k < n, Vec.get (tgt.getD k #[]) 0 =
      Real.cos θ * Vec.get (src.getD k #[]) 0 - Real.sin θ * Vec.get (src.getD k #[]) 1 + T0)
    (ht1 : ∀ k < n, Vec.get (tgt.getD k #[]) 1 =
      Real.sin θ * Vec.get (src.getD k #[]) 0 + Real.cos θ * Vec.get (src.getD k #[]) 1 + T1)
    (hM2 : ∀ k < n, |Vec.get (src.getD k #[]) 0 * Vec.get (nrm.getD k #[]) 0 +
      Vec.get (src.getD k #[]) 1 * Vec.get (nrm.getD k #[]) 1| ≤ M₂)
    (hM1 : ∀ k < n, |Vec.get (src.getD k #[]) 0 * Vec.get (nrm.getD k #[]) 1 -
      Vec.get (src.getD k #[]) 1 * Vec.get (nrm.getD k #[]) 0| ≤ M₁) :
    let x := lsSolution (Jlin 2 n src nrm) (Ylin 2 n src tgt nrm)
    √((x - trueParams2 T0 T1 θ) ⬝ᵥ (x - trueParams2 T0 T1 θ)) ≤
      √(n : ℝ) * (θ ^ 2 / 2 * M₂ + |θ| ^ 3 / 6 * M₁) / σ := by
  intro x
  apply rotation_error_norm_bound _ _ hfull _ σ _ hσ hmin
  intro k
  rw [residual_entry_2d, abs_neg]
  exact (rotation_residual_2d _ _ _ θ T0 T1 (ht0 k k.isLt) (ht1 k k.isLt)).2.trans
    (two_term_le θ _ _ M₂ M₁ (hM2 k k.isLt) (hM1 k k.isLt))

/-- **Rotation, 3D: the error of the returned parameters is second order in the angle** (completes
    `rotation_error_second_order_partial` for the estimator's own 3D problem).  Targets that are the EXACT images
    `tₖ = sₖ + sin θ (a × sₖ) + (1 − cos θ) a × (a × sₖ) + T` (Rodrigues' rotation by `θ` about the axis `a`; the
    hypothesis of `rotation_residual_3d`, for every row), full rank, `σ > 0` a lower bound of the smallest singular
    value of the design matrix, `M₂ ≥ |(a × (a × sₖ))·nₖ|` and `M₁ ≥ |(a × sₖ)·nₖ|` for every row: the least-squares
    solution `x` of the linearised problem satisfies `‖x − (T, θ·a)‖ ≤ √n (θ²/2·M₂ + |θ|³/6·M₁)/σ`.
    (Neither `‖a‖ = 1` nor `‖nₖ‖ = 1` is needed for the inequality; for unit `a`, `nₖ`: `M₂ = M₁ = max‖sₖ‖` works.) -/
theorem rotation_error_second_order_3d (n : Nat) (src tgt nrm : Array (Pt ℝ)) (θ : ℝ) (a T : Nat → ℝ) (σ M₂ M₁ : ℝ)
    (hfull : IsUnit ((Jlin 3 n src nrm)ᵀ * Jlin 3 n src nrm).det) (hσ : 0 < σ)
    (hmin : ∀ v : Fin (estSize 3) → ℝ, σ ^ 2 * (v ⬝ᵥ v) ≤ (Jlin 3 n src nrm *ᵥ v) ⬝ᵥ (Jlin 3 n src nrm *ᵥ v))
    (ht : ∀ k < n, ∀ i < 3, Vec.get (tgt.getD k #[]) i =
      Vec.get (src.getD k #[]) i + Real.sin θ * cross3 a (Vec.get (src.getD k #[])) i
        + (1 - Real.cos θ) * cross3 a (cross3 a (Vec.get (src.getD k #[]))) i + T i)
    (hM2 : ∀ k < n, |dot3 (cross3 a (cross3 a (Vec.get (src.getD k #[])))) (Vec.get (nrm.getD k #[]))| ≤ M₂)
    (hM1 : ∀ k < n, |dot3 (cross3 a (Vec.get (src.getD k #[]))) (Vec.get (nrm.getD k #[]))| ≤ M₁) :
    let x := lsSolution (Jlin 3 n src nrm) (Ylin 3 n src tgt nrm)
    √((x - trueParams3 T a θ) ⬝ᵥ (x - trueParams3 T a θ)) ≤
      √(n : ℝ) * (θ ^ 2 / 2 * M₂ + |θ| ^ 3 / 6 * M₁) / σ := by
  intro x
  apply rotation_error_norm_bound _ _ hfull _ σ _ hσ hmin
  intro k
  rw [residual_entry_3d, abs_neg]
  exact (rotation_residual_3d _ _ _ θ a T (ht k k.isLt)).2.trans
    (two_term_le θ _ _ M₂ M₁ (hM2 k k.isLt) (hM1 k k.isLt))

/-- for `|θ| ≤ 1` the explicit bound is at most `C·θ²` with `C = √n (M₂/2 + M₁/6)/σ` -/
private theorem bound_le_C_theta_sq (n : Nat) (θ σ M₂ M₁ : ℝ) (hσ : 0 < σ) (hθ : |θ| ≤ 1) (hM1 : 0 ≤ M₁) :
    √(n : ℝ) * (θ ^ 2 / 2 * M₂ + |θ| ^ 3 / 6 * M₁) / σ ≤ √(n : ℝ) * (M₂ / 2 + M₁ / 6) / σ * θ ^ 2 := by
  have h3 : |θ| ^ 3 ≤ θ ^ 2 := by
    have h0 := abs_nonneg θ
    have : |θ| ^ 3 = |θ| ^ 2 * |θ| := by ring
    rw [this, ← sq_abs θ]
    exact mul_le_of_le_one_right (sq_nonneg _) hθ
  have hs := Real.sqrt_nonneg (n : ℝ)
  have key : θ ^ 2 / 2 * M₂ + |θ| ^ 3 / 6 * M₁ ≤ (M₂ / 2 + M₁ / 6) * θ ^ 2 := by nlinarith
  calc √(n : ℝ) * (θ ^ 2 / 2 * M₂ + |θ| ^ 3 / 6 * M₁) / σ
      ≤ √(n : ℝ) * ((M₂ / 2 + M₁ / 6) * θ ^ 2) / σ :=
        div_le_div_of_nonneg_right (mul_le_mul_of_nonneg_left key hs) hσ.le
    _ = √(n : ℝ) * (M₂ / 2 + M₁ / 6) / σ * θ ^ 2 := by ring

/-- `M₁` bounds an absolute value as soon as there is a row; with no row the bound is `0` anyway -/
private theorem C_theta_sq_of_bound (n : Nat) (D θ σ M₂ M₁ : ℝ) (hσ : 0 < σ) (hθ : |θ| ≤ 1) (hM1 : n = 0 ∨ 0 ≤ M₁)
    (h : D ≤ √(n : ℝ) * (θ ^ 2 / 2 * M₂ + |θ| ^ 3 / 6 * M₁) / σ) :
    D ≤ √(n : ℝ) * (M₂ / 2 + M₁ / 6) / σ * θ ^ 2 := by
  rcases hM1 with rfl | hM1
  · simpa using h
  · exact h.trans (bound_le_C_theta_sq n θ σ M₂ M₁ hσ hθ hM1)

/-- **2D, `‖x − x*‖ ≤ C·θ²`** for `|θ| ≤ 1`, with the explicit constant `C = √n (M₂/2 + M₁/6)/σ`
    (same hypotheses as `rotation_error_second_order_2d`) -/
theorem rotation_error_second_order_2d_le_C_theta_sq (n : Nat) (src tgt nrm : Array (Pt ℝ)) (θ T0 T1 σ M₂ M₁ : ℝ)
    (hfull : IsUnit ((Jlin 2 n src nrm)ᵀ * Jlin 2 n src nrm).det) (hσ : 0 < σ)
    (hmin : ∀ v : Fin (estSize 2) → ℝ, σ ^ 2 * (v ⬝ᵥ v) ≤ (Jlin 2 n src nrm *ᵥ v) ⬝ᵥ (Jlin 2 n src nrm *ᵥ v))
    (ht0 : ∀ k < n, Vec.get (tgt.getD k #[]) 0 =
      Real.cos θ * Vec.get (src.getD k #[]) 0 - Real.sin θ * Vec.get (src.getD k #[]) 1 + T0)
    (ht1 : ∀ k < n, Vec.get (tgt.getD k #[]) 1 =
      Real.sin θ * Vec.get (src.getD k #[]) 0 + Real.cos θ * Vec.get (src.getD k #[]) 1 + T1)
    (hM2 : ∀ k < n, |Vec.get (src.getD k #[]) 0 * Vec.get (nrm.getD k #[]) 0 +
      Vec.get (src.getD k #[]) 1 * Vec.get (nrm.getD k #[]) 1| ≤ M₂)
    (hM1 : ∀ k < n, |Vec.get (src.getD k #[]) 0 * Vec.get (nrm.getD k #[]) 1 -
      Vec.get (src.getD k #[]) 1 * Vec.get (nrm.getD k #[]) 0| ≤ M₁)
    (hθ : |θ| ≤ 1) :
    let x := lsSolution (Jlin 2 n src nrm) (Ylin 2 n src tgt nrm)
    √((x - trueParams2 T0 T1 θ) ⬝ᵥ (x - trueParams2 T0 T1 θ)) ≤ √(n : ℝ) * (M₂ / 2 + M₁ / 6) / σ * θ ^ 2 := by
  intro x
  have hM : n = 0 ∨ 0 ≤ M₁ := by
    rcases Nat.eq_zero_or_pos n with h0 | h0
    · exact Or.inl h0
    · exact Or.inr ((abs_nonneg _).trans (hM1 0 h0))
  exact C_theta_sq_of_bound n _ θ σ M₂ M₁ hσ hθ hM
    (rotation_error_second_order_2d n src tgt nrm θ T0 T1 σ M₂ M₁ hfull hσ hmin ht0 ht1 hM2 hM1)

/-- **3D, `‖x − x*‖ ≤ C·θ²`** for `|θ| ≤ 1`, with the explicit constant `C = √n (M₂/2 + M₁/6)/σ`
    (same hypotheses as `rotation_error_second_order_3d`) -/
theorem rotation_error_second_order_3d_le_C_theta_sq (n : Nat) (src tgt nrm : Array (Pt ℝ)) (θ : ℝ) (a T : Nat → ℝ)
    (σ M₂ M₁ : ℝ)
    (hfull : IsUnit ((Jlin 3 n src nrm)ᵀ * Jlin 3 n src nrm).det) (hσ : 0 < σ)
    (hmin : ∀ v : Fin (estSize 3) → ℝ, σ ^ 2 * (v ⬝ᵥ v) ≤ (Jlin 3 n src nrm *ᵥ v) ⬝ᵥ (Jlin 3 n src nrm *ᵥ v))
    (ht : ∀ k < n, ∀ i < 3, Vec.get (tgt.getD k #[]) i =
      Vec.get (src.getD k #[]) i + Real.sin θ * cross3 a (Vec.get (src.getD k #[])) i
        + (1 - Real.cos θ) * cross3 a (cross3 a (Vec.get (src.getD k #[]))) i + T i)
    (hM2 : ∀ k < n, |dot3 (cross3 a (cross3 a (Vec.get (src.getD k #[])))) (Vec.get (nrm.getD k #[]))| ≤ M₂)
    (hM1 : ∀ k < n, |dot3 (cross3 a (Vec.get (src.getD k #[]))) (Vec.get (nrm.getD k #[]))| ≤ M₁)
    (hθ : |θ| ≤ 1) :
    let x := lsSolution (Jlin 3 n src nrm) (Ylin 3 n src tgt nrm)
    √((x - trueParams3 T a θ) ⬝ᵥ (x - trueParams3 T a θ)) ≤ √(n : ℝ) * (M₂ / 2 + M₁ / 6) / σ * θ ^ 2 := by
  intro x
  have hM : n = 0 ∨ 0 ≤ M₁ := by
    rcases Nat.eq_zero_or_pos n with h0 | h0
    · exact Or.inl h0
    · exact Or.inr ((abs_nonneg _).trans (hM1 0 h0))
  exact C_theta_sq_of_bound n _ θ σ M₂ M₁ hσ hθ hM
    (rotation_error_second_order_3d n src tgt nrm θ a T σ M₂ M₁ hfull hσ hmin ht hM2 hM1)

/-! ## Preconditioning -/

private theorem get_map_mul (p : Pt ℝ) (sc : ℝ) (c : Nat) : Vec.get (p.map fun v => v * sc) c = Vec.get p c * sc := by
  simp only [Vec.get, Array.getD_eq_getD_getElem?, Array.getElem?_map]
  cases p[c]? <;> simp

private theorem getD_map_map (a : Array (Pt ℝ)) (sc : ℝ) (k : Nat) :
    (a.map fun p => p.map fun v => v * sc).getD k #[] = (a.getD k #[]).map fun v => v * sc := by
  simp only [Array.getD_eq_getD_getElem?, Array.getElem?_map]
  cases a[k]? <;> simp

set_option linter.unnecessarySeqFocus false in
/-- scaling the source point multiplies the rotation columns of its row by the scale -/
theorem rowOf_scaled (dim : Nat) (hdim : dim = 2 ∨ dim = 3) (s n : Pt ℝ) (sc : ℝ) (c : Nat) (hc : c < estSize dim) :
    Vec.get (rowOf dim (s.map fun v => v * sc) n) c = Vec.get (rowOf dim s n) c * (if c < dim then 1 else sc) := by
  rcases hdim with rfl | rfl
  · have : c < 3 := hc
    interval_cases c <;> simp [rowOf, get_map_mul] <;> simp [Vec.get] <;> ring
  · have : c < 6 := hc
    interval_cases c <;> simp [rowOf, get_map_mul] <;> simp [Vec.get] <;> ring

/-- scaling source and target multiplies the right-hand side by the scale -/
theorem rhsOf_scaled (size : Nat) (s t n : Pt ℝ) (sc : ℝ) :
    rhsOf size (s.map fun v => v * sc) (t.map fun v => v * sc) n = sc * rhsOf size s t n := by
  unfold rhsOf
  induction size with
  | zero => simp [sumTo]
  | succ k ih =>
    simp only [sumTo]
    rw [ih]
    simp only [get_map_mul]
    ring

private theorem scaled_normal_equations {n e : Nat} (J J' : Matrix (Fin n) (Fin e) ℝ) (Y Y' : Fin n → ℝ) (m : Fin e → ℝ)
    (sc : ℝ) (hJ : ∀ k c, J' k c = J k c * m c) (hY : ∀ k, Y' k = sc * Y k) (x z : Fin e → ℝ)
    (hz : ∀ c, m c * z c = sc * x c) (hx : Jᵀ *ᵥ (J *ᵥ x - Y) = 0) : J'ᵀ *ᵥ (J' *ᵥ z - Y') = 0 := by
  have h1 : ∀ k, (J' *ᵥ z - Y') k = sc * (J *ᵥ x - Y) k := by
    intro k
    simp only [Pi.sub_apply, Matrix.mulVec, dotProduct, hJ, hY, mul_sub, Finset.mul_sum]
    congr 1
    exact Finset.sum_congr rfl fun c _ => by rw [mul_assoc, hz]; ring
  funext c
  have h2 : (Jᵀ *ᵥ (J *ᵥ x - Y)) c = 0 := by rw [hx]; rfl
  simp only [Matrix.mulVec, dotProduct, Matrix.transpose_apply, Pi.zero_apply] at h2 ⊢
  calc ∑ k, J' k c * (J' *ᵥ z - Y') k = (m c * sc) * ∑ k, J k c * (J *ᵥ x - Y) k := by
        rw [Finset.mul_sum]
        exact Finset.sum_congr rfl fun k _ => by rw [h1 k, hJ]; ring
    _ = 0 := by
        have : ∑ k, J k c * (J *ᵥ x - Y) k = 0 := h2
        rw [this, mul_zero]

/-- **Preconditioning does not change the answer.**  Configure the estimator with
    `setPreconditioner(P(source, scale), P(target, scale))` and call the `PreconditionedPointSet` overload on the scaled
    sets: the result is the one of the plain overload on the original points — for every non-zero scale, every
    estimator state, under the SVD contract (no cut) for both solves. -/
theorem precondition_invariant (env : Env ℝ) (dim size : Nat) (hdim : dim = 2 ∨ dim = 3) (e : Estimator ℝ) (he : EWF dim e)
    (hA : toM (estSize dim) (estSize dim) e.ls.Ac = 1) (hB : toV (estSize dim) e.ls.Bc = 0)
    (src tgt nrm : Array (Pt ℝ)) (sc : ℝ) (hsc : sc ≠ 0) (jJ jJ' : Nat → Nat → ℝ) (jY jY' : Nat → ℝ)
    (hsvd : SVDAt env (stateAligned dim size e src tgt nrm jJ jY)) (heps : 0 ≤ env.eps)
    (hcut : NoCut env (stateAligned dim size e src tgt nrm jJ jY))
    (hsvd' : SVDAt env (stateAligned dim size (PointToPlane.setPreconditioner dim e (precondition tgt sc))
      (precondition src sc).points (precondition tgt sc).points nrm jJ' jY'))
    (hcut' : NoCut env (stateAligned dim size (PointToPlane.setPreconditioner dim e (precondition tgt sc))
      (precondition src sc).points (precondition tgt sc).points nrm jJ' jY')) :
    (findAlignedPre env dim size (PointToPlane.setPreconditioner dim e (precondition tgt sc))
        (precondition src sc) (precondition tgt sc) nrm jJ' jY').2 =
      (findAligned env dim size e src tgt nrm jJ jY).2 := by
  set e₁ := PointToPlane.setPreconditioner dim e (precondition tgt sc) with he₁
  set src' := (precondition src sc).points with hsrc'
  set tgt' := (precondition tgt sc).points with htgt'
  have he1 : EWF dim e₁ := ewf_setPreconditioner dim e _ he
  have hn' : src'.size = src.size := by simp [hsrc', precondition]
  obtain ⟨hne, _, hout, _⟩ := find_solves_linearised_problem env dim size e he src tgt nrm src.size rfl jJ jY hsvd heps hcut
  obtain ⟨_, _, hout', _⟩ := find_solves_linearised_problem env dim size e₁ he1 src' tgt' nrm src.size hn' jJ' jY' hsvd' heps hcut'
  -- full rank of the scaled problem
  have hps := problemState_spec dim e₁ he1 src'.size (rowA dim src' nrm) (rhsA size src' tgt' nrm) jJ' jY'
  have hfull' := (estimateSVD_spec_dims env (stateAligned dim size e₁ src' tgt' nrm jJ' jY') (hps.2.1.trans hn') hps.1
    hsvd' heps hcut').2
  have hJs : toM src.size (estSize dim) (stateAligned dim size e₁ src' tgt' nrm jJ' jY').J = Jlin dim src.size src' nrm := by
    funext k c; exact hps.2.2.2.2.1 k (by rw [hn']; exact k.isLt) c c.isLt
  rw [hJs] at hfull'
  -- entries of the scaled problem
  have hJ' : ∀ k c, Jlin dim src.size src' nrm k c = Jlin dim src.size src nrm k c * (if c.val < dim then 1 else sc) := by
    intro k c
    simp only [Jlin, rowA, hsrc', precondition, getD_map_map]
    exact rowOf_scaled dim hdim _ _ sc c c.isLt
  have hY' : ∀ k, Ylin size src.size src' tgt' nrm k = sc * Ylin size src.size src tgt nrm k := by
    intro k
    simp only [Ylin, rhsA, hsrc', htgt', precondition, getD_map_map]
    exact rhsOf_scaled size _ _ _ sc
  -- the solution of the scaled problem
  set x := lsSolution (Jlin dim src.size src nrm) (Ylin size src.size src tgt nrm) with hx
  have hsol : lsSolution (Jlin dim src.size src' nrm) (Ylin size src.size src' tgt' nrm) =
      fun c => if c.val < dim then sc * x c else x c := by
    apply lsSolution_unique _ _ hfull'
    apply scaled_normal_equations _ _ _ _ (fun c => if c.val < dim then 1 else sc) sc hJ' hY' x _ _ hne
    intro c
    by_cases hc : c.val < dim <;> simp [hc]
  -- the configured preconditioner
  have hA1 : toM (estSize dim) (estSize dim) e₁.ls.Ac = Matrix.diagonal fun i => if i.val < dim then 1 / sc else 1 := by
    funext i j
    simp only [he₁, PointToPlane.setPreconditioner, LeastSquares.setPreconditioner, toM_apply,
      Mat.get_tab _ _ _ i.isLt j.isLt, precondition, Matrix.diagonal_apply, Fin.ext_iff, one_real, zero_real, one_mul]
    by_cases hij : i.val = j.val
    · by_cases hi : i.val < dim
      · have hj : j.val < dim := hij ▸ hi
        simp [hij, hj]
      · have hj : ¬ j.val < dim := hij ▸ hi
        simp [hij, hj]
    · by_cases hi : i.val < dim ∧ j.val < dim <;> simp [hij, hi]
  have hB1 : toV (estSize dim) e₁.ls.Bc = 0 := by
    funext i
    simp only [he₁, PointToPlane.setPreconditioner, LeastSquares.setPreconditioner, toV_apply, Pi.zero_apply]
    rw [Vec.get_tab _ _ (by rw [he.1]; exact i.isLt)]
    simp
  show (findAligned env dim size e₁ src' tgt' nrm jJ' jY').2 = _
  rw [hout', hout, hA, hB, hA1, hB1, hsol, Matrix.one_mulVec, add_zero, add_zero]
  congr 2
  funext i
  rw [Matrix.mulVec_diagonal]
  by_cases hi : i.val < dim
  · simp only [hi, if_true]; field_simp
  · simp only [hi, if_false, one_mul]

/-! ## No motion is too small: the exact clauses hold at every magnitude and every scale

The statements above carry no hypothesis on the SIZE of the motion, of the cloud or of the preconditioning scale.  The three
corollaries below spell out what that means for an implementation that stops early on an absolute threshold (a right-hand
side "small enough", a displacement "already aligned"): a pure translation `T`, however small in relation to the cloud, to
the scale or to any fixed constant, comes back in the translation column entry by entry — through the plain overload and,
for every non-zero scale, through the preconditioned one — so the identity is the answer only for `T = 0`. -/

/-- the translation column of the scattered solution holds the first `dim` parameters -/
theorem scatter_translation_column (dim : Nat) (hdim : dim = 2 ∨ dim = 3) (x : Vec ℝ) (c : Nat) (hc : c < dim) :
    Mat.get (scatter dim x) c dim = Vec.get x c := by
  rcases hdim with rfl | rfl
  · interval_cases c <;> rfl
  · interval_cases c <;> rfl

/-- **A pure translation of any size is returned entry by entry** (plain overload, any reachable estimator with the
    identity configuration): `M(c, dim) = T c`, so the result is the identity only if `T = 0`. -/
theorem translation_column_recovered (env : Env ℝ) (dim size : Nat) (hdim : dim = 2 ∨ dim = 3) (e : Estimator ℝ) (he : EWF dim e)
    (hA : toM (estSize dim) (estSize dim) e.ls.Ac = 1) (hB : toV (estSize dim) e.ls.Bc = 0)
    (src tgt nrm : Array (Pt ℝ)) (T : Nat → ℝ)
    (hsz : size = dim ∨ (size = dim + 1 ∧ ∀ k < src.size, Vec.get (tgt.getD k #[]) dim = Vec.get (src.getD k #[]) dim))
    (ht : ∀ k < src.size, ∀ c < dim, Vec.get (tgt.getD k #[]) c = Vec.get (src.getD k #[]) c + T c)
    (jJ : Nat → Nat → ℝ) (jY : Nat → ℝ)
    (hsvd : SVDAt env (stateAligned dim size e src tgt nrm jJ jY)) (heps : 0 ≤ env.eps)
    (hcut : NoCut env (stateAligned dim size e src tgt nrm jJ jY)) :
    (∀ c < dim, Mat.get (findAligned env dim size e src tgt nrm jJ jY).2 c dim = T c) ∧
    ((findAligned env dim size e src tgt nrm jJ jY).2 = scatter dim (vecOf (e := estSize dim) fun _ => 0) →
      ∀ c < dim, T c = 0) := by
  have hmain := pure_translation_exact env dim size hdim e he hA hB src tgt nrm T hsz ht jJ jY hsvd heps hcut
  have hlt : ∀ c < dim, c < estSize dim := by
    intro c hc; rcases hdim with rfl | rfl <;> simp [estSize] <;> omega
  have hcol : ∀ c < dim, Mat.get (findAligned env dim size e src tgt nrm jJ jY).2 c dim = T c := by
    intro c hc
    rw [hmain, scatter_translation_column dim hdim _ c hc, vecOf_get _ ⟨c, hlt c hc⟩]
    simp [hc]
  refine ⟨hcol, fun hid c hc => ?_⟩
  have h1 := hcol c hc
  rw [hid, scatter_translation_column dim hdim _ c hc, vecOf_get _ ⟨c, hlt c hc⟩] at h1
  exact h1.symm

/-- **… and through the preconditioned overload at every non-zero scale**: configure the estimator with the scaled sets,
    hand the scaled sets over — the result is `[[I, T], [0, 1]]` with the translation `T` in the ORIGINAL units, exactly. -/
theorem pure_translation_exact_preconditioned (env : Env ℝ) (dim size : Nat) (hdim : dim = 2 ∨ dim = 3) (e : Estimator ℝ)
    (he : EWF dim e) (hA : toM (estSize dim) (estSize dim) e.ls.Ac = 1) (hB : toV (estSize dim) e.ls.Bc = 0)
    (src tgt nrm : Array (Pt ℝ)) (T : Nat → ℝ) (sc : ℝ) (hsc : sc ≠ 0)
    (hsz : size = dim ∨ (size = dim + 1 ∧ ∀ k < src.size, Vec.get (tgt.getD k #[]) dim = Vec.get (src.getD k #[]) dim))
    (ht : ∀ k < src.size, ∀ c < dim, Vec.get (tgt.getD k #[]) c = Vec.get (src.getD k #[]) c + T c)
    (jJ jJ' : Nat → Nat → ℝ) (jY jY' : Nat → ℝ)
    (hsvd : SVDAt env (stateAligned dim size e src tgt nrm jJ jY)) (heps : 0 ≤ env.eps)
    (hcut : NoCut env (stateAligned dim size e src tgt nrm jJ jY))
    (hsvd' : SVDAt env (stateAligned dim size (PointToPlane.setPreconditioner dim e (precondition tgt sc))
      (precondition src sc).points (precondition tgt sc).points nrm jJ' jY'))
    (hcut' : NoCut env (stateAligned dim size (PointToPlane.setPreconditioner dim e (precondition tgt sc))
      (precondition src sc).points (precondition tgt sc).points nrm jJ' jY')) :
    (findAlignedPre env dim size (PointToPlane.setPreconditioner dim e (precondition tgt sc))
        (precondition src sc) (precondition tgt sc) nrm jJ' jY').2 =
      scatter dim (vecOf (e := estSize dim) fun i => if i.val < dim then T i.val else 0) := by
  rw [precondition_invariant env dim size hdim e he hA hB src tgt nrm sc hsc jJ jJ' jY jY' hsvd heps hcut hsvd' hcut']
  exact pure_translation_exact env dim size hdim e he hA hB src tgt nrm T hsz ht jJ jY hsvd heps hcut

/-! ## Non-vacuity: a concrete 2D problem meets the hypotheses of the theorems above -/

/-- four correspondences whose rows are `[1,0,0], [0,1,0], [0,1,1], [0,-1,1]` (normal matrix `diag(1,3,2)`);
    the targets are the sources translated by `(1/2, 1/4)` -/
noncomputable def exSrc : Array (Pt ℝ) := #[#[0, 0], #[0, 0], #[1, 0], #[-1, 0]]
noncomputable def exNrm : Array (Pt ℝ) := #[#[1, 0], #[0, 1], #[0, 1], #[0, -1]]
noncomputable def exTgt : Array (Pt ℝ) := #[#[1/2, 1/4], #[1/2, 1/4], #[3/2, 1/4], #[-1/2, 1/4]]
/-- an SVD routine that answers `diag(1,3,2)` correctly -/
noncomputable def exEnv5 : Env ℝ :=
  { eps := 1 / 10, svd := fun _ _ => ⟨identity 3, #[1, 3, 2], identity 3⟩, ldltInv := fun _ A => A }
/-- the solver object inside `find` on a freshly constructed estimator -/
noncomputable def exS : State ℝ := stateAligned 2 2 (init 2) exSrc exTgt exNrm (fun _ _ => 7) (fun _ => 7)

theorem exS_J : JM exS = (!![1, 0, 0 * 0 - 0 * 1; 0, 1, 0 * 1 - 0 * 0; 0, 1, 1 * 1 - 0 * 0; 0, -1, -1 * -1 - 0 * 0] :
    Matrix (Fin 4) (Fin 3) ℝ) := by
  funext i j
  fin_cases i <;> fin_cases j <;> rfl

private theorem ex_translation_hyps : EWF 2 (init 2 : Estimator ℝ) ∧
    toM (estSize 2) (estSize 2) (init 2 : Estimator ℝ).ls.Ac = 1 ∧ toV (estSize 2) (init 2 : Estimator ℝ).ls.Bc = 0 ∧
    SVDAt exEnv5 exS ∧ NoCut exEnv5 exS ∧ 0 ≤ exEnv5.eps ∧
    (∀ k < exSrc.size, ∀ c < 2, Vec.get (exTgt.getD k #[]) c = Vec.get (exSrc.getD k #[]) c + (if c = 0 then 1 / 2 else 1 / 4)) := by
  refine ⟨ewf_init 2, toM_identity 3, ?_, ⟨?_, ?_, ?_, ?_⟩, ?_, by norm_num [exEnv5], ?_⟩
  · funext i
    show Vec.get (Vec.tab 3 fun _ => LeastSquares.zero) i = 0
    rw [Vec.get_tab _ _ (show i.val < 3 from i.isLt)]; simp
  · show (toM 3 3 (identity 3))ᵀ * toM 3 3 (identity 3) = 1
    rw [toM_identity]; simp
  · show (toM 3 3 (identity 3))ᵀ * toM 3 3 (identity 3) = 1
    rw [toM_identity]; simp
  · intro i
    have h3 : ∀ j < 3, (0 : ℝ) ≤ Vec.get #[1, 3, 2] j := by
      intro j hj; interval_cases j <;> norm_num [Vec.get]
    exact h3 _ (show i.val < 3 from i.isLt)
  · have h := toM_computeJtJ exS
    rw [exS_J] at h
    have h2 : toM 3 3 (computeJtJ exS) =
        ((!![1, 0, 0 * 0 - 0 * 1; 0, 1, 0 * 1 - 0 * 0; 0, 1, 1 * 1 - 0 * 0; 0, -1, -1 * -1 - 0 * 0] : Matrix (Fin 4) (Fin 3) ℝ)ᵀ *
          (!![1, 0, 0 * 0 - 0 * 1; 0, 1, 0 * 1 - 0 * 0; 0, 1, 1 * 1 - 0 * 0; 0, -1, -1 * -1 - 0 * 0] : Matrix (Fin 4) (Fin 3) ℝ)) := h
    have hS : toV 3 #[(1 : ℝ), 3, 2] = ![1, 3, 2] := by funext i; fin_cases i <;> rfl
    have key : ((!![1, 0, 0 * 0 - 0 * 1; 0, 1, 0 * 1 - 0 * 0; 0, 1, 1 * 1 - 0 * 0; 0, -1, -1 * -1 - 0 * 0] : Matrix (Fin 4) (Fin 3) ℝ)ᵀ *
          (!![1, 0, 0 * 0 - 0 * 1; 0, 1, 0 * 1 - 0 * 0; 0, 1, 1 * 1 - 0 * 0; 0, -1, -1 * -1 - 0 * 0] : Matrix (Fin 4) (Fin 3) ℝ)) =
        1 * Matrix.diagonal ![1, 3, 2] * (1 : Matrix (Fin 3) (Fin 3) ℝ)ᵀ := by
      rw [Matrix.one_mul, Matrix.transpose_one, Matrix.mul_one]
      ext i j
      fin_cases i <;> fin_cases j <;> norm_num [Matrix.mul_apply, Fin.sum_univ_succ, Matrix.diagonal_apply]
    show toM 3 3 (computeJtJ exS) = toM 3 3 (identity 3) * Matrix.diagonal (toV 3 #[1, 3, 2]) * (toM 3 3 (identity 3))ᵀ
    rw [h2, toM_identity, hS, key]
  · intro i
    have h3 : ∀ j < 3, (1 / 10 : ℝ) < Vec.get #[1, 3, 2] j := by
      intro j hj; interval_cases j <;> norm_num [Vec.get]
    exact h3 _ (show i.val < 3 from i.isLt)
  · intro k hk c hc
    have hk' : k < 4 := hk
    interval_cases k <;> interval_cases c <;> norm_num [exSrc, exTgt, Vec.get]

/-- the hypotheses of `pure_translation_exact` / `translation_column_recovered` are met by this problem … -/
example : EWF 2 (init 2 : Estimator ℝ) ∧ SVDAt exEnv5 exS ∧ NoCut exEnv5 exS :=
  ⟨ex_translation_hyps.1, ex_translation_hyps.2.2.2.1, ex_translation_hyps.2.2.2.2.1⟩

/-- … and `translation_column_recovered` then reads the translation `(1/2, 1/4)` off the returned matrix -/
example : Mat.get (findAligned exEnv5 2 2 (init 2) exSrc exTgt exNrm (fun _ _ => 7) (fun _ => 7)).2 0 2 = 1 / 2 ∧
    Mat.get (findAligned exEnv5 2 2 (init 2) exSrc exTgt exNrm (fun _ _ => 7) (fun _ => 7)).2 1 2 = 1 / 4 := by
  obtain ⟨h1, h2, h3, h4, h5, h6, h7⟩ := ex_translation_hyps
  have h := (translation_column_recovered exEnv5 2 2 (Or.inl rfl) (init 2) h1 h2 h3 exSrc exTgt exNrm
    (fun c => if c = 0 then 1 / 2 else 1 / 4) (Or.inl rfl) h7 (fun _ _ => 7) (fun _ => 7) h4 h6 h5).1
  exact ⟨by simpa using h 0 (by norm_num), by simpa using h 1 (by norm_num)⟩

/-- the same problem handed over through a preconditioner of scale 2: the rotation column doubles, the normal matrix
    becomes `diag(1,3,8)`; an SVD routine that answers that correctly -/
noncomputable def exEnv5p : Env ℝ :=
  { eps := 1 / 10, svd := fun _ _ => ⟨identity 3, #[1, 3, 8], identity 3⟩, ldltInv := fun _ A => A }
noncomputable def exSrcP : Array (Pt ℝ) := #[#[0 * 2, 0 * 2], #[0 * 2, 0 * 2], #[1 * 2, 0 * 2], #[-1 * 2, 0 * 2]]
noncomputable def exTgtP : Array (Pt ℝ) := #[#[1/2 * 2, 1/4 * 2], #[1/2 * 2, 1/4 * 2], #[3/2 * 2, 1/4 * 2], #[-1/2 * 2, 1/4 * 2]]
private theorem exSrcP_eq : (precondition exSrc 2).points = exSrcP := by simp [precondition, exSrc, exSrcP]
private theorem exTgtP_eq : (precondition exTgt 2).points = exTgtP := by simp [precondition, exTgt, exTgtP]
noncomputable def exSp : State ℝ :=
  stateAligned 2 2 (PointToPlane.setPreconditioner 2 (init 2) (precondition exTgt 2)) exSrcP exTgtP exNrm (fun _ _ => 7) (fun _ => 7)

private theorem exSp_J : JM exSp = (!![1, 0, 0 * 2 * 0 - 0 * 2 * 1; 0, 1, 0 * 2 * 1 - 0 * 2 * 0; 0, 1, 1 * 2 * 1 - 0 * 2 * 0;
    0, -1, -1 * 2 * -1 - 0 * 2 * 0] : Matrix (Fin 4) (Fin 3) ℝ) := by
  funext i j
  fin_cases i <;> fin_cases j <;> rfl

/-- the additional hypotheses of `precondition_invariant` / `pure_translation_exact_preconditioned` (scale 2 ≠ 0, SVD contract
    and no cut on the scaled problem) are met -/
example : (2 : ℝ) ≠ 0 ∧
    SVDAt exEnv5p (stateAligned 2 2 (PointToPlane.setPreconditioner 2 (init 2) (precondition exTgt 2))
      (precondition exSrc 2).points (precondition exTgt 2).points exNrm (fun _ _ => 7) (fun _ => 7)) ∧
    NoCut exEnv5p (stateAligned 2 2 (PointToPlane.setPreconditioner 2 (init 2) (precondition exTgt 2))
      (precondition exSrc 2).points (precondition exTgt 2).points exNrm (fun _ _ => 7) (fun _ => 7)) := by
  rw [exSrcP_eq, exTgtP_eq]
  show (2 : ℝ) ≠ 0 ∧ SVDAt exEnv5p exSp ∧ NoCut exEnv5p exSp
  refine ⟨by norm_num, ⟨?_, ?_, ?_, ?_⟩, ?_⟩
  · show (toM 3 3 (identity 3))ᵀ * toM 3 3 (identity 3) = 1
    rw [toM_identity]; simp
  · show (toM 3 3 (identity 3))ᵀ * toM 3 3 (identity 3) = 1
    rw [toM_identity]; simp
  · intro i
    have h3 : ∀ j < 3, (0 : ℝ) ≤ Vec.get #[1, 3, 8] j := by
      intro j hj; interval_cases j <;> norm_num [Vec.get]
    exact h3 _ (show i.val < 3 from i.isLt)
  · have h := toM_computeJtJ exSp
    rw [exSp_J] at h
    have hS : toV 3 #[(1 : ℝ), 3, 8] = ![1, 3, 8] := by funext i; fin_cases i <;> rfl
    have key : ((!![1, 0, 0 * 2 * 0 - 0 * 2 * 1; 0, 1, 0 * 2 * 1 - 0 * 2 * 0; 0, 1, 1 * 2 * 1 - 0 * 2 * 0;
          0, -1, -1 * 2 * -1 - 0 * 2 * 0] : Matrix (Fin 4) (Fin 3) ℝ)ᵀ *
          (!![1, 0, 0 * 2 * 0 - 0 * 2 * 1; 0, 1, 0 * 2 * 1 - 0 * 2 * 0; 0, 1, 1 * 2 * 1 - 0 * 2 * 0;
          0, -1, -1 * 2 * -1 - 0 * 2 * 0] : Matrix (Fin 4) (Fin 3) ℝ)) =
        1 * Matrix.diagonal ![1, 3, 8] * (1 : Matrix (Fin 3) (Fin 3) ℝ)ᵀ := by
      rw [Matrix.one_mul, Matrix.transpose_one, Matrix.mul_one]
      ext i j
      fin_cases i <;> fin_cases j <;> norm_num [Matrix.mul_apply, Fin.sum_univ_succ, Matrix.diagonal_apply]
    show toM 3 3 (computeJtJ exSp) = toM 3 3 (identity 3) * Matrix.diagonal (toV 3 #[1, 3, 8]) * (toM 3 3 (identity 3))ᵀ
    have h2 : toM 3 3 (computeJtJ exSp) = (!![1, 0, 0 * 2 * 0 - 0 * 2 * 1; 0, 1, 0 * 2 * 1 - 0 * 2 * 0; 0, 1, 1 * 2 * 1 - 0 * 2 * 0;
          0, -1, -1 * 2 * -1 - 0 * 2 * 0] : Matrix (Fin 4) (Fin 3) ℝ)ᵀ * (!![1, 0, 0 * 2 * 0 - 0 * 2 * 1; 0, 1, 0 * 2 * 1 - 0 * 2 * 0; 0, 1, 1 * 2 * 1 - 0 * 2 * 0;
          0, -1, -1 * 2 * -1 - 0 * 2 * 0] : Matrix (Fin 4) (Fin 3) ℝ) := h
    rw [h2, toM_identity, hS, key]
  · intro i
    have h3 : ∀ j < 3, (1 / 10 : ℝ) < Vec.get #[1, 3, 8] j := by
      intro j hj; interval_cases j <;> norm_num [Vec.get]
    exact h3 _ (show i.val < 3 from i.isLt)

/-- `scatter_translation_column` on a 3D parameter vector with a tiny translation -/
example : Mat.get (scatter 3 (#[1 / 1000000000, 0, -1 / 1000000000, 0, 0, 0] : Vec ℝ)) 2 3 = -1 / 1000000000 := by
  rw [scatter_translation_column 3 (Or.inr rfl) _ 2 (by norm_num)]; rfl

/-- the trigonometric bound at a non-trivial angle -/
example : |(1 / 10 : ℝ) - Real.sin (1 / 10)| ≤ |(1 / 10 : ℝ)| ^ 3 / 6 := (trig_bounds (1 / 10)).2.2

/-! ### Non-vacuity of the rotation error bounds -/

/-- the design matrix of the 2D example problem -/
private noncomputable def exM2 : Matrix (Fin 4) (Fin 3) ℝ := !![1, 0, 0; 0, 1, 0; 0, 1, 1; 0, -1, 1]

private theorem exJ2 : Jlin 2 4 exSrc exNrm = exM2 := by
  have h : ∀ (i : Fin 4) (j : Fin 3), Jlin 2 4 exSrc exNrm i j = exM2 i j := by
    intro i j
    fin_cases i <;> fin_cases j <;> simp [Jlin, rowA, rowOf, exSrc, exNrm, Vec.get, exM2]
  funext i j
  exact h i j

private theorem exM2_full : IsUnit (exM2ᵀ * exM2).det := by
  have key : exM2ᵀ * exM2 = Matrix.diagonal (![1, 3, 2] : Fin 3 → ℝ) := by
    ext i j
    fin_cases i <;> fin_cases j <;> norm_num [exM2, Matrix.mul_apply, Fin.sum_univ_succ, Matrix.diagonal_apply]
  rw [key, Matrix.det_diagonal]
  norm_num [Fin.prod_univ_succ]

private theorem exM2_mulVec (v : Fin 3 → ℝ) : exM2 *ᵥ v = ![v 0, v 1, v 1 + v 2, -v 1 + v 2] := by
  funext i
  fin_cases i <;> simp [exM2, Matrix.mulVec, dotProduct, Fin.sum_univ_succ]

private theorem exM2_sigma (v : Fin 3 → ℝ) : (1 : ℝ) ^ 2 * (v ⬝ᵥ v) ≤ (exM2 *ᵥ v) ⬝ᵥ (exM2 *ᵥ v) := by
  rw [exM2_mulVec]
  simp only [dotProduct, Fin.sum_univ_succ, Fin.sum_univ_zero]
  simp
  nlinarith [sq_nonneg (v 0), sq_nonneg (v 1), sq_nonneg (v 2)]

private theorem exJ2_full : IsUnit ((Jlin 2 4 exSrc exNrm)ᵀ * Jlin 2 4 exSrc exNrm).det := by
  rw [exJ2]; exact exM2_full

private theorem exJ2_sigma (v : Fin (estSize 2) → ℝ) :
    (1 : ℝ) ^ 2 * (v ⬝ᵥ v) ≤ (Jlin 2 4 exSrc exNrm *ᵥ v) ⬝ᵥ (Jlin 2 4 exSrc exNrm *ᵥ v) := by
  rw [exJ2]; exact exM2_sigma v

/-- `rotation_error_norm_bound` / `sigma_min_exists`: the 2D example design matrix (normal matrix `diag(1,3,2)`, so
    `σ = 1`), right-hand side `(1,2,3,4)`, reference parameters `(1,2,0)` with residual `(0,0,1,6)`, `ρ = 6` -/
example : IsUnit ((Jlin 2 4 exSrc exNrm)ᵀ * Jlin 2 4 exSrc exNrm).det ∧ (0 : ℝ) < 1 ∧
    (∀ v : Fin (estSize 2) → ℝ, (1 : ℝ) ^ 2 * (v ⬝ᵥ v) ≤ (Jlin 2 4 exSrc exNrm *ᵥ v) ⬝ᵥ (Jlin 2 4 exSrc exNrm *ᵥ v)) ∧
    (∀ k, |((![1, 2, 3, 4] : Fin 4 → ℝ) - Jlin 2 4 exSrc exNrm *ᵥ (![1, 2, 0] : Fin 3 → ℝ)) k| ≤ 6) := by
  refine ⟨exJ2_full, one_pos, exJ2_sigma, ?_⟩
  intro k
  have h : Jlin 2 4 exSrc exNrm *ᵥ (![1, 2, 0] : Fin 3 → ℝ) = ![1, 2, 2 + 0, -2 + 0] := by
    rw [exJ2]; exact exM2_mulVec _
  rw [h]
  fin_cases k <;> norm_num

/-- the sources `exSrc` rotated by `θ` about the origin and translated by `(1/2, 1/4)` -/
noncomputable def exTgtRot (θ : ℝ) : Array (Pt ℝ) :=
  #[#[1/2, 1/4], #[1/2, 1/4], #[Real.cos θ + 1/2, Real.sin θ + 1/4], #[-Real.cos θ + 1/2, -Real.sin θ + 1/4]]

/-- `rotation_error_second_order_2d` (and `…_le_C_theta_sq`): the 2D example problem with targets rotated by
    `θ = 1/10` and translated by `(1/2, 1/4)`, `σ = 1`, `M₂ = M₁ = 1` -/
example : IsUnit ((Jlin 2 4 exSrc exNrm)ᵀ * Jlin 2 4 exSrc exNrm).det ∧ (0 : ℝ) < 1 ∧
    (∀ v : Fin (estSize 2) → ℝ, (1 : ℝ) ^ 2 * (v ⬝ᵥ v) ≤ (Jlin 2 4 exSrc exNrm *ᵥ v) ⬝ᵥ (Jlin 2 4 exSrc exNrm *ᵥ v)) ∧
    (∀ k < 4, Vec.get ((exTgtRot (1/10)).getD k #[]) 0 =
      Real.cos (1/10) * Vec.get (exSrc.getD k #[]) 0 - Real.sin (1/10) * Vec.get (exSrc.getD k #[]) 1 + 1/2) ∧
    (∀ k < 4, Vec.get ((exTgtRot (1/10)).getD k #[]) 1 =
      Real.sin (1/10) * Vec.get (exSrc.getD k #[]) 0 + Real.cos (1/10) * Vec.get (exSrc.getD k #[]) 1 + 1/4) ∧
    (∀ k < 4, |Vec.get (exSrc.getD k #[]) 0 * Vec.get (exNrm.getD k #[]) 0 +
      Vec.get (exSrc.getD k #[]) 1 * Vec.get (exNrm.getD k #[]) 1| ≤ 1) ∧
    (∀ k < 4, |Vec.get (exSrc.getD k #[]) 0 * Vec.get (exNrm.getD k #[]) 1 -
      Vec.get (exSrc.getD k #[]) 1 * Vec.get (exNrm.getD k #[]) 0| ≤ 1) ∧ |(1 / 10 : ℝ)| ≤ 1 := by
  refine ⟨exJ2_full, one_pos, exJ2_sigma, ?_, ?_, ?_, ?_, ?_⟩
  · intro k hk
    interval_cases k <;> simp [exSrc, exTgtRot, Vec.get]
  · intro k hk
    interval_cases k <;> simp [exSrc, exTgtRot, Vec.get]
  · intro k hk
    interval_cases k <;> norm_num [exSrc, exNrm, Vec.get]
  · intro k hk
    interval_cases k <;> norm_num [exSrc, exNrm, Vec.get]
  · rw [abs_of_pos] <;> norm_num

/-- a 3D problem with six correspondences: three at the origin with normals `e₁, e₂, e₃`, and
    `(s, n) = (e₂, e₃), (e₃, e₁), (e₁, e₂)` whose rows are `[e₃, e₁], [e₁, e₂], [e₂, e₃]` -/
noncomputable def exSrc3 : Array (Pt ℝ) := #[#[0, 0, 0], #[0, 0, 0], #[0, 0, 0], #[0, 1, 0], #[0, 0, 1], #[1, 0, 0]]
noncomputable def exNrm3 : Array (Pt ℝ) := #[#[1, 0, 0], #[0, 1, 0], #[0, 0, 1], #[0, 0, 1], #[1, 0, 0], #[0, 1, 0]]
/-- rotation axis `e₃` and translation `(1/2, 1/4, 1/8)` -/
noncomputable def exAxis : Nat → ℝ := fun i => if i = 2 then 1 else 0
noncomputable def exT3 : Nat → ℝ := fun i => if i = 0 then 1/2 else if i = 1 then 1/4 else 1/8
/-- the sources `exSrc3` rotated by `θ` about the axis `e₃` and translated by `(1/2, 1/4, 1/8)` -/
noncomputable def exTgt3 (θ : ℝ) : Array (Pt ℝ) :=
  #[#[1/2, 1/4, 1/8], #[1/2, 1/4, 1/8], #[1/2, 1/4, 1/8], #[-Real.sin θ + 1/2, Real.cos θ + 1/4, 1/8],
    #[1/2, 1/4, 1 + 1/8], #[Real.cos θ + 1/2, Real.sin θ + 1/4, 1/8]]

private noncomputable def exM3 : Matrix (Fin 6) (Fin 6) ℝ :=
  !![1, 0, 0, 0, 0, 0; 0, 1, 0, 0, 0, 0; 0, 0, 1, 0, 0, 0; 0, 0, 1, 1, 0, 0; 1, 0, 0, 0, 1, 0; 0, 1, 0, 0, 0, 1]

private theorem exJ3 : Jlin 3 6 exSrc3 exNrm3 = exM3 := by
  have h : ∀ (i : Fin 6) (j : Fin 6), Jlin 3 6 exSrc3 exNrm3 i j = exM3 i j := by
    intro i j
    fin_cases i <;> fin_cases j <;> simp [Jlin, rowA, rowOf, exSrc3, exNrm3, Vec.get, exM3]
  funext i j
  exact h i j

private theorem exM3_full : IsUnit (exM3ᵀ * exM3).det := by
  have htri : exM3.IsLowerTriangular := by
    intro i j hij
    have hij' : i < j := hij
    fin_cases i <;> fin_cases j <;> first | (exfalso; revert hij'; decide) | simp [exM3]
  have hdet : exM3.det = 1 := by
    rw [Matrix.det_of_isLowerTriangular exM3 htri]
    simp [Fin.prod_univ_succ, exM3]
  rw [Matrix.det_mul, Matrix.det_transpose, hdet]
  simp

private theorem exM3_mulVec (v : Fin 6 → ℝ) : exM3 *ᵥ v = ![v 0, v 1, v 2, v 2 + v 3, v 0 + v 4, v 1 + v 5] := by
  funext i
  fin_cases i <;> simp [exM3, Matrix.mulVec, dotProduct, Fin.sum_univ_succ]

private theorem exM3_sigma (v : Fin 6 → ℝ) : (1 / 2 : ℝ) ^ 2 * (v ⬝ᵥ v) ≤ (exM3 *ᵥ v) ⬝ᵥ (exM3 *ᵥ v) := by
  rw [exM3_mulVec]
  simp only [dotProduct, Fin.sum_univ_succ, Fin.sum_univ_zero]
  simp
  nlinarith [sq_nonneg (v 3 + 4 / 3 * v 2), sq_nonneg (v 4 + 4 / 3 * v 0), sq_nonneg (v 5 + 4 / 3 * v 1),
    sq_nonneg (v 0), sq_nonneg (v 1), sq_nonneg (v 2)]

/-- `rotation_error_second_order_3d` (and `…_le_C_theta_sq`, `sigma_min_exists`): the 3D example problem with targets
    rotated by `θ = 1/10` about `e₃` and translated by `(1/2, 1/4, 1/8)`, `σ = 1/2`, `M₂ = M₁ = 1` -/
example : IsUnit ((Jlin 3 6 exSrc3 exNrm3)ᵀ * Jlin 3 6 exSrc3 exNrm3).det ∧ (0 : ℝ) < 1 / 2 ∧
    (∀ v : Fin (estSize 3) → ℝ,
      (1 / 2 : ℝ) ^ 2 * (v ⬝ᵥ v) ≤ (Jlin 3 6 exSrc3 exNrm3 *ᵥ v) ⬝ᵥ (Jlin 3 6 exSrc3 exNrm3 *ᵥ v)) ∧
    (∀ k < 6, ∀ i < 3, Vec.get ((exTgt3 (1/10)).getD k #[]) i =
      Vec.get (exSrc3.getD k #[]) i + Real.sin (1/10) * cross3 exAxis (Vec.get (exSrc3.getD k #[])) i
        + (1 - Real.cos (1/10)) * cross3 exAxis (cross3 exAxis (Vec.get (exSrc3.getD k #[]))) i + exT3 i) ∧
    (∀ k < 6, |dot3 (cross3 exAxis (cross3 exAxis (Vec.get (exSrc3.getD k #[])))) (Vec.get (exNrm3.getD k #[]))| ≤ 1) ∧
    (∀ k < 6, |dot3 (cross3 exAxis (Vec.get (exSrc3.getD k #[]))) (Vec.get (exNrm3.getD k #[]))| ≤ 1) ∧
    |(1 / 10 : ℝ)| ≤ 1 := by
  refine ⟨?_, by norm_num, ?_, ?_, ?_, ?_, ?_⟩
  · rw [exJ3]; exact exM3_full
  · intro v
    rw [exJ3]; exact exM3_sigma v
  · intro k hk i hi
    interval_cases k <;> interval_cases i <;> simp [exSrc3, exTgt3, exAxis, exT3, cross3, Vec.get]
  · intro k hk
    interval_cases k <;> norm_num [exSrc3, exNrm3, exAxis, cross3, dot3, Vec.get]
  · intro k hk
    interval_cases k <;> norm_num [exSrc3, exNrm3, exAxis, cross3, dot3, Vec.get]
  · rw [abs_of_pos] <;> norm_num

end Romea.C05
