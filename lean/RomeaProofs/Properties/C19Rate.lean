import RomeaModel.Lockset
import RomeaModel.Generated.LockTable
import RomeaModel.Linearize
import RomeaModel.LinAtomic
import RomeaProofs.Lemmas.C19Lin
import RomeaProofs.Lemmas.C19Atomic
import RomeaProofs.Properties.C19

/-!
# C19, part 3 — `RateMonitoring`: critical sections on `mutex_` plus ONE atomic word read outside it

`RateMonitoring::update` / `timeout` are critical sections on `mutex_` (they also use the self-synchronised members
`lastDuration_`, a `SharedVariable<Duration>`, and `rate_`, a `std::atomic<double>`, INSIDE the critical section);
`getRate` is a lone `rate_.load()` that takes no lock, and `update` reads `windowSize_` (written by no in-scope
method) before locking.  This is not the shape of part 2's reduction theorem (`Shape`, `table_lin_shaped` exempts the
class), but the class is still serialisable:

* `serialisable` — on the interleaving semantics of `RomeaModel/Linearize.lean`, UNCHANGED (an atomic / internally
  synchronised member is a one-word field; the semantics executes every micro-step atomically, so one read step is an
  atomic load and, inside the critical section, read-then-write is an atomic store that may or may not happen): if every
  body is a WRITER (`WShape`: [reads of constant addresses]*, `acq g`, data steps that write the observable atomic
  address `a` AT MOST ONCE, `rel g`, and after the release only reads of constant addresses) or a READER (`RShape`:
  exactly one read of `a`, no lock), then for EVERY schedule, any number of threads, calls in flight included, there is
  an order `lin` of the calls made so far such that the state is explained by the SERIAL execution of the calls in that
  order (`Serialised`): program order of every thread respected, the writers in guard-acquisition order, every completed
  call returned its serial value, the store is the serial store whenever the guard is free, the atomic word is the
  serial one at EVERY moment.  The linearization point of a writer is its write of `a` (its `acq g` if it has none), of a
  reader its load — a reader that loads while a critical section is in flight is placed before it if the section has
  not written `a` yet and after it otherwise; "at most one write of `a` per critical section" is what makes this sound.
* `serialisable_complete` — complete runs: final store, all return values, all calls.
* `table_rate_monitoring_shaped` (by `decide`, on every run, on the table regenerated from today's source): the extended
  entry `xcls_RateMonitoring` (atomic events split into loads and stores by `tools/gen_locktable.py`) refines the base
  entry and has the decidable shape: `update` and `timeout` = [reads of fields NO in-scope method writes]*, `acq g`,
  only `rd | wr | ald | ast` with at most one store to `rate_`, `rel g`, and NOTHING after the release that touches a
  field an in-scope method writes (atomic members included); `getRate` = exactly one atomic load of `rate_`.
* `table_rate_serialisable` / `rate_monitoring_serialisable` — hence the bodies `xofEvents` builds from today's lists,
  for every width of the plain members and EVERY data flow, are serialisable.

What the shape rules out (see the examples at the end): moving `lastDuration_.store(duration); return rate_.load();`
behind the release of `mutex_` keeps every access atomic or guarded (lock discipline intact, no data race) but a
`timeout` that takes the mutex in the gap sees the old stamp, zeroes the rate and `update` returns 0 — a value no serial
order produces; the example runs that very schedule and proves `¬ ∃ lin, Serialised …`.

NOT carried: as in parts 1–2 (memory model, `std::mutex`, the translator); in addition the reading of a
`SharedVariable` member as ONE atomic word (its own linearizability is `shared_variable_linearizable`; the composition
is assumed, not proved) and of `std::atomic<double>` operations as sequentially consistent single steps (they are:
`load()` / `store()` with the default `memory_order_seq_cst`).
-/
namespace Romea.C19
open Romea.Lockset Romea.Lin

section Serialisability
variable {V A R : Type} [Inhabited V]

/-- **Serialisability of critical sections + one atomic word read outside the lock.**  ANY number of threads, ANY
    programs (lists of calls), ANY schedule of ANY length — also one that stops with calls in flight: if every body is a
    writer on the guard `g` (`WShape`: constant reads, ONE critical section containing every other store access and at
    most one write of the atomic address `a`, constant reads) or a reader (`RShape`: one read of `a`, no lock), then
    there is an order `lin` of the calls made so far whose SERIAL execution explains the state reached (`Serialised`,
    spelled out in `RomeaModel/LinAtomic.lean`): `lin` respects every thread's program order and the order in which the
    writers acquired `g`; every completed call returned the value it returns in the serial execution; with the guard
    free the store IS the serial store; the atomic word is the serial one at every moment; with the guard held, letting
    the holder finish alone yields the serial store. -/
theorem serialisable (g : Nat) (a : Addr) (C : Addr → Prop) (σ0 : Store V) (prog : Nat → List (Call V A R))
    (hshape : ∀ t, ∀ c ∈ prog t, AShape g a C c.body) (sch : List Nat) :
    ∃ lin, Serialised g a σ0 prog (run (init σ0 prog) sch) lin := by
  obtain ⟨lin, hI⟩ := ainv_run g a C σ0 prog _ sch [] (ainv_init g a C σ0 prog hshape)
  exact ⟨lin, serialised_of_ainv g a C σ0 prog _ lin hI⟩

/-- **Complete runs.**  If the schedule ran every thread to the end: the final store is the serial store, every
    thread's return values are exactly the serial ones, every call of every program is in the serial history, and the
    writer calls are in it in the order in which they acquired the guard. -/
theorem serialisable_complete (g : Nat) (a : Addr) (C : Addr → Prop) (σ0 : Store V) (prog : Nat → List (Call V A R))
    (hshape : ∀ t, ∀ c ∈ prog t, AShape g a C c.body) (sch : List Nat)
    (hfin : ∀ t, ((run (init σ0 prog) sch).thr t).cur = none ∧ ((run (init σ0 prog) sch).thr t).todo = []) :
    ∃ lin, (serial σ0 prog lin).ok = true ∧
      (run (init σ0 prog) sch).store = (serial σ0 prog lin).store ∧
      (∀ t, ((run (init σ0 prog) sch).thr t).done = (serial σ0 prog lin).res t ∧
        histCalls (serial σ0 prog lin).hist t = prog t) ∧
      wOrder g (serial σ0 prog lin).hist = acqOrder g (run (init σ0 prog) sch) := by
  obtain ⟨lin, hL⟩ := serialisable g a C σ0 prog hshape sch
  have hfree : (run (init σ0 prog) sch).locks g = none := by
    cases hl : (run (init σ0 prog) sch).locks g with
    | none => rfl
    | some h => exact absurd hl (hL.idle h (hfin h).1).2.2
  refine ⟨lin, hL.ok, hL.store_free hfree, fun t => ?_, ?_⟩
  · obtain ⟨h1, h2, _⟩ := hL.idle t (hfin t).1
    refine ⟨h1.symm, ?_⟩
    have := hL.program_order t
    rw [h2, (hfin t).2, List.append_nil] at this
    exact this
  · obtain ⟨pend, h1, _, h3⟩ := hL.guard_order
    rw [h3 hfree, List.append_nil] at h1
    exact h1

end Serialisability

section Table
open Romea.Generated.C19

/-- **The regenerated table of the real code has the shape `serialisable` needs, for every class exempt from
    `table_lin_shaped`** (re-checked by the kernel on every run): `RateMonitoring` has an extended entry (atomic events
    split into loads / stores) that refines its base entry and in which, for some mutex `g` and atomic member `fa`,
    `update` and `timeout` are [reads of fields no in-scope method writes]*, `acq g`, only `rd | wr | ald | ast` events
    with at most one store to `fa`, `rel g`, and after the release nothing that touches a field an in-scope method
    writes (plain or atomic), and `getRate` is exactly one atomic load of `fa`. -/
theorem table_rate_monitoring_shaped :
    ∀ c ∈ table, c.name ∈ notReduced → ∃ x ∈ xtable, x.erasesTo c = true ∧ x.rateParams.isSome = true := by decide

/-- **Serialisability of the bodies generated from an extended table entry with the shape**, for every width `W` of
    the plain members (copied word by word), EVERY data flow, every program made of calls of the class's in-scope
    methods, every schedule: the observable atomic word is word 0 of member `fa`, the constants are the words of the
    fields no in-scope method writes. -/
theorem table_rate_serialisable {V A R : Type} [Inhabited V] (c : XClass) (g fa : Nat) (hc : c.rateParams = some (g, fa))
    (W : Nat) (σ0 : Store V) (prog : Nat → List (Call V A R))
    (hprog : ∀ t, ∀ cl ∈ prog t, ∃ m ∈ c.methods, ∃ fl : Flow V A R, cl.body = xofEvents W fl m.evs)
    (sch : List Nat) : ∃ lin, Serialised g (fa, 0) σ0 prog (run (init σ0 prog) sch) lin := by
  apply serialisable g (fa, 0) (constOf c.written)
  intro t cl hcl
  obtain ⟨m, hm, fl, hb⟩ := hprog t cl hcl
  rw [hb]
  exact ashape_xofEvents g fa c.written W fl m.evs (rateParams_spec c g fa hc m hm)

/-- **`RateMonitoring` as it is in the source today**: any number of threads calling `update` / `timeout` / `getRate`
    (bodies from the regenerated extended event lists, any width, any data flow), every schedule — the completed calls'
    return values and the store are those of a serial execution of the same calls, `update` / `timeout` ordered by
    acquisition of `mutex_`, each `getRate` placed at its load. -/
theorem rate_monitoring_serialisable {V A R : Type} [Inhabited V]
    (W : Nat) (σ0 : Store V) (prog : Nat → List (Call V A R))
    (hprog : ∀ t, ∀ cl ∈ prog t, ∃ m ∈ xcls_RateMonitoring.methods, ∃ fl : Flow V A R, cl.body = xofEvents W fl m.evs)
    (sch : List Nat) :
    ∃ g fa, xcls_RateMonitoring.rateParams = some (g, fa) ∧
      ∃ lin, Serialised g (fa, 0) σ0 prog (run (init σ0 prog) sch) lin := by
  have h : xcls_RateMonitoring.rateParams.isSome = true := by decide
  cases hp : xcls_RateMonitoring.rateParams with
  | none => rw [hp] at h; cases h
  | some p => exact ⟨p.1, p.2, rfl, table_rate_serialisable xcls_RateMonitoring p.1 p.2 hp W σ0 prog hprog sch⟩

end Table

/-! ## Non-vacuity: the semantics run on concrete schedules; the shape is needed -/

section Examples

/-- the extended entry of `RateMonitoring` as regenerated from the unchanged source (frozen copy; fields: 0 = rate_,
    1 = mutex_, 2 = periods_, 3 = lastDuration_, 4 = windowSize_, 5 = lastPeriod_, 6 = periodsSum_) -/
private def rmFrozen : XClass :=
  { name := "RateMonitoring", mutexes := [1], methods := [
    { name := "getRate", evs := [.ald 0] },
    { name := "timeout", evs := [.acq 1, .rd 2, .ald 3, .ast 0, .rel 1] },
    { name := "update", evs := [.rd 4, .acq 1, .wr 5, .ald 3, .rd 5, .wr 2, .wr 6, .rd 2, .rd 4, .wr 6, .wr 2, .wr 2, .ast 0,
        .rd 6, .rd 4, .ast 3, .ald 0, .rel 1] }] }

/-- … and as regenerated from the source with `lastDuration_.store(duration); return rate_.load();` moved behind the
    release of `mutex_` (seeded change c19d) -/
private def rmLate : XClass :=
  { name := "RateMonitoring", mutexes := [1], methods := [
    { name := "getRate", evs := [.ald 0] },
    { name := "timeout", evs := [.acq 1, .rd 2, .ald 3, .ast 0, .rel 1] },
    { name := "update", evs := [.rd 4, .acq 1, .wr 5, .ald 3, .rd 5, .wr 2, .wr 6, .rd 2, .rd 4, .wr 6, .wr 2, .wr 2, .ast 0,
        .rd 6, .rd 4, .rel 1, .ast 3, .ald 0] }] }

example : rmFrozen.rateParams = some (1, 0) := by decide
example : rmLate.rateParams = none ∧ rmLate.rateBadMethods 0 = ["update"] := by decide
/-- the lock discipline of part 1 ACCEPTS the changed `update` (every access is atomic or guarded): it is the shape
    that rejects it -/
example : (rmLate.methods.map fun m => scan 1 [5, 2, 6] [] (m.evs.map XEv.erase)) = [some [], some [], some []] := by decide
/-- two stores to `rate_` in one critical section are rejected too (a `getRate` between them would see a value no
    serial order produces) -/
example : xWriter 1 0 [0, 3] [.acq 1, .ast 0, .ald 3, .ast 0, .rel 1] = false := by decide
/-- programs of table bodies exist (hypothesis `hprog` of `rate_monitoring_serialisable`) -/
example : ∀ cl ∈ [(⟨xofEvents 2 ⟨fun _ _ l _ => l (0, 0), fun _ _ => 0⟩ (Romea.Generated.C19.xcls_RateMonitoring.evsOf "update"), 3⟩ : Call Nat Nat Nat)],
    ∃ m ∈ Romea.Generated.C19.xcls_RateMonitoring.methods, ∃ fl : Flow Nat Nat Nat, cl.body = xofEvents 2 fl m.evs := by
  intro cl hcl
  simp only [List.mem_singleton] at hcl
  subst hcl
  obtain ⟨m, hm, he⟩ := xevsOf_mem Romea.Generated.C19.xcls_RateMonitoring "update" (by decide)
  exact ⟨m, hm, _, by rw [he]⟩

/-! ### a miniature monitor with a concrete data flow (window of one period)

fields: 0 = rate_ (atomic, read by `getRate`), 1 = mutex_, 2 = n (number of periods pushed), 3 = lastDuration_
(atomic), 4 = windowSize_ (constant).  `update d`: one more period; if the window is full (`windowSize_ ≤ n`) the rate
becomes `d - lastDuration_ + 1` (never 0: stands for `1e9 / period`); `lastDuration_ := d`; returns `rate_`.
`timeout d`: if a period was pushed and `d - lastDuration_ > 5`, zeroes the rate and returns 100, else returns 101. -/

private inductive RmOp
  | update (d : Nat)
  | timeout (d : Nat)
  | getRate

private def miniUpdate : List XEv := [.rd 4, .acq 1, .ald 3, .wr 2, .ast 0, .ast 3, .ald 0, .rel 1]
/-- the seeded change c19d: the stamp is published and the rate re-read AFTER the release -/
private def miniUpdateLate : List XEv := [.rd 4, .acq 1, .ald 3, .wr 2, .ast 0, .rel 1, .ast 3, .ald 0]
private def miniTimeout : List XEv := [.acq 1, .rd 2, .ald 3, .ast 0, .rel 1]
private def miniGetRate : List XEv := [.ald 0]

/-- data flow by event position (`late`: the body is `miniUpdateLate`, whose final load is event 7 instead of 6) -/
private def miniFlow (late : Bool) : Flow Nat RmOp Nat where
  wr := fun i _ l op => match op with
    | .update d =>
        if i = 3 then l (3, 0) + 1                                                       -- periods_.push
        else if i = 4 then (if l (0, 0) ≤ l (3, 0) then d - l (2, 0) + 1 else l (4, 0))  -- rate_.store(..) if the window is full
        else d                                                                           -- lastDuration_.store(duration)
    | .timeout d => if 0 < l (1, 0) ∧ 5 < d - l (2, 0) then 0 else l (3, 0)              -- rate_.store(0.) on a time-out
    | .getRate => 0
  ret := fun l op => match op with
    | .update _ => if late then l (7, 0) else l (6, 0)
    | .timeout d => if 0 < l (1, 0) ∧ 5 < d - l (2, 0) then 100 else 101
    | .getRate => l (0, 0)

private def miniEvs (late : Bool) : RmOp → List XEv
  | .update _ => if late then miniUpdateLate else miniUpdate
  | .timeout _ => miniTimeout
  | .getRate => miniGetRate

private def miniCall (late : Bool) (op : RmOp) : Call Nat RmOp Nat := ⟨xofEvents 1 (miniFlow late) (miniEvs late op), op⟩

/-- window full (one period pushed, window of one), last stamp 0, rate 7 -/
private def miniσ : Store Nat := fun ad => if ad = (4, 0) then 1 else if ad = (2, 0) then 1 else if ad = (0, 0) then 7 else 0

/-- thread 1: the data thread resumes after a stall (`update 10`, last stamp 0); thread 2: the heartbeat with the same
    stamp; thread 3: a `getRate` -/
private def miniProg (late : Bool) : Nat → List (Call Nat RmOp Nat) := fun t =>
  if t = 1 then [miniCall late (.update 10)] else if t = 2 then [miniCall late (.timeout 10)]
  else if t = 3 then [miniCall late .getRate] else []

/-- the unchanged bodies have the decidable shape (guard 1, atomic 0; written fields 0, 2, 3), the changed one not -/
example : xWriter 1 0 [0, 2, 3] miniUpdate = true ∧ xWriter 1 0 [0, 2, 3] miniTimeout = true ∧ xReader 0 miniGetRate = true ∧
    xWriter 1 0 [0, 2, 3] miniUpdateLate = false := by decide

private theorem mini_shape : ∀ t, ∀ c ∈ miniProg false t, AShape 1 ((0, 0) : Addr) (constOf [0, 2, 3]) c.body := by
  intro t c hc
  unfold miniProg at hc
  split at hc
  · simp only [List.mem_singleton] at hc; subst hc
    exact ashape_xofEvents 1 0 [0, 2, 3] 1 _ _ (by decide)
  · split at hc
    · simp only [List.mem_singleton] at hc; subst hc
      exact ashape_xofEvents 1 0 [0, 2, 3] 1 _ _ (by decide)
    · split at hc
      · simp only [List.mem_singleton] at hc; subst hc
        exact ashape_xofEvents 1 0 [0, 2, 3] 1 _ _ (by decide)
      · simp at hc

/-- the unchanged bodies meet the hypotheses of `serialisable`: every schedule is explained by a serial order -/
example (sch : List Nat) := serialisable 1 (0, 0) (constOf [0, 2, 3]) miniσ (miniProg false) mini_shape sch

/-- the heartbeat asks for the mutex while `update` is in its critical section (it is blocked), `getRate` loads the
    rate AFTER `update` stored it but before `update` released the mutex: `update` returns 11, the heartbeat sees the new
    stamp and reports no time-out (101), `getRate` returns 11 — the serial order [update, getRate, timeout] -/
private def miniSch : List Nat := [1, 1, 1, 1, 1, 1, 2, 2, 2, 1, 1, 3, 3, 3, 3, 2, 1, 1, 1, 1, 1, 1] ++ List.replicate 10 2

example : ((run (init miniσ (miniProg false)) miniSch).thr 1).done = [some 11] ∧
    ((run (init miniσ (miniProg false)) miniSch).thr 2).done = [some 101] ∧
    ((run (init miniσ (miniProg false)) miniSch).thr 3).done = [some 11] ∧
    (run (init miniσ (miniProg false)) miniSch).store (0, 0) = 11 := by decide
example : (serial miniσ (miniProg false) [1, 3, 2]).res 1 = [some 11] ∧ (serial miniσ (miniProg false) [1, 3, 2]).res 2 = [some 101] ∧
    (serial miniσ (miniProg false) [1, 3, 2]).res 3 = [some 11] ∧ (serial miniσ (miniProg false) [1, 3, 2]).store (0, 0) = 11 := by decide
/-- a `getRate` that loads BEFORE the store of the critical section in flight is placed before it: it returns the old
    rate 7 — the serial order [getRate, update, timeout] -/
example : ((run (init miniσ (miniProg false)) ([1, 1, 1, 1, 3, 3, 3, 3] ++ List.replicate 12 1 ++ List.replicate 10 2)).thr 3).done = [some 7] ∧
    ((run (init miniσ (miniProg false)) ([1, 1, 1, 1, 3, 3, 3, 3] ++ List.replicate 12 1 ++ List.replicate 10 2)).thr 1).done = [some 11] := by
  decide

/-- **the shape is needed: the seeded change c19d.**  `update` releases the mutex (9 steps), the heartbeat runs its whole
    `timeout` in the gap — it still sees the OLD stamp 0, `10 - 0 > 5`, zeroes the rate `update` has just stored and
    reports a time-out (100) — and `update` then publishes its stamp, re-reads the rate and returns 0. -/
private def lateSch : List Nat := List.replicate 9 1 ++ List.replicate 9 2 ++ List.replicate 5 1

example : ((run (init miniσ (miniProg true)) lateSch).thr 1).done = [some 0] ∧
    ((run (init miniσ (miniProg true)) lateSch).thr 2).done = [some 100] := by decide

/-- in every SERIAL order the changed `update` returns a non-zero rate as well (run alone it computes
    `10 - last + 1`) and `timeout` returns 100 or 101 -/
private theorem late_serial_results (σ : Store Nat) (h : σ (4, 0) = 1 ∧ 1 ≤ σ (2, 0)) :
    ((runCall σ (miniCall true (.update 10))).1 (4, 0) = 1 ∧ 1 ≤ (runCall σ (miniCall true (.update 10))).1 (2, 0) ∧
      (runCall σ (miniCall true (.update 10))).2 ≠ some 0) ∧
    ((runCall σ (miniCall true (.timeout 10))).1 (4, 0) = 1 ∧ 1 ≤ (runCall σ (miniCall true (.timeout 10))).1 (2, 0) ∧
      (runCall σ (miniCall true (.timeout 10))).2 ≠ some 0) := by
  obtain ⟨h4, h2⟩ := h
  refine ⟨?_, ?_⟩
  · simp [runCall, miniCall, miniEvs, miniUpdateLate, miniFlow, xofEvents, xofEventsFrom, xevSteps, rdWords, wrWords,
      execSteps, execStep, upd, h4, h2]
  · simp [runCall, miniCall, miniEvs, miniTimeout, miniFlow, xofEvents, xofEventsFrom, xevSteps, rdWords,
      execSteps, execStep, upd, h4]
    refine ⟨h2, ?_⟩
    split <;> simp

/-- … so the state reached by `lateSch` — `update` returned 0 — is explained by NO serial order of the calls: the
    conclusion of `serialisable` fails for the changed body -/
example : ¬ ∃ lin, Serialised 1 (0, 0) miniσ (miniProg true) (run (init miniσ (miniProg true)) lateSch) lin := by
  rintro ⟨lin, hL⟩
  have hdone : ((run (init miniσ (miniProg true)) lateSch).thr 1).done = [some 0] := by decide
  have hpre := (hL.returns 1).1
  rw [hdone] at hpre
  have hmem : some 0 ∈ (serial miniσ (miniProg true) lin).res 1 := hpre.subset (by simp)
  obtain ⟨_, H, hH, hall⟩ := serFold_inv (fun σ : Store Nat => σ (4, 0) = 1 ∧ 1 ≤ σ (2, 0))
    (fun c => c = miniCall true (.update 10) ∨ c = miniCall true (.timeout 10) ∨ c = miniCall true .getRate)
    (by
      rintro c (rfl | rfl | rfl) σ hσ
      · exact ⟨(late_serial_results σ hσ).1.1, (late_serial_results σ hσ).1.2.1⟩
      · exact ⟨(late_serial_results σ hσ).2.1, (late_serial_results σ hσ).2.2.1⟩
      · simpa [runCall, miniCall, miniEvs, miniGetRate, xofEvents, xofEventsFrom, xevSteps, execSteps, execStep] using hσ)
    lin (serInit miniσ (miniProg true))
    (by
      intro t c hc
      simp only [serInit, miniProg] at hc
      split at hc
      · simp only [List.mem_singleton] at hc; exact Or.inl hc
      · split at hc
        · simp only [List.mem_singleton] at hc; exact Or.inr (Or.inl hc)
        · split at hc
          · simp only [List.mem_singleton] at hc; exact Or.inr (Or.inr hc)
          · simp at hc)
    (by decide)
  rw [hL.res_hist 1] at hmem
  simp only [histRes, List.mem_map, List.mem_filter] at hmem
  obtain ⟨e, ⟨heH, het⟩, her⟩ := hmem
  have heH' : e ∈ H := by
    have : (serial miniσ (miniProg true) lin).hist = (serInit miniσ (miniProg true)).hist ++ H := hH
    rw [this] at heH; simpa [serInit] using heH
  obtain ⟨hP, σ, hσ, hr⟩ := hall e heH'
  -- thread 1's only call is the `update`
  have hcall : e.2.1 = miniCall true (.update 10) := by
    have hpo := hL.program_order 1
    have : e.2.1 ∈ histCalls (serial miniσ (miniProg true) lin).hist 1 := by
      simp only [histCalls, List.mem_map, List.mem_filter]
      exact ⟨e, ⟨heH, het⟩, rfl⟩
    have : e.2.1 ∈ miniProg true 1 := by rw [← hpo]; exact List.mem_append_left _ this
    simpa [miniProg] using this
  rw [hcall, her] at hr
  exact (late_serial_results σ hσ).1.2.2 hr.symm

end Examples

end Romea.C19
