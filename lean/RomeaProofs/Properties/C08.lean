import RomeaProofs.Lemmas.C08Search
import RomeaProofs.Lemmas.C08Scan
import RomeaProofs.Lemmas.C08Build
import Mathlib.Tactic.IntervalCases
import Mathlib.Algebra.Order.Ring.Rat
import Mathlib.Algebra.Field.Rat

/-!
# C08 — kd-tree nearest-neighbour queries agree with exhaustive search

Property theorems about the model `RomeaModel/KdTree.lean` of the vendored nanoflann index
(`searchLevel`, `computeInitialDistances`, `KNNResultSet::addPoint`) as `KdTree.cpp` uses it.

Scalars: any linearly ordered commutative ring `α` (`ℝ`, `ℚ`, `ℤ`, …) — exact arithmetic; only
`+ - * < ≤` occur in the search, so no division guard exists to discharge.  The one idealisation
with a hypothesis attached is the sentinel `M = numeric_limits<Scalar>::max()` that `init` writes
into the last result slot: every squared distance is assumed to be `< M` (no overflow), hypothesis
`hM` below.  Rounding of the distances and of `mindistsq + cut_dist - dst` is NOT covered
(DESIGN.md C08 "not carried"); the correspondence check and the probe cover it on inputs.

`search_correct` holds for EVERY well-formed index (`WellFormed`), not only for the one `buildIndex`
produces.  `build_wf` (DESIGN.md stretch goal, proved here over any linearly ordered field): the
modelled `buildIndex` (`computeBoundingBox`, `divideTree`, `middleSplit_`, `planeSplit`) terminates
and produces a well-formed index for every non-empty data set; `kdtree_correct` composes the two.
Independently of that, the check `tools/props/c08.py` verifies well-formedness of the tree nanoflann
ACTUALLY built (dumped through `saveIndex`) on every generated point set, and the correspondence
check compares that dump with the model's tree token by token.
-/
namespace Romea.C08
open Romea.KdTree

set_option linter.unusedSectionVars false

variable {α : Type} [CommRing α] [LinearOrder α] [IsStrictOrderedRing α]

/-- Well-formed index over the data set `P 0 … P (n-1)` of dimension `dim`:
* `tree`: at every inner node the split feature is a dimension, `divlow ≤ divhigh`, every point
  under `left` has coordinate `≤ divlow` and every point under `right` coordinate `≥ divhigh`;
* `partition`: the leaves hold every index `0 … n-1` exactly once;
* `box_dim`, `box`: the root bounding box has one interval per dimension and contains every point. -/
structure WellFormed (dim : Nat) (P : Nat → Nat → α) (n : Nat) (ix : Index α) : Prop where
  tree : WF dim P ix.vind ix.root
  partition : (points ix.vind ix.root).Perm (List.range n)
  box_dim : ix.bbox.length = dim
  box : ∀ j (h : j < ix.bbox.length), ∀ x < n, (ix.bbox[j]).1 ≤ P x j ∧ P x j ≤ (ix.bbox[j]).2

/-- The kd-tree query computes exactly what the exhaustive linear scan with the same result set
    computes when it meets the points in the order `visit` (near child first, leaves left to right):
    no pruning decision and no leaf filter ever changes the result, including the order among
    equal distances. -/
theorem search_eq_exhaustive_scan (M : α) (dim n : Nat) (P : Nat → Nat → α) (ix : Index α)
    (q : Nat → α) (k : Nat) (hwf : WellFormed dim P n ix) (hn : 0 < n)
    (hM : ∀ x < n, sqDist dim q P x < M) :
    knn M dim P ix q k =
      (scan dim P q (ResultSet.init k) (visit ix.vind q ix.root)).items.reverse := by
  have hmem : ∀ x, x ∈ points ix.vind ix.root ↔ x < n := by
    intro x; rw [hwf.partition.mem_iff]; exact List.mem_range
  have hne : points ix.vind ix.root ≠ [] := by
    intro h
    have := (hmem 0).mpr hn
    rw [h] at this; simp at this
  have hinit := computeInitialDistances_inv P q (points ix.vind ix.root) hne ix.bbox 0
    ((0 : α), fun _ => (0 : α))
    (by
      intro m hm x hx
      have := hwf.box m hm x ((hmem x).mp hx)
      simpa using this)
    (by
      refine ⟨by simp [sumTo], fun j _ => rfl, ?_⟩
      intro j hj; omega)
  rw [Nat.zero_add, hwf.box_dim] at hinit
  obtain ⟨hsum, _, hbound⟩ := hinit
  unfold knn findNeighbors
  simp only [Nat.cast_zero]
  rw [searchLevel_eq_scan M dim P ix.vind q ix.root _ _ _ hwf.tree (valid_init M k)
    (fun x hx => hM x ((hmem x).mp hx))
    ⟨fun x hx j hj => hbound j hj x hx, hsum⟩]

/-- **search_correct.**  On any well-formed index, for `1 ≤ k ≤ n`, the k-nearest query returns
    `k` entries `(squared distance, index)`, in ascending order of distance, each distance being the
    squared distance of its own index, with `k` distinct indices of the data set; every point that
    is not returned is at least as far from the query as every returned one; and the list of
    returned distances is exactly the `k`-prefix of the ascending sort of ALL `n` squared distances
    (i.e. exactly the `k` smallest, as a multiset). -/
theorem search_correct (M : α) (dim n : Nat) (P : Nat → Nat → α) (ix : Index α) (q : Nat → α)
    (k : Nat) (hwf : WellFormed dim P n ix) (hk : 0 < k ∧ k ≤ n)
    (hM : ∀ x < n, sqDist dim q P x < M) :
    let r := knn M dim P ix q k
    r.length = k ∧
    r.Pairwise (fun a b => a.1 ≤ b.1) ∧
    (∀ it ∈ r, it.2 < n ∧ it.1 = sqDist dim q P it.2) ∧
    (r.map (·.2)).Nodup ∧
    (∀ x < n, x ∉ r.map (·.2) → ∀ it ∈ r, it.1 ≤ sqDist dim q P x) ∧
    r.map (·.1) = (((List.range n).map (sqDist dim q P)).insertionSort (· ≤ ·)).take k := by
  intro r
  have hn : 0 < n := lt_of_lt_of_le hk.1 hk.2
  have hr : r = (scan dim P q (ResultSet.init k) (visit ix.vind q ix.root)).items.reverse :=
    search_eq_exhaustive_scan M dim n P ix q k hwf hn hM
  have hperm : (visit ix.vind q ix.root).Perm (List.range n) :=
    (visit_perm ix.vind q ix.root).trans hwf.partition
  have hnd : (visit ix.vind q ix.root).Nodup := hperm.nodup_iff.mpr List.nodup_range
  have hmem : ∀ x, x ∈ visit ix.vind q ix.root ↔ x < n := by
    intro x; rw [hperm.mem_iff]; exact List.mem_range
  have hlen : (visit ix.vind q ix.root).length = n := by
    rw [hperm.length_eq, List.length_range]
  obtain ⟨h1, h2, h3, h4, h5, h6⟩ := scan_spec dim P q k (visit ix.vind q ix.root) hnd
  rw [← hr] at h1 h2 h3 h4 h5 h6
  refine ⟨?_, h2, ?_, h4, ?_, ?_⟩
  · rw [h1, hlen]; exact Nat.min_eq_left hk.2
  · intro it hit; exact ⟨(hmem _).mp (h3 it hit).1, (h3 it hit).2⟩
  · intro x hx hnot; exact (h5 x ((hmem x).mpr hx) hnot).2
  · rw [h6]
    congr 1
    exact ((List.perm_insertionSort _ _).trans ((hperm.map _).trans
      (List.perm_insertionSort _ _).symm)).eq_of_pairwise' (List.pairwise_insertionSort _ _)
      (List.pairwise_insertionSort _ _)

/-- the same prefix statement with core's `List.mergeSort` (DESIGN.md appendix A) -/
theorem search_correct_mergeSort (M : α) (dim n : Nat) (P : Nat → Nat → α) (ix : Index α)
    (q : Nat → α) (k : Nat) (hwf : WellFormed dim P n ix) (hk : 0 < k ∧ k ≤ n)
    (hM : ∀ x < n, sqDist dim q P x < M) :
    (knn M dim P ix q k).map (·.1) =
      (((List.range n).map (sqDist dim q P)).mergeSort (fun a b => decide (a ≤ b))).take k := by
  rw [(search_correct M dim n P ix q k hwf hk hM).2.2.2.2.2]
  rw [List.mergeSort_eq_insertionSort (· ≤ ·)]

/-- **Nearest neighbour** (`findNearestNeighbor`, `k = 1`): the query returns an index of the data
    set together with its squared distance, and no point of the set is closer. -/
theorem nearest_neighbour_correct (M : α) (dim n : Nat) (P : Nat → Nat → α) (ix : Index α)
    (q : Nat → α) (hwf : WellFormed dim P n ix) (hn : 0 < n)
    (hM : ∀ x < n, sqDist dim q P x < M) :
    ∃ d i, knn M dim P ix q 1 = [(d, i)] ∧ i < n ∧ d = sqDist dim q P i ∧
      ∀ x < n, d ≤ sqDist dim q P x := by
  obtain ⟨h1, _, h3, _, h5, _⟩ := search_correct M dim n P ix q 1 hwf ⟨Nat.one_pos, hn⟩ hM
  obtain ⟨⟨d, i⟩, hr⟩ := List.length_eq_one_iff.mp h1
  refine ⟨d, i, hr, ?_, ?_, ?_⟩
  · exact (h3 (d, i) (by rw [hr]; simp)).1
  · exact (h3 (d, i) (by rw [hr]; simp)).2
  · intro x hx
    by_cases hxi : x = i
    · subst hxi
      exact le_of_eq (h3 (d, x) (by rw [hr]; simp)).2
    · have hnot : x ∉ (knn M dim P ix q 1).map (·.2) := by
        rw [hr]; simpa using hxi
      exact h5 x hx hnot (d, i) (by rw [hr]; simp)

/-- `KNNResultSet::addPoint` on its own (any offered sequence, no tree): after offering the
    duplicate-free list `L` of points the set holds the `min k |L|` smallest squared distances in
    ascending order — the statement that pins the strict `>` of the insertion loop. -/
theorem result_set_keeps_k_smallest (dim : Nat) (P : Nat → Nat → α) (q : Nat → α) (k : Nat)
    (L : List Nat) (hnd : L.Nodup) :
    ((scan dim P q (ResultSet.init k) L).items.reverse).map (·.1) =
      ((L.map (sqDist dim q P)).insertionSort (· ≤ ·)).take k :=
  (scan_spec dim P q k L hnd).2.2.2.2.2

/-! ## The build -/

section build
variable {β : Type} [Field β] [LinearOrder β] [IsStrictOrderedRing β]

/-- **build_wf.**  For every non-empty data set (any dimension `≥ 1`, any leaf size `≥ 1` — the
    adaptor passes 10) the modelled `buildIndex` ends (`ok`: every `planeSplit` loop exits and every
    split index lies strictly inside its range, so `divideTree` terminates) and the index it
    returns is well formed: the leaves partition `0 … n-1`, at every node the points under `left`
    are `≤ divlow ≤ divhigh ≤` the points under `right` on the split feature, and the root box
    contains every point.  Only comparisons matter: the proof never looks at the spans, at `EPS`
    or at the mid-point (the split value is clamped to the data), so it also covers the `cutfeat`
    selection quirk of `middleSplit_` whatever feature it ends up choosing. -/
theorem build_wf (dim n leafMax : Nat) (P : Nat → Nat → β) (hdim : 0 < dim) (hn : 0 < n)
    (hleaf : 1 ≤ leafMax) :
    (buildIndex leafMax dim P n).2 = true ∧ WellFormed dim P n (buildIndex leafMax dim P n).1 := by
  rcases hd : divideTree leafMax dim P (n + 1) (Array.range n) 0 n (computeBoundingBox dim P n) with
    ⟨v', t, b', ok⟩
  have hb : buildIndex leafMax dim P n = ({ vind := v', root := t, bbox := b' }, ok) := by
    unfold buildIndex
    simp only
    rw [hd]
  rw [hb]
  obtain ⟨h1, h2, h3, _, h5, h6⟩ := divideTree_spec dim P leafMax hleaf hdim (n + 1) (Array.range n) 0 n
    (computeBoundingBox dim P n) hn (by simp) (by omega) v' t b' ok hd
  have hsz : v'.size = n := by rw [h2.1]; simp
  have hperm : (slice v' 0 n).Perm (List.range n) := by
    have : slice v' 0 v'.size = v'.toList := slice_full v'
    rw [hsz] at this
    rw [this]
    have := h2.2.2
    simpa using this
  refine ⟨h1, ⟨h5, ?_, h6.1, ?_⟩⟩
  · show (points v' t).Perm (List.range n)
    rw [h3]; exact hperm
  · intro j hj x hx
    have hj' : j < dim := by
      have : j < b'.length := hj
      rw [h6.1] at this; exact this
    have hxs : x ∈ slice v' 0 n := hperm.mem_iff.mpr (List.mem_range.mpr hx)
    have hget : b'[j]? = some (b'[j]'hj) := List.getElem?_eq_getElem _
    have := ((h6.2 j hj').1 x hxs)
    rw [getLow_eq hget, getHigh_eq hget] at this
    exact this

/-- **Build + search, end to end**: the index the model builds (leaf size 10 as the adaptor
    passes it) answers every k-nearest query, `1 ≤ k ≤ n`, with exactly the `k` smallest squared
    distances in ascending order, each paired with a (distinct) index at that distance. -/
theorem kdtree_correct (M : β) (dim n : Nat) (P : Nat → Nat → β) (q : Nat → β) (k : Nat)
    (hdim : 0 < dim) (hk : 0 < k ∧ k ≤ n) (hM : ∀ x < n, sqDist dim q P x < M) :
    let r := knn M dim P (buildIndex leafMaxSize dim P n).1 q k
    r.length = k ∧
    r.Pairwise (fun a b => a.1 ≤ b.1) ∧
    (∀ it ∈ r, it.2 < n ∧ it.1 = sqDist dim q P it.2) ∧
    (r.map (·.2)).Nodup ∧
    (∀ x < n, x ∉ r.map (·.2) → ∀ it ∈ r, it.1 ≤ sqDist dim q P x) ∧
    r.map (·.1) = (((List.range n).map (sqDist dim q P)).insertionSort (· ≤ ·)).take k :=
  search_correct M dim n P _ q k
    (build_wf dim n leafMaxSize P hdim (lt_of_lt_of_le hk.1 hk.2) (by decide)).2 hk hM

end build

/-! ## Non-vacuity: a concrete well-formed index meets the hypotheses (over `ℤ`) -/

/-- four points in the plane: (0,0), (4,1), (1,3), (5,5) -/
def exP : Nat → Nat → ℤ
  | 0, 0 => 0 | 0, 1 => 0
  | 1, 0 => 4 | 1, 1 => 1
  | 2, 0 => 1 | 2, 1 => 3
  | 3, 0 => 5 | 3, 1 => 5
  | _, _ => 0

/-- split on x: left leaf holds points 0, 2 (x ≤ 1), right leaf points 1, 3 (x ≥ 4) -/
def exIndex : Index ℤ :=
  { vind := #[0, 2, 1, 3], root := .node 0 1 4 (.leaf 0 2) (.leaf 2 4), bbox := [(0, 5), (0, 5)] }

example : WellFormed 2 exP 4 exIndex where
  tree := by
    simp only [exIndex, WF, points]
    decide
  partition := by
    simp only [exIndex, points]
    decide
  box_dim := rfl
  box := by
    intro j hj x hx
    simp only [exIndex, List.length_cons, List.length_nil] at hj
    interval_cases j <;> interval_cases x <;> simp [exIndex, exP]

/-- the query (3, 3): squared distances 18, 5, 4, 8 → the two nearest are point 2 then point 1,
    and the far leaf IS searched (the bound 1 ≤ worst); all distances are below the sentinel 1000 -/
example : knn (1000 : ℤ) 2 exP exIndex (fun j => if j = 0 then 3 else 3) 2 = [(4, 2), (5, 1)] := by
  decide
example : ∀ x < 4, sqDist 2 (fun j => if j = 0 then (3 : ℤ) else 3) exP x < 1000 := by decide

/-- The bound clauses of `WF` are NECESSARY, and they are what "conservative" means for a stored
    split bound: `divlow` must not lie below a point of the left subtree (nor `divhigh` above a
    point of the right one).  The same index with `divlow = -2` stored instead of `1` (a bound that
    was rounded the wrong way — e.g. narrowed to a shorter float type and rounded to nearest, as in
    seeded change c08b) over-estimates the distance to the left child (`cut_dist = 25 > 5`), the
    subtree is skipped and the query returns point 1 at squared distance 5 although point 2 is at 4.
    In the model the bounds are values of the scalar type `α` itself (`divideTree` copies
    `left_bbox[cutfeat].high` / `right_bbox[cutfeat].low`, no conversion), which is why `build_wf`
    and hence `kdtree_correct` hold for EVERY data set `P` and query `q` — point sets with a large
    common offset (map / UTM frames) are not a special case of the theorems. -/
def exIndexLowBound : Index ℤ :=
  { exIndex with root := .node 0 (-2) 4 (.leaf 0 2) (.leaf 2 4) }

example : knn (1000 : ℤ) 2 exP exIndexLowBound (fun j => if j = 0 then 3 else 3) 1 = [(5, 1)] := by
  decide
example : knn (1000 : ℤ) 2 exP exIndex (fun j => if j = 0 then 3 else 3) 1 = [(4, 2)] := by
  decide
example : ¬ WF 2 exP exIndexLowBound.vind exIndexLowBound.root := by
  simp only [exIndexLowBound, exIndex, WF, points]
  decide

/-- `build_wf` / `kdtree_correct` at a concrete instance: twelve collinear points over `ℚ`
    (more than one leaf), dimension 2 -/
example : WellFormed 2 (fun i j => if j = 0 then (i : ℚ) else 0) 12
    (buildIndex leafMaxSize 2 (fun i j => if j = 0 then (i : ℚ) else 0) 12).1 :=
  (build_wf 2 12 leafMaxSize _ (by decide) (by decide) (by decide)).2

end Romea.C08
