import RomeaProofs.Properties.C19
import RomeaProofs.Lemmas.C19Reports

/-!
# C19, part 2b — check-up reports: the sequential contract of `report_copy_consistent` discharged from the TRANSLATION of
today's source

`report_copy_consistent` (`Properties/C19.lean`) holds for every data flow of `evaluate` / `timeout` that, run alone,
leaves the words of its own evaluation.  Here that hypothesis is no longer assumed nor discharged for a hand-written
example: for the four check-up classes that are in BOTH regenerated files — the lock table `Generated/LockTable.lean`
(event lists) and `Generated/SrcC18.lean` (the bodies of `evaluate` / `timeout` translated by `tools/cxx2lean.py`:
`CheckupEqualTo`, `CheckupGreaterThan`, `CheckupLowerThan`, `CheckupReliability`; `timeout` is `Checkup<T>::timeout`, which
`CheckupReliability` does not have) — the flow `srcFlow` lives on today's event lists (`Class.evsOf`) and writes the words
the TRANSLATED function computes, and the contract is a theorem (`srcFlow_evaluate`, `srcFlow_timeout` in
`Lemmas/C19Reports.lean`, re-checked against both regenerated files on every run).

Encoding (what was chosen and why it is faithful).  Word type `Word α` = one word per scalar LEAF of the translation:
`num` a scalar member, `int` the underlying value of `DiagnosticStatus`, `str` a `std::string`.  A report is the four
leaves the translated functions read / write: `[status, message, info value, info key]` (`repWords`, injective:
`repWords_injective`).  The thresholds are READ from the store (members `f1`, `f2` of the table) and the name from the
report's own key word, as `setDiagnostic_` does; nothing about them is a parameter of the flow.  Granularity: a
`std::string` is ONE word here — the model copies a report in 4 steps, the real copy takes many more; the reduction theorem
is insensitive to the number of steps inside the critical section, but the statement proved is about this granularity.

What the tables do NOT determine, and how the flow is fixed.  The event list says at which positions the report member is
touched (`wr f`: "write or unclassified use"), not which leaf each event writes; the translated function gives the
NET effect of the call on each leaf, not the statement that causes it.  `srcFlow` is fixed by these two and nothing else:
every `wr` event stores back the words it has just read, except the LAST `wr` event of the report member, which stores the
four words computed by the translated function from the scalars copied by the last `rd f1` / `rd f2` events before it and
the key word it has just read.  Positions are computed from the regenerated lists (`RepLayout.pe`, `p1`, `p2`, `pt`), so the
flow follows the table when `evaluate` is edited; `layouts_ok` (by `decide`, on every run) checks that the lists have the
events this needs.  The intermediate states of a call are therefore NOT those of the C++ (there the message is written
before the status); the theorems below are about completed `getReport` copies, for which only the net effect and the
one-critical-section shape matter — and `source_report_copies_any_flow` states the result for EVERY flow with that net
effect.

Member numbers are not copied by hand: the layouts (`layEqualTo` …) look `report_`, `value_to_compare_with_`, `epsilon_`,
`low_reliability_theshold_`, `high_reliability_theshold_` up in `fields_<Class>`, the member names by field number that
`tools/gen_locktable.py` now emits next to the event lists.  Trusted here beyond part 2: that pairing of names with the
translated functions' parameters (`t` = `value_to_compare_with_`, `ε` = `epsilon_`, …, by the parameter names of
`Generated/SrcC18.lean`), and the reading of the report as the four leaves the translation names.

Continued in `Properties/C19ReportsModel.lean`: through `Bridge/C18` the triple is the MODEL's classification of that value
(`report_copies_are_model_classifications`, `greaterThan_copy_classifies`, `copy_status_iff_property`).
-/
namespace Romea.C19
open Romea.Lin Romea.Lockset Romea.Generated.C19

/-! ## `report_copy_consistent` with the sequential hypotheses restricted to the operations the threads call

(`CheckupReliability` has no `timeout`: a hypothesis about `timeout` run alone cannot hold for it.) -/

section General
variable {V X : Type} [Inhabited V]

private theorem shape_of_called (c : Class) (hls : c.linShaped = true) (W : Nat) (fl : Flow V (RepOp X) (List V))
    (prog : Nat → List (RepOp X))
    (hmeth : ∀ t, ∀ op ∈ prog t, (c.methods.any fun m => m.name == op.method) = true) :
    ∀ t, ∀ cl ∈ (fun t => (prog t).map (repCall c W fl)) t, Shape c.guard cl.body := by
  intro t cl hcl
  simp only [List.mem_map] at hcl
  obtain ⟨op, hop, rfl⟩ := hcl
  obtain ⟨m, hm, hevs⟩ := evsOf_mem c op.method (hmeth t op hop)
  simp only [repCall, hevs]
  exact shape_ofEvents c.guard W fl m.evs (guard_spec c hls m hm)

/-- **Every report copy belongs to ONE evaluation** — `report_copy_consistent` with the two sequential hypotheses
    (`hK`: the side condition is stable, `hwr`: a writer call run alone leaves the words of its own evaluation) required
    only of the operations that occur in some thread's program. -/
theorem report_copy_consistent_called (c : Class) (hls : c.linShaped = true) (f W : Nat)
    (fl : Flow V (RepOp X) (List V)) (tr : Option X → List V)
    (hget : c.evsOf "getReport" = [.acq c.guard, .rd f, .rel c.guard])
    (hret : ∀ l, fl.ret l RepOp.getReport = locVec W 1 l)
    (K : Store V → Prop) (σ0 : Store V) (hK0 : K σ0) (prog : Nat → List (RepOp X))
    (hK : ∀ t, ∀ op ∈ prog t, ∀ σ, K σ → K (runCall σ (repCall c W fl op)).1)
    (hwr : ∀ t, ∀ op ∈ prog t, ∀ e, RepOp.written op = some e → ∀ σ, K σ →
      vecOf W f (runCall σ (repCall c W fl op)).1 = pad W (tr e))
    (hmeth : ∀ t, ∀ op ∈ prog t, (c.methods.any fun m => m.name == op.method) = true) (sch : List Nat) :
    ∀ (t k : Nat) (r : Option (List V)),
      ((run (init σ0 (fun t => (prog t).map (repCall c W fl))) sch).thr t).done[k]? = some r →
      (prog t)[k]? = some RepOp.getReport →
      r = some (vecOf W f σ0) ∨ ∃ t' op e, op ∈ prog t' ∧ RepOp.written op = some e ∧ r = some (pad W (tr e)) := by
  intro t k r hk hop
  have := (observed_in_consistent_state c.guard σ0 _ (shape_of_called c hls W fl prog hmeth)
    (fun σ => K σ ∧ (vecOf W f σ = vecOf W f σ0 ∨
      ∃ t' op e, op ∈ prog t' ∧ RepOp.written op = some e ∧ vecOf W f σ = pad W (tr e)))
    ⟨hK0, Or.inl rfl⟩ (by
      intro t cl hcl σ hσ
      simp only [List.mem_map] at hcl
      obtain ⟨op, hop, rfl⟩ := hcl
      refine ⟨hK t op hop σ hσ.1, ?_⟩
      cases hw : RepOp.written op with
      | some e => exact Or.inr ⟨t, op, e, hop, hw, hwr t op hop e hw σ hσ.1⟩
      | none =>
        cases op with
        | evaluate x => simp [RepOp.written] at hw
        | timeout => simp [RepOp.written] at hw
        | getReport => rw [(rep_get c c.guard f W fl hget hret σ).1]; exact hσ.2) sch).2 t k r hk
  obtain ⟨cl, σ, hcl, ⟨_, hσ⟩, hr⟩ := this
  have : cl = repCall c W fl RepOp.getReport := by
    simp only [List.getElem?_map, hop, Option.map_some, Option.some.injEq] at hcl
    exact hcl.symm
  rw [this, (rep_get c c.guard f W fl hget hret σ).2] at hr
  rcases hσ with h | ⟨t', op, e, h1, h2, h3⟩
  · exact Or.inl (by rw [hr, h])
  · exact Or.inr ⟨t', op, e, h1, h2, by rw [hr, h3]⟩

end General

/-! ## the conclusion, as a predicate -/

/-- **what a reader can see**: in state `s` (reached by some schedule from the store `σ0` when thread `th` was given the
    operations `prog th`), the copy returned by the `k`-th call of a thread, if that call is a `getReport`, is — all four
    words — the initial report, or the words `[status, message, info value, name]` of `ev v` for ONE call `evaluate(v)`
    made by some thread, or those of `tmo` for a `timeout()` made by some thread. -/
def CopiesFrom {α : Type} (f : Nat) (σ0 : Store (Word α)) (prog : Nat → List (RepOp α))
    (s : State (Word α) (RepOp α) (List (Word α))) (name : String)
    (ev : α → String × Int × String) (tmo : String × Int × String) : Prop :=
  ∀ (th k : Nat) (r : Option (List (Word α))), ((s.thr th).done)[k]? = some r → (prog th)[k]? = some RepOp.getReport →
    r = some (vecOf 4 f σ0) ∨
    (∃ th' v, RepOp.evaluate v ∈ prog th' ∧ r = some (repWords name (ev v))) ∨
    (∃ th', RepOp.timeout ∈ prog th' ∧ r = some (repWords name tmo))

/-! ## any class layout whose regenerated event lists pass the decidable checks -/

section Source
variable {α : Type} [Inhabited α]

omit [Inhabited α] in
private theorem called_is_method (L : RepLayout)
    (hget : L.c.evsOf "getReport" = [.acq L.c.guard, .rd L.f, .rel L.c.guard]) (prog : Nat → List (RepOp α))
    (hE : ∀ t x, RepOp.evaluate x ∈ prog t → L.okE = true) (hT : ∀ t, RepOp.timeout ∈ prog t → L.okT = true) :
    ∀ t, ∀ op ∈ prog t, (L.c.methods.any fun m => m.name == op.method) = true := by
  intro t op hop
  apply any_of_evsOf_ne_nil
  cases op with
  | evaluate x =>
    have h := (okE_spec L (hE t x hop)).1
    intro hnil
    simp only [RepLayout.evE, RepOp.method] at h hnil
    rw [hnil] at h; simp at h
  | timeout =>
    have h := (okT_spec L (hT t hop)).1
    intro hnil
    simp only [RepLayout.evT, RepOp.method] at h hnil
    rw [hnil] at h; simp at h
  | getReport => simp only [RepOp.method]; rw [hget]; simp

omit [Inhabited α] in
/-- **Report copies for EVERY flow with the translated net effect.**  `L` a class layout, `fl` ANY data flow on the class's
    event lists whose `getReport` returns the copied words and which meets the sequential contract "run alone from a store
    in which the two scalar members hold `a`, `b` and the key word is `name` (`repK`), a call keeps `repK` and leaves in the
    report the words of the translated function's stored (message, status, info)" (`G a b name x` = the translated
    `evaluate`, `Src.C18.Checkup.timeout name` the translated `timeout`): on every schedule, any number of threads, every
    completed `getReport` returned the initial report or the words of ONE such call. -/
theorem source_report_copies_any_flow (L : RepLayout) (G : α → α → String → α → Int × String × Int × String)
    (fl : Flow (Word α) (RepOp α) (List (Word α)))
    (hls : L.c.linShaped = true) (hget : L.c.evsOf "getReport" = [.acq L.c.guard, .rd L.f, .rel L.c.guard])
    (hret : ∀ l, fl.ret l RepOp.getReport = locVec 4 1 l)
    (a b : α) (name : String) (σ0 : Store (Word α)) (h0 : repK L a b name σ0) (prog : Nat → List (RepOp α))
    (hmeth : ∀ t, ∀ op ∈ prog t, (L.c.methods.any fun m => m.name == op.method) = true)
    (hev : ∀ t x, RepOp.evaluate x ∈ prog t → ∀ σ, repK L a b name σ →
      repK L a b name (runCall σ (repCall L.c 4 fl (.evaluate x))).1 ∧
      vecOf 4 L.f (runCall σ (repCall L.c 4 fl (.evaluate x))).1 = repWords name (G a b name x).2)
    (hto : ∀ t, RepOp.timeout ∈ prog t → ∀ σ, repK L a b name σ →
      repK L a b name (runCall σ (repCall L.c 4 fl .timeout)).1 ∧
      vecOf 4 L.f (runCall σ (repCall L.c 4 fl .timeout)).1 = repWords name (Romea.Src.C18.Checkup.timeout name))
    (sch : List Nat) :
    CopiesFrom L.f σ0 prog (run (init σ0 (fun t => (prog t).map (repCall L.c 4 fl))) sch) name
      (fun x => (G a b name x).2) (Romea.Src.C18.Checkup.timeout name) := by
  intro th k r hk hop
  have := report_copy_consistent_called L.c hls L.f 4 fl (srcTriple G a b name) hget hret
    (repK L a b name) σ0 h0 prog
    (by intro t op hop σ hK
        cases op with
        | evaluate x => exact (hev t x hop σ hK).1
        | timeout => exact (hto t hop σ hK).1
        | getReport => rw [(rep_get L.c L.c.guard L.f 4 fl hget hret σ).1]; exact hK)
    (by intro t op hop e hw σ hK
        cases op with
        | evaluate x =>
          simp only [RepOp.written, Option.some.injEq] at hw; subst hw
          rw [srcTriple, pad_repWords]; exact (hev t x hop σ hK).2
        | timeout =>
          simp only [RepOp.written, Option.some.injEq] at hw; subst hw
          rw [srcTriple, pad_repWords]; exact (hto t hop σ hK).2
        | getReport => simp [RepOp.written] at hw)
    hmeth sch th k r hk hop
  rcases this with h | ⟨t', op, e, h1, h2, h3⟩
  · exact Or.inl h
  · cases op with
    | evaluate x =>
      simp only [RepOp.written, Option.some.injEq] at h2; subst h2
      exact Or.inr (Or.inl ⟨t', x, h1, by rw [h3, srcTriple, pad_repWords]⟩)
    | timeout =>
      simp only [RepOp.written, Option.some.injEq] at h2; subst h2
      exact Or.inr (Or.inr ⟨t', h1, by rw [h3, srcTriple, pad_repWords]⟩)
    | getReport => simp [RepOp.written] at h2

/-- **Report copies of the flow computed by the translated functions** (`srcFlow`): no sequential hypothesis is left — only
    the decidable checks on the regenerated event lists (`okE` if some thread evaluates, `okT` if some thread times out). -/
theorem source_report_copies (L : RepLayout) (G : α → α → String → α → Int × String × Int × String)
    (hls : L.c.linShaped = true) (hget : L.c.evsOf "getReport" = [.acq L.c.guard, .rd L.f, .rel L.c.guard])
    (a b : α) (name : String) (σ0 : Store (Word α)) (h0 : repK L a b name σ0) (prog : Nat → List (RepOp α))
    (hE : ∀ t x, RepOp.evaluate x ∈ prog t → L.okE = true) (hT : ∀ t, RepOp.timeout ∈ prog t → L.okT = true)
    (sch : List Nat) :
    CopiesFrom L.f σ0 prog (run (init σ0 (fun t => (prog t).map (repCall L.c 4 (srcFlow L G)))) sch) name
      (fun x => (G a b name x).2) (Romea.Src.C18.Checkup.timeout name) :=
  source_report_copies_any_flow L G (srcFlow L G) hls hget (fun _ => rfl) a b name σ0 h0 prog
    (called_is_method L hget prog hE hT)
    (fun t x hx σ hK => ⟨(srcFlow_evaluate L G (hE t x hx) a b name x σ hK).1, (srcFlow_evaluate L G (hE t x hx) a b name x σ hK).2.1⟩)
    (fun t ht σ hK => srcFlow_timeout L G (hT t ht) a b name σ hK) sch

/-- **What `evaluate` returns, on every schedule**: the `k`-th call of a thread, if it is `evaluate(v)` and has completed,
    returned the status the translated function returns for `v` — the status of ITS OWN classification, whatever the other
    threads did meanwhile. -/
theorem source_evaluate_returns (L : RepLayout) (G : α → α → String → α → Int × String × Int × String)
    (hls : L.c.linShaped = true) (hget : L.c.evsOf "getReport" = [.acq L.c.guard, .rd L.f, .rel L.c.guard])
    (a b : α) (name : String) (σ0 : Store (Word α)) (h0 : repK L a b name σ0) (prog : Nat → List (RepOp α))
    (hE : ∀ t x, RepOp.evaluate x ∈ prog t → L.okE = true) (hT : ∀ t, RepOp.timeout ∈ prog t → L.okT = true)
    (sch : List Nat) (th k : Nat) (r : Option (List (Word α))) (v : α)
    (hk : ((run (init σ0 (fun t => (prog t).map (repCall L.c 4 (srcFlow L G)))) sch).thr th).done[k]? = some r)
    (hop : (prog th)[k]? = some (RepOp.evaluate v)) :
    r = some [.int (G a b name v).1] := by
  have hv : RepOp.evaluate v ∈ prog th := List.mem_of_getElem? hop
  have := (observed_in_consistent_state L.c.guard σ0 _
    (shape_of_called L.c hls 4 (srcFlow L G) prog (called_is_method L hget prog hE hT))
    (repK L a b name) h0 (by
      intro t cl hcl σ hσ
      simp only [List.mem_map] at hcl
      obtain ⟨op, hop, rfl⟩ := hcl
      cases op with
      | evaluate x => exact (srcFlow_evaluate L G (hE t x hop) a b name x σ hσ).1
      | timeout => exact (srcFlow_timeout L G (hT t hop) a b name σ hσ).1
      | getReport => rw [(rep_get L.c L.c.guard L.f 4 (srcFlow L G) hget (fun _ => rfl) σ).1]; exact hσ) sch).2 th k r hk
  obtain ⟨cl, σ, hcl, hσ, hr⟩ := this
  have : cl = repCall L.c 4 (srcFlow L G) (RepOp.evaluate v) := by
    simp only [List.getElem?_map, hop, Option.map_some, Option.some.injEq] at hcl
    exact hcl.symm
  rw [this, (srcFlow_evaluate L G (hE th v hv) a b name v σ hσ).2.2] at hr
  exact hr

end Source

/-! ## today's tables: the four check-up classes that are in the lock table AND in the translation -/

/-- field number of the member called `n` in a class of the regenerated table (`fields_<Class>`: the member names by field
    number, emitted by `tools/gen_locktable.py` next to the event lists; the numbering follows the order of first access and
    changes under harmless edits, the names do not) -/
def fieldOf (names : List String) (n : String) : Nat := names.idxOf n

/-- where the four classes keep their report and the two scalars `evaluate` compares with, BY MEMBER NAME -/
def layEqualTo : RepLayout :=
  ⟨cls_CheckupEqualTo, fieldOf fields_CheckupEqualTo "report_", fieldOf fields_CheckupEqualTo "value_to_compare_with_",
    fieldOf fields_CheckupEqualTo "epsilon_"⟩
def layGreaterThan : RepLayout :=
  ⟨cls_CheckupGreaterThan, fieldOf fields_CheckupGreaterThan "report_", fieldOf fields_CheckupGreaterThan "value_to_compare_with_",
    fieldOf fields_CheckupGreaterThan "epsilon_"⟩
def layLowerThan : RepLayout :=
  ⟨cls_CheckupLowerThan, fieldOf fields_CheckupLowerThan "report_", fieldOf fields_CheckupLowerThan "value_to_compare_with_",
    fieldOf fields_CheckupLowerThan "epsilon_"⟩
def layReliability : RepLayout :=
  ⟨cls_CheckupReliability, fieldOf fields_CheckupReliability "report_", fieldOf fields_CheckupReliability "low_reliability_theshold_",
    fieldOf fields_CheckupReliability "high_reliability_theshold_"⟩

/-- **The regenerated event lists of the four classes have what the flow needs** (re-checked by the kernel on every run):
    every method is one critical section on guard 0, `getReport` is `acq, rd report, rel`,
    `evaluate` has a write event of the report preceded by a read of each of the two scalar members (`okE`), and the three
    `Checkup<T>` classes have a `timeout` with a write event of the report (`okT`; `CheckupReliability` has no `timeout`);
    the members the layouts name exist. -/
theorem layouts_ok :
    (∀ L ∈ [layEqualTo, layGreaterThan, layLowerThan, layReliability],
      L.c.linShaped = true ∧ L.c.guard = 0 ∧
      L.c.evsOf "getReport" = [.acq 0, .rd L.f, .rel 0] ∧ L.okE = true) ∧
    (∀ L ∈ [layEqualTo, layGreaterThan, layLowerThan], L.okT = true) ∧
    layReliability.okT = false ∧ layReliability.evT = [] ∧
    (∀ ns ∈ [fields_CheckupEqualTo, fields_CheckupGreaterThan, fields_CheckupLowerThan],
      "report_" ∈ ns ∧ "value_to_compare_with_" ∈ ns ∧ "epsilon_" ∈ ns) ∧
    "report_" ∈ fields_CheckupReliability ∧ "low_reliability_theshold_" ∈ fields_CheckupReliability ∧
    "high_reliability_theshold_" ∈ fields_CheckupReliability := by decide

/-- the four classes are entries of the regenerated table (the objects `table_disciplined` / `table_lin_shaped` speak about) -/
theorem layouts_in_table : ∀ L ∈ [layEqualTo, layGreaterThan, layLowerThan, layReliability], L.c ∈ Romea.Generated.C19.table := by
  simp [Romea.Generated.C19.table, layEqualTo, layGreaterThan, layLowerThan, layReliability]

/-- the translated `evaluate` of each class as a function of (member `f1`, member `f2`, name, argument) -/
def srcEqualTo {α : Type} [Add α] [Sub α] [LT α] [DecidableLT α] (tsi : α → String) (t e : α) (name : String) (v : α) :=
  Romea.Src.C18.CheckupEqualTo.evaluate e name tsi v t
def srcGreaterThan {α : Type} [Sub α] [LT α] [DecidableLT α] (tsi : α → String) (t e : α) (name : String) (v : α) :=
  Romea.Src.C18.CheckupGreaterThan.evaluate e name tsi v t
def srcLowerThan {α : Type} [Add α] [LT α] [DecidableLT α] (tsi : α → String) (t e : α) (name : String) (v : α) :=
  Romea.Src.C18.CheckupLowerThan.evaluate e name tsi v t
def srcReliability {α : Type} [LT α] [DecidableLT α] (tsi : α → String) (lo hi : α) (name : String) (v : α) :=
  Romea.Src.C18.CheckupReliability.evaluate hi lo v name tsi

section Today
variable {α : Type} [Inhabited α] [LT α] [DecidableLT α]

/-- the three facts about a layout the general theorems ask for -/
theorem lay_facts (L : RepLayout) (hL : L ∈ [layEqualTo, layGreaterThan, layLowerThan, layReliability]) :
    L.c.linShaped = true ∧ L.c.evsOf "getReport" = [.acq L.c.guard, .rd L.f, .rel L.c.guard] ∧ L.okE = true := by
  obtain ⟨h2, h3, h4, h5⟩ := layouts_ok.1 L hL
  exact ⟨h2, by rw [h3]; exact h4, h5⟩

/-- **`CheckupEqualTo`, unconditionally for today's tables and today's translated source**: thresholds `t`, `ε` and name
    `name` in the store (`repK`), ANY number of threads each running ANY list of `evaluate(v)` / `timeout()` / `getReport()`
    calls, EVERY schedule: every completed `getReport` returned the initial report, or the (message, status, info) that
    `Src.C18.CheckupEqualTo.evaluate ε name tsi v t` stores for the `v` of ONE `evaluate` call made by some thread, or what
    `Src.C18.Checkup.timeout name` stores — status, message and value belong to the same evaluation. -/
theorem equalTo_report_copies_today [Add α] [Sub α] (tsi : α → String) (t ε : α) (name : String) (σ0 : Store (Word α))
    (h0 : repK layEqualTo t ε name σ0) (prog : Nat → List (RepOp α)) (sch : List Nat) :
    CopiesFrom layEqualTo.f σ0 prog
      (run (init σ0 (fun th => (prog th).map (repCall cls_CheckupEqualTo 4 (srcFlow layEqualTo (srcEqualTo tsi))))) sch) name
      (fun v => (Romea.Src.C18.CheckupEqualTo.evaluate ε name tsi v t).2) (Romea.Src.C18.Checkup.timeout name) :=
  source_report_copies layEqualTo (srcEqualTo tsi) (lay_facts _ (by simp)).1 (lay_facts _ (by simp)).2.1 t ε name σ0 h0 prog
    (fun _ _ _ => (lay_facts _ (by simp)).2.2) (fun _ _ => layouts_ok.2.1 _ (by simp)) sch

/-- **`CheckupGreaterThan`**, likewise -/
theorem greaterThan_report_copies_today [Sub α] (tsi : α → String) (t ε : α) (name : String) (σ0 : Store (Word α))
    (h0 : repK layGreaterThan t ε name σ0) (prog : Nat → List (RepOp α)) (sch : List Nat) :
    CopiesFrom layGreaterThan.f σ0 prog
      (run (init σ0 (fun th => (prog th).map (repCall cls_CheckupGreaterThan 4 (srcFlow layGreaterThan (srcGreaterThan tsi))))) sch)
      name (fun v => (Romea.Src.C18.CheckupGreaterThan.evaluate ε name tsi v t).2) (Romea.Src.C18.Checkup.timeout name) :=
  source_report_copies layGreaterThan (srcGreaterThan tsi) (lay_facts _ (by simp)).1 (lay_facts _ (by simp)).2.1 t ε name σ0 h0
    prog (fun _ _ _ => (lay_facts _ (by simp)).2.2) (fun _ _ => layouts_ok.2.1 _ (by simp)) sch

/-- **`CheckupLowerThan`**, likewise -/
theorem lowerThan_report_copies_today [Add α] (tsi : α → String) (t ε : α) (name : String) (σ0 : Store (Word α))
    (h0 : repK layLowerThan t ε name σ0) (prog : Nat → List (RepOp α)) (sch : List Nat) :
    CopiesFrom layLowerThan.f σ0 prog
      (run (init σ0 (fun th => (prog th).map (repCall cls_CheckupLowerThan 4 (srcFlow layLowerThan (srcLowerThan tsi))))) sch)
      name (fun v => (Romea.Src.C18.CheckupLowerThan.evaluate ε name tsi v t).2) (Romea.Src.C18.Checkup.timeout name) :=
  source_report_copies layLowerThan (srcLowerThan tsi) (lay_facts _ (by simp)).1 (lay_facts _ (by simp)).2.1 t ε name σ0 h0
    prog (fun _ _ _ => (lay_facts _ (by simp)).2.2) (fun _ _ => layouts_ok.2.1 _ (by simp)) sch

/-- **`CheckupReliability`** (thresholds `lo`, `hi`; the class has no `timeout`, so the threads call `evaluate` and
    `getReport` only): every completed `getReport` returned the initial report or what
    `Src.C18.CheckupReliability.evaluate hi lo v name tsi` stores for the `v` of ONE `evaluate` call. -/
theorem reliability_report_copies_today (tsi : α → String) (lo hi : α) (name : String) (σ0 : Store (Word α))
    (h0 : repK layReliability lo hi name σ0) (prog : Nat → List (RepOp α)) (hnt : ∀ th, RepOp.timeout ∉ prog th)
    (sch : List Nat) :
    ∀ (th k : Nat) (r : Option (List (Word α))),
      ((run (init σ0 (fun th => (prog th).map
        (repCall cls_CheckupReliability 4 (srcFlow layReliability (srcReliability tsi))))) sch).thr th).done[k]? = some r →
      (prog th)[k]? = some RepOp.getReport →
      r = some (vecOf 4 layReliability.f σ0) ∨
      ∃ th' v, RepOp.evaluate v ∈ prog th' ∧
        r = some (repWords name (Romea.Src.C18.CheckupReliability.evaluate hi lo v name tsi).2) := by
  intro th k r hk hop
  have := source_report_copies layReliability (srcReliability tsi) (lay_facts _ (by simp)).1 (lay_facts _ (by simp)).2.1
    lo hi name σ0 h0 prog (fun _ _ _ => (lay_facts _ (by simp)).2.2) (fun t ht => absurd ht (hnt t)) sch th k r hk hop
  rcases this with h | ⟨t', v, h1, h2⟩ | ⟨t', h1, _⟩
  · exact Or.inl h
  · exact Or.inr ⟨t', v, h1, h2⟩
  · exact absurd h1 (hnt t')

/-- **`evaluate` returns the status of its own classification on every schedule** (the four classes; `which` selects the
    layout and the translated function) -/
theorem evaluate_returns_today [Add α] [Sub α] (tsi : α → String) (a b : α) (name : String) (L : RepLayout)
    (G : α → α → String → α → Int × String × Int × String)
    (hL : (L, G) ∈ [(layEqualTo, srcEqualTo tsi), (layGreaterThan, srcGreaterThan tsi), (layLowerThan, srcLowerThan tsi),
      (layReliability, srcReliability tsi)])
    (σ0 : Store (Word α)) (h0 : repK L a b name σ0) (prog : Nat → List (RepOp α))
    (hnt : L = layReliability → ∀ th, RepOp.timeout ∉ prog th) (sch : List Nat)
    (th k : Nat) (r : Option (List (Word α))) (v : α)
    (hk : ((run (init σ0 (fun t => (prog t).map (repCall L.c 4 (srcFlow L G)))) sch).thr th).done[k]? = some r)
    (hop : (prog th)[k]? = some (RepOp.evaluate v)) :
    r = some [.int (G a b name v).1] := by
  have hmem : L ∈ [layEqualTo, layGreaterThan, layLowerThan, layReliability] := by
    simp only [List.mem_cons, Prod.mk.injEq, List.not_mem_nil, or_false] at hL ⊢
    rcases hL with h | h | h | h <;> simp [h.1]
  have hT : ∀ t, RepOp.timeout ∈ prog t → L.okT = true := by
    intro t ht
    simp only [List.mem_cons, List.not_mem_nil, or_false] at hmem
    rcases hmem with h | h | h | h
    · exact layouts_ok.2.1 L (by simp [h])
    · exact layouts_ok.2.1 L (by simp [h])
    · exact layouts_ok.2.1 L (by simp [h])
    · exact absurd ht (hnt h t)
  exact source_evaluate_returns L G (lay_facts L hmem).1 (lay_facts L hmem).2.1 a b name σ0 h0 prog
    (fun _ _ _ => (lay_facts L hmem).2.2) hT sch th k r v hk hop

end Today

/-! ## Non-vacuity: the semantics run on a concrete 2-thread schedule of TODAY's bodies with the TRANSLATED flow

(addresses and step counts are computed from the regenerated table, so that a harmless edit of `evaluate` that renumbers
members or shifts event positions does not break an EXAMPLE) -/

section Examples

/-- a `CheckupGreaterThan<Int>` named "speed" with threshold 10, epsilon 0, in its constructed state (STALE, "", "") -/
private def gtStore : Store (Word Int) := fun ad =>
  if ad = (layGreaterThan.f1, 0) then .num 10 else if ad = (layGreaterThan.f2, 0) then .num 0
  else if ad = (layGreaterThan.f, 0) then .int 3 else if ad = (layGreaterThan.f, 3) then .str "speed"
  else if ad.1 = layGreaterThan.f then .str "" else default

private def gtFl : Flow (Word Int) (RepOp Int) (List (Word Int)) := srcFlow layGreaterThan (srcGreaterThan (fun v => toString v))

/-- thread 1 evaluates 20, thread 2 reads the report -/
private def gtProg : Nat → List (RepOp Int) := fun t => if t = 1 then [.evaluate 20] else if t = 2 then [.getReport] else []

private def gtInit := init gtStore (fun t => (gtProg t).map (repCall cls_CheckupGreaterThan 4 gtFl))

example : repK layGreaterThan (10 : Int) 0 "speed" gtStore := by
  refine ⟨?_, ?_, ?_⟩ <;> decide

/-- the hypotheses of the general theorems are met by today's tables (so the `…_today` theorems are not vacuous) -/
example := greaterThan_report_copies_today (fun v : Int => toString v) 10 0 "speed" gtStore
  (by refine ⟨?_, ?_, ?_⟩ <;> decide) gtProg

/- on 2026-09-30 the layouts evaluate to: `CheckupEqualTo/GreaterThan/LowerThan` report 3, scalars 1, 2; `CheckupReliability`
   report 2, scalars 1, 3; committing event / reads used: GreaterThan, LowerThan `pe = 11, p1 = 1, p2 = 2, pt = 5`; EqualTo
   `pe = 17, p1 = 7, p2 = 8`; Reliability `pe = 16, p1 = 1, p2 = 6` (not pinned by an example: they follow the table) -/

/-- steps of thread 1 up to the MIDDLE of the committing event of `evaluate(20)`: the call, the events before the commit,
    its four word reads and TWO of its four word writes; then thread 2 is scheduled three times -/
private def midSch : List Nat :=
  List.replicate (1 + (segSteps 4 gtFl 0 (layGreaterThan.evE.take layGreaterThan.pe)).length + 4 + 2) 1 ++ [2, 2, 2]
/-- enough steps for thread 1 to finish (a finished thread does not move) -/
private def finish1 : List Nat := List.replicate ((ofEvents 4 gtFl layGreaterThan.evE).length + 2) 1

set_option maxRecDepth 40000 in
/-- status and message of the new evaluation are written, the printed value is not yet: the report in the store is TORN
    (new status / message, old empty value), the mutex is held by thread 1, and thread 2 — blocked at its `acq` — has
    returned nothing -/
example : vecOf 4 layGreaterThan.f (run gtInit midSch).store = [.int 0, .str "speed is OK.", .str "", .str "speed"] ∧
    (run gtInit midSch).locks 0 = some 1 ∧ ((run gtInit midSch).thr 2).done = [] := by
  decide

set_option maxRecDepth 40000 in
/-- … thread 1 finishes, thread 2 gets the mutex and copies: the copy is whole — the words the translated
    `CheckupGreaterThan::evaluate` computes for 20 (OK = 0, "speed is OK.", "20") — and `evaluate` returned OK -/
example : ((run gtInit (midSch ++ finish1 ++ List.replicate 8 2)).thr 2).done
      = [some [.int 0, .str "speed is OK.", .str "20", .str "speed"]] ∧
    ((run gtInit (midSch ++ finish1 ++ List.replicate 8 2)).thr 1).done = [some [.int 0]] := by
  decide

set_option maxRecDepth 40000 in
/-- the reader wins the race (thread 1 is blocked twice): it copies the constructed report (STALE, "", ""), the first
    disjunct of the theorems; a value below the threshold is classified ERROR / " is too low." -/
example : ((run gtInit ([1, 2, 2, 1, 1] ++ List.replicate 7 2 ++ finish1)).thr 2).done
      = [some [.int 3, .str "", .str "", .str "speed"]] ∧
    (runCall gtStore (repCall cls_CheckupGreaterThan 4 gtFl (.evaluate 7))).2 = some [.int 2] ∧
    vecOf 4 layGreaterThan.f (runCall gtStore (repCall cls_CheckupGreaterThan 4 gtFl (.evaluate 7))).1
      = [.int 2, .str "speed is too low.", .str "7", .str "speed"] := by
  decide

end Examples

end Romea.C19
