import RomeaModel.WrapGrid
import RomeaProofs.Lemmas.C15Arith
import RomeaProofs.Lemmas.C15Grid
import RomeaProofs.Lemmas.C15Spec
import RomeaProofs.Lemmas.C15Map
import Mathlib.Data.List.Induction

/-!
# C15 — the scrolling (wrappable) grid keeps surviving cells and blanks entering cells after any scrolls

Model: `RomeaModel/WrapGrid.lean` (`WGrid`: dims, offsets, linear buffer; `get`/`set` through wrap + linearisation;
`translate` as the axis loop with its slab blanking fold). Specification: `Spec` in the same file — a window
`List Nat → T` that `Spec.translate δ e` re-indexes by `δ`, reading `e` where `i + δ` is outside.

Everything below is for ALL numbers of axes, sizes, offsets, offset signs and history lengths (no bound):
the only hypotheses are well-formedness of the grid (`WF`: every stored offset below its number of cells, one buffer
slot per cell — established by the constructor, theorem `init_wf`), `SizeOK` (every axis has fewer than 2^62 cells —
a `std::vector` cannot be larger) and, per operation, the asserted preconditions (`OpOK`: a written index is in range,
an offset vector has one entry per axis and each entry fits a C++ `int`).

The value type `T` is arbitrary. Integer arithmetic is exact: the `long long` / `size_t` computations of `translate`
are modelled with their wrap-arounds written out, and `no_overflow` proves that on the side conditions no signed
operation leaves the 64-bit range and every written-out wrap-around is the identity.
-/
namespace Romea.C15
open Romea.WrapGrid Romea.C15Arith Romea.C15Grid Romea.C15Spec Romea.C15Map

variable {T : Type}

/-! ## The axis loop -/

private theorem translate_fold [Inhabited T] (g : WGrid T) (h : WF g) (hs : SizeOK g.dims) (δ : List Int)
    (hδ : δ.length = g.dims.length) (e : T) (m : Nat) (hm : m ≤ g.dims.length) :
    WF ((List.range m).foldl (fun g a => g.translateAxis a (δ.getD a 0) e) g) ∧
    ((List.range m).foldl (fun g a => g.translateAxis a (δ.getD a 0) e) g).dims = g.dims ∧
    (∀ a, ((List.range m).foldl (fun g a => g.translateAxis a (δ.getD a 0) e) g).off.getD a 0 =
      if a < m then offAfter (g.dims.getD a 0) (g.off.getD a 0) (δ.getD a 0) else g.off.getD a 0) ∧
    ∀ i, InRange g.dims i →
      ((List.range m).foldl (fun g a => g.translateAxis a (δ.getD a 0) e) g).get i =
        Spec.translate g.dims (partialδ δ m) e g.get i := by
  induction m with
  | zero =>
    refine ⟨h, rfl, fun a => by simp, fun i hi => ?_⟩
    rw [partialδ_zero, hδ, translate_zeros _ _ _ _ hi]
    rfl
  | succ m ih =>
    obtain ⟨hwf, hdims, hoff, hget⟩ := ih (by omega)
    rw [List.range_succ, List.foldl_append, List.foldl_cons, List.foldl_nil]
    generalize (List.range m).foldl (fun g a => g.translateAxis a (δ.getD a 0) e) g = gm at hwf hdims hoff hget
    have hmlt : m < gm.dims.length := by rw [hdims]; omega
    have hs' : SizeOK gm.dims := by rw [hdims]; exact hs
    refine ⟨translateAxis_wf hwf hs' m hmlt _ e, by rw [translateAxis_dims, hdims], fun a => ?_, fun i hi => ?_⟩
    · rw [translateAxis_off, getD_set_nat]
      have hol : gm.off.length = g.dims.length := by rw [inRange_length hwf.off_lt, hdims]
      have hm0 : gm.off.getD m 0 = g.off.getD m 0 := by rw [hoff m, if_neg (Nat.lt_irrefl m)]
      by_cases ha : a = m
      · rw [ha, if_pos ⟨rfl, by omega⟩, if_pos (Nat.lt_succ_self _), hdims, hm0]
      · rw [if_neg (fun hc => ha hc.1), hoff a]
        by_cases ha2 : a < m
        · rw [if_pos ha2, if_pos (by omega)]
        · rw [if_neg ha2, if_neg (by omega)]
    · have hi' : InRange gm.dims i := by rw [hdims]; exact hi
      rw [translateAxis_get hwf hs' m hmlt _ e hi', hdims,
        specAxis_congr g.dims m _ e gm.get _ hget i hi,
        compose_axis g.dims _ m _ e g.get i hi (by rw [partialδ_length _ _ (by omega), hδ]) (by omega) (partialδ_getD δ m),
        partialδ_succ δ m (by omega)]

/-! ## Property theorems -/

/-- **The constructor establishes well-formedness** (offsets zero, `buffer_.resize(prod)`), for positive sizes. -/
theorem init_wf (dims : List Nat) (hpos : ∀ n ∈ dims, 0 < n) (v : T) :
    WF (WGrid.init dims v) ∧ (WGrid.init dims v).dims = dims := by
  refine ⟨⟨?_, by simp [WGrid.init]⟩, rfl⟩
  show InRange dims (dims.map (fun _ => 0))
  induction dims with
  | nil => simp [InRange]
  | cons n ns ih =>
    simp only [List.map_cons, InRange]
    exact ⟨hpos n (by simp), ih (fun k hk => hpos k (by simp [hk]))⟩

/-- **translate refines the specification** (DESIGN: `translate_refines`). For every well-formed grid, every offset vector
    (one entry per axis, any sign, any magnitude) and every empty value: well-formedness and the sizes are kept, and
    every in-range cell reads `Spec.translate` of what the grid read before — the cell of logical index `i` reads what
    `i + δ` read if `i + δ` is inside the window on every axis, else `e`. -/
theorem translate_refines [Inhabited T] (g : WGrid T) (h : WF g) (hs : SizeOK g.dims) (δ : List Int)
    (hδ : δ.length = g.dims.length) (e : T) :
    WF (g.translate δ e) ∧ (g.translate δ e).dims = g.dims ∧
    ∀ i, InRange g.dims i → (g.translate δ e).get i = Spec.translate g.dims δ e g.get i := by
  obtain ⟨h1, h2, _, h4⟩ := translate_fold g h hs δ hδ e g.dims.length (Nat.le_refl _)
  refine ⟨h1, h2, fun i hi => ?_⟩
  have := h4 i hi
  rw [show partialδ δ g.dims.length = δ by rw [← hδ]; exact partialδ_full δ] at this
  exact this

/-- the reported offset after one `translate`: old offset plus the translation, modulo the number of cells, per axis -/
theorem translate_offset [Inhabited T] (g : WGrid T) (h : WF g) (hs : SizeOK g.dims) (δ : List Int)
    (hδ : δ.length = g.dims.length) (e : T) (a : Nat) (ha : a < g.dims.length) :
    (((g.translate δ e).reportedOffset.getD a 0 : Nat) : Int) =
      ((g.off.getD a 0 : Int) + δ.getD a 0) % (g.dims.getD a 0 : Int) := by
  obtain ⟨_, _, h3, _⟩ := translate_fold g h hs δ hδ e g.dims.length (Nat.le_refl _)
  show (((g.translate δ e).off.getD a 0 : Nat) : Int) = _
  unfold WGrid.translate
  rw [h3 a, if_pos ha]
  exact (offAfter_eq _ _ _ (hs a) (inRange_getD a h.off_lt ha)).1

/-- **set refines the specification** (`set_refines`): writing an in-range cell changes that cell and no other. -/
theorem set_refines [Inhabited T] (g : WGrid T) (h : WF g) (j : List Nat) (hj : InRange g.dims j) (v : T) :
    WF (g.set j v) ∧ (g.set j v).dims = g.dims ∧ (g.set j v).off = g.off ∧
    ∀ i, InRange g.dims i → (g.set j v).get i = Spec.set j v g.get i := by
  refine ⟨⟨h.off_lt, by simp [WGrid.set, h.buf_len]⟩, rfl, rfl, fun i hi => ?_⟩
  show (g.buf.set (g.linIdx j) v).getD (g.linIdx i) default = _
  rw [getD_set_nat]
  unfold Spec.set
  by_cases hij : i = j
  · subst hij
    rw [if_pos ⟨rfl, pos_lt h hi⟩, if_pos rfl]
  · rw [if_neg (fun hc => hij (pos_inj h hi hj hc.1)), if_neg hij]
    rfl

/-! ## Histories -/

/-- the asserted preconditions of one operation: a written index is in range; an offset vector has one entry per axis,
    each fitting a C++ `int` -/
def OpOK (dims : List Nat) : Op T → Prop
  | .set j _ => InRange dims j
  | .tr δ _ => δ.length = dims.length ∧ ∀ d ∈ δ, Fits32 d

/-- the abstraction of a grid: what every logical index reads -/
def abs [Inhabited T] (g : WGrid T) : Window T := fun i => g.get i

private theorem spec_step_congr (dims : List Nat) (op : Op T) (w w' : Window T)
    (h : ∀ i, InRange dims i → w i = w' i) (i : List Nat) (hi : InRange dims i) :
    Spec.step dims w op i = Spec.step dims w' op i := by
  cases op with
  | set j v =>
    simp only [Spec.step, Spec.set]
    split
    · rfl
    · exact h i hi
  | tr δ e =>
    simp only [Spec.step, Spec.translate]
    split
    · rename_i hw
      exact h _ (of_inWindow hw []).1
    · rfl

private theorem step_refines [Inhabited T] (g : WGrid T) (h : WF g) (hs : SizeOK g.dims) (op : Op T) (hop : OpOK g.dims op) :
    WF (g.step op) ∧ (g.step op).dims = g.dims ∧
    ∀ i, InRange g.dims i → (g.step op).get i = Spec.step g.dims g.get op i := by
  cases op with
  | set j v =>
    obtain ⟨h1, h2, _, h4⟩ := set_refines g h j hop v
    exact ⟨h1, h2, h4⟩
  | tr δ e => exact translate_refines g h hs δ hop.1 e

private theorem history_gen [Inhabited T] (ops : List (Op T)) (g : WGrid T) (h : WF g) (hs : SizeOK g.dims)
    (hops : ∀ op ∈ ops, OpOK g.dims op) (w : Window T) (hw : ∀ i, InRange g.dims i → g.get i = w i) :
    WF (g.run ops) ∧ (g.run ops).dims = g.dims ∧
    ∀ i, InRange g.dims i → (g.run ops).get i = (ops.foldl (Spec.step g.dims) w) i := by
  induction ops generalizing g w with
  | nil => exact ⟨h, rfl, hw⟩
  | cons op rest ih =>
    obtain ⟨h1, h2, h3⟩ := step_refines g h hs op (hops op (by simp))
    have := ih (g.step op) h1 (by rw [h2]; exact hs) (by rw [h2]; intro o ho; exact hops o (by simp [ho]))
      (Spec.step g.dims w op) (by
        rw [h2]; intro i hi
        rw [h3 i hi]
        exact spec_step_congr g.dims op _ _ hw i hi)
    rw [h2] at this
    exact this

/-- **Every history refines the specification** (`history`). For any sequence of writes and translations (any length)
    meeting the asserted preconditions, run from any well-formed grid: the final grid is well-formed, has the same
    sizes, and every cell reads what the abstract window reads after the same sequence of abstract steps,
    `abs (ops.foldl step g₀) = ops.foldl Spec.step (abs g₀)` on every in-range index. -/
theorem history [Inhabited T] (ops : List (Op T)) (g₀ : WGrid T) (h : WF g₀) (hs : SizeOK g₀.dims)
    (hops : ∀ op ∈ ops, OpOK g₀.dims op) :
    WF (ops.foldl WGrid.step g₀) ∧ (ops.foldl WGrid.step g₀).dims = g₀.dims ∧
    ∀ i, InRange g₀.dims i → abs (ops.foldl WGrid.step g₀) i = (ops.foldl (Spec.step g₀.dims) (abs g₀)) i :=
  history_gen ops g₀ h hs hops (abs g₀) (fun _ _ => rfl)

/-- sum of the translations of a history along axis `a` -/
def sumDelta (a : Nat) : List (Op T) → Int
  | [] => 0
  | .set _ _ :: rest => sumDelta a rest
  | .tr δ _ :: rest => δ.getD a 0 + sumDelta a rest

/-- **The reported offset is the accumulated offset modulo the grid size** (`offset_accumulates`), per axis, after
    any history: `getIndexOffsetAlongAxes()[a] = (initial offset + Σ δ_a) mod n_a` (mathematical residue, also
    for negative sums). -/
theorem offset_accumulates [Inhabited T] (ops : List (Op T)) (g₀ : WGrid T) (h : WF g₀) (hs : SizeOK g₀.dims)
    (hops : ∀ op ∈ ops, OpOK g₀.dims op) (a : Nat) (ha : a < g₀.dims.length) :
    ((((ops.foldl WGrid.step g₀).reportedOffset.getD a 0 : Nat)) : Int) =
      ((g₀.off.getD a 0 : Int) + sumDelta a ops) % (g₀.dims.getD a 0 : Int) := by
  induction ops generalizing g₀ with
  | nil =>
    have := inRange_getD a h.off_lt ha
    simp only [List.foldl_nil, sumDelta, Int.add_zero, WGrid.reportedOffset]
    rw [Int.emod_eq_of_lt (by omega) (by exact_mod_cast this)]
  | cons op rest ih =>
    obtain ⟨h1, h2, _⟩ := step_refines g₀ h hs op (hops op (by simp))
    have := ih (g₀.step op) h1 (by rw [h2]; exact hs) (by rw [h2]; intro o ho; exact hops o (by simp [ho])) (by rw [h2]; exact ha)
    rw [List.foldl_cons, this, h2]
    cases op with
    | set j v => rfl
    | tr δ e =>
      have hok : OpOK g₀.dims (Op.tr δ e) := hops (Op.tr δ e) (by simp)
      have ht := translate_offset g₀ h hs δ hok.1 e a ha
      simp only [WGrid.reportedOffset] at ht
      simp only [WGrid.step, sumDelta]
      rw [ht, Int.emod_add_emod, Int.add_assoc]

/-- **The fixed-width arithmetic of `translate` is harmless** on the side conditions (offset fits a C++ `int`,
    `0 < n < 2^62`, stored offset below `n`): every `long long` intermediate of lines 134-160 fits 64 bits (no signed
    overflow), every `static_cast<size_t>` is applied to a non-negative value, no `size_t` addition wraps, the slab
    `[firstSlab, lastSlab)` is a non-empty part of the axis (so the do-while loop's unconditional first visit and all
    later ones are in range), and `wrappedOffset` is the mathematical residue. -/
theorem no_overflow (n o : Nat) (d : Int) (hn : 0 < n) (hn2 : n < 2 ^ 62) (ho : o < n) (hd : Fits32 d) :
    Fits64 d ∧ Fits64 (-d) ∧ Fits64 (n : Int) ∧ Fits64 (numberOfSlabs n d) ∧
    0 ≤ (n : Int) - numberOfSlabs n d ∧ Fits64 ((n : Int) - numberOfSlabs n d) ∧
    Fits64 (d.tmod n) ∧ Fits64 (d.tmod n + n) ∧
    wrappedOffset n d = d % (n : Int) ∧ 0 ≤ wrappedOffset n d ∧ wrappedOffset n d < n ∧
    firstSlab n d + toSizeT (numberOfSlabs n d) < two64 ∧ o + toSizeT (wrappedOffset n d) < two64 ∧
    (d ≠ 0 → firstSlab n d < lastSlab n d ∧ lastSlab n d ≤ n) := by
  have hn' : (0 : Int) < n := by exact_mod_cast hn
  have h1 := Int.lt_tmod_of_pos d hn'
  have h2 := Int.tmod_lt_of_pos d hn'
  have hw := wrappedOffset_eq n hn d
  have hw0 := Int.emod_nonneg d (Int.ne_of_gt hn')
  have hw1 := Int.emod_lt_of_pos d hn'
  have hk0 : 0 ≤ numberOfSlabs n d ∧ numberOfSlabs n d ≤ n := by unfold numberOfSlabs; split <;> omega
  unfold Fits32 at hd
  unfold Fits64
  refine ⟨by omega, by omega, by omega, by omega, by omega, by omega, by omega, by omega, hw, by omega, by omega, ?_, ?_, ?_⟩
  · rw [toSizeT_of_range _ hk0.1 (by omega)]
    have : firstSlab n d ≤ n := by
      unfold firstSlab
      split
      · omega
      · rw [toSizeT_of_range _ (by omega) (by omega)]; omega
    unfold two64; omega
  · rw [hw, toSizeT_of_range _ hw0 (by omega)]
    unfold two64; omega
  · intro hne
    by_cases hpos : 0 < d
    · obtain ⟨hf, hl⟩ := slab_pos n d hn2 hpos
      rw [hf, hl]; omega
    · obtain ⟨hf, hl⟩ := slab_neg n d hn2 (by omega)
      rw [hf, hl]; omega

/-- every buffer access of `operator()` and of the blanking loop of `translate` is inside the buffer -/
theorem accesses_in_bounds (g : WGrid T) (h : WF g) (hs : SizeOK g.dims) :
    (∀ i, InRange g.dims i → g.linIdx i < g.buf.length) ∧
    (∀ a, a < g.dims.length → ∀ d : Int, d ≠ 0 →
      ∀ c ∈ box (slabRanges g.dims a (firstSlab (g.dims.getD a 0) d) (lastSlab (g.dims.getD a 0) d)),
        g.linIdx c < g.buf.length) := by
  refine ⟨fun i hi => pos_lt h hi, fun a ha d hd c hc => ?_⟩
  have hlast : lastSlab (g.dims.getD a 0) d ≤ g.dims.getD a 0 := by
    by_cases hpos : 0 < d
    · rw [(slab_pos _ d (hs a) hpos).2]; omega
    · rw [(slab_neg _ d (hs a) (by omega)).2]
  exact pos_lt h (inRange_of_inBox_slab a _ _ hlast ((mem_box _ _).mp hc))

/-! ## The specification meets the English statement (unbounded-map reading)

Every window cell is tracked by its absolute map coordinate `mapCoord i A` = logical index + accumulated offset
(`accOff`). `Undisturbed dims c A post` says that the map location `c` is not written by the history `post` and is
still under the window after each of its translations. -/

private theorem lenOK_of_opOK {dims : List Nat} {op : Op T} (h : OpOK dims op) : LenOK dims op := by
  cases op with
  | set j v => exact h
  | tr δ e => exact h.1

private theorem accOff_snoc_set (A : List Int) (p : List (Op T)) (j : List Nat) (v : T) :
    accOff A (p ++ [Op.set j v]) = accOff A p := by
  rw [accOff_append]; rfl

private theorem accOff_snoc_tr (A : List Int) (p : List (Op T)) (δ : List Int) (e : T) :
    accOff A (p ++ [Op.tr δ e]) = vadd (accOff A p) δ := by
  rw [accOff_append]; rfl

/-- (1) a written cell that is not disturbed afterwards still reads the written value -/
private theorem written_survives (dims : List Nat) (w₀ : Window T) (A₀ : List Int) (hA : A₀.length = dims.length)
    (pre post : List (Op T)) (j : List Nat) (v : T)
    (hops : ∀ op ∈ pre ++ Op.set j v :: post, OpOK dims op) (i : List Nat) (hi : InRange dims i)
    (hjc : mapCoord j (accOff A₀ pre) = mapCoord i (accOff A₀ (pre ++ Op.set j v :: post)))
    (hu : Undisturbed dims (mapCoord i (accOff A₀ (pre ++ Op.set j v :: post))) (accOff A₀ pre) post) :
    ((pre ++ Op.set j v :: post).foldl (Spec.step dims) w₀) i = v := by
  have hpre : ∀ op ∈ pre, LenOK dims op := fun o ho => lenOK_of_opOK (hops o (by simp [ho]))
  have hpost : ∀ op ∈ post, LenOK dims op := fun o ho => lenOK_of_opOK (hops o (by simp [ho]))
  have hj : InRange dims j := hops (Op.set j v) (by simp)
  have hAp := accOff_length dims A₀ pre hA hpre
  have hacc : accOff A₀ (pre ++ Op.set j v :: post) = accOff (accOff A₀ pre) post := by
    rw [accOff_append]; rfl
  rw [hacc] at hjc hu
  rw [← hjc] at hu
  obtain ⟨i', hi', hc, hr⟩ := stay dims post (accOff A₀ pre) (Spec.set j v (pre.foldl (Spec.step dims) w₀)) j hj hAp hpost hu
  have hii : i' = i := shift_inj hi' hi (accOff_length dims _ post hAp hpost) (hc.trans hjc)
  rw [List.foldl_append, List.foldl_cons]
  simp only [Spec.step]
  rw [← hii, hr]
  simp [Spec.set]

/-- (2) a cell brought under the window by a translation and not disturbed afterwards reads that translation's
    empty value -/
private theorem entering_reads_empty (dims : List Nat) (w₀ : Window T) (A₀ : List Int) (hA : A₀.length = dims.length)
    (pre post : List (Op T)) (δ : List Int) (e : T)
    (hops : ∀ op ∈ pre ++ Op.tr δ e :: post, OpOK dims op) (i : List Nat) (hi : InRange dims i)
    (hout : inWindow dims (vsub (mapCoord i (accOff A₀ (pre ++ Op.tr δ e :: post))) (accOff A₀ pre)) = false)
    (hu : Undisturbed dims (mapCoord i (accOff A₀ (pre ++ Op.tr δ e :: post))) (accOff A₀ pre) (Op.tr δ e :: post)) :
    ((pre ++ Op.tr δ e :: post).foldl (Spec.step dims) w₀) i = e := by
  have hpre : ∀ op ∈ pre, LenOK dims op := fun o ho => lenOK_of_opOK (hops o (by simp [ho]))
  have hpost : ∀ op ∈ post, LenOK dims op := fun o ho => lenOK_of_opOK (hops o (by simp [ho]))
  have hδ : δ.length = dims.length := (hops (Op.tr δ e) (by simp)).1
  have hAp := accOff_length dims A₀ pre hA hpre
  have hacc : accOff A₀ (pre ++ Op.tr δ e :: post) = accOff (vadd (accOff A₀ pre) δ) post := by
    rw [accOff_append]; rfl
  have hAq : (vadd (accOff A₀ pre) δ).length = dims.length := by simp [hAp, hδ]
  have hAe := accOff_length dims _ post hAq hpost
  rw [hacc] at hout hu
  generalize hc : mapCoord i (accOff (vadd (accOff A₀ pre) δ) post) = c at hout hu
  have hcl : c.length = dims.length := by rw [← hc]; simp [mapCoord, inRange_length hi, hAe]
  simp only [Undisturbed] at hu
  obtain ⟨hr1, hs1, _⟩ := of_inWindow hu.1 (vadd (accOff A₀ pre) δ)
  obtain ⟨_, hs2, _⟩ := of_inWindow hu.1 δ
  rw [vadd_vsub_cancel _ _ (by rw [hcl, hAq])] at hs1
  rw [vadd_vsub_vadd _ _ _ (by rw [hcl, hAp]) (by rw [hAp, hδ])] at hs2
  have hu2 : Undisturbed dims (mapCoord ((vsub c (vadd (accOff A₀ pre) δ)).map Int.toNat) (vadd (accOff A₀ pre) δ))
      (vadd (accOff A₀ pre) δ) post := by
    rw [show mapCoord ((vsub c (vadd (accOff A₀ pre) δ)).map Int.toNat) (vadd (accOff A₀ pre) δ) = c from hs1]
    exact hu.2
  obtain ⟨i', hi', hc', hr⟩ := stay dims post _ (Spec.translate dims δ e (pre.foldl (Spec.step dims) w₀)) _ hr1 hAq hpost hu2
  have hii : i' = i := shift_inj hi' hi hAe (hc'.trans (hs1.trans hc.symm))
  rw [List.foldl_append, List.foldl_cons]
  simp only [Spec.step]
  rw [← hii, hr]
  unfold Spec.translate
  rw [hs2, hout]
  simp

/-- (3) a cell whose map location was under the window from the start and is never disturbed reads the initial content -/
private theorem untouched_reads_initial (dims : List Nat) (w₀ : Window T) (A₀ : List Int) (hA : A₀.length = dims.length)
    (ops : List (Op T)) (hops : ∀ op ∈ ops, OpOK dims op) (i : List Nat) (hi : InRange dims i)
    (hin : inWindow dims (vsub (mapCoord i (accOff A₀ ops)) A₀) = true)
    (hu : Undisturbed dims (mapCoord i (accOff A₀ ops)) A₀ ops) :
    ∃ i₀, InRange dims i₀ ∧ mapCoord i₀ A₀ = mapCoord i (accOff A₀ ops) ∧
      (ops.foldl (Spec.step dims) w₀) i = w₀ i₀ := by
  have hl : ∀ op ∈ ops, LenOK dims op := fun o ho => lenOK_of_opOK (hops o ho)
  have hAe := accOff_length dims A₀ ops hA hl
  generalize hc : mapCoord i (accOff A₀ ops) = c at hin hu
  have hcl : c.length = dims.length := by rw [← hc]; simp [mapCoord, inRange_length hi, hAe]
  obtain ⟨hr1, hs1, _⟩ := of_inWindow hin A₀
  rw [vadd_vsub_cancel _ _ (by rw [hcl, hA])] at hs1
  have hu2 : Undisturbed dims (mapCoord ((vsub c A₀).map Int.toNat) A₀) A₀ ops := by
    rw [show mapCoord ((vsub c A₀).map Int.toNat) A₀ = c from hs1]; exact hu
  obtain ⟨i', hi', hc', hr⟩ := stay dims ops A₀ w₀ _ hr1 hA hl hu2
  have hii : i' = i := shift_inj hi' hi hAe (hc'.trans (hs1.trans hc.symm))
  exact ⟨_, hr1, hs1, by rw [← hii, hr]⟩

/-- (4) one of the three situations always applies (look at the last event that concerns the map location) -/
private theorem classify (dims : List Nat) (A₀ : List Int) (c : List Int) (pre : List (Op T)) :
    ∀ (post ops : List (Op T)), ops = pre ++ post →
      inWindow dims (vsub c (accOff A₀ pre)) = true → Undisturbed dims c (accOff A₀ pre) post →
      (∃ p j v q, ops = p ++ Op.set j v :: q ∧ mapCoord j (accOff A₀ p) = c ∧ Undisturbed dims c (accOff A₀ p) q) ∨
      (∃ p δ e q, ops = p ++ Op.tr δ e :: q ∧ inWindow dims (vsub c (accOff A₀ p)) = false ∧
          Undisturbed dims c (accOff A₀ p) (Op.tr δ e :: q)) ∨
      (inWindow dims (vsub c A₀) = true ∧ Undisturbed dims c A₀ ops) := by
  induction pre using List.reverseRecOn with
  | nil =>
    intro post ops hops hin hu
    right; right
    rw [hops]
    exact ⟨hin, hu⟩
  | append_singleton pre' op ih =>
    intro post ops hops hin hu
    have hops' : ops = pre' ++ (op :: post) := by rw [hops]; simp
    cases op with
    | set j v =>
      rw [accOff_snoc_set] at hin hu
      by_cases hjc : mapCoord j (accOff A₀ pre') = c
      · left; exact ⟨pre', j, v, post, hops', hjc, hu⟩
      · exact ih (Op.set j v :: post) ops hops' hin ⟨hjc, hu⟩
    | tr δ e =>
      rw [accOff_snoc_tr] at hin hu
      cases hb : inWindow dims (vsub c (accOff A₀ pre'))
      · right; left; exact ⟨pre', δ, e, post, hops', hb, ⟨hin, hu⟩⟩
      · exact ih (Op.tr δ e :: post) ops hops' hb ⟨hin, hu⟩

/-- **The specification implies the English statement** (`spec_meets_statement`). Run any history `ops` on the abstract
    window from content `w₀` with the window origin at map coordinate `A₀`, and look at any cell `i` at the end; let
    `c = i + accumulated offset` be its absolute map location. Then

    1. if some `set j v` of the history wrote that map location and the location was not disturbed afterwards (not
       written again, under the window after every later translation), the cell reads `v`;
    2. if some translation `tr δ e` of the history brought the location under the window (outside before it) and the
       location was not disturbed afterwards, the cell reads that translation's empty value `e`;
    3. if the location was under the window from the start and never disturbed, the cell reads the initial content;
    4. and one of these three situations always applies. -/
theorem spec_meets_statement (dims : List Nat) (w₀ : Window T) (A₀ : List Int) (hA : A₀.length = dims.length)
    (ops : List (Op T)) (hops : ∀ op ∈ ops, OpOK dims op) (i : List Nat) (hi : InRange dims i) :
    (∀ pre j v post, ops = pre ++ Op.set j v :: post →
        mapCoord j (accOff A₀ pre) = mapCoord i (accOff A₀ ops) →
        Undisturbed dims (mapCoord i (accOff A₀ ops)) (accOff A₀ pre) post →
        (ops.foldl (Spec.step dims) w₀) i = v) ∧
    (∀ pre δ e post, ops = pre ++ Op.tr δ e :: post →
        inWindow dims (vsub (mapCoord i (accOff A₀ ops)) (accOff A₀ pre)) = false →
        Undisturbed dims (mapCoord i (accOff A₀ ops)) (accOff A₀ pre) (Op.tr δ e :: post) →
        (ops.foldl (Spec.step dims) w₀) i = e) ∧
    (inWindow dims (vsub (mapCoord i (accOff A₀ ops)) A₀) = true →
        Undisturbed dims (mapCoord i (accOff A₀ ops)) A₀ ops →
        ∃ i₀, InRange dims i₀ ∧ mapCoord i₀ A₀ = mapCoord i (accOff A₀ ops) ∧
          (ops.foldl (Spec.step dims) w₀) i = w₀ i₀) ∧
    ((∃ pre j v post, ops = pre ++ Op.set j v :: post ∧
        mapCoord j (accOff A₀ pre) = mapCoord i (accOff A₀ ops) ∧
        Undisturbed dims (mapCoord i (accOff A₀ ops)) (accOff A₀ pre) post) ∨
     (∃ pre δ e post, ops = pre ++ Op.tr δ e :: post ∧
        inWindow dims (vsub (mapCoord i (accOff A₀ ops)) (accOff A₀ pre)) = false ∧
        Undisturbed dims (mapCoord i (accOff A₀ ops)) (accOff A₀ pre) (Op.tr δ e :: post)) ∨
     (inWindow dims (vsub (mapCoord i (accOff A₀ ops)) A₀) = true ∧
        Undisturbed dims (mapCoord i (accOff A₀ ops)) A₀ ops)) := by
  have hl : ∀ op ∈ ops, LenOK dims op := fun o ho => lenOK_of_opOK (hops o ho)
  have hAe := accOff_length dims A₀ ops hA hl
  refine ⟨?_, ?_, ?_, ?_⟩
  · intro pre j v post hsplit hjc hu
    subst hsplit
    exact written_survives dims w₀ A₀ hA pre post j v hops i hi hjc hu
  · intro pre δ e post hsplit hout hu
    subst hsplit
    exact entering_reads_empty dims w₀ A₀ hA pre post δ e hops i hi hout hu
  · intro hin hu
    exact untouched_reads_initial dims w₀ A₀ hA ops hops i hi hin hu
  · apply classify dims A₀ _ ops [] ops (by simp) ?_ trivial
    rw [mapCoord, vsub_shift_self _ _ (by rw [inRange_length hi, hAe])]
    exact (inWindow_natList hi).1

/-! ## Back to the grid -/

private theorem vadd_getD (A δ : List Int) (a : Nat) (h1 : a < A.length) (h2 : a < δ.length) :
    (vadd A δ).getD a 0 = A.getD a 0 + δ.getD a 0 := by
  induction a generalizing A δ with
  | zero =>
    cases A <;> cases δ <;> simp_all [vadd]
  | succ a ih =>
    cases A with
    | nil => simp at h1
    | cons x xs =>
      cases δ with
      | nil => simp at h2
      | cons d ds =>
        have := ih xs ds (by simpa using h1) (by simpa using h2)
        simpa [vadd] using this

/-- the accumulated offset vector of the map reading is, per axis, the start position plus the sum of the translations -/
theorem accOff_getD (dims : List Nat) (A : List Int) (ops : List (Op T)) (hA : A.length = dims.length)
    (hops : ∀ op ∈ ops, OpOK dims op) (a : Nat) (ha : a < dims.length) :
    (accOff A ops).getD a 0 = A.getD a 0 + sumDelta a ops := by
  induction ops generalizing A with
  | nil => simp [accOff, sumDelta]
  | cons op rest ih =>
    have h1 : OpOK dims op := hops op (by simp)
    have h2 : ∀ o ∈ rest, OpOK dims o := fun o ho => hops o (by simp [ho])
    cases op with
    | set j v => simpa [accOff, sumDelta] using ih A hA h2
    | tr δ e =>
      simp only [accOff, sumDelta]
      rw [ih (vadd A δ) (by simp [hA, h1.1]) h2, vadd_getD A δ a (by omega) (by rw [h1.1]; exact ha), Int.add_assoc]

/-- **The statement on the grid itself**: after any history run from a well-formed grid, with the window starting at
    the map origin, (1) a cell whose map location was written by `set j v` and not disturbed since reads `v`,
    (2) a cell whose map location was brought under the window by `translate δ e` and not disturbed since reads `e`,
    and the reported offset is the accumulated offset modulo the grid size. -/
theorem grid_meets_statement [Inhabited T] (g₀ : WGrid T) (h : WF g₀) (hs : SizeOK g₀.dims)
    (ops : List (Op T)) (hops : ∀ op ∈ ops, OpOK g₀.dims op) (i : List Nat) (hi : InRange g₀.dims i) :
    let A₀ : List Int := List.replicate g₀.dims.length 0
    (∀ pre j v post, ops = pre ++ Op.set j v :: post →
        mapCoord j (accOff A₀ pre) = mapCoord i (accOff A₀ ops) →
        Undisturbed g₀.dims (mapCoord i (accOff A₀ ops)) (accOff A₀ pre) post →
        (ops.foldl WGrid.step g₀).get i = v) ∧
    (∀ pre δ e post, ops = pre ++ Op.tr δ e :: post →
        inWindow g₀.dims (vsub (mapCoord i (accOff A₀ ops)) (accOff A₀ pre)) = false →
        Undisturbed g₀.dims (mapCoord i (accOff A₀ ops)) (accOff A₀ pre) (Op.tr δ e :: post) →
        (ops.foldl WGrid.step g₀).get i = e) ∧
    (∀ a, a < g₀.dims.length →
        ((((ops.foldl WGrid.step g₀).reportedOffset.getD a 0 : Nat)) : Int) =
          ((g₀.off.getD a 0 : Int) + (accOff A₀ ops).getD a 0) % (g₀.dims.getD a 0 : Int)) := by
  intro A₀
  have hA : A₀.length = g₀.dims.length := by simp [A₀]
  obtain ⟨_, _, hh⟩ := history ops g₀ h hs hops
  obtain ⟨s1, s2, _, _⟩ := spec_meets_statement g₀.dims (abs g₀) A₀ hA ops hops i hi
  have hread : (ops.foldl WGrid.step g₀).get i = (ops.foldl (Spec.step g₀.dims) (abs g₀)) i := hh i hi
  refine ⟨fun pre j v post a b c => by rw [hread]; exact s1 pre j v post a b c,
    fun pre δ e post a b c => by rw [hread]; exact s2 pre δ e post a b c, fun a ha => ?_⟩
  rw [offset_accumulates ops g₀ h hs hops a ha, accOff_getD g₀.dims A₀ ops hA hops a ha]
  have : A₀.getD a 0 = 0 := by
    simp only [A₀, List.getD_eq_getElem?_getD]
    rw [List.getElem?_replicate_of_lt ha]; rfl
  rw [this, Int.zero_add]

/-! ## Non-vacuity: concrete instances of the hypotheses and of the conclusions -/

private def g33 : WGrid Int :=
  (WGrid.init [3, 3] 0).run [.set [0, 0] 1, .set [1, 0] 2, .set [2, 0] 3, .set [0, 1] 4, .set [1, 1] 5, .set [2, 1] 6,
    .set [0, 2] 7, .set [1, 2] 8, .set [2, 2] 9]

example : WF (WGrid.init [3, 3] (0 : Int)) := (init_wf [3, 3] (by decide) 0).1
example : SizeOK [3, 3] := by intro a; rcases a with _ | _ | a <;> simp
example : OpOK (T := Int) [3, 3] (.tr [1, -4] 7) := ⟨rfl, by intro d hd; simp at hd; rcases hd with rfl | rfl <;> simp [Fits32]⟩
-- two successive (+1, 0) translations (the history that the code got wrong before the repair)
example : ((g33.translate [1, 0] (-1)).translate [1, 0] (-2)).logicalCells = [3, -1, -2, 6, -1, -2, 9, -1, -2] := by decide
example : ((g33.translate [1, 0] (-1)).translate [1, 0] (-2)).reportedOffset = [2, 0] := by decide
-- an offset below -n
example : (g33.translate [-4, 1] (-1)).logicalCells = [-1, -1, -1, -1, -1, -1, -1, -1, -1] ∧
    (g33.translate [-4, 1] (-1)).reportedOffset = [2, 1] := by decide
example : Spec.translate [3, 3] [1, -1] (0 : Int) g33.get [0, 1] = 2 := by decide
-- hypotheses of `spec_meets_statement` (1): written at map location (0,0), then the window slides by (-1, 0)
example : mapCoord [0, 0] (accOff [0, 0] ([] : List (Op Int))) =
      mapCoord [1, 0] (accOff [0, 0] [Op.set [0, 0] (7 : Int), Op.tr [-1, 0] 9]) ∧
    Undisturbed [3, 3] (mapCoord [1, 0] (accOff [0, 0] [Op.set [0, 0] (7 : Int), Op.tr [-1, 0] 9])) [0, 0]
      [Op.tr [-1, 0] (9 : Int)] := by
  refine ⟨by decide, ?_⟩
  simp only [Undisturbed]
  exact ⟨by decide, trivial⟩
example : (g33.run [Op.set [0, 0] 7, Op.tr [-1, 0] 9]).get [1, 0] = 7 ∧
    (g33.run [Op.set [0, 0] 7, Op.tr [-1, 0] 9]).get [0, 0] = 9 := by decide
example : numberOfSlabs 5 (-7) = 5 ∧ firstSlab 5 (-2) = 3 ∧ lastSlab 5 (-2) = 5 ∧ wrappedOffset 5 (-7) = 3 ∧
    newOffset 5 4 (-7) = 2 := by decide

end Romea.C15
