import RomeaModel.RayCast
import RomeaProofs.Lemmas.C14Steps
import RomeaProofs.Lemmas.C14RN

/-!
# C14 — ray casting visits a connected, in-bounds chain of cells covering the segment

Property theorems about the model `RomeaModel/RayCast.lean` of `RayCasting<Scalar, DIM>`
(src/containers/grid/RayTracing.cpp, as repaired by /repo 5c8bf28: per-axis count of the border crossings
still to be made, an exhausted axis carries the sentinel) on its `GridIndexMapping`.

Three groups of statements:

1. **Every scalar type, no hypothesis** (`history_independent*`, `castTo_depends_on_origin_only`,
   `starts_at_origin`, `coincident`): which members `setOriginPoint` / `setEndPoint` overwrite, by induction
   over operation sequences; the coincident case `o = e` (the C++ computes `0/0 = NaN`) gives the one-cell
   chain because the direction is never inspected.  `coincident_RN` spells the NaN out at `RN`.
2. **Every scalar type, counting argument** (`counted_*`): length `L1 + 1`, face adjacency, every cell inside
   the index box spanned by origin and end cell (hence inside the grid), last cell = the end point's cell.
   These hold at `Float`, `Float32`, `ℝ`, `RN` under the residual hypotheses collected in `Counted`:
   * `ord`  — `<` on the scalars is irreflexive and transitive (true of IEEE `<`; not provable in Lean for the
     opaque `Float` types, hence a hypothesis),
   * `pick` — `PickOK`: the decision tree never prefers the sentinel to a parameter below it
     (`pick2_ok`, `pick3d_ok`, `pick3f_ok` derive it from `ord` for the four C++ instantiations),
   * `below` — on every axis with crossings left the crossing parameter `tMax ⊕ k·tDelta` (`k <` number of
     crossings; finitely many floating-point values) is strictly below the sentinel: finite, not NaN,
   * `sign` — the step sign agrees with the order of the origin and end indexes on every axis they differ,
   * `idx`, `dim` — indexes below 2^29, at most three axes (the `int` arithmetic of the counts is exact).
   Rounding can no longer make the chain leave the grid or miss the end cell; what it can still do is the
   ORDER in which the crossings are taken (which is what `cells_are_crossed` is about).
3. **Reals** (`length`, `face_adjacent`, `in_bounds`, `ends_at_end`, `starts_in_origin_cell`: the counting
   theorems with all residual hypotheses discharged — `valid_counted`; `cells_are_crossed`: the closed
   extent of every visited cell contains a point of the segment).  Exact arithmetic on the values of the
   floats; the only partial operations on the path are the divisions by the ray length (`o ≠ e` gives
   `range > 0`) and by a direction component (only when the step on that axis is non-zero); both guards are
   discharged explicitly, Mathlib's `x / 0 = 0` is never relied on.  The sentinel is an arbitrary real
   `Big.M` with `range < Big.M`.  `SpecOK` (argmin, positive squared norm) is discharged for the four C++
   instantiations by `spec2_ok`, `spec3d_ok`, `spec3f_ok`.

Helper lemmas: `RomeaProofs/Lemmas/C14Basic.lean` (vectors, grid index map), `C14Count.lean` (counting
argument), `C14Axis.lean` (one axis), `C14Ray.lean` (fresh ray), `C14Steps.lean` (crossing order over ℝ).
-/
set_option linter.unusedSectionVars false

namespace Romea.C14
open Romea Romea.RayCast

variable {d : Nat}

/-- L1 (city-block) distance between two cells -/
def l1 (a b : Vec d Int) : Nat := ∑ i, (b.at i - a.at i).natAbs

/-! ## The per-instantiation parts satisfy what the theorems need -/

private theorem fin2_cases (i : Fin 2) : i = 0 ∨ i = 1 := by omega
private theorem fin3_cases (i : Fin 3) : i = 0 ∨ i = 1 ∨ i = 2 := by omega

theorem spec2_ok : SpecOK (spec2 : Spec 2 ℝ) where
  argmin := by
    intro t i
    show t.at (pick2 t) ≤ t.at i
    unfold pick2
    rcases fin2_cases i with rfl | rfl <;> split_ifs <;> linarith
  sq_pos := by
    intro v ⟨i, hi⟩
    show 0 < sqNorm2 v
    unfold sqNorm2
    rcases fin2_cases i with rfl | rfl
    · have := mul_self_pos.mpr hi; nlinarith [mul_self_nonneg (v.at 1)]
    · have := mul_self_pos.mpr hi; nlinarith [mul_self_nonneg (v.at 0)]

private theorem pick3_argmin (t : Vec 3 ℝ) (i : Fin 3) : t.at (pick3 t) ≤ t.at i := by
  unfold pick3
  rcases fin3_cases i with rfl | rfl | rfl <;> split_ifs <;> linarith

theorem spec3d_ok : SpecOK (spec3d : Spec 3 ℝ) where
  argmin := pick3_argmin
  sq_pos := by
    intro v ⟨i, hi⟩
    show 0 < sqNorm3L v
    unfold sqNorm3L
    have := mul_self_pos.mpr hi
    rcases fin3_cases i with rfl | rfl | rfl <;>
      nlinarith [mul_self_nonneg (v.at 0), mul_self_nonneg (v.at 1), mul_self_nonneg (v.at 2)]

theorem spec3f_ok : SpecOK (spec3f : Spec 3 ℝ) where
  argmin := pick3_argmin
  sq_pos := by
    intro v ⟨i, hi⟩
    show 0 < sqNorm3R v
    unfold sqNorm3R
    have := mul_self_pos.mpr hi
    rcases fin3_cases i with rfl | rfl | rfl <;>
      nlinarith [mul_self_nonneg (v.at 0), mul_self_nonneg (v.at 1), mul_self_nonneg (v.at 2)]

/-! ## Statements that hold for every scalar type (in particular `Float`, `Float32`, `ℝ`, `RN`) -/
section anyScalar
variable {α : Type} [Add α] [Sub α] [Mul α] [Div α] [LT α] [DecidableLT α]
  [NatCast α] [IntCast α] [OfScientific α] [Trans α] [Trunc α] [Limits α]

/-- `cast(o, e)` does not depend on the state of the caster at all: `setOriginPoint` + `setEndPoint`
    overwrite every member.  (Result AND final state.) -/
theorem history_independent (sp : Spec d α) (G : Grid d α) (s s' : State d α) (o e : Vec d α) :
    castOE sp G s o e = castOE sp G s' o e := rfl

/-- … in particular after ANY sequence of earlier operations on the same caster, including bare `next`
    calls, bare `cast()`s and `setOriginPoint` without `setEndPoint` -/
theorem history_independent_ops (sp : Spec d α) (G : Grid d α) (s s' : State d α) (ops ops' : List (Op d α))
    (o e : Vec d α) :
    (castOE sp G (runOps sp G s ops) o e).2 = (castOE sp G (runOps sp G s' ops') o e).2 := rfl

/-- `setOriginPoint(o); cast(e)` is `cast(o, e)`, whatever happened before -/
theorem castTo_after_setOrigin (sp : Spec d α) (G : Grid d α) (s s' : State d α) (ops : List (Op d α))
    (o e : Vec d α) :
    castTo sp G (setOrigin G (runOps sp G s ops) o) e = castOE sp G s' o e := rfl

private theorem stepAxis_origin (s : State d α) (c : Vec d Int) (a : Fin d) :
    (stepAxis s c a).1.o = s.o ∧ (stepAxis s c a).1.oIdx = s.oIdx := by
  unfold stepAxis
  dsimp only
  split_ifs <;> exact ⟨rfl, rfl⟩

private theorem steps_origin (sp : Spec d α) (k : Nat) (s : State d α) (c : Vec d Int) :
    (steps sp k s c).1.o = s.o ∧ (steps sp k s c).1.oIdx = s.oIdx := by
  induction k generalizing s c with
  | zero => exact ⟨rfl, rfl⟩
  | succ k ih =>
    have h1 := ih (next sp s c).1 (next sp s c).2
    have h2 := stepAxis_origin s c (sp.pick s.tMax)
    exact ⟨h1.1.trans h2.1, h1.2.trans h2.2⟩

private theorem cast_origin (sp : Spec d α) (s : State d α) :
    (RayCast.cast sp s).1.o = s.o ∧ (RayCast.cast sp s).1.oIdx = s.oIdx :=
  steps_origin sp _ s s.oIdx

/-- the origin set last (by `setOriginPoint` or `cast(o, e)`), if any -/
def lastOrigin : List (Op d α) → Option (Vec d α)
  | [] => none
  | op :: rest =>
    match lastOrigin rest with
    | some p => some p
    | none => match op with
      | .origin p => some p
      | .castOE o _ => some o
      | _ => none

private theorem stepOp_origin (sp : Spec d α) (G : Grid d α) (s : State d α) (op : Op d α) :
    ((stepOp sp G s op).o, (stepOp sp G s op).oIdx) =
      match op with
      | .origin p => (p, cellIndexes G p)
      | .castOE o _ => (o, cellIndexes G o)
      | _ => (s.o, s.oIdx) := by
  cases op with
  | origin p => rfl
  | endp p => rfl
  | cast => exact Prod.ext (cast_origin sp s).1 (cast_origin sp s).2
  | castTo e =>
    have := cast_origin sp (setEnd sp G s e)
    exact Prod.ext this.1 this.2
  | castOE o e =>
    have := cast_origin sp (setEnd sp G (setOrigin G s o) e)
    exact Prod.ext this.1 this.2
  | next c =>
    have := stepAxis_origin s c (sp.pick s.tMax)
    exact Prod.ext this.1 this.2

private theorem runOps_origin (sp : Spec d α) (G : Grid d α) (s : State d α) (ops : List (Op d α)) :
    ((runOps sp G s ops).o, (runOps sp G s ops).oIdx) =
      match lastOrigin ops with
      | some p => (p, cellIndexes G p)
      | none => (s.o, s.oIdx) := by
  induction ops generalizing s with
  | nil => rfl
  | cons op rest ih =>
    have h := ih (stepOp sp G s op)
    have hrun : runOps sp G s (op :: rest) = runOps sp G (stepOp sp G s op) rest := rfl
    rw [hrun, h]
    cases hl : lastOrigin rest with
    | some p => simp [lastOrigin, hl]
    | none =>
      have := stepOp_origin sp G s op
      simp only [lastOrigin, hl]
      cases op <;> simp_all

/-- `cast(e)` depends on the history only through the origin set last: for every sequence of operations
    whose last `setOriginPoint` / `cast(o, ·)` used `o`, it returns what `cast(o, e)` returns -/
theorem castTo_depends_on_origin_only (sp : Spec d α) (G : Grid d α) (s s' : State d α) (ops : List (Op d α))
    (o e : Vec d α) (h : lastOrigin ops = some o) :
    (castTo sp G (runOps sp G s ops) e).2 = (castOE sp G s' o e).2 := by
  have := runOps_origin sp G s ops
  rw [h] at this
  have ho : (runOps sp G s ops).o = o := congrArg Prod.fst this
  have hk : (runOps sp G s ops).oIdx = cellIndexes G o := congrArg Prod.snd this
  unfold castOE castTo
  have hs : setEnd sp G (runOps sp G s ops) e = setEnd sp G (setOrigin G s' o) e := by
    unfold setEnd setOrigin
    simp only [ho, hk]
  rw [hs]

/-- the chain always starts with the origin cell -/
theorem starts_at_origin (sp : Spec d α) (G : Grid d α) (s : State d α) (o e : Vec d α) :
    (castOE sp G s o e).2.head? = some (cellIndexes G o) := rfl

private theorem steps_length (sp : Spec d α) (k : Nat) (s : State d α) (c : Vec d Int) :
    (steps sp k s c).2.length = k := by
  induction k generalizing s c with
  | zero => rfl
  | succ k ih => simp [steps, ih]

/-- coincident points (`0/0` in the direction): the chain is the single origin cell; the NaN direction is
    never looked at -/
theorem coincident (sp : Spec d α) (G : Grid d α) (s : State d α) (o : Vec d α) :
    (castOE sp G s o o).2 = [cellIndexes G o] := by
  have hn : numCells (setEnd sp G (setOrigin G s o) o) = 1 := by
    unfold numCells
    have : (fun i : Fin d => iabs (toInt32 ((setEnd sp G (setOrigin G s o) o).eIdx.at i) -
        toInt32 ((setEnd sp G (setOrigin G s o) o).oIdx.at i))) = fun _ => 0 := by
      funext i
      show iabs (toInt32 ((cellIndexes G o).at i) - toInt32 ((cellIndexes G o).at i)) = 0
      simp [iabs]
    rw [this]
    have : sumFrom (0 : Int) (fun _ : Fin d => (0 : Int)) = 0 := by
      unfold sumFrom
      generalize List.finRange d = l
      induction l with
      | nil => rfl
      | cons a l _ => simp
    rw [this]
    rfl
  show (RayCast.cast sp (setEnd sp G (setOrigin G s o) o)).2 = [cellIndexes G o]
  unfold RayCast.cast
  rw [hn]
  rfl

/-! ### The counting theorems -/

/-- the state after `setOriginPoint(o); setEndPoint(e)` (it does not depend on the earlier state) -/
def fresh (sp : Spec d α) (G : Grid d α) (o e : Vec d α) : State d α := setEnd sp G (setOrigin G init o) e

theorem fresh_eq (sp : Spec d α) (G : Grid d α) (s : State d α) (o e : Vec d α) :
    setEnd sp G (setOrigin G s o) e = fresh sp G o e := rfl

/-- residual hypotheses of the counting theorems for `cast(o, e)` (see the file header) -/
structure Counted (sp : Spec d α) (G : Grid d α) (o e : Vec d α) : Prop where
  dim : d ≤ 3
  ord : StrictOrd α
  pick : PickOK sp
  idx : ∀ i, 0 ≤ (cellIndexes G o).at i ∧ (cellIndexes G o).at i < 2 ^ 29 ∧
    0 ≤ (cellIndexes G e).at i ∧ (cellIndexes G e).at i < 2 ^ 29
  sign : ∀ i, ((cellIndexes G o).at i < (cellIndexes G e).at i → (fresh sp G o e).step.at i = 1) ∧
    ((cellIndexes G e).at i < (cellIndexes G o).at i → (fresh sp G o e).step.at i = -1)
  below : ∀ i k, k < ((cellIndexes G e).at i - (cellIndexes G o).at i).natAbs →
    tmaxAfter (fresh sp G o e) i k < Limits.maxVal

private theorem counted_fresh {sp : Spec d α} {G : Grid d α} {o e : Vec d α} (C : Counted sp G o e) :
    Fresh (fresh sp G o e) where
  idx := C.idx
  rem0 := by
    intro i
    obtain ⟨h1, h2, h3, h4⟩ := C.idx i
    have : (fresh sp G o e).rem.at i =
        iabs (toInt32 ((cellIndexes G e).at i) - toInt32 ((cellIndexes G o).at i)) := by
      simp [fresh, setEnd, setOrigin]
    rw [this, toInt32_id h3 (lt_trans h4 (by norm_num)), toInt32_id h1 (lt_trans h2 (by norm_num)), iabs_eq]
    show _ = (((cellIndexes G e).at i - (cellIndexes G o).at i).natAbs : ℤ)
    simp
  tmax0 := by
    intro i h0
    obtain ⟨h1, h2, h3, h4⟩ := C.idx i
    have h0' : (cellIndexes G e).at i - (cellIndexes G o).at i = 0 := Int.natAbs_eq_zero.mp h0
    have hr : iabs (toInt32 ((cellIndexes G e).at i) - toInt32 ((cellIndexes G o).at i)) = 0 := by
      rw [toInt32_id h3 (lt_trans h4 (by norm_num)), toInt32_id h1 (lt_trans h2 (by norm_num)), h0']
      rfl
    have : (fresh sp G o e).tMax.at i =
        if iabs (toInt32 ((cellIndexes G e).at i) - toInt32 ((cellIndexes G o).at i)) = 0 then Limits.maxVal
        else (fresh sp G o e).tMax.at i := by
      simp only [fresh, setEnd, setOrigin, at_build]
      split <;> rfl
    rw [this, if_pos hr]
  sign := C.sign
  below := C.below

/-- everything the counting argument gives for a complete cast from a fresh state -/
private theorem count_facts {sp : Spec d α} (hd : d ≤ 3) (ho : StrictOrd α) (hp : PickOK sp)
    {s₀ : State d α} (F : Fresh s₀) :
    ∃ tl, (RayCast.cast sp s₀).2 = s₀.oIdx :: tl ∧ tl.length = ∑ i, needed s₀ i ∧
      ChainAdj s₀.oIdx tl ∧ (∀ c ∈ (RayCast.cast sp s₀).2, InBox s₀ c) ∧ lastCell s₀.oIdx tl = s₀.eIdx := by
  obtain ⟨m', hI, hsum, hlen, hchain, hall⟩ :=
    steps_count ho hp F (∑ i, needed s₀ i) s₀ s₀.oIdx (fun _ => 0) F.inv_init
      (by simp only [Finset.sum_const_zero, zero_add]; exact le_refl _)
  have hn : (numCells s₀).toNat - 1 = ∑ i, needed s₀ i := by
    rw [numCells_eq hd F.idx]
    omega
  have hl : (RayCast.cast sp s₀).2 = s₀.oIdx :: (steps sp (∑ i, needed s₀ i) s₀ s₀.oIdx).2 := by
    unfold RayCast.cast
    rw [hn]
  refine ⟨_, hl, hlen, hchain, ?_, hI.final F (by simpa using hsum)⟩
  intro c hc
  rw [hl] at hc
  rcases List.mem_cons.mp hc with rfl | h
  · exact F.inv_init.inBox F
  · exact hall c h

private theorem adjacent_l1 {c c' : Vec d Int} (h : Adjacent c c') : l1 c c' = 1 := by
  obtain ⟨a, ha, hne⟩ := h
  unfold l1
  rw [Finset.sum_eq_single a]
  · rcases ha with h | h <;> rw [h] <;> simp
  · intro i _ hi; rw [hne i hi]; simp
  · intro h; exact absurd (Finset.mem_univ a) h

private theorem chain_of_count {sp : Spec d α} {G : Grid d α} {o e : Vec d α} (s : State d α)
    {tl : List (Vec d Int)} (hl : (RayCast.cast sp (fresh sp G o e)).2 = (fresh sp G o e).oIdx :: tl)
    (hchain : ChainAdj (fresh sp G o e).oIdx tl) (k : ℕ) (hk : k + 1 < (castOE sp G s o e).2.length) :
    Adjacent ((castOE sp G s o e).2[k]'(by omega)) ((castOE sp G s o e).2[k + 1]'hk) := by
  have key : ∀ (l : List (Vec d Int)) (_ : l = (fresh sp G o e).oIdx :: tl) (hk' : k + 1 < l.length),
      Adjacent (l[k]'(by omega)) (l[k + 1]'hk') := by
    intro l hl' hk'
    subst hl'
    exact chainAdj_get _ tl hchain k hk'
  exact key _ hl hk

/-- **length** (every scalar type): `L1 + 1` entries -/
theorem counted_length {sp : Spec d α} {G : Grid d α} {o e : Vec d α} (C : Counted sp G o e) (s : State d α) :
    (castOE sp G s o e).2.length = l1 (cellIndexes G o) (cellIndexes G e) + 1 := by
  obtain ⟨tl, hl, hlen, -⟩ := count_facts C.dim C.ord C.pick (counted_fresh C)
  show (RayCast.cast sp (fresh sp G o e)).2.length = _
  rw [hl, List.length_cons, hlen]
  rfl

/-- **face_adjacent** (every scalar type): one index changes by exactly one at every step -/
theorem counted_face_adjacent {sp : Spec d α} {G : Grid d α} {o e : Vec d α} (C : Counted sp G o e)
    (s : State d α) (k : ℕ) (hk : k + 1 < (castOE sp G s o e).2.length) :
    Adjacent ((castOE sp G s o e).2[k]'(by omega)) ((castOE sp G s o e).2[k + 1]'hk) ∧
    l1 ((castOE sp G s o e).2[k]'(by omega)) ((castOE sp G s o e).2[k + 1]'hk) = 1 := by
  obtain ⟨tl, hl, -, hchain, -⟩ := count_facts C.dim C.ord C.pick (counted_fresh C)
  have := chain_of_count s hl hchain k hk
  exact ⟨this, adjacent_l1 this⟩

/-- **index box** (every scalar type): every visited cell lies between the origin cell and the end cell on every
    axis — each axis is only ever stepped towards the end cell, and never beyond it -/
theorem counted_in_index_box {sp : Spec d α} {G : Grid d α} {o e : Vec d α} (C : Counted sp G o e)
    (s : State d α) (c : Vec d Int) (hc : c ∈ (castOE sp G s o e).2) (i : Fin d) :
    min ((cellIndexes G o).at i) ((cellIndexes G e).at i) ≤ c.at i ∧
    c.at i ≤ max ((cellIndexes G o).at i) ((cellIndexes G e).at i) := by
  obtain ⟨tl, -, -, -, hbox, -⟩ := count_facts C.dim C.ord C.pick (counted_fresh C)
  exact hbox c hc i

/-- **in_bounds** (every scalar type): if the origin and the end cell are cells of the grid, so is every visited cell -/
theorem counted_in_bounds {sp : Spec d α} {G : Grid d α} {o e : Vec d α} (C : Counted sp G o e)
    (hK : ∀ i, (cellIndexes G o).at i < G.n.at i) (hE : ∀ i, (cellIndexes G e).at i < G.n.at i)
    (s : State d α) (c : Vec d Int) (hc : c ∈ (castOE sp G s o e).2) (i : Fin d) :
    0 ≤ c.at i ∧ c.at i < G.n.at i := by
  have hb := counted_in_index_box C s c hc i
  have := C.idx i
  have := hK i
  have := hE i
  omega

/-- **ends in the end cell** (every scalar type): the last entry is exactly the end point's cell index -/
theorem counted_ends_in_end_cell {sp : Spec d α} {G : Grid d α} {o e : Vec d α} (C : Counted sp G o e)
    (s : State d α) : (castOE sp G s o e).2.getLast? = some (cellIndexes G e) := by
  obtain ⟨tl, hl, -, -, -, hlast⟩ := count_facts C.dim C.ord C.pick (counted_fresh C)
  show (RayCast.cast sp (fresh sp G o e)).2.getLast? = _
  rw [hl, List.getLast?_eq_getLast_of_ne_nil (List.cons_ne_nil _ _), ← lastCell_eq_getLast, hlast]
  rfl

end anyScalar

/-! ## Geometry over the reals (distinct points inside the extent) -/
section reals
variable [Big]

/-- the property's quantifier: a grid with positive resolution and ordered extent, 2D or 3D, origin and end
    inside the extent and distinct, a sentinel larger than the length of the ray -/
structure Valid (sp : Spec d ℝ) (lo hi : Vec d ℝ) (r : ℝ) (o e : Vec d ℝ) : Prop where
  dim : d ≤ 3
  grid : GridOK lo hi r
  spec : SpecOK sp
  ho : InExtent lo hi o
  he : InExtent lo hi e
  hne : o ≠ e
  hM : range sp o e < Big.M

variable {sp : Spec d ℝ} {lo hi : Vec d ℝ} {r : ℝ} {o e : Vec d ℝ}

/-- the residual hypotheses of the counting theorems are met over the reals -/
theorem valid_counted (V : Valid sp lo hi r o e) : Counted sp (mkGrid lo hi r) o e := by
  have F := fresh_facts V.grid V.spec init V.ho V.he V.hne V.hM
  have Fr := F.fresh
  exact ⟨V.dim, strictOrd_real, pickOK_of_argmin V.spec, Fr.idx, Fr.sign, Fr.below⟩

/-- **length**: the chain has exactly (L1 distance between origin and end cells) + 1 entries -/
theorem length (V : Valid sp lo hi r o e) (s : State d ℝ) :
    (castOE sp (mkGrid lo hi r) s o e).2.length =
      l1 (cellIndexes (mkGrid lo hi r) o) (cellIndexes (mkGrid lo hi r) e) + 1 :=
  counted_length (valid_counted V) s

/-- the first cell is the cell that contains the origin (its half-open extent does) -/
theorem starts_in_origin_cell (V : Valid sp lo hi r o e) (s : State d ℝ) :
    ∃ c, (castOE sp (mkGrid lo hi r) s o e).2.head? = some c ∧
      ∀ i, face (mkGrid lo hi r) i (c.at i) ≤ o.at i ∧ o.at i < face (mkGrid lo hi r) i (c.at i + 1) :=
  ⟨_, rfl, fun i => ⟨(cellIndexes_spec V.grid o V.ho i).1, (cellIndexes_spec V.grid o V.ho i).2.1⟩⟩

/-- **face_adjacent**: every step moves to a face-adjacent cell (one index changes by exactly one) -/
theorem face_adjacent (V : Valid sp lo hi r o e) (s : State d ℝ) (k : ℕ)
    (hk : k + 1 < (castOE sp (mkGrid lo hi r) s o e).2.length) :
    Adjacent ((castOE sp (mkGrid lo hi r) s o e).2[k]'(by omega)) ((castOE sp (mkGrid lo hi r) s o e).2[k + 1]'hk) ∧
    l1 ((castOE sp (mkGrid lo hi r) s o e).2[k]'(by omega)) ((castOE sp (mkGrid lo hi r) s o e).2[k + 1]'hk) = 1 :=
  counted_face_adjacent (valid_counted V) s k hk

/-- **cells_are_crossed**: the closed extent of every visited cell contains a point of the segment -/
theorem cells_are_crossed (V : Valid sp lo hi r o e) (s : State d ℝ) (c : Vec d Int)
    (hc : c ∈ (castOE sp (mkGrid lo hi r) s o e).2) :
    ∃ u : ℝ, 0 ≤ u ∧ u ≤ 1 ∧ ∀ i, face (mkGrid lo hi r) i (c.at i) ≤ o.at i + u * (e.at i - o.at i) ∧
      o.at i + u * (e.at i - o.at i) ≤ face (mkGrid lo hi r) i (c.at i + 1) := by
  have F := fresh_facts V.grid V.spec s V.ho V.he V.hne V.hM
  set s₀ := setEnd sp (mkGrid lo hi r) (setOrigin (mkGrid lo hi r) s o) e with hs₀
  have hn : (numCells s₀).toNat - 1 = ∑ i, needed s₀ i := by
    rw [numCells_eq V.dim F.idx]
    omega
  have hl : (castOE sp (mkGrid lo hi r) s o e).2 = s₀.oIdx :: (steps sp (∑ i, needed s₀ i) s₀ s₀.oIdx).2 := by
    show (RayCast.cast sp s₀).2 = _
    unfold RayCast.cast
    rw [hn]
  rw [hl] at hc
  rcases List.mem_cons.mp hc with rfl | h
  · exact F.crossed_init
  · exact steps_real V.spec F (∑ i, needed s₀ i) s₀ s₀.oIdx (fun _ => 0) F.fresh.inv_init F.rinv_init
      (by simp only [Finset.sum_const_zero, zero_add]; exact le_refl _) c h

/-- **in_bounds**: the ray never leaves the grid -/
theorem in_bounds (V : Valid sp lo hi r o e) (s : State d ℝ) (c : Vec d Int)
    (hc : c ∈ (castOE sp (mkGrid lo hi r) s o e).2) (i : Fin d) :
    0 ≤ c.at i ∧ c.at i < (mkGrid lo hi r).n.at i :=
  counted_in_bounds (valid_counted V)
    (fun i => (cellIndexes_spec V.grid o V.ho i).2.2.2) (fun i => (cellIndexes_spec V.grid e V.he i).2.2.2) s c hc i

/-- **ends_at_end**: the last cell is the end point's own cell (also when the end point is on a cell border: the
    cell whose half-open extent contains it) -/
theorem ends_at_end (V : Valid sp lo hi r o e) (s : State d ℝ) :
    ∃ last, (castOE sp (mkGrid lo hi r) s o e).2.getLast? = some last ∧
      last = cellIndexes (mkGrid lo hi r) e ∧
      ∀ i, face (mkGrid lo hi r) i (last.at i) ≤ e.at i ∧ e.at i < face (mkGrid lo hi r) i (last.at i + 1) :=
  ⟨_, counted_ends_in_end_cell (valid_counted V) s, rfl,
    fun i => ⟨(cellIndexes_spec V.grid e V.he i).1, (cellIndexes_spec V.grid e V.he i).2.1⟩⟩

end reals

/-! ## The coincident case at `RN` (reals with an absorbing NaN): the `0/0` is harmless -/
section coincidentRN
variable [Big]

/-- With `end = origin` the direction is `0/0 = NaN` on every axis; every comparison with it is false, so
    every step is 0 and every crossing parameter is the sentinel; the chain is the single origin cell.
    (`hsq`: the squared norm of the zero vector is zero — true of `sqNorm2`, `sqNorm3L`, `sqNorm3R`.) -/
theorem coincident_RN (sp : Spec d RN) (hsq : sp.sqNorm (build fun _ => RN.of 0) = RN.of 0)
    (G : Grid d RN) (s : State d RN) (o : Fin d → ℝ) :
    let p : Vec d RN := build fun i => RN.of (o i)
    let s₀ := setEnd sp G (setOrigin G s p) p
    (∀ i, s₀.dir.at i = RN.nan) ∧ (∀ i, s₀.step.at i = 0) ∧ (∀ i, s₀.tMax.at i = Limits.maxVal) ∧
      (castOE sp G s p p).2 = [cellIndexes G p] := by
  intro p s₀
  have hv : (build fun j => p.at j - (setOrigin G s p).o.at j : Vec d RN) = build fun _ => RN.of 0 := by
    apply vec_ext; intro i
    show (build fun j => p.at j - p.at j : Vec d RN).at i = _
    simp [p]
  have hrange : Trans.sqrt (sp.sqNorm (build fun j => p.at j - (setOrigin G s p).o.at j)) = RN.of 0 := by
    rw [hv, hsq, RN.sqrt_of 0 (le_refl 0), Real.sqrt_zero]
  have hdir : ∀ i, s₀.dir.at i = RN.nan := by
    intro i
    show (build fun i => (build fun j => p.at j - (setOrigin G s p).o.at j : Vec d RN).at i /
      Trans.sqrt (sp.sqNorm (build fun j => p.at j - (setOrigin G s p).o.at j)) : Vec d RN).at i = RN.nan
    rw [hrange, hv]
    simp only [at_build]
    exact RN.div_zero 0
  have hstep : ∀ i, s₀.step.at i = 0 := by
    intro i
    have : s₀.step.at i = if s₀.dir.at i > ((0 : Nat) : RN) then 1 else if s₀.dir.at i < ((0 : Nat) : RN) then -1 else 0 := by
      simp [s₀, setEnd]
    rw [this, hdir i]
    simp
  refine ⟨hdir, hstep, ?_, coincident sp G s p⟩
  intro i
  have : s₀.tMax.at i =
      if iabs (toInt32 ((cellIndexes G p).at i) - toInt32 ((cellIndexes G p).at i)) = 0 then Limits.maxVal
      else s₀.tMax.at i := by
    simp only [s₀, setEnd, setOrigin, at_build]
    split <;> rfl
  rw [this, if_pos (by simp [iabs])]

example : (sqNorm2 (build fun _ => RN.of 0) : RN) = RN.of 0 := by simp [sqNorm2]
example : (sqNorm3L (build fun _ => RN.of 0) : RN) = RN.of 0 := by simp [sqNorm3L]
example : (sqNorm3R (build fun _ => RN.of 0) : RN) = RN.of 0 := by simp [sqNorm3R]

end coincidentRN

/-! ## Non-vacuity: a concrete ray meets the hypotheses -/
section examples

private def v2 (x y : ℝ) : Vec 2 ℝ := build fun i => if i = 0 then x else y
private def cst (x : ℝ) : Vec 2 ℝ := build fun _ => x

/-- sentinel 100 -/
private instance : Big := ⟨100⟩

/-- the 2D grid of the repository's test (extent [-10, 10]², resolution 1/10), a ray from (0, 0) to (5, 1) -/
private theorem exValid : Valid (spec2 : Spec 2 ℝ) (cst (-10)) (cst 10) (1 / 10) (v2 0 0) (v2 5 1) where
  dim := by norm_num
  grid := by
    refine ⟨by norm_num, ?_, ?_⟩
    · intro i; simp only [cst, at_build]; norm_num
    · intro i
      have h1 : ⌈(10 : ℝ) / (1 / 10)⌉ = 100 := by
        rw [show (10 : ℝ) / (1 / 10) = ((100 : ℤ) : ℝ) by norm_num, Int.ceil_intCast]
      have h2 : ⌊(-10 : ℝ) / (1 / 10)⌋ = -100 := by
        rw [show (-10 : ℝ) / (1 / 10) = ((-100 : ℤ) : ℝ) by norm_num, Int.floor_intCast]
      simp only [cst, at_build]
      rw [h1, h2]; norm_num
  spec := spec2_ok
  ho := by intro i; rcases fin2_cases i with rfl | rfl <;> simp [v2, cst]
  he := by intro i; rcases fin2_cases i with rfl | rfl <;> simp [v2, cst] <;> norm_num
  hne := by
    intro h
    have := congrArg (fun v : Vec 2 ℝ => v.at 0) h
    simp [v2] at this
  hM := by
    show range spec2 (v2 0 0) (v2 5 1) < 100
    unfold range
    rw [show (100 : ℝ) = Real.sqrt (100 ^ 2) by rw [Real.sqrt_sq (by norm_num)]]
    apply Real.sqrt_lt_sqrt
    · show 0 ≤ sqNorm2 _
      unfold sqNorm2; exact add_nonneg (mul_self_nonneg _) (mul_self_nonneg _)
    · show sqNorm2 _ < _
      simp [sqNorm2, v2]; norm_num

/-- … hence the residual hypotheses of the counting theorems are satisfiable (here at ℝ) -/
example : Counted (spec2 : Spec 2 ℝ) (mkGrid (cst (-10)) (cst 10) (1 / 10)) (v2 0 0) (v2 5 1) := valid_counted exValid

/-- the decision trees meet `PickOK` on any strictly ordered scalar type -/
example : PickOK (spec3f : Spec 3 ℝ) := pick3f_ok strictOrd_real

/-- the coincident statement is about a one-cell chain, for any scalar (here: an instance at ℝ) -/
example (s : State 2 ℝ) : (castOE spec2 (mkGrid (cst (-10)) (cst 10) (1 / 10)) s (v2 1 1) (v2 1 1)).2.length = 1 := by
  rw [coincident]; rfl

end examples

end Romea.C14
