import RomeaModel.RayCast
import RomeaProofs.Lemmas.C14Steps
import RomeaProofs.Lemmas.C14RN

/-!
# C14 — ray casting visits a connected, in-bounds chain of cells covering the segment

Property theorems about the model `RomeaModel/RayCast.lean` of `RayCasting<Scalar, DIM>`
(src/containers/grid/RayTracing.cpp) on its `GridIndexMapping`.

* Scalars: the geometric theorems are over `ℝ` (exact arithmetic on the values of the floats; rounding of
  the crossing parameters is outside the theorems: correspondence check + probe).  The only partial
  operations on the path are the divisions by the ray length `range` and by a direction component; both
  guards are discharged explicitly (`o ≠ e` gives `range > 0`; a component is only divided by when the
  step on that axis is non-zero, i.e. the component is non-zero).  Mathlib's `x / 0 = 0` is therefore never
  relied on.  The coincident case `o = e` (the C++ computes `0/0 = NaN`) is covered separately by
  `coincident`, which holds for EVERY scalar type, hence also for `Float`, `Float32` and `RN`: the
  direction is never inspected because the chain has length one.
* The sentinel `std::numeric_limits<Scalar>::max()` is an arbitrary real `Big.M`; the hypothesis
  `range < Big.M` is all that is needed of it ("the sentinel never wins while a real crossing remains").
* `Spec` (decision tree of `next`, summation order of `norm()`) enters through `SpecOK`; `spec2_ok`,
  `spec3d_ok`, `spec3f_ok` discharge it for the four C++ instantiations, so every theorem below applies to
  `RayCasting2f/2d/3f/3d`.
* History independence (`history_independent*`, `castTo_depends_on_origin_only`) holds for every scalar
  type, by induction over operation sequences — it is a statement about which members `setOriginPoint` and
  `setEndPoint` overwrite, not about arithmetic.

* What the exact-arithmetic theorems do NOT carry over to `float`/`double` (recorded finding
  `ill-conditioned-axis`, found by the probe of this check): on a ray whose direction has a component of a few
  ulp and which straddles a cell border on that axis, the rounding of `(voxelBorder - origin) / direction` is
  amplified by `1 / |component|`; the needed crossing then gets a parameter beyond the end of the ray and the
  real code (and the `Float` instance of this model, bit for bit) overshoots by one cell on another axis —
  `in_bounds`, `cells_are_crossed` and `ends_at_end` fail there for the floating-point instances.  Over `ℝ`
  `AxisFacts.needed` proves that crossing to lie before the end, which is exactly the step rounding breaks.

Helper lemmas: `RomeaProofs/Lemmas/C14Basic.lean` (vectors, grid index map), `C14Axis.lean` (one axis),
`C14Ray.lean` (fresh ray), `C14Steps.lean` (the merge argument).
-/
namespace Romea.C14
open Romea Romea.RayCast

variable {d : Nat}

/-- L1 (city-block) distance between two cells -/
def l1 (a b : Vec d Int) : Nat := ∑ i, (b.at i - a.at i).natAbs

/-! ## The per-instantiation parts satisfy what the theorems need -/

private theorem fin2_cases (i : Fin 2) : i = 0 ∨ i = 1 := by omega
private theorem fin3_cases (i : Fin 3) : i = 0 ∨ i = 1 ∨ i = 2 := by omega

theorem spec2_ok : SpecOK (spec2 : Spec 2 ℝ) where
  argmin := by
    intro t i
    show t.at (pick2 t) ≤ t.at i
    unfold pick2
    rcases fin2_cases i with rfl | rfl <;> split_ifs <;> linarith
  sq_pos := by
    intro v ⟨i, hi⟩
    show 0 < sqNorm2 v
    unfold sqNorm2
    rcases fin2_cases i with rfl | rfl
    · have := mul_self_pos.mpr hi; nlinarith [mul_self_nonneg (v.at 1)]
    · have := mul_self_pos.mpr hi; nlinarith [mul_self_nonneg (v.at 0)]

private theorem pick3_argmin (t : Vec 3 ℝ) (i : Fin 3) : t.at (pick3 t) ≤ t.at i := by
  unfold pick3
  rcases fin3_cases i with rfl | rfl | rfl <;> split_ifs <;> linarith

theorem spec3d_ok : SpecOK (spec3d : Spec 3 ℝ) where
  argmin := pick3_argmin
  sq_pos := by
    intro v ⟨i, hi⟩
    show 0 < sqNorm3L v
    unfold sqNorm3L
    have := mul_self_pos.mpr hi
    rcases fin3_cases i with rfl | rfl | rfl <;>
      nlinarith [mul_self_nonneg (v.at 0), mul_self_nonneg (v.at 1), mul_self_nonneg (v.at 2)]

theorem spec3f_ok : SpecOK (spec3f : Spec 3 ℝ) where
  argmin := pick3_argmin
  sq_pos := by
    intro v ⟨i, hi⟩
    show 0 < sqNorm3R v
    unfold sqNorm3R
    have := mul_self_pos.mpr hi
    rcases fin3_cases i with rfl | rfl | rfl <;>
      nlinarith [mul_self_nonneg (v.at 0), mul_self_nonneg (v.at 1), mul_self_nonneg (v.at 2)]

/-! ## Statements that hold for every scalar type (in particular `Float`, `Float32`, `ℝ`, `RN`) -/
section anyScalar
variable {α : Type} [Add α] [Sub α] [Mul α] [Div α] [LT α] [DecidableLT α]
  [NatCast α] [IntCast α] [OfScientific α] [Trans α] [Trunc α] [Limits α]

/-- `cast(o, e)` does not depend on the state of the caster at all: `setOriginPoint` + `setEndPoint`
    overwrite every member.  (Result AND final state.) -/
theorem history_independent (sp : Spec d α) (G : Grid d α) (s s' : State d α) (o e : Vec d α) :
    castOE sp G s o e = castOE sp G s' o e := rfl

/-- … in particular after ANY sequence of earlier operations on the same caster, including bare `next`
    calls, bare `cast()`s and `setOriginPoint` without `setEndPoint` -/
theorem history_independent_ops (sp : Spec d α) (G : Grid d α) (s s' : State d α) (ops ops' : List (Op d α))
    (o e : Vec d α) :
    (castOE sp G (runOps sp G s ops) o e).2 = (castOE sp G (runOps sp G s' ops') o e).2 := rfl

/-- `setOriginPoint(o); cast(e)` is `cast(o, e)`, whatever happened before -/
theorem castTo_after_setOrigin (sp : Spec d α) (G : Grid d α) (s s' : State d α) (ops : List (Op d α))
    (o e : Vec d α) :
    castTo sp G (setOrigin G (runOps sp G s ops) o) e = castOE sp G s' o e := rfl

omit [Sub α] [Mul α] [Div α] [LT α] [DecidableLT α] [NatCast α] [IntCast α] [OfScientific α] [Trans α] [Trunc α]
  [Limits α] in
private theorem steps_origin (sp : Spec d α) (k : Nat) (s : State d α) (c : Vec d Int) :
    (steps sp k s c).1.o = s.o ∧ (steps sp k s c).1.oIdx = s.oIdx := by
  induction k generalizing s c with
  | zero => exact ⟨rfl, rfl⟩
  | succ k ih =>
    have := ih (next sp s c).1 (next sp s c).2
    simpa [steps, next] using this

omit [Sub α] [Mul α] [Div α] [LT α] [DecidableLT α] [NatCast α] [IntCast α] [OfScientific α] [Trans α] [Trunc α]
  [Limits α] in
private theorem cast_origin (sp : Spec d α) (s : State d α) :
    (RayCast.cast sp s).1.o = s.o ∧ (RayCast.cast sp s).1.oIdx = s.oIdx :=
  steps_origin sp _ s s.oIdx

/-- the origin set last (by `setOriginPoint` or `cast(o, e)`), if any -/
def lastOrigin : List (Op d α) → Option (Vec d α)
  | [] => none
  | op :: rest =>
    match lastOrigin rest with
    | some p => some p
    | none => match op with
      | .origin p => some p
      | .castOE o _ => some o
      | _ => none

private theorem stepOp_origin (sp : Spec d α) (G : Grid d α) (s : State d α) (op : Op d α) :
    ((stepOp sp G s op).o, (stepOp sp G s op).oIdx) =
      match op with
      | .origin p => (p, cellIndexes G p)
      | .castOE o _ => (o, cellIndexes G o)
      | _ => (s.o, s.oIdx) := by
  cases op with
  | origin p => rfl
  | endp p => rfl
  | cast => exact Prod.ext (cast_origin sp s).1 (cast_origin sp s).2
  | castTo e =>
    have := cast_origin sp (setEnd sp G s e)
    exact Prod.ext this.1 this.2
  | castOE o e =>
    have := cast_origin sp (setEnd sp G (setOrigin G s o) e)
    exact Prod.ext this.1 this.2
  | next c => rfl

private theorem runOps_origin (sp : Spec d α) (G : Grid d α) (s : State d α) (ops : List (Op d α)) :
    ((runOps sp G s ops).o, (runOps sp G s ops).oIdx) =
      match lastOrigin ops with
      | some p => (p, cellIndexes G p)
      | none => (s.o, s.oIdx) := by
  induction ops generalizing s with
  | nil => rfl
  | cons op rest ih =>
    have h := ih (stepOp sp G s op)
    have hrun : runOps sp G s (op :: rest) = runOps sp G (stepOp sp G s op) rest := rfl
    rw [hrun, h]
    cases hl : lastOrigin rest with
    | some p => simp [lastOrigin, hl]
    | none =>
      have := stepOp_origin sp G s op
      simp only [lastOrigin, hl]
      cases op <;> simp_all

/-- `cast(e)` depends on the history only through the origin set last: for every sequence of operations
    whose last `setOriginPoint` / `cast(o, ·)` used `o`, it returns what `cast(o, e)` returns -/
theorem castTo_depends_on_origin_only (sp : Spec d α) (G : Grid d α) (s s' : State d α) (ops : List (Op d α))
    (o e : Vec d α) (h : lastOrigin ops = some o) :
    (castTo sp G (runOps sp G s ops) e).2 = (castOE sp G s' o e).2 := by
  have := runOps_origin sp G s ops
  rw [h] at this
  have ho : (runOps sp G s ops).o = o := congrArg Prod.fst this
  have hk : (runOps sp G s ops).oIdx = cellIndexes G o := congrArg Prod.snd this
  unfold castOE castTo
  have hs : setEnd sp G (runOps sp G s ops) e = setEnd sp G (setOrigin G s' o) e := by
    unfold setEnd setOrigin
    simp only [ho, hk]
  rw [hs]

/-- the chain always starts with the origin cell -/
theorem starts_at_origin (sp : Spec d α) (G : Grid d α) (s : State d α) (o e : Vec d α) :
    (castOE sp G s o e).2.head? = some (cellIndexes G o) := rfl

omit [Sub α] [Mul α] [Div α] [LT α] [DecidableLT α] [NatCast α] [IntCast α] [OfScientific α] [Trans α] [Trunc α]
  [Limits α] in
private theorem steps_length (sp : Spec d α) (k : Nat) (s : State d α) (c : Vec d Int) :
    (steps sp k s c).2.length = k := by
  induction k generalizing s c with
  | zero => rfl
  | succ k ih => simp [steps, ih]

/-- coincident points (`0/0` in the direction): the chain is the single origin cell; the NaN direction is
    never looked at -/
theorem coincident (sp : Spec d α) (G : Grid d α) (s : State d α) (o : Vec d α) :
    (castOE sp G s o o).2 = [cellIndexes G o] := by
  have hn : numCells (setEnd sp G (setOrigin G s o) o) = 1 := by
    unfold numCells
    have : (fun i : Fin d => iabs (toInt32 ((setEnd sp G (setOrigin G s o) o).eIdx.at i) -
        toInt32 ((setEnd sp G (setOrigin G s o) o).oIdx.at i))) = fun _ => 0 := by
      funext i
      show iabs (toInt32 ((cellIndexes G o).at i) - toInt32 ((cellIndexes G o).at i)) = 0
      simp [iabs]
    rw [this]
    have : sumFrom (0 : Int) (fun _ : Fin d => (0 : Int)) = 0 := by
      unfold sumFrom
      generalize List.finRange d = l
      induction l with
      | nil => rfl
      | cons a l _ => simp
    rw [this]
    rfl
  show (RayCast.cast sp (setEnd sp G (setOrigin G s o) o)).2 = [cellIndexes G o]
  unfold RayCast.cast
  rw [hn]
  rfl

end anyScalar

/-! ## Geometry over the reals (distinct points inside the extent) -/
section reals
variable [Big]

/-- the property's quantifier: a grid with positive resolution and ordered extent, 2D or 3D, origin and end
    inside the extent and distinct, a sentinel larger than the length of the ray -/
structure Valid (sp : Spec d ℝ) (lo hi : Vec d ℝ) (r : ℝ) (o e : Vec d ℝ) : Prop where
  dim : d ≤ 3
  grid : GridOK lo hi r
  spec : SpecOK sp
  ho : InExtent lo hi o
  he : InExtent lo hi e
  hne : o ≠ e
  hM : range sp o e < Big.M

variable {sp : Spec d ℝ} {lo hi : Vec d ℝ} {r : ℝ} {o e : Vec d ℝ}

private theorem crossed_bound (V : Valid sp lo hi r o e) (c : Vec d Int)
    (hc : Crossed (mkGrid lo hi r) o e c) (i : Fin d) :
    0 ≤ c.at i ∧ c.at i < (mkGrid lo hi r).n.at i := by
  obtain ⟨u, hu0, hu1, hcell⟩ := hc
  apply closed_cell_in_grid V.grid i (c.at i) _ _ (hcell i)
  have ho := V.ho i
  have he := V.he i
  constructor <;> nlinarith

private theorem crossed_bound31 (V : Valid sp lo hi r o e) (c : Vec d Int)
    (hc : Crossed (mkGrid lo hi r) o e c) (i : Fin d) :
    0 ≤ c.at i ∧ c.at i < 2 ^ 31 := by
  have := crossed_bound V c hc i
  refine ⟨this.1, lt_trans this.2 ?_⟩
  rw [mkGrid_n V.grid]
  exact lt_trans (V.grid.hfit i) (by norm_num)

private theorem numCells_fresh (V : Valid sp lo hi r o e) (s : State d ℝ) :
    numCells (setEnd sp (mkGrid lo hi r) (setOrigin (mkGrid lo hi r) s o) e) =
      ((∑ i, needed (setEnd sp (mkGrid lo hi r) (setOrigin (mkGrid lo hi r) s o) e) i : ℕ) : ℤ) + 1 := by
  set G := mkGrid lo hi r
  set s₀ := setEnd sp G (setOrigin G s o) e
  have hK : ∀ i, 0 ≤ s₀.oIdx.at i ∧ s₀.oIdx.at i < 2 ^ 29 := by
    intro i
    have := cellIndexes_spec V.grid o V.ho i
    simp only [] at this
    refine ⟨this.2.2.1, lt_trans this.2.2.2 ?_⟩
    rw [mkGrid_n V.grid]; exact V.grid.hfit i
  have hE : ∀ i, 0 ≤ s₀.eIdx.at i ∧ s₀.eIdx.at i < 2 ^ 29 := by
    intro i
    have := cellIndexes_spec V.grid e V.he i
    simp only [] at this
    refine ⟨this.2.2.1, lt_trans this.2.2.2 ?_⟩
    rw [mkGrid_n V.grid]; exact V.grid.hfit i
  have hterm : ∀ i, iabs (toInt32 (s₀.eIdx.at i) - toInt32 (s₀.oIdx.at i)) = ((needed s₀ i : ℕ) : ℤ) := by
    intro i
    rw [toInt32_id (hE i).1 (lt_trans (hE i).2 (by norm_num)),
      toInt32_id (hK i).1 (lt_trans (hK i).2 (by norm_num)), iabs_eq]
    unfold needed
    simp
  have hsmall : ∀ i, needed s₀ i < 2 ^ 29 := by
    intro i
    unfold needed
    have := hK i; have := hE i
    omega
  have hsum : ∑ i, needed s₀ i ≤ d * 2 ^ 29 := by
    calc ∑ i, needed s₀ i ≤ ∑ _i : Fin d, 2 ^ 29 := Finset.sum_le_sum (fun i _ => (hsmall i).le)
      _ = d * 2 ^ 29 := by simp
  have hd := V.dim
  unfold numCells
  rw [sumFrom_eq]
  simp only [hterm, zero_add]
  rw [← Nat.cast_sum]
  apply wrap64_id
  · positivity
  · have : ((∑ i, needed s₀ i : ℕ) : ℤ) ≤ 3 * 2 ^ 29 := by
      have : ∑ i, needed s₀ i ≤ 3 * 2 ^ 29 := le_trans hsum (Nat.mul_le_mul_right _ hd)
      exact_mod_cast this
    omega

/-- everything the traversal lemma gives for a complete `cast(o, e)` -/
private theorem cast_facts (V : Valid sp lo hi r o e) (s : State d ℝ) :
    let G := mkGrid lo hi r
    let s₀ := setEnd sp G (setOrigin G s o) e
    let l := (castOE sp G s o e).2
    ∃ tl m', l = cellIndexes G o :: tl ∧ tl.length = ∑ i, needed s₀ i ∧
      ChainAdj (cellIndexes G o) tl ∧ (∀ c ∈ l, Crossed G o e c) ∧
      Inv (range sp o e) s₀ (steps sp (∑ i, needed s₀ i) s₀ s₀.oIdx).1 (lastCell (cellIndexes G o) tl) m' ∧
      ∑ i, m' i = ∑ i, needed s₀ i := by
  intro G s₀ l
  have F := fresh_facts V.grid V.spec s V.ho V.he V.hne V.hM
  have hb := fun c hc => crossed_bound31 V c hc
  obtain ⟨m', hI, hsum, hlen, hchain, hall⟩ :=
    steps_lemma V.spec F hb (∑ i, needed s₀ i) s₀ s₀.oIdx (fun _ => 0) RayFacts.inv_init
      (by simp only [Finset.sum_const_zero, zero_add]; exact le_refl _)
  have hn : (numCells s₀).toNat - 1 = ∑ i, needed s₀ i := by
    have h := numCells_fresh V s
    change numCells s₀ = ((∑ i, needed s₀ i : ℕ) : ℤ) + 1 at h
    rw [h]
    omega
  have hl : l = cellIndexes G o :: (steps sp (∑ i, needed s₀ i) s₀ s₀.oIdx).2 := by
    show (RayCast.cast sp s₀).2 = _
    unfold RayCast.cast
    rw [hn]
    rfl
  refine ⟨_, m', hl, hlen, hchain, ?_, hI, by simpa using hsum⟩
  intro c hc
  rw [hl] at hc
  rcases List.mem_cons.mp hc with rfl | h
  · exact F.crossed_init
  · exact hall c h

private theorem needed_eq_l1 (G : Grid d ℝ) (s : State d ℝ) :
    ∑ i, needed (setEnd sp G (setOrigin G s o) e) i = l1 (cellIndexes G o) (cellIndexes G e) := rfl

/-- **length**: the chain has exactly (L1 distance between origin and end cells) + 1 entries -/
theorem length (V : Valid sp lo hi r o e) (s : State d ℝ) :
    (castOE sp (mkGrid lo hi r) s o e).2.length =
      l1 (cellIndexes (mkGrid lo hi r) o) (cellIndexes (mkGrid lo hi r) e) + 1 := by
  obtain ⟨tl, m', hl, hlen, -⟩ := cast_facts V s
  rw [hl, List.length_cons, hlen, needed_eq_l1]

/-- the first cell is the cell that contains the origin (its half-open extent does) -/
theorem starts_in_origin_cell (V : Valid sp lo hi r o e) (s : State d ℝ) :
    ∃ c, (castOE sp (mkGrid lo hi r) s o e).2.head? = some c ∧
      ∀ i, face (mkGrid lo hi r) i (c.at i) ≤ o.at i ∧ o.at i < face (mkGrid lo hi r) i (c.at i + 1) :=
  ⟨_, rfl, fun i => ⟨(cellIndexes_spec V.grid o V.ho i).1, (cellIndexes_spec V.grid o V.ho i).2.1⟩⟩

omit [Big] in
private theorem adjacent_l1 {c c' : Vec d Int} (h : Adjacent c c') : l1 c c' = 1 := by
  obtain ⟨a, ha, hne⟩ := h
  unfold l1
  rw [Finset.sum_eq_single a]
  · rcases ha with h | h <;> rw [h] <;> simp
  · intro i _ hi; rw [hne i hi]; simp
  · intro h; exact absurd (Finset.mem_univ a) h

/-- **face_adjacent**: every step moves to a face-adjacent cell (one index changes by exactly one) —
    "the sentinel never wins while a real crossing remains" -/
theorem face_adjacent (V : Valid sp lo hi r o e) (s : State d ℝ) (k : ℕ)
    (hk : k + 1 < (castOE sp (mkGrid lo hi r) s o e).2.length) :
    Adjacent ((castOE sp (mkGrid lo hi r) s o e).2[k]'(by omega)) ((castOE sp (mkGrid lo hi r) s o e).2[k + 1]'hk) ∧
    l1 ((castOE sp (mkGrid lo hi r) s o e).2[k]'(by omega)) ((castOE sp (mkGrid lo hi r) s o e).2[k + 1]'hk) = 1 := by
  obtain ⟨tl, m', hl, -, hchain, -⟩ := cast_facts V s
  have key : ∀ (l : List (Vec d Int)) (hl' : l = cellIndexes (mkGrid lo hi r) o :: tl) (hk' : k + 1 < l.length),
      Adjacent (l[k]'(by omega)) (l[k + 1]'hk') := by
    intro l hl' hk'
    subst hl'
    exact chainAdj_get _ tl hchain k hk'
  have := key _ hl hk
  exact ⟨this, adjacent_l1 this⟩

/-- **cells_are_crossed**: the closed extent of every visited cell contains a point of the segment -/
theorem cells_are_crossed (V : Valid sp lo hi r o e) (s : State d ℝ) (c : Vec d Int)
    (hc : c ∈ (castOE sp (mkGrid lo hi r) s o e).2) :
    ∃ u : ℝ, 0 ≤ u ∧ u ≤ 1 ∧ ∀ i, face (mkGrid lo hi r) i (c.at i) ≤ o.at i + u * (e.at i - o.at i) ∧
      o.at i + u * (e.at i - o.at i) ≤ face (mkGrid lo hi r) i (c.at i + 1) := by
  obtain ⟨tl, m', -, -, -, hall, -⟩ := cast_facts V s
  exact hall c hc

/-- **in_bounds**: the ray never leaves the grid -/
theorem in_bounds (V : Valid sp lo hi r o e) (s : State d ℝ) (c : Vec d Int)
    (hc : c ∈ (castOE sp (mkGrid lo hi r) s o e).2) (i : Fin d) :
    0 ≤ c.at i ∧ c.at i < (mkGrid lo hi r).n.at i := by
  obtain ⟨tl, m', -, -, -, hall, -⟩ := cast_facts V s
  exact crossed_bound V c (hall c hc) i

/-- **ends_at_end**: the closed extent of the last cell contains the end point, and the last cell is the
    end point's own cell whenever the end point is not on a cell border -/
theorem ends_at_end (V : Valid sp lo hi r o e) (s : State d ℝ) :
    ∃ last, (castOE sp (mkGrid lo hi r) s o e).2.getLast? = some last ∧
      (∀ i, face (mkGrid lo hi r) i (last.at i) ≤ e.at i ∧ e.at i ≤ face (mkGrid lo hi r) i (last.at i + 1)) ∧
      ((∀ i (k : Int), e.at i ≠ face (mkGrid lo hi r) i k) → last = cellIndexes (mkGrid lo hi r) e) := by
  obtain ⟨tl, m', hl, -, -, -, hI, hsum⟩ := cast_facts V s
  have F := fresh_facts V.grid V.spec s V.ho V.he V.hne V.hM
  have hend := fun i => end_in_final_cell F hI hsum i
  refine ⟨lastCell (cellIndexes (mkGrid lo hi r) o) tl, ?_, hend, ?_⟩
  · rw [hl, lastCell_eq_getLast, List.getLast?_eq_getLast_of_ne_nil]
  · intro hoff
    apply vec_ext
    intro i
    have hr := V.grid.hr
    have h1 := hend i
    have h2 := cellIndexes_spec V.grid e V.he i
    simp only [] at h2
    set a := (lastCell (cellIndexes (mkGrid lo hi r) o) tl).at i
    set b := (cellIndexes (mkGrid lo hi r) e).at i
    have hlo : face (mkGrid lo hi r) i a < e.at i := lt_of_le_of_ne h1.1 (fun h => hoff i a h.symm)
    have hhi : e.at i < face (mkGrid lo hi r) i (a + 1) := lt_of_le_of_ne h1.2 (hoff i (a + 1))
    unfold InClosed at h1
    unfold face at hlo hhi h2
    rw [mkGrid_r] at hlo hhi h2
    have hab : (a : ℝ) < (b : ℝ) + 1 := by
      have : (a : ℝ) * r < ((b + 1 : ℤ) : ℝ) * r := by linarith [h2.2.1]
      push_cast at this
      nlinarith
    have hba : (b : ℝ) < (a : ℝ) + 1 := by
      have : (b : ℝ) * r < ((a + 1 : ℤ) : ℝ) * r := by linarith [h2.1]
      push_cast at this
      nlinarith
    have : a < b + 1 := by exact_mod_cast hab
    have : b < a + 1 := by exact_mod_cast hba
    omega

end reals

/-! ## The coincident case at `RN` (reals with an absorbing NaN): the `0/0` is harmless -/
section coincidentRN
variable [Big]

/-- With `end = origin` the direction is `0/0 = NaN` on every axis; every comparison with it is false, so
    every step is 0 and every crossing parameter is the sentinel; the chain is the single origin cell.
    (`hsq`: the squared norm of the zero vector is zero — true of `sqNorm2`, `sqNorm3L`, `sqNorm3R`.) -/
theorem coincident_RN (sp : Spec d RN) (hsq : sp.sqNorm (build fun _ => RN.of 0) = RN.of 0)
    (G : Grid d RN) (s : State d RN) (o : Fin d → ℝ) :
    let p : Vec d RN := build fun i => RN.of (o i)
    let s₀ := setEnd sp G (setOrigin G s p) p
    (∀ i, s₀.dir.at i = RN.nan) ∧ (∀ i, s₀.step.at i = 0) ∧ (∀ i, s₀.tMax.at i = Limits.maxVal) ∧
      (castOE sp G s p p).2 = [cellIndexes G p] := by
  intro p s₀
  have hv : (build fun j => p.at j - (setOrigin G s p).o.at j : Vec d RN) = build fun _ => RN.of 0 := by
    apply vec_ext; intro i
    show (build fun j => p.at j - p.at j : Vec d RN).at i = _
    simp [p]
  have hrange : Trans.sqrt (sp.sqNorm (build fun j => p.at j - (setOrigin G s p).o.at j)) = RN.of 0 := by
    rw [hv, hsq, RN.sqrt_of 0 (le_refl 0), Real.sqrt_zero]
  have hdir : ∀ i, s₀.dir.at i = RN.nan := by
    intro i
    show (build fun i => (build fun j => p.at j - (setOrigin G s p).o.at j : Vec d RN).at i /
      Trans.sqrt (sp.sqNorm (build fun j => p.at j - (setOrigin G s p).o.at j)) : Vec d RN).at i = RN.nan
    rw [hrange, hv]
    simp only [at_build]
    exact RN.div_zero 0
  have hstep : ∀ i, s₀.step.at i = 0 := by
    intro i
    have : s₀.step.at i = if s₀.dir.at i > ((0 : Nat) : RN) then 1 else if s₀.dir.at i < ((0 : Nat) : RN) then -1 else 0 := by
      simp [s₀, setEnd]
    rw [this, hdir i]
    simp
  refine ⟨hdir, hstep, ?_, coincident sp G s p⟩
  intro i
  have : s₀.tMax.at i = if s₀.step.at i ≠ 0 then
      ((centre G (setOrigin G s p).oIdx).at i + ((s₀.step.at i : Int) : RN) * G.r * half - (setOrigin G s p).o.at i) / s₀.dir.at i
      else Limits.maxVal := by
    simp [s₀, setEnd]
  rw [this, hstep i]
  simp

example : (sqNorm2 (build fun _ => RN.of 0) : RN) = RN.of 0 := by simp [sqNorm2]
example : (sqNorm3L (build fun _ => RN.of 0) : RN) = RN.of 0 := by simp [sqNorm3L]
example : (sqNorm3R (build fun _ => RN.of 0) : RN) = RN.of 0 := by simp [sqNorm3R]

end coincidentRN

/-! ## Non-vacuity: a concrete ray meets the hypotheses -/
section examples

private def v2 (x y : ℝ) : Vec 2 ℝ := build fun i => if i = 0 then x else y
private def cst (x : ℝ) : Vec 2 ℝ := build fun _ => x

/-- sentinel 100 -/
private instance : Big := ⟨100⟩

/-- the 2D grid of the repository's test (extent [-10, 10]², resolution 1/10), a ray from (0, 0) to (5, 1) -/
example : Valid (spec2 : Spec 2 ℝ) (cst (-10)) (cst 10) (1 / 10) (v2 0 0) (v2 5 1) where
  dim := by norm_num
  grid := by
    refine ⟨by norm_num, ?_, ?_⟩
    · intro i; simp only [cst, at_build]; norm_num
    · intro i
      have h1 : ⌈(10 : ℝ) / (1 / 10)⌉ = 100 := by
        rw [show (10 : ℝ) / (1 / 10) = ((100 : ℤ) : ℝ) by norm_num, Int.ceil_intCast]
      have h2 : ⌊(-10 : ℝ) / (1 / 10)⌋ = -100 := by
        rw [show (-10 : ℝ) / (1 / 10) = ((-100 : ℤ) : ℝ) by norm_num, Int.floor_intCast]
      simp only [cst, at_build]
      rw [h1, h2]; norm_num
  spec := spec2_ok
  ho := by intro i; rcases fin2_cases i with rfl | rfl <;> simp [v2, cst]
  he := by intro i; rcases fin2_cases i with rfl | rfl <;> simp [v2, cst] <;> norm_num
  hne := by
    intro h
    have := congrArg (fun v : Vec 2 ℝ => v.at 0) h
    simp [v2] at this
  hM := by
    show range spec2 (v2 0 0) (v2 5 1) < 100
    unfold range
    rw [show (100 : ℝ) = Real.sqrt (100 ^ 2) by rw [Real.sqrt_sq (by norm_num)]]
    apply Real.sqrt_lt_sqrt
    · show 0 ≤ sqNorm2 _
      unfold sqNorm2; exact add_nonneg (mul_self_nonneg _) (mul_self_nonneg _)
    · show sqNorm2 _ < _
      simp [sqNorm2, v2]; norm_num

/-- the coincident statement is about a one-cell chain, for any scalar (here: an instance at ℝ) -/
example (s : State 2 ℝ) : (castOE spec2 (mkGrid (cst (-10)) (cst 10) (1 / 10)) s (v2 1 1) (v2 1 1)).2.length = 1 := by
  rw [coincident]; rfl

end examples

end Romea.C14
