import RomeaModel.Derivatives
import RomeaProofs.RealInst
import RomeaProofs.Lemmas.C12Angles
import Mathlib.Data.Matrix.Mul
import Mathlib.Data.Matrix.Basic
import Mathlib.Algebra.BigOperators.Fin
import Mathlib.LinearAlgebra.Matrix.NonsingularInverse
import Mathlib.Analysis.SpecialFunctions.Trigonometric.Deriv
import Mathlib.Analysis.Calculus.Deriv.Mul
import Mathlib.Analysis.Calculus.Deriv.Add
import Mathlib.Tactic.FinCases
import Mathlib.Tactic.Linarith
import Mathlib.Tactic.Ring
import Mathlib.Tactic.NormNum
import Mathlib.Tactic.LinearCombination

/-!
# C12 — analytic derivatives and propagated covariances

Property theorems about the model of `RomeaModel/Derivatives.lean`, over `ℝ`.  No totalised operation is
on the path of parts (a), (b), (d) except the matrix inverse in (d), whose guard (`G` invertible: `inv G * G = 1`)
is an explicit hypothesis; in (c) `psd_preserved` holds for any `J`; the divisions and the square root in the
Jacobian rows are guarded by the hypotheses of `jacobian_correct_roll/_pitch/_yaw` (the denominators are non-zero
exactly under them: `M₂₁² + M₂₂² ≠ 0`, `1 - M₂₀² > 0`, `M₀₀² + M₁₀² ≠ 0`), `asin` by `|M₂₀| < 1`.

What is proved:

(a) `SmartRotation3D::dRdAngleAround{X,Y,Z}Axis` are NOT the derivatives of `R`:
    `reported = true derivative + spurious constant term` (`reported_eq_true_plus_spurious`), where the true
    derivative is characterised analytically (`HasDerivAt`, entry by entry: `true_derivative_roll/pitch/yaw`),
    the spurious terms are `Rz Ry e₀e₀ᵀ`, `Rz e₁e₁ᵀ Rx`, `e₂e₂ᵀ Ry Rx`, they never vanish
    (`spurious_roll_ne_zero` …: for EVERY angle triple the reported matrix differs from the derivative), and a
    negative witness at (0,0,0) (`reported_roll_not_derivative_at_zero`).  This is the open known finding: the
    repository's tests pin the spurious entries.
(b) `dRTdAngles` column `k` is `dRdAngle_k · T` (`dRTdAngles_columns`), hence inherits (a)
    (`dRTdAngles_eq_true_plus_spurious`, `true_derivative_rotated_vector`).
(c) The propagated covariance is `J C Jᵀ` (`propagate_eq`, `pose_covariance_eq`) and symmetric PSD for ANY `J`
    (`psd_preserved`).  The Jacobian in the code (as repaired by /repo 67bbb47) IS the Jacobian of the library's own
    pose map, entry by entry with `HasDerivAt`: `jacobian_correct_position_position` (= `R`),
    `jacobian_correct_position_orientation` (= 0), `jacobian_correct_orientation_position` (= 0),
    `jacobian_correct_roll / _pitch / _yaw` — the angle rows hold wherever the corresponding output angle is not `0`
    (there `between0And2Pi` makes the library's map jump between `0` and `2π`, so no derivative exists) and, for the
    pitch, away from gimbal lock `|M₂₀| = 1`; no other restriction (in particular the branch cut of `atan2` is covered).
    The Jacobian that was in the code before the repair was wrong: witnesses `jacobian_before_fix_position_block_wrong`,
    `jacobian_before_fix_pitch_row_wrong`.
(d) `solver_covariance`: `computeEstimateCovariance = variance • A (JᵀJ)⁻¹ Aᵀ` for a diagonal preconditioner `A`;
    for a non-symmetric preconditioner the formula in the code (`Aᵀ G⁻¹ A`) is a different matrix
    (`solver_covariance_needs_symmetric_preconditioner`).
-/
namespace Romea.C12
open Romea.Pose Romea.Deriv Matrix

/-! ## Bridges from the model's folds to Mathlib -/

private theorem mul3_eq (A B : Mat 3 3 ℝ) : Matrix.of (mul3 A B) = Matrix.of A * Matrix.of B := by
  ext i j; simp [mul3, Matrix.mul_apply, Fin.sum_univ_succ]; ring

private theorem mulVec3_eq (A : Mat 3 3 ℝ) (v : Vec 3 ℝ) : mulVec3 A v = Matrix.of A *ᵥ v := by
  funext i; simp [mulVec3, Matrix.mulVec, dotProduct, Fin.sum_univ_succ]; ring

/-- the elementary matrix `eₖ eₖᵀ` -/
def E (k : Fin 3) : Matrix (Fin 3) (Fin 3) ℝ := fun i j => if i = k ∧ j = k then 1 else 0

/-! ## (a) SmartRotation3D: reported = true derivative + spurious term -/

private theorem dRotX_split (c s : ℝ) : Matrix.of (dRotXCode c s) = Matrix.of (dRotXTrue c s) + E 0 := by
  ext i j; fin_cases i <;> fin_cases j <;> simp [dRotXCode, dRotXTrue, E]

private theorem dRotY_split (c s : ℝ) : Matrix.of (dRotYCode c s) = Matrix.of (dRotYTrue c s) + E 1 := by
  ext i j; fin_cases i <;> fin_cases j <;> simp [dRotYCode, dRotYTrue, E]

private theorem dRotZ_split (c s : ℝ) : Matrix.of (dRotZCode c s) = Matrix.of (dRotZTrue c s) + E 2 := by
  ext i j; fin_cases i <;> fin_cases j <;> simp [dRotZCode, dRotZTrue, E]

/-- `Rx(roll)`, `Ry(pitch)`, `Rz(yaw)` as Mathlib matrices -/
noncomputable def Rx (a : ℝ) : Matrix (Fin 3) (Fin 3) ℝ := Matrix.of (rotX (Real.cos a) (Real.sin a))
noncomputable def Ry (a : ℝ) : Matrix (Fin 3) (Fin 3) ℝ := Matrix.of (rotY (Real.cos a) (Real.sin a))
noncomputable def Rz (a : ℝ) : Matrix (Fin 3) (Fin 3) ℝ := Matrix.of (rotZ (Real.cos a) (Real.sin a))

/-- the reported rotation is `Rz Ry Rx` -/
theorem reported_R (o : Vec 3 ℝ) : Matrix.of (smartInit o).R.get = Rz (o 2) * Ry (o 1) * Rx (o 0) := by
  simp only [smartInit, tab_get]
  rw [mul3_eq, mul3_eq]; rfl

/-- **Characterisation.** The three reported "derivative" matrices are the true partial derivatives of `R`
    plus, respectively, `Rz Ry e₀e₀ᵀ`, `Rz e₁e₁ᵀ Rx`, `e₂e₂ᵀ Ry Rx`. -/
theorem reported_eq_true_plus_spurious (o : Vec 3 ℝ) :
    Matrix.of (smartInit o).dRdX.get = Matrix.of (trueDerivs o).1.get + Rz (o 2) * Ry (o 1) * E 0 ∧
    Matrix.of (smartInit o).dRdY.get = Matrix.of (trueDerivs o).2.1.get + Rz (o 2) * E 1 * Rx (o 0) ∧
    Matrix.of (smartInit o).dRdZ.get = Matrix.of (trueDerivs o).2.2.get + E 2 * Ry (o 1) * Rx (o 0) := by
  simp only [smartInit, trueDerivs, tab_get]
  refine ⟨?_, ?_, ?_⟩
  · rw [mul3_eq, mul3_eq, mul3_eq, mul3_eq, dRotX_split, Matrix.mul_add]; rfl
  · rw [mul3_eq, mul3_eq, mul3_eq, mul3_eq, dRotY_split, Matrix.mul_add, Matrix.add_mul]; rfl
  · rw [mul3_eq, mul3_eq, mul3_eq, mul3_eq, dRotZ_split, Matrix.add_mul, Matrix.add_mul]; rfl

/-! ### the "true derivative" matrices are the derivatives (entry by entry, `HasDerivAt`) -/

private theorem hasDerivAt_rotX (a : ℝ) (i j : Fin 3) :
    HasDerivAt (fun t => rotX (Real.cos t) (Real.sin t) i j) (dRotXTrue (Real.cos a) (Real.sin a) i j) a := by
  fin_cases i <;> fin_cases j <;> simp [rotX, dRotXTrue] <;>
    first
    | exact hasDerivAt_const _ _
    | exact Real.hasDerivAt_cos a
    | exact Real.hasDerivAt_sin a
    | exact (Real.hasDerivAt_sin a).neg

private theorem hasDerivAt_rotY (a : ℝ) (i j : Fin 3) :
    HasDerivAt (fun t => rotY (Real.cos t) (Real.sin t) i j) (dRotYTrue (Real.cos a) (Real.sin a) i j) a := by
  fin_cases i <;> fin_cases j <;> simp [rotY, dRotYTrue] <;>
    first
    | exact hasDerivAt_const _ _
    | exact Real.hasDerivAt_cos a
    | exact Real.hasDerivAt_sin a
    | exact (Real.hasDerivAt_sin a).neg

private theorem hasDerivAt_rotZ (a : ℝ) (i j : Fin 3) :
    HasDerivAt (fun t => rotZ (Real.cos t) (Real.sin t) i j) (dRotZTrue (Real.cos a) (Real.sin a) i j) a := by
  fin_cases i <;> fin_cases j <;> simp [rotZ, dRotZTrue] <;>
    first
    | exact hasDerivAt_const _ _
    | exact Real.hasDerivAt_cos a
    | exact Real.hasDerivAt_sin a
    | exact (Real.hasDerivAt_sin a).neg

/-- entries of `B · A(t) · C` have derivative `B · A'(t) · C` (constant `B`, `C`) -/
private theorem hasDerivAt_mul3_mid (B C : Mat 3 3 ℝ) (A : ℝ → Mat 3 3 ℝ) (A' : Mat 3 3 ℝ) (a : ℝ)
    (h : ∀ i j, HasDerivAt (fun t => A t i j) (A' i j) a) (i j : Fin 3) :
    HasDerivAt (fun t => mul3 (mul3 B (A t)) C i j) (mul3 (mul3 B A') C i j) a := by
  simp only [mul3]
  exact ((((((h 0 0).const_mul _).add ((h 1 0).const_mul _)).add ((h 2 0).const_mul _)).mul_const _).add
    (((((h 0 1).const_mul _).add ((h 1 1).const_mul _)).add ((h 2 1).const_mul _)).mul_const _)).add
    (((((h 0 2).const_mul _).add ((h 1 2).const_mul _)).add ((h 2 2).const_mul _)).mul_const _)

private theorem mul3_one_left (A : Mat 3 3 ℝ) : mul3 (fun i j => if i = j then 1 else 0) A = A := by
  funext i j; fin_cases i <;> simp [mul3]

private theorem mul3_one_right (A : Mat 3 3 ℝ) : mul3 A (fun i j => if i = j then 1 else 0) = A := by
  funext i j; fin_cases j <;> simp [mul3]

private theorem mul3_assoc (A B C : Mat 3 3 ℝ) : mul3 (mul3 A B) C = mul3 A (mul3 B C) := by
  funext i j; simp only [mul3]; ring

/-- a 3-vector (angle triple, position) with component `k` replaced by `t` -/
def upd (o : Vec 3 ℝ) (k : Fin 3) (t : ℝ) : Vec 3 ℝ := fun i => if i = k then t else o i

/-- `∂R/∂roll`: every entry of the reported `R`, as a function of the roll angle, has the corresponding entry of
    `(trueDerivs o).1` as its derivative -/
theorem true_derivative_roll (o : Vec 3 ℝ) (i j : Fin 3) :
    HasDerivAt (fun t => (smartInit (upd o 0 t)).R.get i j) ((trueDerivs o).1.get i j) (o 0) := by
  have h := hasDerivAt_mul3_mid (mul3 (rotZ (Real.cos (o 2)) (Real.sin (o 2))) (rotY (Real.cos (o 1)) (Real.sin (o 1))))
    (fun i j => if i = j then 1 else 0) (fun t => rotX (Real.cos t) (Real.sin t)) _ (o 0) (hasDerivAt_rotX (o 0)) i j
  simp only [mul3_one_right] at h
  simpa [smartInit, trueDerivs, upd] using h

/-- `∂R/∂pitch` -/
theorem true_derivative_pitch (o : Vec 3 ℝ) (i j : Fin 3) :
    HasDerivAt (fun t => (smartInit (upd o 1 t)).R.get i j) ((trueDerivs o).2.1.get i j) (o 1) := by
  have h := hasDerivAt_mul3_mid (rotZ (Real.cos (o 2)) (Real.sin (o 2))) (rotX (Real.cos (o 0)) (Real.sin (o 0)))
    (fun t => rotY (Real.cos t) (Real.sin t)) _ (o 1) (hasDerivAt_rotY (o 1)) i j
  simpa [smartInit, trueDerivs, upd] using h

/-- `∂R/∂yaw` -/
theorem true_derivative_yaw (o : Vec 3 ℝ) (i j : Fin 3) :
    HasDerivAt (fun t => (smartInit (upd o 2 t)).R.get i j) ((trueDerivs o).2.2.get i j) (o 2) := by
  have h := hasDerivAt_mul3_mid (fun i j => if i = j then 1 else 0)
    (mul3 (rotY (Real.cos (o 1)) (Real.sin (o 1))) (rotX (Real.cos (o 0)) (Real.sin (o 0))))
    (fun t => rotZ (Real.cos t) (Real.sin t)) _ (o 2) (hasDerivAt_rotZ (o 2)) i j
  simp only [mul3_one_left] at h
  simpa [smartInit, trueDerivs, upd, mul3_assoc] using h

/-! ### the spurious terms never vanish: the reported matrices are wrong at EVERY angle triple -/

/-- entry-level form of the spurious roll term: its first column is the first column of `Rz Ry`, a unit vector -/
theorem spurious_roll_ne_zero (o : Vec 3 ℝ) : Rz (o 2) * Ry (o 1) * E 0 ≠ 0 := by
  intro h
  have e0 := congrFun (congrFun h 0) 0
  have e1 := congrFun (congrFun h 1) 0
  have e2 := congrFun (congrFun h 2) 0
  simp [Rz, Ry, E, rotZ, rotY, Matrix.mul_apply, Fin.sum_univ_succ] at e0 e1 e2
  have hy := Real.cos_sq_add_sin_sq (o 1)
  have hz := Real.cos_sq_add_sin_sq (o 2)
  rcases e0 with hc | hc
  · rcases e1 with hs | hs
    · rw [hc, hs] at hz; norm_num at hz
    · rw [hs, e2] at hy; norm_num at hy
  · rw [hc, e2] at hy; norm_num at hy

theorem spurious_pitch_ne_zero (o : Vec 3 ℝ) : Rz (o 2) * E 1 * Rx (o 0) ≠ 0 := by
  intro h
  have e01 := congrFun (congrFun h 0) 1
  have e02 := congrFun (congrFun h 0) 2
  have e11 := congrFun (congrFun h 1) 1
  have e12 := congrFun (congrFun h 1) 2
  simp [Rz, Rx, E, rotZ, rotX, Matrix.mul_apply, Fin.sum_univ_succ] at e01 e02 e11 e12
  have hx := Real.cos_sq_add_sin_sq (o 0)
  have hz := Real.cos_sq_add_sin_sq (o 2)
  rcases e01 with hs | hc
  · rcases e11 with hc' | hc'
    · rw [hs, hc'] at hz; norm_num at hz
    · rcases e12 with hc'' | hs''
      · rw [hs, hc''] at hz; norm_num at hz
      · rw [hc', hs''] at hx; norm_num at hx
  · rcases e02 with hs' | hs'
    · rcases e11 with hc' | hc'
      · rw [hs', hc'] at hz; norm_num at hz
      · rcases e12 with hc'' | hs''
        · rw [hs', hc''] at hz; norm_num at hz
        · rw [hc', hs''] at hx; norm_num at hx
    · rw [hc, hs'] at hx; norm_num at hx

theorem spurious_yaw_ne_zero (o : Vec 3 ℝ) : E 2 * Ry (o 1) * Rx (o 0) ≠ 0 := by
  intro h
  have e0 := congrFun (congrFun h 2) 0
  have e1 := congrFun (congrFun h 2) 1
  have e2 := congrFun (congrFun h 2) 2
  simp [Ry, Rx, E, rotY, rotX, Matrix.mul_apply, Fin.sum_univ_succ] at e0 e1 e2
  have hx := Real.cos_sq_add_sin_sq (o 0)
  have hy := Real.cos_sq_add_sin_sq (o 1)
  rcases e1 with hc | hs
  · rw [hc, e0] at hy; norm_num at hy
  · rcases e2 with hc | hc
    · rw [hc, e0] at hy; norm_num at hy
    · rw [hc, hs] at hx; norm_num at hx

/-- **Negative witness** at the angles (0,0,0): `dRdAngleAroundXAxis()(0,0) = 1`, but `R(0,0)` does not depend on
    the roll angle at all — the reported value is not the derivative. -/
theorem reported_roll_not_derivative_at_zero :
    (smartInit (fun _ => (0 : ℝ))).dRdX.get 0 0 = 1 ∧
    ¬ HasDerivAt (fun t => (smartInit (upd (fun _ => 0) 0 t)).R.get 0 0)
        ((smartInit (fun _ => (0 : ℝ))).dRdX.get 0 0) 0 := by
  have h1 : (smartInit (fun _ => (0 : ℝ))).dRdX.get 0 0 = 1 := by
    simp [smartInit, mul3, rotZ, rotY, dRotXCode]
  refine ⟨h1, ?_⟩
  rw [h1]
  intro h
  have ht := true_derivative_roll (fun _ => (0 : ℝ)) 0 0
  have h0 : (trueDerivs (fun _ => (0 : ℝ))).1.get 0 0 = 0 := by
    simp [trueDerivs, mul3, rotZ, rotY, dRotXTrue]
  rw [h0] at ht
  have := HasDerivAt.unique h ht
  norm_num at this

/-! ## (b) dRTdAngles -/

/-- column `k` of `dRTdAngles(T)` is `dRdAngle_k · T` -/
theorem dRTdAngles_columns (s : Smart ℝ) (T : Vec 3 ℝ) (i : Fin 3) :
    (dRTdAngles s T).get i 0 = (Matrix.of s.dRdX.get *ᵥ T) i ∧
    (dRTdAngles s T).get i 1 = (Matrix.of s.dRdY.get *ᵥ T) i ∧
    (dRTdAngles s T).get i 2 = (Matrix.of s.dRdZ.get *ᵥ T) i := by
  simp only [dRTdAngles, tab_get, vtab_get, mulVec3_eq]
  simp

/-- hence `dRTdAngles` inherits the defect: each column is the true derivative of `R T` plus the spurious term times `T` -/
theorem dRTdAngles_eq_true_plus_spurious (o T : Vec 3 ℝ) (i : Fin 3) :
    (dRTdAngles (smartInit o) T).get i 0 =
      (Matrix.of (trueDerivs o).1.get *ᵥ T) i + ((Rz (o 2) * Ry (o 1) * E 0) *ᵥ T) i ∧
    (dRTdAngles (smartInit o) T).get i 1 =
      (Matrix.of (trueDerivs o).2.1.get *ᵥ T) i + ((Rz (o 2) * E 1 * Rx (o 0)) *ᵥ T) i ∧
    (dRTdAngles (smartInit o) T).get i 2 =
      (Matrix.of (trueDerivs o).2.2.get *ᵥ T) i + ((E 2 * Ry (o 1) * Rx (o 0)) *ᵥ T) i := by
  obtain ⟨h0, h1, h2⟩ := dRTdAngles_columns (smartInit o) T i
  obtain ⟨c0, c1, c2⟩ := reported_eq_true_plus_spurious o
  rw [h0, h1, h2, c0, c1, c2, Matrix.add_mulVec, Matrix.add_mulVec, Matrix.add_mulVec]
  simp

/-- the true derivative of the rotated vector `R T` with respect to each angle is `trueDeriv_k · T` -/
theorem true_derivative_rotated_vector (o T : Vec 3 ℝ) (i : Fin 3) :
    HasDerivAt (fun t => (Matrix.of (smartInit (upd o 0 t)).R.get *ᵥ T) i) ((Matrix.of (trueDerivs o).1.get *ᵥ T) i) (o 0) ∧
    HasDerivAt (fun t => (Matrix.of (smartInit (upd o 1 t)).R.get *ᵥ T) i) ((Matrix.of (trueDerivs o).2.1.get *ᵥ T) i) (o 1) ∧
    HasDerivAt (fun t => (Matrix.of (smartInit (upd o 2 t)).R.get *ᵥ T) i) ((Matrix.of (trueDerivs o).2.2.get *ᵥ T) i) (o 2) := by
  simp only [Matrix.mulVec, dotProduct, Fin.sum_univ_three, Matrix.of_apply]
  refine ⟨?_, ?_, ?_⟩
  · exact (((true_derivative_roll o i 0).mul_const _).add ((true_derivative_roll o i 1).mul_const _)).add
      ((true_derivative_roll o i 2).mul_const _)
  · exact (((true_derivative_pitch o i 0).mul_const _).add ((true_derivative_pitch o i 1).mul_const _)).add
      ((true_derivative_pitch o i 2).mul_const _)
  · exact (((true_derivative_yaw o i 0).mul_const _).add ((true_derivative_yaw o i 1).mul_const _)).add
      ((true_derivative_yaw o i 2).mul_const _)

/-! ## (c) the propagated pose covariance -/

/-- symmetric and positive semi-definite, stated elementarily -/
def IsPSD {n : Nat} (C : Matrix (Fin n) (Fin n) ℝ) : Prop := Cᵀ = C ∧ ∀ x : Fin n → ℝ, 0 ≤ x ⬝ᵥ (C *ᵥ x)

/-- `propagate J C` is `J C Jᵀ` -/
theorem propagate_eq (J C : Mat 6 6 ℝ) : Matrix.of (propagate J C).get = Matrix.of J * Matrix.of C * (Matrix.of J)ᵀ := by
  ext i j
  simp only [propagate, tab_get, sum6, Matrix.mul_apply, Matrix.transpose_apply, Matrix.of_apply, Fin.sum_univ_succ,
    Fin.sum_univ_zero]
  simp
  ring

/-- `J C Jᵀ` is symmetric positive semi-definite whenever `C` is — for ANY matrix `J` (right or wrong) -/
theorem psd_preserved (J C : Mat 6 6 ℝ) (h : IsPSD (Matrix.of C)) : IsPSD (Matrix.of (propagate J C).get) := by
  rw [propagate_eq]
  obtain ⟨hs, hp⟩ := h
  refine ⟨?_, fun x => ?_⟩
  · rw [Matrix.transpose_mul, Matrix.transpose_mul, Matrix.transpose_transpose, hs, Matrix.mul_assoc]
  · have := hp ((Matrix.of J)ᵀ *ᵥ x)
    rw [← Matrix.mulVec_mulVec, ← Matrix.mulVec_mulVec, Matrix.dotProduct_mulVec, ← Matrix.mulVec_transpose]
    exact this

/-- the 3×3 identity as a model matrix -/
def id3 : Mat 3 3 ℝ := fun i j => if i = j then 1 else 0

/-- **Witness (position block) for the Jacobian before /repo 67bbb47.** With `R = 1` and the pose attitude
    `yaw = π`, it had `∂x'/∂x = (R·R(pose))₀₀ = -1`, while `x' = x`; the repaired Jacobian has `R₀₀ = 1`. -/
theorem jacobian_before_fix_position_block_wrong :
    let o : Vec 3 ℝ := fun i => if i = 2 then Real.pi else 0
    let s := smartInit o
    (jacobianBeforeFix id3 (mul3 id3 s.R.get) s.dRdX.get s.dRdY.get s.dRdZ.get).get 0 0 = -1 ∧
    (jacobian id3 (mul3 id3 s.R.get) (fun _ => id3)).get 0 0 = 1 := by
  simp [jacobianBeforeFix, jacobian, smartInit, id3, mul3, rotZ, rotY, rotX]

/-- **Witness (pitch row) for the Jacobian before /repo 67bbb47.** With `R = 1` and the pose attitude (0,0,0) the
    transformed pitch equals the pitch, so `∂pitch'/∂pitch = 1`; it had `-1` there (wrong sign), the repaired one `1`. -/
theorem jacobian_before_fix_pitch_row_wrong :
    let o : Vec 3 ℝ := fun _ => 0
    let s := smartInit o
    let d := dRotation id3 o
    (jacobianBeforeFix id3 (mul3 id3 s.R.get) s.dRdX.get s.dRdY.get s.dRdZ.get).get 4 4 = -1 ∧
    (jacobian id3 (mul3 id3 s.R.get)
      (fun k => match k with | 0 => d.1.get | 1 => d.2.1.get | 2 => d.2.2.get)).get 4 4 = 1 := by
  simp [jacobianBeforeFix, jacobian, dRotation, smartInit, trueDerivs, id3, mul3, dot3, rotZ, rotY, rotX, dRotYCode, dRotYTrue]

/-! ### the Jacobian in the code is the Jacobian of the library's own pose map (entry by entry, `HasDerivAt`)

The pose map is `(p, o) ↦ (R p + T, rotation3DToEulerAngles (R · Rz(o₂) Ry(o₁) Rx(o₀)))`; its outputs are the first
two components of `poseMul`, its Jacobian the fourth.  The three angle outputs are normalised into `[0, 2π)` by
`between0And2Pi`, so the map is discontinuous where an output angle is `0` (it jumps to `2π`): there no Jacobian
exists, and the hypotheses below exclude exactly those points (and gimbal lock `|M₂₀| = 1`). -/

/-- indices of the position and of the orientation components in the 6-vector `(x, y, z, roll, pitch, yaw)` -/
def lo : Fin 3 → Fin 6 := ![0, 1, 2]
def hi : Fin 3 → Fin 6 := ![3, 4, 5]

/-- the true partial derivative of `Rz Ry Rx` with respect to angle `k` -/
noncomputable def trueD (o : Vec 3 ℝ) (k : Fin 3) : Mat 3 3 ℝ :=
  match k with
  | 0 => (trueDerivs o).1.get
  | 1 => (trueDerivs o).2.1.get
  | 2 => (trueDerivs o).2.2.get

private theorem upd_self (o : Vec 3 ℝ) (k : Fin 3) : upd o k (o k) = o := by
  funext i; by_cases h : i = k <;> simp [upd, h]

private theorem true_derivative (o : Vec 3 ℝ) (k i j : Fin 3) :
    HasDerivAt (fun t => (smartInit (upd o k t)).R.get i j) (trueD o k i j) (o k) := by
  fin_cases k
  · exact true_derivative_roll o i j
  · exact true_derivative_pitch o i j
  · exact true_derivative_yaw o i j

/-- `M(o) = L · Rz Ry Rx` and its partial derivatives -/
private theorem hasDerivAt_M (L : Mat 3 3 ℝ) (o : Vec 3 ℝ) (k a b : Fin 3) :
    HasDerivAt (fun t => mul3 L (smartInit (upd o k t)).R.get a b) (mul3 L (trueD o k) a b) (o k) := by
  simp only [mul3]
  exact (((true_derivative o k 0 b).const_mul _).add ((true_derivative o k 1 b).const_mul _)).add
    ((true_derivative o k 2 b).const_mul _)

private theorem pos_closed (rotOf : Mat 3 3 ℝ → Mat 3 3 ℝ) (L : Mat 3 3 ℝ) (T p o : Vec 3 ℝ) (C : Mat 6 6 ℝ)
    (hL : rotOf L = L) (i : Fin 3) :
    (poseMul rotOf L T p o C).1.get i = L i 0 * p 0 + L i 1 * p 1 + L i 2 * p 2 + T i := by
  simp [poseMul, hL, mulVec3]

private theorem ori_closed (rotOf : Mat 3 3 ℝ → Mat 3 3 ℝ) (L : Mat 3 3 ℝ) (T p o : Vec 3 ℝ) (C : Mat 6 6 ℝ)
    (hL : rotOf L = L) :
    (poseMul rotOf L T p o C).2.1.get = rotation3DToEulerAngles (mul3 L (smartInit o).R.get) := by
  simp [poseMul, hL]

private theorem jac_closed (rotOf : Mat 3 3 ℝ → Mat 3 3 ℝ) (L : Mat 3 3 ℝ) (T p o : Vec 3 ℝ) (C : Mat 6 6 ℝ)
    (hL : rotOf L = L) :
    (poseMul rotOf L T p o C).2.2.2.get =
      (jacobian L (mul3 L (smartInit o).R.get) (fun k => mul3 L (trueD o k))).get := by
  simp only [poseMul, dRotation, hL, tab_get]
  congr 2
  funext k
  fin_cases k <;> rfl

/-- **Block ∂position/∂position** `= R` -/
theorem jacobian_correct_position_position (rotOf : Mat 3 3 ℝ → Mat 3 3 ℝ) (L : Mat 3 3 ℝ) (T p o : Vec 3 ℝ)
    (C : Mat 6 6 ℝ) (hL : rotOf L = L) (i k : Fin 3) :
    HasDerivAt (fun t => (poseMul rotOf L T (upd p k t) o C).1.get i)
      ((poseMul rotOf L T p o C).2.2.2.get (lo i) (lo k)) (p k) := by
  rw [jac_closed rotOf L T p o C hL]
  simp only [pos_closed rotOf L T _ o C hL]
  have hJ : (jacobian L (mul3 L (smartInit o).R.get) (fun k => mul3 L (trueD o k))).get (lo i) (lo k) = L i k := by
    fin_cases i <;> fin_cases k <;> simp [jacobian, lo]
  rw [hJ]
  have hf : (fun t => L i 0 * upd p k t 0 + L i 1 * upd p k t 1 + L i 2 * upd p k t 2 + T i) =
      fun t => L i k * t + (L i 0 * p 0 + L i 1 * p 1 + L i 2 * p 2 + T i - L i k * p k) := by
    funext t; fin_cases k <;> simp [upd] <;> ring
  rw [hf]
  simpa using ((hasDerivAt_id (p k)).const_mul (L i k)).add_const
    (L i 0 * p 0 + L i 1 * p 1 + L i 2 * p 2 + T i - L i k * p k)

/-- **Block ∂position/∂orientation** `= 0` (the position does not depend on the attitude) -/
theorem jacobian_correct_position_orientation (rotOf : Mat 3 3 ℝ → Mat 3 3 ℝ) (L : Mat 3 3 ℝ) (T p o : Vec 3 ℝ)
    (C : Mat 6 6 ℝ) (hL : rotOf L = L) (i k : Fin 3) :
    HasDerivAt (fun t => (poseMul rotOf L T p (upd o k t) C).1.get i)
      ((poseMul rotOf L T p o C).2.2.2.get (lo i) (hi k)) (o k) := by
  rw [jac_closed rotOf L T p o C hL]
  simp only [pos_closed rotOf L T p _ C hL]
  have hJ : (jacobian L (mul3 L (smartInit o).R.get) (fun k => mul3 L (trueD o k))).get (lo i) (hi k) = 0 := by
    fin_cases i <;> fin_cases k <;> simp [jacobian, lo, hi, Deriv.zero]
  rw [hJ]
  exact hasDerivAt_const _ _

/-- **Block ∂orientation/∂position** `= 0` -/
theorem jacobian_correct_orientation_position (rotOf : Mat 3 3 ℝ → Mat 3 3 ℝ) (L : Mat 3 3 ℝ) (T p o : Vec 3 ℝ)
    (C : Mat 6 6 ℝ) (hL : rotOf L = L) (i k : Fin 3) :
    HasDerivAt (fun t => (poseMul rotOf L T (upd p k t) o C).2.1.get i)
      ((poseMul rotOf L T p o C).2.2.2.get (hi i) (lo k)) (p k) := by
  rw [jac_closed rotOf L T p o C hL]
  simp only [ori_closed rotOf L T _ o C hL]
  have hJ : (jacobian L (mul3 L (smartInit o).R.get) (fun k => mul3 L (trueD o k))).get (hi i) (lo k) = 0 := by
    fin_cases i <;> fin_cases k <;> simp [jacobian, lo, hi, Deriv.zero]
  rw [hJ]
  exact hasDerivAt_const _ _

/-- **Row ∂roll'/∂angles**, `roll' = between0And2Pi (atan2 (M₂₁, M₂₂))`, valid wherever `roll' ≠ 0`
    (i.e. `(M₂₂, M₂₁)` not on the non-negative real axis; this also excludes gimbal lock, where `M₂₁ = M₂₂ = 0`) -/
theorem jacobian_correct_roll (rotOf : Mat 3 3 ℝ → Mat 3 3 ℝ) (L : Mat 3 3 ℝ) (T p o : Vec 3 ℝ)
    (C : Mat 6 6 ℝ) (hL : rotOf L = L) (k : Fin 3)
    (hdom : mul3 L (smartInit o).R.get 2 2 < 0 ∨ mul3 L (smartInit o).R.get 2 1 ≠ 0) :
    HasDerivAt (fun t => (poseMul rotOf L T p (upd o k t) C).2.1.get 0)
      ((poseMul rotOf L T p o C).2.2.2.get (hi 0) (hi k)) (o k) := by
  rw [jac_closed rotOf L T p o C hL]
  simp only [ori_closed rotOf L T p _ C hL, rotation3DToEulerAngles]
  have hx := hasDerivAt_M L o k 2 2
  have hy := hasDerivAt_M L o k 2 1
  have h := hasDerivAt_between0And2Pi_atan2 hx hy (by simpa [upd_self] using hdom)
  simp only [upd_self] at h
  convert h using 1
  fin_cases k <;> simp [jacobian, hi] <;> ring

/-- **Row ∂pitch'/∂angles**, `pitch' = between0And2Pi (-asin M₂₀)`, valid away from gimbal lock (`|M₂₀| < 1`) and
    wherever `pitch' ≠ 0` (`M₂₀ ≠ 0`) -/
theorem jacobian_correct_pitch (rotOf : Mat 3 3 ℝ → Mat 3 3 ℝ) (L : Mat 3 3 ℝ) (T p o : Vec 3 ℝ)
    (C : Mat 6 6 ℝ) (hL : rotOf L = L) (k : Fin 3)
    (hlo : -1 < mul3 L (smartInit o).R.get 2 0) (hhi : mul3 L (smartInit o).R.get 2 0 < 1)
    (h0 : mul3 L (smartInit o).R.get 2 0 ≠ 0) :
    HasDerivAt (fun t => (poseMul rotOf L T p (upd o k t) C).2.1.get 1)
      ((poseMul rotOf L T p o C).2.2.2.get (hi 1) (hi k)) (o k) := by
  rw [jac_closed rotOf L T p o C hL]
  simp only [ori_closed rotOf L T p _ C hL, rotation3DToEulerAngles]
  have hx := hasDerivAt_M L o k 2 0
  have h := hasDerivAt_between0And2Pi_neg_asin hx (by simpa [upd_self] using hlo) (by simpa [upd_self] using hhi)
    (by simpa [upd_self] using h0)
  simp only [upd_self] at h
  convert h using 1
  fin_cases k <;> simp [jacobian, hi]

/-- **Row ∂yaw'/∂angles**, `yaw' = between0And2Pi (atan2 (M₁₀, M₀₀))`, valid wherever `yaw' ≠ 0` -/
theorem jacobian_correct_yaw (rotOf : Mat 3 3 ℝ → Mat 3 3 ℝ) (L : Mat 3 3 ℝ) (T p o : Vec 3 ℝ)
    (C : Mat 6 6 ℝ) (hL : rotOf L = L) (k : Fin 3)
    (hdom : mul3 L (smartInit o).R.get 0 0 < 0 ∨ mul3 L (smartInit o).R.get 1 0 ≠ 0) :
    HasDerivAt (fun t => (poseMul rotOf L T p (upd o k t) C).2.1.get 2)
      ((poseMul rotOf L T p o C).2.2.2.get (hi 2) (hi k)) (o k) := by
  rw [jac_closed rotOf L T p o C hL]
  simp only [ori_closed rotOf L T p _ C hL, rotation3DToEulerAngles]
  have hx := hasDerivAt_M L o k 0 0
  have hy := hasDerivAt_M L o k 1 0
  have h := hasDerivAt_between0And2Pi_atan2 hx hy (by simpa [upd_self] using hdom)
  simp only [upd_self] at h
  convert h using 1
  fin_cases k <;> simp [jacobian, hi]

/-- the covariance attached to the transformed pose is `J C Jᵀ` with that Jacobian -/
theorem pose_covariance_eq (rotOf : Mat 3 3 ℝ → Mat 3 3 ℝ) (L : Mat 3 3 ℝ) (T p o : Vec 3 ℝ) (C : Mat 6 6 ℝ) :
    Matrix.of (poseMul rotOf L T p o C).2.2.1.get =
      Matrix.of (poseMul rotOf L T p o C).2.2.2.get * Matrix.of C * (Matrix.of (poseMul rotOf L T p o C).2.2.2.get)ᵀ := by
  simp only [poseMul]
  exact propagate_eq _ _

/-! ## (d) least-squares estimate covariance -/

private theorem sumFin_eq (n : Nat) (f : Fin n → ℝ) : sumFin n f = ∑ k, f k := by
  induction n with
  | zero => simp [sumFin]
  | succ n ih =>
    have := ih (fun k => f k.castSucc)
    simp only [sumFin] at this ⊢
    rw [Fin.foldl_succ_last, Fin.sum_univ_castSucc, ← this]

/-- `computeJTJ_` computes `JᵀJ` -/
theorem jtj_eq {m n : Nat} (J : Mat m n ℝ) : Matrix.of (jtj J) = (Matrix.of J)ᵀ * Matrix.of J := by
  ext i j; simp [jtj, sumFin_eq, Matrix.mul_apply]

/-- what the code computes, for any preconditioner: `variance • Aᵀ G⁻¹ A` with `G = JᵀJ` -/
theorem solver_covariance_as_written {m n : Nat} (inv : Mat n n ℝ → Mat n n ℝ) (J : Mat m n ℝ) (A : Mat n n ℝ) (v : ℝ) :
    Matrix.of (lsqCovariance inv J A v).get =
      v • ((Matrix.of A)ᵀ * Matrix.of (inv (jtj J)) * Matrix.of A) := by
  ext i j
  simp only [lsqCovariance, tab_get, sumFin_eq, Matrix.smul_apply, Matrix.mul_apply, Matrix.transpose_apply,
    Matrix.of_apply, smul_eq_mul]
  ring

/-- **Solver covariance.** For a diagonal preconditioner `A = diag a` and an inverse oracle that inverts the
    (full-rank) normal matrix, `computeEstimateCovariance(variance) = variance • A (JᵀJ)⁻¹ Aᵀ`. -/
theorem solver_covariance {m n : Nat} (inv : Mat n n ℝ → Mat n n ℝ) (J : Mat m n ℝ) (a : Fin n → ℝ) (v : ℝ)
    (hinv : Matrix.of (inv (jtj J)) * ((Matrix.of J)ᵀ * Matrix.of J) = 1) :
    Matrix.of (lsqCovariance inv J (fun i j => if i = j then a i else 0) v).get =
      v • (Matrix.diagonal a * ((Matrix.of J)ᵀ * Matrix.of J)⁻¹ * (Matrix.diagonal a)ᵀ) := by
  rw [solver_covariance_as_written]
  have hA : Matrix.of (fun i j : Fin n => if i = j then a i else 0) = Matrix.diagonal a := by
    ext i j; simp [Matrix.diagonal_apply]
  have hG : Matrix.of (inv (jtj J)) = ((Matrix.of J)ᵀ * Matrix.of J)⁻¹ := (Matrix.inv_eq_left_inv hinv).symm
  rw [hA, hG, Matrix.diagonal_transpose]

/-- the restriction to symmetric (e.g. diagonal) preconditioners is needed: for `A = [[1,1],[0,1]]` and `G = 1`
    the code's `Aᵀ G⁻¹ A` and the covariance `A G⁻¹ Aᵀ` of `x = A z + b` differ -/
theorem solver_covariance_needs_symmetric_preconditioner :
    let A : Matrix (Fin 2) (Fin 2) ℝ := !![1, 1; 0, 1]
    Aᵀ * (1 : Matrix (Fin 2) (Fin 2) ℝ) * A ≠ A * (1 : Matrix (Fin 2) (Fin 2) ℝ) * Aᵀ := by
  intro A h
  have := congrFun (congrFun h 0) 0
  simp [A, Matrix.mul_apply, Fin.sum_univ_two] at this

/-! ## Non-vacuity -/

/-- a full-rank problem with a diagonal preconditioner meeting the hypothesis of `solver_covariance`:
    `J = 1` (2×2), `inv = id` on the identity -/
example : Matrix.of ((fun g => g : Mat 2 2 ℝ → Mat 2 2 ℝ) (jtj (fun i j : Fin 2 => if i = j then (1 : ℝ) else 0))) *
    ((Matrix.of (fun i j : Fin 2 => if i = j then (1 : ℝ) else 0))ᵀ * Matrix.of (fun i j : Fin 2 => if i = j then (1 : ℝ) else 0)) = 1 := by
  ext i j
  fin_cases i <;> fin_cases j <;> simp [jtj, sumFin, Matrix.mul_apply, Fin.foldl_succ]

/-- a pose attitude meeting the hypotheses of all three `jacobian_correct_*` angle rows at once:
    `R = 1`, (roll, pitch, yaw) = (π/2, π/6, π/2): `M₂₀ = -1/2`, `M₂₁ = √3/2`, `M₁₀ = √3/2` -/
example :
    let o : Vec 3 ℝ := fun i => if i = 1 then Real.pi / 6 else Real.pi / 2
    let M := mul3 id3 (smartInit o).R.get
    (-1 < M 2 0 ∧ M 2 0 < 1 ∧ M 2 0 ≠ 0) ∧ (M 2 2 < 0 ∨ M 2 1 ≠ 0) ∧ (M 0 0 < 0 ∨ M 1 0 ≠ 0) := by
  have h3 : Real.sqrt 3 ≠ 0 := by positivity
  simp [smartInit, mul3, id3, rotX, rotY, rotZ, h3]
  norm_num

example : IsPSD (1 : Matrix (Fin 6) (Fin 6) ℝ) := by
  refine ⟨Matrix.transpose_one, fun x => ?_⟩
  rw [Matrix.one_mulVec]
  exact Finset.sum_nonneg (fun i _ => mul_self_nonneg (x i))

end Romea.C12
