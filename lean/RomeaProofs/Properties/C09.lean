import RomeaModel.Normals
import RomeaProofs.RealInst
import Mathlib.LinearAlgebra.Matrix.NonsingularInverse
import Mathlib.LinearAlgebra.Matrix.DotProduct
import Mathlib.Algebra.BigOperators.Fin
import Mathlib.Algebra.BigOperators.Field
import Mathlib.Tactic.Linarith
import Mathlib.Tactic.Positivity
import Mathlib.Tactic.FieldSimp

/-!
# C09 — estimated normals are unit, sensor-facing, of least variance; curvature in [0, 1/DIM]; planar clouds
exact; rotating the cloud rotates the normals

Theorems about `RomeaModel/Normals.lean` over `ℝ`, for EVERY eigen-solver oracle meeting `IsEigSym` on the
neighbourhood covariance and every k-NN oracle (the neighbourhood is whatever list the oracle returns; `IsKnn`
states C08's contract for it).  Totalised real operations on the paths of these theorems and how they are guarded:
* `p i / ‖p‖` in the orientation test: `‖p‖ > 0` is derived from `p ≠ 0` (cartesian) or holds always (homogeneous:
  the norm includes the 1) — `pointNorm_pos`; `Real.sqrt` is applied to a sum of squares only;
* `λ₀ / Σλ` (curvature): `curvature_range` carries the hypothesis `0 < Σλ` (the C++ returns NaN when all neighbours
  coincide); `planar_exact` derives `λ₀ = 0`, so the quotient is `0 / Σλ` with `Σλ ≥ λ₁ > 0`;
* `Σ / k` in mean and covariance: `k = 0` only for an empty neighbourhood; `planar_exact` assumes `nb ≠ []`, the
  other statements hold for the totalised value as well (and the C++ asserts `k < n`).
Reliability (`|min(λ₁,..)/λ₀|`) is modelled and tied by the correspondence check; the property states nothing
about it.  Floating-point rounding is outside these theorems (tolerance-checked tie and probe only).
-/
namespace Romea.C09
open Romea.Normals Matrix

/-! ## Bridge: the model's sequential sums are Mathlib's sums (over `ℝ`) -/

private theorem foldl_add_eq (l : List ℝ) (z : ℝ) : l.foldl (fun a x => a + x) z = z + l.sum := by
  induction l generalizing z with
  | nil => simp
  | cons x xs ih => simp only [List.foldl_cons, List.sum_cons]; rw [ih]; ring

theorem lsum_eq (l : List ℝ) : lsum l = l.sum := by
  unfold lsum Normals.zero; rw [foldl_add_eq]; simp

theorem sumFin_eq {n : Nat} (f : Fin n → ℝ) : sumFin f = ∑ i, f i := by
  unfold sumFin; rw [lsum_eq, Fin.sum_univ_def]

theorem dot_eq {d : Nat} (u v : Vec d ℝ) : dot u v = u ⬝ᵥ v := by
  unfold dot; rw [sumFin_eq]; rfl

theorem covTab_eq {d : Nat} (nb : List (Vec d ℝ)) : covTab nb = cov nb := by
  funext a b
  simp [covTab, cov, covWith]


/-! ## The contract of the symmetric eigen-solver oracle -/

/-- `IsEigSym C e`: what the model assumes of `Eigen::SelfAdjointEigenSolver` on the matrix `C`: eigenvalues in
    ascending order, orthonormal eigenvectors (columns of `e.vecs`), and `C V = V Λ`. -/
structure IsEigSym {d : Nat} (C : Mat d ℝ) (e : EigSym d ℝ) : Prop where
  ascending : ∀ i j : Fin d, i ≤ j → e.vals i ≤ e.vals j
  orthonormal : (Matrix.of e.vecs)ᵀ * (Matrix.of e.vecs) = 1
  eigen : (Matrix.of C) * (Matrix.of e.vecs) =
    (Matrix.of e.vecs) * Matrix.diagonal e.vals

section Eig
variable {d : Nat} {C : Mat d ℝ} {e : EigSym d ℝ}

/-- column `j` of the eigenvector matrix -/
def col (e : EigSym d ℝ) (j : Fin d) : Vec d ℝ := fun i => e.vecs i j

private theorem col_dot_col (h : IsEigSym C e) (i j : Fin d) : col e i ⬝ᵥ col e j = if i = j then 1 else 0 := by
  have := congrFun (congrFun h.orthonormal i) j
  simp only [Matrix.mul_apply, Matrix.transpose_apply, Matrix.one_apply, Matrix.of_apply] at this
  simpa [dotProduct, col] using this

private theorem vecs_mul_transpose (h : IsEigSym C e) :
    (Matrix.of e.vecs) * (Matrix.of e.vecs)ᵀ = 1 :=
  mul_eq_one_comm.mp h.orthonormal

/-- `C (col j) = λ_j (col j)` -/
private theorem mulVec_col (h : IsEigSym C e) (j : Fin d) :
    (Matrix.of C) *ᵥ col e j = e.vals j • col e j := by
  funext i
  have := congrFun (congrFun h.eigen i) j
  simp only [Matrix.mul_apply, Matrix.diagonal_apply, mul_ite, mul_zero, Finset.sum_ite_eq', Finset.mem_univ,
    if_true, Matrix.of_apply] at this
  simp only [Matrix.mulVec, dotProduct, col, Pi.smul_apply, smul_eq_mul, Matrix.of_apply]
  rw [this]; ring

/-- coordinates of `v` in the eigenbasis -/
private def coord (e : EigSym d ℝ) (v : Vec d ℝ) : Vec d ℝ := fun j => col e j ⬝ᵥ v

/-- Parseval: the coordinates in the orthonormal eigenbasis have the same squared length -/
private theorem parseval (h : IsEigSym C e) (v : Vec d ℝ) : ∑ j, coord e v j ^ 2 = v ⬝ᵥ v := by
  have hc : coord e v = (Matrix.of e.vecs)ᵀ *ᵥ v := by
    funext j; simp [coord, col, Matrix.mulVec, dotProduct, Matrix.transpose_apply, Matrix.of_apply]
  have : (∑ j, coord e v j ^ 2) = coord e v ⬝ᵥ coord e v := by simp [dotProduct, pow_two]
  rw [this, hc, Matrix.dotProduct_mulVec, Matrix.vecMul_transpose, Matrix.mulVec_mulVec, vecs_mul_transpose h,
    Matrix.one_mulVec]

/-- expansion of `v` in the eigenbasis -/
private theorem expand (h : IsEigSym C e) (v : Vec d ℝ) : v = ∑ j, coord e v j • col e j := by
  have h1 : v = ((Matrix.of e.vecs) * (Matrix.of e.vecs)ᵀ) *ᵥ v := by
    rw [vecs_mul_transpose h, Matrix.one_mulVec]
  conv_lhs => rw [h1]
  funext i
  simp only [Matrix.mulVec, dotProduct, Matrix.mul_apply, Matrix.transpose_apply, Finset.sum_apply, Pi.smul_apply,
    smul_eq_mul, coord, col, Matrix.of_apply]
  simp only [Finset.sum_mul]
  rw [Finset.sum_comm]
  apply Finset.sum_congr rfl; intro j _
  apply Finset.sum_congr rfl; intro k _
  ring

/-- the quadratic form in the eigenbasis: `vᵀ C v = Σ λ_j (e_j · v)²` -/
private theorem quad_expand (h : IsEigSym C e) (v : Vec d ℝ) :
    v ⬝ᵥ ((Matrix.of C) *ᵥ v) = ∑ j, e.vals j * coord e v j ^ 2 := by
  have hv := expand h v
  have hCv : (Matrix.of C) *ᵥ v = ∑ j, (coord e v j * e.vals j) • col e j := by
    conv_lhs => rw [hv]
    rw [Matrix.mulVec_sum]
    apply Finset.sum_congr rfl; intro j _
    rw [Matrix.mulVec_smul, mulVec_col h j, smul_smul]
  rw [hCv, dotProduct_sum]
  apply Finset.sum_congr rfl; intro j _
  rw [dotProduct_smul, smul_eq_mul]
  have : v ⬝ᵥ col e j = coord e v j := by simp [coord, dotProduct_comm]
  rw [this]; ring

/-- the Rayleigh quotient bound: `λ_0 |v|² ≤ vᵀ C v` -/
private theorem rayleigh (h : IsEigSym C e) (hd : 0 < d) (v : Vec d ℝ) :
    e.vals ⟨0, hd⟩ * (v ⬝ᵥ v) ≤ v ⬝ᵥ ((Matrix.of C) *ᵥ v) := by
  rw [quad_expand h v, ← parseval h v, Finset.mul_sum]
  apply Finset.sum_le_sum; intro j _
  exact mul_le_mul_of_nonneg_right (h.ascending _ _ (Fin.mk_le_of_le_val (Nat.zero_le _))) (sq_nonneg _)

/-- a unit vector attaining the smallest eigenvalue in the quadratic form is `±` the first eigenvector when that
    eigenvalue is simple (`λ₀ < λ₁`) -/
private theorem simple_eigvec {m : Nat} {C : Mat (m + 2) ℝ} {e : EigSym (m + 2) ℝ} (h : IsEigSym C e)
    (hs : e.vals 0 < e.vals 1) (u : Vec (m + 2) ℝ) (hu : u ⬝ᵥ u = 1)
    (hq : u ⬝ᵥ (Matrix.of C *ᵥ u) = e.vals 0) : u = col e 0 ∨ u = -col e 0 := by
  have h1 : ∑ j, (e.vals j - e.vals 0) * coord e u j ^ 2 = 0 := by
    have := quad_expand h u
    rw [hq] at this
    have hp := parseval h u
    rw [hu] at hp
    simp only [sub_mul, Finset.sum_sub_distrib, ← Finset.mul_sum, hp, mul_one]
    linarith
  have hnn : ∀ j ∈ Finset.univ, 0 ≤ (e.vals j - e.vals 0) * coord e u j ^ 2 := by
    intro j _
    exact mul_nonneg (sub_nonneg.mpr (h.ascending 0 j (Fin.zero_le _))) (sq_nonneg _)
  have hz := (Finset.sum_eq_zero_iff_of_nonneg hnn).mp h1
  have hc : ∀ j : Fin (m + 2), j ≠ 0 → coord e u j = 0 := by
    intro j hj
    have := hz j (Finset.mem_univ _)
    have hpos : 0 < e.vals j - e.vals 0 := by
      have h1j : (1 : Fin (m + 2)) ≤ j := by
        rw [Fin.le_def]
        have : j.val ≠ 0 := fun h0 => hj (Fin.ext h0)
        have h1v : (1 : Fin (m + 2)).val = 1 := rfl
        omega
      have := h.ascending 1 j h1j
      linarith
    rcases mul_eq_zero.mp this with h0 | h0
    · linarith
    · exact pow_eq_zero_iff (by norm_num) |>.mp h0
  have hexp : u = coord e u 0 • col e 0 := by
    conv_lhs => rw [expand h u]
    rw [Finset.sum_eq_single 0]
    · intro j _ hj; rw [hc j hj, zero_smul]
    · intro h0; exact absurd (Finset.mem_univ _) h0
  have hsq : coord e u 0 ^ 2 = 1 := by
    have hp := parseval h u
    rw [hu, Finset.sum_eq_single 0] at hp
    · exact hp
    · intro j _ hj; rw [hc j hj]; ring
    · intro h0; exact absurd (Finset.mem_univ _) h0
  have hsq' : coord e u 0 = 1 ∨ coord e u 0 = -1 := sq_eq_one_iff.mp hsq
  rcases hsq' with h1 | h1
  · left
    calc u = coord e u 0 • col e 0 := hexp
      _ = col e 0 := by rw [h1, one_smul]
  · right
    calc u = coord e u 0 • col e 0 := hexp
      _ = -col e 0 := by rw [h1, neg_one_smul]

end Eig


/-! ## The neighbourhood covariance is a (scaled) sum of outer products -/

section Cov
variable {d : Nat}

private theorem outer_quad (x w : Vec d ℝ) : ∑ a, w a * ∑ b, (x a * x b) * w b = (x ⬝ᵥ w) ^ 2 := by
  rw [pow_two, dotProduct, Finset.sum_mul_sum]
  apply Finset.sum_congr rfl; intro a _
  rw [Finset.mul_sum]
  apply Finset.sum_congr rfl; intro b _
  ring

/-- the quadratic form of the covariance about any centre `c`: `wᵀ C w = Σ ((q - c)·w)² / k` -/
theorem quad_covWith (nb : List (Vec d ℝ)) (c w : Vec d ℝ) :
    w ⬝ᵥ (Matrix.of (covWith nb c) *ᵥ w) =
      (nb.map fun q => ((fun i => q i - c i) ⬝ᵥ w) ^ 2).sum / (nb.length : ℝ) := by
  have key : ∀ l : List (Vec d ℝ),
      ∑ a, w a * ∑ b, (l.map fun q => (q a - c a) * (q b - c b)).sum * w b =
        (l.map fun q => ((fun i => q i - c i) ⬝ᵥ w) ^ 2).sum := by
    intro l
    induction l with
    | nil => simp
    | cons q qs ih =>
      simp only [List.map_cons, List.sum_cons, add_mul, Finset.sum_add_distrib, mul_add]
      rw [ih, outer_quad (fun i => q i - c i) w]
  rw [← key nb]
  simp only [dotProduct, Matrix.mulVec, Matrix.of_apply, covWith, lsum_eq]
  rw [Finset.sum_div]
  apply Finset.sum_congr rfl; intro a _
  rw [Finset.mul_sum, Finset.mul_sum, Finset.sum_div]
  apply Finset.sum_congr rfl; intro b _
  ring

/-- the covariance is positive semi-definite (it is a non-negative combination of outer products) -/
theorem cov_psd (nb : List (Vec d ℝ)) (w : Vec d ℝ) : 0 ≤ w ⬝ᵥ (Matrix.of (cov nb) *ᵥ w) := by
  unfold cov
  rw [quad_covWith]
  apply div_nonneg
  · apply List.sum_nonneg
    intro x hx
    obtain ⟨q, _, rfl⟩ := List.mem_map.mp hx
    exact sq_nonneg _
  · exact Nat.cast_nonneg _

/-- if all neighbours lie on the hyperplane `u·x = c₀` then the variance along `u` vanishes -/
theorem quad_cov_planar (nb : List (Vec d ℝ)) (hne : nb ≠ []) (u : Vec d ℝ) (c₀ : ℝ)
    (hpl : ∀ q ∈ nb, u ⬝ᵥ q = c₀) : u ⬝ᵥ (Matrix.of (cov nb) *ᵥ u) = 0 := by
  unfold cov
  rw [quad_covWith]
  have hk : (nb.length : ℝ) ≠ 0 := by
    have : 0 < nb.length := List.length_pos_of_ne_nil hne
    positivity
  -- u · mean = c₀
  have hmean : u ⬝ᵥ mean nb = c₀ := by
    have h1 : ∀ l : List (Vec d ℝ), (∀ q ∈ l, u ⬝ᵥ q = c₀) →
        ∑ i, u i * (l.map fun p => p i).sum = (l.length : ℝ) * c₀ := by
      intro l
      induction l with
      | nil => simp
      | cons q qs ih =>
        intro hq
        simp only [List.map_cons, List.sum_cons, mul_add, Finset.sum_add_distrib, List.length_cons, Nat.cast_add,
          Nat.cast_one]
        rw [ih (fun x hx => hq x (List.mem_cons_of_mem _ hx))]
        have := hq q List.mem_cons_self
        simp only [dotProduct] at this
        rw [this]; ring
    simp only [dotProduct, mean, lsum_eq]
    have := h1 nb hpl
    rw [show (∑ i, u i * ((nb.map fun p => p i).sum / (nb.length : ℝ))) =
        (∑ i, u i * (nb.map fun p => p i).sum) / (nb.length : ℝ) by
      rw [Finset.sum_div]; apply Finset.sum_congr rfl; intro i _; ring]
    rw [this]; field_simp
  have hz : (nb.map fun q => ((fun i => q i - mean nb i) ⬝ᵥ u) ^ 2) = nb.map fun _ => (0 : ℝ) := by
    apply List.map_congr_left
    intro q hq
    have h2 : (fun i => q i - mean nb i) ⬝ᵥ u = u ⬝ᵥ q - u ⬝ᵥ mean nb := by
      simp only [dotProduct, ← Finset.sum_sub_distrib]
      apply Finset.sum_congr rfl; intro i _; ring
    rw [h2, hpl q hq, hmean]; simp
  rw [hz]; simp

end Cov


/-! ## Property theorems for one point (`estimate`), for every oracle meeting its contract -/

section Point
variable {m : Nat} (hom : Bool) (eig : Mat (m + 2) ℝ → EigSym (m + 2) ℝ) (nb : List (Vec (m + 2) ℝ))
  (p : Vec (m + 2) ℝ)

/-- the eigenvector the normal is taken from -/
private noncomputable def raw : Vec (m + 2) ℝ := col (eig (cov nb)) 0

private theorem normal_eq :
    (estimate hom eig nb p).normal = if flipTest hom p (raw eig nb) then (fun i => -(raw eig nb i)) else raw eig nb := by
  simp only [estimate, covTab_eq]; rfl

private theorem raw_unit (h : IsEigSym (cov nb) (eig (cov nb))) : raw eig nb ⬝ᵥ raw eig nb = 1 := by
  have := col_dot_col h 0 0
  simpa [raw] using this

private theorem neg_dot (u v : Vec (m + 2) ℝ) : (fun i => -(u i)) ⬝ᵥ v = -(u ⬝ᵥ v) := by
  simp [dotProduct]

private theorem dot_neg' (u v : Vec (m + 2) ℝ) : u ⬝ᵥ (fun i => -(v i)) = -(u ⬝ᵥ v) := by
  simp [dotProduct]

/-- the estimated normal is `± ` the first eigenvector -/
private theorem normal_cases :
    (estimate hom eig nb p).normal = raw eig nb ∨ (estimate hom eig nb p).normal = fun i => -(raw eig nb i) := by
  rw [normal_eq]; split_ifs
  · exact Or.inr rfl
  · exact Or.inl rfl

/-- **unit** — the estimated normal has unit length -/
theorem unit (h : IsEigSym (cov nb) (eig (cov nb))) :
    dot (estimate hom eig nb p).normal (estimate hom eig nb p).normal = 1 := by
  rw [dot_eq]
  rcases normal_cases hom eig nb p with h1 | h1 <;> rw [h1]
  · exact raw_unit eig nb h
  · rw [neg_dot, dot_neg', neg_neg]; exact raw_unit eig nb h

/-- the denominator of the orientation test is positive for a point that is not the origin (for homogeneous
    points always: the norm includes the homogeneous 1) -/
private theorem pointNorm_pos (hp : hom = true ∨ p ≠ 0) : 0 < pointNorm hom p := by
  unfold pointNorm
  simp only [trans_sqrt, dot_eq]
  apply Real.sqrt_pos.mpr
  have hnn : 0 ≤ p ⬝ᵥ p := by
    simp only [dotProduct]; exact Finset.sum_nonneg (fun i _ => mul_self_nonneg _)
  rcases hp with hh | hne
  · simp only [hh, if_true, Normals.one, Nat.cast_one]; linarith
  · have hpos : 0 < p ⬝ᵥ p := by
      rcases lt_or_eq_of_le hnn with h | h
      · exact h
      · exfalso; apply hne
        have := dotProduct_self_eq_zero.mp h.symm
        exact this
    split_ifs
    · simp only [Normals.one, Nat.cast_one]; linarith
    · exact hpos

private theorem flipTest_iff (hp : hom = true ∨ p ≠ 0) (n : Vec (m + 2) ℝ) :
    flipTest hom p n = true ↔ 0 < n ⬝ᵥ p := by
  have hpos := pointNorm_pos hom p hp
  simp only [flipTest, decide_eq_true_eq, dot_eq, Normals.zero, Nat.cast_zero]
  have : (n ⬝ᵥ fun i => p i / pointNorm hom p) = (n ⬝ᵥ p) / pointNorm hom p := by
    simp only [dotProduct, Finset.sum_div]
    apply Finset.sum_congr rfl; intro i _; ring
  rw [this]
  constructor
  · intro h; by_contra hc
    have : (n ⬝ᵥ p) / pointNorm hom p ≤ 0 := div_nonpos_of_nonpos_of_nonneg (not_lt.mp hc) (le_of_lt hpos)
    linarith
  · intro h; exact div_pos h hpos

/-- **faces_sensor** — the estimated normal points toward the sensor at the origin: `n · p ≤ 0`
    (for every point other than the origin itself) -/
theorem faces_sensor (hp : hom = true ∨ p ≠ 0) : dot (estimate hom eig nb p).normal p ≤ 0 := by
  rw [dot_eq, normal_eq]
  by_cases hf : flipTest hom p (raw eig nb) = true
  · rw [if_pos hf, neg_dot]
    have := (flipTest_iff hom p hp _).mp hf
    linarith
  · rw [if_neg hf]
    have := mt (flipTest_iff hom p hp (raw eig nb)).mpr hf
    linarith

/-- variance of the neighbourhood along the estimated normal = smallest eigenvalue -/
private theorem quad_normal (h : IsEigSym (cov nb) (eig (cov nb))) :
    (estimate hom eig nb p).normal ⬝ᵥ (Matrix.of (cov nb) *ᵥ (estimate hom eig nb p).normal) = (eig (cov nb)).vals 0 := by
  have hraw : raw eig nb ⬝ᵥ (Matrix.of (cov nb) *ᵥ raw eig nb) = (eig (cov nb)).vals 0 := by
    unfold raw
    rw [mulVec_col h 0, dotProduct_smul, smul_eq_mul]
    have := col_dot_col h 0 0
    simp only [if_true] at this
    rw [this, mul_one]
  rcases normal_cases hom eig nb p with h1 | h1 <;> rw [h1]
  · exact hraw
  · have : (fun i => -(raw eig nb i)) = -(raw eig nb) := rfl
    rw [this, Matrix.mulVec_neg, neg_dotProduct_neg]; exact hraw

/-- **least_variance** — among all unit directions, the estimated normal is one along which the variance of the
    k nearest neighbours (the quadratic form of their covariance) is least -/
theorem least_variance (h : IsEigSym (cov nb) (eig (cov nb))) (v : Vec (m + 2) ℝ) (hv : dot v v = 1) :
    (estimate hom eig nb p).normal ⬝ᵥ (Matrix.of (cov nb) *ᵥ (estimate hom eig nb p).normal) ≤
      v ⬝ᵥ (Matrix.of (cov nb) *ᵥ v) := by
  rw [quad_normal hom eig nb p h]
  have := rayleigh h (Nat.succ_pos _) v
  rw [dot_eq] at hv
  rw [hv, mul_one] at this
  exact this

/-- the smallest eigenvalue of the covariance is non-negative -/
private theorem val0_nonneg (h : IsEigSym (cov nb) (eig (cov nb))) : 0 ≤ (eig (cov nb)).vals 0 := by
  rw [← quad_normal false eig nb (fun _ => 0) h]; exact cov_psd nb _

/-- **curvature_range** — the reported curvature `λ₀ / Σλ` lies in `[0, 1/DIM]` (neighbours not all identical, so
    that the trace `Σλ` is positive; the C++ returns NaN otherwise) -/
theorem curvature_range (h : IsEigSym (cov nb) (eig (cov nb))) (htr : 0 < sumFin (eig (cov nb)).vals) :
    0 ≤ (estimate hom eig nb p).curvature ∧ (estimate hom eig nb p).curvature ≤ 1 / ((m + 2 : Nat) : ℝ) := by
  have h0 := val0_nonneg eig nb h
  simp only [estimate, covTab_eq]
  refine ⟨div_nonneg h0 (le_of_lt htr), ?_⟩
  rw [div_le_div_iff₀ htr (by positivity), one_mul]
  rw [sumFin_eq]
  have : ∑ _i : Fin (m + 2), (eig (cov nb)).vals 0 ≤ ∑ i, (eig (cov nb)).vals i :=
    Finset.sum_le_sum (fun i _ => h.ascending 0 i (Fin.zero_le _))
  simpa [mul_comm] using this

/-- **planar_exact** — if the k nearest neighbours all lie on a hyperplane `u · x = c₀` (`|u| = 1`) and the zero
    eigenvalue of their covariance is simple (`0 < λ₁`: the neighbours span the hyperplane), then the reported
    curvature is exactly `0` and the estimated normal is exactly `± u`; when the hyperplane does not pass through
    the origin (`c₀ ≠ 0`) and the point itself lies on it, the sign is the one facing the sensor. -/
theorem planar_exact (h : IsEigSym (cov nb) (eig (cov nb))) (hne : nb ≠ [])
    (u : Vec (m + 2) ℝ) (hu : dot u u = 1) (c₀ : ℝ) (hpl : ∀ q ∈ nb, dot u q = c₀)
    (hsimple : 0 < (eig (cov nb)).vals 1) :
    (estimate hom eig nb p).curvature = 0 ∧
    ((estimate hom eig nb p).normal = u ∨ (estimate hom eig nb p).normal = -u) ∧
    (dot u p = c₀ → (0 < c₀ → (estimate hom eig nb p).normal = -u) ∧ (c₀ < 0 → (estimate hom eig nb p).normal = u)) := by
  rw [dot_eq] at hu
  have hq0 : u ⬝ᵥ (Matrix.of (cov nb) *ᵥ u) = 0 :=
    quad_cov_planar nb hne u c₀ (fun q hq => by rw [← dot_eq]; exact hpl q hq)
  have hl0 : (eig (cov nb)).vals 0 = 0 := by
    have h1 := rayleigh h (Nat.succ_pos _) u
    rw [hu, mul_one, hq0] at h1
    have h2 := val0_nonneg eig nb h
    exact le_antisymm h1 h2
  have hraw := simple_eigvec h (by rw [hl0]; exact hsimple) u hu (by rw [hq0, hl0])
  have hcases : (estimate hom eig nb p).normal = u ∨ (estimate hom eig nb p).normal = -u := by
    rcases normal_cases hom eig nb p with h1 | h1 <;> rcases hraw with h2 | h2
    · left; rw [h1, h2]; rfl
    · right; rw [h1, h2]; simp [raw]
    · right; rw [h1, h2]; rfl
    · left; rw [h1, h2]; funext i; simp [raw]
  refine ⟨?_, hcases, ?_⟩
  · simp only [estimate, covTab_eq, hl0, zero_div]
  · intro hp0
    rw [dot_eq] at hp0
    have hfs : ∀ (hc : c₀ ≠ 0), dot (estimate hom eig nb p).normal p ≤ 0 := by
      intro hc
      apply faces_sensor hom eig nb p
      right; intro hz; apply hc; rw [← hp0, hz]; simp
    constructor
    · intro hpos
      rcases hcases with h1 | h1
      · have := hfs (ne_of_gt hpos); rw [dot_eq, h1, hp0] at this; linarith
      · exact h1
    · intro hneg
      rcases hcases with h1 | h1
      · exact h1
      · have := hfs (ne_of_lt hneg); rw [dot_eq, h1, neg_dotProduct, hp0] at this; linarith

end Point


/-! ## Rotating the whole cloud about the origin rotates the normal -/

section Rotation
variable {m : Nat}

private theorem mean_rot (R : Matrix (Fin (m + 2)) (Fin (m + 2)) ℝ) (nb : List (Vec (m + 2) ℝ)) :
    mean (nb.map fun q => R *ᵥ q) = R *ᵥ mean nb := by
  funext i
  have h1 : ∀ l : List (Vec (m + 2) ℝ),
      (l.map fun q => ∑ j, R i j * q j).sum = ∑ j, R i j * (l.map fun q => q j).sum := by
    intro l
    induction l with
    | nil => simp
    | cons q qs ih => simp only [List.map_cons, List.sum_cons, ih, mul_add, Finset.sum_add_distrib]
  simp only [mean, lsum_eq, List.map_map, List.length_map, Matrix.mulVec, dotProduct]
  have : (nb.map ((fun p => p i) ∘ fun q => R *ᵥ q)) = nb.map fun q => ∑ j, R i j * q j := rfl
  rw [this, h1, Finset.sum_div]
  apply Finset.sum_congr rfl; intro j _; ring

/-- the variance of the rotated neighbourhood along `w` is the variance of the original one along `Rᵀ w` -/
private theorem quad_cov_rot (R : Matrix (Fin (m + 2)) (Fin (m + 2)) ℝ) (nb : List (Vec (m + 2) ℝ))
    (w : Vec (m + 2) ℝ) :
    w ⬝ᵥ (Matrix.of (cov (nb.map fun q => R *ᵥ q)) *ᵥ w) =
      (Rᵀ *ᵥ w) ⬝ᵥ (Matrix.of (cov nb) *ᵥ (Rᵀ *ᵥ w)) := by
  unfold cov
  rw [quad_covWith, quad_covWith, mean_rot, List.map_map, List.length_map]
  congr 2
  apply List.map_congr_left
  intro q _
  simp only [Function.comp]
  have : (fun i => (R *ᵥ q) i - (R *ᵥ mean nb) i) = R *ᵥ (fun i => q i - mean nb i) := by
    have : (fun i => q i - mean nb i) = q - mean nb := rfl
    rw [this, Matrix.mulVec_sub]; rfl
  rw [this, Matrix.dotProduct_mulVec, Matrix.vecMul_transpose, dotProduct_comm]

/-- **rotation_equivariant** — rotate the whole cloud about the origin by an orthogonal `R` (the k-NN oracle
    returns the same neighbours: distances are preserved): if the smallest eigenvalue of the neighbourhood
    covariance is simple (`λ₀ < λ₁`) and the point does not lie in its own estimated tangent plane
    (`n · p ≠ 0`, so that the orientation rule decides the sign), then the normal estimated on the rotated cloud is
    exactly `R` applied to the normal estimated on the original cloud — whatever eigenvectors the oracle picks. -/
theorem rotation_equivariant (hom : Bool) (eig : Mat (m + 2) ℝ → EigSym (m + 2) ℝ)
    (R : Matrix (Fin (m + 2)) (Fin (m + 2)) ℝ) (hR : Rᵀ * R = 1)
    (nb : List (Vec (m + 2) ℝ)) (p : Vec (m + 2) ℝ)
    (h : IsEigSym (cov nb) (eig (cov nb)))
    (h' : IsEigSym (cov (nb.map fun q => R *ᵥ q)) (eig (cov (nb.map fun q => R *ᵥ q))))
    (hsimple : (eig (cov nb)).vals 0 < (eig (cov nb)).vals 1)
    (hp : hom = true ∨ p ≠ 0) (hnp : dot (estimate hom eig nb p).normal p ≠ 0) :
    (estimate hom eig (nb.map fun q => R *ᵥ q) (R *ᵥ p)).normal = R *ᵥ (estimate hom eig nb p).normal := by
  set nb' := nb.map fun q => R *ᵥ q with hnb'
  set n := (estimate hom eig nb p).normal with hn
  set n' := (estimate hom eig nb' (R *ᵥ p)).normal with hn'
  have hRR : R * Rᵀ = 1 := mul_eq_one_comm.mp hR
  -- unit vectors
  have hnu : n ⬝ᵥ n = 1 := by rw [← dot_eq]; exact unit hom eig nb p h
  have hn'u : n' ⬝ᵥ n' = 1 := by rw [← dot_eq]; exact unit hom eig nb' (R *ᵥ p) h'
  -- R preserves dot products
  have hdot : ∀ a b : Vec (m + 2) ℝ, (R *ᵥ a) ⬝ᵥ (R *ᵥ b) = a ⬝ᵥ b := by
    intro a b
    rw [Matrix.dotProduct_mulVec, Matrix.vecMul_mulVec, hR, Matrix.vecMul_one]
  have hdotT : ∀ a b : Vec (m + 2) ℝ, (Rᵀ *ᵥ a) ⬝ᵥ (Rᵀ *ᵥ b) = a ⬝ᵥ b := by
    intro a b
    rw [Matrix.dotProduct_mulVec, Matrix.vecMul_transpose, Matrix.mulVec_mulVec, hRR, Matrix.one_mulVec]
  -- the smallest eigenvalues coincide
  have hq : n ⬝ᵥ (Matrix.of (cov nb) *ᵥ n) = (eig (cov nb)).vals 0 := quad_normal hom eig nb p h
  have hq' : n' ⬝ᵥ (Matrix.of (cov nb') *ᵥ n') = (eig (cov nb')).vals 0 := quad_normal hom eig nb' (R *ᵥ p) h'
  set w := Rᵀ *ᵥ n' with hw
  have hwu : w ⬝ᵥ w = 1 := by rw [hw, hdotT]; exact hn'u
  have hqw : w ⬝ᵥ (Matrix.of (cov nb) *ᵥ w) = (eig (cov nb')).vals 0 := by
    rw [← hq', hnb', quad_cov_rot]
  have hle1 : (eig (cov nb)).vals 0 ≤ (eig (cov nb')).vals 0 := by
    have := rayleigh h (Nat.succ_pos _) w
    rw [hwu, mul_one, hqw] at this; exact this
  have hle2 : (eig (cov nb')).vals 0 ≤ (eig (cov nb)).vals 0 := by
    have := rayleigh h' (Nat.succ_pos _) (R *ᵥ n)
    rw [hdot, hnu, mul_one, hnb', quad_cov_rot, Matrix.mulVec_mulVec, hR, Matrix.one_mulVec, hq] at this
    exact this
  have heq : (eig (cov nb')).vals 0 = (eig (cov nb)).vals 0 := le_antisymm hle2 hle1
  -- w is ± the first eigenvector of the original covariance, and so is n
  have hwraw := simple_eigvec h hsimple w hwu (by rw [hqw, heq])
  have hnraw := simple_eigvec h hsimple n hnu hq
  have hwn : w = n ∨ w = -n := by
    rcases hwraw with a | a <;> rcases hnraw with b | b
    · left; rw [a, b]
    · right; rw [a, b, neg_neg]
    · right; rw [a, b]
    · left; rw [a, b]
  have hn'w : n' = R *ᵥ w := by
    rw [hw, Matrix.mulVec_mulVec, hRR, Matrix.one_mulVec]
  -- orientation
  have hp' : hom = true ∨ R *ᵥ p ≠ 0 := by
    rcases hp with a | a
    · exact Or.inl a
    · right; intro hz
      apply a
      have : Rᵀ *ᵥ (R *ᵥ p) = p := by rw [Matrix.mulVec_mulVec, hR, Matrix.one_mulVec]
      rw [← this, hz, Matrix.mulVec_zero]
  have hf : n ⬝ᵥ p ≤ 0 := by rw [← dot_eq]; exact faces_sensor hom eig nb p hp
  have hf' : n' ⬝ᵥ (R *ᵥ p) ≤ 0 := by rw [← dot_eq]; exact faces_sensor hom eig nb' (R *ᵥ p) hp'
  rw [dot_eq] at hnp
  rcases hwn with a | a
  · rw [hn'w, a]
  · exfalso
    rw [hn'w, a, hdot, neg_dotProduct] at hf'
    have : n ⬝ᵥ p = 0 := le_antisymm hf (by linarith)
    exact hnp this

end Rotation


/-! ## The whole cloud -/

section Cloud
variable {m : Nat}

/-- the contract of the k-NN oracle (the statement of C08): `knn i` lists `k` distinct valid indices, and no point
    outside the list is strictly closer to point `i` than a listed one -/
structure IsKnn (k : Nat) (pts : Array (Vec (m + 2) ℝ)) (knn : Nat → List Nat) : Prop where
  length : ∀ i, i < pts.size → (knn i).length = k
  nodup : ∀ i, i < pts.size → (knn i).Nodup
  valid : ∀ i, i < pts.size → ∀ j ∈ knn i, j < pts.size
  nearest : ∀ i, i < pts.size → ∀ j ∈ knn i, ∀ l, l < pts.size → l ∉ knn i →
    (let q := pts.getD i 0; let a := pts.getD j 0; (a - q) ⬝ᵥ (a - q)) ≤
    (let q := pts.getD i 0; let b := pts.getD l 0; (b - q) ⬝ᵥ (b - q))

/-- the neighbourhood of point `i` as the model forms it -/
def neighbourhood (knn : Nat → List Nat) (pts : Array (Vec (m + 2) ℝ)) (i : Nat) : List (Vec (m + 2) ℝ) :=
  (knn i).map fun j => pts.getD j (fun _ => Normals.zero)

theorem computeAll_get (hom : Bool) (eig : Mat (m + 2) ℝ → EigSym (m + 2) ℝ) (knn : Nat → List Nat)
    (pts : Array (Vec (m + 2) ℝ)) (i : Nat) (hi : i < pts.size) :
    (computeAll hom eig knn pts)[i]? =
      some (estimate hom eig (neighbourhood knn pts i) (pts.getD i (fun _ => Normals.zero))) := by
  simp [computeAll, neighbourhood, hi]

/-- **cloud** — for every point of the cloud (all six overloads report projections of the same per-point record):
    the normal is unit, faces the sensor, is a direction of least variance of the point's k nearest neighbours
    (the k-NN oracle meeting C08's statement, the eigen-solver oracle meeting `IsEigSym` on every neighbourhood),
    and the curvature lies in `[0, 1/DIM]` when the neighbours are not all identical. -/
theorem cloud (hom : Bool) (eig : Mat (m + 2) ℝ → EigSym (m + 2) ℝ) (knn : Nat → List Nat) (k : Nat)
    (pts : Array (Vec (m + 2) ℝ)) (_hknn : IsKnn k pts knn)
    (heig : ∀ i, i < pts.size → IsEigSym (cov (neighbourhood knn pts i)) (eig (cov (neighbourhood knn pts i))))
    (i : Nat) (hi : i < pts.size) :
    ∃ o, (computeAll hom eig knn pts)[i]? = some o ∧
      dot o.normal o.normal = 1 ∧
      (hom = true ∨ pts.getD i (fun _ => Normals.zero) ≠ 0 → dot o.normal (pts.getD i (fun _ => Normals.zero)) ≤ 0) ∧
      (∀ v : Vec (m + 2) ℝ, dot v v = 1 →
        o.normal ⬝ᵥ (Matrix.of (cov (neighbourhood knn pts i)) *ᵥ o.normal) ≤
          v ⬝ᵥ (Matrix.of (cov (neighbourhood knn pts i)) *ᵥ v)) ∧
      (0 < sumFin (eig (cov (neighbourhood knn pts i))).vals →
        0 ≤ o.curvature ∧ o.curvature ≤ 1 / ((m + 2 : Nat) : ℝ)) := by
  refine ⟨_, computeAll_get hom eig knn pts i hi, ?_, ?_, ?_, ?_⟩
  · exact unit hom eig _ _ (heig i hi)
  · intro hp; exact faces_sensor hom eig _ _ hp
  · intro v hv; exact least_variance hom eig _ _ (heig i hi) v hv
  · intro htr; exact curvature_range hom eig _ _ (heig i hi) htr

end Cloud

/-! ## Histories: one estimator object and one caller-owned kd-tree serve many calls

The overloads `compute(points, pointsKdTree, ...)` run through a tree the caller keeps, and an estimator object is
reused from call to call; both have data members that outlive a call (`Normals.lean`, "Objects that outlive a call").
The theorems of this section say that nothing of that survives into a result: for EVERY scalar type (no arithmetic is
involved), every eigen-solver oracle and every k-NN oracle that returns `k` indices per query — the `length` clause of
`IsKnn`, the only thing needed — the reports of a call are `computeAll` of (points, k) of THAT call, whatever the
estimator's buffers held before and whatever sequence of tree constructions, estimator constructions and estimations
preceded it.  (A query that returned fewer than `k` indices would leave the tail of `neighborIndexes_` as earlier calls
— or the constructor — left it: `overwrite`; the hypothesis is exactly what excludes that.) -/

section History
variable {α : Type} [Add α] [Sub α] [Mul α] [Div α] [Neg α] [LT α] [DecidableLT α] [NatCast α] [Trans α] {m : Nat}

/-- `estimate` is `report` applied to the decomposition of the neighbourhood covariance -/
theorem estimate_eq_report (hom : Bool) (eig : Mat (m + 2) α → EigSym (m + 2) α) (nb : List (Vec (m + 2) α))
    (p : Vec (m + 2) α) : estimate hom eig nb p = report hom (eig (covTab nb)) p := rfl

/-- a query that finds `k` neighbours overwrites everything the loops of `planeEstimation_` read -/
theorem take_overwrite (res buf : List Nat) (k : Nat) (h : res.length = k) : (overwrite res buf).take k = res := by
  subst h; simp [overwrite]

/-- **planeEstimation_eig** — after `planeEstimation_` the estimator holds the decomposition of the covariance of the
    neighbours found by THIS query, whatever its buffers held before; `k` is unchanged -/
theorem planeEstimation_eig (eig : Mat (m + 2) α → EigSym (m + 2) α) (knn : Nat → List Nat)
    (pts : Array (Vec (m + 2) α)) (e : Estimator (m + 2) α) (i : Nat) (h : (knn i).length = e.k) :
    (planeEstimation eig knn pts e i).eig = eig (covTab ((knn i).map fun j => pts.getD j (fun _ => Normals.zero))) ∧
    (planeEstimation eig knn pts e i).k = e.k := by
  simp only [planeEstimation, take_overwrite _ _ _ h, and_self]

private theorem computeS_aux (hom : Bool) (eig : Mat (m + 2) α → EigSym (m + 2) α) (knn : Nat → List Nat)
    (pts : Array (Vec (m + 2) α)) (k : Nat) (hk : ∀ i, i < pts.size → (knn i).length = k) (l : List Nat)
    (hl : ∀ i ∈ l, i < pts.size) (e : Estimator (m + 2) α) (he : e.k = k) (out : Array (Out (m + 2) α)) :
    (l.foldl (fun (acc : Estimator (m + 2) α × Array (Out (m + 2) α)) i =>
        let e' := planeEstimation eig knn pts acc.1 i
        (e', acc.2.push (report hom e'.eig (pts.getD i (fun _ => Normals.zero))))) (e, out)).2.toList =
      out.toList ++ l.map (fun i =>
        estimate hom eig ((knn i).map fun j => pts.getD j (fun _ => Normals.zero)) (pts.getD i (fun _ => Normals.zero))) ∧
    (l.foldl (fun (acc : Estimator (m + 2) α × Array (Out (m + 2) α)) i =>
        let e' := planeEstimation eig knn pts acc.1 i
        (e', acc.2.push (report hom e'.eig (pts.getD i (fun _ => Normals.zero))))) (e, out)).1.k = k := by
  induction l generalizing e out with
  | nil => simp [he]
  | cons i is ih =>
    have hi : (knn i).length = e.k := by rw [he]; exact hk i (hl i List.mem_cons_self)
    obtain ⟨h1, h2⟩ := planeEstimation_eig eig knn pts e i hi
    simp only [List.foldl_cons, List.map_cons]
    have := ih (fun j hj => hl j (List.mem_cons_of_mem _ hj)) (planeEstimation eig knn pts e i) (by rw [h2, he])
      (out.push (report hom (planeEstimation eig knn pts e i).eig (pts.getD i (fun _ => Normals.zero))))
    rw [this.1, this.2, h1, estimate_eq_report]
    simp

/-- **computeS_eq_computeAll** — one call on an estimator object in ANY state `e` (fresh, or left behind by earlier
    calls with other clouds, other trees): the reports are those of the stateless `computeAll` (the object the other
    theorems of this file are about), and the object keeps its `k` -/
theorem computeS_eq_computeAll (hom : Bool) (eig : Mat (m + 2) α → EigSym (m + 2) α) (knn : Nat → List Nat)
    (pts : Array (Vec (m + 2) α)) (e : Estimator (m + 2) α) (hk : ∀ i, i < pts.size → (knn i).length = e.k) :
    (computeS hom eig knn pts e).2.toList = computeAll hom eig knn pts ∧ (computeS hom eig knn pts e).1.k = e.k := by
  have := computeS_aux hom eig knn pts e.k hk (List.range pts.size) (fun i hi => List.mem_range.mp hi) e rfl #[]
  simpa [computeS, computeAll] using this

/-- the session after a list of operations -/
def runOps (hom : Bool) (eig : Mat (m + 2) α → EigSym (m + 2) α)
    (knn : Array (Vec (m + 2) α) → Nat → Nat → List Nat) (s : Session (m + 2) α) (ops : List (Op (m + 2) α)) :
    Session (m + 2) α :=
  ops.foldl (fun s o => (s.step hom eig knn o).1) s

/-- what a history says about the objects, read off the operations alone: the point set of the last tree built and the
    `k` of the last estimator constructed -/
def book (b : Option (Array (Vec (m + 2) α)) × Option Nat) (ops : List (Op (m + 2) α)) :
    Option (Array (Vec (m + 2) α)) × Option Nat :=
  ops.foldl (fun b o => match o with
    | .setCloud pts => (some pts, b.2)
    | .setEst k => (b.1, some k)
    | .use => b) b

/-- the k-NN oracle answers every query of the domain with `k` indices (the `length` clause of `IsKnn`) -/
def KnnLength (knn : Array (Vec (m + 2) α) → Nat → Nat → List Nat) : Prop :=
  ∀ pts k i, k < pts.size → i < pts.size → (knn pts k i).length = k

private theorem step_book (hom : Bool) (eig : Mat (m + 2) α → EigSym (m + 2) α)
    (knn : Array (Vec (m + 2) α) → Nat → Nat → List Nat) (hknn : KnnLength knn) (s : Session (m + 2) α)
    (o : Op (m + 2) α) :
    ((s.step hom eig knn o).1.cloud, (s.step hom eig knn o).1.est.map (·.k)) = book (s.cloud, s.est.map (·.k)) [o] := by
  cases o with
  | setCloud pts => simp [Session.step, book]
  | setEst k => simp [Session.step, book, Estimator.new]
  | use =>
    simp only [book, List.foldl_cons, List.foldl_nil, Session.step]
    split
    · rename_i pts e hc he
      split
      · rename_i hpre
        have := (computeS_eq_computeAll hom eig (knn pts e.k) pts e (fun i hi => hknn pts e.k i hpre.2 hi)).2
        simp [hc, he, this]
      · rfl
    · rfl

/-- **history** — for every list of operations, from any session: the objects are what the operations say (the point
    set of the last `setCloud`, the `k` of the last `setEst`); nothing else about the past is visible in them -/
theorem history (hom : Bool) (eig : Mat (m + 2) α → EigSym (m + 2) α)
    (knn : Array (Vec (m + 2) α) → Nat → Nat → List Nat) (hknn : KnnLength knn) (s : Session (m + 2) α)
    (ops : List (Op (m + 2) α)) :
    ((runOps hom eig knn s ops).cloud, (runOps hom eig knn s ops).est.map (·.k)) = book (s.cloud, s.est.map (·.k)) ops := by
  induction ops generalizing s with
  | nil => rfl
  | cons o os ih =>
    have h1 := step_book hom eig knn hknn s o
    have h2 := ih (s.step hom eig knn o).1
    simp only [runOps, book, List.foldl_cons, List.foldl_nil] at h1 h2 ⊢
    rw [h2, h1]

/-- **use_after_history** — the reports of an estimation made after ANY history depend only on the point set and the
    `k` in force at that call: they are `computeAll` on (points, k); earlier estimations through the same tree with
    other `k`, earlier uses of the same estimator on other point sets, and their order leave no trace -/
theorem use_after_history (hom : Bool) (eig : Mat (m + 2) α → EigSym (m + 2) α)
    (knn : Array (Vec (m + 2) α) → Nat → Nat → List Nat) (hknn : KnnLength knn)
    (ops : List (Op (m + 2) α)) (pts : Array (Vec (m + 2) α)) (k : Nat)
    (hb : book (none, none) ops = (some pts, some k)) (hpre : 0 < k ∧ k < pts.size) :
    (((runOps hom eig knn {} ops).step hom eig knn .use).2).map Array.toList =
      some (computeAll hom eig (knn pts k) pts) := by
  have h := history hom eig knn hknn {} ops
  rw [show (({} : Session (m + 2) α).cloud, ({} : Session (m + 2) α).est.map (·.k)) = (none, none) from rfl, hb] at h
  have hc : (runOps hom eig knn {} ops).cloud = some pts := congrArg Prod.fst h
  have he : (runOps hom eig knn {} ops).est.map (·.k) = some k := congrArg Prod.snd h
  obtain ⟨e, hee, hek⟩ := Option.map_eq_some_iff.mp he
  unfold Session.step
  simp only [hc, hee]
  rw [if_pos (by rw [hek]; exact hpre)]
  simp only [Option.map_some]
  rw [hek, (computeS_eq_computeAll hom eig (knn pts k) pts e
    (fun i hi => by rw [hek]; exact hknn pts k i hpre.2 hi)).1]

end History

/-- **use_after_history_meets_property** — over `ℝ`: every point's report of an estimation made after any history of
    tree constructions, estimator constructions and estimations meets the property (`cloud`), for every k-NN oracle
    meeting `IsKnn` on the cloud of that call and every eigen-solver oracle meeting `IsEigSym` on its neighbourhoods -/
theorem use_after_history_meets_property {m : Nat} (hom : Bool) (eig : Mat (m + 2) ℝ → EigSym (m + 2) ℝ)
    (knn : Array (Vec (m + 2) ℝ) → Nat → Nat → List Nat) (hlen : KnnLength knn)
    (ops : List (Op (m + 2) ℝ)) (pts : Array (Vec (m + 2) ℝ)) (k : Nat)
    (hb : book (none, none) ops = (some pts, some k)) (hpre : 0 < k ∧ k < pts.size)
    (hknn : IsKnn k pts (knn pts k))
    (heig : ∀ i, i < pts.size → IsEigSym (cov (neighbourhood (knn pts k) pts i)) (eig (cov (neighbourhood (knn pts k) pts i))))
    (i : Nat) (hi : i < pts.size) :
    ∃ outs o, ((runOps hom eig knn {} ops).step hom eig knn .use).2 = some outs ∧ outs.toList[i]? = some o ∧
      dot o.normal o.normal = 1 ∧
      (hom = true ∨ pts.getD i (fun _ => Normals.zero) ≠ 0 → dot o.normal (pts.getD i (fun _ => Normals.zero)) ≤ 0) ∧
      (∀ v : Vec (m + 2) ℝ, dot v v = 1 →
        o.normal ⬝ᵥ (Matrix.of (cov (neighbourhood (knn pts k) pts i)) *ᵥ o.normal) ≤
          v ⬝ᵥ (Matrix.of (cov (neighbourhood (knn pts k) pts i)) *ᵥ v)) ∧
      (0 < sumFin (eig (cov (neighbourhood (knn pts k) pts i))).vals →
        0 ≤ o.curvature ∧ o.curvature ≤ 1 / ((m + 2 : Nat) : ℝ)) := by
  have h := use_after_history hom eig knn hlen ops pts k hb hpre
  obtain ⟨outs, ho, hl⟩ := Option.map_eq_some_iff.mp h
  obtain ⟨o, h1, h2⟩ := cloud hom eig (knn pts k) k pts hknn heig i hi
  exact ⟨outs, o, ho, by rw [hl]; exact h1, h2⟩

/-! ## Non-vacuity: a concrete neighbourhood and a concrete decomposition meeting the contract -/

section Examples

/-- three points on the line `y = 1` -/
private def exNb : List (Vec 2 ℝ) := [![0, 1], ![1, 1], ![2, 1]]

/-- eigenvalues `(0, 2/3)`, eigenvectors `(0,1)` and `(1,0)` -/
private noncomputable def exEig : EigSym 2 ℝ := { vals := ![0, 2 / 3], vecs := ![![0, 1], ![1, 0]] }

private theorem exCov : cov exNb = ![![2 / 3, 0], ![0, 0]] := by
  funext a b
  fin_cases a <;> fin_cases b <;>
    norm_num [cov, covWith, mean, lsum_eq, exNb, Matrix.cons_val_zero, Matrix.cons_val_one]

private theorem exIsEig : IsEigSym (cov exNb) exEig := by
  rw [exCov]
  refine ⟨?_, ?_, ?_⟩
  · intro i j hij
    fin_cases i <;> fin_cases j <;> simp [exEig] at hij ⊢
    all_goals norm_num
  · ext i j
    fin_cases i <;> fin_cases j <;> simp [exEig, Matrix.mul_apply, Fin.sum_univ_two]
  · ext i j
    fin_cases i <;> fin_cases j <;> simp [exEig, Matrix.mul_apply, Fin.sum_univ_two, Matrix.diagonal]

/-- the hypotheses of `planar_exact` (hence of `unit`, `least_variance`, `curvature`'s numerator) are met:
    neighbours on `u · x = 1` with `u = (0,1)`, simple zero eigenvalue; the theorem then gives normal `= -u`
    for the point `(1,1)`, i.e. `(0,-1)`, facing the sensor -/
example : (estimate (m := 0) false (fun _ => exEig) exNb ![1, 1]).normal = ![0, -1] := by
  have h := planar_exact (m := 0) false (fun _ => exEig) exNb ![1, 1] exIsEig (by simp [exNb]) ![0, 1]
    (by rw [dot_eq]; simp [dotProduct, Fin.sum_univ_two]) 1
    (by intro q hq; rw [dot_eq]; simp only [exNb, List.mem_cons, List.not_mem_nil, or_false] at hq
        rcases hq with rfl | rfl | rfl <;> simp [dotProduct, Fin.sum_univ_two])
    (by simp [exEig])
  have := (h.2.2 (by rw [dot_eq]; simp [dotProduct, Fin.sum_univ_two])).1 (by norm_num)
  rw [this]; funext i; fin_cases i <;> simp

/-- a rotation (quarter turn) meets the hypothesis of `rotation_equivariant` -/
example : (!![0, -1; 1, 0] : Matrix (Fin 2) (Fin 2) ℝ)ᵀ * !![0, -1; 1, 0] = 1 := by
  ext i j; fin_cases i <;> fin_cases j <;> simp [Matrix.mul_apply, Fin.sum_univ_two]

/-- the hypothesis of the history theorems is satisfiable: an oracle answering every query with `k` indices -/
example : KnnLength (α := ℝ) (m := 0) (fun _ k _ => List.range k) := by
  intro pts k i _ _; simp

/-- a concrete history (the one of the seeded change c09b and more): one tree used by estimators with 5, then 20
    neighbours, a second tree used by the same estimator, a third estimator with 3 — its book is the last cloud and the
    last `k`, so `use_after_history` applies to the estimation that follows -/
example (p q : Array (Vec 2 ℝ)) :
    book (m := 0) (none, none) [.setCloud p, .setEst 5, .use, .setEst 20, .use, .setCloud q, .use, .setEst 3] =
      (some q, some 3) := rfl

end Examples

end Romea.C09
