import RomeaModel.Checkup
import Mathlib.Data.Real.Basic
import Mathlib.Tactic.Linarith
import Mathlib.Order.Basic

/-!
# C18 — check-ups classify by their thresholds; statuses aggregate as a severity order

Property theorems only (helper lemmas are local `private` ones at the top).
Thresholds are stated over `ℝ`, i.e. on the exact values of the doubles involved; the
rounding of `t - ε` / `t + ε` is outside the theorem (DESIGN.md, C18 "not carried").
-/
namespace Romea.C18
open Romea.Checkup

/-! ## Threshold laws -/

theorem equal_to_ok_iff (t ε v : ℝ) : (classify .equalTo t ε v).1 = .ok ↔ |v - t| ≤ ε := by
  unfold classify
  simp only
  rw [abs_le]
  by_cases h1 : v < t - ε
  · simp [h1]; intro h; linarith
  · by_cases h2 : v > t + ε
    · simp [h1, h2]; intro _; linarith
    · simp [h1, h2]; constructor <;> linarith

theorem equal_to_cases (t ε v : ℝ) :
    classify .equalTo t ε v =
      if v < t - ε then (.error, .tooLow) else if t + ε < v then (.error, .tooHigh) else (.ok, .isOK) := by
  unfold classify; rfl

theorem greater_than_ok_iff (t ε v : ℝ) : (classify .greaterThan t ε v).1 = .ok ↔ v > t - ε := by
  unfold classify; by_cases h : v > t - ε <;> simp [h]

theorem greater_than_cases (t ε v : ℝ) :
    classify .greaterThan t ε v = if v > t - ε then (.ok, .isOK) else (.error, .tooLow) := by
  unfold classify; rfl

theorem lower_than_ok_iff (t ε v : ℝ) : (classify .lowerThan t ε v).1 = .ok ↔ v < t + ε := by
  unfold classify; by_cases h : v < t + ε <;> simp [h]

theorem lower_than_cases (t ε v : ℝ) :
    classify .lowerThan t ε v = if v < t + ε then (.ok, .isOK) else (.error, .tooHigh) := by
  unfold classify; rfl

/-- reliability: ERROR below the low threshold, WARN below the high one, OK otherwise -/
theorem reliability_cases (lo hi v : ℝ) :
    ((classify .reliability lo hi v).1 = .error ↔ v < lo) ∧
    ((classify .reliability lo hi v).1 = .warn ↔ lo ≤ v ∧ v < hi) ∧
    ((classify .reliability lo hi v).1 = .ok ↔ lo ≤ v ∧ hi ≤ v) := by
  unfold classify
  by_cases h1 : v < lo
  · have : ¬ lo ≤ v := not_le.mpr h1
    simp [h1, this]
  · have h1' : lo ≤ v := not_lt.mp h1
    by_cases h2 : v < hi
    · have : ¬ hi ≤ v := not_le.mpr h2
      simp [h1, h2, h1', this]
    · have h2' : hi ≤ v := not_lt.mp h2
      simp [h1, h2, h1', h2']

/-- the verdict text always matches the status (for every kind and every value) -/
theorem message_matches_status (k : Kind) (t ε v : ℝ) :
    classify k t ε v ∈ [(.ok, .isOK), (.ok, .high), (.warn, .uncertain), (.error, .tooLow), (.error, .tooHigh)] ∧
    ((classify k t ε v).1 = .ok ↔ (classify k t ε v).2 = .isOK ∨ (classify k t ε v).2 = .high) := by
  unfold classify
  cases k <;> simp only [] <;> split_ifs <;> simp

/-! ## Report consistency over every history -/

/-- what the stored report must say after a history: decided by the *last* operation only -/
noncomputable def expected (s₀ : State ℝ) (ops : List (Op ℝ)) : Status × Msg × Option ℝ :=
  match ops.getLast? with
  | some (.eval v) => ((classify s₀.kind s₀.t s₀.e v).1, (classify s₀.kind s₀.t s₀.e v).2, some v)
  | some .timeout => (.stale, .timeout, none)
  | none => (s₀.status, s₀.msg, s₀.info)

private theorem run_params (s : State ℝ) (ops : List (Op ℝ)) :
    (run s ops).kind = s.kind ∧ (run s ops).t = s.t ∧ (run s ops).e = s.e := by
  induction ops generalizing s with
  | nil => simp [run]
  | cons o os ih =>
    have := ih (step s o)
    simp only [run, List.foldl_cons] at this ⊢
    cases o <;> simp_all [step, evaluate, timeout]

/-- the returned status is the stored one -/
theorem evaluate_returns_stored (s : State ℝ) (v : ℝ) : (evaluate s v).2 = (evaluate s v).1.status := by
  simp [evaluate]

/-- after ANY sequence of evaluations and timeouts the stored status, message class and info entry
    all belong to the same (the last) operation -/
theorem report_consistent (s₀ : State ℝ) (ops : List (Op ℝ)) :
    let s := run s₀ ops
    (s.status, s.msg, s.info) = expected s₀ ops := by
  intro s
  rcases List.eq_nil_or_concat ops with h | ⟨init, last, h⟩
  · subst h; simp [s, run, expected]
  · subst h
    have hp := run_params s₀ init
    have hs : s = step (run s₀ init) last := by simp [s, run, List.foldl_append]
    have hlast : (init ++ [last]).getLast? = some last := by simp
    unfold expected
    rw [List.concat_eq_append, hlast, hs]
    cases last with
    | eval v => simp [step, evaluate, hp.1, hp.2.1, hp.2.2]
    | timeout => simp [step, timeout]

/-! ## Status algebra -/

theorem worse_lattice : ∀ a b c : Status,
    worse a b = worse b a ∧ worse (worse a b) c = worse a (worse b c) ∧ worse a a = a ∧
    (worse a b).toNat = max a.toNat b.toNat := by
  intro a b c; cases a <;> cases b <;> cases c <;> decide

private theorem foldl_worse_toNat (l : List Status) (s : Status) :
    (l.foldl worse s).toNat = l.foldl (fun m x => max m x.toNat) s.toNat := by
  induction l generalizing s with
  | nil => rfl
  | cons x xs ih => simp only [List.foldl_cons]; rw [ih, (worse_lattice s x s).2.2.2]

/-- `worseStatus` of a non-empty list is its maximum in the order OK < WARN < ERROR < STALE -/
theorem worseStatus_is_max (l : List Status) (h : l ≠ []) :
    ∃ s, worseStatus l = some s ∧ s ∈ l ∧ ∀ x ∈ l, x.toNat ≤ s.toNat := by
  cases l with
  | nil => exact absurd rfl h
  | cons a as =>
    refine ⟨as.foldl worse a, rfl, ?_, ?_⟩
    · clear h
      induction as generalizing a with
      | nil => simp
      | cons x xs ih =>
        simp only [List.foldl_cons]
        have := ih (worse a x)
        rcases List.mem_cons.mp this with h1 | h1
        · rw [h1]; unfold worse; split <;> simp
        · simp [h1]
    · clear h
      induction as generalizing a with
      | nil => simp
      | cons x xs ih =>
        intro y hy
        simp only [List.foldl_cons]
        have hw := (worse_lattice a x a).2.2.2
        rcases List.mem_cons.mp hy with rfl | hy
        · exact le_trans (by rw [hw]; exact le_max_left _ _) (ih (worse y x) _ (List.mem_cons_self))
        · rcases List.mem_cons.mp hy with rfl | hy
          · exact le_trans (by rw [hw]; exact le_max_right _ _) (ih (worse a y) _ (List.mem_cons_self))
          · exact ih (worse a x) y (List.mem_cons_of_mem _ hy)

/-- `allOK` holds only if every entry is OK -/
theorem allOK_iff (l : List Status) (h : l ≠ []) : allOK l = some true ↔ ∀ x ∈ l, x = .ok := by
  obtain ⟨s, hs, hmem, hmax⟩ := worseStatus_is_max l h
  simp only [allOK, hs, Option.map_some, Option.some.injEq, beq_iff_eq]
  constructor
  · intro hok x hx
    have := hmax x hx
    rw [hok] at this
    cases x <;> simp_all [Status.toNat]
  · intro hall; exact hall s hmem

/-! ## Report concatenation -/

def Sorted : List (Nat × Nat) → Prop
  | [] => True
  | [_] => True
  | a :: b :: r => a.1 < b.1 ∧ Sorted (b :: r)

def lookup (k : Nat) : List (Nat × Nat) → Option Nat
  | [] => none
  | (k', v) :: r => if k = k' then some v else lookup k r

private theorem lookup_lt_head (k : Nat) (m : List (Nat × Nat)) (hs : Sorted m)
    (h : ∀ p ∈ m.head?, k < p.1) : lookup k m = none := by
  induction m with
  | nil => rfl
  | cons a r ih =>
    have ha : k < a.1 := h a (by simp)
    obtain ⟨ak, av⟩ := a
    simp only [lookup]
    rw [if_neg (by simp at ha; omega)]
    cases r with
    | nil => rfl
    | cons b r' =>
      apply ih hs.2
      intro p hp; simp at hp; subst hp
      have := hs.1; simp at this ha; omega

private theorem insertNew_sorted_lookup (m : List (Nat × Nat)) (kv : Nat × Nat) (hs : Sorted m) :
    Sorted (insertNew m kv) ∧
    (∀ p ∈ (insertNew m kv).head?, ∀ q ∈ m.head?, p.1 = min kv.1 q.1) ∧
    (m = [] → insertNew m kv = [kv]) ∧
    ∀ k, lookup k (insertNew m kv) = (lookup k m).or (if k = kv.1 then some kv.2 else none) := by
  induction m with
  | nil =>
    refine ⟨trivial, by simp, fun _ => rfl, ?_⟩
    intro k; simp [insertNew, lookup]
  | cons a r ih =>
    obtain ⟨ak, av⟩ := a
    obtain ⟨kk, kvv⟩ := kv
    have hsr : Sorted r := by
      cases r with
      | nil => trivial
      | cons b r' => exact hs.2
    obtain ⟨ih1, ih2, ih3, ih4⟩ := ih hsr
    simp only [insertNew]
    by_cases h1 : kk < ak
    · simp only [h1, if_true]
      refine ⟨⟨h1, hs⟩, by simp; omega, by simp, ?_⟩
      intro k
      simp only [lookup]
      by_cases hk : k = kk
      · subst hk; simp; rw [if_neg (by omega)]
        have : lookup k r = none := by
          apply lookup_lt_head k r hsr
          intro p hp
          cases r with
          | nil => simp at hp
          | cons b r' => simp at hp; subst hp; have := hs.1; simp at this; omega
        simp [this]
      · simp [hk]
    · simp only [h1, if_false]
      by_cases h2 : kk = ak
      · simp only [h2, if_true]
        refine ⟨hs, by simp, by simp, ?_⟩
        intro k
        simp only [lookup]
        by_cases hk : k = ak
        · simp [hk]
        · simp [hk]
      · simp only [h2, if_false]
        have hgt : ak < kk := by omega
        refine ⟨?_, by simp; omega, by simp, ?_⟩
        · cases r with
          | nil => simp [insertNew]; exact ⟨hgt, trivial⟩
          | cons b r' =>
            have hb := hs.1
            have := ih2
            cases hins : insertNew (b :: r') (kk, kvv) with
            | nil => trivial
            | cons c r'' =>
              rw [hins] at ih1 this
              refine ⟨?_, ih1⟩
              have hc := this c (by simp) b (by simp)
              simp at hc hb; omega
        · intro k
          simp only [lookup]
          by_cases hk : k = ak
          · simp [hk]
          · simp [hk]; exact ih4 k

private theorem foldl_insertNew (m₂ m₁ : List (Nat × Nat)) (hs : Sorted m₁) :
    Sorted (m₂.foldl insertNew m₁) ∧
    ∀ k, lookup k (m₂.foldl insertNew m₁) = (lookup k m₁).or (lookup k m₂) := by
  induction m₂ generalizing m₁ with
  | nil => simp [lookup, hs]
  | cons a r ih =>
    obtain ⟨h1, _, _, h4⟩ := insertNew_sorted_lookup m₁ a hs
    obtain ⟨i1, i2⟩ := ih (insertNew m₁ a) h1
    refine ⟨i1, ?_⟩
    intro k
    simp only [List.foldl_cons]
    rw [i2 k, h4 k]
    obtain ⟨ak, av⟩ := a
    simp only [lookup]
    by_cases hk : k = ak
    · simp [hk]
    · simp [hk]

/-- appending reports concatenates the diagnostics in order and merges the info maps
    (an info key already present keeps its value, new keys are added; the map stays a map) -/
theorem append_spec (r₁ r₂ : Report) (h₁ : Sorted r₁.info) :
    (append r₁ r₂).diags = r₁.diags ++ r₂.diags ∧
    Sorted (append r₁ r₂).info ∧
    ∀ k, lookup k (append r₁ r₂).info = (lookup k r₁.info).or (lookup k r₂.info) := by
  refine ⟨rfl, ?_, ?_⟩
  · exact (foldl_insertNew r₂.info r₁.info h₁).1
  · exact (foldl_insertNew r₂.info r₁.info h₁).2

/-! ## Non-vacuity: the hypotheses are met by concrete non-trivial instances -/

example : (classify .equalTo (1 : ℝ) (1/10) (11/10)).1 = .ok := by
  rw [equal_to_ok_iff]; norm_num [abs_le]
example : Sorted [(1, 2), (3, 1)] ∧
    (append ⟨[(.ok, 5)], [(1, 2), (3, 1)]⟩ ⟨[(.warn, 6), (.error, 7)], [(1, 9), (2, 8)]⟩).info = [(1, 2), (2, 8), (3, 1)] := by
  refine ⟨by simp [Sorted], by decide⟩
example : worseStatus [.ok, .error, .warn] = some .error := by decide

end Romea.C18
