import RomeaModel.Lambert
import RomeaProofs.Lemmas.C03Real
import RomeaProofs.Lemmas.C03Eval

/-!
# C03 — the Lambert conformal conic projection is conformal, true-scale on its parallels, invertible

Property theorems about the model `RomeaModel/Lambert.lean` (helper lemmas: `RomeaProofs/Lemmas/C03Real.lean`,
`C03Eval.lean`).

Scalars.  Every theorem whose conclusion is an *evaluation* of the model is stated over `RN` (reals with an
absorbing NaN): the model, run on proper numbers `of x`, returns the proper number claimed, which can only be
proved by discharging the guard of every division, `tan`, `pow`, `log` and `sqrt` on the path (done in
`C03Eval.lean`).  Statements about derivatives (`HasDerivAt`) have no meaning over `RN`; they are stated over `ℝ`
for the same model functions, with the domain guards (`InDom`, `EccOK`) as explicit hypotheses, and `C03Eval`
shows that on that domain the `RN` and the `ℝ` evaluation coincide.

Domain predicates (from the property's quantifier, weakened where the proof does not need more):
* `InDom φ`   : `-π/2 < φ < π/2`                       (property: parallels at 15°..75°, points within ±8°)
* `EccOK e`   : `0 ≤ e < 1`                            (property: `e ∈ [0, 0.1]`)
* secant sets : the three latitudes `InDom`, `|lat1| ≠ |lat2|` (property: same hemisphere, 1°..20° apart),
                `1e-9 < |lat0 - π/2|` (the code's own test for a polar origin)
* tangent sets: `InDom lat0`, `lat0 ≠ 0`
* converters  : `n ≠ 0`, `c ≠ 0` — *no sign condition*: southern-hemisphere cones (`n < 0`, `c < 0`) are covered.

Everything DESIGN.md lists for C03 (F and S) is proved; nothing is left `_partial`.  The convergence of the latitude
loop (`roundtrip`, `latitude_of_isometric_latitude`) is proved for `e ≤ 0.1` (the property's range) in exact real
arithmetic: it says nothing about rounding, which the correspondence check and the probe cover.
-/
namespace Romea.C03
open Romea Romea.Lambert Real RN

/-! ## domain predicates -/

structure EllOK (E : Ellipsoid ℝ) : Prop where
  a_pos : 0 < E.a
  ecc : EccOK E.e

structure SecantOK (P : Secant ℝ) : Prop where
  lat0 : InDom P.lat0
  lat1 : InDom P.lat1
  lat2 : InDom P.lat2
  distinct : |P.lat1| ≠ |P.lat2|
  notPolar : (poleTol : ℝ) < |P.lat0 - π / 2|

structure TangentOK (P : Tangent ℝ) : Prop where
  lat0 : InDom P.lat0
  notEquator : P.lat0 ≠ 0

structure ConvOK (cv : Conv ℝ) : Prop where
  n_ne : cv.n ≠ 0
  c_ne : cv.c ≠ 0
  ecc : EccOK cv.e

/-- the converter the C++ builds from a secant parameter set -/
noncomputable def secantConv (P : Secant ℝ) (E : Ellipsoid ℝ) : Conv ℝ := Conv.ofParams (paramsSecant P E) E.e
/-- the converter the C++ builds from a tangent parameter set -/
noncomputable def tangentConv (P : Tangent ℝ) (E : Ellipsoid ℝ) : Conv ℝ := Conv.ofParams (paramsTangent P E) E.e

/-- the property's quantifier (two distinct standard parallels in the same hemisphere) gives `|lat1| ≠ |lat2|` -/
theorem distinct_of_same_hemisphere {φ₁ φ₂ : ℝ} (hne : φ₁ ≠ φ₂)
    (hhem : (0 < φ₁ ∧ 0 < φ₂) ∨ (φ₁ < 0 ∧ φ₂ < 0)) : |φ₁| ≠ |φ₂| := by
  rcases hhem with ⟨h1, h2⟩ | ⟨h1, h2⟩
  · rw [abs_of_pos h1, abs_of_pos h2]; exact hne
  · rw [abs_of_neg h1, abs_of_neg h2]; exact fun h => hne (neg_injective h)

/-! ## the constructors evaluate without NaN -/

/-- `EarthEllipsoid(a, b)` with `0 < b ≤ a`: proper numbers, eccentricity in `[0, 1)` -/
theorem ellipsoid_ok {a b : ℝ} (hb : 0 < b) (hab : b ≤ a) :
    Ellipsoid.make (of a) (of b) = (Ellipsoid.make a b).toRN ∧ EllOK (Ellipsoid.make a b) :=
  ⟨Ellipsoid.make_of (lt_of_lt_of_le hb hab) hb.le hab,
   ⟨lt_of_lt_of_le hb hab, Ellipsoid.make_eccOK hb hab⟩⟩

/-- secant parameters: every intermediate result is a proper number, and the cone constant `n` and the radius
    constant `c` are non-zero (so the converter satisfies `ConvOK`), in both hemispheres -/
theorem secant_params_ok {P : Secant ℝ} {E : Ellipsoid ℝ} (hP : SecantOK P) (hE : EllOK E) :
    Conv.ofParams (paramsSecant P.toRN E.toRN) E.toRN.e = (secantConv P E).toRN ∧ ConvOK (secantConv P E) := by
  refine ⟨?_, ?_⟩
  · rw [paramsSecant_of P E hP.lat0 hP.lat1 hP.lat2 hE.a_pos hE.ecc hP.distinct]; rfl
  · refine ⟨?_, ?_, hE.ecc⟩
    · show (paramsSecant P E).n ≠ 0
      rw [paramsSecant_real]; exact nSec_ne_zero hP.lat1 hP.lat2 hE.a_pos hE.ecc hP.distinct
    · show (paramsSecant P E).c ≠ 0
      rw [paramsSecant_real]; exact cSec_ne_zero hP.lat1 hP.lat2 hE.a_pos hE.ecc hP.distinct

private theorem sin_ne_zero_of {φ : ℝ} (h : InDom φ) (hs : φ ≠ 0) : sin φ ≠ 0 := by
  intro h0
  exact hs (injOn_sin ⟨h.1.le, h.2.le⟩ ⟨by linarith [pi_pos], by linarith [pi_pos]⟩ (h0.trans sin_zero.symm))

/-- tangent parameters: proper numbers; `n = sin lat0 ≠ 0`, and `c ≠ 0` when `k0 ≠ 0` -/
theorem tangent_params_ok {P : Tangent ℝ} {E : Ellipsoid ℝ} (hP : TangentOK P) (hE : EllOK E) (hk : P.k0 ≠ 0) :
    Conv.ofParams (paramsTangent P.toRN E.toRN) E.toRN.e = (tangentConv P E).toRN ∧ ConvOK (tangentConv P E) := by
  have hsin := sin_ne_zero_of hP.lat0 hP.notEquator
  refine ⟨?_, ?_⟩
  · rw [paramsTangent_of P E hP.lat0 hsin hE.ecc]; rfl
  · refine ⟨?_, ?_, hE.ecc⟩
    · show (paramsTangent P E).n ≠ 0
      rw [paramsTangent_real]; exact hsin
    · show (paramsTangent P E).c ≠ 0
      rw [paramsTangent_real]
      exact mul_ne_zero (mul_ne_zero (mul_ne_zero hk (grandeNormale_pos hE.a_pos hE.ecc).ne')
        (div_ne_zero (cos_pos_of_inDom hP.lat0).ne' hsin)) (exp_pos _).ne'

/-- a tangent cone in the southern hemisphere has `n < 0` and `c < 0` (the case the inverse used to hang on) -/
theorem tangent_southern_signs {P : Tangent ℝ} {E : Ellipsoid ℝ} (hP : TangentOK P) (hE : EllOK E)
    (hsouth : P.lat0 < 0) (hk : 0 < P.k0) : (tangentConv P E).n < 0 ∧ (tangentConv P E).c < 0 := by
  have hsin : sin P.lat0 < 0 := sin_neg_of_neg_of_neg_pi_lt hsouth (by linarith [hP.lat0.1, pi_pos])
  have hN := grandeNormale_pos (φ := P.lat0) hE.a_pos hE.ecc
  have hcos := cos_pos_of_inDom hP.lat0
  constructor
  · show (paramsTangent P E).n < 0
    rw [paramsTangent_real]; exact hsin
  · show (paramsTangent P E).c < 0
    rw [paramsTangent_real]
    have hcot : cos P.lat0 / sin P.lat0 < 0 := div_neg_of_pos_of_neg hcos hsin
    exact mul_neg_of_neg_of_pos (mul_neg_of_pos_of_neg (mul_pos hk hN) hcot) (exp_pos _)

/-! ## 1. origin and central meridian -/

/-- the projection origin `(lat0, lon0)` maps to the false origin `(x0, y0)` — secant case -/
theorem origin_to_false_origin_secant {P : Secant ℝ} {E : Ellipsoid ℝ} (hP : SecantOK P) (hE : EllOK E) :
    toLambert (Conv.ofParams (paramsSecant P.toRN E.toRN) E.toRN.e) (of P.lat0) (of P.lon0) =
      (of P.x0, of P.y0) := by
  rw [(secant_params_ok hP hE).1, toLambert_of _ _ hP.lat0 hE.ecc]
  have := origin_secant_real P E hP.notPolar
  rw [secantConv, this]

/-- the projection origin `(lat0, lon0)` maps to the false origin `(x0, y0)` — tangent case -/
theorem origin_to_false_origin_tangent {P : Tangent ℝ} {E : Ellipsoid ℝ} (hP : TangentOK P) (hE : EllOK E) :
    toLambert (Conv.ofParams (paramsTangent P.toRN E.toRN) E.toRN.e) (of P.lat0) (of P.lon0) =
      (of P.x0, of P.y0) := by
  have hsin := sin_ne_zero_of hP.lat0 hP.notEquator
  rw [paramsTangent_of P E hP.lat0 hsin hE.ecc, Ellipsoid.toRN, Conv.ofParams_toRN, toLambert_of _ _ hP.lat0 hE.ecc,
    origin_tangent_real P E]

/-- every point of the central meridian maps onto the line `x = xs` (any converter) -/
theorem central_meridian_on_xs (cv : Conv ℝ) {φ : ℝ} (h : InDom φ) (he : EccOK cv.e) :
    (toLambert cv.toRN (of φ) (of cv.lon0)).1 = of cv.xs := by
  rw [toLambert_of cv _ h he, central_meridian_real]

/-- … and `xs` is the false easting `x0` and the converter's `lon0` the set's `longitude0`, for both constructions -/
theorem central_meridian_on_x0 {E : Ellipsoid ℝ} (hE : EllOK E) {φ : ℝ} (h : InDom φ) :
    (∀ P : Secant ℝ, SecantOK P →
      (toLambert (Conv.ofParams (paramsSecant P.toRN E.toRN) E.toRN.e) (of φ) (of P.lon0)).1 = of P.x0) ∧
    (∀ P : Tangent ℝ, TangentOK P →
      (toLambert (Conv.ofParams (paramsTangent P.toRN E.toRN) E.toRN.e) (of φ) (of P.lon0)).1 = of P.x0) := by
  constructor
  · intro P hP
    rw [(secant_params_ok hP hE).1]
    have h1 : (secantConv P E).lon0 = P.lon0 := by simp [secantConv, Conv.ofParams, paramsSecant]
    have h2 : (secantConv P E).xs = P.x0 := by simp [secantConv, Conv.ofParams, paramsSecant]
    have := central_meridian_on_xs (secantConv P E) h hE.ecc
    rwa [h1, h2] at this
  · intro P hP
    have hsin := sin_ne_zero_of hP.lat0 hP.notEquator
    rw [paramsTangent_of P E hP.lat0 hsin hE.ecc, Ellipsoid.toRN, Conv.ofParams_toRN]
    have h1 : (Conv.ofParams (paramsTangent P E) E.e).lon0 = P.lon0 := by simp [Conv.ofParams, paramsTangent]
    have h2 : (Conv.ofParams (paramsTangent P E) E.e).xs = P.x0 := by simp [Conv.ofParams, paramsTangent]
    have := central_meridian_on_xs (Conv.ofParams (paramsTangent P E) E.e) h hE.ecc
    rwa [h1, h2] at this

/-! ## 2. true scale on the standard parallels / on the tangent parallel -/

section
variable {α : Type} [Add α] [Sub α] [Mul α] [Div α] [Neg α] [LT α] [DecidableLT α] [NatCast α]
  [OfScientific α] [Trans α]

/-- scale along the parallel of latitude `φ`, written with the model's own functions:
    `k(φ) = n · (c exp(-n L(φ))) / (N(φ) cos φ)` — the polar radius `ρ(φ) = c exp(-n L(φ))` is signed like `c`,
    so `n ρ` is the (positive) rate at which a point moves along its circle per unit longitude
    (`parallel_speed` below), and `N cos φ` is the radius of the parallel on the ellipsoid. -/
def scale (cv : Conv α) (a φ : α) : α :=
  cv.n * (cv.c * Trans.exp ((-cv.n) * isoLat φ cv.e)) / (grandeNormale φ a cv.e * Trans.cos φ)
end

private theorem scale_of (cv : Conv ℝ) {a φ : ℝ} (h : InDom φ) (ha : 0 < a) (he : EccOK cv.e) :
    scale cv.toRN (of a) (of φ) = of (scaleAt cv a φ) := by
  have g : grandeNormale φ a cv.e * cos φ ≠ 0 := (rPar_pos h ha he).ne'
  unfold scale scaleAt rPar
  simp only [Conv.toRN, isoLat_of h he, grandeNormale_of _ _ he]
  rn_eval

/-- the scale is exactly 1 on both standard parallels (secant case, either hemisphere) -/
theorem true_scale_secant {P : Secant ℝ} {E : Ellipsoid ℝ} (hP : SecantOK P) (hE : EllOK E) :
    scale (Conv.ofParams (paramsSecant P.toRN E.toRN) E.toRN.e) (of E.a) (of P.lat1) = of 1 ∧
    scale (Conv.ofParams (paramsSecant P.toRN E.toRN) E.toRN.e) (of E.a) (of P.lat2) = of 1 := by
  rw [(secant_params_ok hP hE).1]
  have he : EccOK (secantConv P E).e := hE.ecc
  rw [scale_of _ hP.lat1 hE.a_pos he, scale_of _ hP.lat2 hE.a_pos he]
  exact ⟨congrArg of (scale_secant_lat1 hP.lat1 hP.lat2 hE.a_pos hE.ecc hP.distinct),
         congrArg of (scale_secant_lat2 hP.lat1 hP.lat2 hE.a_pos hE.ecc hP.distinct)⟩

/-- the scale is exactly `k0` on the tangent parallel (tangent case, either hemisphere) -/
theorem true_scale_tangent {P : Tangent ℝ} {E : Ellipsoid ℝ} (hP : TangentOK P) (hE : EllOK E) :
    scale (Conv.ofParams (paramsTangent P.toRN E.toRN) E.toRN.e) (of E.a) (of P.lat0) = of P.k0 := by
  have hsin := sin_ne_zero_of hP.lat0 hP.notEquator
  rw [paramsTangent_of P E hP.lat0 hsin hE.ecc, Ellipsoid.toRN, Conv.ofParams_toRN]
  have he : EccOK (Conv.ofParams (paramsTangent P E) E.e).e := hE.ecc
  rw [scale_of _ hP.lat0 hE.a_pos he]
  exact congrArg of (scale_tangent hP.lat0 hP.notEquator hE.a_pos hE.ecc)

/-! ## 3. the inverse: longitude and isometric latitude, for both signs of the cone constant -/

/-- `toWGS84` recovers the longitude of every point with `|n (λ - λ₀)| < π/2` -/
theorem inverse_longitude {cv : Conv ℝ} (hcv : ConvOK cv) {φ lam : ℝ} (h : InDom φ)
    (hlam : |cv.n * (lam - cv.lon0)| < π / 2) :
    invLon cv.toRN (toLambert cv.toRN (of φ) (of lam)).1 (toLambert cv.toRN (of φ) (of lam)).2 = of lam := by
  rw [toLambert_of cv _ h hcv.ecc]
  simp only
  rw [invLon_of cv hcv.n_ne (toLambert_guards cv hcv.c_ne φ lam hlam),
    invLon_toLambert cv hcv.c_ne hcv.n_ne φ lam hlam]

/-- the argument `-log(ρ / |c|) / n` handed to `computeLatitude` is the isometric latitude of the point —
    a proper number for BOTH signs of `n` and `c` (only `n ≠ 0`, `c ≠ 0` are used) -/
theorem inverse_isolat {cv : Conv ℝ} (hcv : ConvOK cv) {φ : ℝ} (lam : ℝ) (h : InDom φ) :
    invIsoLat cv.toRN (toLambert cv.toRN (of φ) (of lam)).1 (toLambert cv.toRN (of φ) (of lam)).2 =
      isoLat (of φ) (of cv.e) := by
  rw [toLambert_of cv _ h hcv.ecc, isoLat_of h hcv.ecc]
  simp only
  have hpos : 0 < ((toLambert cv φ lam).1 - cv.xs) * ((toLambert cv φ lam).1 - cv.xs) +
      ((toLambert cv φ lam).2 - cv.ys) * ((toLambert cv φ lam).2 - cv.ys) := by
    have hrho := rho_of_toLambert cv φ lam
    have hp : 0 < |cv.c| * exp (-cv.n * isoLat φ cv.e) := mul_pos (abs_pos.mpr hcv.c_ne) (exp_pos _)
    rw [← hrho] at hp
    exact sqrt_pos.mp hp
  rw [invIsoLat_of cv hcv.c_ne hcv.n_ne hpos, invIsoLat_toLambert cv hcv.c_ne hcv.n_ne]

/-- what the code did before the repair (`log(ρ / c)` with the signed `c`): on a southern cone the argument of the
    logarithm is negative and the result is NaN — which is why `inverse_isolat` needs `|c|` -/
theorem inverse_isolat_signed_c_is_nan {cv : Conv ℝ} (hc : cv.c < 0) {x y : ℝ}
    (hxy : 0 < (x - cv.xs) * (x - cv.xs) + (y - cv.ys) * (y - cv.ys)) :
    (-Trans.log (Trans.sqrt ((of x - of cv.xs) * (of x - of cv.xs) + (of y - of cv.ys) * (of y - of cv.ys)) / of cv.c)) / of cv.n
      = RN.nan := by
  have gs : 0 ≤ (x - cv.xs) * (x - cv.xs) + (y - cv.ys) * (y - cv.ys) := hxy.le
  have gc : cv.c ≠ 0 := hc.ne
  rn_eval
  rw [log_nonpos _ (div_nonpos_of_nonneg_of_nonpos (sqrt_nonneg _) hc.le)]
  simp

/-! ## 4. the latitude loop: fixed point, contraction, termination, accuracy -/

/-- the true latitude is a fixed point of the loop body of `computeLatitude` -/
theorem latitude_fixed_point {φ e : ℝ} (h : InDom φ) (he : EccOK e) :
    latStep (isoLat (of φ) (of e)) (of e) (of φ) = of φ := by
  rw [isoLat_of h he, latStep_of _ _ he, latStep_isoLat h he]

/-- started at the true latitude the loop meets its exit test at once and returns that latitude -/
theorem loop_exits_at_true_latitude {φ e : ℝ} (h : InDom φ) (he : EccOK e) (fuel : ℕ) :
    latLoop (isoLat (of φ) (of e)) (of e) (fuel + 1) (of φ) = some (of φ) := by
  rw [isoLat_of h he, latLoop_of _ he]
  simp only [latLoop, latStep_isoLat h he, sub_self, trans_abs, abs_zero, epsilon_real_pos, if_true, Option.map]

/-- whatever the loop returns is a proper number produced by one more pass from a previous iterate that it
    differs from by less than `EPSILON` (1e-12) -/
private theorem latLoop_some_spec (iso e : ℝ) : ∀ (fuel : ℕ) (start r : ℝ), latLoop iso e fuel start = some r →
    ∃ prev, r = latStep iso e prev ∧ |r - prev| < (epsilon : ℝ)
  | 0, _, _, h => by simp [latLoop] at h
  | k + 1, start, r, h => by
    simp only [latLoop] at h
    split_ifs at h with hc
    · refine ⟨start, (Option.some.inj h).symm, ?_⟩
      rw [← Option.some.inj h]; simpa using hc
    · exact latLoop_some_spec iso e k _ r h

/-- for EVERY eccentricity in `[0, 1)` and every fuel the round trip never produces a NaN: either the loop does not
    exit within the fuel, or the longitude is exactly the original one and the latitude is one pass `g(prev)` of the
    loop body *for the true isometric latitude of the point*, taken from an iterate less than 1e-12 away.
    (`roundtrip` below adds, for `e ≤ 0.1`, that the loop does exit and how accurate the latitude is.) -/
theorem roundtrip_never_nan {cv : Conv ℝ} (hcv : ConvOK cv) {φ lam : ℝ} (h : InDom φ)
    (hlam : |cv.n * (lam - cv.lon0)| < π / 2) (fuel : ℕ) :
    toWGS84 fuel cv.toRN (toLambert cv.toRN (of φ) (of lam)).1 (toLambert cv.toRN (of φ) (of lam)).2 = none ∨
    ∃ ψ prev : ℝ,
      toWGS84 fuel cv.toRN (toLambert cv.toRN (of φ) (of lam)).1 (toLambert cv.toRN (of φ) (of lam)).2 =
        some (of ψ, of lam) ∧
      ψ = latStep (isoLat φ cv.e) cv.e prev ∧ |ψ - prev| < (epsilon : ℝ) := by
  have hiso := inverse_isolat hcv lam h
  have hlon := inverse_longitude hcv h hlam
  unfold toWGS84
  have hcve : cv.toRN.e = of cv.e := rfl
  rw [hiso, hlon, hcve, isoLat_of h hcv.ecc, latFromIso_of _ _ hcv.ecc]
  cases hres : latFromIso fuel (isoLat φ cv.e) cv.e with
  | none => left; rfl
  | some r =>
    right
    obtain ⟨prev, h1, h2⟩ := latLoop_some_spec _ _ fuel _ r hres
    exact ⟨r, prev, rfl, h1, h2⟩

/-- THE ROUND TRIP (S in DESIGN.md, proved in full on the property's domain `e ≤ 0.1`):
    for every converter with `n ≠ 0`, `c ≠ 0` — either hemisphere —, every latitude between the poles and every
    longitude with `|n (λ - λ₀)| < π/2`, `toWGS84 (toLambert (φ, λ))` with fuel ≥ 8 meets the exit test of the latitude
    loop and returns the longitude exactly and a latitude within 1e-13 rad (< the property's 1e-11) of `φ`.
    (Exact real arithmetic; the loop body contracts by `e²/(1-e²) ≤ 1/99`.) -/
theorem roundtrip {cv : Conv ℝ} (hcv : ConvOK cv) (he1 : cv.e ≤ 1 / 10) {φ lam : ℝ} (h : InDom φ)
    (hlam : |cv.n * (lam - cv.lon0)| < π / 2) {fuel : ℕ} (hf : 8 ≤ fuel) :
    ∃ ψ : ℝ,
      toWGS84 fuel cv.toRN (toLambert cv.toRN (of φ) (of lam)).1 (toLambert cv.toRN (of φ) (of lam)).2 =
        some (of ψ, of lam) ∧ |ψ - φ| < 1e-13 := by
  have hiso := inverse_isolat hcv lam h
  have hlon := inverse_longitude hcv h hlam
  obtain ⟨r, hr, hacc⟩ := latFromIso_converges h hcv.ecc he1 hf
  refine ⟨r, ?_, hacc⟩
  unfold toWGS84
  have hcve : cv.toRN.e = of cv.e := rfl
  rw [hiso, hlon, hcve, isoLat_of h hcv.ecc, latFromIso_of _ _ hcv.ecc, hr]
  rfl

/-- `computeLatitude ∘ computeIsometricLatitude` alone: exits with fuel ≥ 8, within 1e-13 rad (for `e ≤ 0.1`) -/
theorem latitude_of_isometric_latitude {φ e : ℝ} (h : InDom φ) (he : EccOK e) (he1 : e ≤ 1 / 10) {fuel : ℕ}
    (hf : 8 ≤ fuel) :
    ∃ ψ : ℝ, latFromIso fuel (isoLat (of φ) (of e)) (of e) = some (of ψ) ∧ |ψ - φ| < 1e-13 := by
  obtain ⟨r, hr, hacc⟩ := latFromIso_converges h he he1 hf
  exact ⟨r, by rw [isoLat_of h he, latFromIso_of _ _ he, hr]; rfl, hacc⟩

/-- the loop body is a contraction with factor `e² / (1 - e²)` (any eccentricity; `< 1` iff `e < 1/√2`) -/
theorem loop_body_contracts (iso : ℝ) {e : ℝ} (he : EccOK e) (ψ : ℝ) :
    ∃ d, HasDerivAt (fun x => latStep iso e x) d ψ ∧ |d| ≤ e ^ 2 / (1 - e ^ 2) :=
  ⟨_, hasDerivAt_latStep iso he ψ, latStepDeriv_bound iso he ψ⟩

/-! ## 5. conformality -/

/-- derivative of the isometric latitude: `dL/dφ = (1 - e²) / ((1 - e² sin²φ) cos φ)` -/
theorem isoLat_hasDerivAt {φ e : ℝ} (h : InDom φ) (he : EccOK e) :
    HasDerivAt (fun x => isoLat x e) ((1 - e ^ 2) / ((1 - e ^ 2 * sin φ ^ 2) * cos φ)) φ :=
  hasDerivAt_isoLat h he

/-- … which is the ratio (meridian radius of curvature `M`) / (radius of the parallel `N cos φ`): the isometric
    latitude advances at the rate at which arc length along the meridian is measured in units of the parallel's radius -/
theorem isoLat_deriv_is_M_over_Ncos {φ a e : ℝ} (h : InDom φ) (ha : 0 < a) (he : EccOK e) :
    (1 - e ^ 2) / ((1 - e ^ 2 * sin φ ^ 2) * cos φ) = mRad φ a e / (grandeNormale φ a e * cos φ) :=
  isoLatDeriv_eq h ha he

/-- the isometric latitude is strictly increasing between the poles (hence distinct parallels give a finite `n`) -/
theorem isoLat_strictMono {e : ℝ} (he : EccOK e) :
    StrictMonoOn (fun x => isoLat x e) (Set.Ioo (-(π / 2)) (π / 2)) := isoLat_strictMonoOn he

/-- the point moves along its image circle at the signed rate `n · c exp(-n L)` per unit longitude:
    `scale · N cos φ` is exactly that rate, so `|scale|` is the local scale along the parallel -/
theorem parallel_speed (cv : Conv ℝ) {a φ : ℝ} (lam : ℝ) (h : InDom φ) (ha : 0 < a) (he : EccOK cv.e) :
    ∃ xl yl : ℝ, HasDerivAt (fun l => (toLambert cv φ l).1) xl lam ∧ HasDerivAt (fun l => (toLambert cv φ l).2) yl lam ∧
      sqrt (xl ^ 2 + yl ^ 2) / (grandeNormale φ a cv.e * cos φ) = |scale cv a φ| := by
  obtain ⟨hx, hy⟩ := hasDerivAt_toLambert_lon cv φ lam
  refine ⟨_, _, hx, hy, ?_⟩
  have hr := rPar_pos h ha he
  have hsum : (polarRate cv φ * cos (cv.n * (lam - cv.lon0))) ^ 2 + (polarRate cv φ * sin (cv.n * (lam - cv.lon0))) ^ 2 =
      polarRate cv φ ^ 2 := by
    have := sin_sq_add_cos_sq (cv.n * (lam - cv.lon0))
    linear_combination (polarRate cv φ) ^ 2 * this
  have hsc : scale cv a φ = polarRate cv φ / rPar φ a cv.e := by
    simp [scale, polarRate, rPar]
  rw [hsum, sqrt_sq_eq_abs, hsc, abs_div, abs_of_pos hr, rPar]

/-- CONFORMALITY.  At every point between the poles the forward map has partial derivatives, the images of the
    meridian and of the parallel are orthogonal, and the local scale along the meridian
    `‖∂(x,y)/∂φ‖ / M(φ)` equals the local scale along the parallel `‖∂(x,y)/∂λ‖ / (N(φ) cos φ)`.
    Holds for every converter (no condition on the sign of `n`, `c`). -/
theorem conformal (cv : Conv ℝ) {a φ : ℝ} (lam : ℝ) (h : InDom φ) (ha : 0 < a) (he : EccOK cv.e) :
    ∃ xp yp xl yl : ℝ,
      HasDerivAt (fun p => (toLambert cv p lam).1) xp φ ∧ HasDerivAt (fun p => (toLambert cv p lam).2) yp φ ∧
      HasDerivAt (fun l => (toLambert cv φ l).1) xl lam ∧ HasDerivAt (fun l => (toLambert cv φ l).2) yl lam ∧
      xp * xl + yp * yl = 0 ∧
      sqrt (xp ^ 2 + yp ^ 2) / mRad φ a cv.e = sqrt (xl ^ 2 + yl ^ 2) / (grandeNormale φ a cv.e * cos φ) := by
  obtain ⟨hxp, hyp⟩ := hasDerivAt_toLambert_lat cv lam h he
  obtain ⟨hxl, hyl⟩ := hasDerivAt_toLambert_lon cv φ lam
  refine ⟨_, _, _, _, hxp, hyp, hxl, hyl, by ring, ?_⟩
  set θ := cv.n * (lam - cv.lon0)
  set R := polarRate cv φ
  have hD : 0 < isoLatDeriv φ cv.e := isoLat_deriv_pos h he
  have hM := mRad_pos (φ := φ) ha he
  have hr := rPar_pos h ha he
  have hsc := sin_sq_add_cos_sq θ
  have h1 : (-(R * isoLatDeriv φ cv.e) * sin θ) ^ 2 + (R * isoLatDeriv φ cv.e * cos θ) ^ 2 = (R * isoLatDeriv φ cv.e) ^ 2 := by
    linear_combination (R * isoLatDeriv φ cv.e) ^ 2 * hsc
  have h2 : (R * cos θ) ^ 2 + (R * sin θ) ^ 2 = R ^ 2 := by linear_combination R ^ 2 * hsc
  rw [h1, h2, sqrt_sq_eq_abs, sqrt_sq_eq_abs, abs_mul, abs_of_pos hD, isoLatDeriv_eq h ha he]
  have : grandeNormale φ a cv.e * cos φ = rPar φ a cv.e := rfl
  rw [this]
  field_simp

/-! ## non-vacuity: every hypothesis set above is met by concrete, non-trivial instances
(Lambert-93 on GRS80; its mirror image in the southern hemisphere; Lambert II étendu on Clarke 1880 IGN and a southern
tangent cone; a southern converter given by its constants `n = -0.7256`, `c = -1.18e7`, the input of the repaired hang) -/
section Examples

private noncomputable def deg (d : ℝ) : ℝ := d * π / 180

private theorem inDom_deg {d : ℝ} (h1 : -90 < d) (h2 : d < 90) : InDom (deg d) := by
  constructor <;> (unfold deg; nlinarith [pi_pos])

private noncomputable def grs80 : Ellipsoid ℝ := Ellipsoid.make 6378137.0 6356752.314
private noncomputable def clarkeIGN : Ellipsoid ℝ := Ellipsoid.make 6378249.2 6356515.0
private noncomputable def lambert93 : Secant ℝ := ⟨deg 3, deg 46.5, deg 44, deg 49, 700000, 6600000⟩
private noncomputable def lambert93South : Secant ℝ := ⟨deg 3, deg (-46.5), deg (-44), deg (-49), 700000, 6600000⟩
private noncomputable def lambert2e : Tangent ℝ := ⟨deg 46.8, deg 2.337229167, 0.99987742, 600000, 2200000⟩
private noncomputable def tangentSouth : Tangent ℝ := ⟨deg (-46.8), deg 2.337229167, 0.99987742, 600000, 2200000⟩
private noncomputable def southConv : Conv ℝ := ⟨0.05, -0.7256, -1.18e7, 700000, -5.6e6, 0.0818⟩

private theorem grs80_ok : EllOK grs80 := (ellipsoid_ok (by norm_num) (by norm_num)).2
private theorem clarke_ok : EllOK clarkeIGN := (ellipsoid_ok (by norm_num) (by norm_num)).2

private theorem deg_abs_ne {a b : ℝ} (h : |a| ≠ |b|) : |deg a| ≠ |deg b| := by
  unfold deg
  have hp : (0 : ℝ) < π / 180 := by positivity
  intro heq
  apply h
  have e1 : a * π / 180 = a * (π / 180) := by ring
  have e2 : b * π / 180 = b * (π / 180) := by ring
  rw [e1, e2, abs_mul, abs_mul, abs_of_pos hp] at heq
  exact mul_right_cancel₀ hp.ne' heq

private theorem notPolar_deg {d : ℝ} (h : d ≤ 89) : (poleTol : ℝ) < |deg d - π / 2| := by
  rw [poleTol_real, abs_sub_comm]
  have : π / 2 - deg d = (90 - d) * π / 180 := by unfold deg; ring
  have hp := two_le_pi
  have hd : (1 : ℝ) ≤ 90 - d := by linarith
  have hnn : 0 ≤ (90 - d) * π / 180 := by positivity
  rw [this, abs_of_nonneg hnn]
  have : (1 : ℝ) * 2 ≤ (90 - d) * π := mul_le_mul hd hp (by norm_num) (by linarith)
  have h180 : (1e-9 : ℝ) < 1 * 2 / 180 := by norm_num
  refine lt_of_lt_of_le h180 ?_
  exact div_le_div_of_nonneg_right this (by norm_num)

private theorem lambert93_ok : SecantOK lambert93 :=
  ⟨inDom_deg (by norm_num) (by norm_num), inDom_deg (by norm_num) (by norm_num), inDom_deg (by norm_num) (by norm_num),
   deg_abs_ne (by norm_num), notPolar_deg (by norm_num)⟩

private theorem lambert93South_ok : SecantOK lambert93South :=
  ⟨inDom_deg (by norm_num) (by norm_num), inDom_deg (by norm_num) (by norm_num), inDom_deg (by norm_num) (by norm_num),
   deg_abs_ne (by norm_num), notPolar_deg (by norm_num)⟩

private theorem deg_ne_zero {d : ℝ} (h : d ≠ 0) : deg d ≠ 0 := by
  unfold deg; have := pi_pos; positivity

private theorem lambert2e_ok : TangentOK lambert2e := ⟨inDom_deg (by norm_num) (by norm_num), deg_ne_zero (by norm_num)⟩
private theorem tangentSouth_ok : TangentOK tangentSouth := ⟨inDom_deg (by norm_num) (by norm_num), deg_ne_zero (by norm_num)⟩

private theorem southConv_ok : ConvOK southConv := by
  refine ⟨?_, ?_, ?_, ?_⟩ <;> norm_num [southConv]

private theorem southConv_lon : |southConv.n * ((0.05 + 0.5 : ℝ) - southConv.lon0)| < π / 2 := by
  have hp := two_le_pi
  have : southConv.n * ((0.05 + 0.5 : ℝ) - southConv.lon0) = -0.3628 := by norm_num [southConv]
  rw [this, abs_of_neg (by norm_num)]
  linarith

example := ellipsoid_ok (a := 6378137.0) (b := 6356752.314) (by norm_num) (by norm_num)
example := secant_params_ok lambert93_ok grs80_ok
example := secant_params_ok lambert93South_ok grs80_ok
example := tangent_params_ok lambert2e_ok clarke_ok (by norm_num [lambert2e])
example := tangent_southern_signs tangentSouth_ok clarke_ok (by show deg (-46.8) < 0; unfold deg; nlinarith [pi_pos]) (by norm_num [tangentSouth])
example := origin_to_false_origin_secant lambert93_ok grs80_ok
example := origin_to_false_origin_secant lambert93South_ok grs80_ok
example := origin_to_false_origin_tangent lambert2e_ok clarke_ok
example := origin_to_false_origin_tangent tangentSouth_ok clarke_ok
example := central_meridian_on_xs southConv (inDom_deg (d := -40) (by norm_num) (by norm_num)) southConv_ok.ecc
example := (central_meridian_on_x0 grs80_ok (inDom_deg (d := 50) (by norm_num) (by norm_num))).1 lambert93 lambert93_ok
example := (central_meridian_on_x0 clarke_ok (inDom_deg (d := 50) (by norm_num) (by norm_num))).2 lambert2e lambert2e_ok
example := true_scale_secant lambert93_ok grs80_ok
example := true_scale_secant lambert93South_ok grs80_ok
example := true_scale_tangent lambert2e_ok clarke_ok
example := true_scale_tangent tangentSouth_ok clarke_ok
example := inverse_longitude southConv_ok (inDom_deg (d := -46.5) (by norm_num) (by norm_num)) southConv_lon
example := inverse_isolat southConv_ok (0.05 + 0.5) (inDom_deg (d := -46.5) (by norm_num) (by norm_num))
example := inverse_isolat_signed_c_is_nan (cv := southConv) (x := 700001) (y := 0) (by norm_num [southConv]) (by norm_num [southConv])
example := latitude_fixed_point (inDom_deg (d := -46.5) (by norm_num) (by norm_num)) southConv_ok.ecc
example := loop_exits_at_true_latitude (inDom_deg (d := 46.5) (by norm_num) (by norm_num)) grs80_ok.ecc 0
example := roundtrip_never_nan southConv_ok (inDom_deg (d := -46.5) (by norm_num) (by norm_num)) southConv_lon 1000
example := roundtrip southConv_ok (by norm_num [southConv]) (inDom_deg (d := -46.5) (by norm_num) (by norm_num)) southConv_lon
  (fuel := 1000) (by norm_num)
example := latitude_of_isometric_latitude (inDom_deg (d := -46.5) (by norm_num) (by norm_num)) southConv_ok.ecc
  (by norm_num [southConv]) (fuel := 1000) (by norm_num)
example := loop_body_contracts 1.0 southConv_ok.ecc 0.3
example := isoLat_hasDerivAt (inDom_deg (d := 46.5) (by norm_num) (by norm_num)) grs80_ok.ecc
example := isoLat_deriv_is_M_over_Ncos (inDom_deg (d := 46.5) (by norm_num) (by norm_num)) grs80_ok.a_pos grs80_ok.ecc
example := isoLat_strictMono grs80_ok.ecc
example := parallel_speed southConv (a := 6378137) 0.4 (inDom_deg (d := -46.5) (by norm_num) (by norm_num)) (by norm_num) southConv_ok.ecc
example := conformal southConv (a := 6378137) 0.4 (inDom_deg (d := -46.5) (by norm_num) (by norm_num)) (by norm_num) southConv_ok.ecc
example := distinct_of_same_hemisphere (φ₁ := -0.7) (φ₂ := -0.8) (by norm_num) (Or.inr ⟨by norm_num, by norm_num⟩)

end Examples

end Romea.C03
