import RomeaModel.LinClasses
import RomeaProofs.Properties.C19
import RomeaProofs.Lemmas.C19Classes

/-!
# C19 — witnesses: the sequential hypotheses of the class theorems are satisfiable on TODAY's event lists

`shared_variable_linearizable`, `shared_variable_never_torn`, `optional_linearizable`,
`optional_consumed_once_in_store_order` (in `Properties/C19.lean`) quantify over every data flow that is sequentially
correct on the event lists regenerated from the source.  Here: the hand-written data flows `svFlow`
(`value_ = value;` / `return value_;`) and `optFlow` (`value_ = value;` / copy, `reset()`, return the copy) ARE
sequentially correct on today's lists (so the theorems are not vacuous), and the semantics is run on concrete
schedules of those very bodies.  This module pins the exact event lists of `store` / `load` / `consume`
(`sv_store_evs`, …): an edit of these four methods that changes their events has to be re-examined here even if it
keeps the one-critical-section shape.
-/
namespace Romea.C19
open Romea.Lin Romea.Lockset Romea.Generated.C19

/-- `svFlow` on today's `store` / `load` event lists is sequentially a cell (hypothesis `hseq` of the
    `shared_variable_*` theorems), for every width -/
theorem svFlow_sequentially_a_cell {V : Type} [Inhabited V] (W : Nat) (op : SVOp V) (σ : Store V) :
    vecOf W 1 (runCall σ (cls_SharedVariable.call W (svFlow W) SVOp.method op)).1 = ((svObj W).step (vecOf W 1 σ) op).1 ∧
    (runCall σ (cls_SharedVariable.call W (svFlow W) SVOp.method op)).2 = ((svObj W).step (vecOf W 1 σ) op).2 :=
  sv_refines W op σ

/-- `optFlow` on today's `store` / `consume` event lists is sequentially a one-place buffer (hypothesis `hseq` of the
    `optional_*` theorems), for every payload width -/
theorem optFlow_sequentially_a_buffer (n : Nat) (op : OptOp) (σ : Store Nat) :
    optAbs n (runCall σ (cls_SharedOptionalVariable.call (n + 1) (optFlow n) OptOp.method op)).1 = ((optObj n).step (optAbs n σ) op).1 ∧
    (runCall σ (cls_SharedOptionalVariable.call (n + 1) (optFlow n) OptOp.method op)).2 = ((optObj n).step (optAbs n σ) op).2 :=
  opt_refines n op σ

/-- hence, unconditionally: -/
theorem shared_variable_never_torn_today {V : Type} [Inhabited V] (W : Nat) (σ0 : Store V) (prog : Nat → List (SVOp V))
    (sch : List Nat) :
    ∀ t, ∀ r ∈ ((run (init σ0 (fun t => (prog t).map (svCall W))) sch).thr t).done,
      r = some [] ∨ r = some (vecOf W 1 σ0) ∨ ∃ t' v, SVOp.store v ∈ prog t' ∧ r = some (pad W v) :=
  shared_variable_never_torn W (svFlow W) (svFlow_sequentially_a_cell W) σ0 prog sch

theorem optional_consumed_once_in_store_order_today (n : Nat) (σ0 : Store Nat) (h0 : σ0 (1, 0) = 0)
    (prog : Nat → List OptOp) (sch : List Nat) :
    ∃ H : List (Nat × OptOp × Option (Option (List Nat))),
      (∀ t, ((run (init σ0 (fun t => (prog t).map (optCall n))) sch).thr t).done <+:
          (H.filter fun e => e.1 == t).map (fun e => e.2.2)) ∧
      (∀ t, ∃ rest, (H.filter fun e => e.1 == t).map (fun e => e.2.1) ++ rest = prog t) ∧
      ((H.map fun e => e.2.2).filterMap consumed).Sublist ((H.map fun e => e.2.1).filterMap (OptOp.stored n)) :=
  optional_consumed_once_in_store_order n (optFlow n) (optFlow_sequentially_a_buffer n) σ0 h0 prog sch

/-! ### the semantics run on concrete schedules of today's bodies -/

/-- thread 1 stores `[7, 8]` into a 2-word SharedVariable (bodies from the regenerated table), thread 2 loads twice -/
private def svProg : Nat → List (SVOp Nat) := fun t =>
  if t = 1 then [.store [7, 8]] else if t = 2 then [.load, .load] else []

/-- thread 2 asks for the mutex while thread 1 is between its two word writes: it is blocked (scheduled three times
    without moving), and both loads see `[7, 8]` -/
private def svSch : List Nat := [1, 1, 2, 2, 1, 1, 1, 2, 1, 2, 1, 2, 2, 2, 1, 1, 2, 2, 2, 2, 2, 2, 2, 2, 2, 2]

example : ((run (init (fun _ => 0) (fun t => (svProg t).map (svCall 2))) svSch).thr 2).done = [some [7, 8], some [7, 8]] := by
  decide
example : acqOrder 0 (run (init (fun _ => 0) (fun t => (svProg t).map (svCall 2))) svSch) = [1, 2, 2] := by decide
/-- a schedule in which the first load wins the race: `[0, 0]` then `[7, 8]`, never `[7, 0]` -/
example : ((run (init (fun _ => 0) (fun t => (svProg t).map (svCall 2)))
    [2, 2, 1, 1, 2, 2, 1, 2, 2, 2, 1, 1, 1, 1, 1, 1, 1, 2, 2, 2, 2, 2, 2, 2]).thr 2).done = [some [0, 0], some [7, 8]] := by
  decide
/-- a schedule that stops with thread 1 INSIDE its critical section (one word written): the store is half-written,
    nobody can see it, and `linearizable` says that finishing the call alone yields the serial store -/
example : (run (init (fun _ => 0) (fun t => (svProg t).map (svCall 2))) [1, 1, 1, 1, 1, 2, 2, 2]).store (1, 0) = 7 ∧
    (run (init (fun _ => 0) (fun t => (svProg t).map (svCall 2))) [1, 1, 1, 1, 1, 2, 2, 2]).store (1, 1) = 0 ∧
    (run (init (fun _ => 0) (fun t => (svProg t).map (svCall 2))) [1, 1, 1, 1, 1, 2, 2, 2]).locks 0 = some 1 ∧
    ((run (init (fun _ => 0) (fun t => (svProg t).map (svCall 2))) [1, 1, 1, 1, 1, 2, 2, 2]).thr 2).done = [] := by
  decide
example := shared_variable_never_torn_today 2 (fun _ => (0 : Nat)) svProg svSch
example (W : Nat) := shared_variable_linearizable (V := Nat) W (svFlow W) (svFlow_sequentially_a_cell W)

set_option maxRecDepth 8000 in
/-- two producers, one consumer on a 1-word payload: `[5]` is overwritten by `[6]` before anybody consumes, the
    consumer gets `[6]` once and then nothing -/
example : ((run (init (fun _ => 0) (fun t => (if t = 1 then [OptOp.store [5]] else if t = 2 then [OptOp.store [6]]
      else if t = 3 then [OptOp.consume, OptOp.consume] else []).map (optCall 1)))
    (List.replicate 12 1 ++ List.replicate 12 2 ++ List.replicate 30 3)).thr 3).done = [some (some [6]), some none] := by
  decide


end Romea.C19
