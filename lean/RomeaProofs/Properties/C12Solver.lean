import RomeaProofs.Properties.C07

/-!
# C12 (d) on a REUSED solver — the reported covariance depends on the current problem only

`Properties/C12.lean` states clause (d) of C12 (`solver_covariance`) for the one-shot model `lsqCovariance` (a fresh
solver).  Callers keep ONE `LeastSquares` object and state problem after problem on it (ICP, Gauss–Newton loops); the
object carries `inverseJtJ_` from one call to the next.  This file states clause (d) for the object as a state machine
(`RomeaModel/LeastSquares.lean`, the C07 model, run by the `lsh.*` ops of `Drivers/C12.lean`), for EVERY history:

* `covariance_query_keeps_state`, `run_ignores_covariance_queries`: `computeEstimateCovariance` is an observer — queries
  placed anywhere in a history change nothing that follows;
* `covariance_after_cholesky`, `covariance_after_weighted` (and C07's `covariance_spec` for the SVD path): right after an
  estimate through any of the three paths, on ANY object state whatsoever — in particular whatever `inverseJtJ_` held
  before — the reported matrix is `variance • Acᵀ G⁻¹ Ac`, `G` the normal matrix of rows `0 … n-1` currently in the buffers
  (row-scaled by the weights on the weighted path);
* `solver_covariance_history`: the same with the history explicit — for every initial object, every operation sequence,
  every path; `solver_covariance_history_diagonal`: for a diagonal preconditioner this is `variance • A G⁻¹ Aᵀ`, the
  property's formula;
* `covariance_depends_on_current_problem_only`: two objects with arbitrary different histories (earlier problems of any
  size, earlier estimates through any path, earlier covariance queries, reallocation junk) whose SPECIFIED current
  problems coincide report the same covariance on all three paths (specification level `Spec` / `arun` of C07: what the
  TEXT of a history determines about the object).

Over `ℝ` (exact arithmetic).  The only guarded operations are the matrix inverse (hypothesis: the normal matrix is
invertible — "full-rank problem" in the property's quantifier) and, on the SVD path, `1/σ` (hypotheses `0 ≤ eps`, `NoCut`,
as in C07).  Eigen's routines are parameters with the contracts of `Properties/C07.lean`.
-/
namespace Romea.C12
open Matrix Romea.LeastSquares Romea.C07

/-! ## `computeEstimateCovariance` is an observer -/

/-- a covariance query leaves every member of the object as it was -/
theorem covariance_query_keeps_state (env : Env ℝ) (s : State ℝ) (v : ℝ) : (step env s (.covariance v)).1 = s := rfl

/-- `true` on covariance queries -/
def isCovQuery : Op ℝ → Bool
  | .covariance _ => true
  | _ => false

/-- covariance queries placed ANYWHERE in a history have no influence on the state the history leads to (hence on no
    later estimate and no later covariance) -/
theorem run_ignores_covariance_queries (env : Env ℝ) (s : State ℝ) (ops : List (Op ℝ)) :
    run env s ops = run env s (ops.filter fun o => !isCovQuery o) := by
  induction ops generalizing s with
  | nil => rfl
  | cons o os ih =>
    cases o with
    | covariance v =>
      have h : (List.filter (fun o => !isCovQuery o) (Op.covariance v :: os)) = List.filter (fun o => !isCovQuery o) os := by
        simp [isCovQuery]
      rw [h, ← ih s]
      rfl
    | _ =>
      simp only [isCovQuery, Bool.not_false, List.filter_cons_of_pos]
      exact ih _

/-! ## Right after an estimate: the covariance of the current problem, whatever the object held before -/

private theorem covariance_of_left_inverse (t : State ℝ) (G : Matrix (Fin t.est) (Fin t.est) ℝ) (h : InvM t * G = 1) (v : ℝ) :
    toM t.est t.est (covariance t v) = v • ((AcM t)ᵀ * G⁻¹ * AcM t) := by
  rw [toM_covariance, (Matrix.inv_eq_left_inv h)]

/-- **Cholesky path.**  For ANY object state `s` (any `inverseJtJ_` left by earlier calls) with a full-rank current
    problem: `estimateUsingCholeskyDecomposition(); computeEstimateCovariance(v)` reports `v • Acᵀ (JᵀJ)⁻¹ Ac` -/
theorem covariance_after_cholesky (env : Env ℝ) (s : State ℝ) (hldlt : LDLTContract env)
    (hfull : IsUnit ((JM s)ᵀ * JM s).det) (v : ℝ) :
    toM s.est s.est (covariance (estimateCholesky env s).1 v) = v • ((AcM s)ᵀ * ((JM s)ᵀ * JM s)⁻¹ * AcM s) :=
  covariance_of_left_inverse (estimateCholesky env s).1 _ (estimateCholesky_spec env s hldlt hfull).2 v

/-- **Weighted path.**  `weightedEstimate(); computeEstimateCovariance(v)` reports `v • Acᵀ G⁻¹ Ac` with `G` the normal
    matrix of the row-scaled problem `diag(W)·J` -/
theorem covariance_after_weighted (env : Env ℝ) (s : State ℝ) (hldlt : LDLTContract env)
    (hfull : IsUnit ((Matrix.diagonal (WV s) * JM s)ᵀ * (Matrix.diagonal (WV s) * JM s)).det) (v : ℝ) :
    toM s.est s.est (covariance (weightedEstimate env s).1 v) =
      v • ((AcM s)ᵀ * ((Matrix.diagonal (WV s) * JM s)ᵀ * (Matrix.diagonal (WV s) * JM s))⁻¹ * AcM s) := by
  have hJ := JM_weightJAndY s
  have hfull' : IsUnit ((JM (weightJAndY s))ᵀ * JM (weightJAndY s)).det := by rw [hJ]; exact hfull
  have h := covariance_after_cholesky env (weightJAndY s) hldlt hfull' v
  rw [hJ] at h
  exact h

/-! ## The same with the history explicit -/

/-- the three estimators -/
inductive EstPath
  | svd
  | chol
  | wls

def EstPath.op : EstPath → Op ℝ
  | .svd => .estimateSVD
  | .chol => .estimateCholesky
  | .wls => .weightedEstimate

/-- the normal matrix of the problem a path solves: `JᵀJ` of rows `0 … n-1` currently in the buffers, row-scaled by the
    weights on the weighted path -/
noncomputable def normalOf (p : EstPath) (s : State ℝ) : Matrix (Fin s.est) (Fin s.est) ℝ :=
  match p with
  | .wls => (Matrix.diagonal (WV s) * JM s)ᵀ * (Matrix.diagonal (WV s) * JM s)
  | _ => (JM s)ᵀ * JM s

/-- **Solver covariance on a reused object.**  For EVERY initial object `s₀`, EVERY operation sequence `ops` (earlier
    problems of any size, estimates through any path, covariance queries, preconditioner / size / estimate-size changes,
    any reallocation junk) and every estimator `p`: if the current problem is full rank, the covariance reported after
    `ops; p; computeEstimateCovariance(v)` is `v • Acᵀ G⁻¹ Ac` with `G` the normal matrix of the CURRENT problem — nothing
    else of the history enters (in particular not the `inverseJtJ_` left behind by `ops`). -/
theorem solver_covariance_history (env : Env ℝ) (hldlt : LDLTContract env) (heps : 0 ≤ env.eps)
    (s₀ : State ℝ) (ops : List (Op ℝ)) (p : EstPath) (v : ℝ)
    (hfull : IsUnit (normalOf p (run env s₀ ops)).det)
    (hsvd : p = .svd → SVDAt env (run env s₀ ops) ∧ NoCut env (run env s₀ ops)) :
    ∃ P : LeastSquares.Mat ℝ,
      (step env (step env (run env s₀ ops) p.op).1 (.covariance v)).2 = .mat P ∧
      toM (run env s₀ ops).est (run env s₀ ops).est P =
        v • ((AcM (run env s₀ ops))ᵀ * (normalOf p (run env s₀ ops))⁻¹ * AcM (run env s₀ ops)) := by
  generalize run env s₀ ops = s at hfull hsvd
  cases p with
  | svd => exact ⟨_, rfl, covariance_spec env s (hsvd rfl).1 heps (hsvd rfl).2 v⟩
  | chol => exact ⟨_, rfl, covariance_after_cholesky env s hldlt hfull v⟩
  | wls => exact ⟨_, rfl, covariance_after_weighted env s hldlt hfull v⟩

/-- … and for a diagonal preconditioner `A = diag a` (the property's quantifier) this is the property's formula
    `variance • A G⁻¹ Aᵀ` -/
theorem solver_covariance_history_diagonal (env : Env ℝ) (hldlt : LDLTContract env) (heps : 0 ≤ env.eps)
    (s₀ : State ℝ) (ops : List (Op ℝ)) (p : EstPath) (v : ℝ)
    (hfull : IsUnit (normalOf p (run env s₀ ops)).det)
    (hsvd : p = .svd → SVDAt env (run env s₀ ops) ∧ NoCut env (run env s₀ ops))
    (a : Fin (run env s₀ ops).est → ℝ) (hA : AcM (run env s₀ ops) = Matrix.diagonal a) :
    ∃ P : LeastSquares.Mat ℝ,
      (step env (step env (run env s₀ ops) p.op).1 (.covariance v)).2 = .mat P ∧
      toM (run env s₀ ops).est (run env s₀ ops).est P =
        v • (Matrix.diagonal a * (normalOf p (run env s₀ ops))⁻¹ * (Matrix.diagonal a)ᵀ) := by
  obtain ⟨P, h1, h2⟩ := solver_covariance_history env hldlt heps s₀ ops p v hfull hsvd
  refine ⟨P, h1, ?_⟩
  rw [h2, hA, Matrix.diagonal_transpose]

/-! ## Two histories, one current problem: one covariance -/

private theorem covariance_congr (s t : State ℝ) (he : s.est = t.est) (hA : s.Ac = t.Ac) (hi : s.inv = t.inv) (v : ℝ) :
    covariance s v = covariance t v := by
  unfold covariance
  rw [he, hA, hi]

/-- (as in `Properties/C07.lean`) two objects refining specifications with the same specified current problem hold the same
    current problem -/
private theorem sameProblem_of_specs (s₁ s₂ : State ℝ) (a₁ a₂ : Spec) (h₁ : Refines s₁ a₁) (h₂ : Refines s₂ a₂)
    (hd : a₁.Defined true) (hs : a₁.SameProblem a₂) : SameProblem s₁ s₂ true := by
  obtain ⟨he1, hn1, _, _, _, _, hAc1, hBc1, hJ1, hY1, hW1, _⟩ := h₁
  obtain ⟨he2, hn2, _, _, _, _, hAc2, hBc2, hJ2, hY2, hW2, _⟩ := h₂
  obtain ⟨se, sn, sA, sB, sJ, sY, sW⟩ := hs
  obtain ⟨dJ, dY, dW⟩ := hd
  refine ⟨by rw [he1, he2, se], by rw [hn1, hn2, sn], by rw [hAc1, hAc2, sA], by rw [hBc1, hBc2, sB], ?_, ?_, ?_⟩
  · intro k hk c hc
    rw [hn1] at hk; rw [he1] at hc
    obtain ⟨x, hx⟩ := Option.isSome_iff_exists.mp (dJ k hk c hc)
    rw [hJ1 k c x hx, hJ2 k c x (by rw [← sJ k hk c hc]; exact hx)]
  · intro k hk
    rw [hn1] at hk
    obtain ⟨x, hx⟩ := Option.isSome_iff_exists.mp (dY k hk)
    rw [hY1 k x hx, hY2 k x (by rw [← sY k hk]; exact hx)]
  · intro _ k hk
    rw [hn1] at hk
    obtain ⟨x, hx⟩ := Option.isSome_iff_exists.mp (dW rfl k hk)
    rw [hW1 k x hx, hW2 k x (by rw [← sW k hk]; exact hx)]

/-- **The reported covariance is a function of the current problem only.**  Two objects with arbitrary, different histories
    (different initial contents and capacities, reallocation junk, earlier problems of any size, earlier estimates through
    any path — i.e. ANY two values of `inverseJtJ_` —, earlier covariance queries) whose specified current problems coincide
    report the same covariance after an estimate, on all three paths, for every variance.  No rank hypothesis, no contract
    on the external routines: this is a statement about which members the computation reads. -/
theorem covariance_depends_on_current_problem_only (env : Env ℝ) (s₁ s₂ : State ℝ) (h₁ : WF s₁) (h₂ : WF s₂)
    (ops₁ ops₂ : List (Op ℝ)) (hd : (arun env (forget s₁) ops₁).Defined true)
    (hsame : (arun env (forget s₁) ops₁).SameProblem (arun env (forget s₂) ops₂)) (v : ℝ) :
    covariance (estimateSVD env (run env s₁ ops₁)).1 v = covariance (estimateSVD env (run env s₂ ops₂)).1 v ∧
    covariance (estimateCholesky env (run env s₁ ops₁)).1 v = covariance (estimateCholesky env (run env s₂ ops₂)).1 v ∧
    covariance (weightedEstimate env (run env s₁ ops₁)).1 v = covariance (weightedEstimate env (run env s₂ ops₂)).1 v := by
  have r₁ := run_refines env s₁ _ ops₁ (refines_forget s₁ h₁)
  have r₂ := run_refines env s₂ _ ops₂ (refines_forget s₂ h₂)
  have hs := sameProblem_of_specs _ _ _ _ r₁ r₂ hd hsame
  have hs' : SameProblem (run env s₁ ops₁) (run env s₂ ops₂) false :=
    ⟨hs.1, hs.2.1, hs.2.2.1, hs.2.2.2.1, hs.2.2.2.2.1, hs.2.2.2.2.2.1, fun h => absurd h (by simp)⟩
  have f := estimate_frame env _ _ hs'
  have w := weighted_frame env _ _ hs
  exact ⟨covariance_congr (estimateSVD env _).1 (estimateSVD env _).1 hs.1 hs.2.2.1 f.2.1 v,
    covariance_congr (estimateCholesky env _).1 (estimateCholesky env _).1 hs.1 hs.2.2.1 f.2.2.2 v,
    covariance_congr (weightedEstimate env _).1 (weightedEstimate env _).1 hs.1 hs.2.2.1 w.2 v⟩

/-! ## Non-vacuity

The seeded history of `seeded/c12b-stale-inverse-jtj` in miniature: problem 1 (`J = diag(2, 3)`), Cholesky estimate and a
covariance query, then problem 2 (`J = 1`) stated on the SAME object.  The hypotheses of `solver_covariance_history` hold
for it on the Cholesky path with a routine satisfying the LDLT contract (C07's `exactInverse`); the object still holds the
inverse computed for problem 1 at that point. -/

noncomputable def exEnvH : Env ℝ := { eps := 0, svd := fun _ _ => ⟨#[], #[], #[]⟩, ldltInv := exactInverse }

theorem exEnvH_ldlt : LDLTContract exEnvH := by
  intro e A hpd
  have : toM e e (exactInverse e A) = (toM e e A)⁻¹ := by
    funext i j
    simp only [toM_apply, exactInverse, Mat.get_tab _ _ _ i.isLt j.isLt]
    simp [i.isLt, j.isLt]
  show toM e e A * toM e e (exactInverse e A) = 1
  rw [this]
  exact Matrix.mul_nonsing_inv _ ((Matrix.isUnit_iff_isUnit_det _).mp hpd.isUnit)

noncomputable def exHistory : List (Op ℝ) :=
  [.setEstimateSize 2 (fun _ _ => 7), .setDataSize 2 (fun _ _ => 7) (fun _ => 7), .writeRow 0 #[2, 0] 1, .writeRow 1 #[0, 3] 6,
   .estimateCholesky, .covariance 1, .writeRow 0 #[1, 0] 1, .writeRow 1 #[0, 1] 6]

theorem exHistory_J : JM (run exEnvH State.default exHistory) = !![1, 0; 0, 1] := by
  funext i j
  fin_cases i <;> fin_cases j <;> rfl

/-- the hypotheses of `solver_covariance_history` on the Cholesky path: contract, `0 ≤ eps`, full rank of the current
    problem (the SVD hypotheses are not needed off the SVD path) … -/
example : LDLTContract exEnvH ∧ 0 ≤ exEnvH.eps ∧ IsUnit (normalOf .chol (run exEnvH State.default exHistory)).det ∧
    ((EstPath.chol = .svd) → SVDAt exEnvH (run exEnvH State.default exHistory) ∧ NoCut exEnvH (run exEnvH State.default exHistory)) := by
  refine ⟨exEnvH_ldlt, le_refl _, ?_, fun h => nomatch h⟩
  show IsUnit ((JM (run exEnvH State.default exHistory))ᵀ * JM (run exEnvH State.default exHistory)).det
  rw [exHistory_J]
  show IsUnit ((!![1, 0; 0, 1] : Matrix (Fin 2) (Fin 2) ℝ)ᵀ * !![1, 0; 0, 1]).det
  have : (!![1, 0; 0, 1] : Matrix (Fin 2) (Fin 2) ℝ)ᵀ * !![1, 0; 0, 1] = 1 := by
    ext i j
    fin_cases i <;> fin_cases j <;> simp [Matrix.mul_apply, Fin.sum_univ_two]
  rw [this]
  simp

/-- … while the object still holds what the estimate of problem 1 stored: the inverse of `diag(4, 9)`, not of problem 2's
    normal matrix -/
example : (run exEnvH State.default exHistory).inv =
    exactInverse 2 (computeJtJ (run exEnvH State.default (exHistory.take 4))) := rfl

end Romea.C12
