import RomeaProofs.Lemmas.C04Optimal
import RomeaProofs.Lemmas.C04Objects
import Mathlib.Tactic.NormNum
import Mathlib.Tactic.FinCases

/-!
# C04 — rigid registration from correspondences by SVD returns the proper rigid motion

Property theorems only (helper lemmas live in `RomeaProofs/Lemmas/C04*.lean`).

* Scalars are `ℝ`.  The only partial operations on the path are the divisions by the number of
  correspondences and by the preconditioning scale: the guards `corr ≠ []` and `0 < s` are explicit
  hypotheses (Mathlib's `x / 0 = 0` is never relied on); array accesses are guarded by `InRange`.
* `Eigen::JacobiSVD` is the parameter `svd`.  Each theorem assumes the contract `IsSVD` only for the matrix
  (or the two matrices) the estimator actually decomposes, and holds for EVERY such oracle.
* `d` is the Cartesian dimension (the code instantiates 2 and 3; the theorems hold for every `d`),
  points are Cartesian (`Tab d ℝ`) or homogeneous (`Tab (d+1) ℝ`, last coordinate 1).
-/
set_option linter.unusedVariables false

namespace Romea.C04
open Romea.Registration Matrix

variable {d : Nat}

/-- the Cartesian instantiation (`POINT_SIZE = DIM`) as a Mathlib matrix -/
noncomputable abbrev estC (svd : Mat d d ℝ → SVD d ℝ) (src tgt : Array (Tab d ℝ)) (corr : List (Nat × Nat)) :
    Matrix (Fin (d + 1)) (Fin (d + 1)) ℝ :=
  Matrix.of (estimate d d (Nat.le_refl d) (Nat.le_succ d) svd src tgt corr).toFn

/-- the homogeneous instantiation (`POINT_SIZE = DIM + 1`) -/
noncomputable abbrev estH (svd : Mat d d ℝ → SVD d ℝ) (src tgt : Array (Tab (d + 1) ℝ)) (corr : List (Nat × Nat)) :
    Matrix (Fin (d + 1)) (Fin (d + 1)) ℝ :=
  Matrix.of (estimate d (d + 1) (Nat.le_succ d) (Nat.le_refl _) svd src tgt corr).toFn

/-- every correspondence names existing points -/
def InRange {p : Nat} (src tgt : Array (Tab p ℝ)) (corr : List (Nat × Nat)) : Prop :=
  ∀ c ∈ corr, c.1 < src.size ∧ c.2 < tgt.size

/-- the oracle meets its contract on the cross-covariance block of this problem -/
def OracleOK {p : Nat} (hdp : d ≤ p) (svd : Mat d d ℝ → SVD d ℝ) (src tgt : Array (Tab p ℝ)) (corr : List (Nat × Nat)) : Prop :=
  IsSVD (covL (pairsOf hdp src tgt corr)) (svd (Matrix.of.symm (covL (pairsOf hdp src tgt corr))))

/-- Cartesian coordinates of the source points named by the correspondences -/
def srcPts {p : Nat} (hdp : d ≤ p) (src : Array (Tab p ℝ)) (corr : List (Nat × Nat)) : List (Fin d → ℝ) :=
  corr.map (fun c => trunc hdp (getPt p src c.1).get)

/-- `tgt = Q src + τ` on every correspondence (Cartesian coordinates) -/
def RigidOn {p : Nat} (hdp : d ≤ p) (Q : Matrix (Fin d) (Fin d) ℝ) (τ : Fin d → ℝ) (src tgt : Array (Tab p ℝ))
    (corr : List (Nat × Nat)) : Prop :=
  ∀ c ∈ corr, trunc hdp (getPt p tgt c.2).get = Q *ᵥ trunc hdp (getPt p src c.1).get + τ

/-- the homogeneous coordinate of every used point is 1 -/
def LastIsOne (pts : Array (Tab (d + 1) ℝ)) (idx : List Nat) : Prop :=
  ∀ k ∈ idx, (getPt (d + 1) pts k).get (Fin.last d) = 1

/-! ## 1. The linear part is a proper rotation: orthogonal, determinant exactly +1 -/

private theorem linPart_estimate (p : Nat) (hdp : d ≤ p) (hp : p ≤ d + 1) (svd : Mat d d ℝ → SVD d ℝ)
    (src tgt : Array (Tab p ℝ)) (corr : List (Nat × Nat)) :
    linPart (Matrix.of (estimate d p hdp hp svd src tgt corr).toFn) = rotM svd (covL (pairsOf hdp src tgt corr)) := by
  unfold estimate rotM
  simp only []
  rw [linPart_assemble, cov_block_eq hdp src tgt corr]

private theorem rotM_proper (svd : Mat d d ℝ → SVD d ℝ) (C : Matrix (Fin d) (Fin d) ℝ) (h : IsSVD C (svd (Matrix.of.symm C))) :
    (rotM svd C)ᵀ * rotM svd C = 1 ∧ (rotM svd C).det = 1 := by
  unfold rotM
  rw [rotationOf_eq]
  exact rotation_proper h.U_orth h.V_orth

/-- `find(PointSet, PointSet, correspondences)`, any of the eight point types (`p = d` or `p = d + 1`):
    the linear part `R` satisfies `Rᵀ R = 1` and `det R = 1` (never a reflection). -/
theorem linear_part_proper_rotation (p : Nat) (hdp : d ≤ p) (hp : p ≤ d + 1) (svd : Mat d d ℝ → SVD d ℝ)
    (src tgt : Array (Tab p ℝ)) (corr : List (Nat × Nat)) (hne : corr ≠ []) (hin : InRange src tgt corr)
    (hsvd : OracleOK hdp svd src tgt corr) :
    (linPart (Matrix.of (estimate d p hdp hp svd src tgt corr).toFn))ᵀ *
        linPart (Matrix.of (estimate d p hdp hp svd src tgt corr).toFn) = 1 ∧
      (linPart (Matrix.of (estimate d p hdp hp svd src tgt corr).toFn)).det = 1 := by
  rw [linPart_estimate]
  exact rotM_proper svd _ hsvd

/-- the overload without a correspondence list is the overload with the identity list -/
theorem no_corr_overload_eq (p : Nat) (hdp : d ≤ p) (hp : p ≤ d + 1) (svd : Mat d d ℝ → SVD d ℝ)
    (src tgt : Array (Tab p ℝ)) (hsize : src.size = tgt.size) :
    estimateAll d p hdp hp svd src tgt =
      estimate d p hdp hp svd src tgt ((List.range src.size).map (fun n => (n, n))) :=
  estimateAll_eq p hdp hp svd src tgt hsize

/-- likewise for the preconditioned overload without a correspondence list -/
theorem no_corr_overload_preconditioned_eq (p : Nat) (hdp : d ≤ p) (hp : p ≤ d + 1) (svd : Mat d d ℝ → SVD d ℝ)
    (src tgt : Array (Tab p ℝ)) (sS sT : ℝ) (hsize : src.size = tgt.size) :
    findPreAll d p hdp hp svd src tgt sS sT =
      findPre d p hdp hp svd src tgt ((List.range src.size).map (fun n => (n, n))) sS sT := by
  unfold findPreAll findPre
  rw [estimateAll_eq p hdp hp svd _ _ (by simp [precondition, hsize])]
  simp [precondition]

private theorem linPart_unscale (H : Tab2 (d + 1) (d + 1) ℝ) (s : ℝ) :
    linPart (Matrix.of (unscale d H s).toFn) = linPart (Matrix.of H.toFn) := by
  ext i j
  have hj := j.2
  simp [unscale, linPart, Tab2.toFn]
  intro h; omega

/-- the preconditioned overload (`find(PreconditionedPointSet, PreconditionedPointSet, correspondences)`), any two
    scales: its linear part is a proper rotation as well -/
theorem linear_part_proper_rotation_preconditioned (p : Nat) (hdp : d ≤ p) (hp : p ≤ d + 1) (svd : Mat d d ℝ → SVD d ℝ)
    (src tgt : Array (Tab p ℝ)) (corr : List (Nat × Nat)) (sS sT : ℝ) (hne : corr ≠ []) (hin : InRange src tgt corr)
    (hsT : sT ≠ 0) (hsvd : OracleOK hdp svd (precondition p sS src) (precondition p sT tgt) corr) :
    (linPart (Matrix.of (findPre d p hdp hp svd src tgt corr sS sT).toFn))ᵀ *
        linPart (Matrix.of (findPre d p hdp hp svd src tgt corr sS sT).toFn) = 1 ∧
      (linPart (Matrix.of (findPre d p hdp hp svd src tgt corr sS sT).toFn)).det = 1 := by
  unfold findPre
  rw [linPart_unscale, linPart_estimate]
  exact rotM_proper svd _ hsvd

/-! ## 2. Exact recovery, including the rank-deficient (coplanar 3D / collinear 2D) case -/

private theorem pairs_fst {p : Nat} (hdp : d ≤ p) (src tgt : Array (Tab p ℝ)) (corr : List (Nat × Nat)) :
    (pairsOf hdp src tgt corr).map Prod.fst = srcPts hdp src corr := by
  simp [pairsOf, srcPts, List.map_map, Function.comp_def]

private theorem pairs_rigid {p : Nat} (hdp : d ≤ p) {Q : Matrix (Fin d) (Fin d) ℝ} {τ : Fin d → ℝ}
    {src tgt : Array (Tab p ℝ)} {corr : List (Nat × Nat)} (h : RigidOn hdp Q τ src tgt corr) :
    Rigid Q τ (pairsOf hdp src tgt corr) := by
  intro q hq
  simp only [pairsOf, List.mem_map] at hq
  obtain ⟨c, hc, rfl⟩ := hq
  exact h c hc

private theorem pairs_ne {p : Nat} (hdp : d ≤ p) (src tgt : Array (Tab p ℝ)) {corr : List (Nat × Nat)} (h : corr ≠ []) :
    pairsOf hdp src tgt corr ≠ [] := by
  simpa [pairsOf] using h

/-- the specification on rigidly related pairs whose source scatter has rank at least `d - 1` -/
private theorem specOf_rigid (svd : Mat d d ℝ → SVD d ℝ) {P : Pairs d} {Q : Matrix (Fin d) (Fin d) ℝ} {τ : Fin d → ℝ}
    (hQ : Qᵀ * Q = 1) (hQd : Q.det = 1) (hR : Rigid Q τ P) (hne : P ≠ [])
    (hsvd : IsSVD (covL P) (svd (Matrix.of.symm (covL P)))) (hrank : d - 1 ≤ (scatterL (P.map Prod.fst)).rank) :
    specOf svd P = homMat Q τ := by
  have hcov := rigid_cov hR hne
  have hM := scatterL_psd (P.map Prod.fst)
  have hA : scatterL (P.map Prod.fst) * Qᵀ =
      Matrix.of (svd (Matrix.of.symm (covL P))).U * Matrix.diagonal (svd (Matrix.of.symm (covL P))).S *
        (Matrix.of (svd (Matrix.of.symm (covL P))).V)ᵀ := by
    rw [← hcov]; exact hsvd.factor
  have hP := usu_eq_M hsvd.U_orth hsvd.V_orth hsvd.S_nonneg hM hQ hA
  have hpos := S_ne_zero_of_rank hsvd.U_orth hsvd.S_nonneg hsvd.S_antitone (by rw [hP]; exact hrank)
  have hrot : rotM svd (covL P) = Q := by
    unfold rotM
    rw [rotationOf_eq]
    exact recover_rotation hsvd.U_orth hsvd.V_orth hsvd.S_nonneg hM hQ hQd hA hpos
  unfold specOf
  rw [hrot]
  apply homMat_injective rfl
  funext i
  rw [rigid_mean hR hne]
  simp

/-- **Exact recovery (Cartesian points), rank-deficient case included.**  If `tgt = Q src + τ` on the correspondences with `Q` a
    proper rotation and the centred source points span at least a hyperplane (rank ≥ d − 1: not all collinear in 3D —
    this covers coplanar 3D sets —, not all coincident in 2D), the estimator returns exactly `[Q τ; 0 1]`. -/
theorem exact_recovery_rank_deficient (svd : Mat d d ℝ → SVD d ℝ) (src tgt : Array (Tab d ℝ)) (corr : List (Nat × Nat))
    (Q : Matrix (Fin d) (Fin d) ℝ) (τ : Fin d → ℝ) (hQ : Qᵀ * Q = 1) (hQd : Q.det = 1)
    (hne : corr ≠ []) (hin : InRange src tgt corr) (hrigid : RigidOn (Nat.le_refl d) Q τ src tgt corr)
    (hrank : d - 1 ≤ (scatterL (srcPts (Nat.le_refl d) src corr)).rank)
    (hsvd : OracleOK (Nat.le_refl d) svd src tgt corr) :
    estC svd src tgt corr = homMat Q τ := by
  unfold estC
  rw [estimate_cart]
  exact specOf_rigid svd hQ hQd (pairs_rigid _ hrigid) (pairs_ne _ src tgt hne) hsvd (by rw [pairs_fst]; exact hrank)

private theorem rank_of_posDef {M : Matrix (Fin d) (Fin d) ℝ} (h : M.PosDef) : d - 1 ≤ M.rank := by
  rw [Matrix.rank_of_isUnit M h.isUnit, Fintype.card_fin]; omega

/-- **Exact recovery (Cartesian points)** under the design's hypothesis: positive definite source scatter. -/
theorem exact_recovery (svd : Mat d d ℝ → SVD d ℝ) (src tgt : Array (Tab d ℝ)) (corr : List (Nat × Nat))
    (Q : Matrix (Fin d) (Fin d) ℝ) (τ : Fin d → ℝ) (hQ : Qᵀ * Q = 1) (hQd : Q.det = 1)
    (hne : corr ≠ []) (hin : InRange src tgt corr) (hrigid : RigidOn (Nat.le_refl d) Q τ src tgt corr)
    (hpd : (scatterL (srcPts (Nat.le_refl d) src corr)).PosDef)
    (hsvd : OracleOK (Nat.le_refl d) svd src tgt corr) :
    estC svd src tgt corr = homMat Q τ :=
  exact_recovery_rank_deficient svd src tgt corr Q τ hQ hQd hne hin hrigid (rank_of_posDef hpd) hsvd

private theorem mean_last_eq (src tgt : Array (Tab (d + 1) ℝ)) (corr : List (Nat × Nat)) (c : ℝ)
    (hs : ∀ k ∈ corr.map (·.1), (getPt (d + 1) src k).get (Fin.last d) = c)
    (ht : ∀ k ∈ corr.map (·.2), (getPt (d + 1) tgt k).get (Fin.last d) = c) :
    (meanOf (d + 1) tgt (corr.map (·.2))).get (Fin.last d) = (meanOf (d + 1) src (corr.map (·.1))).get (Fin.last d) := by
  rw [meanOf_get, meanOf_get]
  rw [list_sum_congr _ _ (fun _ => c) ht, list_sum_congr _ _ (fun _ => c) hs]
  simp [Function.comp_def, list_sum_const]

/-- **Exact recovery (homogeneous points)**, same hypotheses on the Cartesian coordinates. -/
theorem exact_recovery_homogeneous (svd : Mat d d ℝ → SVD d ℝ) (src tgt : Array (Tab (d + 1) ℝ)) (corr : List (Nat × Nat))
    (Q : Matrix (Fin d) (Fin d) ℝ) (τ : Fin d → ℝ) (hQ : Qᵀ * Q = 1) (hQd : Q.det = 1)
    (hne : corr ≠ []) (hin : InRange src tgt corr)
    (hs1 : LastIsOne src (corr.map (·.1))) (ht1 : LastIsOne tgt (corr.map (·.2)))
    (hrigid : RigidOn (Nat.le_succ d) Q τ src tgt corr)
    (hrank : d - 1 ≤ (scatterL (srcPts (Nat.le_succ d) src corr)).rank)
    (hsvd : OracleOK (Nat.le_succ d) svd src tgt corr) :
    estH svd src tgt corr = homMat Q τ := by
  unfold estH
  rw [estimate_hom svd src tgt corr (mean_last_eq src tgt corr 1 hs1 ht1)]
  exact specOf_rigid svd hQ hQd (pairs_rigid _ hrigid) (pairs_ne _ src tgt hne) hsvd (by rw [pairs_fst]; exact hrank)

/-- consequence: the returned matrix maps every source point onto its target -/
theorem maps_sources_onto_targets (svd : Mat d d ℝ → SVD d ℝ) (src tgt : Array (Tab d ℝ)) (corr : List (Nat × Nat))
    (Q : Matrix (Fin d) (Fin d) ℝ) (τ : Fin d → ℝ) (hQ : Qᵀ * Q = 1) (hQd : Q.det = 1)
    (hne : corr ≠ []) (hin : InRange src tgt corr) (hrigid : RigidOn (Nat.le_refl d) Q τ src tgt corr)
    (hrank : d - 1 ≤ (scatterL (srcPts (Nat.le_refl d) src corr)).rank)
    (hsvd : OracleOK (Nat.le_refl d) svd src tgt corr) :
    ∀ c ∈ corr, linPart (estC svd src tgt corr) *ᵥ (getPt d src c.1).get + transPart (estC svd src tgt corr) =
      (getPt d tgt c.2).get := by
  intro c hc
  rw [exact_recovery_rank_deficient svd src tgt corr Q τ hQ hQd hne hin hrigid hrank hsvd, linPart_homMat, transPart_homMat]
  exact (hrigid c hc).symm

/-! ## 3. Invariance under the order of the correspondences (all point types) -/

private theorem meanOf_perm (p : Nat) (pts : Array (Tab p ℝ)) {idx idx' : List Nat} (h : idx.Perm idx') :
    meanOf p pts idx = meanOf p pts idx' := by
  apply Tab.ext; intro i
  rw [meanOf_get, meanOf_get, (h.map _).sum_eq, h.length_eq]

private theorem crossCov_perm (p : Nat) (src tgt : Array (Tab p ℝ)) (sm tm : Tab p ℝ) {corr corr' : List (Nat × Nat)}
    (h : corr.Perm corr') : crossCov p src tgt sm tm corr = crossCov p src tgt sm tm corr' := by
  apply Tab.ext; intro i; apply Tab.ext; intro j
  rw [crossCov_get, crossCov_get, (h.map _).sum_eq]

/-- the result does not depend on the order in which the correspondences are listed -/
theorem corr_order_invariant (p : Nat) (hdp : d ≤ p) (hp : p ≤ d + 1) (svd : Mat d d ℝ → SVD d ℝ)
    (src tgt : Array (Tab p ℝ)) (corr corr' : List (Nat × Nat)) (hperm : corr.Perm corr') :
    estimate d p hdp hp svd src tgt corr = estimate d p hdp hp svd src tgt corr' := by
  have h1 : meanOf p src (corr.map (·.1)) = meanOf p src (corr'.map (·.1)) := meanOf_perm p src (hperm.map _)
  have h2 : meanOf p tgt (corr.map (·.2)) = meanOf p tgt (corr'.map (·.2)) := meanOf_perm p tgt (hperm.map _)
  simp only [estimate, h1, h2, crossCov_perm p src tgt _ _ hperm]

/-! ## 4. Homogeneous = Cartesian -/

/-- the homogeneous representation `(x, 1)` of a Cartesian point set -/
def homogenize (pts : Array (Tab d ℝ)) : Array (Tab (d + 1) ℝ) :=
  pts.map (fun v => Tab.ofFn (fun i => if h : i.1 < d then v.get ⟨i.1, h⟩ else 1))

private theorem getPt_homogenize (pts : Array (Tab d ℝ)) (k : Nat) (hk : k < pts.size) (i : Fin (d + 1)) :
    (getPt (d + 1) (homogenize pts) k).get i = if h : i.1 < d then (getPt d pts k).get ⟨i.1, h⟩ else 1 := by
  simp [getPt, homogenize, Array.getD, hk]

private theorem lastIsOne_homogenize (pts : Array (Tab d ℝ)) (idx : List Nat) (h : ∀ k ∈ idx, k < pts.size) :
    LastIsOne (homogenize pts) idx := by
  intro k hk
  rw [getPt_homogenize pts k (h k hk)]; simp

private theorem pairsOf_homogenize (src tgt : Array (Tab d ℝ)) (corr : List (Nat × Nat)) (hin : InRange src tgt corr) :
    pairsOf (Nat.le_succ d) (homogenize src) (homogenize tgt) corr = pairsOf (Nat.le_refl d) src tgt corr := by
  unfold pairsOf
  apply List.map_congr_left
  intro c hc
  have e1 : trunc (Nat.le_succ d) (getPt (d + 1) (homogenize src) c.1).get = trunc (Nat.le_refl d) (getPt d src c.1).get := by
    funext i
    simp only [trunc, castLE_succ_eq, Fin.castLE_refl]
    rw [getPt_homogenize src c.1 (hin c hc).1]; simp
  have e2 : trunc (Nat.le_succ d) (getPt (d + 1) (homogenize tgt) c.2).get = trunc (Nat.le_refl d) (getPt d tgt c.2).get := by
    funext i
    simp only [trunc, castLE_succ_eq, Fin.castLE_refl]
    rw [getPt_homogenize tgt c.2 (hin c hc).2]; simp
  rw [e1, e2]

/-- the estimator returns the same matrix for a Cartesian point set and for its homogeneous representation -/
theorem homogeneous_eq_cartesian (svd : Mat d d ℝ → SVD d ℝ) (src tgt : Array (Tab d ℝ)) (corr : List (Nat × Nat))
    (hne : corr ≠ []) (hin : InRange src tgt corr) :
    estH svd (homogenize src) (homogenize tgt) corr = estC svd src tgt corr := by
  unfold estH estC
  have hs : LastIsOne (homogenize src) (corr.map (·.1)) :=
    lastIsOne_homogenize src _ (fun k hk => by obtain ⟨c, hc, rfl⟩ := List.mem_map.mp hk; exact (hin c hc).1)
  have ht : LastIsOne (homogenize tgt) (corr.map (·.2)) :=
    lastIsOne_homogenize tgt _ (fun k hk => by obtain ⟨c, hc, rfl⟩ := List.mem_map.mp hk; exact (hin c hc).2)
  rw [estimate_hom svd _ _ corr (mean_last_eq _ _ corr 1 hs ht), estimate_cart, pairsOf_homogenize src tgt corr hin]

/-! ## 5. Invariance under isotropic preconditioning of both sets -/

private theorem getPt_precondition (p : Nat) (s : ℝ) (pts : Array (Tab p ℝ)) (k : Nat) (i : Fin p) :
    (getPt p (precondition p s pts) k).get i = (getPt p pts k).get i * s := by
  unfold getPt precondition
  by_cases hk : k < pts.size
  · simp [Array.getD, hk]
  · simp [Array.getD, hk]

private theorem pairsOf_precondition {p : Nat} (hdp : d ≤ p) (s : ℝ) (src tgt : Array (Tab p ℝ)) (corr : List (Nat × Nat)) :
    pairsOf hdp (precondition p s src) (precondition p s tgt) corr = scaleP s (pairsOf hdp src tgt corr) := by
  unfold pairsOf scaleP
  rw [List.map_map]
  apply List.map_congr_left
  intro c _
  simp only [Function.comp_def]
  congr 1 <;> (funext i; simp only [trunc, getPt_precondition])

private theorem unscale_homMat (H : Tab2 (d + 1) (d + 1) ℝ) (R : Matrix (Fin d) (Fin d) ℝ) (t : Fin d → ℝ) (s : ℝ)
    (h : Matrix.of H.toFn = homMat R t) :
    Matrix.of (unscale d H s).toFn = homMat R (fun i => t i / (1 * s)) := by
  ext i j
  have hij : (H.get i).get j = homMat R t i j := by rw [← h]; rfl
  simp only [unscale, Tab2.toFn, Matrix.of_apply, Tab2.get_get_ofFn, precondM00, one_real, hij, homMat]
  have hi := i.2
  have hj := j.2
  split_ifs <;> first | (exfalso; omega) | rfl

/-- the rotation of the scaled problem is the rotation of the original one (cross-covariance of positive determinant) -/
private theorem specOf_scale (svd : Mat d d ℝ → SVD d ℝ) (P : Pairs d) (s : ℝ) (hs : 0 < s) (hdet : 0 < (covL P).det)
    (h1 : IsSVD (covL P) (svd (Matrix.of.symm (covL P))))
    (h2 : IsSVD (covL (scaleP s P)) (svd (Matrix.of.symm (covL (scaleP s P))))) :
    specOf svd (scaleP s P) = homMat (rotM svd (covL P))
      (fun i => (meanL (P.map Prod.snd) i - (rotM svd (covL P) *ᵥ meanL (P.map Prod.fst)) i) * s) := by
  have hrot : rotM svd (covL (scaleP s P)) = rotM svd (covL P) := by
    unfold rotM
    rw [rotationOf_eq, rotationOf_eq]
    have hfac : (s * s) • covL P = Matrix.of (svd (Matrix.of.symm (covL (scaleP s P)))).U *
        Matrix.diagonal (svd (Matrix.of.symm (covL (scaleP s P)))).S *
        (Matrix.of (svd (Matrix.of.symm (covL (scaleP s P)))).V)ᵀ := by
      rw [← covL_scale]; exact h2.factor
    exact rotation_of_det_pos (mul_pos hs hs) h1.U_orth h1.V_orth h1.S_nonneg h1.factor
      h2.U_orth h2.V_orth h2.S_nonneg hfac hdet
  unfold specOf
  rw [hrot, meanL_scale_fst, meanL_scale_snd]
  apply homMat_injective rfl
  funext i
  simp only [Matrix.mulVec, dotProduct]
  rw [sub_mul, Finset.sum_mul]
  congr 1
  apply Finset.sum_congr rfl; intro k _; ring

/-- **Isotropic preconditioning (Cartesian points).**  Scaling both sets by the same `s > 0` through
    `PreconditionedPointSet(points, s)` and calling the preconditioned overload returns the same matrix as the plain
    overload, provided the cross-covariance has positive determinant (then the rotation is the unique orthogonal polar
    factor, whatever the oracle returns for the two different matrices it is asked to decompose). -/
theorem isotropic_scale_invariant (svd : Mat d d ℝ → SVD d ℝ) (src tgt : Array (Tab d ℝ)) (corr : List (Nat × Nat))
    (s : ℝ) (hs : 0 < s) (hne : corr ≠ []) (hin : InRange src tgt corr)
    (hdet : 0 < (covL (pairsOf (Nat.le_refl d) src tgt corr)).det)
    (hsvd : OracleOK (Nat.le_refl d) svd src tgt corr)
    (hsvd' : OracleOK (Nat.le_refl d) svd (precondition d s src) (precondition d s tgt) corr) :
    Matrix.of (findPre d d (Nat.le_refl d) (Nat.le_succ d) svd src tgt corr s s).toFn = estC svd src tgt corr := by
  unfold OracleOK at hsvd'
  rw [pairsOf_precondition] at hsvd'
  have hpre : Matrix.of (estimate d d (Nat.le_refl d) (Nat.le_succ d) svd (precondition d s src) (precondition d s tgt) corr).toFn =
      specOf svd (scaleP s (pairsOf (Nat.le_refl d) src tgt corr)) := by
    rw [estimate_cart, pairsOf_precondition]
  rw [specOf_scale svd _ s hs hdet hsvd hsvd'] at hpre
  unfold findPre estC
  rw [unscale_homMat _ _ _ s hpre, estimate_cart]
  unfold specOf
  apply homMat_injective rfl
  funext i
  field_simp

/-- **Isotropic preconditioning of rigidly related sets, rank-deficient (coplanar) sets included**: here the
    cross-covariance is singular (`isotropic_scale_invariant` does not apply), but both calls return `[Q τ; 0 1]`. -/
theorem isotropic_scale_invariant_rigid (svd : Mat d d ℝ → SVD d ℝ) (src tgt : Array (Tab d ℝ)) (corr : List (Nat × Nat))
    (s : ℝ) (hs : 0 < s) (Q : Matrix (Fin d) (Fin d) ℝ) (τ : Fin d → ℝ) (hQ : Qᵀ * Q = 1) (hQd : Q.det = 1)
    (hne : corr ≠ []) (hin : InRange src tgt corr) (hrigid : RigidOn (Nat.le_refl d) Q τ src tgt corr)
    (hrank : d - 1 ≤ (scatterL (srcPts (Nat.le_refl d) src corr)).rank)
    (hsvd : OracleOK (Nat.le_refl d) svd src tgt corr)
    (hsvd' : OracleOK (Nat.le_refl d) svd (precondition d s src) (precondition d s tgt) corr) :
    Matrix.of (findPre d d (Nat.le_refl d) (Nat.le_succ d) svd src tgt corr s s).toFn = estC svd src tgt corr := by
  rw [exact_recovery_rank_deficient svd src tgt corr Q τ hQ hQd hne hin hrigid hrank hsvd]
  unfold OracleOK at hsvd'
  rw [pairsOf_precondition] at hsvd'
  have hP := pairs_rigid (Nat.le_refl d) hrigid
  have hPne := pairs_ne (Nat.le_refl d) src tgt hne
  have hne' : scaleP s (pairsOf (Nat.le_refl d) src tgt corr) ≠ [] := by simpa [scaleP] using hPne
  have hrank' : d - 1 ≤ (scatterL ((scaleP s (pairsOf (Nat.le_refl d) src tgt corr)).map Prod.fst)).rank := by
    rw [scaleP_fst, scatterL_scale, Matrix.rank_smul_of_mem_nonZeroDivisors _
      (mem_nonZeroDivisors_of_ne_zero (mul_pos hs hs).ne'), pairs_fst]
    exact hrank
  have hpre : Matrix.of (estimate d d (Nat.le_refl d) (Nat.le_succ d) svd (precondition d s src) (precondition d s tgt) corr).toFn =
      homMat Q (fun i => τ i * s) := by
    rw [estimate_cart, pairsOf_precondition]
    exact specOf_rigid svd hQ hQd (rigid_scale s hP) hne' hsvd' hrank'
  unfold findPre
  rw [unscale_homMat _ _ _ s hpre]
  apply homMat_injective rfl
  funext i
  field_simp

/-- **Isotropic preconditioning (homogeneous points).**  `PreconditionedPointSet(points, s)` multiplies the
    homogeneous coordinate by `s` as well; the result is nevertheless that of the plain overload. -/
theorem isotropic_scale_invariant_homogeneous (svd : Mat d d ℝ → SVD d ℝ) (src tgt : Array (Tab (d + 1) ℝ))
    (corr : List (Nat × Nat)) (s : ℝ) (hs : 0 < s) (hne : corr ≠ []) (hin : InRange src tgt corr)
    (hs1 : LastIsOne src (corr.map (·.1))) (ht1 : LastIsOne tgt (corr.map (·.2)))
    (hdet : 0 < (covL (pairsOf (Nat.le_succ d) src tgt corr)).det)
    (hsvd : OracleOK (Nat.le_succ d) svd src tgt corr)
    (hsvd' : OracleOK (Nat.le_succ d) svd (precondition (d + 1) s src) (precondition (d + 1) s tgt) corr) :
    Matrix.of (findPre d (d + 1) (Nat.le_succ d) (Nat.le_refl _) svd src tgt corr s s).toFn = estH svd src tgt corr := by
  unfold OracleOK at hsvd'
  rw [pairsOf_precondition] at hsvd'
  have hlast' : (meanOf (d + 1) (precondition (d + 1) s tgt) (corr.map (·.2))).get (Fin.last d) =
      (meanOf (d + 1) (precondition (d + 1) s src) (corr.map (·.1))).get (Fin.last d) := by
    apply mean_last_eq _ _ corr (1 * s)
    · intro k hk; rw [getPt_precondition, hs1 k hk]
    · intro k hk; rw [getPt_precondition, ht1 k hk]
  have hpre : Matrix.of (estimate d (d + 1) (Nat.le_succ d) (Nat.le_refl _) svd (precondition (d + 1) s src)
      (precondition (d + 1) s tgt) corr).toFn = specOf svd (scaleP s (pairsOf (Nat.le_succ d) src tgt corr)) := by
    rw [estimate_hom _ _ _ _ hlast', pairsOf_precondition]
  rw [specOf_scale svd _ s hs hdet hsvd hsvd'] at hpre
  unfold findPre estH
  rw [unscale_homMat _ _ _ s hpre, estimate_hom _ _ _ _ (mean_last_eq src tgt corr 1 hs1 ht1)]
  unfold specOf
  apply homMat_injective rfl
  funext i
  field_simp

/-! ## 6. Least-squares optimality (Kabsch / Umeyama) -/

/-- sum of squared residuals `Σ ‖R s + t − t'‖²` of a motion over the corresponding pairs -/
noncomputable def cost {p : Nat} (hdp : d ≤ p) (src tgt : Array (Tab p ℝ)) (corr : List (Nat × Nat))
    (R : Matrix (Fin d) (Fin d) ℝ) (t : Fin d → ℝ) : ℝ :=
  costL (pairsOf hdp src tgt corr) R t

private theorem specOf_optimal (svd : Mat d d ℝ → SVD d ℝ) (P : Pairs d) (hne : P ≠ [])
    (hsvd : IsSVD (covL P) (svd (Matrix.of.symm (covL P))))
    (hbound : (Matrix.of (svd (Matrix.of.symm (covL P))).U).det * (Matrix.of (svd (Matrix.of.symm (covL P))).V).det < 0 →
      ReflTraceBound d)
    (Q' : Matrix (Fin d) (Fin d) ℝ) (t' : Fin d → ℝ) (hQ : Q'ᵀ * Q' = 1) (hQd : Q'.det = 1) :
    costL P (linPart (specOf svd P)) (transPart (specOf svd P)) ≤ costL P Q' t' := by
  unfold specOf
  rw [linPart_homMat, transPart_homMat, cost_eq_centered P hne]
  have hR := (rotM_proper svd _ hsvd).1
  rw [centered_cost_eq P hR]
  have h1 := cost_ge_centered P hne Q' t'
  rw [centered_cost_eq P hQ] at h1
  have h2 : (Q' * covL P).trace ≤ (rotM svd (covL P) * covL P).trace := by
    unfold rotM
    rw [rotationOf_eq]
    exact trace_max hsvd.U_orth hsvd.V_orth hsvd.S_nonneg hsvd.S_antitone hsvd.factor hbound hQ hQd
  linarith

/-- Full statement (every dimension):
      `∀ Q' t', Q'ᵀ Q' = 1 → det Q' = 1 → cost (R, t) ≤ cost (Q', t')` for the returned `(R, t)`.
    Proved below for the dimensions the code instantiates (`least_squares_optimal_2d`, `least_squares_optimal_3d`).
    For a general dimension it is proved under the hypothesis `ReflTraceBound d`, i.e. what is missing for `d > 3` is the
    trace inequality `Σ Mᵢᵢ Sᵢ ≤ S₀ + … + S_{d-2} − S_{d-1}` for orthogonal `M` with `det M = −1` (needed only when the
    determinant correction fires; without it no extra hypothesis is used, see `trace_le_of_orth`). -/
theorem least_squares_optimal_partial (hb : ReflTraceBound d) (svd : Mat d d ℝ → SVD d ℝ) (src tgt : Array (Tab d ℝ))
    (corr : List (Nat × Nat)) (hne : corr ≠ []) (hin : InRange src tgt corr)
    (hsvd : OracleOK (Nat.le_refl d) svd src tgt corr)
    (Q' : Matrix (Fin d) (Fin d) ℝ) (t' : Fin d → ℝ) (hQ : Q'ᵀ * Q' = 1) (hQd : Q'.det = 1) :
    cost (Nat.le_refl d) src tgt corr (linPart (estC svd src tgt corr)) (transPart (estC svd src tgt corr)) ≤
      cost (Nat.le_refl d) src tgt corr Q' t' := by
  unfold cost estC
  rw [estimate_cart]
  exact specOf_optimal svd _ (pairs_ne _ src tgt hne) hsvd (fun _ => hb) Q' t' hQ hQd

/-- **Least-squares optimality in 2D (Cartesian points)**: no proper rigid motion has a smaller sum of squared residuals. -/
theorem least_squares_optimal_2d (svd : Mat 2 2 ℝ → SVD 2 ℝ) (src tgt : Array (Tab 2 ℝ))
    (corr : List (Nat × Nat)) (hne : corr ≠ []) (hin : InRange src tgt corr)
    (hsvd : OracleOK (Nat.le_refl 2) svd src tgt corr)
    (Q' : Matrix (Fin 2) (Fin 2) ℝ) (t' : Fin 2 → ℝ) (hQ : Q'ᵀ * Q' = 1) (hQd : Q'.det = 1) :
    cost (Nat.le_refl 2) src tgt corr (linPart (estC svd src tgt corr)) (transPart (estC svd src tgt corr)) ≤
      cost (Nat.le_refl 2) src tgt corr Q' t' :=
  least_squares_optimal_partial reflTraceBound_two svd src tgt corr hne hin hsvd Q' t' hQ hQd

/-- **Least-squares optimality in 3D (Cartesian points)**, noisy, coplanar and reflected configurations included. -/
theorem least_squares_optimal_3d (svd : Mat 3 3 ℝ → SVD 3 ℝ) (src tgt : Array (Tab 3 ℝ))
    (corr : List (Nat × Nat)) (hne : corr ≠ []) (hin : InRange src tgt corr)
    (hsvd : OracleOK (Nat.le_refl 3) svd src tgt corr)
    (Q' : Matrix (Fin 3) (Fin 3) ℝ) (t' : Fin 3 → ℝ) (hQ : Q'ᵀ * Q' = 1) (hQd : Q'.det = 1) :
    cost (Nat.le_refl 3) src tgt corr (linPart (estC svd src tgt corr)) (transPart (estC svd src tgt corr)) ≤
      cost (Nat.le_refl 3) src tgt corr Q' t' :=
  least_squares_optimal_partial reflTraceBound_three svd src tgt corr hne hin hsvd Q' t' hQ hQd

/-- the same for homogeneous points (cost over the Cartesian coordinates); `hb` is `reflTraceBound_two` / `_three` for the
    instantiated dimensions -/
theorem least_squares_optimal_homogeneous_partial (hb : ReflTraceBound d) (svd : Mat d d ℝ → SVD d ℝ)
    (src tgt : Array (Tab (d + 1) ℝ)) (corr : List (Nat × Nat)) (hne : corr ≠ []) (hin : InRange src tgt corr)
    (hs1 : LastIsOne src (corr.map (·.1))) (ht1 : LastIsOne tgt (corr.map (·.2)))
    (hsvd : OracleOK (Nat.le_succ d) svd src tgt corr)
    (Q' : Matrix (Fin d) (Fin d) ℝ) (t' : Fin d → ℝ) (hQ : Q'ᵀ * Q' = 1) (hQd : Q'.det = 1) :
    cost (Nat.le_succ d) src tgt corr (linPart (estH svd src tgt corr)) (transPart (estH svd src tgt corr)) ≤
      cost (Nat.le_succ d) src tgt corr Q' t' := by
  unfold cost estH
  rw [estimate_hom svd src tgt corr (mean_last_eq src tgt corr 1 hs1 ht1)]
  exact specOf_optimal svd _ (pairs_ne _ src tgt hne) hsvd (fun _ => hb) Q' t' hQ hQd

/-! ## Non-vacuity: concrete instances meeting the hypotheses (and what the theorems then say) -/
section Examples

/-! ### a 2D problem: four points, rotation by 90°, translation (1, 2) -/
private noncomputable def exSrc : Array (Tab 2 ℝ) := #[Tab.ofFn ![2,0], Tab.ofFn ![-2,0], Tab.ofFn ![0,1], Tab.ofFn ![0,-1]]
private noncomputable def exTgt : Array (Tab 2 ℝ) := #[Tab.ofFn ![1,4], Tab.ofFn ![1,0], Tab.ofFn ![0,2], Tab.ofFn ![2,2]]
private def exCorr : List (Nat × Nat) := [(0,0),(1,1),(2,2),(3,3)]
private noncomputable def exQ : Matrix (Fin 2) (Fin 2) ℝ := !![0,-1;1,0]
private noncomputable def exτ : Fin 2 → ℝ := ![1,2]
/-- an oracle answering both matrices it is asked about in these examples (`C` and `4 C`) -/
private noncomputable def exSvd : Mat 2 2 ℝ → SVD 2 ℝ :=
  fun C => ⟨fun i j => if i = j then 1 else 0, if C 0 1 = 8 then ![8,2] else ![32,8], fun i j => exQ i j⟩

private theorem exPairs : pairsOf (Nat.le_refl 2) exSrc exTgt exCorr =
    [(![2,0], ![1,4]), (![-2,0], ![1,0]), (![0,1], ![0,2]), (![0,-1], ![2,2])] := by
  simp [pairsOf, exCorr, exSrc, exTgt, getPt]
  refine ⟨⟨?_, ?_⟩, ⟨?_, ?_⟩, ⟨?_, ?_⟩, ?_, ?_⟩ <;> (funext i; fin_cases i <;> simp [trunc])

private theorem exCov : covL (pairsOf (Nat.le_refl 2) exSrc exTgt exCorr) = !![0,8;-2,0] := by
  rw [exPairs]
  ext i j
  fin_cases i <;> fin_cases j <;> simp [covL, meanL] <;> norm_num

private theorem exOracle : OracleOK (Nat.le_refl 2) exSvd exSrc exTgt exCorr := by
  unfold OracleOK
  rw [exCov]
  refine ⟨?_, ?_, ?_, ?_, ?_⟩
  · ext i j; fin_cases i <;> fin_cases j <;> simp [exSvd, Matrix.mul_apply]
  · ext i j; fin_cases i <;> fin_cases j <;> simp [exSvd, exQ, Matrix.mul_apply]
  · intro i; fin_cases i <;> simp [exSvd]
  · intro i j hij; fin_cases i <;> fin_cases j <;> simp [exSvd] at hij ⊢; norm_num
  · ext i j; fin_cases i <;> fin_cases j <;> simp [exSvd, exQ, Matrix.mul_apply]

private theorem exRigid : RigidOn (Nat.le_refl 2) exQ exτ exSrc exTgt exCorr := by
  intro c hc
  simp [exCorr] at hc
  rcases hc with rfl | rfl | rfl | rfl <;>
    (funext i; fin_cases i <;> simp [trunc, getPt, exSrc, exTgt, exQ, exτ, Matrix.mulVec, dotProduct] <;> norm_num)

private theorem exScatter : scatterL (srcPts (Nat.le_refl 2) exSrc exCorr) = Matrix.diagonal ![8, 2] := by
  have : srcPts (Nat.le_refl 2) exSrc exCorr = [![2,0], ![-2,0], ![0,1], ![0,-1]] := by
    simp [srcPts, exCorr, exSrc, getPt]
    refine ⟨?_, ?_, ?_, ?_⟩ <;> (funext i; fin_cases i <;> simp [trunc])
  rw [this]
  ext i j
  fin_cases i <;> fin_cases j <;> simp [scatterL, momentL, meanL] <;> norm_num

private theorem exPosDef : (scatterL (srcPts (Nat.le_refl 2) exSrc exCorr)).PosDef := by
  rw [exScatter]
  apply Matrix.PosDef.diagonal
  intro i; fin_cases i <;> simp

private theorem exQorth : exQᵀ * exQ = 1 := by
  ext i j; fin_cases i <;> fin_cases j <;> simp [exQ, Matrix.mul_apply]
private theorem exQdet : exQ.det = 1 := by simp [exQ, Matrix.det_fin_two]
private theorem exNe : exCorr ≠ [] := by simp [exCorr]
private theorem exIn : InRange exSrc exTgt exCorr := by
  intro c hc; simp [exCorr] at hc; rcases hc with rfl | rfl | rfl | rfl <;> simp [exSrc, exTgt]

/-- `exact_recovery` (and with it `exact_recovery_rank_deficient`, `maps_sources_onto_targets`): all hypotheses met -/
example : estC exSvd exSrc exTgt exCorr = homMat exQ exτ :=
  exact_recovery exSvd exSrc exTgt exCorr exQ exτ exQorth exQdet exNe exIn exRigid exPosDef exOracle

/-- `linear_part_proper_rotation` -/
example : (linPart (estC exSvd exSrc exTgt exCorr)).det = 1 :=
  (linear_part_proper_rotation 2 (Nat.le_refl 2) (Nat.le_succ 2) exSvd exSrc exTgt exCorr exNe exIn exOracle).2

/-- `least_squares_optimal_2d`, compared with the identity motion -/
example : cost (Nat.le_refl 2) exSrc exTgt exCorr (linPart (estC exSvd exSrc exTgt exCorr)) (transPart (estC exSvd exSrc exTgt exCorr)) ≤
    cost (Nat.le_refl 2) exSrc exTgt exCorr 1 0 :=
  least_squares_optimal_2d exSvd exSrc exTgt exCorr exNe exIn exOracle 1 0 (by simp) (by simp)

/-- `corr_order_invariant` -/
example : estimate 2 2 (Nat.le_refl 2) (Nat.le_succ 2) exSvd exSrc exTgt [(1,1),(0,0),(2,2),(3,3)] =
    estimate 2 2 (Nat.le_refl 2) (Nat.le_succ 2) exSvd exSrc exTgt exCorr :=
  corr_order_invariant 2 (Nat.le_refl 2) (Nat.le_succ 2) exSvd exSrc exTgt _ _ (List.Perm.swap _ _ _)

/-- `homogeneous_eq_cartesian`, `no_corr_overload_eq` -/
example : estH exSvd (homogenize exSrc) (homogenize exTgt) exCorr = estC exSvd exSrc exTgt exCorr :=
  homogeneous_eq_cartesian exSvd exSrc exTgt exCorr exNe exIn
example : exSrc.size = exTgt.size := by simp [exSrc, exTgt]

/-- `exact_recovery_homogeneous` on the homogeneous representation of the same data -/
example : estH exSvd (homogenize exSrc) (homogenize exTgt) exCorr = homMat exQ exτ := by
  have hin : InRange (homogenize exSrc) (homogenize exTgt) exCorr := by
    intro c hc; have := exIn c hc; simpa [homogenize] using this
  have hp := pairsOf_homogenize exSrc exTgt exCorr exIn
  refine exact_recovery_homogeneous exSvd _ _ exCorr exQ exτ exQorth exQdet exNe hin
    (lastIsOne_homogenize exSrc _ (fun k hk => by obtain ⟨c, hc, rfl⟩ := List.mem_map.mp hk; exact (exIn c hc).1))
    (lastIsOne_homogenize exTgt _ (fun k hk => by obtain ⟨c, hc, rfl⟩ := List.mem_map.mp hk; exact (exIn c hc).2))
    ?_ ?_ ?_
  · have := pairs_rigid (Nat.le_refl 2) exRigid
    rw [← hp] at this
    intro c hc
    exact this _ (by simp only [pairsOf]; exact List.mem_map_of_mem hc)
  · have h1 : srcPts (Nat.le_succ 2) (homogenize exSrc) exCorr = srcPts (Nat.le_refl 2) exSrc exCorr := by
      rw [← pairs_fst (Nat.le_succ 2) (homogenize exSrc) (homogenize exTgt), hp, pairs_fst]
    rw [h1]; exact rank_of_posDef exPosDef
  · unfold OracleOK; rw [hp]; exact exOracle

/-- `isotropic_scale_invariant` / `linear_part_proper_rotation_preconditioned` with scale 2: the oracle is asked about `C` and `4 C` -/
private theorem exOracle2 : OracleOK (Nat.le_refl 2) exSvd (precondition 2 2 exSrc) (precondition 2 2 exTgt) exCorr := by
  unfold OracleOK
  rw [pairsOf_precondition, covL_scale, exCov]
  have hm : ((2 : ℝ) * 2) • (!![0,8;-2,0] : Matrix (Fin 2) (Fin 2) ℝ) = !![0,32;-8,0] := by
    ext i j; fin_cases i <;> fin_cases j <;> simp <;> norm_num
  rw [hm]
  refine ⟨?_, ?_, ?_, ?_, ?_⟩
  · ext i j; fin_cases i <;> fin_cases j <;> simp [exSvd, Matrix.mul_apply]
  · ext i j; fin_cases i <;> fin_cases j <;> simp [exSvd, exQ, Matrix.mul_apply]
  · intro i; fin_cases i <;> simp [exSvd]
  · intro i j hij; fin_cases i <;> fin_cases j <;> simp [exSvd] at hij ⊢; norm_num
  · ext i j; fin_cases i <;> fin_cases j <;> simp [exSvd, exQ, Matrix.mul_apply]

example : Matrix.of (findPre 2 2 (Nat.le_refl 2) (Nat.le_succ 2) exSvd exSrc exTgt exCorr 2 2).toFn = estC exSvd exSrc exTgt exCorr :=
  isotropic_scale_invariant exSvd exSrc exTgt exCorr 2 (by norm_num) exNe exIn
    (by rw [exCov]; simp [Matrix.det_fin_two]) exOracle exOracle2

example : (linPart (Matrix.of (findPre 2 2 (Nat.le_refl 2) (Nat.le_succ 2) exSvd exSrc exTgt exCorr 2 2).toFn)).det = 1 :=
  (linear_part_proper_rotation_preconditioned 2 (Nat.le_refl 2) (Nat.le_succ 2) exSvd exSrc exTgt exCorr 2 2 exNe exIn
    (by norm_num) exOracle2).2

end Examples


/-! ### a coplanar 3D problem on which the oracle returns an IMPROPER `V` (the determinant correction fires) -/
section Examples3
private noncomputable def e3Src : Array (Tab 3 ℝ) := #[Tab.ofFn ![2,0,0], Tab.ofFn ![-2,0,0], Tab.ofFn ![0,1,0], Tab.ofFn ![0,-1,0]]
private noncomputable def e3Tgt : Array (Tab 3 ℝ) := #[Tab.ofFn ![1,4,3], Tab.ofFn ![1,0,3], Tab.ofFn ![0,2,3], Tab.ofFn ![2,2,3]]
private def e3Corr : List (Nat × Nat) := [(0,0),(1,1),(2,2),(3,3)]
private noncomputable def e3Q : Matrix (Fin 3) (Fin 3) ℝ := !![0,-1,0;1,0,0;0,0,1]
private noncomputable def e3τ : Fin 3 → ℝ := ![1,2,3]
private noncomputable def e3V : Matrix (Fin 3) (Fin 3) ℝ := !![0,-1,0;1,0,0;0,0,-1]
private noncomputable def e3Svd : Mat 3 3 ℝ → SVD 3 ℝ :=
  fun C => ⟨fun i j => if i = j then 1 else 0, if C 0 1 = 8 then ![8,2,0] else ![32,8,0], fun i j => e3V i j⟩

private theorem e3Pairs : pairsOf (Nat.le_refl 3) e3Src e3Tgt e3Corr =
    [(![2,0,0], ![1,4,3]), (![-2,0,0], ![1,0,3]), (![0,1,0], ![0,2,3]), (![0,-1,0], ![2,2,3])] := by
  simp [pairsOf, e3Corr, e3Src, e3Tgt, getPt]
  refine ⟨⟨?_, ?_⟩, ⟨?_, ?_⟩, ⟨?_, ?_⟩, ?_, ?_⟩ <;> (funext i; fin_cases i <;> simp [trunc])

private theorem e3Cov : covL (pairsOf (Nat.le_refl 3) e3Src e3Tgt e3Corr) = !![0,8,0;-2,0,0;0,0,0] := by
  rw [e3Pairs]
  ext i j
  fin_cases i <;> fin_cases j <;> simp [covL, meanL] <;> norm_num

private theorem e3Oracle : OracleOK (Nat.le_refl 3) e3Svd e3Src e3Tgt e3Corr := by
  unfold OracleOK
  rw [e3Cov]
  refine ⟨?_, ?_, ?_, ?_, ?_⟩
  · ext i j; fin_cases i <;> fin_cases j <;> simp [e3Svd, Matrix.mul_apply, Fin.sum_univ_three]
  · ext i j; fin_cases i <;> fin_cases j <;> simp [e3Svd, e3V, Matrix.mul_apply, Fin.sum_univ_three]
  · intro i; fin_cases i <;> simp [e3Svd]
  · intro i j hij; fin_cases i <;> fin_cases j <;> simp [e3Svd] at hij ⊢ <;> norm_num
  · ext i j; fin_cases i <;> fin_cases j <;> simp [e3Svd, e3V, Matrix.mul_apply, Fin.sum_univ_three]

/-- the oracle's `V` is a reflection: `det U · det V = −1 < 0`, so the correction branch is taken -/
private theorem e3Improper : (Matrix.of (e3Svd fun _ _ => 0).U).det * (Matrix.of (e3Svd fun _ _ => 0).V).det < 0 := by
  simp [e3Svd, e3V, Matrix.det_fin_three]

private theorem e3Rigid : RigidOn (Nat.le_refl 3) e3Q e3τ e3Src e3Tgt e3Corr := by
  intro c hc
  simp [e3Corr] at hc
  rcases hc with rfl | rfl | rfl | rfl <;>
    (funext i; fin_cases i <;> simp [trunc, getPt, e3Src, e3Tgt, e3Q, e3τ, Matrix.mulVec, dotProduct, Fin.sum_univ_three] <;> norm_num)

private theorem e3Scatter : scatterL (srcPts (Nat.le_refl 3) e3Src e3Corr) = Matrix.diagonal ![8, 2, 0] := by
  have : srcPts (Nat.le_refl 3) e3Src e3Corr = [![2,0,0], ![-2,0,0], ![0,1,0], ![0,-1,0]] := by
    simp [srcPts, e3Corr, e3Src, getPt]
    refine ⟨?_, ?_, ?_, ?_⟩ <;> (funext i; fin_cases i <;> simp [trunc])
  rw [this]
  ext i j
  fin_cases i <;> fin_cases j <;> simp [scatterL, momentL, meanL] <;> norm_num

/-- coplanar: the scatter has rank 2 = d − 1 (not positive definite) -/
private theorem e3Rank : 3 - 1 ≤ (scatterL (srcPts (Nat.le_refl 3) e3Src e3Corr)).rank := by
  classical
  rw [e3Scatter, Matrix.rank_diagonal, Fintype.card_subtype]
  have hsub : ({0, 1} : Finset (Fin 3)) ⊆ Finset.univ.filter (fun i => (![8, 2, 0] : Fin 3 → ℝ) i ≠ 0) := by
    intro i hi
    simp only [Finset.mem_insert, Finset.mem_singleton] at hi
    rcases hi with rfl | rfl <;> simp
  have := Finset.card_le_card hsub
  simpa using this

private theorem e3Qorth : e3Qᵀ * e3Q = 1 := by
  ext i j; fin_cases i <;> fin_cases j <;> simp [e3Q, Matrix.mul_apply, Fin.sum_univ_three]
private theorem e3Qdet : e3Q.det = 1 := by simp [e3Q, Matrix.det_fin_three]
private theorem e3Ne : e3Corr ≠ [] := by simp [e3Corr]
private theorem e3In : InRange e3Src e3Tgt e3Corr := by
  intro c hc; simp [e3Corr] at hc; rcases hc with rfl | rfl | rfl | rfl <;> simp [e3Src, e3Tgt]

/-- `exact_recovery_rank_deficient` on a coplanar 3D set with a reflecting oracle: the proper motion is returned -/
example : estC e3Svd e3Src e3Tgt e3Corr = homMat e3Q e3τ :=
  exact_recovery_rank_deficient e3Svd e3Src e3Tgt e3Corr e3Q e3τ e3Qorth e3Qdet e3Ne e3In e3Rigid e3Rank e3Oracle

/-- `maps_sources_onto_targets`, `least_squares_optimal_3d`, `linear_part_proper_rotation` on the same problem -/
example : ∀ c ∈ e3Corr, linPart (estC e3Svd e3Src e3Tgt e3Corr) *ᵥ (getPt 3 e3Src c.1).get + transPart (estC e3Svd e3Src e3Tgt e3Corr) =
    (getPt 3 e3Tgt c.2).get :=
  maps_sources_onto_targets e3Svd e3Src e3Tgt e3Corr e3Q e3τ e3Qorth e3Qdet e3Ne e3In e3Rigid e3Rank e3Oracle
example : cost (Nat.le_refl 3) e3Src e3Tgt e3Corr (linPart (estC e3Svd e3Src e3Tgt e3Corr)) (transPart (estC e3Svd e3Src e3Tgt e3Corr)) ≤
    cost (Nat.le_refl 3) e3Src e3Tgt e3Corr 1 0 :=
  least_squares_optimal_3d e3Svd e3Src e3Tgt e3Corr e3Ne e3In e3Oracle 1 0 (by simp) (by simp)
example : (linPart (estC e3Svd e3Src e3Tgt e3Corr)).det = 1 :=
  (linear_part_proper_rotation 3 (Nat.le_refl 3) (Nat.le_succ 3) e3Svd e3Src e3Tgt e3Corr e3Ne e3In e3Oracle).2
/-- `isotropic_scale_invariant_rigid` with scale 2 on the coplanar problem (singular cross-covariance) -/
private theorem e3Oracle2 : OracleOK (Nat.le_refl 3) e3Svd (precondition 3 2 e3Src) (precondition 3 2 e3Tgt) e3Corr := by
  unfold OracleOK
  rw [pairsOf_precondition, covL_scale, e3Cov]
  have hm : ((2 : ℝ) * 2) • (!![0,8,0;-2,0,0;0,0,0] : Matrix (Fin 3) (Fin 3) ℝ) = !![0,32,0;-8,0,0;0,0,0] := by
    ext i j; fin_cases i <;> fin_cases j <;> simp <;> norm_num
  rw [hm]
  refine ⟨?_, ?_, ?_, ?_, ?_⟩
  · ext i j; fin_cases i <;> fin_cases j <;> simp [e3Svd, Matrix.mul_apply, Fin.sum_univ_three]
  · ext i j; fin_cases i <;> fin_cases j <;> simp [e3Svd, e3V, Matrix.mul_apply, Fin.sum_univ_three]
  · intro i; fin_cases i <;> simp [e3Svd]
  · intro i j hij; fin_cases i <;> fin_cases j <;> simp [e3Svd] at hij ⊢ <;> norm_num
  · ext i j; fin_cases i <;> fin_cases j <;> simp [e3Svd, e3V, Matrix.mul_apply, Fin.sum_univ_three]

example : Matrix.of (findPre 3 3 (Nat.le_refl 3) (Nat.le_succ 3) e3Svd e3Src e3Tgt e3Corr 2 2).toFn = estC e3Svd e3Src e3Tgt e3Corr :=
  isotropic_scale_invariant_rigid e3Svd e3Src e3Tgt e3Corr 2 (by norm_num) e3Q e3τ e3Qorth e3Qdet e3Ne e3In e3Rigid e3Rank
    e3Oracle e3Oracle2
end Examples3


/-! ## 7. Long-lived objects: a `PreconditionedPointSet` is a function of its LAST `compute` only

The library refills two long-lived `PreconditionedPointSet` members for every scan
(`RansacRigidTransformationModel::loadPointSets`) and hands them to `find`.  The model of the object
(`RomeaModel/RegistrationObjects.lean`) follows the code: `allocate_` (resize: truncate or append filler), the
overwrite loop, the matrix.  The theorems below hold for EVERY scalar type (no arithmetic law is used), hence at
`Float`/`Float32` as executed by the driver and at `ℝ`, for every previous state, every filler value and every list of
earlier computes (growing, shrinking, equal sizes; either `compute` overload). -/
section Reuse
variable {α : Type} [Add α] [Mul α] [NatCast α] {p : Nat}

omit [Add α] in
/-- `compute(points, scale)` on an object in ANY state leaves exactly what the constructor
    `PreconditionedPointSet(points, scale)` builds: the scaled input (as many points as the input has) and the scale
    matrix.  Nothing of the previous contents, size or matrix, and nothing of the filler, survives. -/
theorem compute_forgets (fill : Tab p α) (st : PPS d p α) (input : Array (Tab p α)) (s : α) :
    st.compute fill input s = ⟨precondition p s input, scaleMat d s⟩ := by
  unfold PPS.compute
  rw [overwrite_allocate]
  rfl

/-- the same for `compute(points, scale, translation)` (and so for the `PointSetPreconditioner` overload) -/
theorem computeT_forgets (fill : Tab p α) (st : PPS d p α) (input : Array (Tab p α)) (s : α) (tr : Tab d α) :
    st.computeT fill input s tr = ⟨input.map (affinePoint d p s tr), affineMat d s tr⟩ := by
  unfold PPS.computeT
  rw [overwrite_allocate]

/-- one compute on two objects in different states (and with different fillers) gives the same object -/
theorem apply_forgets (fill fill' : Tab p α) (st st' : PPS d p α) (c : ComputeOp d p α) :
    st.apply fill c = st'.apply fill' c := by
  cases c with
  | scale input s => simp only [PPS.apply, compute_forgets]
  | scaleTrans input s tr => simp only [PPS.apply, computeT_forgets]

/-- **History theorem.**  For every initial state, every list `ops` of earlier computes and every last compute `c`:
    the object equals a freshly constructed object on which only `c` was run. -/
theorem history_last_compute_only (fill : Tab p α) (st : PPS d p α) (ops : List (ComputeOp d p α)) (c : ComputeOp d p α) :
    st.run fill (ops ++ [c]) = (PPS.init d p).apply fill c := by
  unfold PPS.run
  rw [List.foldl_append]
  exact apply_forgets fill fill _ _ c

/-- in particular the number of points `get()` returns is the size of the last input -/
theorem history_size (fill : Tab p α) (st : PPS d p α) (ops : List (ComputeOp d p α)) (input : Array (Tab p α)) (s : α) :
    (st.run fill (ops ++ [.scale input s])).points.size = input.size := by
  rw [history_last_compute_only]
  simp [PPS.apply, compute_forgets, precondition]

omit [Add α] in
/-- entry `(0,0)` of the matrix after `compute(points, scale)`, for the instantiated dimensions (`d ≥ 1`) -/
theorem m00_after_compute (hd : 0 < d) (pts : Array (Tab p α)) (s : α) :
    (⟨pts, scaleMat d s⟩ : PPS d p α).m00 = precondM00 s := by
  simp [PPS.m00, scaleMat, identityTab, precondM00, hd]

variable [Sub α] [Div α] [Neg α] [LT α] [DecidableLT α]

/-- **`find` on reused objects = `find` on fresh ones.**  Whatever was computed into the two objects before, after
    `source.compute(src, sS)` and `target.compute(tgt, sT)` the preconditioned overload with a correspondence list
    returns what `Registration.findPre` (two sets built by the constructor just before the call) returns; all theorems
    of sections 1 and 5 about `findPre` therefore apply to every history. -/
theorem find_after_any_history (hd : 0 < d) (hdp : d ≤ p) (hp : p ≤ d + 1) (svd : Mat d d α → SVD d α)
    (fillS fillT : Tab p α) (stS stT : PPS d p α) (opsS opsT : List (ComputeOp d p α))
    (src tgt : Array (Tab p α)) (sS sT : α) (corr : List (Nat × Nat)) :
    findObj d p hdp hp svd (stS.run fillS (opsS ++ [.scale src sS])) (stT.run fillT (opsT ++ [.scale tgt sT])) corr =
      findPre d p hdp hp svd src tgt corr sS sT := by
  rw [history_last_compute_only, history_last_compute_only]
  simp only [PPS.apply, compute_forgets]
  unfold findObj findPre
  rw [m00_after_compute hd]
  rfl

/-- the same for the overload WITHOUT a correspondence list, which reads `get().size()` of both objects -/
theorem findAll_after_any_history (hd : 0 < d) (hdp : d ≤ p) (hp : p ≤ d + 1) (svd : Mat d d α → SVD d α)
    (fillS fillT : Tab p α) (stS stT : PPS d p α) (opsS opsT : List (ComputeOp d p α))
    (src tgt : Array (Tab p α)) (sS sT : α) :
    findObjAll d p hdp hp svd (stS.run fillS (opsS ++ [.scale src sS])) (stT.run fillT (opsT ++ [.scale tgt sT])) =
      findPreAll d p hdp hp svd src tgt sS sT := by
  rw [history_last_compute_only, history_last_compute_only]
  simp only [PPS.apply, compute_forgets]
  unfold findObjAll findPreAll
  rw [m00_after_compute hd]
  rfl

end Reuse

/-- **Isotropic preconditioning through reused objects (Cartesian points).**  Two `PreconditionedPointSet` objects
    with arbitrary histories, refilled with the current sets and one scale `s > 0`: the preconditioned overload
    returns the matrix of the plain overload on the current sets (hypotheses of `isotropic_scale_invariant`). -/
theorem reused_objects_isotropic_scale_invariant (hd : 0 < d) (svd : Mat d d ℝ → SVD d ℝ)
    (fillS fillT : Tab d ℝ) (stS stT : PPS d d ℝ) (opsS opsT : List (ComputeOp d d ℝ))
    (src tgt : Array (Tab d ℝ)) (corr : List (Nat × Nat))
    (s : ℝ) (hs : 0 < s) (hne : corr ≠ []) (hin : InRange src tgt corr)
    (hdet : 0 < (covL (pairsOf (Nat.le_refl d) src tgt corr)).det)
    (hsvd : OracleOK (Nat.le_refl d) svd src tgt corr)
    (hsvd' : OracleOK (Nat.le_refl d) svd (precondition d s src) (precondition d s tgt) corr) :
    Matrix.of (findObj d d (Nat.le_refl d) (Nat.le_succ d) svd (stS.run fillS (opsS ++ [.scale src s]))
      (stT.run fillT (opsT ++ [.scale tgt s])) corr).toFn = estC svd src tgt corr := by
  rw [find_after_any_history hd]
  exact isotropic_scale_invariant svd src tgt corr s hs hne hin hdet hsvd hsvd'

/-- the same on rigidly related sets, coplanar ones included, and without a correspondence list (the overload that
    depends on how many points the objects hold) -/
theorem reused_objects_no_corr_rigid (hd : 0 < d) (svd : Mat d d ℝ → SVD d ℝ)
    (fillS fillT : Tab d ℝ) (stS stT : PPS d d ℝ) (opsS opsT : List (ComputeOp d d ℝ))
    (src tgt : Array (Tab d ℝ)) (hsize : src.size = tgt.size)
    (s : ℝ) (hs : 0 < s) (Q : Matrix (Fin d) (Fin d) ℝ) (τ : Fin d → ℝ) (hQ : Qᵀ * Q = 1) (hQd : Q.det = 1)
    (hne : (List.range src.size).map (fun n => (n, n)) ≠ [])
    (hin : InRange src tgt ((List.range src.size).map (fun n => (n, n))))
    (hrigid : RigidOn (Nat.le_refl d) Q τ src tgt ((List.range src.size).map (fun n => (n, n))))
    (hrank : d - 1 ≤ (scatterL (srcPts (Nat.le_refl d) src ((List.range src.size).map (fun n => (n, n))))).rank)
    (hsvd : OracleOK (Nat.le_refl d) svd src tgt ((List.range src.size).map (fun n => (n, n))))
    (hsvd' : OracleOK (Nat.le_refl d) svd (precondition d s src) (precondition d s tgt)
      ((List.range src.size).map (fun n => (n, n)))) :
    Matrix.of (findObjAll d d (Nat.le_refl d) (Nat.le_succ d) svd (stS.run fillS (opsS ++ [.scale src s]))
      (stT.run fillT (opsT ++ [.scale tgt s]))).toFn = homMat Q τ := by
  rw [findAll_after_any_history hd, no_corr_overload_preconditioned_eq _ _ _ _ _ _ _ _ hsize,
    isotropic_scale_invariant_rigid svd src tgt _ s hs Q τ hQ hQd hne hin hrigid hrank hsvd hsvd']
  exact exact_recovery_rank_deficient svd src tgt _ Q τ hQ hQd hne hin hrigid hrank hsvd


/-! ### non-vacuity of section 7: objects that first held SIX points of another scan (scale 3), then a translated set,
    and are then refilled with the four points of the examples above -/
section ExamplesReuse
private noncomputable def exOld : Array (Tab 2 ℝ) :=
  #[Tab.ofFn ![5,5], Tab.ofFn ![6,5], Tab.ofFn ![5,7], Tab.ofFn ![9,9], Tab.ofFn ![1,0], Tab.ofFn ![0,3]]
private noncomputable def exOps : List (ComputeOp 2 2 ℝ) := [.scale exOld 3, .scaleTrans exOld 2 (Tab.ofFn ![1,1])]
private noncomputable def exFill : Tab 2 ℝ := Tab.ofFn ![7,7]

/-- `history_size`: six points before, four after -/
example : ((PPS.init 2 2).run exFill ([ComputeOp.scale exOld 3])).points.size = 6 := by
  have := history_size exFill (PPS.init 2 2) [] exOld (3 : ℝ)
  simpa [exOld] using this
example : ((PPS.init 2 2).run exFill (exOps ++ [.scale exSrc 2])).points.size = 4 := by
  rw [history_size]; simp [exSrc]

/-- `reused_objects_isotropic_scale_invariant` (through `find_after_any_history`, `history_last_compute_only`) -/
example : Matrix.of (findObj 2 2 (Nat.le_refl 2) (Nat.le_succ 2) exSvd ((PPS.init 2 2).run exFill (exOps ++ [.scale exSrc 2]))
    ((PPS.init 2 2).run exFill (exOps ++ [.scale exTgt 2])) exCorr).toFn = estC exSvd exSrc exTgt exCorr :=
  reused_objects_isotropic_scale_invariant (by norm_num) exSvd exFill exFill _ _ exOps exOps exSrc exTgt exCorr 2 (by norm_num)
    exNe exIn (by rw [exCov]; simp [Matrix.det_fin_two]) exOracle exOracle2

private noncomputable def e3Old : Array (Tab 3 ℝ) :=
  #[Tab.ofFn ![5,5,1], Tab.ofFn ![6,5,2], Tab.ofFn ![5,7,3], Tab.ofFn ![9,9,4], Tab.ofFn ![1,0,5]]
private theorem e3CorrEq : (List.range e3Src.size).map (fun n => (n, n)) = e3Corr := by
  simp [e3Src, e3Corr, List.range_succ]

/-- `reused_objects_no_corr_rigid` on the coplanar 3D problem: the objects held five other points before -/
example : Matrix.of (findObjAll 3 3 (Nat.le_refl 3) (Nat.le_succ 3) e3Svd
    ((PPS.init 3 3).run (Tab.ofFn ![0,0,0]) ([ComputeOp.scale e3Old 7] ++ [.scale e3Src 2]))
    ((PPS.init 3 3).run (Tab.ofFn ![0,0,0]) ([ComputeOp.scale e3Old 7] ++ [.scale e3Tgt 2]))).toFn = homMat e3Q e3τ := by
  refine reused_objects_no_corr_rigid (by norm_num) e3Svd _ _ _ _ _ _ e3Src e3Tgt (by simp [e3Src, e3Tgt]) 2 (by norm_num)
    e3Q e3τ e3Qorth e3Qdet ?_ ?_ ?_ ?_ ?_ ?_ <;> rw [e3CorrEq]
  · exact e3Ne
  · exact e3In
  · exact e3Rigid
  · exact e3Rank
  · exact e3Oracle
  · exact e3Oracle2
end ExamplesReuse

end Romea.C04
