import RomeaModel.Proto
import RomeaModel.WrapGrid
open Romea Romea.Proto Romea.WrapGrid

/-! Driver for C15: `WrappableGrid<int, 2>` / `WrappableGrid<int, 3>` (value type `int`). -/

/-- the grid under test and three saved copies (`wg.save k` / `wg.load k`: C++ copy construction) -/
structure DSt where
  cur : Option (WGrid Int) := none
  s0 : Option (WGrid Int) := none
  s1 : Option (WGrid Int) := none
  s2 : Option (WGrid Int) := none

abbrev St := DSt

/-- value every cell is given right after construction (`setValue`) -/
def defaultValue : Int := -7777

def fitsInt32 (x : Int) : Bool := decide (-(2 ^ 31 : Int) ≤ x ∧ x < (2 ^ 31 : Int))

/-- the harness refuses larger grids as well (memory), so both sides answer `bad-op` -/
def maxCells : Nat := 1000000

def inRangeB (dims idx : List Nat) : Bool := decide (InRange dims idx)

def fmtOff (g : WGrid Int) : List String := "off" :: g.reportedOffset.map toString

/-- every offset vector of the property's bounded space, `-(n+1) ≤ δ_a ≤ n+1`, axis 0 running fastest -/
def deltaBox (dims : List Nat) : List (List Int) :=
  (box (dims.map (fun n => (0, 2 * n + 3)))).map
    (fun l => List.zipWith (fun (x n : Nat) => (x : Int) - ((n : Int) + 1)) l dims)

def fanModulus : Nat := 2 ^ 61 - 1

/-- `wg.fan e P`: translate a COPY of the grid by every offset of `deltaBox` with empty value `e` and fold the exact
    result (reported offsets, then all cells in logical order, each shifted by 2^31) into a polynomial digest -/
def fan (g : WGrid Int) (e : Int) (P : Nat) : Nat × Nat :=
  let ds := deltaBox g.dims
  let h := ds.foldl (fun h δ =>
    let g' := g.translate δ e
    let vals : List Nat := g'.reportedOffset ++ g'.logicalCells.map (fun v => (v + 2 ^ 31).toNat)
    vals.foldl (fun h v => (h * P + v) % fanModulus) h) 0
  (ds.length, h)

def getSlot (st : St) (k : Nat) : Option (WGrid Int) :=
  match k with | 0 => st.s0 | 1 => st.s1 | 2 => st.s2 | _ => none

def setSlot (st : St) (k : Nat) (g : WGrid Int) : St :=
  match k with | 0 => { st with s0 := some g } | 1 => { st with s1 := some g } | _ => { st with s2 := some g }

def stepG (g? : Option (WGrid Int)) (toks : List String) : Option (WGrid Int) × String :=
  let st := g?
  match toks with
  | "wg.new" :: d :: ns =>
    match parseNat? d, parseAll? parseNat? ns with
    | some d, some ns =>
      if (d == 2 || d == 3) && ns.length == d && ns.all (fun n => 1 ≤ n && n ≤ maxCells) && cellCount ns ≤ maxCells then
        (some (WGrid.init ns defaultValue), "ok")
      else (st, "bad-op")
    | _, _ => (st, "bad-op")
  | "wg.set" :: args =>
    match st, parseAll? parseInt? args with
    | some g, some xs =>
      let dim := g.dims.length
      if xs.length == dim + 1 then
        let idx := (xs.take dim)
        let v := xs.getD dim 0
        if idx.all (fun x => 0 ≤ x) && inRangeB g.dims (idx.map Int.toNat) && fitsInt32 v then
          (some (g.set (idx.map Int.toNat) v), "ok")
        else (st, "bad-op")
      else (st, "bad-op")
    | _, _ => (st, "bad-op")
  | "wg.tr" :: args =>
    match st, parseAll? parseInt? args with
    | some g, some xs =>
      let dim := g.dims.length
      if xs.length == dim + 1 && xs.all fitsInt32 then
        let g' := g.translate (xs.take dim) (xs.getD dim 0)
        (some g', unwords (fmtOff g'))
      else (st, "bad-op")
    | _, _ => (st, "bad-op")
  | "wg.trq" :: args =>          -- translate without reading the offset afterwards (the model has no getter side effects)
    match st, parseAll? parseInt? args with
    | some g, some xs =>
      let dim := g.dims.length
      if xs.length == dim + 1 && xs.all fitsInt32 then
        (some (g.translate (xs.take dim) (xs.getD dim 0)), "ok")
      else (st, "bad-op")
    | _, _ => (st, "bad-op")
  | "wg.get" :: args =>
    match st, parseAll? parseNat? args with
    | some g, some idx =>
      if inRangeB g.dims idx then (st, s!"val {g.get idx}") else (st, "bad-op")
    | _, _ => (st, "bad-op")
  | ["wg.dump"] =>
    match st with
    | some g => (st, unwords (fmtOff g ++ ["cells"] ++ g.logicalCells.map toString))
    | none => (st, "bad-op")
  | _ => (st, "bad-op")

def step (st : St) (toks : List String) : St × String :=
  match toks with
  | ["wg.save", k] =>
    match st.cur, parseNat? k with
    | some g, some k => if k < 3 then (setSlot st k g, "ok") else (st, "bad-op")
    | _, _ => (st, "bad-op")
  | ["wg.load", k] =>
    match parseNat? k with
    | some k => match getSlot st k with
      | some g => ({ st with cur := some g }, "ok")
      | none => (st, "bad-op")
    | none => (st, "bad-op")
  | ["wg.fan", e, p] =>
    match st.cur, parseInt? e, parseNat? p with
    | some g, some e, some p =>
      if fitsInt32 e && 2 ≤ p && p < fanModulus then
        let (n, h) := fan g e p
        (st, s!"fan {n} {h}")
      else (st, "bad-op")
    | _, _, _ => (st, "bad-op")
  | "wg.new" :: _ =>
    match stepG st.cur toks with
    | (some g, "ok") => ({ cur := some g }, "ok")      -- a new grid forgets the saved copies
    | (_, o) => (st, o)
  | _ =>
    let (g', o) := stepG st.cur toks
    ({ st with cur := g' }, o)

def main : IO Unit := Proto.run ({} : St) step
