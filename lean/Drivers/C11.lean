import RomeaModel.Proto
import RomeaModel.Pose
open Romea Romea.Proto Romea.Pose

/-! Driver for C11: pose / twist reductions, covariance embedding, pose transformation (mean),
    uncertainty ellipse — the model of `RomeaModel/Pose.lean` at `Float` (binary64). -/

structure St where
  last : Option (Array Float × Array Float) := none     -- position, orientation of the last `pose.mul*` result

def parseFloats? (l : List String) : Option (Array Float) := (parseAll? parseF64? l).map List.toArray

def vecOf (a : Array Float) (off n : Nat) : Vec n Float := fun i => a[off + i.1]!
def matOf (a : Array Float) (off n m : Nat) : Mat n m Float := fun i j => a[off + i.1 * m + j.1]!

def fmtVec {n : Nat} (v : Vec n Float) : List String := (List.finRange n).map (fun i => fmtF64 (v i))
def fmtMat {n m : Nat} (a : Mat n m Float) : List String :=
  (List.finRange n).flatMap (fun i => (List.finRange m).map (fun j => fmtF64 (a i j)))

def pose3Of (a : Array Float) (off : Nat) : Pose3D Float :=
  { position := vecOf a off 3, orientation := vecOf a (off + 3) 3, covariance := matOf a (off + 6) 6 6 }
def twist3Of (a : Array Float) (off : Nat) : Twist3D Float :=
  { linearSpeeds := vecOf a off 3, angularSpeeds := vecOf a (off + 3) 3, covariance := matOf a (off + 6) 6 6 }

def fmtPose2 (p : Pose2D Float) : List String := fmtVec p.position ++ [fmtF64 p.yaw] ++ fmtMat p.covariance
def fmtTwist2 (t : Twist2D Float) : List String := fmtVec t.linearSpeeds ++ [fmtF64 t.angularSpeed] ++ fmtMat t.covariance
def fmtEllipse (e : Ellipse Float) : List String :=
  fmtVec e.center ++ [fmtF64 e.orientation, fmtF64 e.major, fmtF64 e.minor]

/-- run-time check of the eigen contract (`IsEig2`, up to rounding) on the stand-in oracle's own output;
    the harness prints the same flag for Eigen's JacobiSVD -/
def contractFlag (c : Mat 2 2 Float) : String :=
  let d := eig2Float c
  let s := Float.abs (c 0 0) + Float.abs (c 0 1) + Float.abs (c 1 0) + Float.abs (c 1 1)
  let orth := (List.finRange 2).all fun i => (List.finRange 2).all fun j =>
    Float.abs (d.U 0 i * d.U 0 j + d.U 1 i * d.U 1 j - (if i == j then 1 else 0)) ≤ 1e-12
  let rec_ := (List.finRange 2).all fun i => (List.finRange 2).all fun j =>
    Float.abs (c i j - (d.U i 0 * d.s0 * d.U j 0 + d.U i 1 * d.s1 * d.U j 1)) ≤ 1e-12 * s
  if orth && rec_ && d.s1 ≤ d.s0 && 0 ≤ d.s1 then "contract:1" else "contract:0"

def doMul (st : St) (a : Array Float) (pos ori : Array Float) : St × String :=
  let (p, o) := poseMulMean (fun l => l) (matOf a 0 3 3) (vecOf a 9 3) (vecOf pos 0 3) (vecOf ori 0 3)
  ({ st with last := some (p.a, o.a) }, unwords (fmtVec p.get ++ fmtVec o.get ++ ["contract:1"]))

def step (st : St) (toks : List String) : St × String :=
  match toks with
  | op :: args =>
    match parseFloats? args with
    | none => (st, "bad-op")
    | some a =>
      match op, a.size with
      | "cov.se2", 36 => (st, unwords (fmtMat (tab (toSe2Covariance (matOf a 0 6 6))).get))
      | "cov.se3", 9 => (st, unwords (fmtMat (tab (toSe3Covariance (matOf a 0 3 3))).get))
      | "pose.to2d", 42 => (st, unwords (fmtPose2 (toPose2D (pose3Of a 0))))
      | "pose.topos3d", 42 =>
        let p := toPosition3D (pose3Of a 0)
        (st, unwords (fmtVec p.position ++ fmtMat p.covariance))
      | "twist.to2d", 42 => (st, unwords (fmtTwist2 (toTwist2D (twist3Of a 0))))
      | "pt.to2d", 84 =>
        let r := toPoseAndTwist2D { pose := pose3Of a 0, twist := twist3Of a 42 }
        (st, unwords (fmtPose2 r.pose ++ fmtTwist2 r.twist))
      | "pose.mul", 18 => doMul st a (a.extract 12 15) (a.extract 15 18)
      | "pose.mulprev", 12 =>
        match st.last with
        | some (p, o) => doMul st a p o
        | none => (st, "bad-op")
      | "ell.pos2d", 7 =>
        let e := uncertaintyEllipsePosition eig2Float { position := vecOf a 0 2, covariance := matOf a 2 2 2 } a[6]!
        (st, unwords (fmtEllipse e ++ [contractFlag (matOf a 2 2 2)]))
      | "ell.pose2d", 13 =>
        let e := uncertaintyEllipsePose eig2Float { position := vecOf a 0 2, yaw := a[2]!, covariance := matOf a 3 3 3 } a[12]!
        let c3 := matOf a 3 3 3
        (st, unwords (fmtEllipse e ++ [contractFlag (fun i j => c3 ⟨i.1, by omega⟩ ⟨j.1, by omega⟩)]))
      | _, _ => (st, "bad-op")
  | _ => (st, "bad-op")

def main : IO Unit := Proto.run ({} : St) step
