import RomeaModel.Proto
import RomeaModel.Scalar
import RomeaModel.LeastSquares
import RomeaModel.LeastSquaresOracles
import RomeaModel.PointToPlane
open Romea Romea.Proto Romea.LeastSquares Romea.PointToPlane

/-! Driver for C05: `FindRigidTransformationByLeastSquares<PointType>` for the eight point types.

    lsq.new T                      T ∈ c2f c2d c3f c3d h2f h2d h3f h3d              -> ok
    lsq.setpre scale               setPreconditioner(P(∅, scale), P(∅, scale))     -> ok
    lsq.find a n  src tgt nrm      aligned arrays, n points of SIZE scalars each   -> M (DIM+1)² entries, row-major
    lsq.find i ns nt m src tgt nrm corr   index-based, corr = m tokens `s:t`       -> M …
    lsq.findp a scale n …          the PreconditionedPointSet overloads: both sets are built with
    lsq.findp i scale ns nt m …    PreconditionedPointSet(points, scale)           -> M …

  Malformed lines and correspondences pointing outside the sets are `bad-op` on both sides. -/

class Wire (α : Type) where
  parse? : String → Option α
  fmt : α → String
  nan : α

instance : Wire Float := ⟨parseF64?, fmtF64, 0.0 / 0.0⟩
instance : Wire Float32 := ⟨parseF32?, fmtF32, 0.0 / 0.0⟩

def parsePair? (s : String) : Option (Nat × Nat) :=
  match s.splitOn ":" with
  | [a, b] => do pure ((← a.toNat?), (← b.toNat?))
  | _ => none

section
variable {α : Type} [NatCast α] [Add α] [Sub α] [Mul α] [Div α] [Neg α] [LT α] [DecidableLT α] [Trans α]
  [Inhabited α] [Limits α] [Wire α]

def fmtMat (tag : String) (m : Mat α) : String := unwords (tag :: (m.toList.map fun r => r.toList.map Wire.fmt).flatten)

/-- split `n*size` scalars into `n` points -/
def chunk (size n : Nat) (v : Array α) (off : Nat) : Array (Pt α) :=
  Array.ofFn (n := n) fun k => Array.ofFn (n := size) fun c => v.getD (off + k.val * size + c.val) zero

def junkJ : Nat → Nat → α := fun _ _ => Wire.nan
def junkY : Nat → α := fun _ => Wire.nan

def findA (dim size : Nat) (e : Estimator α) (scale : Option α) (rest : List String) : Option (Estimator α × String) := do
  match rest with
  | n :: vals =>
    let n ← n.toNat?
    if n > 100000 then none else
    let v ← parseAll? (Wire.parse? (α := α)) vals
    if v.length ≠ 3 * n * size then none else
    let v := v.toArray
    let src := chunk size n v 0
    let tgt := chunk size n v (n * size)
    let nrm := chunk size n v (2 * n * size)
    let r := match scale with
      | none => findAligned execEnv dim size e src tgt nrm junkJ junkY
      | some sc => findAlignedPre execEnv dim size e (precondition src sc) (precondition tgt sc) nrm junkJ junkY
    pure (r.1, fmtMat "M" r.2)
  | _ => none

def findI (dim size : Nat) (e : Estimator α) (scale : Option α) (rest : List String) : Option (Estimator α × String) := do
  match rest with
  | ns :: nt :: m :: vals =>
    let ns ← ns.toNat?
    let nt ← nt.toNat?
    let m ← m.toNat?
    if ns > 100000 ∨ nt > 100000 ∨ m > 100000 then none else
    let nv := (ns + 2 * nt) * size
    if vals.length ≠ nv + m then none else
    let v ← parseAll? (Wire.parse? (α := α)) (vals.take nv)
    let corr ← parseAll? parsePair? (vals.drop nv)
    if corr.any (fun p => p.1 ≥ ns ∨ p.2 ≥ nt) then none else
    let v := v.toArray
    let src := chunk size ns v 0
    let tgt := chunk size nt v (ns * size)
    let nrm := chunk size nt v ((ns + nt) * size)
    let r := match scale with
      | none => findIndexed execEnv dim size e src tgt nrm corr.toArray junkJ junkY
      | some sc => findIndexedPre execEnv dim size e (precondition src sc) (precondition tgt sc) nrm corr.toArray junkJ junkY
    pure (r.1, fmtMat "M" r.2)
  | _ => none

def stepG (dim size : Nat) (e : Estimator α) (toks : List String) : Estimator α × String :=
  match toks with
  | ["lsq.setpre", sc] =>
    match Wire.parse? (α := α) sc with
    | some sc => (setPreconditioner dim e (precondition #[] sc), "ok")
    | none => (e, "bad-op")
  | "lsq.find" :: "a" :: rest => match findA dim size e none rest with
    | some r => r
    | none => (e, "bad-op")
  | "lsq.find" :: "i" :: rest => match findI dim size e none rest with
    | some r => r
    | none => (e, "bad-op")
  | "lsq.findp" :: "a" :: sc :: rest =>
    match Wire.parse? (α := α) sc with
    | some sc => match findA dim size e (some sc) rest with
      | some r => r
      | none => (e, "bad-op")
    | none => (e, "bad-op")
  | "lsq.findp" :: "i" :: sc :: rest =>
    match Wire.parse? (α := α) sc with
    | some sc => match findI dim size e (some sc) rest with
      | some r => r
      | none => (e, "bad-op")
    | none => (e, "bad-op")
  | _ => (e, "bad-op")
end

inductive St
  | none
  | d (dim size : Nat) (e : Estimator Float)
  | f (dim size : Nat) (e : Estimator Float32)

def step (st : St) (toks : List String) : St × String :=
  match toks with
  | ["lsq.new", t] =>
    match t with
    | "c2d" => (.d 2 2 (init 2), "ok")
    | "c3d" => (.d 3 3 (init 3), "ok")
    | "h2d" => (.d 2 3 (init 2), "ok")
    | "h3d" => (.d 3 4 (init 3), "ok")
    | "c2f" => (.f 2 2 (init 2), "ok")
    | "c3f" => (.f 3 3 (init 3), "ok")
    | "h2f" => (.f 2 3 (init 2), "ok")
    | "h3f" => (.f 3 4 (init 3), "ok")
    | _ => (st, "bad-op")
  | _ =>
    match st with
    | .none => (st, "bad-op")
    | .d dim size e => let r := stepG dim size e toks; (.d dim size r.1, r.2)
    | .f dim size e => let r := stepG dim size e toks; (.f dim size r.1, r.2)

def main : IO Unit := Proto.run St.none step
