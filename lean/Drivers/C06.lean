import RomeaModel.Proto
import RomeaModel.Ransac
import RomeaModel.Sampler
open Romea Romea.Proto Romea.Ransac Romea.Generated

/-! Driver for C06: RANSAC / ICP control skeleton at `Float` (binary64); the sampler (`RomeaModel/Sampler.lean`) at
    `Float` weights with `Float` / `Float32` points. -/

/-- `FITTING_PROBABILITY_` as the `RansacIterations` constructor sees it (`const float &`) -/
def fittingProbability : Float :=
  if C06.fittingProbabilityIsFloat then
    (OfScientific.ofScientific C06.fittingProbabilityMantissa true C06.fittingProbabilityExponent : Float32).toFloat
  else (OfScientific.ofScientific C06.fittingProbabilityMantissa true C06.fittingProbabilityExponent : Float)

def icpEpsilon : Float := OfScientific.ofScientific C06.icpEpsilonMantissa true C06.icpEpsilonExponent

def dblEps : Float := Limits.eps
def dblMax : Float := Limits.maxVal

/-! ### Sampler ops -/

/-- the sampler object of a case: its type, the model state at the point scalar of that type, and the point set /
    correspondence list handed to the following draws -/
structure Smp where
  ty : String
  dim : Nat
  homog : Bool
  isFloat : Bool
  stD : Sampler.State Float Float
  stF : Sampler.State Float Float32
  pts : List (List Float) := []                 -- as parsed (`double`), `DIM` coordinates each
  corrs : List (Sampler.Corr Float) := []

/-- order of Eigen's `.sum()` of the squares in `updateWeights_` as compiled by g++ 12 -O3 (SSE2, no FMA), measured on
    the real class for every point type: three `float`s are added from the right, four coefficients as two packets. -/
def sumOrderOf (size : Nat) (isFloat : Bool) : Sampler.SumOrder :=
  if size = 4 then .pairs else if size = 3 ∧ isFloat then .right else .left

namespace Smp
def size (s : Smp) : Nat := if s.homog then s.dim + 1 else s.dim
def order (s : Smp) : Sampler.SumOrder := sumOrderOf s.size s.isFloat
/-- `PT<P>::make`: `static_cast<Scalar>` of the coordinates, trailing 1 for homogeneous points -/
def mkD (s : Smp) (c : List Float) : List Float := if s.homog then c ++ [1.0] else c
def mkF (s : Smp) (c : List Float) : List Float32 := (s.mkD c).map Float.toFloat32
def engine (s : Smp) : Nat := if s.isFloat then s.stF.engine else s.stD.engine
def scaleStr (s : Smp) : List String :=
  if s.isFloat then s.stF.scale.map (fun x => fmtF64 x.toFloat) else s.stD.scale.map fmtF64
def weightsStr (s : Smp) : List String :=
  let w := if s.isFloat then s.stF.weights else s.stD.weights
  let c := if s.isFloat then s.stF.cum else s.stD.cum
  ["w", toString w.length] ++ w.map fmtF64 ++ ["c", toString c.length] ++ c.map fmtF64
end Smp

structure St where
  dim : Nat := 2
  isFloat : Bool := false
  sorted : List (Corr Float) := []
  n : Nat := 0
  cons : Consensus Float := Consensus.cleared dblMax
  loaded : Bool := false
  smp : Option Smp := none

def parseType? : String → Option (Nat × Bool × Bool)   -- dim, homogeneous, float
  | "c2d" => some (2, false, false) | "c3d" => some (3, false, false)
  | "h2d" => some (2, true, false) | "h3d" => some (3, true, false)
  | "c2f" => some (2, false, true) | "c3f" => some (3, false, true)
  | "h2f" => some (2, true, true) | "h3f" => some (3, true, true)
  | _ => none

def fmtCorr (c : Corr Float) : String := s!"{c.src}:{c.tgt}:{fmtF64 c.d}"

def parseBool? : String → Option Bool
  | "0" => some false | "1" => some true | _ => none

/-- groups of `k` tokens -/
def chunks (k : Nat) : List String → Option (List (List String))
  | [] => some []
  | l => if k = 0 ∨ l.length < k then none else
    match chunks k (l.drop k) with
    | some r => some (l.take k :: r)
    | none => none
termination_by l => l.length
decreasing_by simp_all; omega

def parseCorr? : List String → Option (Corr Float)
  | [s, t, d] => do pure { src := (← s.toNat?), tgt := (← t.toNat?), d := (← parseF64? d) }
  | _ => none

def parseCorrs? (n : String) (rest : List String) : Option (List (Corr Float)) := do
  let n ← n.toNat?
  let ch ← chunks 3 rest
  if ch.length ≠ n then none else parseAll? parseCorr? ch

def smpStep (st : St) (toks : List String) : St × String :=
  match toks, st.smp with
  | ["smp.new", ty], old =>
    match parseType? ty with
    | some (dim, homog, isFloat) =>
      let size := if homog then dim + 1 else dim
      -- the point set and the correspondence list survive a new object of the same type (as in the harness)
      let (pts, corrs) := match old with
        | some o => if o.ty == ty then (o.pts, o.corrs) else ([], [])
        | none => ([], [])
      let s : Smp := { ty := ty, dim := dim, homog := homog, isFloat := isFloat, stD := Sampler.State.init size,
                       stF := Sampler.State.init size, pts := pts, corrs := corrs }
      ({ st with smp := some s }, unwords (["ok", "eng", toString s.engine, "scale"] ++ s.scaleStr))
    | none => (st, "bad-op")
  | "smp.scale" :: rest, some s =>
    match parseAll? parseF64? rest with
    | some v =>
      if v.length ≠ 2 * s.dim then (st, "bad-op") else
      let lo := v.take s.dim
      let hi := v.drop s.dim
      let s' := if s.isFloat then { s with stF := s.stF.computeScale (s.mkF lo) (s.mkF hi) }
                else { s with stD := s.stD.computeScale (s.mkD lo) (s.mkD hi) }
      ({ st with smp := some s' }, unwords ("scale" :: s'.scaleStr))
    | none => (st, "bad-op")
  | "smp.pts" :: n :: rest, some s =>
    match n.toNat?, parseAll? parseF64? rest with
    | some n, some v =>
      if v.length ≠ s.dim * n then (st, "bad-op") else
      let pts := (List.range n).map (fun i => (v.drop (s.dim * i)).take s.dim)
      ({ st with smp := some { s with pts := pts } }, s!"ok {n}")
    | _, _ => (st, "bad-op")
  | "smp.corr" :: m :: rest, some s =>
    match m.toNat?, chunks 3 rest with
    | some m, some ch =>
      if ch.length ≠ m then (st, "bad-op") else
      match parseAll? (fun (c : List String) => match c with
        | [a, b, w] => do pure ({ src := (← a.toNat?), tgt := (← b.toNat?), weight := (← parseF64? w) } : Sampler.Corr Float)
        | _ => none) ch with
      | some cs =>
        if cs.any (fun c => c.src ≥ s.pts.length) then (st, "bad-op") else
        ({ st with smp := some { s with corrs := cs } }, s!"ok {m}")
      | none => (st, "bad-op")
    | _, _ => (st, "bad-op")
  | ["smp.draw", k], some s =>
    match k.toNat? with
    | some k =>
      if s.corrs.length ≤ k then (st, "bad-op") else
      let (s', idx) :=
        if s.isFloat then
          let r := s.stF.drawPoints s.order (s.pts.map s.mkF).toArray s.corrs k
          ({ s with stF := r.1 }, r.2)
        else
          let r := s.stD.drawPoints s.order (s.pts.map s.mkD).toArray s.corrs k
          ({ s with stD := r.1 }, r.2)
      let drawn := idx.map (fun i => match s.corrs[i]? with
        | some c => s!"{i}:{c.src}:{c.tgt}"
        | none => s!"{i}:oob")
      ({ st with smp := some s' },
        unwords (["idx", toString idx.length] ++ drawn ++ s'.weightsStr ++ ["eng", toString s'.engine]))
    | none => (st, "bad-op")
  | ["smp.reset"], some s =>
    let s' := if s.isFloat then { s with stF := s.stF.resetWeights } else { s with stD := s.stD.resetWeights }
    ({ st with smp := some s' }, unwords ("reset" :: s'.weightsStr))
  | ["smp.u", k], some s =>
    match k.toNat? with
    | some k =>
      if k > 10000 then (st, "bad-op") else
      let (e, us) := (List.range k).foldl (fun (acc : Nat × List Float) _ =>
        let r := Sampler.uniform01 (α := Float) acc.1
        (r.1, acc.2 ++ [r.2])) (s.engine, [])
      let s' := if s.isFloat then { s with stF := { s.stF with engine := e } } else { s with stD := { s.stD with engine := e } }
      ({ st with smp := some s' }, unwords (["u", toString k] ++ us.map fmtF64 ++ ["eng", toString e]))
    | none => (st, "bad-op")
  | _, _ => (st, "bad-op")

def castOf (isFloat : Bool) : Float → Float := if isFloat then fun x => x.toFloat32.toFloat else id

def step (st : St) (toks : List String) : St × String :=
  match toks with
  | "rit.run" :: p :: nPts :: maxIter :: nDraw :: k :: inl =>
    match parseF32? p, nPts.toNat?, maxIter.toNat?, nDraw.toNat?, k.toNat?, parseAll? String.toNat? inl with
    | some p, some nPts, some maxIter, some nDraw, some k, some inl =>
      if inl.length ≠ k then (st, "bad-op") else
      let it0 : Iterations Float := Iterations.init p.toFloat nPts maxIter
      let (_, outs) := inl.foldl (fun (acc : Iterations Float × List String) i =>
        let it := acc.1.update dblEps i nDraw
        (it, acc.2 ++ [fmtF64 it.n])) (it0, [fmtF64 it0.n])
      (st, unwords ("ok" :: outs))
    | _, _, _, _, _, _ => (st, "bad-op")
  | "ransac.script" :: sigma :: nPts :: nDraw :: minInl :: n :: rest =>
    match parseF64? sigma, nPts.toNat?, nDraw.toNat?, minInl.toNat?, n.toNat?, chunks 2 rest with
    | some _, some nPts, some nDraw, some minInl, some n, some ch =>
      let steps := parseAll? (fun (c : List String) => match c with
        | [d, c] => do pure ((← parseBool? d), (← c.toNat?))
        | _ => none) ch
      match steps with
      | some steps =>
        if steps.length ≠ n then (st, "bad-op") else
        let s0 : Scripted := { nPts := nPts, nDraw := nDraw, minInl := minInl, steps := steps }
        let r := estimateModel scriptedOps fittingProbability dblEps C06.ransacMaxIterations s0
        if r.diverged then (st, "diverged") else
        -- iterations = number of `draw` calls; `best` is cross-checked through `ret` and the refine count
        (st, unwords ["ret", fmtBool r.ret,
                      "draws", toString r.s.draws, "counts", toString r.s.counts, "refines", toString r.s.refines])
      | none => (st, "bad-op")
    | _, _, _, _, _, _ => (st, "bad-op")
  | "rc.load" :: ty :: n :: rest =>
    match parseType? ty, parseCorrs? n rest with
    | some (dim, _, isFloat), some cs =>
      -- the generator numbers the source points by position (one source point per correspondence)
      if (cs.zipIdx.all fun (c, i) => c.src == i) = false then (st, "bad-op") else
      let sorted := sortedByTarget cs
      ({ dim := dim, isFloat := isFloat, sorted := sorted, n := cs.length, cons := Consensus.cleared dblMax, loaded := true },
        unwords ("ok" :: sorted.map (fun c => toString c.src)))
    | _, _ => (st, "bad-op")
  | "rc.count" :: sigma :: rest =>
    match parseF64? sigma, chunks (st.dim + 1) rest with
    | some sigma, some ch =>
      if !st.loaded ∨ ch.length ≠ st.n then (st, "bad-op") else
      match parseAll? (fun (c : List String) => c.getLast?.bind parseF64?) ch with
      | some errByIdx =>
        let errs := st.sorted.map (fun c => errByIdx.getD c.src 0.0)
        let (cons, ret, inl, _) := countInliers (castOf st.isFloat) (minInlOf st.dim) st.sorted errs sigma st.cons
        ({ st with cons := cons },
          unwords (["ret", toString ret, "inl", toString inl.length] ++ inl.map fmtCorr ++ [
                   "bestrmse", fmtF64 cons.bestRmse, "best", toString cons.best.length] ++ cons.best.map fmtCorr))
      | none => (st, "bad-op")
    | _, _ => (st, "bad-op")
  | "icp.filter" :: n :: rest =>
    match parseCorrs? n rest with
    | some cs =>
      let kept := oneToOne cs
      (st, unwords (["kept", toString kept.length] ++ kept.map fmtCorr))
    | none => (st, "bad-op")
  | "icp.loop" :: maxIter :: eps :: sz :: n :: rest =>
    match maxIter.toNat?, parseF64? eps, sz.toNat?, n.toNat? with
    | some maxIter, some eps, some sz, some n =>
      match chunks (sz * sz + 2) rest with
      | some ch =>
        let steps := parseAll? (fun (c : List String) => match c with
          | e :: r :: t => do
              let T ← parseAll? parseF64? t
              pure ({ est := (← parseBool? e), rmse := (← parseF64? r), T := T } : IcpStep Float)
          | _ => none) ch
        match steps with
        | some steps =>
          if steps.length ≠ n then (st, "bad-op") else
          let ident : List Float := (List.range (sz * sz)).map (fun i => if i / sz == i % sz then 1.0 else 0.0)
          let (flag, s) := icpFind maxIter eps ident dblMax steps
          (st, unwords (["flag", fmtBool flag, "n", toString s.n, "broke", fmtBool s.broke, "bestrmse", fmtF64 s.bestRmse,
                         "best"] ++ s.best.map fmtF64))
        | none => (st, "bad-op")
      | none => (st, "bad-op")
    | _, _, _, _ => (st, "bad-op")
  | ["c06.constants"] =>
    (st, unwords ["icpmax", toString C06.icpMaxIterations, "icpeps", fmtF64 icpEpsilon, "p", fmtF64 fittingProbability,
                  "ransacmax", toString C06.ransacMaxIterations, "factor", toString C06.inlierFactor,
                  "draw2", toString C06.drawPoints2D, "draw3", toString C06.drawPoints3D,
                  "mininl", toString C06.minimalInliersFactor])
  | op :: _ =>
    if op.startsWith "smp." then smpStep st toks else
    if op ∈ ["icp.run", "icp.trace", "icp.match", "ransac.synth", "rr.real"] then (st, "probe-only") else (st, "bad-op")
  | [] => (st, "bad-op")

def main : IO Unit := Proto.run ({} : St) step
