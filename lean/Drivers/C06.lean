import RomeaModel.Proto
import RomeaModel.Ransac
open Romea Romea.Proto Romea.Ransac Romea.Generated

/-! Driver for C06: RANSAC / ICP control skeleton at `Float` (binary64). -/

/-- `FITTING_PROBABILITY_` as the `RansacIterations` constructor sees it (`const float &`) -/
def fittingProbability : Float :=
  if C06.fittingProbabilityIsFloat then
    (OfScientific.ofScientific C06.fittingProbabilityMantissa true C06.fittingProbabilityExponent : Float32).toFloat
  else (OfScientific.ofScientific C06.fittingProbabilityMantissa true C06.fittingProbabilityExponent : Float)

def icpEpsilon : Float := OfScientific.ofScientific C06.icpEpsilonMantissa true C06.icpEpsilonExponent

def dblEps : Float := Limits.eps
def dblMax : Float := Limits.maxVal

structure St where
  dim : Nat := 2
  isFloat : Bool := false
  sorted : List (Corr Float) := []
  n : Nat := 0
  cons : Consensus Float := Consensus.cleared dblMax
  loaded : Bool := false

def parseType? : String → Option (Nat × Bool × Bool)   -- dim, homogeneous, float
  | "c2d" => some (2, false, false) | "c3d" => some (3, false, false)
  | "h2d" => some (2, true, false) | "h3d" => some (3, true, false)
  | "c2f" => some (2, false, true) | "c3f" => some (3, false, true)
  | "h2f" => some (2, true, true) | "h3f" => some (3, true, true)
  | _ => none

def fmtCorr (c : Corr Float) : String := s!"{c.src}:{c.tgt}:{fmtF64 c.d}"

def parseBool? : String → Option Bool
  | "0" => some false | "1" => some true | _ => none

/-- groups of `k` tokens -/
def chunks (k : Nat) : List String → Option (List (List String))
  | [] => some []
  | l => if k = 0 ∨ l.length < k then none else
    match chunks k (l.drop k) with
    | some r => some (l.take k :: r)
    | none => none
termination_by l => l.length
decreasing_by simp_all; omega

def parseCorr? : List String → Option (Corr Float)
  | [s, t, d] => do pure { src := (← s.toNat?), tgt := (← t.toNat?), d := (← parseF64? d) }
  | _ => none

def parseCorrs? (n : String) (rest : List String) : Option (List (Corr Float)) := do
  let n ← n.toNat?
  let ch ← chunks 3 rest
  if ch.length ≠ n then none else parseAll? parseCorr? ch

def castOf (isFloat : Bool) : Float → Float := if isFloat then fun x => x.toFloat32.toFloat else id

def step (st : St) (toks : List String) : St × String :=
  match toks with
  | "rit.run" :: p :: nPts :: maxIter :: nDraw :: k :: inl =>
    match parseF32? p, nPts.toNat?, maxIter.toNat?, nDraw.toNat?, k.toNat?, parseAll? String.toNat? inl with
    | some p, some nPts, some maxIter, some nDraw, some k, some inl =>
      if inl.length ≠ k then (st, "bad-op") else
      let it0 : Iterations Float := Iterations.init p.toFloat nPts maxIter
      let (_, outs) := inl.foldl (fun (acc : Iterations Float × List String) i =>
        let it := acc.1.update dblEps i nDraw
        (it, acc.2 ++ [fmtF64 it.n])) (it0, [fmtF64 it0.n])
      (st, unwords ("ok" :: outs))
    | _, _, _, _, _, _ => (st, "bad-op")
  | "ransac.script" :: sigma :: nPts :: nDraw :: minInl :: n :: rest =>
    match parseF64? sigma, nPts.toNat?, nDraw.toNat?, minInl.toNat?, n.toNat?, chunks 2 rest with
    | some _, some nPts, some nDraw, some minInl, some n, some ch =>
      let steps := parseAll? (fun (c : List String) => match c with
        | [d, c] => do pure ((← parseBool? d), (← c.toNat?))
        | _ => none) ch
      match steps with
      | some steps =>
        if steps.length ≠ n then (st, "bad-op") else
        let s0 : Scripted := { nPts := nPts, nDraw := nDraw, minInl := minInl, steps := steps }
        let r := estimateModel scriptedOps fittingProbability dblEps C06.ransacMaxIterations s0
        if r.diverged then (st, "diverged") else
        -- iterations = number of `draw` calls; `best` is cross-checked through `ret` and the refine count
        (st, unwords ["ret", fmtBool r.ret,
                      "draws", toString r.s.draws, "counts", toString r.s.counts, "refines", toString r.s.refines])
      | none => (st, "bad-op")
    | _, _, _, _, _, _ => (st, "bad-op")
  | "rc.load" :: ty :: n :: rest =>
    match parseType? ty, parseCorrs? n rest with
    | some (dim, _, isFloat), some cs =>
      -- the generator numbers the source points by position (one source point per correspondence)
      if (cs.zipIdx.all fun (c, i) => c.src == i) = false then (st, "bad-op") else
      let sorted := sortedByTarget cs
      ({ dim := dim, isFloat := isFloat, sorted := sorted, n := cs.length, cons := Consensus.cleared dblMax, loaded := true },
        unwords ("ok" :: sorted.map (fun c => toString c.src)))
    | _, _ => (st, "bad-op")
  | "rc.count" :: sigma :: rest =>
    match parseF64? sigma, chunks (st.dim + 1) rest with
    | some sigma, some ch =>
      if !st.loaded ∨ ch.length ≠ st.n then (st, "bad-op") else
      match parseAll? (fun (c : List String) => c.getLast?.bind parseF64?) ch with
      | some errByIdx =>
        let errs := st.sorted.map (fun c => errByIdx.getD c.src 0.0)
        let (cons, ret, inl, _) := countInliers (castOf st.isFloat) (minInlOf st.dim) st.sorted errs sigma st.cons
        ({ st with cons := cons },
          unwords (["ret", toString ret, "inl", toString inl.length] ++ inl.map fmtCorr ++ [
                   "bestrmse", fmtF64 cons.bestRmse, "best", toString cons.best.length] ++ cons.best.map fmtCorr))
      | none => (st, "bad-op")
    | _, _ => (st, "bad-op")
  | "icp.filter" :: n :: rest =>
    match parseCorrs? n rest with
    | some cs =>
      let kept := oneToOne cs
      (st, unwords (["kept", toString kept.length] ++ kept.map fmtCorr))
    | none => (st, "bad-op")
  | "icp.loop" :: maxIter :: eps :: sz :: n :: rest =>
    match maxIter.toNat?, parseF64? eps, sz.toNat?, n.toNat? with
    | some maxIter, some eps, some sz, some n =>
      match chunks (sz * sz + 2) rest with
      | some ch =>
        let steps := parseAll? (fun (c : List String) => match c with
          | e :: r :: t => do
              let T ← parseAll? parseF64? t
              pure ({ est := (← parseBool? e), rmse := (← parseF64? r), T := T } : IcpStep Float)
          | _ => none) ch
        match steps with
        | some steps =>
          if steps.length ≠ n then (st, "bad-op") else
          let ident : List Float := (List.range (sz * sz)).map (fun i => if i / sz == i % sz then 1.0 else 0.0)
          let (flag, s) := icpFind maxIter eps ident dblMax steps
          (st, unwords (["flag", fmtBool flag, "n", toString s.n, "broke", fmtBool s.broke, "bestrmse", fmtF64 s.bestRmse,
                         "best"] ++ s.best.map fmtF64))
        | none => (st, "bad-op")
      | none => (st, "bad-op")
    | _, _, _, _ => (st, "bad-op")
  | ["c06.constants"] =>
    (st, unwords ["icpmax", toString C06.icpMaxIterations, "icpeps", fmtF64 icpEpsilon, "p", fmtF64 fittingProbability,
                  "ransacmax", toString C06.ransacMaxIterations, "factor", toString C06.inlierFactor,
                  "draw2", toString C06.drawPoints2D, "draw3", toString C06.drawPoints3D,
                  "mininl", toString C06.minimalInliersFactor])
  | op :: _ =>
    if op ∈ ["icp.run", "icp.trace", "icp.match", "ransac.synth", "rr.real"] then (st, "probe-only") else (st, "bad-op")
  | [] => (st, "bad-op")

def main : IO Unit := Proto.run ({} : St) step
