import RomeaModel.Proto
import RomeaModel.Window
open Romea Romea.Proto Romea.Window

/-! Driver for C16: online average / variance (Float glue around the integer model), ring buffer. -/

structure St where
  stat : Option Stat := none
  isVar : Bool := false
  avg : Float := 0.0 / 0.0
  var : Float := 0.0 / 0.0
  ring : Option (RingBuf Nat) := none

/-- `static_cast<int>(1 / averagePrecision)` -/
def multiplierOf (prec : Float) : Int := (1.0 / prec).toInt64.toInt

def fmtStat (st : St) (s : Stat) : String :=
  unwords (["avg", fmtF64 st.avg] ++ (if st.isVar then ["var", fmtF64 st.var] else []) ++
    ["avail", fmtBool s.available, "idx", toString s.idx, "n", toString s.data.length, "sum", toString s.sum])

def nanF : Float := 0.0 / 0.0

def step (st : St) (toks : List String) : St × String :=
  match toks with
  | [op, p, w] =>
    if op == "avg.new" || op == "var.new" then
      match parseF64? p, parseNat? w with
      | some p, some w =>
        if w == 0 then (st, "bad-op") else
        let s := Stat.init w (multiplierOf p)
        let st' : St := { stat := some s, isVar := op == "var.new", avg := nanF, var := nanF, ring := none }
        (st', fmtStat st' s)
      | _, _ => (st, "bad-op")
    else (st, "bad-op")
  | ["stat.upd", v] =>
    match st.stat, parseF64? v with
    | some s, some v =>
      -- long long integerValue = static_cast<long long>(value * multiplier_)
      let q : Int := (v * Float.ofInt s.m).toInt64.toInt
      let s' := s.update q
      let n := Float.ofNat s'.data.length
      -- average = sumOfData_ / (double(multiplier_) * data_.size())
      let avg := Float.ofInt s'.sum / (Float.ofInt s'.m * n)
      -- squaredAverage = sumOfSquaredData_ / double(squaredMultiplier_)
      let sqAvg := Float.ofInt s'.sumsq / Float.ofInt s'.m2
      -- variance = (squaredAverage - data_.size() * average * average) / windowSizeMinusOne_
      let var := (sqAvg - n * avg * avg) / Float.ofNat (s'.W - 1)
      let st' := { st with stat := some s', avg := avg, var := var }
      (st', fmtStat st' s')
    | _, _ => (st, "bad-op")
  | ["stat.reset"] =>
    match st.stat with
    | some s =>
      let s' := s.reset
      let st' := { st with stat := some s', avg := nanF, var := nanF }
      (st', fmtStat st' s')
    | none => (st, "bad-op")
  | ["ring.new", c] =>
    match parseNat? c with
    | some c => if c == 0 then (st, "bad-op") else ({ st with ring := some (RingBuf.init c), stat := none }, "ok")
    | none => (st, "bad-op")
  | ["ring.app", v] =>
    match st.ring, parseNat? v with
    | some r, some v => let r' := r.append v; ({ st with ring := some r' }, s!"size {r'.size}")
    | _, _ => (st, "bad-op")
  | ["ring.clear"] =>
    match st.ring with
    | some r => ({ st with ring := some r.clear }, "size 0")
    | none => (st, "bad-op")
  | ["ring.get", k] =>
    match st.ring, parseNat? k with
    | some r, some k =>
      if k < r.size then
        match r.get? k with
        | some v => (st, s!"val {v}")
        | none => (st, "out-of-range")
      else (st, "bad-op")
    | _, _ => (st, "bad-op")
  | ["ring.dump"] =>
    match st.ring with
    | some r => (st, unwords (["size", toString r.size] ++ (List.range r.size).map (fun k => match r.get? k with | some v => toString v | none => "?")))
    | none => (st, "bad-op")
  | _ => (st, "bad-op")

def main : IO Unit := Proto.run ({} : St) step
